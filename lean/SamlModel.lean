import SamlModel.GoSem
import SamlModel.Lib.Strings
