import SamlModel.Generated.Funcs
/-!
  C16 — specification vocabulary and the executable form of the statement (definitions only;
  the theorems are in `Props/C16.lean`).
-/
namespace C16
open Go Gen

abbrev Ep := md_IndexedEndpointType

/-- xs:boolean `true` -/
def xsTrue (s : String) : Bool := s == "true" || s == "1"

/-- numeric value of the `index` attribute, read the way the code reads it (`strconv.Atoi`, error ignored) -/
def idx (e : Ep) : Int := (Lib.atoi e.Index).1

def pairOf (e : Ep) : String × String := (e.Location, e.Binding)

def select (o : Ora) (acs : List Ep) (req : String) : Res (String × String) :=
  GetAcsUrlAndBindingForResponse o acs req

/-- The documented selection rule, as a relation between the registered list, the requested binding
    and the chosen pair (any entry with the minimal index is acceptable in the last case). -/
def SpecRel (acs : List Ep) (req : String) (r : String × String) : Prop :=
  (acs = [] ∧ r = ("", "")) ∨
  (∃ e, acs.find? (fun e => e.Binding == req) = some e ∧ r = pairOf e) ∨
  (acs.find? (fun e => e.Binding == req) = none ∧
     ∃ e, acs.find? (fun e => xsTrue e.IsDefault) = some e ∧ r = pairOf e) ∨
  (acs.find? (fun e => e.Binding == req) = none ∧ acs.find? (fun e => xsTrue e.IsDefault) = none ∧
     ∃ e, e ∈ acs ∧ r = pairOf e ∧ ∀ e', e' ∈ acs → idx e ≤ idx e')

/-- executable form of `SpecRel` used by the counterexample hunt -/
def specB (acs : List Ep) (req : String) (r : String × String) : Bool :=
  match acs with
  | [] => r == ("", "")
  | _ =>
    match acs.find? (fun e => e.Binding == req) with
    | some e => r == pairOf e
    | none =>
      match acs.find? (fun e => xsTrue e.IsDefault) with
      | some e => r == pairOf e
      | none => acs.any fun e => r == pairOf e && acs.all fun e' => decide (idx e ≤ idx e')

/-- `holdsOn`: the generated function satisfies the rule on this input -/
def holdsOn (o : Ora) (acs : List Ep) (req : String) : Bool :=
  match select o acs req with
  | .panic => false
  | .ok r => specB acs req r

end C16
