import SamlModel.Model.Checker
/-!
  C20 — programs (step descriptions), the instrumented instantiation of the checker model, the
  reference interpreter, and the executable statement.  Definitions only.
-/
namespace C20
open Checker

inductive Role where
  | value | values | equal | cond | logic | error
deriving Repr, DecidableEq

def Role.name : Role → String
  | .value => "value" | .values => "values" | .equal => "equal" | .cond => "cond" | .logic => "logic" | .error => "error"

/-- one closure invocation: (index of the step that owns the closure, role of the closure) -/
structure Ev where
  step : Nat
  role : Role
deriving Repr, DecidableEq

abbrev Trace := List Ev

/-- A step as the client builds it: the kind and what each of its closures will answer. -/
inductive StepDesc where
  | notEmpty (v : String)
  | valuesNotEmpty (vs : List String)
  | length (v : String) (min max : Int)
  | equals (v e : String)
  | condNotEmpty (c : Bool) (v : String)
  | condLogic (c : Bool) (err : Bool)
  | logic (err : Bool)
  | valueStep
deriving Repr, DecidableEq

/-- logging closure: append the event, answer `a` -/
def logged (i : Nat) (r : Role) (a : α) : M Trace α := fun t => (a, t ++ [⟨i, r⟩])

/-- add step number `i` described by `d` to a checker over traces, with logging closures -/
def addDesc (c : Checker Trace) (i : Nat) : StepDesc → Checker Trace
  | .notEmpty v => withValueNotEmptyCheck c (logged i .value v) (logged i .error ())
  | .valuesNotEmpty vs => withValuesNotEmptyCheck c (logged i .values vs) (logged i .error ())
  | .length v mn mx => withValueLengthCheck c (logged i .value v) mn mx (logged i .error ())
  | .equals v e => withValueEqualsCheck c (logged i .value v) (logged i .equal e) (logged i .error ())
  | .condNotEmpty b v => withConditionalValueNotEmpty c (logged i .cond b) (logged i .value v) (logged i .error ())
  | .condLogic b e => withConditionalLogicStep c (logged i .cond b) (logged i .logic e) (logged i .error ())
  | .logic e => withLogicStep c (logged i .logic e) (logged i .error ())
  | .valueStep => withValueStep c (logged i .logic ())

/-- the client builds the chain by adding the steps of `prog` in order, numbering them from `k` -/
def buildFrom (c : Checker Trace) (k : Nat) : List StepDesc → Checker Trace
  | [] => c
  | d :: ds => buildFrom (addDesc c k d) (k + 1) ds

def build (prog : List StepDesc) : Checker Trace := buildFrom {} 0 prog

/-! ### specification: the documented failure condition and the reference interpreter -/

/-- documented failure condition per step kind -/
def fails : StepDesc → Bool
  | .notEmpty v => v == ""
  | .valuesNotEmpty vs => vs.any (· == "")
  | .length v mn mx => (decide (mn > 0) && decide (Lib.goLen v < mn)) || (decide (mx > 0) && decide (Lib.goLen v > mx))
  | .equals v e => v != e
  | .condNotEmpty c v => c && v == ""
  | .condLogic c e => c && e
  | .logic e => e
  | .valueStep => false

/-- closure reads of step `i` (everything except the failure callback), in order -/
def reads (i : Nat) : StepDesc → Trace
  | .notEmpty _ => [⟨i, .value⟩]
  | .valuesNotEmpty _ => [⟨i, .values⟩]
  | .length v mn mx =>
    (if mn > 0 then [⟨i, .value⟩] else []) ++
    (if (decide (mn > 0) && decide (Lib.goLen v < mn)) then [] else if mx > 0 then [⟨i, .value⟩] else [])
  | .equals v e => [⟨i, .value⟩, ⟨i, .equal⟩] ++ (if v != e then [⟨i, .value⟩, ⟨i, .equal⟩] else [])
  | .condNotEmpty c _ => ⟨i, .cond⟩ :: (if c then [⟨i, .value⟩] else [])
  | .condLogic c _ => ⟨i, .cond⟩ :: (if c then [⟨i, .logic⟩] else [])
  | .logic _ => [⟨i, .logic⟩]
  | .valueStep => [⟨i, .logic⟩]

/-- reference interpreter: steps in order, stop at the first failing one, its callback exactly once -/
def refFrom (k : Nat) : List StepDesc → Bool × Trace
  | [] => (false, [])
  | d :: ds =>
    if fails d then (true, reads k d ++ [⟨k, .error⟩])
    else ((refFrom (k + 1) ds).1, reads k d ++ (refFrom (k + 1) ds).2)

def refRun (prog : List StepDesc) : Bool × Trace := refFrom 0 prog

/-- executable statement for the hunt: model run = reference run -/
def holdsOn (prog : List StepDesc) : Bool :=
  checkFailed (build prog) [] == refRun prog

end C20
