import SamlModel.Lib.Xml
import SamlModel.Generated.Schema
/-
  Lib.XmlMarshal — `encoding/xml`'s struct marshaller (marshalValue / marshalStruct / marshalAttr, Go 1.23) as an
  interpreter of the schema that go2lean reads from the struct definitions (Gen.Schema), applied to a generic value
  (what reflection sees: strings, booleans, integers, nil, records in field order, slices).

  Covered: element naming precedence (XMLName tag of the type, XMLName value, field tag / field name, type name),
  `xmlns="…"` on every element whose name has a namespace, the `xmlns=""` reset for a type with an untagged XMLName
  under a namespaced parent, `attr`, `omitempty`, `chardata`, `innerxml`, `any`, nil pointers, slices.
  Not covered (Gen.Schema marks such types `bad`, and none exists): embedded structs, `a>b` parent chains,
  `comment`, `cdata`, namespaced attributes, Marshaler / TextMarshaler implementations.
-/
namespace Lib.XmlMarshal
open Lib Lib.Xml Gen.Schema

mutual
inductive GVal where
  | str (s : Str)
  | bool (b : Bool)
  | int (i : Int)
  | nil
  | struct (fields : GVals)
  | list (items : GVals)
inductive GVals where
  | nil
  | cons (v : GVal) (vs : GVals)
end

def Forest.append : Forest → Forest → Forest
  | .nil, g => g
  | .cons n f, g => .cons n (Forest.append f g)

def one (n : Node) : Forest := .cons n .nil

def GVals.toList : GVals → List GVal
  | .nil => []
  | .cons v vs => v :: GVals.toList vs

def lookupType (S : List TypeInfo) (t : String) : Option TypeInfo := S.find? (·.tname = t)

/-- `isEmptyValue` -/
def isEmpty : GVal → Bool
  | .str s => s = []
  | .bool b => !b
  | .int i => i = 0
  | .nil => true
  | .list .nil => true
  | _ => false

/-- `marshalSimple` -/
def simple : GVal → Option Str
  | .str s => some s
  | .bool b => some (if b then "true".toList else "false".toList)
  | .int i => some (toString i).toList
  | _ => none

/-- the struct type a field refers to -/
def structOf (f : Field) : Option String :=
  if f.ty.startsWith "struct:" then some (f.ty.drop 7).toString else none

/-- local part of a Go type name `pkg.Name` -/
def localTypeName (t : String) : Str := ((t.splitOn ".").getLast?.getD t).toList

/-- attributes of one struct value: `(name, value)` for every `attr` field that is not omitted -/
def attrOfField (f : Field) (v : GVal) : Option (List (Str × Str)) :=
  if f.mode ≠ "attr" then some []
  else if f.ns ≠ "" then none
  else if f.omitempty && isEmpty v then some []
  else match v with
    | .nil => some []
    | .list items => (GVals.toList items).foldl (fun acc x => match acc, x with
        | some a, .nil => some a
        | some a, x => (simple x).map fun s => a ++ [(f.name.toList, s)]
        | none, _ => none) (some [])
    | v => (simple v).map fun s => [(f.name.toList, s)]

def attrsOf : List Field → List GVal → Option (List (Str × Str))
  | [], [] => some []
  | f :: fs, v :: vs => do
    let a ← attrOfField f v
    let r ← attrsOf fs vs
    pure (a ++ r)
  | _, _ => none

/-- the runtime value of an XMLName field: `(space, local)` -/
def nameValue : GVal → Str × Str
  | .struct (.cons (.str sp) (.cons (.str lo) .nil)) => (sp, lo)
  | _ => ([], [])

structure Start where
  ns : Str
  name : Str
  /-- add `xmlns=""` (untagged XMLName under a namespaced parent) -/
  reset : Bool

/-- start-element name of a struct value (marshalValue's precedence) -/
def startOf (ti : TypeInfo) (vals : List GVal) (finfo : Option Field) (parentNs : Str) : Start :=
  let xn := (ti.fields.zip vals).find? (fun p => p.1.mode = "xmlname")
  let fromType : Option (Str × Str) := match xn with
    | some (f, v) => if f.name ≠ "" then some (f.ns.toList, f.name.toList) else
        let nv := nameValue v
        if nv.2 ≠ [] then some nv else none
    | none => none
  let named : Str × Str := match fromType with
    | some x => x
    | none => match finfo with
      | some f => if f.name ≠ "" then (f.ns.toList, f.name.toList) else ([], localTypeName ti.tname)
      | none => ([], localTypeName ti.tname)
  let untagged := match xn with
    | some (f, _) => f.name = "" && f.ns = ""
    | none => false
  { ns := named.1, name := named.2, reset := untagged && named.1 = [] && parentNs ≠ [] }

mutual
/-- one value in element position (`marshalValue` after nil / omitempty / slice handling) -/
def mElem (S : List TypeInfo) (parentNs : Str) (finfo : Option Field) (tname : Option String) : GVal → Option Forest
  | .struct vals =>
    match tname.bind (lookupType S) with
    | none => none
    | some ti =>
      let vl := GVals.toList vals
      if vl.length ≠ ti.fields.length then none else
      let st := startOf ti vl finfo parentNs
      match attrsOf ti.fields vl with
      | none => none
      | some attrs =>
        match mKids S st.ns ti.fields vals with
        | none => none
        | some kids =>
          some (one (.elem st.name st.ns (attrs ++ (if st.reset then [("xmlns".toList, [])] else [])) kids))
  | .nil => some .nil
  | .list _ => none
  | v =>
    match finfo, simple v with
    | some f, some s => some (one (.elem f.name.toList f.ns.toList [] (one (.text s))))
    | _, _ => none

/-- the items of a slice field, each an element of its own -/
def mItems (S : List TypeInfo) (parentNs : Str) (f : Field) : GVals → Option Forest
  | .nil => some .nil
  | .cons v vs =>
    -- marshalValue is called per item with the field's info: `omitempty` drops an empty item
    if f.omitempty && isEmpty v then mItems S parentNs f vs else
    match mElem S parentNs (some f) (structOf f) v, mItems S parentNs f vs with
    | some a, some b => some (Forest.append a b)
    | _, _ => none

/-- the non-attribute fields of a struct, in order (`marshalStruct`) -/
def mKids (S : List TypeInfo) (ns : Str) : List Field → GVals → Option Forest
  | [], .nil => some .nil
  | f :: fs, .cons v vs =>
    let here : Option Forest :=
      if f.mode = "attr" || f.mode = "xmlname" then some .nil
      else if f.mode = "chardata" then (match v with
        | .nil => some .nil
        | v => (simple v).map fun s => one (.text s))
      else if f.mode = "innerxml" then (match v with
        | .str s => some (if s = [] then .nil else one (.raw s))
        | _ => none)
      else if f.omitempty && isEmpty v then some .nil
      else match v with
        | .nil => some .nil
        | .list items => if f.slice then mItems S ns f items else none
        | v => mElem S ns (some f) (structOf f) v
    match here, mKids S ns fs vs with
    | some a, some b => some (Forest.append a b)
    | _, _ => none
  | _, _ => none
end

/-- `xml.Marshal(&v)` for a value of struct type `tname`: the root node -/
def marshalTree (S : List TypeInfo) (tname : String) (v : GVal) : Option Node :=
  match mElem S [] none (some tname) v with
  | some (.cons n .nil) => some n
  | _ => none

/-- the document `samlxml.Marshal` / `WriteXMLMarshalled` produce -/
def marshalDoc (S : List TypeInfo) (tname : String) (v : GVal) : Option Str :=
  (marshalTree S tname v).map fun n => header ++ print n

end Lib.XmlMarshal
