/-
  Lib.Strings — models of the few `strings` / `strconv` / `net/url` functions the translated
  code calls.  Go strings are byte strings; in decision logic they are Lean `String`s (only
  equality, emptiness, concatenation, prefix/suffix tests on ASCII delimiters are used there).
  Each function here is differentially tested against the Go function by the harness (`lib` ops).
-/
namespace Lib

/-- `strings.HasPrefix`. -/
def hasPrefix (s p : String) : Bool := p.toList.isPrefixOf s.toList

/-- `strings.HasSuffix`. -/
def hasSuffix (s p : String) : Bool := p.toList.isSuffixOf s.toList

/-- `strings.TrimPrefix`. -/
def trimPrefix (s p : String) : String :=
  if p.toList.isPrefixOf s.toList then String.ofList (s.toList.drop p.toList.length) else s

/-- `strings.TrimSuffix`. -/
def trimSuffix (s p : String) : String :=
  if p.toList.isSuffixOf s.toList then String.ofList (s.toList.take (s.toList.length - p.toList.length)) else s

/-- `unicode.IsSpace` -/
def isGoSpace (c : Char) : Bool :=
  let n := c.toNat
  (9 ≤ n && n ≤ 13) || n == 0x20 || n == 0x85 || n == 0xA0 || n == 0x1680 || (0x2000 ≤ n && n ≤ 0x200A) ||
  n == 0x2028 || n == 0x2029 || n == 0x202F || n == 0x205F || n == 0x3000

/-- `strings.Fields`: maximal runs of non-space characters -/
def fieldsAux : List Char → List Char → List (List Char)
  | [], cur => if cur.isEmpty then [] else [cur.reverse]
  | c :: cs, cur =>
    if isGoSpace c then (if cur.isEmpty then fieldsAux cs [] else cur.reverse :: fieldsAux cs [])
    else fieldsAux cs (c :: cur)

def fields (s : String) : List String := (fieldsAux s.toList []).map String.ofList

/-- `strings.ContainsAny`: some character of `chars` occurs in `s` -/
def containsAny (s chars : String) : Bool := s.toList.any fun c => chars.toList.contains c

/-- `strings.Join` -/
def join (xs : List String) (sep : String) : String := sep.intercalate xs

/-- Go `len(s)` for a string: number of bytes. -/
def goLen (s : String) : Int := s.utf8ByteSize

/-! ### byte offsets (`strings.Index`, `s[:i]`, `s[i:]`)

Go strings are indexed by byte; the model works on the characters and counts their UTF-8 widths.  An offset that falls
inside a multi-byte character has no counterpart in a Lean `String` (Go would produce an invalid UTF-8 string):
`byteTake` then stops before that character and `byteDrop` keeps it — the translated code only slices at offsets
`strings.Index` returned, which are character boundaries (`byteTake_indexChar`, `byteDrop_indexChar`). -/

def indexCharAux (c : Char) : List Char → Nat → Int
  | [], _ => -1
  | x :: xs, n => if x = c then n else indexCharAux c xs (n + x.utf8Size)

/-- `strings.Index(s, string(c))` for an ASCII `c`: the byte offset of the first `c`, or -1 -/
def indexChar (s : String) (c : Char) : Int := indexCharAux c s.toList 0

def byteTakeAux : List Char → Nat → List Char
  | [], _ => []
  | x :: xs, n => if x.utf8Size ≤ n then x :: byteTakeAux xs (n - x.utf8Size) else []

def byteDropAux : List Char → Nat → List Char
  | [], _ => []
  | x :: xs, n => if n = 0 then x :: xs else if x.utf8Size ≤ n then byteDropAux xs (n - x.utf8Size) else x :: xs

/-- `s[:i]` -/
def byteTake (s : String) (i : Int) : String := String.ofList (byteTakeAux s.toList i.toNat)
/-- `s[i:]` -/
def byteDrop (s : String) (i : Int) : String := String.ofList (byteDropAux s.toList i.toNat)

def maxInt64 : Int := 9223372036854775807
def minInt64 : Int := -9223372036854775808

private def digitsVal : List Char → Option Nat
  | [] => some 0
  | cs => cs.foldl (fun acc c => match acc with
      | none => none
      | some n => if c.isDigit then some (n * 10 + (c.toNat - '0'.toNat)) else none) (some 0)

/-- `strconv.Atoi`: `(value, ok)`.  As in Go the value is meaningful even when `ok = false`:
    `0` on a syntax error, the clamped bound on a range error. -/
def atoi (s : String) : Int × Bool :=
  let cs := s.toList
  let (neg, ds) := match cs with
    | '-' :: r => (true, r)
    | '+' :: r => (false, r)
    | r => (false, r)
  if ds.isEmpty then (0, false) else
  match digitsVal ds with
  | none => (0, false)
  | some n =>
    let v : Int := if neg then -(n : Int) else (n : Int)
    if v > maxInt64 then (maxInt64, false)
    else if v < minInt64 then (minInt64, false)
    else (v, true)

def hexDigit (n : Nat) : Char :=
  if n < 10 then Char.ofNat ('0'.toNat + n) else Char.ofNat ('A'.toNat + (n - 10))

def unreservedByte (b : UInt8) : Bool :=
  let n := b.toNat
  (0x41 ≤ n && n ≤ 0x5A) || (0x61 ≤ n && n ≤ 0x7A) || (0x30 ≤ n && n ≤ 0x39) ||
  n == 0x2D || n == 0x5F || n == 0x2E || n == 0x7E

/-- `url.QueryEscape` on the UTF-8 bytes of `s`: unreserved bytes verbatim, space as `+`,
    everything else `%XX` (upper-case hex). -/
def queryEscapeBytes (bs : List UInt8) : List Char :=
  bs.flatMap fun b =>
    if unreservedByte b then [Char.ofNat b.toNat]
    else if b == 0x20 then ['+']
    else ['%', hexDigit (b.toNat / 16), hexDigit (b.toNat % 16)]

def queryEscape (s : String) : String := String.ofList (queryEscapeBytes s.toUTF8.toList)

end Lib
