/-!
  Lib.C14n — the two places where the bytes a signer digests and the bytes a conformant verifier digests are
  produced from the same character data.

  * A conformant verifier canonicalises the *parsed* document (Canonical XML 1.0 / Exclusive C14N §1.1 via
    xml-c14n §2.3): in text nodes `& < > CR` become `&amp; &lt; &gt; &#xD;`; in attribute values
    `& < " TAB LF CR` become `&amp; &lt; &quot; &#x9; &#xA; &#xD;`; everything else is copied.
  * The IdP signs with `github.com/amdonov/xmlsig` v0.1.0, whose `canonicalize` (canonical.go) re-reads the
    marshalled element with `encoding/xml` and writes every *decoded* attribute value with
    `fmt.Fprintf(w, " %s=\"%s\"", …, att.Value)` and every decoded text with `outWriter.Write(t)` — verbatim.

  Both are compared with the real libraries on every run (`lib c14n`: etree's canonical writer as used by goxmldsig;
  the signer's digest over a marker element).
-/
namespace Lib.C14n

def textEsc (c : Char) : List Char :=
  if c = '&' then ['&', 'a', 'm', 'p', ';']
  else if c = '<' then ['&', 'l', 't', ';']
  else if c = '>' then ['&', 'g', 't', ';']
  else if c = '\r' then ['&', '#', 'x', 'D', ';']
  else [c]

def attrEsc (c : Char) : List Char :=
  if c = '&' then ['&', 'a', 'm', 'p', ';']
  else if c = '<' then ['&', 'l', 't', ';']
  else if c = '"' then ['&', 'q', 'u', 'o', 't', ';']
  else if c = '\t' then ['&', '#', 'x', '9', ';']
  else if c = '\n' then ['&', '#', 'x', 'A', ';']
  else if c = '\r' then ['&', '#', 'x', 'D', ';']
  else [c]

/-- what a conformant verifier digests for a text node / an attribute value with this content -/
def c14nText (s : List Char) : List Char := s.flatMap textEsc
def c14nAttr (s : List Char) : List Char := s.flatMap attrEsc

/-- what `xmlsig.canonicalize` digests for the same content -/
def signerText (s : List Char) : List Char := s
def signerAttr (s : List Char) : List Char := s

def textSpecial (c : Char) : Bool := c == '&' || c == '<' || c == '>' || c == '\r'
def attrSpecial (c : Char) : Bool := c == '&' || c == '<' || c == '"' || c == '\t' || c == '\n' || c == '\r'

def textClean (s : List Char) : Bool := s.all fun c => !textSpecial c
def attrClean (s : List Char) : Bool := s.all fun c => !attrSpecial c

end Lib.C14n
