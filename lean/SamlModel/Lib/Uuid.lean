/-!
  Lib.Uuid — `NewID()` = `"_" + uuid.New().String()`: the canonical 8-4-4-4-12 lower-case hexadecimal rendering of 16
  bytes (github.com/google/uuid `encodeHex`), and the xs:ID / NCName predicate of XML Schema restricted to ASCII.
  Compared with google/uuid on random values on every run (`lib uuid`).
-/
namespace Lib.Uuid

def hexLower (n : Nat) : Char := if n < 10 then Char.ofNat (48 + n) else Char.ofNat (87 + n)

def hexByte (b : UInt8) : List Char := [hexLower (b.toNat / 16), hexLower (b.toNat % 16)]

def hexBytes (bs : List UInt8) : List Char := bs.flatMap hexByte

/-- `UUID.String()`: bytes 0-3, 4-5, 6-7, 8-9, 10-15 separated by `-` -/
def render (bs : List UInt8) : List Char :=
  hexBytes (bs.take 4) ++ '-' :: hexBytes ((bs.drop 4).take 2) ++ '-' :: hexBytes ((bs.drop 6).take 2) ++ '-' ::
    hexBytes ((bs.drop 8).take 2) ++ '-' :: hexBytes ((bs.drop 10).take 6)

/-- `NewID()` for the 16 bytes `uuid.New()` drew -/
def newID (bs : List UInt8) : List Char := '_' :: render bs

/-- NCName start / continuation characters (the ASCII part of the XML Namespaces production) -/
def isNameStart (c : Char) : Bool := c.isAlpha || c == '_'
def isNameChar (c : Char) : Bool := c.isAlpha || c.isDigit || c == '_' || c == '-' || c == '.'

/-- xs:ID = NCName: a name start character followed by name characters, no colon -/
def isXsID : List Char → Bool
  | [] => false
  | c :: cs => isNameStart c && cs.all isNameChar

end Lib.Uuid
