import SamlModel.Lib.Base64
/-
  Lib.Html — byte-exact models of the three `html/template` escapers that act on the auto-submit page
  (Go 1.23 html/template: `attrEscaper` = htmlReplacer with htmlReplacementTable and badRunes = true,
  `urlFilter`, `urlNormalizer` = processURLOnto(norm = true)), and a *reference* decoder for a double-quoted
  HTML attribute value (character references) written from the WHATWG tokenizer description.
  All functions work on bytes: Go strings are byte strings and RelayState may be invalid UTF-8.
-/
namespace Lib.Html

def b (c : Char) : UInt8 := UInt8.ofNat c.toNat
def str (s : String) : Bytes := s.toUTF8.toList

/-- U+FFFD in UTF-8 -/
def fffd : Bytes := [0xEF, 0xBF, 0xBD]

/-- `attrEscaper`: NUL, `"`, `&`, `'`, `+`, `<`, `>` are replaced, every other byte is copied.
    (All replaced bytes are ASCII, so multi-byte sequences and invalid UTF-8 pass through unchanged.) -/
def attrEscapeByte (x : UInt8) : Bytes :=
  if x = 0 then fffd
  else if x = 0x22 then [0x26, 0x23, 0x33, 0x34, 0x3B]        -- &#34;
  else if x = 0x26 then [0x26, 0x61, 0x6D, 0x70, 0x3B]        -- &amp;
  else if x = 0x27 then [0x26, 0x23, 0x33, 0x39, 0x3B]        -- &#39;
  else if x = 0x2B then [0x26, 0x23, 0x34, 0x33, 0x3B]        -- &#43;
  else if x = 0x3C then [0x26, 0x6C, 0x74, 0x3B]              -- &lt;
  else if x = 0x3E then [0x26, 0x67, 0x74, 0x3B]              -- &gt;
  else [x]

def attrEscape (v : Bytes) : Bytes := v.flatMap attrEscapeByte

/-- what an HTML parser recovers from the escaped value: NUL cannot be carried and comes back as U+FFFD -/
def nulToFFFD (v : Bytes) : Bytes := v.flatMap fun x => if x = 0 then fffd else [x]

/-! ### reference decoder of a double-quoted attribute value (bytes between the quotes) -/

def isAlnum (x : UInt8) : Bool :=
  (0x30 ≤ x && x ≤ 0x39) || (0x41 ≤ x && x ≤ 0x5A) || (0x61 ≤ x && x ≤ 0x7A)

def decVal (x : UInt8) : Option Nat := if 0x30 ≤ x ∧ x ≤ 0x39 then some (x.toNat - 0x30) else none
def hexVal (x : UInt8) : Option Nat :=
  if 0x30 ≤ x ∧ x ≤ 0x39 then some (x.toNat - 0x30)
  else if 0x61 ≤ x ∧ x ≤ 0x66 then some (x.toNat - 0x61 + 10)
  else if 0x41 ≤ x ∧ x ≤ 0x46 then some (x.toNat - 0x41 + 10)
  else none

def numOf (base : Nat) (digit : UInt8 → Option Nat) (ds : Bytes) : Option Nat :=
  if ds = [] then none else
  ds.foldl (fun acc d => match acc, digit d with
    | some n, some k => some (n * base + k)
    | _, _ => none) (some 0)

/-- UTF-8 encoding of a code point (surrogates and values above U+10FFFF become U+FFFD, as the HTML parser does) -/
def encodeCodePoint (n : Nat) : Bytes :=
  if n = 0 ∨ (0xD800 ≤ n ∧ n ≤ 0xDFFF) ∨ n > 0x10FFFF then fffd
  else if n < 0x80 then [UInt8.ofNat n]
  else if n < 0x800 then [UInt8.ofNat (0xC0 + n / 64), UInt8.ofNat (0x80 + n % 64)]
  else if n < 0x10000 then [UInt8.ofNat (0xE0 + n / 4096), UInt8.ofNat (0x80 + (n / 64) % 64), UInt8.ofNat (0x80 + n % 64)]
  else [UInt8.ofNat (0xF0 + n / 262144), UInt8.ofNat (0x80 + (n / 4096) % 64), UInt8.ofNat (0x80 + (n / 64) % 64), UInt8.ofNat (0x80 + n % 64)]

/-- the bytes a character reference `&name;` stands for (`name` without `&` and `;`) -/
def resolveCharRef (name : Bytes) : Option Bytes :=
  match name with
  | [0x61, 0x6D, 0x70] => some [0x26]              -- amp
  | [0x6C, 0x74] => some [0x3C]                    -- lt
  | [0x67, 0x74] => some [0x3E]                    -- gt
  | [0x71, 0x75, 0x6F, 0x74] => some [0x22]        -- quot
  | [0x61, 0x70, 0x6F, 0x73] => some [0x27]        -- apos
  | 0x23 :: 0x78 :: hex => (numOf 16 hexVal hex).map encodeCodePoint
  | 0x23 :: 0x58 :: hex => (numOf 16 hexVal hex).map encodeCodePoint
  | 0x23 :: dec => (numOf 10 decVal dec).map encodeCodePoint
  | _ => none

structure AttrState where
  out : Bytes := []
  /-- bytes of a character reference being read (after `&`) -/
  ref : Option Bytes := none
deriving Repr, DecidableEq

/-- one byte of an attribute value (the value's closing quote is handled by the tokenizer, not here) -/
def attrStep (st : AttrState) (x : UInt8) : AttrState :=
  match st.ref with
  | none => if x = 0x26 then { st with ref := some [] } else { st with out := st.out ++ [x] }
  | some name =>
    if x = 0x3B then
      match resolveCharRef name with
      | some bs => { out := st.out ++ bs, ref := none }
      | none => { out := st.out ++ [0x26] ++ name ++ [0x3B], ref := none }      -- not a reference: literal text
    else if isAlnum x || x = 0x23 then { st with ref := some (name ++ [x]) }
    else if x = 0x26 then { out := st.out ++ [0x26] ++ name, ref := some [] }
    else { out := st.out ++ [0x26] ++ name ++ [x], ref := none }

def attrRun (st : AttrState) (v : Bytes) : AttrState := v.foldl attrStep st

/-- decode a complete attribute value -/
def decodeAttrValue (v : Bytes) : Bytes :=
  let st := attrRun {} v
  match st.ref with
  | none => st.out
  | some name => st.out ++ [0x26] ++ name

/-! ### URL escapers -/

def toLowerByte (x : UInt8) : UInt8 := if 0x41 ≤ x ∧ x ≤ 0x5A then x + 0x20 else x

/-- simple case folding as far as `strings.EqualFold` against "http" / "https" / "mailto" can tell: ASCII letters,
    and U+017F LATIN SMALL LETTER LONG S (bytes C5 BF), which folds to `s` -/
def foldProto : Bytes → Bytes
  | 0xC5 :: 0xBF :: rest => 0x73 :: foldProto rest
  | x :: rest => toLowerByte x :: foldProto rest
  | [] => []

/-- `urlFilter`: a URL whose protocol is not http, https or mailto is replaced by `#ZgotmplZ`.
    (`isSafeURL`: the part before the first ':' — if there is a ':' and no '/' precedes it — is the protocol.) -/
def schemeOf (u : Bytes) : Option Bytes :=
  match u.findIdx? (· = 0x3A) with
  | none => none
  | some i => if (u.take i).contains 0x2F then none else some (u.take i)

/-- `#ZgotmplZ` -/
def failsafe : Bytes := [0x23, 0x5A, 0x67, 0x6F, 0x74, 0x6D, 0x70, 0x6C, 0x5A]

def urlFilter (u : Bytes) : Bytes :=
  match schemeOf u with
  | none => u
  | some p =>
    let lp := foldProto p
    if lp = [0x68, 0x74, 0x74, 0x70] ∨ lp = [0x68, 0x74, 0x74, 0x70, 0x73] ∨ lp = [0x6D, 0x61, 0x69, 0x6C, 0x74, 0x6F] then u else failsafe

def hexLower (n : Nat) : UInt8 := if n < 10 then UInt8.ofNat (0x30 + n) else UInt8.ofNat (0x61 + n - 10)
def isHexByte (x : UInt8) : Bool := (0x30 ≤ x && x ≤ 0x39) || (0x41 ≤ x && x ≤ 0x46) || (0x61 ≤ x && x ≤ 0x66)

/-- bytes `urlNormalizer` copies unchanged: RFC 3986 reserved and unreserved characters -/
def urlKeep (x : UInt8) : Bool :=
  isAlnum x || [0x21, 0x23, 0x24, 0x26, 0x2A, 0x2B, 0x2C, 0x2F, 0x3A, 0x3B, 0x3D, 0x3F, 0x40, 0x5B, 0x5D, 0x2D, 0x2E, 0x5F, 0x7E].contains x

/-- what `urlNormalizer` writes for byte `x` followed by `rest` -/
def urlNormHead (x : UInt8) (rest : Bytes) : Bytes :=
  if urlKeep x then [x]
  else if x = 0x25 then
    match rest with
    | h1 :: h2 :: _ => if isHexByte h1 && isHexByte h2 then [x] else [0x25, 0x32, 0x35]
    | _ => [0x25, 0x32, 0x35]
  else [0x25, hexLower (x.toNat / 16), hexLower (x.toNat % 16)]

/-- `urlNormalizer`: percent-encode everything but reserved/unreserved bytes; keep `%XX` that is already an escape -/
def urlNormalize : Bytes → Bytes
  | [] => []
  | x :: rest => urlNormHead x rest ++ urlNormalize rest

/-! ### the scheme a browser's URL parser finds (WHATWG URL: scheme start / scheme states) -/

def schemeChar (x : UInt8) : Bool := isAlnum x || x = 0x2B || x = 0x2D || x = 0x2E
def isAlphaByte (x : UInt8) : Bool := (0x41 ≤ x && x ≤ 0x5A) || (0x61 ≤ x && x ≤ 0x7A)

/-- scheme characters up to the first `:` -/
def schemeTail : Bytes → Option Bytes
  | [] => none
  | x :: t => if x = 0x3A then some [] else if schemeChar x then (schemeTail t).map (x :: ·) else none

/-- the scheme of a URL as a browser parses it: ALPHA *( ALPHA / DIGIT / "+" / "-" / "." ) ":" -/
def browserScheme : Bytes → Option Bytes
  | [] => none
  | x :: t => if isAlphaByte x then (schemeTail t).map (x :: ·) else none

/-- the whole pipeline of the `action="{{ . }}"` hole -/
def urlAttr (u : Bytes) : Bytes := attrEscape (urlNormalize (urlFilter u))

end Lib.Html
