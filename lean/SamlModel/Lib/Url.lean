import SamlModel.Lib.Strings
import SamlModel.Lib.Base64
/-!
  Lib.Url — the receiving side of a query string: `net/url.QueryUnescape`, and the signature-verification
  procedure of the SAML HTTP-Redirect binding (saml-bindings-2.0 §3.4.4.1) applied to the *raw* query of the URL
  that was sent.  The verifier is written from the specification, not from the library's own
  `ValidateRedirectSignature`; it is compared with the harness's independent Go verifier on every redirect reply
  (`lib rverify`).  Query strings are `List Char` (what `String.toList` gives for the URL; everything the IdP puts
  into a query is ASCII because `url.QueryEscape` escapes every byte ≥ 0x80).
-/
namespace Lib.Url

def hexVal? (c : Char) : Option Nat :=
  let n := c.toNat
  if 0x30 ≤ n ∧ n ≤ 0x39 then some (n - 0x30)
  else if 0x41 ≤ n ∧ n ≤ 0x46 then some (n - 0x41 + 10)
  else if 0x61 ≤ n ∧ n ≤ 0x66 then some (n - 0x61 + 10)
  else none

/-- the bytes a character of the raw query stands for when it is copied through -/
def charBytes (c : Char) : List UInt8 :=
  if c.toNat < 128 then [UInt8.ofNat c.toNat] else (String.singleton c).toUTF8.toList

/-- `url.QueryUnescape`: `%XX` is one byte, `+` is a space, a `%` not followed by two hex digits is an error. -/
def queryUnescape : List Char → Option (List UInt8)
  | [] => some []
  | '%' :: a :: b :: rest =>
    match hexVal? a, hexVal? b with
    | some x, some y => (queryUnescape rest).map (UInt8.ofNat (x * 16 + y) :: ·)
    | _, _ => none
  | '%' :: _ => none
  | '+' :: rest => (queryUnescape rest).map ((0x20 : UInt8) :: ·)
  | c :: rest => (queryUnescape rest).map (charBytes c ++ ·)

/-- `strings.Split(s, sep)` for a one-character separator: always at least one piece -/
def splitOn (sep : Char) : List Char → List (List Char)
  | [] => [[]]
  | c :: cs =>
    if c = sep then [] :: splitOn sep cs
    else match splitOn sep cs with
      | [] => [[c]]
      | h :: t => (c :: h) :: t

/-- `name=value` cut at the first `=`; a piece without `=` is not a parameter -/
def cutEq : List Char → Option (List Char × List Char)
  | [] => none
  | c :: cs =>
    if c = '=' then some ([], cs)
    else (cutEq cs).map fun (n, v) => (c :: n, v)

def params (q : List Char) : List (List Char × List Char) := (splitOn '&' q).filterMap cutEq

/-- the raw (still percent-encoded) value of the first parameter with that name -/
def rawParam (name : List Char) (q : List Char) : Option (List Char) := (params q).lookup name

def kSAMLResponse : List Char := ['S', 'A', 'M', 'L', 'R', 'e', 's', 'p', 'o', 'n', 's', 'e']
def kRelayState : List Char := ['R', 'e', 'l', 'a', 'y', 'S', 't', 'a', 't', 'e']
def kSigAlg : List Char := ['S', 'i', 'g', 'A', 'l', 'g']
def kSignature : List Char := ['S', 'i', 'g', 'n', 'a', 't', 'u', 'r', 'e']

/-- §3.4.4.1: the octets over which the signature is computed are
    `SAMLResponse=value&RelayState=value&SigAlg=value`, the values taken *as they appear in the URL*
    (RelayState only if present). -/
def verifierOctets (q : List Char) : Option (List Char) := do
  let r ← rawParam kSAMLResponse q
  let a ← rawParam kSigAlg q
  let base := kSAMLResponse ++ '=' :: r
  let base := match rawParam kRelayState q with
    | some v => base ++ '&' :: kRelayState ++ '=' :: v
    | none => base
  some (base ++ '&' :: kSigAlg ++ '=' :: a)

/-- the algorithm URI the verifier reads: the `SigAlg` parameter after one level of percent-decoding -/
def verifierAlg (q : List Char) : Option (List UInt8) := (rawParam kSigAlg q).bind queryUnescape

/-- the signature value the verifier reads: `Signature`, percent-decoded once, then base64-decoded -/
def verifierSig (q : List Char) : Option (List UInt8) := do
  let raw ← rawParam kSignature q
  let b ← queryUnescape raw
  -- base64 text is ASCII: a byte ≥ 0x80 is outside the alphabet either way
  b64decode (String.ofList (b.map fun x => Char.ofNat x.toNat))

/-- what a relying party learns from a redirect URL's query; `none` = cannot be verified at all -/
structure Verdict where
  octets : List Char
  alg : List UInt8
  sig : List UInt8
deriving Repr, DecidableEq

def verify (q : List Char) : Option Verdict := do
  let o ← verifierOctets q
  let a ← verifierAlg q
  let s ← verifierSig q
  some { octets := o, alg := a, sig := s }

/-- the raw query of a URL: everything after the first `?` (no fragment handling: `#` is excluded by hypothesis) -/
def rawQuery : List Char → List Char
  | [] => []
  | c :: cs => if c = '?' then cs else rawQuery cs

/-- `sendBackResponse`, Redirect binding (hand model of the fingerprinted lines of response.go): the consumer URL up
    to its fragment, then `?` — or `&` when the URL already has a query — then the message parameters, then the
    fragment -/
def redirectTarget (acs : List Char) : List Char := acs.takeWhile (· != '#')
def redirectFragment (acs : List Char) : List Char := acs.dropWhile (· != '#')
def redirectURL (acs q : List Char) : List Char :=
  redirectTarget acs ++ (if (redirectTarget acs).contains '?' then '&' else '?') :: q ++ redirectFragment acs

/-- RFC 3986 §3: the query of a URL lies between the first `?` and the first `#` -/
def urlQuery (u : List Char) : List Char := rawQuery (u.takeWhile (· != '#'))

end Lib.Url
