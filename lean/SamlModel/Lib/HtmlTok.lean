import SamlModel.Lib.Html
/-
  Lib.HtmlTok — a slice of the WHATWG HTML tokenizer, written from the specification (§13.2.5) as a
  byte-at-a-time state machine (a left fold), independent of `html/template` and of `x/net/html`:

    input-stream newline normalisation (CR LF → LF, CR → LF), data, tag open, end tag open, tag name,
    before/in/after attribute name, before attribute value, attribute value (double-quoted, single-quoted,
    unquoted) with character references, after attribute value (quoted), self-closing start tag,
    `<!…>` declarations (DOCTYPE), RAWTEXT elements (`<noscript>` when scripting is on, …).

  Not modelled: comments containing `>`, CDATA sections, `<script>` escape states, `<plaintext>`.
  None occurs in the auto-submit templates; the correspondence check compares this tokenizer with
  `golang.org/x/net/html` on every page the harness renders.

  The machine emits *events*; the state it keeps is the current mode and three byte buffers, which is what
  lets the page theorem be proved by running it over the literal segments and treating each substituted
  value with a one-line frame lemma.
-/
namespace Lib.HtmlTok
open Lib.Html

inductive Event where
  /-- `<name` -/
  | open (name : Bytes)
  /-- one attribute of the open start tag (value with character references resolved) -/
  | attr (name val : Bytes)
  /-- `>` or `/>` of a start tag -/
  | openEnd (selfClosing : Bool)
  /-- `</name …>` -/
  | close (name : Bytes)
deriving Repr, DecidableEq

inductive Mode where
  | data | tagOpen | endTagOpen | tagName | beforeAttrName | attrName | afterAttrName | beforeAttrValue
  | attrValDq | attrValSq | attrValUq | afterAttrValQ | selfClosing | bang
  | rawtext | rawLt | rawEndName
deriving Repr, DecidableEq

structure St where
  mode : Mode := .data
  /-- end tag (its attributes are dropped) -/
  isEnd : Bool := false
  /-- tag name being read / name of the RAWTEXT element we are inside -/
  name : Bytes := []
  /-- attribute name being read or waiting for its value -/
  aname : Bytes := []
  /-- raw attribute value / candidate end tag name inside RAWTEXT -/
  val : Bytes := []
deriving Repr, DecidableEq

def isWs (x : UInt8) : Bool := x = 0x09 || x = 0x0A || x = 0x0C || x = 0x20
def isAlpha (x : UInt8) : Bool := (0x41 ≤ x && x ≤ 0x5A) || (0x61 ≤ x && x ≤ 0x7A)

def bScript : Bytes := [0x73, 0x63, 0x72, 0x69, 0x70, 0x74]
def bStyle : Bytes := [0x73, 0x74, 0x79, 0x6C, 0x65]
def bTextarea : Bytes := [0x74, 0x65, 0x78, 0x74, 0x61, 0x72, 0x65, 0x61]
def bTitle : Bytes := [0x74, 0x69, 0x74, 0x6C, 0x65]
def bXmp : Bytes := [0x78, 0x6D, 0x70]
def bIframe : Bytes := [0x69, 0x66, 0x72, 0x61, 0x6D, 0x65]
def bNoembed : Bytes := [0x6E, 0x6F, 0x65, 0x6D, 0x62, 0x65, 0x64]
def bNoframes : Bytes := [0x6E, 0x6F, 0x66, 0x72, 0x61, 0x6D, 0x65, 0x73]
def bNoscript : Bytes := [0x6E, 0x6F, 0x73, 0x63, 0x72, 0x69, 0x70, 0x74]

/-- elements whose content is raw text -/
def isRaw (scripting : Bool) (name : Bytes) : Bool :=
  name = bScript || name = bStyle || name = bTextarea || name = bTitle || name = bXmp || name = bIframe ||
  name = bNoembed || name = bNoframes || (scripting && name = bNoscript)

/-- the pending attribute (if any) as an event; attributes of end tags are dropped -/
def flushAttr (st : St) (val : Bytes) : List Event :=
  if st.isEnd || st.aname = [] then [] else [.attr st.aname val]

/-- `>` of a tag: close the tag and choose the next mode -/
def endOfTag (scripting : Bool) (st : St) (selfClosing : Bool) : St × List Event :=
  if st.isEnd then ({ mode := .data }, [.close st.name])
  else if isRaw scripting st.name && !selfClosing then ({ mode := .rawtext, name := st.name }, [.openEnd selfClosing])
  else ({ mode := .data }, [.openEnd selfClosing])

/-- start reading a new attribute whose first byte is `x` -/
def startAttr (st : St) (x : UInt8) : St := { st with mode := .attrName, aname := [toLowerByte x], val := [] }

/-- one input byte -/
def step (scripting : Bool) (st : St) (x : UInt8) : St × List Event :=
  match st.mode with
  | .data => if x = 0x3C then ({ mode := .tagOpen }, []) else (st, [])
  | .tagOpen =>
    if x = 0x21 || x = 0x3F then ({ mode := .bang }, [])
    else if x = 0x2F then ({ mode := .endTagOpen }, [])
    else if isAlpha x then ({ mode := .tagName, name := [toLowerByte x] }, [])
    else if x = 0x3C then ({ mode := .tagOpen }, [])
    else ({ mode := .data }, [])
  | .endTagOpen =>
    if isAlpha x then ({ mode := .tagName, isEnd := true, name := [toLowerByte x] }, [])
    else if x = 0x3E then ({ mode := .data }, [])
    else ({ mode := .bang }, [])
  | .tagName =>
    let opened : List Event := if st.isEnd then [] else [.open st.name]
    if isWs x then ({ st with mode := .beforeAttrName }, opened)
    else if x = 0x2F then ({ st with mode := .selfClosing }, opened)
    else if x = 0x3E then
      let (st', ev) := endOfTag scripting st false
      (st', opened ++ ev)
    else ({ st with name := st.name ++ [toLowerByte x] }, [])
  | .beforeAttrName =>
    if isWs x then (st, [])
    else if x = 0x2F then ({ st with mode := .selfClosing, aname := [] }, [])
    else if x = 0x3E then endOfTag scripting st false
    else (startAttr st x, [])
  | .attrName =>
    if isWs x then ({ st with mode := .afterAttrName }, [])
    else if x = 0x2F then ({ st with mode := .selfClosing, aname := [] }, flushAttr st [])
    else if x = 0x3E then
      let (st', ev) := endOfTag scripting st false
      (st', flushAttr st [] ++ ev)
    else if x = 0x3D then ({ st with mode := .beforeAttrValue }, [])
    else ({ st with aname := st.aname ++ [toLowerByte x] }, [])
  | .afterAttrName =>
    if isWs x then (st, [])
    else if x = 0x2F then ({ st with mode := .selfClosing, aname := [] }, flushAttr st [])
    else if x = 0x3D then ({ st with mode := .beforeAttrValue }, [])
    else if x = 0x3E then
      let (st', ev) := endOfTag scripting st false
      (st', flushAttr st [] ++ ev)
    else (startAttr st x, flushAttr st [])
  | .beforeAttrValue =>
    if isWs x then (st, [])
    else if x = 0x22 then ({ st with mode := .attrValDq, val := [] }, [])
    else if x = 0x27 then ({ st with mode := .attrValSq, val := [] }, [])
    else if x = 0x3E then
      let (st', ev) := endOfTag scripting st false
      (st', flushAttr st [] ++ ev)
    else ({ st with mode := .attrValUq, val := [x] }, [])
  | .attrValDq =>
    if x = 0x22 then ({ st with mode := .afterAttrValQ, aname := [], val := [] }, flushAttr st (decodeAttrValue st.val))
    else ({ st with val := st.val ++ [x] }, [])
  | .attrValSq =>
    if x = 0x27 then ({ st with mode := .afterAttrValQ, aname := [], val := [] }, flushAttr st (decodeAttrValue st.val))
    else ({ st with val := st.val ++ [x] }, [])
  | .attrValUq =>
    if isWs x then ({ st with mode := .beforeAttrName, aname := [], val := [] }, flushAttr st (decodeAttrValue st.val))
    else if x = 0x3E then
      let (st', ev) := endOfTag scripting st false
      (st', flushAttr st (decodeAttrValue st.val) ++ ev)
    else ({ st with val := st.val ++ [x] }, [])
  | .afterAttrValQ =>
    if isWs x then ({ st with mode := .beforeAttrName }, [])
    else if x = 0x2F then ({ st with mode := .selfClosing }, [])
    else if x = 0x3E then endOfTag scripting st false
    else (startAttr st x, [])
  | .selfClosing =>
    if x = 0x3E then endOfTag scripting st true
    else if isWs x then ({ st with mode := .beforeAttrName }, [])
    else if x = 0x2F then (st, [])
    else (startAttr st x, [])
  | .bang => if x = 0x3E then ({ mode := .data }, []) else (st, [])
  | .rawtext => if x = 0x3C then ({ st with mode := .rawLt }, []) else (st, [])
  | .rawLt =>
    if x = 0x2F then ({ st with mode := .rawEndName, val := [] }, [])
    else if x = 0x3C then (st, [])
    else ({ st with mode := .rawtext }, [])
  | .rawEndName =>
    if isAlpha x then ({ st with val := st.val ++ [toLowerByte x] }, [])
    else if st.val = st.name && (isWs x || x = 0x2F || x = 0x3E) then
      if x = 0x3E then ({ mode := .data }, [.close st.name])
      else if x = 0x2F then ({ mode := .selfClosing, isEnd := true, name := st.name }, [])
      else ({ mode := .beforeAttrName, isEnd := true, name := st.name }, [])
    else if x = 0x3C then ({ st with mode := .rawLt, val := [] }, [])
    else ({ st with mode := .rawtext, val := [] }, [])

/-- run the machine over a byte string, collecting the events -/
def run (scripting : Bool) (st : St) (bs : Bytes) : St × List Event :=
  bs.foldl (fun (acc : St × List Event) x => let (s', ev) := step scripting acc.1 x; (s', acc.2 ++ ev)) (st, [])

/-! ### input-stream preprocessing: newline normalisation -/

/-- state: the previous byte was CR -/
def nlStep (prevCR : Bool) (x : UInt8) : Bool × Bytes :=
  if x = 0x0D then (true, [0x0A])
  else if x = 0x0A ∧ prevCR then (false, [])
  else (false, [x])

def nlRun (prevCR : Bool) (bs : Bytes) : Bool × Bytes :=
  bs.foldl (fun (acc : Bool × Bytes) x => let (p, o) := nlStep acc.1 x; (p, acc.2 ++ o)) (prevCR, [])

def normNL (bs : Bytes) : Bytes := (nlRun false bs).2

/-- the events an HTML parser sees in a document -/
def tokenize (scripting : Bool) (doc : Bytes) : List Event := (run scripting {} (normNL doc)).2

/-! ### forms -/

structure Input where
  type : Bytes := []
  name : Bytes := []
  value : Bytes := []
deriving Repr, DecidableEq

structure FormRec where
  action : Option Bytes := none
  method : Option Bytes := none
  /-- (name, value) of the hidden inputs, in document order -/
  hidden : List (Bytes × Bytes) := []
  /-- number of non-hidden inputs -/
  others : Nat := 0
deriving Repr, DecidableEq

structure FormSt where
  done : List FormRec := []
  cur : Option FormRec := none
  /-- name of the start tag whose attributes are being read -/
  tag : Bytes := []
  input : Input := {}
  /-- attributes seen on the current tag (first occurrence wins) -/
  seen : List Bytes := []
deriving Repr, DecidableEq

def bForm : Bytes := [0x66, 0x6F, 0x72, 0x6D]
def bInput : Bytes := [0x69, 0x6E, 0x70, 0x75, 0x74]
def bAction : Bytes := [0x61, 0x63, 0x74, 0x69, 0x6F, 0x6E]
def bMethod : Bytes := [0x6D, 0x65, 0x74, 0x68, 0x6F, 0x64]
def bType : Bytes := [0x74, 0x79, 0x70, 0x65]
def bName : Bytes := [0x6E, 0x61, 0x6D, 0x65]
def bValue : Bytes := [0x76, 0x61, 0x6C, 0x75, 0x65]
def bHidden : Bytes := [0x68, 0x69, 0x64, 0x64, 0x65, 0x6E]

def formStep (fs : FormSt) : Event → FormSt
  | .open name =>
    -- a nested <form> start tag is ignored by the tree builder while a form is open
    if name = bForm then
      (match fs.cur with
       | none => { fs with cur := some {}, tag := name, seen := [] }
       | some _ => { fs with tag := [], seen := [] })
    else { fs with tag := name, input := {}, seen := [] }
  | .attr name val =>
    if fs.seen.contains name then fs else
    let fs := { fs with seen := fs.seen ++ [name] }
    if fs.tag = bForm then
      match fs.cur with
      | some f =>
        if name = bAction then { fs with cur := some { f with action := some val } }
        else if name = bMethod then { fs with cur := some { f with method := some val } }
        else fs
      | none => fs
    else if fs.tag = bInput then
      if name = bType then { fs with input := { fs.input with type := val.map toLowerByte } }
      else if name = bName then { fs with input := { fs.input with name := val } }
      else if name = bValue then { fs with input := { fs.input with value := val } }
      else fs
    else fs
  | .openEnd _ =>
    if fs.tag = bInput then
      match fs.cur with
      | some f =>
        if fs.input.type = bHidden then { fs with cur := some { f with hidden := f.hidden ++ [(fs.input.name, fs.input.value)] }, tag := [] }
        else { fs with cur := some { f with others := f.others + 1 }, tag := [] }
      | none => { fs with tag := [] }
    else { fs with tag := [] }
  | .close name =>
    if name = bForm then
      match fs.cur with
      | some f => { fs with done := fs.done ++ [f], cur := none }
      | none => fs
    else fs

/-- the forms of a document (a form still open at the end of input counts) -/
def formsOf (evs : List Event) : List FormRec :=
  let fs := evs.foldl formStep {}
  match fs.cur with
  | some f => fs.done ++ [f]
  | none => fs.done

/-- names of all start tags, in order -/
def startTags (evs : List Event) : List Bytes := evs.filterMap fun | .open n => some n | _ => none

/-- names of all attributes, in order -/
def attrNames (evs : List Event) : List Bytes := evs.filterMap fun | .attr n _ => some n | _ => none

/-! ### the page -/

/-- what `Template.Execute` writes: the literal segments with the escaped values in the three holes -/
def page (lits : List Bytes) (url relay msg : Bytes) : Bytes :=
  match lits with
  | [l0, l1, l2, l3] => l0 ++ urlAttr url ++ l1 ++ attrEscape relay ++ l2 ++ attrEscape msg ++ l3
  | _ => []

end Lib.HtmlTok
