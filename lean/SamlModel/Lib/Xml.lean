import SamlModel.Lib.XmlEscape
/-
  Lib.Xml — (1) the printer of `encoding/xml` (`printer.writeStart` / `writeEnd` / `EscapeString`) on trees,
  (2) a reference XML tokenizer written from the XML 1.0 specification as a character-at-a-time state machine
  (a left fold), independent of `encoding/xml`, and (3) a well-formedness checker for token streams.

  The tokenizer covers: XML declaration / processing instructions, start tags with attributes (both quote
  styles), empty-element tags, end tags, character data with the five predefined entities and numeric character
  references, line-end normalisation in content (§2.11) and attribute-value normalisation (§3.3.3).
  `<!…>` (comments, DOCTYPE, CDATA) is skipped to the next `>`; `encoding/xml` never emits those for the wire types
  (none has a `comment` or `cdata` field: Gen.Schema) and no value can open one (escapeChars_no_markup).
-/
namespace Lib.Xml
open Lib

abbrev Str := List Char

/-! ### trees and the printer -/

mutual
inductive Node where
  /-- element: local name, namespace (printed as `xmlns="…"` when non-empty), attributes, children -/
  | elem (name ns : Str) (attrs : List (Str × Str)) (kids : Forest)
  /-- character data -/
  | text (s : Str)
  /-- `innerxml`: written verbatim -/
  | raw (s : Str)
inductive Forest where
  | nil
  | cons (n : Node) (f : Forest)
end

def printAttr (a : Str × Str) : Str := [' '] ++ a.1 ++ ['=', '"'] ++ escapeChars a.2 ++ ['"']

/-- the namespace is printed as the first attribute, `xmlns="…"` -/
def allAttrs (ns : Str) (attrs : List (Str × Str)) : List (Str × Str) :=
  (if ns = [] then [] else [("xmlns".toList, ns)]) ++ attrs

def printOpen (name ns : Str) (attrs : List (Str × Str)) : Str :=
  ['<'] ++ name ++ (allAttrs ns attrs).flatMap printAttr ++ ['>']

def printClose (name : Str) : Str := ['<', '/'] ++ name ++ ['>']

mutual
def print : Node → Str
  | .elem name ns attrs kids => printOpen name ns attrs ++ printForest kids ++ printClose name
  | .text s => escapeChars s
  | .raw s => s
def printForest : Forest → Str
  | .nil => []
  | .cons n f => print n ++ printForest f
end

/-- `xml.Header` -/
def header : Str := "<?xml version=\"1.0\" encoding=\"UTF-8\"?>\n".toList

/-! ### events -/

inductive Ev where
  | pi
  | open (name : Str)
  | attr (name val : Str)
  | openEnd
  | chr (c : Char)
  | close (name : Str)
  | err
deriving Repr, DecidableEq

/-- the events a parser is expected to report for a tree: values sanitised, structure untouched -/
def attrEvents (ns : Str) (attrs : List (Str × Str)) : List Ev :=
  (allAttrs ns attrs).map fun a => Ev.attr a.1 (sanitize a.2)

mutual
def events : Node → List Ev
  | .elem name ns attrs kids => [.open name] ++ attrEvents ns attrs ++ [.openEnd] ++ eventsForest kids ++ [.close name]
  | .text s => (sanitize s).map .chr
  | .raw _ => [.err]
def eventsForest : Forest → List Ev
  | .nil => []
  | .cons n f => events n ++ eventsForest f
end

/-! ### reference tokenizer -/

def isWs (c : Char) : Bool := c = ' ' || c = '\t' || c = '\n' || c = '\r'

def isNameStart (c : Char) : Bool :=
  c.isAlpha || c = '_' || c = ':' || (0xC0 ≤ c.toNat && c.toNat ≠ 0xD7 && c.toNat ≠ 0xF7 && c.toNat ≤ 0xEFFFF)

def isNameChar (c : Char) : Bool := isNameStart c || c.isDigit || c = '-' || c = '.' || c.toNat = 0xB7

def validName (n : Str) : Bool :=
  match n with
  | [] => false
  | c :: t => isNameStart c && t.all isNameChar

/-- attribute-value normalisation (§3.3.3): a literal tab, LF or CR (CR LF counts once) becomes a space -/
def normAttrStep (acc : Str × Bool) (c : Char) : Str × Bool :=
  if c = '\r' then (acc.1 ++ [' '], true)
  else if c = '\n' then (if acc.2 then (acc.1, false) else (acc.1 ++ [' '], false))
  else if c = '\t' then (acc.1 ++ [' '], false)
  else (acc.1 ++ [c], false)
def normAttr (s : Str) : Str := (s.foldl normAttrStep ([], false)).1

/-- decode a raw attribute value -/
def decodeAttr (raw : Str) : Option Str := refUnescape (normAttr raw)

inductive Mode where
  | content | lt | pi | piQ | bang | openName | closeName | closeWs | beforeAttr | attrName | afterAttrName
  | beforeVal | valDq | valSq | afterVal | slash | ref | err
deriving Repr, DecidableEq

structure St where
  mode : Mode := .content
  /-- element name being read / of the open start tag -/
  name : Str := []
  aname : Str := []
  /-- raw attribute value, or the reference being read in content -/
  val : Str := []
  /-- the previous content character was a literal CR -/
  prevCR : Bool := false
deriving Repr, DecidableEq

def fail : St × List Ev := ({ mode := .err }, [.err])

def step (st : St) (c : Char) : St × List Ev :=
  match st.mode with
  | .content =>
    if c = '<' then ({ mode := .lt }, [])
    else if c = '&' then ({ mode := .ref, val := [] }, [])
    else if c = '\r' then ({ st with prevCR := true }, [.chr '\n'])
    else if c = '\n' ∧ st.prevCR then ({ st with prevCR := false }, [])
    else ({ st with prevCR := false }, [.chr c])
  | .ref =>
    if c = ';' then
      match resolveRef st.val with
      | some r => ({ mode := .content }, [.chr r])
      | none => fail
    else if c = '<' ∨ c = '&' then fail
    else ({ st with val := st.val ++ [c] }, [])
  | .lt =>
    if c = '/' then ({ mode := .closeName, name := [] }, [])
    else if c = '?' then ({ mode := .pi }, [])
    else if c = '!' then ({ mode := .bang }, [])
    else if isNameStart c then ({ mode := .openName, name := [c] }, [])
    else fail
  | .pi => if c = '?' then ({ mode := .piQ }, []) else (st, [])
  | .piQ => if c = '>' then ({ mode := .content }, [.pi]) else if c = '?' then (st, []) else ({ mode := .pi }, [])
  | .bang => if c = '>' then ({ mode := .content }, []) else (st, [])
  | .openName =>
    if isNameChar c then ({ st with name := st.name ++ [c] }, [])
    else if isWs c then ({ st with mode := .beforeAttr }, [.open st.name])
    else if c = '>' then ({ mode := .content }, [.open st.name, .openEnd])
    else if c = '/' then ({ st with mode := .slash }, [.open st.name])
    else fail
  | .beforeAttr =>
    if isWs c then (st, [])
    else if c = '>' then ({ mode := .content }, [.openEnd])
    else if c = '/' then ({ st with mode := .slash }, [])
    else if isNameStart c then ({ st with mode := .attrName, aname := [c] }, [])
    else fail
  | .attrName =>
    if isNameChar c then ({ st with aname := st.aname ++ [c] }, [])
    else if c = '=' then ({ st with mode := .beforeVal }, [])
    else if isWs c then ({ st with mode := .afterAttrName }, [])
    else fail
  | .afterAttrName =>
    if isWs c then (st, [])
    else if c = '=' then ({ st with mode := .beforeVal }, [])
    else fail
  | .beforeVal =>
    if isWs c then (st, [])
    else if c = '"' then ({ st with mode := .valDq, val := [] }, [])
    else if c = '\'' then ({ st with mode := .valSq, val := [] }, [])
    else fail
  | .valDq =>
    if c = '"' then
      match decodeAttr st.val with
      | some v => ({ st with mode := .afterVal, aname := [], val := [] }, [.attr st.aname v])
      | none => fail
    else if c = '<' then fail
    else ({ st with val := st.val ++ [c] }, [])
  | .valSq =>
    if c = '\'' then
      match decodeAttr st.val with
      | some v => ({ st with mode := .afterVal, aname := [], val := [] }, [.attr st.aname v])
      | none => fail
    else if c = '<' then fail
    else ({ st with val := st.val ++ [c] }, [])
  | .afterVal =>
    if isWs c then ({ st with mode := .beforeAttr }, [])
    else if c = '>' then ({ mode := .content }, [.openEnd])
    else if c = '/' then ({ st with mode := .slash }, [])
    else fail
  | .slash => if c = '>' then ({ mode := .content }, [.openEnd, .close st.name]) else fail
  | .closeName =>
    if isNameChar c then ({ st with name := st.name ++ [c] }, [])
    else if c = '>' then ({ mode := .content }, [.close st.name])
    else if isWs c then ({ st with mode := .closeWs }, [])
    else fail
  | .closeWs =>
    if isWs c then (st, [])
    else if c = '>' then ({ mode := .content }, [.close st.name])
    else fail
  | .err => (st, [])

def run (st : St) (s : Str) : St × List Ev :=
  s.foldl (fun (acc : St × List Ev) c => let (s', ev) := step acc.1 c; (s', acc.2 ++ ev)) (st, [])

/-- the token stream of a document; input that ends inside markup is an error -/
def tokens (doc : Str) : List Ev :=
  let (st, evs) := run {} doc
  if st.mode = .content then evs else evs ++ [.err]

/-! ### well-formedness of a token stream -/

structure WfSt where
  stack : List Str := []
  roots : Nat := 0
  ok : Bool := true
deriving Repr, DecidableEq

def wfStep (w : WfSt) : Ev → WfSt
  | .pi => w
  | .open n => if w.stack = [] then { w with stack := [n], roots := w.roots + 1 } else { w with stack := n :: w.stack }
  | .attr _ _ => if w.stack = [] then { w with ok := false } else w
  | .openEnd => w
  | .chr c => if w.stack = [] ∧ !isWs c then { w with ok := false } else w
  | .close n =>
    match w.stack with
    | top :: rest => if top = n then { w with stack := rest } else { w with ok := false }
    | [] => { w with ok := false }
  | .err => { w with ok := false }

/-- a single well-formed document: every end tag matches, exactly one root, nothing but white space outside it -/
def wellFormed (evs : List Ev) : Bool :=
  let w := evs.foldl wfStep {}
  w.ok && w.stack = [] && w.roots = 1

/-- the names and shape of a token stream, without the data -/
def skeleton (evs : List Ev) : List Ev :=
  evs.filterMap fun
    | .open n => some (.open n)
    | .attr n _ => some (.attr n [])
    | .close n => some (.close n)
    | .openEnd => some .openEnd
    | .err => some .err
    | _ => none

end Lib.Xml
