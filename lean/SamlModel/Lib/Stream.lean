import SamlModel.Lib.Base64
/-
  Lib.Stream — the byte stream a decompressor produces, as far as the code can observe it:
  `data` bytes are delivered, then either EOF (`err = false`) or a read error (`err = true`).
  `io.LimitReader` and `io.ReadAll` are modelled on it; `materialised` counts the bytes `ReadAll` buffers.
-/
namespace Lib

structure Stream where
  data : Bytes := []
  err : Bool := false
deriving Repr, DecidableEq, Inhabited

/-- `io.LimitReader(r, n)`: at most `n` bytes; an underlying error surfaces only if it occurs
    before the limit is reached. -/
def limitReader (r : Stream) (n : Int) : Stream :=
  let k := n.toNat
  { data := r.data.take k, err := r.err && decide (r.data.length < k) }

/-- `io.ReadAll(r)`: `(bytes read, error)`; on error Go returns the bytes read so far. -/
def readAll (r : Stream) : Bytes × Option String :=
  (r.data, if r.err then some "read error" else none)

/-- number of bytes `io.ReadAll` holds in memory for `r` -/
def materialised (r : Stream) : Nat := r.data.length

end Lib
