/-
  Lib.XmlEscape — model of `encoding/xml`'s text escaper (`EscapeText` / `escapeText(…, escapeNewline = true)`,
  used by the marshaller for character data and attribute values), on decoded runes, and a *reference*
  unescaper written from the XML 1.0 specification (predefined entities, decimal and hexadecimal character
  references) as a fold over characters.
  Invalid UTF-8 bytes reach Go's escaper as U+FFFD with width 1 and are written as U+FFFD; on `List Char`
  that is the `sanitize` of a string that already contains U+FFFD there.
-/
namespace Lib

/-- XML 1.0 `Char` production (`isInCharacterRange` in encoding/xml) -/
def isXmlChar (c : Char) : Bool :=
  let n := c.toNat
  n == 0x9 || n == 0xA || n == 0xD || (0x20 ≤ n && n ≤ 0xD7FF) || (0xE000 ≤ n && n ≤ 0xFFFD) || (0x10000 ≤ n && n ≤ 0x10FFFF)

def replacementChar : Char := Char.ofNat 0xFFFD

def escapeChar (c : Char) : List Char :=
  if c = '"' then ['&', '#', '3', '4', ';']
  else if c = '\'' then ['&', '#', '3', '9', ';']
  else if c = '&' then ['&', 'a', 'm', 'p', ';']
  else if c = '<' then ['&', 'l', 't', ';']
  else if c = '>' then ['&', 'g', 't', ';']
  else if c = '\t' then ['&', '#', 'x', '9', ';']
  else if c = '\n' then ['&', '#', 'x', 'A', ';']
  else if c = '\r' then ['&', '#', 'x', 'D', ';']
  else if isXmlChar c then [c]
  else [replacementChar]

def escapeChars (s : List Char) : List Char := s.flatMap escapeChar

/-- `xml.EscapeText` on a (valid UTF-8) string -/
def xmlEscape (s : String) : String := String.ofList (escapeChars s.toList)

/-- what survives marshalling: characters outside the XML `Char` range become U+FFFD -/
def sanitizeChar (c : Char) : Char := if isXmlChar c then c else replacementChar
def sanitize (s : List Char) : List Char := s.map sanitizeChar

/-! ### reference unescaper (XML 1.0 §4.1, §4.6) -/

def decDigit (c : Char) : Option Nat := if '0' ≤ c ∧ c ≤ '9' then some (c.toNat - '0'.toNat) else none
def hexDigit? (c : Char) : Option Nat :=
  if '0' ≤ c ∧ c ≤ '9' then some (c.toNat - '0'.toNat)
  else if 'a' ≤ c ∧ c ≤ 'f' then some (c.toNat - 'a'.toNat + 10)
  else if 'A' ≤ c ∧ c ≤ 'F' then some (c.toNat - 'A'.toNat + 10)
  else none

def parseNum (base : Nat) (digit : Char → Option Nat) : List Char → Option Nat
  | [] => none
  | cs => cs.foldl (fun acc c => match acc, digit c with
      | some n, some d => some (n * base + d)
      | _, _ => none) (some 0)

/-- the character an entity / character reference between `&` and `;` stands for -/
def resolveRef (name : List Char) : Option Char :=
  match name with
  | ['a', 'm', 'p'] => some '&'
  | ['l', 't'] => some '<'
  | ['g', 't'] => some '>'
  | ['q', 'u', 'o', 't'] => some '"'
  | ['a', 'p', 'o', 's'] => some '\''
  | '#' :: 'x' :: hex => (parseNum 16 hexDigit? hex).bind fun n => if n < 0x110000 then some (Char.ofNat n) else none
  | '#' :: dec => (parseNum 10 decDigit dec).bind fun n => if n < 0x110000 then some (Char.ofNat n) else none
  | _ => none

structure UnescState where
  out : List Char := []
  /-- characters of the reference being read (after `&`), if any -/
  pending : Option (List Char) := none
  failed : Bool := false
deriving Repr, DecidableEq

def unescStep (st : UnescState) (c : Char) : UnescState :=
  if st.failed then st else
  match st.pending with
  | none => if c = '&' then { st with pending := some [] } else { st with out := st.out ++ [c] }
  | some name =>
    if c = ';' then
      match resolveRef name with
      | some r => { st with out := st.out ++ [r], pending := none }
      | none => { st with failed := true }
    else { st with pending := some (name ++ [c]) }

def unescRun (st : UnescState) (s : List Char) : UnescState := s.foldl unescStep st

/-- reference unescape: `none` for a malformed reference -/
def refUnescape (s : List Char) : Option (List Char) :=
  let st := unescRun {} s
  if st.failed || st.pending.isSome then none else some st.out

end Lib
