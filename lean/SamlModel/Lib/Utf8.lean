import SamlModel.Lib.Stream
/-
  Lib.Utf8 — Go's view of a string as runes (`for _, r := range s` / utf8.DecodeRuneInString): well-formed UTF-8
  sequences decode to their code point, every other byte is one U+FFFD (RuneError, width 1).
-/
namespace Lib.Utf8

def cont (x : UInt8) : Bool := 0x80 ≤ x && x ≤ 0xBF

def mk (n : Nat) : Char := Char.ofNat n

/-- decode one rune: `(rune, width)`; `bs` non-empty -/
def decodeRune : Bytes → Char × Nat
  | [] => (mk 0xFFFD, 0)
  | [b0] => if b0 < 0x80 then (mk b0.toNat, 1) else (mk 0xFFFD, 1)
  | b0 :: b1 :: rest =>
    if b0 < 0x80 then (mk b0.toNat, 1)
    else if 0xC2 ≤ b0 && b0 ≤ 0xDF then
      if cont b1 then (mk ((b0.toNat - 0xC0) * 64 + (b1.toNat - 0x80)), 2) else (mk 0xFFFD, 1)
    else if 0xE0 ≤ b0 && b0 ≤ 0xEF then
      let lo : UInt8 := if b0 = 0xE0 then 0xA0 else 0x80
      let hi : UInt8 := if b0 = 0xED then 0x9F else 0xBF
      match rest with
      | b2 :: _ =>
        if lo ≤ b1 && b1 ≤ hi && cont b2 then (mk ((b0.toNat - 0xE0) * 4096 + (b1.toNat - 0x80) * 64 + (b2.toNat - 0x80)), 3)
        else (mk 0xFFFD, 1)
      | [] => (mk 0xFFFD, 1)
    else if 0xF0 ≤ b0 && b0 ≤ 0xF4 then
      let lo : UInt8 := if b0 = 0xF0 then 0x90 else 0x80
      let hi : UInt8 := if b0 = 0xF4 then 0x8F else 0xBF
      match rest with
      | b2 :: b3 :: _ =>
        if lo ≤ b1 && b1 ≤ hi && cont b2 && cont b3 then
          (mk ((b0.toNat - 0xF0) * 262144 + (b1.toNat - 0x80) * 4096 + (b2.toNat - 0x80) * 64 + (b3.toNat - 0x80)), 4)
        else (mk 0xFFFD, 1)
      | _ => (mk 0xFFFD, 1)
    else (mk 0xFFFD, 1)

def goRunesFuel : Nat → Bytes → List Char
  | 0, _ => []
  | _, [] => []
  | fuel + 1, bs =>
    let (r, w) := decodeRune bs
    r :: goRunesFuel fuel (bs.drop (max w 1))

/-- the runes of a Go string -/
def goRunes (bs : Bytes) : List Char := goRunesFuel bs.length bs

def encode (cs : List Char) : Bytes := (String.ofList cs).toUTF8.toList

end Lib.Utf8
