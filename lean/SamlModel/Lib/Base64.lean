/-
  Lib.Base64 — byte-exact model of Go's `base64.StdEncoding` (`EncodeToString`, `DecodeString`).
  Go's decoder skips CR and LF anywhere in the input, requires `=` padding to a multiple of four,
  and (not being in Strict mode) ignores non-zero trailing bits of the final quantum.
-/
namespace Lib

abbrev Bytes := List UInt8

def b64Alphabet : List Char :=
  "ABCDEFGHIJKLMNOPQRSTUVWXYZabcdefghijklmnopqrstuvwxyz0123456789+/".toList

def b64Char (n : Nat) : Char :=
  if n < 26 then Char.ofNat (65 + n)
  else if n < 52 then Char.ofNat (97 + (n - 26))
  else if n < 62 then Char.ofNat (48 + (n - 52))
  else if n = 62 then '+' else '/'

def b64Val (c : Char) : Option Nat :=
  let n := c.toNat
  if 65 ≤ n ∧ n ≤ 90 then some (n - 65)
  else if 97 ≤ n ∧ n ≤ 122 then some (n - 97 + 26)
  else if 48 ≤ n ∧ n ≤ 57 then some (n - 48 + 52)
  else if c = '+' then some 62
  else if c = '/' then some 63
  else none

def b64EncodeChars : List Nat → List Char
  | a :: b :: c :: rest =>
    b64Char (a / 4) :: b64Char ((a % 4) * 16 + b / 16) :: b64Char ((b % 16) * 4 + c / 64) :: b64Char (c % 64) ::
      b64EncodeChars rest
  | [a, b] => [b64Char (a / 4), b64Char ((a % 4) * 16 + b / 16), b64Char ((b % 16) * 4), '=']
  | [a] => [b64Char (a / 4), b64Char ((a % 4) * 16), '=', '=']
  | [] => []

def b64encode (bs : Bytes) : String := String.ofList (b64EncodeChars (bs.map (·.toNat)))

def b64DecodeChars : List Char → Option (List Nat)
  | [] => some []
  | c0 :: c1 :: c2 :: c3 :: rest =>
    if c3 = '=' then
      -- padding is only legal in the last quantum
      if rest ≠ [] then none
      else if c2 = '=' then do
        let v0 ← b64Val c0
        let v1 ← b64Val c1
        pure [v0 * 4 + v1 / 16]
      else do
        let v0 ← b64Val c0
        let v1 ← b64Val c1
        let v2 ← b64Val c2
        pure [v0 * 4 + v1 / 16, (v1 % 16) * 16 + v2 / 4]
    else do
      let v0 ← b64Val c0
      let v1 ← b64Val c1
      let v2 ← b64Val c2
      let v3 ← b64Val c3
      let r ← b64DecodeChars rest
      pure ((v0 * 4 + v1 / 16) :: ((v1 % 16) * 16 + v2 / 4) :: ((v2 % 4) * 64 + v3) :: r)
  | _ => none

/-- `base64.StdEncoding.DecodeString`: `none` = error. -/
def b64decode (s : String) : Option Bytes :=
  let cs := s.toList.filter (fun c => c != '\r' && c != '\n')
  (b64DecodeChars cs).map (·.map UInt8.ofNat)

/-- Go `string(b)` for bytes that are valid UTF-8; otherwise the lossy decoding Lean offers.
    Only used where the value is opaque to the decision logic. -/
def bytesToString (b : Bytes) : String :=
  match String.fromUTF8? (ByteArray.mk b.toArray) with
  | some s => s
  | none => String.ofList (b.map fun x => Char.ofNat x.toNat)

def stringToBytes (s : String) : Bytes := s.toUTF8.toList

end Lib
