/-!
  Lib.Time — `time.Parse("2006-01-02T15:04:05.999999Z", s)` (the library's `DefaultTimeFormat`), written from Go 1.23's
  time/format.go: four-digit year, `-`, two-digit month 01-12, `-`, two-digit day (validated against the month at the
  end), `T`, hour of ONE OR TWO digits 0-23 (`15` is the non-padded hour verb), `:`, two-digit minute, `:`, two-digit
  second 0-59, an OPTIONAL fraction introduced by `.` OR `,` with ANY number of digits (nine are kept, the rest
  dropped), the literal `Z`, and nothing after it.  The instant is UTC.  Compared with `time.Parse` on a boundary corpus
  and a mutation stream on every run (`lib timeparse`).
-/
namespace Lib.Time

def digit? (c : Char) : Option Nat := if '0' ≤ c ∧ c ≤ '9' then some (c.toNat - 48) else none

/-- `getnum(s, fixed)`: one or two leading digits (exactly two when `fixed`) -/
def getnum (fixed : Bool) : List Char → Option (Nat × List Char)
  | [] => none
  | a :: rest =>
    match digit? a with
    | none => none
    | some x =>
      match rest with
      | [] => if fixed then none else some (x, [])
      | b :: rest' =>
        match digit? b with
        | some y => some (x * 10 + y, rest')
        | none => if fixed then none else some (x, rest)

def lit (c : Char) : List Char → Option (List Char)
  | [] => none
  | x :: r => if x = c then some r else none

def isLeap (y : Nat) : Bool := y % 4 == 0 && (y % 100 != 0 || y % 400 == 0)

def daysIn (m y : Nat) : Nat :=
  if m == 2 then (if isLeap y then 29 else 28)
  else if m == 4 || m == 6 || m == 9 || m == 11 then 30 else 31

/-- days from 1970-01-01 to the civil date (proleptic Gregorian calendar) -/
def daysFromCivil (y m d : Nat) : Int :=
  let y' : Int := if m ≤ 2 then (y : Int) - 1 else y
  let era : Int := y' / 400
  let yoe : Int := y' - era * 400
  let mp : Int := if m > 2 then (m : Int) - 3 else (m : Int) + 9
  let doy : Int := (153 * mp + 2) / 5 + d - 1
  let doe : Int := yoe * 365 + yoe / 4 - yoe / 100 + doy
  era * 146097 + doe - 719468

def digitsVal (ds : List Nat) : Nat := ds.foldl (fun a d => a * 10 + d) 0

/-- `parseNanoseconds`: the first nine digits scaled to nanoseconds -/
def fracNanos (ds : List Nat) : Nat :=
  let k := ds.take 9
  digitsVal k * 10 ^ (9 - k.length)

def takeDigits : List Char → List Nat × List Char
  | [] => ([], [])
  | c :: r => match digit? c with
    | some d => let (ds, r') := takeDigits r; (d :: ds, r')
    | none => ([], c :: r)

structure Instant where
  /-- seconds since 1970-01-01T00:00:00Z -/
  sec : Int
  nsec : Nat
deriving Repr, DecidableEq

def Instant.nanos (t : Instant) : Int := t.sec * 1000000000 + t.nsec

/-- `time.Parse(DefaultTimeFormat, s)`; `none` = error -/
def parseDefault (s : List Char) : Option Instant :=
  match s with
  | a :: b :: c :: d :: r0 =>
    match digit? a, digit? b, digit? c, digit? d with
    | some y3, some y2, some y1, some y0 =>
      let year := y3 * 1000 + y2 * 100 + y1 * 10 + y0
      (lit '-' r0).bind fun r => (getnum true r).bind fun (mo, r) =>
      if mo = 0 ∨ 12 < mo then none else
      (lit '-' r).bind fun r => (getnum true r).bind fun (dy, r) =>
      (lit 'T' r).bind fun r => (getnum false r).bind fun (h, r) =>
      if 24 ≤ h then none else
      (lit ':' r).bind fun r => (getnum true r).bind fun (mi, r) =>
      if 60 ≤ mi then none else
      (lit ':' r).bind fun r => (getnum true r).bind fun (sc, r) =>
      if 60 ≤ sc then none else
      let (ns, r) : Nat × List Char := match r with
        | p :: q :: rest =>
          if (p = '.' ∨ p = ',') ∧ (digit? q).isSome then
            let (ds, r') := takeDigits (q :: rest)
            (fracNanos ds, r')
          else (0, r)
        | _ => (0, r)
      (lit 'Z' r).bind fun r =>
      if r ≠ [] then none else
      if dy < 1 ∨ dy > daysIn mo year then none else
      some { sec := daysFromCivil year mo dy * 86400 + h * 3600 + mi * 60 + sc, nsec := ns }
    | _, _, _, _ => none
  | _ => none

end Lib.Time
