import SamlModel.Props.C19
set_option linter.unusedSimpArgs false
set_option linter.unusedVariables false
/-!
  C19 on the regenerated issuer factories (context.go): the two closure levels of `issuerFromForwardedOrHost` and of
  `StaticIssuer` are translated separately on every run (`…_validate`: the checks made when the provider is
  constructed; `…_derive`: what is computed per request), `hostFromForwarded` as a whole.  What the request
  contributes is visible as oracles: `o.headerValues name` (= `r.Header[name]`), `o.reqHost` (= `r.Host`);
  `httpforwarded.ParseParameter` is the library oracle `o.forwardedParse`.
-/
namespace C19
open Go Gen

/-- the first host of the configured forwarding headers: headers in configuration order, a header whose values
    do not parse or carry no host parameter is skipped -/
def firstHost (o : Ora) : List String → Option String
  | [] => none
  | h :: hs =>
    match o.forwardedParse "host" (o.headerValues h) with
    | (x :: _, none) => some x
    | _ => firstHost o hs

/-- the body of the loop of `hostFromForwarded`, as generated -/
def hostBody (o : Ora) : String → hostFromForwarded.Frame → Ctl hostFromForwarded.Frame (String × Bool) :=
  fun x_header s =>
    let t_ := (o.forwardedParse "host" (o.headerValues x_header));
    let s := { s with hosts := t_.1 };
    let s := { s with err := t_.2 };
    Ctl.seq
      (if (!s.err.isNone) then
        .cont s
      else
        .next s)
      fun s =>
        (if (decide ((s.hosts.length : Int) > (0 : Int))) then
          if decide (s.hosts.length ≤ 0) then .panic else
          .ret ((s.hosts.getD 0 default), true)
        else
          .next s)

theorem hostFromForwarded_body_eq (o : Ora) (s : hostFromForwarded.Frame) :
    hostFromForwarded.body o s = Ctl.seq (goFor s.headers s (hostBody o)) fun s => .ret ("", false) := rfl

theorem hostBody_err (o : Ora) (h : String) (s : hostFromForwarded.Frame) (hosts : List String) (e : String)
    (hp : o.forwardedParse "host" (o.headerValues h) = (hosts, some e)) : ∃ s', hostBody o h s = .cont s' := by
  simp [hostBody, hp]

theorem hostBody_empty (o : Ora) (h : String) (s : hostFromForwarded.Frame)
    (hp : o.forwardedParse "host" (o.headerValues h) = ([], none)) : ∃ s', hostBody o h s = .next s' := by
  simp [hostBody, hp]

theorem hostBody_found (o : Ora) (h : String) (s : hostFromForwarded.Frame) (x : String) (xs : List String)
    (hp : o.forwardedParse "host" (o.headerValues h) = (x :: xs, none)) : hostBody o h s = .ret (x, true) := by
  simp [hostBody, hp]

theorem hostLoop_spec (o : Ora) (l : List String) (s : hostFromForwarded.Frame) :
    (Ctl.seq (goFor l s (hostBody o)) fun s => (.ret ("", false) : Ctl hostFromForwarded.Frame (String × Bool))) =
    .ret (match firstHost o l with | some x => (x, true) | none => ("", false)) := by
  induction l generalizing s with
  | nil => simp [firstHost]
  | cons h hs ih =>
    rw [goFor_cons]
    rcases hp : o.forwardedParse "host" (o.headerValues h) with ⟨hosts, err⟩
    cases err with
    | some e =>
      obtain ⟨s', hs'⟩ := hostBody_err o h s hosts e hp
      simp only [hs', firstHost, hp]
      exact ih _
    | none =>
      cases hosts with
      | nil =>
        obtain ⟨s', hs'⟩ := hostBody_empty o h s hp
        simp only [hs', firstHost, hp]
        exact ih _
      | cons x xs =>
        simp only [hostBody_found o h s x xs hp, firstHost, hp, Ctl.seq_ret]

/-- `hostFromForwarded` returns the first host of the configured headers, or ("", false) -/
theorem hostFromForwarded_spec (o : Ora) (headers : List String) :
    hostFromForwarded o headers = .ok (match firstHost o headers with | some x => (x, true) | none => ("", false)) := by
  unfold hostFromForwarded
  rw [hostFromForwarded_body_eq, hostLoop_spec]
  rfl

/-- **C19 (host-derived issuer, on the regenerated per-request closure).**  For every request (every answer of
    `r.Header[·]`, `r.Host`) and every configuration, the issuer is "https://" (or "http://" in insecure mode) + the
    first host of the configured forwarding headers if any, else the request Host, + the configured path with a
    leading slash. -/
theorem C19_generated_derive (o : Ora) (path : String) (cfg : provider_issuerConfig) (insecure : Bool) :
    issuerFromForwardedOrHost_derive o path (some cfg) insecure =
      .ok ((if insecure then "http" else "https") ++ "://" ++ ((firstHost o cfg.headers).getD o.reqHost) ++ normPath path) := by
  unfold issuerFromForwardedOrHost_derive issuerFromForwardedOrHost_derive.body
  simp only [hostFromForwarded_spec, C19_dynamic_shape, deref, Option.getD_some, Option.isNone_some, Res.isPanic, Res.get, Bool.or_false]
  cases firstHost o cfg.headers <;> simp [Ctl.toRes]

/-- it never takes its scheme, path or any other component from the request: two requests that agree on `Host` and
    on the values of the configured headers get the same issuer (whatever their URL, query, other headers, body) -/
theorem C19_generated_derive_reads_only (o o' : Ora) (path : String) (cfg : provider_issuerConfig) (insecure : Bool)
    (hHost : o.reqHost = o'.reqHost) (hHdr : ∀ h ∈ cfg.headers, o.headerValues h = o'.headerValues h)
    (hLib : o.forwardedParse = o'.forwardedParse) :
    issuerFromForwardedOrHost_derive o path (some cfg) insecure = issuerFromForwardedOrHost_derive o' path (some cfg) insecure := by
  rw [C19_generated_derive, C19_generated_derive, hHost]
  have : firstHost o cfg.headers = firstHost o' cfg.headers := by
    generalize cfg.headers = l at hHdr
    induction l with
    | nil => rfl
    | cons h hs ih =>
      simp only [firstHost, hLib, hHdr h (List.mem_cons_self ..)]
      rw [ih (fun h' hm => hHdr h' (List.mem_cons_of_mem _ hm))]
  rw [this]

/-- **C19 (host-derived issuer, construction).**  The factory refuses a configured path that does not parse or that
    contains `?` or `#` -/
theorem C19_generated_validate (o : Ora) (path : String) (c : Option provider_issuerConfig) (insecure : Bool)
    (h : issuerFromForwardedOrHost_validate o path c insecure = .ok none) :
    Lib.containsAny path "?#" = false ∧ ∃ u, o.urlParse path = some u := by
  unfold issuerFromForwardedOrHost_validate issuerFromForwardedOrHost_validate.body at h
  simp only [hasQF_eq, Res.isPanic, Res.get] at h
  cases hu : o.urlParse path with
  | none => simp [hu, Ctl.toRes] at h
  | some u =>
    refine ⟨?_, u, rfl⟩
    cases hq : Lib.containsAny path "?#" with
    | false => rfl
    | true => simp [hu, hq, Ctl.toRes] at h

theorem C19_generated_validate_no_panic (o : Ora) (path : String) (c : Option provider_issuerConfig) (insecure : Bool) :
    issuerFromForwardedOrHost_validate o path c insecure ≠ .panic := by
  unfold issuerFromForwardedOrHost_validate issuerFromForwardedOrHost_validate.body
  simp only [hasQF_eq, Res.isPanic, Res.get]
  cases hu : o.urlParse path with
  | none => simp [hu, Ctl.toRes]
  | some u =>
    cases hq : Lib.containsAny path "?#" <;> simp [hu, hq, Ctl.toRes, validatePath_eq, Res.isPanic, Res.get]
    by_cases hc : (¬u.Fragment = "" ∨ ¬u.RawQuery = "") ∨ u.ForceQuery = true <;> simp [hc]

/-- **C19 (static issuer, on the regenerated factory).**  What `StaticIssuer(issuer)(insecure)` checks is exactly
    `ValidateIssuer`, and the issuer it then reports for every request is the configured string. -/
theorem C19_generated_static (o : Ora) (issuer : String) (insecure : Bool) :
    StaticIssuer_validate o issuer insecure = ValidateIssuer o issuer insecure ∧
    StaticIssuer_derive o issuer insecure = .ok issuer := by
  refine ⟨?_, rfl⟩
  unfold StaticIssuer_validate StaticIssuer_validate.body
  cases hv : ValidateIssuer o issuer insecure with
  | panic => simp [Res.isPanic, Ctl.toRes]
  | ok e => cases e <;> simp [Res.isPanic, Res.get, Ctl.toRes]

/-- the provider with a static issuer can be constructed only if … (C19_static_only_if through the factory) -/
theorem C19_generated_static_only_if (o : Ora) (issuer : String) (insecure : Bool)
    (h : StaticIssuer_validate o issuer insecure = .ok none) :
    issuer ≠ "" ∧ ∃ u, o.urlParse issuer = some u ∧ u.hostname ≠ "" := by
  rw [(C19_generated_static o issuer insecure).1] at h
  obtain ⟨h1, u, h2, h3, _⟩ := C19_static_only_if o issuer insecure h
  exact ⟨h1, u, h2, h3⟩

/-- non-vacuity: a request with a Forwarded header, one without -/
def ora1 : Ora := { ora0 with
  headerValues := fun h => if h == "Forwarded" then ["host=fwd.example"] else if h == "X-Evil" then ["host=evil.example"] else []
  forwardedParse := fun _ vs => (vs.map (fun v => (v.drop 5).toString), none)
  reqHost := "req.example" }
example : issuerFromForwardedOrHost_derive ora1 "saml" (some { headers := ["Forwarded"] }) false = .ok "https://fwd.example/saml" := by decide
example : issuerFromForwardedOrHost_derive ora1 "saml" (some { headers := ["X-Other"] }) true = .ok "http://req.example/saml" := by decide
example : issuerFromForwardedOrHost_validate ora0 "https://idp/saml" none false = .ok none := by decide
example : issuerFromForwardedOrHost_validate ora0 "https://idp/saml?" none false = .ok (some "no fragments or query allowed for issuer") := by decide
example : StaticIssuer_validate ora0 "https://idp/saml" false = .ok none := by decide

end C19
