import SamlModel.Lemmas.HtmlTok
import SamlModel.Generated.Facts
import SamlModel.Model.Expected
import SamlModel.Model.FactsUtil
set_option linter.unusedSimpArgs false
set_option linter.unusedVariables false
set_option maxRecDepth 100000
/-!
  C17 — Auto-submit pages cannot be altered by request-controlled values.

  Model: `Lib.HtmlTok.page lits url relay msg` is what `Template.Execute` writes — the literal segments of the
  template *as go2lean reads them from pkg/provider/template.go on every run* (`Gen.Facts.postTemplateLits`,
  `logoutTemplateLits`) with `urlAttr url`, `attrEscape relay`, `attrEscape msg` in the holes (byte-exact models of
  html/template's `_html_template_urlfilter | _html_template_urlnormalizer | _html_template_attrescaper` and
  `_html_template_attrescaper`; the correspondence check compares `page` with the bytes the real handlers and the
  real templates produce).  `Lib.HtmlTok.tokenize` is an HTML tokenizer written from the WHATWG description.
-/
namespace C17
open Lib.Html Lib.HtmlTok

/-- the event stream of the page: everything is fixed but three attribute values -/
def pageEvents (scripting : Bool) (u r m : Lib.Bytes) : List Event :=
  [.open b!"html", .attr b!"xmlns" b!"http://www.w3.org/1999/xhtml", .attr b!"xml:lang" b!"en", .openEnd false,
   .open b!"body", .attr b!"onload" b!"document.getElementById('samlpost').submit()", .openEnd false,
   .open b!"noscript", .openEnd false] ++
  (if scripting then [] else
    [.open b!"p", .openEnd false, .open b!"strong", .openEnd false, .close b!"strong", .close b!"p"]) ++
  [.close b!"noscript",
   .open b!"form", .attr b!"action" u, .attr b!"method" b!"post", .attr b!"id" b!"samlpost", .openEnd false,
   .open b!"div", .openEnd false,
   .open b!"input", .attr b!"type" b!"hidden", .attr b!"name" b!"RelayState", .attr b!"value" r, .openEnd true,
   .open b!"input", .attr b!"type" b!"hidden", .attr b!"name" b!"SAMLResponse", .attr b!"value" m, .openEnd true,
   .close b!"div",
   .open b!"noscript", .openEnd false] ++
  (if scripting then [] else
    [.open b!"div", .openEnd false, .open b!"input", .attr b!"type" b!"submit", .attr b!"value" b!"Continue", .openEnd true,
     .close b!"div"]) ++
  [.close b!"noscript", .close b!"form", .close b!"body", .close b!"html"]

/-! ### ties to the source -/

/-- the logout template has the same literal text as the login template -/
theorem logout_same_literals : Gen.Facts.logoutTemplateLits = Gen.Facts.postTemplateLits := by decide +kernel

/-- exactly three holes each, nothing but field substitutions (no pipelines, no `safe` types, no conditionals) -/
theorem holes_current :
    Gen.Facts.postTemplateHoles = [".AssertionConsumerServiceURL", ".RelayState", ".SAMLResponse"] ∧
    Gen.Facts.logoutTemplateHoles = [".LogoutURL", ".RelayState", ".SAMLResponse"] := by decide

/-- the templates are parsed by html/template (not text/template), and every substituted field is a plain `string`
    (none of the `template.HTML` / `template.URL` / `template.HTMLAttr` types that switch escaping off) -/
theorem escaping_on : Gen.Facts.templatePkg = "html/template" ∧
    Gen.Facts.templateDataTypes = [("authResponseForm.RelayState", "string"), ("authResponseForm.SAMLResponse", "string"),
      ("authResponseForm.AssertionConsumerServiceURL", "string"), ("LogoutResponseForm.RelayState", "string"),
      ("LogoutResponseForm.SAMLResponse", "string"), ("LogoutResponseForm.LogoutURL", "string")] := by decide

/-- the functions that fill and execute the templates are the ones the model was written against -/
theorem C17_source_current : FactsUtil.sameHashes ["provider.LogoutResponse.sendBackLogoutResponse", "provider.NewIdentityProvider"] = true := by decide

/-! ### the literal segments, run through the tokenizer (closed computations, evaluated by the kernel) -/

def lit0 := Gen.Facts.postTemplateLit0
def lit1 := Gen.Facts.postTemplateLit1
def lit2 := Gen.Facts.postTemplateLit2
def lit3 := Gen.Facts.postTemplateLit3

theorem lits_eq : Gen.Facts.postTemplateLits = [lit0, lit1, lit2, lit3] := rfl

/-- no literal segment contains a CR, each hole is opened by a `"` that ends the segment before it -/
theorem lits_noCR : ∀ l ∈ Gen.Facts.postTemplateLits, ∀ y ∈ l, y ≠ 0x0D := by decide +kernel

theorem lit1_cons : ∃ t, lit1 = 0x22 :: t := ⟨lit1.tail, by decide +kernel⟩
theorem lit2_cons : ∃ t, lit2 = 0x22 :: t := ⟨lit2.tail, by decide +kernel⟩
theorem lit3_cons : ∃ t, lit3 = 0x22 :: t := ⟨lit3.tail, by decide +kernel⟩

def sForm : St := { mode := .attrValDq, isEnd := false, name := b!"form", aname := b!"action", val := [] }
def sInput : St := { mode := .attrValDq, isEnd := false, name := b!"input", aname := b!"value", val := [] }
def sAfter (n : Lib.Bytes) : St := { mode := .afterAttrValQ, isEnd := false, name := n, aname := [], val := [] }

theorem seg0 (sc : Bool) : run sc {} lit0 = (sForm, (pageEvents sc [] [] []).take (if sc then 11 else 17)) := by
  cases sc <;> decide +kernel

theorem seg1 (sc : Bool) : run sc (sAfter b!"form") lit1.tail =
    (sInput, ((pageEvents sc [] [] []).drop (if sc then 12 else 18)).take 8) := by
  cases sc <;> decide +kernel

theorem seg2 (sc : Bool) : run sc (sAfter b!"input") lit2.tail =
    (sInput, ((pageEvents sc [] [] []).drop (if sc then 21 else 27)).take 4) := by
  cases sc <;> decide +kernel

theorem seg3 (sc : Bool) : run sc (sAfter b!"input") lit3.tail =
    ({}, (pageEvents sc [] [] []).drop (if sc then 26 else 32)) := by
  cases sc <;> decide +kernel

/-! ### the page theorem -/

/-- newline normalisation of the page: the literals and the URL have no CR; in the two values it acts as on the values -/
theorem normNL_page (url relay msg : Lib.Bytes) :
    normNL (page Gen.Facts.postTemplateLits url relay msg) =
      lit0 ++ urlAttr url ++ lit1 ++ attrEscape (normNL relay) ++ lit2 ++ attrEscape (normNL msg) ++ lit3 := by
  have hl := lits_noCR
  have h0 : nlRun false lit0 = (false, lit0) := nlRun_noCR _ (hl lit0 (by simp [lits_eq]))
  have hq : ∀ (l : Lib.Bytes) (p : Bool), (∃ t, l = 0x22 :: t) → (∀ y ∈ l, y ≠ 0x0D) → nlRun p l = (false, l) := by
    intro l p ⟨t, ht⟩ hn
    subst ht
    rw [nlRun_cons]
    have hs : nlStep p 0x22 = (false, [0x22]) := by cases p <;> decide
    rw [hs, nlRun_noCR t (fun y hy => hn y (by simp [hy]))]; simp
  have h1 := fun p => hq lit1 p lit1_cons (hl lit1 (by simp [lits_eq]))
  have h2 := fun p => hq lit2 p lit2_cons (hl lit2 (by simp [lits_eq]))
  have h3 := fun p => hq lit3 p lit3_cons (hl lit3 (by simp [lits_eq]))
  have hu : nlRun false (urlAttr url) = (false, urlAttr url) := by
    unfold urlAttr
    rw [nlRun_escape, nlRun_noCR _ (fun y hy => (urlOut_safe y (urlNormalize_out _ y hy)).2.2.2.2.2.2.1)]
  unfold normNL page
  simp only [lits_eq]
  simp only [nlRun_append, h0, hu, h1, h2, h3, nlRun_escape]

/-- **C17 (page)**: for every consumer URL, RelayState and message — any bytes — an HTML tokenizer sees the fixed event
    stream of the template; the three substituted values appear as exactly three attribute values: the filtered,
    normalised URL and the two values themselves, up to what HTML cannot carry (NUL ↦ U+FFFD, CR / CR LF ↦ LF). -/
theorem C17_page (sc : Bool) (url relay msg : Lib.Bytes) :
    tokenize sc (page Gen.Facts.postTemplateLits url relay msg) =
      pageEvents sc (urlNormalize (urlFilter url)) (nulToFFFD (normNL relay)) (nulToFFFD (normNL msg)) := by
  unfold tokenize
  rw [normNL_page]
  obtain ⟨t1, ht1⟩ := lit1_cons
  obtain ⟨t2, ht2⟩ := lit2_cons
  obtain ⟨t3, ht3⟩ := lit3_cons
  have e1 : lit1.tail = t1 := by rw [ht1]; rfl
  have e2 : lit2.tail = t2 := by rw [ht2]; rfl
  have e3 : lit3.tail = t3 := by rw [ht3]; rfl
  have s1 := seg1 sc; rw [e1] at s1
  have s2 := seg2 sc; rw [e2] at s2
  have s3 := seg3 sc; rw [e3] at s3
  have hrest : lit0 ++ urlAttr url ++ lit1 ++ attrEscape (normNL relay) ++ lit2 ++ attrEscape (normNL msg) ++ lit3 =
      lit0 ++ (attrEscape (urlNormalize (urlFilter url)) ++ 0x22 :: (t1 ++ (attrEscape (normNL relay) ++ 0x22 :: (t2 ++
        (attrEscape (normNL msg) ++ 0x22 :: t3))))) := by
    rw [ht1, ht2, ht3]; simp [urlAttr, List.append_assoc]
  rw [hrest, run_append, seg0 sc]
  simp only [sForm]
  rw [run_hole sc _ _ _ _ (by decide), run_append]
  have s1' : run sc { mode := .afterAttrValQ, isEnd := false, name := b!"form", aname := [], val := [] } t1 = _ := s1
  rw [s1']
  simp only [sInput]
  rw [run_hole sc _ _ _ _ (by decide), run_append]
  have s2' : run sc { mode := .afterAttrValQ, isEnd := false, name := b!"input", aname := [], val := [] } t2 = _ := s2
  rw [s2']
  simp only [sInput]
  rw [run_hole sc _ _ _ _ (by decide)]
  have s3' : run sc { mode := .afterAttrValQ, isEnd := false, name := b!"input", aname := [], val := [] } t3 = _ := s3
  rw [s3']
  cases sc <;> simp [pageEvents, nulToFFFD_urlNormalize]

/-- the same for the logout page -/
theorem C17_page_logout (sc : Bool) (url relay msg : Lib.Bytes) :
    tokenize sc (page Gen.Facts.logoutTemplateLits url relay msg) =
      pageEvents sc (urlNormalize (urlFilter url)) (nulToFFFD (normNL relay)) (nulToFFFD (normNL msg)) := by
  rw [logout_same_literals]; exact C17_page sc url relay msg

/-- **exactly one form**, whose action is the filtered and normalised URL, whose method is post, and whose hidden
    fields are exactly RelayState and SAMLResponse with the substituted values -/
theorem forms_of_pageEvents (sc : Bool) (u r m : Lib.Bytes) :
    formsOf (pageEvents sc u r m) =
      [{ action := some u, method := some b!"post", hidden := [(b!"RelayState", r), (b!"SAMLResponse", m)],
         others := if sc then 0 else 1 }] := by
  cases sc <;> rfl

theorem C17_one_form (sc : Bool) (url relay msg : Lib.Bytes) :
    formsOf (tokenize sc (page Gen.Facts.postTemplateLits url relay msg)) =
      [{ action := some (urlNormalize (urlFilter url)), method := some b!"post",
         hidden := [(b!"RelayState", nulToFFFD (normNL relay)), (b!"SAMLResponse", nulToFFFD (normNL msg))],
         others := if sc then 0 else 1 }] := by
  rw [C17_page, forms_of_pageEvents]

/-- **no markup can be added**: the start tags and the attribute names of the page do not depend on the values -/
theorem C17_structure_fixed (sc : Bool) (url relay msg url' relay' msg' : Lib.Bytes) :
    startTags (tokenize sc (page Gen.Facts.postTemplateLits url relay msg)) =
      startTags (tokenize sc (page Gen.Facts.postTemplateLits url' relay' msg')) ∧
    attrNames (tokenize sc (page Gen.Facts.postTemplateLits url relay msg)) =
      attrNames (tokenize sc (page Gen.Facts.postTemplateLits url' relay' msg')) := by
  rw [C17_page, C17_page]
  cases sc <;> exact ⟨rfl, rfl⟩

/-- in particular there is no script element and the only event-handler attribute is the template's own `onload` -/
theorem C17_no_script (sc : Bool) (url relay msg : Lib.Bytes) :
    b!"script" ∉ startTags (tokenize sc (page Gen.Facts.postTemplateLits url relay msg)) ∧
    (attrNames (tokenize sc (page Gen.Facts.postTemplateLits url relay msg))).filter (fun n => n.take 2 = b!"on") = [b!"onload"] := by
  rw [C17_page]
  have h1 : startTags (pageEvents sc (urlNormalize (urlFilter url)) (nulToFFFD (normNL relay)) (nulToFFFD (normNL msg))) = startTags (pageEvents sc [] [] []) := by
    cases sc <;> rfl
  have h2 : attrNames (pageEvents sc (urlNormalize (urlFilter url)) (nulToFFFD (normNL relay)) (nulToFFFD (normNL msg))) = attrNames (pageEvents sc [] [] []) := by
    cases sc <;> rfl
  rw [h1, h2]
  cases sc <;> decide +kernel

/-- **no byte of a value can end its attribute or open a tag** (statement about the bytes written, tokenizer-free) -/
theorem C17_no_delimiter (url relay msg : Lib.Bytes) :
    (∀ y ∈ urlAttr url, y ≠ 0x22 ∧ y ≠ 0x3C ∧ y ≠ 0x3E ∧ y ≠ 0x27 ∧ y ≠ 0) ∧
    (∀ y ∈ attrEscape relay, y ≠ 0x22 ∧ y ≠ 0x3C ∧ y ≠ 0x3E ∧ y ≠ 0x27 ∧ y ≠ 0) ∧
    (∀ y ∈ attrEscape msg, y ≠ 0x22 ∧ y ≠ 0x3C ∧ y ≠ 0x3E ∧ y ≠ 0x27 ∧ y ≠ 0) :=
  ⟨urlAttr_safe url, attrEscape_safe relay, attrEscape_safe msg⟩

/-- **a javascript: / data: consumer URL is never the form action**: a URL with a protocol other than http, https,
    mailto is replaced by the inert `#ZgotmplZ` -/
theorem C17_action_scheme (sc : Bool) (url relay msg p : Lib.Bytes) (hs : schemeOf url = some p)
    (hbad : foldProto p ≠ b!"http" ∧ foldProto p ≠ b!"https" ∧ foldProto p ≠ b!"mailto") :
    (formsOf (tokenize sc (page Gen.Facts.postTemplateLits url relay msg))).map (·.action) = [some b!"#ZgotmplZ"] := by
  rw [C17_one_form, urlFilter_blocks url p hs hbad]
  have : urlNormalize failsafe = b!"#ZgotmplZ" := by decide +kernel
  simp [this]

/-- **whatever the consumer URL, the action a browser sees has a safe protocol**: if a WHATWG URL parser finds a scheme in
    the emitted form action, it is http, https or mailto.  (Stronger than `C17_action_scheme`: it speaks about the URL a
    browser parses, after percent-normalisation, not about the Go-side filter.) -/
theorem C17_action_browser_scheme (sc : Bool) (url relay msg a p : Lib.Bytes)
    (ha : (formsOf (tokenize sc (page Gen.Facts.postTemplateLits url relay msg))).map (·.action) = [some a])
    (hp : browserScheme a = some p) :
    p.map toLowerByte = b!"http" ∨ p.map toLowerByte = b!"https" ∨ p.map toLowerByte = b!"mailto" := by
  rw [C17_one_form] at ha
  simp at ha
  subst ha
  exact action_browser_scheme url p hp

example : browserScheme b!"JavaScript:alert(1)" = some b!"JavaScript" := by decide +kernel
example : browserScheme b!"http%c5%bf://sp.example.com/acs" = none := by decide +kernel

/-- what the action is otherwise: the registered URL, percent-normalised -/
theorem C17_action_ok (sc : Bool) (url relay msg : Lib.Bytes)
    (hs : schemeOf url = none ∨ ∃ p, schemeOf url = some p ∧ (foldProto p = b!"http" ∨ foldProto p = b!"https" ∨ foldProto p = b!"mailto")) :
    (formsOf (tokenize sc (page Gen.Facts.postTemplateLits url relay msg))).map (·.action) = [some (urlNormalize url)] := by
  rw [C17_one_form]
  have : urlFilter url = url := by
    unfold urlFilter
    rcases hs with h | ⟨p, h, hp⟩
    · simp [h]
    · simp only [h]; rw [if_pos hp]
  simp [this]

/-- **the hidden fields hold exactly the values** — for values without NUL and CR (`…_partial`: see the witness below) -/
theorem C17_values_exact_partial (sc : Bool) (url relay msg : Lib.Bytes)
    (hr : ∀ y ∈ relay, y ≠ 0 ∧ y ≠ 0x0D) (hm : ∀ y ∈ msg, y ≠ 0 ∧ y ≠ 0x0D) :
    (formsOf (tokenize sc (page Gen.Facts.postTemplateLits url relay msg))).map (·.hidden) =
      [[(b!"RelayState", relay), (b!"SAMLResponse", msg)]] := by
  have nz := nulToFFFD_of_nz
  rw [C17_one_form, normNL_noCR relay (fun y hy => (hr y hy).2), normNL_noCR msg (fun y hy => (hm y hy).2),
    nz relay (fun y hy => (hr y hy).1), nz msg (fun y hy => (hm y hy).1)]
  rfl

/-- the message the IdP substitutes is base64 text: it never contains NUL or CR, so it always arrives exactly -/
theorem C17_witness_cr : ∀ sc, (formsOf (tokenize sc (page Gen.Facts.postTemplateLits b!"https://sp.example/acs" [0x61, 0x0D, 0x62] b!"QUJD"))).map (·.hidden) =
      [[(b!"RelayState", [0x61, 0x0A, 0x62]), (b!"SAMLResponse", b!"QUJD")]] := by
  decide +kernel

/-! ### non-vacuity -/
example : schemeOf b!"javascript:alert(1)" = some b!"javascript" := by decide +kernel
example : (formsOf (tokenize true (page Gen.Facts.postTemplateLits b!"JaVaScript:alert(1)" b!"\"><script>alert(1)</script>" b!"x"))).map (·.action) = [some b!"#ZgotmplZ"] := by
  decide +kernel
example : (formsOf (tokenize false (page Gen.Facts.postTemplateLits b!"https://sp.example/acs?a=1&b=2" b!"\"><script>alert(1)</script>" b!"x"))).map (·.hidden) =
    [[(b!"RelayState", b!"\"><script>alert(1)</script>"), (b!"SAMLResponse", b!"x")]] := by
  decide +kernel

end C17
