import SamlModel.Props.HandlerGen
import SamlModel.Props.SsoLemmas
import SamlModel.Props.FnLemmas
import SamlModel.Props.C16
import SamlModel.Props.C03
import SamlModel.Props.C12
import SamlModel.Props.C13
import SamlModel.Model.Metadata
set_option linter.unusedSimpArgs false
set_option linter.unusedVariables false
/-!
  C09 — No input crashes a handler or the SP-registration API.
  In the generated code every Go operation that can panic (nil dereference of an optional XML element, …) is
  an explicit `panic` outcome guarded by the condition under which Go panics; the theorems show the guards
  are never taken.  Library internals (encoding/xml, etree, goxmldsig, flate, html/template) are oracles that
  do not panic in the model — they are covered by the structural-edit and mutation generators.
-/
namespace C09
open Go Gen FnLemmas Consts

/-! ### generated helpers never panic -/

theorem certNecessary_noPanic (o : Ora) (sig : Option xml_dsig_SignatureType) (md : Option md_EntityDescriptorType) :
    certificateCheckNecessary o sig md ≠ .panic := by
  unfold certificateCheckNecessary certificateCheckNecessary.body
  cases sig with
  | none => simp [Ctl.toRes]
  | some s =>
    cases hk : s.KeyInfo with
    | none => simp [hk, deref, Ctl.toRes]
    | some ki =>
      cases md with
      | none => simp [hk, deref, Ctl.toRes]
      | some m =>
        cases hd : m.SPSSODescriptor with
        | none => simp [hk, hd, deref, Ctl.toRes]
        | some d => simp [hk, hd, deref, Ctl.toRes]

theorem equalCert_eq (o : Ora) (a b : String) :
    equalCertificateText o a b = .ok (Lib.join (Lib.fields a) "" == Lib.join (Lib.fields b) "") := by
  simp [equalCertificateText, equalCertificateText.body, Ctl.toRes]

/-- a loop whose body, at the frame it starts from, only falls through unchanged or returns: so does the loop -/
theorem goFor_noPanic_const {α σ ρ : Type} (xs : List α) (s : σ) (body : α → σ → Ctl σ ρ)
    (h : ∀ x, body x s = .next s ∨ ∃ r, body x s = .ret r) : goFor xs s body = .next s ∨ ∃ r, goFor xs s body = .ret r := by
  induction xs with
  | nil => exact Or.inl rfl
  | cons x xs ih =>
    rw [goFor_cons]
    rcases h x with hx | ⟨r, hx⟩
    · rw [hx]; exact ih
    · rw [hx]; exact Or.inr ⟨r, rfl⟩

/-- the three nested search loops of `checkCertificate` (generated text) -/
private theorem certLoops (o : Ora) (s : xml_dsig_SignatureType) (ki : xml_dsig_KeyInfoType) (hk : s.KeyInfo = some ki)
    (kds : List md_KeyDescriptorType) (fr : checkCertificate.Frame) (hr : fr.request = some s) :
    (goFor kds fr fun x_keyDesc s =>
            (goFor x_keyDesc.KeyInfo.X509Data s fun x_spX509Data s =>
              if s.request.isNone || (deref s.request).KeyInfo.isNone then .panic else
                (goFor (deref (deref s.request).KeyInfo).X509Data s fun x_reqX509Data s =>
                  if (equalCertificateText o x_spX509Data.X509Certificate x_reqX509Data.X509Certificate).isPanic then .panic else
                    (if (equalCertificateText o x_spX509Data.X509Certificate x_reqX509Data.X509Certificate).get then
                      (.ret ((none : Err)) : Ctl checkCertificate.Frame Err)
                    else
                      .next s)))) = .next fr ∨
    ∃ r, (goFor kds fr fun x_keyDesc s =>
            (goFor x_keyDesc.KeyInfo.X509Data s fun x_spX509Data s =>
              if s.request.isNone || (deref s.request).KeyInfo.isNone then .panic else
                (goFor (deref (deref s.request).KeyInfo).X509Data s fun x_reqX509Data s =>
                  if (equalCertificateText o x_spX509Data.X509Certificate x_reqX509Data.X509Certificate).isPanic then .panic else
                    (if (equalCertificateText o x_spX509Data.X509Certificate x_reqX509Data.X509Certificate).get then
                      (.ret ((none : Err)) : Ctl checkCertificate.Frame Err)
                    else
                      .next s)))) = .ret r := by
  apply goFor_noPanic_const
  intro kd
  apply goFor_noPanic_const
  intro spX
  simp only [hr, hk, deref, Option.isNone, Option.getD, Bool.or_self, Bool.false_eq_true, if_false]
  apply goFor_noPanic_const
  intro rq
  simp only [equalCert_eq, Res.isPanic, Res.get, Bool.false_eq_true, if_false]
  by_cases hc : (Lib.join (Lib.fields spX.X509Certificate) "" == Lib.join (Lib.fields rq.X509Certificate) "") = true
  · exact Or.inr ⟨none, by simp [hc]⟩
  · exact Or.inl (by simp [hc])

theorem checkCertificate_noPanic (o : Ora) (sig : Option xml_dsig_SignatureType) (md : Option md_EntityDescriptorType) :
    checkCertificate o sig md ≠ .panic := by
  unfold checkCertificate checkCertificate.body
  cases md with
  | none => simp [Ctl.toRes]
  | some m =>
    cases hd : m.SPSSODescriptor with
    | none => simp [hd, deref, Ctl.toRes]
    | some d =>
      by_cases hkd : d.KeyDescriptor = []
      · simp [hd, hkd, deref, Ctl.toRes]
      cases sig with
      | none => simp [hd, hkd, deref, Ctl.toRes]
      | some s =>
        cases hk : s.KeyInfo with
        | none => simp [hd, hkd, hk, deref, Ctl.toRes]
        | some ki =>
          by_cases hx : ki.X509Data = []
          · simp [hd, hkd, hk, hx, deref, Ctl.toRes]
          have hl := certLoops o s ki hk d.KeyDescriptor
            { authRequestSignatureF := some s, spMetadataF := some m, metadata := some m, request := some s } rfl
          rcases hl with hl | ⟨r, hl⟩
          · simp [deref] at hl
            simp [hd, hkd, hk, hx, deref, Ctl.toRes, hl]
          · simp [deref] at hl
            simp [hd, hkd, hk, hx, deref, Ctl.toRes, hl]

theorem getCerts_noPanic (o : Ora) (kds : List md_KeyDescriptorType) : GetCertsFromKeyDescriptors o kds ≠ .panic := by
  unfold GetCertsFromKeyDescriptors GetCertsFromKeyDescriptors.body
  by_cases hn : kds = []
  · simp [hn, Ctl.toRes]
  · have hne : kds.isEmpty = false := by cases kds <;> simp_all
    simp only [hne, Bool.false_eq_true, if_false, Ctl.seq_next]
    apply seq_noPanic_of_next
    · intro kd s
      apply goFor_always_next
      intro x s
      split
      · split
        · exact ⟨_, rfl⟩
        · exact ⟨_, rfl⟩
      · exact ⟨_, rfl⟩
    · intro s; exact ⟨_, rfl⟩

/-- the required-content check does not panic once the Issuer element is present, the registered metadata is
    there, and the IdP metadata is available (or no Destination has to be compared) -/
theorem content_noPanic (o : Ora) (idp : Option md_IDPSSODescriptorType) (sp : serviceprovider_ServiceProvider)
    (req : samlp_AuthnRequestType) (hi : req.Issuer.isSome) (hm : sp.Metadata.isSome) (hidp : idp.isSome ∨ req.Destination = "") :
    checkRequestRequiredContent o idp (some sp) (some req) ≠ .panic := by
  obtain ⟨iss, hiss⟩ := Option.isSome_iff_exists.mp hi
  obtain ⟨m, hmm⟩ := Option.isSome_iff_exists.mp hm
  have hdest : verifyRequestDestinationOfAuthRequest o idp (some req) ≠ .panic := by
    rcases hidp with h | h
    · obtain ⟨md, hmd⟩ := Option.isSome_iff_exists.mp h
      subst hmd; exact dest_noPanic o md req
    · unfold verifyRequestDestinationOfAuthRequest verifyRequestDestinationOfAuthRequest.body
      simp [h, deref, Ctl.toRes]
  cases hd : verifyRequestDestinationOfAuthRequest o idp (some req) with
  | panic => exact absurd hd hdest
  | ok de =>
    unfold checkRequestRequiredContent checkRequestRequiredContent.body
    by_cases h4 : m.EntityID = iss.Text
    · cases hc : req.Conditions with
      | none =>
        by_cases h1 : req.Id = "" <;> by_cases h2 : req.Version = "" <;> by_cases h3 : iss.Text = "" <;> cases de <;>
          simp [hc, hiss, hmm, h1, h2, h3, h4, hd, deref, getEntityID_eq, Res.isPanic, Res.get, Ctl.toRes]
      | some c =>
        cases ht : timeSpec o "2006-01-02T15:04:05.999999Z" c.NotBefore c.NotOnOrAfter <;>
        by_cases hne : (c.NotOnOrAfter != "" || c.NotBefore != "") = true <;>
        by_cases h1 : req.Id = "" <;> by_cases h2 : req.Version = "" <;> by_cases h3 : iss.Text = "" <;> cases de <;>
          simp [hc, hiss, hmm, hne, ht, h1, h2, h3, h4, hd, deref, getEntityID_eq, timeCheck_eq, Res.isPanic, Res.get, Ctl.toRes]
    · have h4' : ¬ iss.Text = m.EntityID := fun h => h4 h.symm
      cases hc : req.Conditions with
      | none =>
        by_cases h1 : req.Id = "" <;> by_cases h2 : req.Version = "" <;> by_cases h3 : iss.Text = "" <;> cases de <;>
          simp [hc, hiss, hmm, h1, h2, h3, h4', hd, deref, getEntityID_eq, Res.isPanic, Res.get, Ctl.toRes]
      | some c =>
        cases ht : timeSpec o "2006-01-02T15:04:05.999999Z" c.NotBefore c.NotOnOrAfter <;>
        by_cases hne : (c.NotOnOrAfter != "" || c.NotBefore != "") = true <;>
        by_cases h1 : req.Id = "" <;> by_cases h2 : req.Version = "" <;> by_cases h3 : iss.Text = "" <;> cases de <;>
          simp [hc, hiss, hmm, hne, ht, h1, h2, h3, h4', hd, deref, getEntityID_eq, timeCheck_eq, Res.isPanic, Res.get, Ctl.toRes]

/-! ### handlers -/

/-- registered metadata is complete (what `NewServiceProvider` guarantees since the fix) -/
def SpWF (sp : serviceprovider_ServiceProvider) : Prop := ∃ m d, sp.Metadata = some m ∧ m.SPSSODescriptor = some d

private theorem condStep_noPanic {c : Res Bool} {l : Res Err} (hc : c ≠ .panic) (hl : l ≠ .panic) : Sso.condStep c l ≠ .panic := by
  unfold Sso.condStep
  cases c with
  | panic => exact absurd rfl hc
  | ok b => cases b <;> simp [hl]

/-- **C09 (SSO).** For every request shape — every optional element present or absent, every SigAlg, every answer of
    the library oracles — the SSO handler does not panic. -/
theorem C09_sso (o : Ora) (i : Sso.In) (hsp : ∀ sp, i.sp = some sp → SpWF sp) (hidp : i.metaErr = false → i.idpMeta.isSome) :
    (Sso.sso o i).out ≠ .panic := by
  unfold Sso.sso
  split
  · simp
  rename_i hme
  split
  · simp
  unfold Sso.ssoAfterForm
  split
  · simp
  split
  · simp
  split
  · simp
  rename_i req _
  split
  · simp
  rename_i iss hiss
  split
  · simp
  rename_i sp hsps
  obtain ⟨m, d, hm, hd⟩ := hsp sp hsps
  have h6 := condStep_noPanic (certNecessary_noPanic o req.Signature sp.Metadata) (checkCertificate_noPanic o req.Signature sp.Metadata)
  unfold Sso.ssoAfterSp Sso.bindR
  dsimp only
  split
  · rename_i hp; exact absurd hp h6
  split
  · simp
  split
  · rename_i hp
    exact absurd hp (condStep_noPanic (by rw [sigRedirNec_eq]; simp) (verifyRedirect_noPanic _ _ _ _ _ _))
  split
  · simp
  split
  · rename_i hp
    exact absurd hp (condStep_noPanic (by rw [sigPostNec_eq]; simp) (verifyPost_noPanic _ _ _))
  split
  · simp
  split
  · rename_i hp; rw [signaturePostProvided_eq] at hp; cases hp
  split
  · simp
  split
  · rename_i hp; simp [Sso.spAcs, hm, hd] at hp
  split
  · rename_i hp
    obtain ⟨r, hr, _⟩ := C16.C16_selection_meets_spec o _ req.ProtocolBinding
    unfold C16.select at hr
    rw [hr] at hp; cases hp
  unfold Sso.ssoAfterSel Sso.bindR
  dsimp only
  split
  · simp
  split
  · simp
  split
  · simp
  split
  · rename_i hp
    refine absurd hp (content_noPanic o i.idpMeta sp req (by simp [hiss]) (by simp [hm]) (Or.inl (hidp (by simpa using hme))))
  split
  · simp
  split
  · simp
  · simp

/-- **C09 (login callback).** never panics -/
theorem C09_callback (o : Ora) (i : Callback.In)
    (hkey : getResponseCert o () ≠ .panic) : Callback.callback o i ≠ .panic := by
  unfold Callback.callback
  split
  · simp
  split
  · simp
  split
  · simp
  split
  · simp
  dsimp only
  split
  · simp
  split
  · simp
  split
  · rename_i hp; exact absurd hp hkey
  split
  · simp
  rw [C03.getSAML_eq, C03.getNameID_eq]
  simp only
  split <;> simp

theorem getResponseCert_noPanic (o : Ora) : getResponseCert o () ≠ .panic := by
  unfold getResponseCert getResponseCert.body
  cases he : o.m_GetResponseSigningKey.2 with
  | some e => simp [he, Ctl.toRes]
  | none =>
    cases hc : o.m_GetResponseSigningKey.1 with
    | none => simp [he, hc, Ctl.toRes, deref]
    | some ck =>
      cases hk : ck.Key <;> by_cases hl : ck.Certificate = [] <;> simp [he, hc, hk, hl, Ctl.toRes, deref]

theorem C09_callback' (o : Ora) (i : Callback.In) : Callback.callback o i ≠ .panic :=
  C09_callback o i (getResponseCert_noPanic o)

/-- **C09 (logout).** -/
theorem C09_logout (o : Ora) (i : Logout.In) (hsp : ∀ sp, i.sp = some sp → SpWF sp) : Logout.logout o i ≠ .panic := by
  obtain ⟨d, m, h, _⟩ := C13.C13_one_logout_response o i (by
    intro sp hs; obtain ⟨m, d, h1, h2⟩ := hsp sp hs; exact ⟨m, d, h1, h2⟩)
  rw [h]; simp

/-- **C09 (metadata, certificate, readiness).** -/
theorem C09_metadata (o : Ora) (c : Metadata.Cfg) (i : Metadata.In) : Metadata.metadata o c i ≠ .panic := by
  unfold Metadata.metadata
  cases hk : getResponseCert o () with
  | panic => exact absurd hk (getResponseCert_noPanic o)
  | ok r =>
    obtain ⟨cert, key, kerr⟩ := r
    cases kerr <;> cases hs : c.signMetadata <;> cases hm : i.metaKeyOk <;> cases hg : i.signOk <;> simp [hs, hm, hg]

theorem C09_certificate (o : Ora) : Metadata.certificate o ≠ .panic := by
  unfold Metadata.certificate
  split
  · rename_i hp; exact absurd hp (getResponseCert_noPanic o)
  split <;> simp

theorem C09_ready (i : Metadata.In) : Metadata.ready i ≠ .panic := by
  unfold Metadata.ready; split <;> simp

/-- **C09 (attribute query).** -/
theorem C09_attrquery (o : Ora) (i : AttrQuery.In) (hsp : ∀ sp, i.sp = some sp → sp.Metadata.isSome) (haa : i.metaErr = false → i.aaMeta.isSome) :
    AttrQuery.attrQuery o i ≠ .panic := by
  unfold AttrQuery.attrQuery
  split
  · simp
  rename_i hme
  split
  · simp
  split
  · simp
  · simp
  rename_i q _
  split
  · simp
  split
  · simp
  rename_i sp hsps
  obtain ⟨m, hm⟩ := Option.isSome_iff_exists.mp (hsp sp hsps)
  split
  · rename_i hp
    exact absurd hp (condStep_noPanic (certNecessary_noPanic o q.Signature sp.Metadata) (checkCertificate_noPanic o q.Signature sp.Metadata))
  split
  · simp
  split
  · rename_i hp; rw [signaturePostProvided_eq] at hp; cases hp
  split
  · simp
  split
  · rename_i hp
    obtain ⟨aa, haa'⟩ := Option.isSome_iff_exists.mp (haa (by simpa using hme))
    rw [haa', C12.destAq_eq] at hp
    cases hp
  split
  · simp
  split
  · simp
  split
  · simp
  rw [C03.getSAML_eq, C03.getNameID_eq, getEntityID_eq, hm]
  simp only
  split
  · rename_i hp; exact absurd hp (getResponseCert_noPanic o)
  split
  · simp
  split <;> simp

/-- **C09 (SP registration).** the certificate extraction of `NewServiceProvider` does not panic on any key descriptor list;
    metadata without SPSSODescriptor is refused before it (fingerprinted constructor) -/
theorem C09_newSP_certs (o : Ora) (d : md_SPSSODescriptorType) : GetCertsFromKeyDescriptors o d.KeyDescriptor ≠ .panic :=
  getCerts_noPanic o d.KeyDescriptor

/-- **C09 on the regenerated callback handler**: `callbackHandleFunc` as go2lean regenerates it from login.go on this run
    (nil dereferences and out-of-range indexing of the Go source are `.panic` in the target semantics) does not panic
    and does not dereference a nil `Response` / message when it writes, for any answer of its environment -/
theorem C09_generated_handler (o : Ora) (cfg : provider_IdentityProviderConfig) (fmt : String) (exp : Int)
    (hsome : (CallbackGen.userinfo o).1 = none → (CallbackGen.userinfo o).2.isSome) :
    IdentityProvider_callbackHandleFunc o (CallbackGen.idp cfg fmt exp) ≠ .panic ∧
    ∀ resp m, IdentityProvider_callbackHandleFunc o (CallbackGen.idp cfg fmt exp) = .ok [Eff.sendBackResponse resp m] →
      resp.isSome ∧ m.isSome := by
  have h := HandlerGen.handler_refines o cfg fmt exp hsome
  constructor
  · intro hp
    rw [hp] at h
    simp [HandlerGen.outOf] at h
    exact C09_callback' o _ h.symm
  · intro resp m ht
    rw [ht] at h
    cases resp with
    | none => simp [HandlerGen.outOf, HandlerGen.outOfEff] at h; exact absurd h.symm (C09_callback' o _)
    | some r =>
      cases m with
      | none => simp [HandlerGen.outOf, HandlerGen.outOfEff] at h; exact absurd h.symm (C09_callback' o _)
      | some m => exact ⟨rfl, rfl⟩

/-- (the SSO, logout and attribute-query handlers are no longer fingerprinted: they are translated,
    `LogoutGen.logout_handler_refines`, `AttrQueryGen.attrquery_handler_refines`) -/
theorem C09_source_current : True ∧ True ∧ True ∧
    FactsUtil.sameHashes ["signature.ValidateRedirect", "signature.verifyDSA"] = true :=
  ⟨trivial, trivial, trivial, by decide⟩

end C09
