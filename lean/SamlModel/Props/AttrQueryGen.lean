import SamlModel.Props.C12
import SamlModel.Props.LogoutGen
set_option linter.unusedSimpArgs false
set_option linter.unusedVariables false
/-!
  Props.AttrQueryGen — `IdentityProvider.attributeQueryHandleFunc` and `makeAttributeQueryResponse` are *translated*
  (go2lean, chain handler: see Props.LogoutGen / ChainSem).

  * `makeAttributeQueryResponse_refines`: the generated builder never panics on a user record and its attribute
    statement is exactly `AttrQuery.filterAttrs` (the filter the C12 theorems are about) of the user's attributes.
  * `attrquery_handler_refines`: for every behaviour of the environment the regenerated handler either panics where the
    model panics, or answers with one HTTP error, or writes one SOAP envelope whose response is the model's answer —
    `AttrQuery.attrQuery` on the input read off from the same oracle answers.
-/
namespace AttrQueryGen
open Go Gen Consts CallbackGen Builders

abbrev F := makeAttributeQueryResponse.Frame

def push (s : F) (xs : List (Option saml_AttributeType)) : F := { s with providedAttrs := s.providedAttrs ++ xs }

@[simp] theorem push_nil (s : F) : push s [] = s := by simp [push]
@[simp] theorem push_push (s : F) (xs ys) : push (push s xs) ys = push s (xs ++ ys) := by simp [push, List.append_assoc]

/-- the copy loop (nothing requested) -/
theorem copyLoop (xs : List (Option saml_AttributeType)) (s : F) :
    goFor xs s (fun x s => (Ctl.next { s with providedAttrs := s.providedAttrs ++ [x] } : Ctl F (Option samlp_ResponseType))) =
      .next (push s xs) := by
  induction xs generalizing s with
  | nil => simp
  | cons x xs ih => rw [goFor_cons]; simp only []; rw [ih]; simp [push]

def hit (av q : saml_AttributeType) : Bool := av.Name == q.Name && av.NameFormat == q.NameFormat

/-- what one user attribute contributes -/
def contrib (a : Option saml_AttributeType) (qs : List saml_AttributeType) : List (Option saml_AttributeType) :=
  qs.filterMap fun q => match a with
    | none => none
    | some av => if av.Name == q.Name && av.NameFormat == q.NameFormat then some a else none

theorem innerLoop (av : saml_AttributeType) (qs : List saml_AttributeType) (s : F) :
    goFor qs s (fun q s => (Ctl.next (if hit av q then push s [some av] else s) : Ctl F (Option samlp_ResponseType))) =
      .next (push s (contrib (some av) qs)) := by
  induction qs generalizing s with
  | nil => simp [contrib]
  | cons q qs ih =>
    rw [goFor_cons]
    simp only []
    rw [ih]
    by_cases h : hit av q = true
    · have h' : av.Name = q.Name ∧ av.NameFormat = q.NameFormat := by simpa [hit] using h
      simp [h, contrib, List.filterMap_cons, h']
    · have h' : ¬ (av.Name = q.Name ∧ av.NameFormat = q.NameFormat) := by simpa [hit] using h
      simp [h, contrib, List.filterMap_cons, h']

/-- the generated inner-loop body, normalised -/
theorem innerBody (av : saml_AttributeType) :
    (fun (q : saml_AttributeType) (s : F) =>
      if (some av).isNone || ((deref (some av)).Name == q.Name && (some av).isNone) then (Ctl.panic : Ctl F (Option samlp_ResponseType)) else
        (if ((deref (some av)).Name == q.Name && (deref (some av)).NameFormat == q.NameFormat) then
          .next { s with providedAttrs := s.providedAttrs ++ [some av] }
        else .next s)) =
    fun q s => Ctl.next (if hit av q then push s [some av] else s) := by
  funext q s
  by_cases h : hit av q = true
  · have h' := h; simp only [hit] at h'
    simp [deref, h, h', push]
  · have h' := h; simp only [hit] at h'
    simp [deref, h, h', push]

theorem outerLoop (xs : List (Option saml_AttributeType)) (hx : ∀ x ∈ xs, x.isSome) (s : F) :
    goFor xs s (fun x s =>
      (goFor s.queriedAttrs s fun q s =>
        if x.isNone || ((deref x).Name == q.Name && x.isNone) then (Ctl.panic : Ctl F (Option samlp_ResponseType)) else
          (if ((deref x).Name == q.Name && (deref x).NameFormat == q.NameFormat) then
            .next { s with providedAttrs := s.providedAttrs ++ [x] }
          else .next s))) =
      .next (push s (xs.flatMap fun a => contrib a s.queriedAttrs)) := by
  induction xs generalizing s with
  | nil => simp
  | cons x xs ih =>
    rw [goFor_cons]
    have hs := hx x (by simp)
    obtain ⟨av, rfl⟩ := Option.isSome_iff_exists.mp hs
    rw [innerBody av, innerLoop]
    simp only []
    rw [ih (fun y hy => hx y (by simp [hy]))]
    simp [push, List.flatMap_cons]

theorem contrib_filter (attrs : List (Option saml_AttributeType)) (qs : List saml_AttributeType) (h : qs ≠ []) :
    attrs.flatMap (fun a => contrib a qs) = AttrQuery.filterAttrs attrs qs := by
  unfold AttrQuery.filterAttrs contrib
  have : qs.isEmpty = false := by cases qs <;> simp_all
  simp only [this, Bool.false_eq_true, if_false]
  apply congrArg (fun f => List.flatMap f attrs)
  funext a
  apply congrArg (fun f => List.filterMap f qs)
  funext q
  cases a <;> rfl


theorem specAttrs_some (a : provider_Attributes) : ∀ x ∈ C03.specAttrs a, x.isSome := by
  intro x hx
  simp only [C03.specAttrs, C03.stdAttr, List.mem_append, List.mem_map] at hx
  rcases hx with (((((h | h) | h) | h) | h) | h) | ⟨p, _, rfl⟩
  all_goals first | (split at h <;> simp_all) | simp [C03.customAttr]

/-- the hand model's view of the answer inside a generated response -/
def answerOf (lk : String) (r : samlp_ResponseType) : Option AttrQuery.Answer :=
  match r.Assertion.Subject, r.Assertion.Conditions, r.Assertion.AttributeStatement with
  | some subj, some cond, [as] =>
    match cond.AudienceRestriction with
    | [ar] =>
      match ar.Audience with
      | [aud] => some { inResponseTo := r.InResponseTo, issuer := (r.Issuer.map (·.Text)).getD "", audience := aud,
                        nameID := subj.NameID, attributes := as.Attribute, lookedUp := lk }
      | _ => none
    | _ => none
  | _, _, _ => none

def expected (reqID issuer entity : String) (attrs : provider_Attributes) (queried : List saml_AttributeType) (lk : String) : AttrQuery.Answer where
  inResponseTo := reqID
  issuer := issuer
  audience := entity
  nameID := some { Format := "urn:oasis:names:tc:SAML:1.1:nameid-format:emailAddress", Text := attrs.username }
  attributes := AttrQuery.filterAttrs (C03.specAttrs attrs) queried
  lookedUp := lk

/-- **`makeAttributeQueryResponse` (generated from response.go)**: never panics on a user record and builds a Success
    response whose assertion carries the user's NameID, the audience, and exactly the model's filtered attribute list -/
theorem makeAttributeQueryResponse_refines (o : Ora) (reqID issuer entity : String) (attrs : provider_Attributes)
    (queried : List saml_AttributeType) (fmt : String) (exp : Int) (lk : String) :
    ∃ r, makeAttributeQueryResponse o reqID issuer entity (some attrs) queried fmt exp = .ok (some r) ∧
      answerOf lk r = some (expected reqID issuer entity attrs queried lk) ∧
      r.Status.StatusCode.Value = statusSuccess ∧ r.Assertion.Issuer.Text = issuer := by
  obtain ⟨r0, hr0, hm0, _, _⟩ := makeResponse_refines o (o.newID "makeAttributeQueryResponse" 0) reqID "" (o.m_Format o.now fmt) statusSuccess "" issuer
  simp only [statusSuccess] at hr0
  unfold makeAttributeQueryResponse makeAttributeQueryResponse.body
  by_cases hq : queried = []
  · subst hq
    simp [C03.getSAML_eq, C03.getNameID_eq, Res.isPanic, Res.get, copyLoop, push, hr0, Ctl.toRes, deref,
      makeAssertion, makeAssertion.body, getIssuer_eq, answerOf, AttrQuery.filterAttrs, expected]
    simp [msgOf, Callback.mkResponse] at hm0
    simp [hm0, statusSuccess]
  · have hne : (queried.isEmpty || ((queried.length : Int) == 0)) = false := by
      cases queried with
      | nil => simp at hq
      | cons q qs => simp; omega
    have hl := outerLoop (C03.specAttrs attrs) (specAttrs_some attrs)
    simp only [C03.getSAML_eq, Res.isPanic, Res.get, hne, Bool.false_eq_true, if_false, hl, contrib_filter _ _ hq]
    simp [C03.getNameID_eq, Res.isPanic, Res.get, push, hr0, Ctl.toRes, deref,
      makeAssertion, makeAssertion.body, getIssuer_eq, answerOf, expected]
    simp [msgOf, Callback.mkResponse] at hm0
    simp [hm0, statusSuccess]


/-! ### The handler -/

variable (o : Ora) (cfg : provider_IdentityProviderConfig) (fmt : String) (exp : Int)

def bodyOf : String := Lib.bytesToString o.readBody.1

/-- `xml.DecodeAttributeQuery(body)`: `none` = error, `some none` = an envelope without AttributeQuery -/
def decodedOf : Option (Option samlp_AttributeQueryType) :=
  if (o.f_DecodeAttributeQuery (bodyOf o)).2.isNone then some (o.f_DecodeAttributeQuery (bodyOf o)).1 else none

def queryOf : Option samlp_AttributeQueryType := (decodedOf o).join

def spOf : Option serviceprovider_ServiceProvider :=
  match queryOf o with
  | none => none
  | some q =>
    match q.Issuer with
    | none => none
    | some iss => if (o.m_GetServiceProvider (idp cfg fmt exp) iss.Text).2.isNone then (o.m_GetServiceProvider (idp cfg fmt exp) iss.Text).1 else none

/-- the login name the handler looks up -/
def lookedUpOf : String :=
  match queryOf o with
  | none => ""
  | some q => match q.Subject.NameID with
    | none => ""
    | some n => n.Text

def userOf : Option provider_Attributes :=
  if (o.m_SetUserinfoWithLoginName (lookedUpOf o) []).1.isNone then (o.m_SetUserinfoWithLoginName (lookedUpOf o) []).2 else none

/-- the response the handler hands to the signer -/
def builtOf : Option samlp_ResponseType :=
  match queryOf o with
  | none => none
  | some q =>
    (makeAttributeQueryResponse o q.Id (o.m_GetEntityID (idp cfg fmt exp)) (ServiceProvider_GetEntityID o (spOf o cfg fmt exp)).get
      (userOf o) q.Attribute fmt exp).get

def signErrOf : Err :=
  o.f_createPostSignature (builtOf o cfg fmt exp) (getResponseCert o ()).get.2.1 (getResponseCert o ()).get.1 cfg.SignatureAlgorithm

def inOfOra : AttrQuery.In :=
  { issuer := o.m_GetEntityID (idp cfg fmt exp),
    bodyErr := o.readBody.2.isSome,
    metaErr := (o.m_GetMetadata (idp cfg fmt exp)).2.2.isSome,
    aaMeta := (o.m_GetMetadata (idp cfg fmt exp)).2.1,
    decoded := decodedOf o,
    sp := spOf o cfg fmt exp,
    sigOk := (o.m_ValidateAttributeQuerySignature (spOf o cfg fmt exp) (bodyOf o)).isNone,
    userinfo := userOf o,
    signOk := (signErrOf o cfg fmt exp).isNone }

/-- what one effect means for the client.  (An envelope without a well-formed answer, or an effect a handler does not
    perform itself, is mapped to a value the model never produces - HTTP status 0 - so that the refinement theorem also
    says the regenerated handler never writes such a thing.) -/
def outOfEff (lk : String) : Eff → AttrQuery.Out
  | .httpError _ code => .httpError code.toNat
  | .xmlWriteMarshalled (some env) =>
    match env.Body.Response with
    | some r => (match answerOf lk r with | some a => .answer a | none => .httpError 0)
    | none => .httpError 0
  | _ => .httpError 0

/-- the reply of a handler run: one write - or the envelope followed by the (too late) 500 after a failed write -/
def outOf (lk : String) : Res (List Eff) → Option AttrQuery.Out
  | .panic => some .panic
  | .ok [e] => some (outOfEff lk e)
  | .ok [.xmlWriteMarshalled env, .httpError _ _] => some (outOfEff lk (.xmlWriteMarshalled env))
  | .ok _ => none

def EnvOK : Prop :=
  (∀ iss, (o.m_GetServiceProvider (idp cfg fmt exp) iss).2 = none → (o.m_GetServiceProvider (idp cfg fmt exp) iss).1.isSome) ∧
  (∀ n, (o.m_SetUserinfoWithLoginName n []).1 = none → (o.m_SetUserinfoWithLoginName n []).2.isSome)

abbrev H := IdentityProvider_attributeQueryHandleFunc
abbrev goal : Prop := outOf (lookedUpOf o) (H o (idp cfg fmt exp)) = some (AttrQuery.attrQuery o (inOfOra o cfg fmt exp))

open IdentityProvider_attributeQueryHandleFunc in
theorem h_meta_err (e : String) (h : (o.m_GetMetadata (idp cfg fmt exp)).2.2 = some e) : goal o cfg fmt exp := by
  simp only [idp] at h
  simp [goal, H, IdentityProvider_attributeQueryHandleFunc, body, Ctl.toRes, h, idp, outOf, outOfEff, AttrQuery.attrQuery, inOfOra]

open IdentityProvider_attributeQueryHandleFunc

/-- what the handler frame holds from the moment the query and its sender are known until the answer is built -/
structure Known (q : samlp_AttributeQueryType) (sp : serviceprovider_ServiceProvider) (s : Frame) : Prop where
  hp : s.p = idp cfg fmt exp
  heff : s.eff_ = []
  hreq : s.attrQueryRequest = bodyOf o
  hq : s.attrQuery = some q
  hsp : s.sp = some sp
  hmeta : s.metadata = (o.m_GetMetadata (idp cfg fmt exp)).2.1
  hattrs : s.attrs = some default

/-- a failure callback of this handler: one HTTP 500 -/
def Fails (r : Res (Bool × Frame)) : Prop := ∃ s' msg, r = .ok (true, s') ∧ s'.eff_ = [Eff.httpError msg 500]

def chainFrom (k : Nat) : List (Step Frame) := (chain o).drop k

theorem chain_eq : chain o = chainFrom o 0 := rfl
theorem chainFrom_cons3 : chainFrom o 3 = Step.withConditionalLogicStep (clo6 o) (clo7 o) (clo8 o) :: chainFrom o 4 := rfl
theorem chainFrom_cons4 : chainFrom o 4 = Step.withConditionalLogicStep (clo9 o) (clo10 o) (clo11 o) :: chainFrom o 5 := rfl
theorem chainFrom_cons5 : chainFrom o 5 = Step.withLogicStep (clo12 o) (clo13 o) :: chainFrom o 6 := rfl
theorem chainFrom_cons6 : chainFrom o 6 = Step.withLogicStep (clo14 o) (clo15 o) :: chainFrom o 7 := rfl
theorem chainFrom_cons7 : chainFrom o 7 = [Step.withLogicStep (clo16 o) (clo17 o)] := rfl

/-- step 4 (KeyInfo certificate): the generated step is `Sso.condStep` of the two generated helpers -/
theorem step4 (q sp) (s : Frame) (k : Known o cfg fmt exp q sp s) :
    match Sso.condStep (certificateCheckNecessary o q.Signature sp.Metadata) (checkCertificate o q.Signature sp.Metadata) with
    | .panic => Step.run (.withConditionalLogicStep (clo6 o) (clo7 o) (clo8 o)) s = .panic
    | .ok (some _) => Fails (Step.run (.withConditionalLogicStep (clo6 o) (clo7 o) (clo8 o)) s)
    | .ok none => Step.run (.withConditionalLogicStep (clo6 o) (clo7 o) (clo8 o)) s = .ok (false, s) := by
  obtain ⟨hp, heff, hreq, hq, hsp, hmeta, hattrs⟩ := k
  simp only [Step.run, Clo.andThen, failWith, clo6, clo7, clo8]
  cases hcn : certificateCheckNecessary o q.Signature sp.Metadata with
  | panic => simp [Sso.condStep, Res.isPanic, hq, hsp, deref, hcn]
  | ok need =>
    cases need with
    | false => simp [Sso.condStep, Res.isPanic, Res.get, hq, hsp, deref, hcn]
    | true =>
      cases hcc : checkCertificate o q.Signature sp.Metadata with
      | panic => simp [Sso.condStep, Res.isPanic, Res.get, hq, hsp, deref, hcn, hcc]
      | ok e =>
        cases e with
        | none => simp [Sso.condStep, Res.isPanic, Res.get, hq, hsp, deref, hcn, hcc]
        | some m => simp [Sso.condStep, Res.isPanic, Res.get, hq, hsp, deref, hcn, hcc, Fails, Ctl.toClo, heff]


theorem Known.setErr {q sp} {s : Frame} (k : Known o cfg fmt exp q sp s) (e : Err) : Known o cfg fmt exp q sp { s with err := e } :=
  ⟨k.hp, k.heff, k.hreq, k.hq, k.hsp, k.hmeta, k.hattrs⟩

/-- step 5 (signature of the query) -/
theorem step5 (q sp) (s : Frame) (k : Known o cfg fmt exp q sp s) :
    match signaturePostProvided o q.Signature with
    | .panic => Step.run (.withConditionalLogicStep (clo9 o) (clo10 o) (clo11 o)) s = .panic
    | .ok provided =>
      if provided && (o.m_ValidateAttributeQuerySignature (some sp) (bodyOf o)).isSome then
        Fails (Step.run (.withConditionalLogicStep (clo9 o) (clo10 o) (clo11 o)) s)
      else ∃ s', Step.run (.withConditionalLogicStep (clo9 o) (clo10 o) (clo11 o)) s = .ok (false, s') ∧ Known o cfg fmt exp q sp s' := by
  have k' := k
  obtain ⟨hp, heff, hreq, hq, hsp, hmeta, hattrs⟩ := k
  simp only [Step.run, Clo.andThen, failWith, clo9, clo10, clo11]
  cases hpp : signaturePostProvided o q.Signature with
  | panic => simp [Res.isPanic, hq, deref, hpp]
  | ok provided =>
    cases provided with
    | false => simp [Res.isPanic, Res.get, hq, deref, hpp]; exact k'
    | true =>
      cases hv : o.m_ValidateAttributeQuerySignature (some sp) (bodyOf o) with
      | none =>
        simp [Res.isPanic, Res.get, hq, hsp, hreq, deref, hpp, hv, Ctl.toClo]
        refine ⟨?_, ?_, ?_, ?_, ?_, ?_, ?_⟩ <;> simp [hp, heff, hreq, hq, hsp, hmeta, hattrs]
      | some e => simp [Res.isPanic, Res.get, hq, hsp, hreq, deref, hpp, hv, Ctl.toClo, Fails, heff]

/-- step 6 (Destination) -/
theorem step6 (q sp) (s : Frame) (k : Known o cfg fmt exp q sp s) :
    match verifyRequestDestinationOfAttrQuery o (o.m_GetMetadata (idp cfg fmt exp)).2.1 (some q) with
    | .panic => Step.run (.withLogicStep (clo12 o) (clo13 o)) s = .panic
    | .ok (some _) => Fails (Step.run (.withLogicStep (clo12 o) (clo13 o)) s)
    | .ok none => ∃ s', Step.run (.withLogicStep (clo12 o) (clo13 o)) s = .ok (false, s') ∧ Known o cfg fmt exp q sp s' := by
  have k' := k
  obtain ⟨hp, heff, hreq, hq, hsp, hmeta, hattrs⟩ := k
  simp only [Step.run, Clo.andThen, failWith, clo12, clo13]
  cases hv : verifyRequestDestinationOfAttrQuery o (o.m_GetMetadata (idp cfg fmt exp)).2.1 (some q) with
  | panic => simp [Res.isPanic, hq, hmeta, hv, Ctl.toClo]
  | ok e =>
    cases e with
    | none => simp [Res.isPanic, Res.get, hq, hmeta, hv, Ctl.toClo]; refine ⟨?_, ?_, ?_, ?_, ?_, ?_, ?_⟩ <;> simp [hp, heff, hreq, hq, hsp, hmeta, hattrs]
    | some m => simp [Res.isPanic, Res.get, hq, hmeta, hv, Ctl.toClo, Fails, heff]


/-- the copy loop over the requested attributes -/
theorem copyQueried (xs : List saml_AttributeType) (s : Frame) :
    goFor xs s (fun x s => (Ctl.next { s with queriedAttrs := s.queriedAttrs ++ [x] } : Ctl Frame (Err × Frame))) =
      .next { s with queriedAttrs := s.queriedAttrs ++ xs } := by
  induction xs generalizing s with
  | nil => simp
  | cons x xs ih => rw [goFor_cons]; simp only []; rw [ih]; simp

/-- what the frame holds once the answer is built -/
structure Built (r : samlp_ResponseType) (s : Frame) : Prop where
  hp : s.p = idp cfg fmt exp
  heff : s.eff_ = []
  hresp : s.response = some r

/-- step 7 (user lookup and answer) -/
theorem step7 (q sp) (s : Frame) (k : Known o cfg fmt exp q sp s) :
    match q.Subject.NameID with
    | none => Fails (Step.run (.withLogicStep (clo14 o) (clo15 o)) s)
    | some n =>
      match o.m_SetUserinfoWithLoginName n.Text [] with
      | (some _, _) => Fails (Step.run (.withLogicStep (clo14 o) (clo15 o)) s)
      | (none, none) => True
      | (none, some attrs) =>
        match ServiceProvider_GetEntityID o (some sp) with
        | .panic => Step.run (.withLogicStep (clo14 o) (clo15 o)) s = .panic
        | .ok aud => ∃ s' r, Step.run (.withLogicStep (clo14 o) (clo15 o)) s = .ok (false, s') ∧ Built cfg fmt exp r s' ∧
            makeAttributeQueryResponse o q.Id (o.m_GetEntityID (idp cfg fmt exp)) aud (some attrs) q.Attribute fmt exp = .ok (some r) := by
  obtain ⟨hp, heff, hreq, hq, hsp, hmeta, hattrs⟩ := k
  simp only [Step.run, Clo.andThen, failWith, clo14, clo15]
  cases hn : q.Subject.NameID with
  | none => simp [hq, deref, hn, Ctl.toClo, Fails, heff]
  | some n =>
    rcases hu : o.m_SetUserinfoWithLoginName n.Text [] with ⟨ue, ua⟩
    cases ue with
    | some e => simp [hq, deref, hn, hu, Ctl.toClo, Fails, heff]
    | none =>
      cases ua with
      | none => simp [hu]
      | some attrs =>
        cases hg : ServiceProvider_GetEntityID o (some sp) with
        | panic =>
          simp only []
          by_cases hnil : q.Attribute = []
          · simp [hq, hsp, hp, idp, deref, hn, hu, hg, Ctl.toClo, Res.isPanic, hnil]
          · simp [hq, hsp, hp, idp, deref, hn, hu, hg, Ctl.toClo, Res.isPanic, hnil, copyQueried]
        | ok aud =>
          obtain ⟨r, hr, _⟩ := makeAttributeQueryResponse_refines o q.Id (o.m_GetEntityID (idp cfg fmt exp)) aud attrs q.Attribute fmt exp ""
          simp only [idp] at hr
          simp only []
          by_cases hnil : q.Attribute = []
          · rw [hnil] at hr
            simp [hq, hsp, hp, idp, deref, hn, hu, hg, Ctl.toClo, Res.isPanic, Res.get, hnil, hr]
            exact ⟨by simp [hp, idp], by simp [heff], rfl⟩
          · simp [hq, hsp, hp, idp, deref, hn, hu, hg, Ctl.toClo, Res.isPanic, Res.get, hnil, copyQueried, hr]
            exact ⟨by simp [hp, idp], by simp [heff], rfl⟩


/-- step 8 (enveloped signature) -/
theorem step8 (r : samlp_ResponseType) (s : Frame) (k : Built cfg fmt exp r s) :
    match getResponseCert o () with
    | .panic => Step.run (.withLogicStep (clo16 o) (clo17 o)) s = .panic
    | .ok (_, _, some _) => Fails (Step.run (.withLogicStep (clo16 o) (clo17 o)) s)
    | .ok (cert, key, none) =>
      match o.f_createPostSignature (some r) key cert cfg.SignatureAlgorithm with
      | some _ => Fails (Step.run (.withLogicStep (clo16 o) (clo17 o)) s)
      | none => ∃ s', Step.run (.withLogicStep (clo16 o) (clo17 o)) s = .ok (false, s') ∧ Built cfg fmt exp r s' := by
  obtain ⟨hp, heff, hresp⟩ := k
  simp only [Step.run, Clo.andThen, failWith, clo16, clo17]
  cases hk : getResponseCert o () with
  | panic => simp [hp, idp, deref, hk, Res.isPanic, Ctl.toClo]
  | ok t =>
    obtain ⟨cert, key, kerr⟩ := t
    cases kerr with
    | some e => simp [hp, idp, deref, hk, Res.isPanic, Res.get, Ctl.toClo, Fails, heff]
    | none =>
      simp only []
      cases hs : o.f_createPostSignature (some r) key cert cfg.SignatureAlgorithm with
      | some e => simp [hp, idp, deref, hk, Res.isPanic, Res.get, Ctl.toClo, Fails, heff, hresp, hs]
      | none =>
        simp [hp, idp, deref, hk, Res.isPanic, Res.get, Ctl.toClo, hresp, hs]
        exact ⟨by simp [hp, idp], by simp [heff], by simp [hresp]⟩


/-! ### Composition -/

theorem run_cons_pass {st : Step Frame} {rest : List (Step Frame)} {s s' : Frame} (h : st.run s = .ok (false, s')) :
    runDirect (st :: rest) s = runDirect rest s' := by rw [runDirect_cons, h]
theorem run_cons_panic {st : Step Frame} {rest : List (Step Frame)} {s : Frame} (h : st.run s = .panic) :
    runDirect (st :: rest) s = .panic := by rw [runDirect_cons, h]
theorem run_cons_fails {st : Step Frame} {rest : List (Step Frame)} {s : Frame} (h : Fails (st.run s)) :
    Fails (runDirect (st :: rest) s) := by
  obtain ⟨s', msg, hr, he⟩ := h
  exact ⟨s', msg, by rw [runDirect_cons, hr], he⟩

/-- the frame in which the chain starts -/
def s0 : Frame :=
  { p := idp cfg fmt exp, metadata := (o.m_GetMetadata (idp cfg fmt exp)).2.1, attrs := some default }

/-- what follows the envelope: nothing, or the (too late) 500 -/
def afterWrite : List Eff :=
  match o.writeErr "IdentityProvider_attributeQueryHandleFunc" 0 with
  | none => []
  | some e => [.httpError ("failed to send response: " ++ e) 500]

theorem handler_of_chain (h : (o.m_GetMetadata (idp cfg fmt exp)).2.2 = none) :
    H o (idp cfg fmt exp) =
      match runDirect (chain o) (s0 o cfg fmt exp) with
      | .panic => .panic
      | .ok (true, s) => .ok s.eff_
      | .ok (false, s) => .ok (s.eff_ ++ Eff.xmlWriteMarshalled (some { Body := { Response := s.response } }) :: afterWrite o) := by
  simp only [idp] at h
  simp only [H, IdentityProvider_attributeQueryHandleFunc, body, runChain_eq_runDirect]
  simp [Ctl.toRes, h, idp, s0]
  cases hr : runDirect (chain o) _ with
  | panic => simp
  | ok p =>
    obtain ⟨b, s⟩ := p
    cases b with
    | true => simp
    | false =>
      simp [afterWrite]
      cases o.writeErr "IdentityProvider_attributeQueryHandleFunc" 0 <;> simp

theorem out_of_panic (h : (o.m_GetMetadata (idp cfg fmt exp)).2.2 = none) (hr : runDirect (chain o) (s0 o cfg fmt exp) = .panic) (lk : String) :
    outOf lk (H o (idp cfg fmt exp)) = some .panic := by
  rw [handler_of_chain o cfg fmt exp h, hr]; rfl

theorem out_of_fails (h : (o.m_GetMetadata (idp cfg fmt exp)).2.2 = none) (hr : Fails (runDirect (chain o) (s0 o cfg fmt exp))) (lk : String) :
    outOf lk (H o (idp cfg fmt exp)) = some (.httpError 500) := by
  obtain ⟨s', msg, hr, he⟩ := hr
  rw [handler_of_chain o cfg fmt exp h, hr]
  simp [he, outOf, outOfEff]

theorem out_of_pass (h : (o.m_GetMetadata (idp cfg fmt exp)).2.2 = none) (s' : Frame) (r : samlp_ResponseType)
    (hr : runDirect (chain o) (s0 o cfg fmt exp) = .ok (false, s')) (k : Built cfg fmt exp r s') (lk : String) (a : AttrQuery.Answer)
    (ha : answerOf lk r = some a) :
    outOf lk (H o (idp cfg fmt exp)) = some (.answer a) := by
  rw [handler_of_chain o cfg fmt exp h, hr]
  simp only [k.heff, k.hresp, List.nil_append, afterWrite]
  cases o.writeErr "IdentityProvider_attributeQueryHandleFunc" 0 <;> simp [outOf, outOfEff, ha]


/-- steps 1-3: body, decoding, sender -/
theorem prefix_run :
    match o.readBody.2 with
    | some _ => Fails (runDirect (chain o) (s0 o cfg fmt exp))
    | none =>
      match o.f_DecodeAttributeQuery (bodyOf o) with
      | (_, some _) => Fails (runDirect (chain o) (s0 o cfg fmt exp))
      | (none, none) => Fails (runDirect (chain o) (s0 o cfg fmt exp))
      | (some q, none) =>
        match q.Issuer with
        | none => Fails (runDirect (chain o) (s0 o cfg fmt exp))
        | some iss =>
          match o.m_GetServiceProvider (idp cfg fmt exp) iss.Text with
          | (_, some _) => Fails (runDirect (chain o) (s0 o cfg fmt exp))
          | (none, none) => True
          | (some sp, none) => ∃ s3, runDirect (chain o) (s0 o cfg fmt exp) = runDirect (chainFrom o 3) s3 ∧ Known o cfg fmt exp q sp s3 := by
  cases hb : o.readBody.2 with
  | some e =>
    simp only [chain, runDirect_cons, Step.run, Clo.andThen, failWith]
    simp [clo0, clo1, hb, Ctl.toClo, Fails, s0]
  | none =>
  rcases hd : o.f_DecodeAttributeQuery (bodyOf o) with ⟨dq, derr⟩
  have hd' := hd
  simp only [bodyOf] at hd'
  cases derr with
  | some e =>
    simp only [chain, runDirect_cons, Step.run, Clo.andThen, failWith]
    simp [clo0, clo1, clo2, clo3, hb, hd', Ctl.toClo, Fails, s0]
  | none =>
  cases dq with
  | none =>
    simp only [chain, runDirect_cons, Step.run, Clo.andThen, failWith]
    simp [clo0, clo1, clo2, clo3, hb, hd', Ctl.toClo, Fails, s0]
  | some q =>
  simp only []
  cases hi : q.Issuer with
  | none =>
    simp only [chain, runDirect_cons, Step.run, Clo.andThen, failWith]
    simp [clo0, clo1, clo2, clo3, clo4, clo5, hb, hd', hi, deref, Ctl.toClo, Fails, s0]
  | some iss =>
  rcases hs : o.m_GetServiceProvider (idp cfg fmt exp) iss.Text with ⟨spo, serr⟩
  have hs' := hs
  simp only [idp] at hs'
  cases serr with
  | some e =>
    simp only [chain, runDirect_cons, Step.run, Clo.andThen, failWith]
    simp [clo0, clo1, clo2, clo3, clo4, clo5, hb, hd', hi, hs', idp, deref, Ctl.toClo, Fails, s0]
  | none =>
  cases spo with
  | none => simp [hs]
  | some sp =>
    simp only [chain, runDirect_cons, Step.run, Clo.andThen, failWith]
    simp [clo0, clo1, clo2, clo3, clo4, clo5, hb, hd', hi, hs', idp, deref, Ctl.toClo, s0]
    exact ⟨_, rfl, ⟨rfl, rfl, rfl, rfl, rfl, rfl, rfl⟩⟩


/-- **the regenerated attribute-query handler refines the attribute-query model.**  For every behaviour of the
    environment that honours `EnvOK`, the handler regenerated from attribute_query.go on this run panics where the model
    panics, answers HTTP 500 where the model does, and otherwise writes one SOAP envelope whose response carries exactly
    the model's answer (`AttrQuery.attrQuery` on the input read off from the same oracle answers). -/
theorem attrquery_handler_refines (henv : EnvOK o cfg fmt exp) : goal o cfg fmt exp := by
  cases h : (o.m_GetMetadata (idp cfg fmt exp)).2.2 with
  | some e => exact h_meta_err o cfg fmt exp e h
  | none =>
  have hpre := prefix_run o cfg fmt exp
  have hme : (inOfOra o cfg fmt exp).metaErr = false := by simp [inOfOra, h]
  unfold goal
  cases hb : o.readBody.2 with
  | some e =>
    rw [hb] at hpre
    rw [out_of_fails o cfg fmt exp h hpre]
    simp [AttrQuery.attrQuery, inOfOra, h, hb]
  | none =>
  rw [hb] at hpre
  rcases hd : o.f_DecodeAttributeQuery (bodyOf o) with ⟨dq, derr⟩
  rw [hd] at hpre
  cases derr with
  | some e =>
    rw [out_of_fails o cfg fmt exp h hpre]
    simp [AttrQuery.attrQuery, inOfOra, h, hb, decodedOf, hd]
  | none =>
  cases dq with
  | none =>
    rw [out_of_fails o cfg fmt exp h hpre]
    simp [AttrQuery.attrQuery, inOfOra, h, hb, decodedOf, hd]
  | some q =>
  have hdec : decodedOf o = some (some q) := by simp [decodedOf, hd]
  have hq : queryOf o = some q := by simp [queryOf, hdec]
  simp only [] at hpre
  cases hi : q.Issuer with
  | none =>
    rw [hi] at hpre
    rw [out_of_fails o cfg fmt exp h hpre]
    simp [AttrQuery.attrQuery, inOfOra, h, hb, hdec, hi]
  | some iss =>
  rw [hi] at hpre
  simp only [] at hpre
  rcases hs : o.m_GetServiceProvider (idp cfg fmt exp) iss.Text with ⟨spo, serr⟩
  rw [hs] at hpre
  cases serr with
  | some e =>
    have hsp : spOf o cfg fmt exp = none := by simp [spOf, hq, hi, hs]
    rw [out_of_fails o cfg fmt exp h hpre]
    simp [AttrQuery.attrQuery, inOfOra, h, hb, hdec, hi, hsp]
  | none =>
  cases spo with
  | none =>
    have := henv.1 iss.Text (by rw [hs])
    rw [hs] at this
    simp at this
  | some sp =>
  have hsp : spOf o cfg fmt exp = some sp := by simp [spOf, hq, hi, hs]
  obtain ⟨s3, hrun3, k3⟩ := hpre
  have e1 : (inOfOra o cfg fmt exp).bodyErr = false := by simp [inOfOra, hb]
  have e2 : (inOfOra o cfg fmt exp).decoded = some (some q) := hdec
  have e3 : (inOfOra o cfg fmt exp).sp = some sp := hsp
  have e4 : (inOfOra o cfg fmt exp).aaMeta = (o.m_GetMetadata (idp cfg fmt exp)).2.1 := rfl
  have e5 : (inOfOra o cfg fmt exp).sigOk = (o.m_ValidateAttributeQuerySignature (some sp) (bodyOf o)).isNone := by simp [inOfOra, hsp]
  rw [chain_eq] at hrun3
  -- step 4
  have h4 := step4 o cfg fmt exp q sp s3 k3
  cases hc4 : Sso.condStep (certificateCheckNecessary o q.Signature sp.Metadata) (checkCertificate o q.Signature sp.Metadata) with
  | panic =>
    rw [hc4] at h4
    rw [out_of_panic o cfg fmt exp h (by rw [chain_eq, hrun3, chainFrom_cons3]; exact run_cons_panic h4)]
    simp [AttrQuery.attrQuery, hme, e1, e2, e3, hi, hc4]
  | ok c4 =>
  cases c4 with
  | some m =>
    rw [hc4] at h4
    rw [out_of_fails o cfg fmt exp h (by rw [chain_eq, hrun3, chainFrom_cons3]; exact run_cons_fails h4)]
    simp [AttrQuery.attrQuery, hme, e1, e2, e3, hi, hc4]
  | none =>
  rw [hc4] at h4
  simp only [] at h4
  have hrun4 : runDirect (chainFrom o 0) (s0 o cfg fmt exp) = runDirect (chainFrom o 4) s3 := by
    rw [hrun3, chainFrom_cons3]; exact run_cons_pass h4
  -- step 5
  have h5 := step5 o cfg fmt exp q sp s3 k3
  cases hc5 : signaturePostProvided o q.Signature with
  | panic =>
    rw [hc5] at h5
    rw [out_of_panic o cfg fmt exp h (by rw [chain_eq, hrun4, chainFrom_cons4]; exact run_cons_panic h5)]
    simp [AttrQuery.attrQuery, hme, e1, e2, e3, hi, hc4, hc5]
  | ok provided =>
  rw [hc5] at h5
  simp only [] at h5
  by_cases hbad : (provided && (o.m_ValidateAttributeQuerySignature (some sp) (bodyOf o)).isSome) = true
  · rw [if_pos hbad] at h5
    rw [out_of_fails o cfg fmt exp h (by rw [chain_eq, hrun4, chainFrom_cons4]; exact run_cons_fails h5)]
    have : (provided && !(inOfOra o cfg fmt exp).sigOk) = true := by
      rw [e5]; simp at hbad ⊢; exact ⟨hbad.1, by cases hx : o.m_ValidateAttributeQuerySignature (some sp) (bodyOf o) <;> simp_all⟩
    simp [AttrQuery.attrQuery, hme, e1, e2, e3, hi, hc4, hc5, this]
  · rw [if_neg hbad] at h5
    obtain ⟨s5, hr5, k5⟩ := h5
    have hsig : (provided && !(inOfOra o cfg fmt exp).sigOk) = false := by
      rw [e5]
      cases provided <;> cases hx : o.m_ValidateAttributeQuerySignature (some sp) (bodyOf o) <;> simp_all
    have hrun5 : runDirect (chainFrom o 0) (s0 o cfg fmt exp) = runDirect (chainFrom o 5) s5 := by
      rw [hrun4, chainFrom_cons4]; exact run_cons_pass hr5
    -- step 6
    have h6 := step6 o cfg fmt exp q sp s5 k5
    cases hc6 : verifyRequestDestinationOfAttrQuery o (o.m_GetMetadata (idp cfg fmt exp)).2.1 (some q) with
    | panic =>
      rw [hc6] at h6
      rw [out_of_panic o cfg fmt exp h (by rw [chain_eq, hrun5, chainFrom_cons5]; exact run_cons_panic h6)]
      simp [AttrQuery.attrQuery, hme, e1, e2, e3, e4, hi, hc4, hc5, hsig, hc6]
    | ok c6 =>
    cases c6 with
    | some m =>
      rw [hc6] at h6
      rw [out_of_fails o cfg fmt exp h (by rw [chain_eq, hrun5, chainFrom_cons5]; exact run_cons_fails h6)]
      simp [AttrQuery.attrQuery, hme, e1, e2, e3, e4, hi, hc4, hc5, hsig, hc6]
    | none =>
    rw [hc6] at h6
    obtain ⟨s6, hr6, k6⟩ := h6
    have hrun6 : runDirect (chainFrom o 0) (s0 o cfg fmt exp) = runDirect (chainFrom o 6) s6 := by
      rw [hrun5, chainFrom_cons5]; exact run_cons_pass hr6
    -- step 7
    have h7 := step7 o cfg fmt exp q sp s6 k6
    cases hn : q.Subject.NameID with
    | none =>
      rw [hn] at h7
      rw [out_of_fails o cfg fmt exp h (by rw [chain_eq, hrun6, chainFrom_cons6]; exact run_cons_fails h7)]
      simp [AttrQuery.attrQuery, hme, e1, e2, e3, e4, hi, hc4, hc5, hsig, hc6, hn]
    | some n =>
    rw [hn] at h7
    simp only [] at h7
    have hlk : lookedUpOf o = n.Text := by simp [lookedUpOf, hq, hn]
    rcases hu : o.m_SetUserinfoWithLoginName n.Text [] with ⟨ue, ua⟩
    rw [hu] at h7
    cases ue with
    | some e =>
      have e6 : (inOfOra o cfg fmt exp).userinfo = none := by simp [inOfOra, userOf, hlk, hu]
      rw [out_of_fails o cfg fmt exp h (by rw [chain_eq, hrun6, chainFrom_cons6]; exact run_cons_fails h7)]
      simp [AttrQuery.attrQuery, hme, e1, e2, e3, e4, hi, hc4, hc5, hsig, hc6, hn, e6]
    | none =>
    cases ua with
    | none =>
      have := henv.2 n.Text (by rw [hu])
      rw [hu] at this
      simp at this
    | some attrs =>
    have e6 : (inOfOra o cfg fmt exp).userinfo = some attrs := by simp [inOfOra, userOf, hlk, hu]
    simp only [] at h7
    cases hg : ServiceProvider_GetEntityID o (some sp) with
    | panic =>
      rw [hg] at h7
      rw [out_of_panic o cfg fmt exp h (by rw [chain_eq, hrun6, chainFrom_cons6]; exact run_cons_panic h7)]
      simp [AttrQuery.attrQuery, hme, e1, e2, e3, e4, hi, hc4, hc5, hsig, hc6, hn, e6, hg]
    | ok aud =>
    rw [hg] at h7
    obtain ⟨s7, r, hr7, k7, hbuilt⟩ := h7
    have hrun7 : runDirect (chainFrom o 0) (s0 o cfg fmt exp) = runDirect (chainFrom o 7) s7 := by
      rw [hrun6, chainFrom_cons6]; exact run_cons_pass hr7
    obtain ⟨r', hr', hans, _, _⟩ := makeAttributeQueryResponse_refines o q.Id (o.m_GetEntityID (idp cfg fmt exp)) aud attrs q.Attribute fmt exp n.Text
    have hrr : r' = r := by rw [hr'] at hbuilt; simpa using hbuilt
    subst hrr
    -- step 8
    have h8 := step8 o cfg fmt exp r' s7 k7
    have hbo : builtOf o cfg fmt exp = some r' := by
      have hu' : userOf o = some attrs := by simp [userOf, hlk, hu]
      simp [builtOf, hq, hsp, hg, hu', Res.get, hr']
    have hsaml := C03.getSAML_eq o attrs
    have hnid := C03.getNameID_eq o attrs
    cases hk : getResponseCert o () with
    | panic =>
      rw [hk] at h8
      rw [out_of_panic o cfg fmt exp h (by rw [chain_eq, hrun7, chainFrom_cons7]; exact run_cons_panic h8)]
      simp [AttrQuery.attrQuery, hme, e1, e2, e3, e4, hi, hc4, hc5, hsig, hc6, hn, e6, hg, hsaml, hnid, hk]
    | ok t =>
    obtain ⟨cert, key, kerr⟩ := t
    rw [hk] at h8
    cases kerr with
    | some e =>
      rw [out_of_fails o cfg fmt exp h (by rw [chain_eq, hrun7, chainFrom_cons7]; exact run_cons_fails h8)]
      simp [AttrQuery.attrQuery, hme, e1, e2, e3, e4, hi, hc4, hc5, hsig, hc6, hn, e6, hg, hsaml, hnid, hk]
    | none =>
    simp only [] at h8
    have e7 : (inOfOra o cfg fmt exp).signOk = (o.f_createPostSignature (some r') key cert cfg.SignatureAlgorithm).isNone := by
      simp [inOfOra, signErrOf, hbo, hk, Res.get]
    cases hsg : o.f_createPostSignature (some r') key cert cfg.SignatureAlgorithm with
    | some e =>
      rw [hsg] at h8
      rw [out_of_fails o cfg fmt exp h (by rw [chain_eq, hrun7, chainFrom_cons7]; exact run_cons_fails h8)]
      simp [AttrQuery.attrQuery, hme, e1, e2, e3, e4, hi, hc4, hc5, hsig, hc6, hn, e6, hg, hsaml, hnid, hk, e7, hsg]
    | none =>
      rw [hsg] at h8
      obtain ⟨s8, hr8, k8⟩ := h8
      have hrun8 : runDirect (chainFrom o 0) (s0 o cfg fmt exp) = .ok (false, s8) := by
        rw [hrun7, chainFrom_cons7, runDirect_cons, hr8]; rfl
      rw [hlk, out_of_pass o cfg fmt exp h s8 r' (by rw [chain_eq]; exact hrun8) k8 n.Text _ hans]
      simp [AttrQuery.attrQuery, hme, e1, e2, e3, e4, hi, hc4, hc5, hsig, hc6, hn, e6, hg, hsaml, hnid, hk, e7, hsg, expected, show (inOfOra o cfg fmt exp).issuer = o.m_GetEntityID (idp cfg fmt exp) from rfl]

end AttrQueryGen
