import SamlModel.Model.FactsUtil
/-!
  Props.Stateless — the frame condition behind every per-request theorem.

  The handler models (`Sso.sso`, `Callback.callback`, `Logout.logout`, `AttrQuery.attrQuery`, `Metadata.metadata`) are
  functions of one request, the configuration and the storage answers.  That is the whole truth about a request served
  by a long-lived provider only if nothing a handler can reach keeps data from one request to the next.  This module
  states that premise over facts regenerated from the source on every run (go2lean, shared.go):

  * no assignment through a pointer to the provider / identity-provider / configuration / endpoint / service-provider
    structs in any function reachable from a route handler (object-level call graph over all packages of the module;
    writes to values freshly allocated in the same function do not count);
  * no use of a package-level variable of a kind that can carry data (anything but strings, numbers, errors,
    functions, compiled regular expressions, parsed templates), and no `sync` / `sync/atomic` primitive sitting in one
    of those structs;
  * those structs have exactly the fields the models were written against (a cache needs a field or a package variable).

  A change that breaks it is not by itself a violation: the runner then searches for a history on which a long-lived
  provider and a freshly built one answer the same request differently (harness `reuse`).
-/
namespace Stateless

theorem handlers_stateless :
    Gen.Facts.sharedTouches = [] ∧
    Gen.Facts.globals.all (fun g => g.2.2 == "safe") = true ∧
    Gen.Facts.sharedFields = Expected.sharedFields ∧
    Gen.Facts.writes.all (fun w => !w.2.2) = true :=
  ⟨by decide, by decide, by decide, by decide⟩

end Stateless
