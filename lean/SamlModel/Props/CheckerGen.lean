import SamlModel.Generated.Checker
import SamlModel.Model.Checker
import SamlModel.ChainSem
set_option linter.unusedSimpArgs false
/-!
  Props.CheckerGen — checker.go is *translated* (go2lean `checkergen.go`: the methods of `Checker`, polymorphic in the
  client state, regenerated on every run into `Generated/Checker.lean`).  The theorems below prove that every generated
  function is the corresponding function of `Model.Checker` - the hand translation all chain theorems (C20, the handler
  refinements through `ChainSem`) are stated over - so the hand translation is tied to the source by proof, not by a
  fingerprint: `CheckFailed` is `Checker.checkFailed`, each `WithXxx` is `Checker.withXxx` (a `func() error` of the
  client enters the model as "did it produce an error").
-/
namespace CheckerGen
open Go

variable {σ : Type}

theorem translated : Gen.Chk.translated = true := rfl

theorem addStep_eq (c : Checker.Checker σ) (f : Checker.M σ Bool) : Gen.Chk.addStep c f = Checker.addStep c f := rfl

/-- the loop of `CheckFailed` is `Checker.runSteps` -/
theorem checkFailed_eq (c : Checker.Checker σ) : Gen.Chk.checkFailed c = Checker.checkFailed c := by
  funext s
  unfold Gen.Chk.checkFailed Checker.checkFailed
  generalize c.steps = fs
  induction fs generalizing s with
  | nil => rfl
  | cons f fs ih =>
    simp only [Go.forM, Checker.runSteps]
    rcases hf : f s with ⟨b, s'⟩
    cases b with
    | true => simp
    | false => simpa using ih s'

/-- whether a `func() error` of the client produced an error -/
def errBool (logic : Checker.M σ Err) : Checker.M σ Bool := fun s => ((logic s).1.isSome, (logic s).2)

theorem withValueNotEmptyCheck_eq (c : Checker.Checker σ) (n : String) (value : Checker.M σ String) (ef : Checker.M σ Unit) :
    Gen.Chk.withValueNotEmptyCheck c n value ef = Checker.withValueNotEmptyCheck c value ef := rfl

theorem anyEmpty_loop (ef : Checker.M σ Unit) (vs : List String) (s : σ) :
    (match Go.forM vs s (fun v s => if (v == "") then (let (_, s) := ef s; LoopR.ret true s) else LoopR.next s) with
      | .ret r s => (r, s)
      | .next s => (false, s)) =
    (if Checker.anyEmpty vs then (let (_, s) := ef s; (true, s)) else (false, s)) := by
  induction vs with
  | nil => rfl
  | cons v vs ih =>
    by_cases h : (v == "") = true
    · simp [Go.forM, Checker.anyEmpty, h]
    · simp only [Go.forM, Checker.anyEmpty, h]
      simpa using ih

theorem withValuesNotEmptyCheck_eq (c : Checker.Checker σ) (values : Checker.M σ (List String)) (ef : Checker.M σ Unit) :
    Gen.Chk.withValuesNotEmptyCheck c values ef = Checker.withValuesNotEmptyCheck c values ef := by
  unfold Gen.Chk.withValuesNotEmptyCheck Checker.withValuesNotEmptyCheck
  congr 1
  funext s
  simp only []
  exact anyEmpty_loop ef (values s).1 (values s).2

theorem withValueLengthCheck_eq (c : Checker.Checker σ) (n : String) (value : Checker.M σ String) (mn mx : Int) (ef : Checker.M σ Unit) :
    Gen.Chk.withValueLengthCheck c n value mn mx ef = Checker.withValueLengthCheck c value mn mx ef := by
  unfold Gen.Chk.withValueLengthCheck Checker.withValueLengthCheck
  congr 1
  funext s
  by_cases h1 : mn > 0 <;> by_cases h2 : mx > 0 <;> simp [h1, h2] <;> (repeat' split) <;> simp_all

theorem withValueEqualsCheck_eq (c : Checker.Checker σ) (n : String) (value equal : Checker.M σ String) (ef : Checker.M σ Unit) :
    Gen.Chk.withValueEqualsCheck c n value equal ef = Checker.withValueEqualsCheck c value equal ef := rfl

theorem withConditionalValueNotEmpty_eq (c : Checker.Checker σ) (cond : Checker.M σ Bool) (n : String) (value : Checker.M σ String) (ef : Checker.M σ Unit) :
    Gen.Chk.withConditionalValueNotEmpty c cond n value ef = Checker.withConditionalValueNotEmpty c cond value ef := rfl

theorem withConditionalLogicStep_eq (c : Checker.Checker σ) (cond : Checker.M σ Bool) (logic : Checker.M σ Err) (ef : Checker.M σ Unit) :
    Gen.Chk.withConditionalLogicStep c cond logic ef = Checker.withConditionalLogicStep c cond (errBool logic) ef := rfl

theorem withLogicStep_eq (c : Checker.Checker σ) (logic : Checker.M σ Err) (ef : Checker.M σ Unit) :
    Gen.Chk.withLogicStep c logic ef = Checker.withLogicStep c (errBool logic) ef := rfl

theorem withValueStep_eq (c : Checker.Checker σ) (logic : Checker.M σ Unit) :
    Gen.Chk.withValueStep c logic = Checker.withValueStep c logic := rfl


/-- the checker model's view of a `func() error` closure of a handler is `errBool` of the closure -/
theorem liftErr_eq_errBool (l : Clo σ Err) : Clo.liftErr l = errBool (Clo.lift l) := by
  funext st
  cases st with
  | none => rfl
  | some s =>
    simp only [Clo.liftErr, Clo.lift, errBool]
    cases l s with
    | panic => rfl
    | ok p => obtain ⟨e, s'⟩ := p; rfl

/-- **a chain step of a translated handler is registered by the regenerated checker.go**: what `ChainSem.Step.register`
    does with `Model.Checker` is what the generated `WithXxx` method does on the (lifted) closures -/
theorem register_is_generated (c : Checker.Checker (Option σ)) (st : Step σ) :
    Step.register c st =
      match st with
      | .withValueNotEmptyCheck v e => Gen.Chk.withValueNotEmptyCheck c "" (Clo.lift v) (Clo.lift e)
      | .withValuesNotEmptyCheck v e => Gen.Chk.withValuesNotEmptyCheck c (Clo.lift v) (Clo.lift e)
      | .withValueLengthCheck v mn mx e => Gen.Chk.withValueLengthCheck c "" (Clo.lift v) mn mx (Clo.lift e)
      | .withValueEqualsCheck v q e => Gen.Chk.withValueEqualsCheck c "" (Clo.lift v) (Clo.lift q) (Clo.lift e)
      | .withConditionalValueNotEmpty cnd v e => Gen.Chk.withConditionalValueNotEmpty c (Clo.lift cnd) "" (Clo.lift v) (Clo.lift e)
      | .withConditionalLogicStep cnd l e => Gen.Chk.withConditionalLogicStep c (Clo.lift cnd) (Clo.lift l) (Clo.lift e)
      | .withLogicStep l e => Gen.Chk.withLogicStep c (Clo.lift l) (Clo.lift e)
      | .withValueStep l => Gen.Chk.withValueStep c (Clo.lift l) := by
  cases st <;>
    simp only [Step.register, withValueNotEmptyCheck_eq, withValuesNotEmptyCheck_eq, withValueLengthCheck_eq, withValueEqualsCheck_eq,
      withConditionalValueNotEmpty_eq, withConditionalLogicStep_eq, withLogicStep_eq, withValueStep_eq, liftErr_eq_errBool]

/-- ... and `CheckFailed()` on a handler frame runs the regenerated `CheckFailed` -/
theorem runChain_is_generated (steps : List (Step σ)) (s : σ) :
    runChain steps s =
      match Gen.Chk.checkFailed (buildChain steps) (some s) with
      | (_, none) => .panic
      | (b, some s') => .ok (b, s') := by
  rw [checkFailed_eq]; rfl

end CheckerGen
