import SamlModel.Props.C01
import SamlModel.Props.C02
import SamlModel.Props.SendBack
set_option linter.unusedSimpArgs false
set_option linter.unusedVariables false
/-!
  Props.HandlerProps — properties of the callback stated on the *regenerated* `callbackHandleFunc`
  (`Props.HandlerGen.handler_refines` transports the theorems about the callback model to it).
  C01's and C09's versions live in Props/C01.lean and Props/C09.lean.
-/
open Go Gen Consts Callback Redirect

namespace C03
/-- **C03 on the regenerated handler.**  `callbackHandleFunc` as regenerated from login.go on this run, in any
    environment: a Success Response it writes answers the stored request (InResponseTo on the response and in the subject
    confirmation = `GetAuthRequestID()`), is addressed to the stored consumer URL (Destination = Recipient =
    `GetAccessConsumerServiceURL()`) and delivered there with the stored binding and RelayState, is issued by
    `GetEntityID`, restricted to the audience `GetEntityIDByAppID` returned, carries exactly the user's NameID and
    attribute list, the instants `time.Now()` / `time.Now()+Expiration` in the configured layout, and the two
    identifiers `NewID()` returned at the two call sites. -/
theorem C03_generated_handler (o : Gen.Ora) (cfg : Gen.provider_IdentityProviderConfig) (fmt : String) (exp : Int)
    (hsome : (CallbackGen.userinfo o).1 = none → (CallbackGen.userinfo o).2.isSome)
    (resp : Gen.provider_Response) (m : Gen.samlp_ResponseType)
    (ht : Gen.IdentityProvider_callbackHandleFunc o (CallbackGen.idp cfg fmt exp) = .ok [Gen.Eff.sendBackResponse (some resp) (some m)])
    (hs : m.Status.StatusCode.Value = statusSuccess) :
    ∃ attrs asr, (CallbackGen.userinfo o).2 = some attrs ∧ Builders.assertionOf m.Assertion = some asr ∧
      m.InResponseTo = o.m_GetAuthRequestID ∧ asr.scInResponseTo = o.m_GetAuthRequestID ∧
      m.Destination = o.m_GetAccessConsumerServiceURL ∧ asr.scRecipient = o.m_GetAccessConsumerServiceURL ∧
      (m.Issuer.map (·.Text)).getD "" = o.m_GetEntityID (CallbackGen.idp cfg fmt exp) ∧ asr.issuer = o.m_GetEntityID (CallbackGen.idp cfg fmt exp) ∧
      asr.audiences = [(o.m_GetEntityIDByAppID o.m_GetApplicationID).1] ∧
      asr.nameID = some { Format := "urn:oasis:names:tc:SAML:1.1:nameid-format:emailAddress", Text := attrs.username } ∧
      asr.attributes = C03.specAttrs attrs ∧
      deliver resp.AcsUrl resp.ProtocolBinding resp.RelayState = deliver o.m_GetAccessConsumerServiceURL o.m_GetBindingType o.m_GetRelayState ∧
      m.IssueInstant = o.m_Format o.now fmt ∧ asr.notBefore = o.m_Format o.now fmt ∧
      asr.notOnOrAfter = o.m_Format (o.now + exp) fmt ∧ asr.scNotOnOrAfter = o.m_Format (o.now + exp) fmt ∧
      m.Id = o.newID "Response_makeAssertionResponse" 0 ∧ asr.id = o.newID "makeAssertion" 0 := by
  have h := HandlerGen.handler_refines o cfg fmt exp hsome
  rw [ht] at h
  simp only [HandlerGen.outOf, HandlerGen.outOfEff, Option.some.injEq] at h
  obtain ⟨rec, aud, attrs, asr, hrec, hent, hui, hasr, h1, h2, h3, h4, h5, h6, h7, h8, h9, hd, h10, _, h11, _, h12, h13, h14, h15, _⟩ :=
    C03.C03_fields o (HandlerGen.inOfOra o cfg fmt exp) _ _ _ h.symm hs
  obtain ⟨_, hid, rec', hrec', hdone, _, _, _, cert, key, hk⟩ := C01.C01_success_only_if_done o (HandlerGen.inOfOra o cfg fmt exp) ⟨_, _, _, h.symm, hs⟩
  have hst : (HandlerGen.inOfOra o cfg fmt exp).stored = if (HandlerGen.lookup o).2.isNone then some (HandlerGen.recOf o) else none := rfl
  have hen : (HandlerGen.inOfOra o cfg fmt exp).entity = if (HandlerGen.entity o).2.isNone then some (HandlerGen.entity o).1 else none := rfl
  have hus : (HandlerGen.inOfOra o cfg fmt exp).userinfo = if (CallbackGen.userinfo o).1 = none then (CallbackGen.userinfo o).2 else none := rfl
  rw [hst] at hrec hrec'
  rw [hen] at hent
  rw [hus] at hui
  have hl : (HandlerGen.lookup o).2.isNone = true := by
    cases hx : (HandlerGen.lookup o).2.isNone with
    | true => rfl
    | false => simp [hx] at hrec
  have hu : (CallbackGen.userinfo o).1 = none := by
    by_cases hx : (CallbackGen.userinfo o).1 = none
    · exact hx
    · simp [hx] at hui
  have he : (HandlerGen.entity o).2.isNone = true := by
    cases hx : (HandlerGen.entity o).2.isNone with
    | true => rfl
    | false => simp [hx] at hent
  simp [hl] at hrec hrec'
  simp [he] at hent
  simp [hu] at hui
  subst hrec hent
  subst hrec'
  have hdone' : o.m_Done = true := hdone
  have hb : HandlerGen.built o = true := by simp [HandlerGen.built, hl, hdone', hu, hk]
  have hid0 : (HandlerGen.inOfOra o cfg fmt exp).ids 0 = o.newID "Response_makeAssertionResponse" 0 := by
    simp [HandlerGen.inOfOra, CallbackGen.inOf, HandlerGen.idsOf, hb]
  have hid1 : (HandlerGen.inOfOra o cfg fmt exp).ids 1 = o.newID "makeAssertion" 0 := by
    simp [HandlerGen.inOfOra, CallbackGen.inOf, HandlerGen.idsOf]
  rw [hid0] at h14
  rw [hid1] at h15
  exact ⟨attrs, asr, hui, hasr, h1, h2, h3, h4, h5, h6, h7, h8, h9, hd, h10, h11, h12, h13, h14, h15⟩
end C03

namespace C02

/-- **C02 on the regenerated handler.**  Every Response the regenerated `callbackHandleFunc` writes — Success or not —
    is delivered with the consumer URL, binding and RelayState the stored request reports, or, when the storage does
    not know the request, written into the HTTP body (the `Response` it is sent on has no consumer URL).  No other
    oracle answer (form fields besides `id`, user data, keys) reaches the delivery. -/
theorem C02_generated_handler (o : Gen.Ora) (cfg : Gen.provider_IdentityProviderConfig) (fmt : String) (exp : Int)
    (hsome : (CallbackGen.userinfo o).1 = none → (CallbackGen.userinfo o).2.isSome)
    (resp : Gen.provider_Response) (m : Gen.samlp_ResponseType)
    (ht : Gen.IdentityProvider_callbackHandleFunc o (CallbackGen.idp cfg fmt exp) = .ok [Gen.Eff.sendBackResponse (some resp) (some m)]) :
    ((o.m_AuthRequestByID (o.formGet "id")).2.isSome ∧ deliver resp.AcsUrl resp.ProtocolBinding resp.RelayState = .xmlBody) ∨
    ((o.m_AuthRequestByID (o.formGet "id")).2 = none ∧
      deliver resp.AcsUrl resp.ProtocolBinding resp.RelayState =
        deliver o.m_GetAccessConsumerServiceURL o.m_GetBindingType o.m_GetRelayState ∧
      m.Destination = o.m_GetAccessConsumerServiceURL) := by
  have h := HandlerGen.handler_refines o cfg fmt exp hsome
  rw [ht] at h
  simp only [HandlerGen.outOf, HandlerGen.outOfEff, Option.some.injEq] at h
  have hst : (HandlerGen.inOfOra o cfg fmt exp).stored = if (HandlerGen.lookup o).2.isNone then some (HandlerGen.recOf o) else none := rfl
  rcases C02_callback_uses_stored_pair o (HandlerGen.inOfOra o cfg fmt exp) _ _ _ h.symm with ⟨hn, hd⟩ | ⟨rec, hrec, hd, hdest⟩
  · left
    rw [hst] at hn
    refine ⟨?_, hd⟩
    cases hx : (o.m_AuthRequestByID (o.formGet "id")).2 with
    | some e => rfl
    | none => simp [HandlerGen.lookup, HandlerGen.idOf, hx] at hn
  · right
    rw [hst] at hrec
    cases hx : (o.m_AuthRequestByID (o.formGet "id")).2 with
    | some e => simp [HandlerGen.lookup, HandlerGen.idOf, hx] at hrec
    | none =>
      simp [HandlerGen.lookup, HandlerGen.idOf, hx] at hrec
      subst hrec
      exact ⟨rfl, hd, hdest⟩

/-- **C02 at the wire, on regenerated code end to end**: the regenerated `callbackHandleFunc` hands its one reply to the
    regenerated `sendBackResponse`, and what that writes (`SendBack.render`, proved equal to the generated function by
    `sendBack_renders`) is, for a request the storage knows and a stored consumer URL: with the POST binding the form
    whose action is exactly the stored consumer URL and whose RelayState is exactly the stored one; with the Redirect
    binding a 302 to `Lib.Url.redirectURL` of the stored consumer URL — that URL with the message parameters inserted
    before its fragment (`C02_wire_redirect`) — carrying the stored RelayState.  No other host, path or RelayState can
    appear, whatever the request, the user data or the keys are. -/
theorem C02_generated_wire (o : Gen.Ora) (cfg : Gen.provider_IdentityProviderConfig) (fmt : String) (exp : Int)
    (hsome : (CallbackGen.userinfo o).1 = none → (CallbackGen.userinfo o).2.isSome)
    (resp : Gen.provider_Response) (m : Gen.samlp_ResponseType)
    (ht : Gen.IdentityProvider_callbackHandleFunc o (CallbackGen.idp cfg fmt exp) = .ok [Gen.Eff.sendBackResponse (some resp) (some m)])
    (hl : (o.m_AuthRequestByID (o.formGet "id")).2 = none) (hacs : o.m_GetAccessConsumerServiceURL ≠ "")
    (data : Lib.Bytes) (hm : o.f_Marshal_ResponseType (some m) = (data, none)) :
    (o.m_GetBindingType = postBinding →
      (SendBack.render o resp (some m)).head? = some (.templateExecute
        { RelayState := o.m_GetRelayState, SAMLResponse := Lib.b64encode data, AssertionConsumerServiceURL := o.m_GetAccessConsumerServiceURL })) ∧
    (o.m_GetBindingType = redirectBinding → ∀ d, o.f_DeflateAndBase64 data = (d, none) →
      SendBack.render o resp (some m) = [.httpRedirect (String.ofList (Lib.Url.redirectURL o.m_GetAccessConsumerServiceURL.toList
        (buildQ (Lib.bytesToString d) o.m_GetRelayState resp.SigAlg resp.Signature))) 302]) := by
  rcases C02_generated_handler o cfg fmt exp hsome resp m ht with ⟨hs, _⟩ | ⟨_, hd, _⟩
  · rw [hl] at hs; simp at hs
  · have hsb := SendBack.sendBack_delivers o resp (some m) data hm
    rw [hd] at hsb
    constructor
    · intro hb
      simp [deliver, hacs, hb] at hsb
      exact hsb
    · intro hb d hdd
      have : ¬ redirectBinding = postBinding := by decide
      simp [deliver, hacs, hb, this] at hsb
      exact hsb d hdd

end C02
