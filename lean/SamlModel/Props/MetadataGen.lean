import SamlModel.Generated.Funcs
import SamlModel.Model.Consts
import SamlModel.Props.C11
import SamlModel.Lemmas.Builders
set_option linter.unusedSimpArgs false
set_option linter.unusedVariables false
/-!
  Props.MetadataGen — `Provider.metadataHandle`, `Provider.GetMetadata`, `Config.getMetadata` and `getMetadataCert` are
  *translated* (go2lean, regenerated on every run; `IdentityProvider.GetMetadata`, `signature.GetSigner`,
  `signature.Create`, the storage's `GetMetadataSigningKey` and the write error are typed oracles).

  `metadataHandle_spec`: for every behaviour of that environment the regenerated handler writes HTTP 500 - and no
  document - whenever the metadata cannot be assembled or, with metadata signing configured, the signing key cannot be
  read (error, nil record, nil key, missing certificate), the signer cannot be built or the signature cannot be created;
  otherwise it writes exactly one document, which carries the signature the signer produced iff signing is configured.
-/
namespace MetadataGen
open Go Gen Consts

variable (o : Ora) (st : Unit) (c : provider_Config) (idp : Option provider_IdentityProvider)

def prov : Option provider_Provider := some { storage := st, conf := some c, identityProvider := idp }

/-- metadata signing is configured -/
def signing : Bool :=
  match c.MetadataConfig with
  | none => false
  | some mc => mc.SignatureAlgorithm != ""

def alg : String := (c.MetadataConfig.map (·.SignatureAlgorithm)).getD ""

/-- the metadata signing key as `getMetadataCert` accepts it -/
theorem getMetadataCert_eq : getMetadataCert o st =
    match o.m_GetMetadataSigningKey with
    | (_, some e) => .ok ([], none, some e)
    | (none, none) => .ok ([], none, some "signer has no key")
    | (some ck, none) =>
      if ck.Key.isNone || ck.Certificate.isEmpty then .ok ([], none, some "signer has no key")
      else .ok (ck.Certificate, ck.Key, none) := by
  unfold getMetadataCert getMetadataCert.body
  rcases h : o.m_GetMetadataSigningKey with ⟨ck, e⟩
  cases e with
  | some e => simp [h, Ctl.toRes]
  | none =>
    cases ck with
    | none => simp [h, Ctl.toRes]
    | some ck =>
      by_cases hk : ck.Key = none <;> by_cases hc : ck.Certificate = [] <;>
        simp [h, Ctl.toRes, deref, hk, hc]

/-- what follows the document: nothing, or the (too late) 500 -/
def afterWrite : List Eff :=
  match o.writeErr "Provider_metadataHandle" 0 with
  | none => []
  | some _ => [.httpError "failed to respond with metadata" 500]

/-- **the regenerated metadata handler, specified** -/
theorem metadataHandle_spec :
    Provider_metadataHandle o (prov st c idp) =
      match Config_getMetadata o (some c) idp with
      | .panic => .panic
      | .ok (_, some e) => .ok [.httpError ("error while getting metadata: " ++ e) 500]
      | .ok (md, none) =>
        if signing c then
          match getMetadataCert o st with
          | .panic => .panic
          | .ok (_, _, some e) => .ok [.httpError ("error while getting metadata: " ++ e) 500]
          | .ok (cert, key, none) =>
            match o.f_GetSigner cert key (alg c) with
            | (_, some e) => .ok [.httpError ("error while getting metadata: " ++ e) 500]
            | (signer, none) =>
              match o.f_Create_EntityDescriptorType signer md with
              | (_, some e) => .ok [.httpError ("error while getting metadata: " ++ e) 500]
              | (sig, none) =>
                match md with
                | none => .panic
                | some m => .ok (.xmlWriteMarshalled_EntityDescriptorType (some { m with Signature := sig }) :: afterWrite o)
        else .ok (.xmlWriteMarshalled_EntityDescriptorType md :: afterWrite o) := by
  unfold Provider_metadataHandle Provider_metadataHandle.body Provider_GetMetadata Provider_GetMetadata.body prov
  cases hcm : Config_getMetadata o (some c) idp with
  | panic => simp [hcm, Res.isPanic, deref, Ctl.toRes]
  | ok t =>
    obtain ⟨md, e⟩ := t
    cases e with
    | some e => simp [hcm, Res.isPanic, Res.get, deref, Ctl.toRes]
    | none =>
      cases hmc : c.MetadataConfig with
      | none =>
        cases hw : o.writeErr "Provider_metadataHandle" 0 <;>
          simp [hcm, Res.isPanic, Res.get, deref, Ctl.toRes, signing, hmc, afterWrite, hw]
      | some mc =>
        by_cases ha : mc.SignatureAlgorithm = ""
        · cases hw : o.writeErr "Provider_metadataHandle" 0 <;>
            simp [hcm, Res.isPanic, Res.get, deref, Ctl.toRes, signing, hmc, ha, afterWrite, hw]
        · cases hk : getMetadataCert o st with
          | panic => simp [hcm, Res.isPanic, Res.get, deref, Ctl.toRes, signing, hmc, ha, hk]
          | ok k =>
            obtain ⟨cert, key, kerr⟩ := k
            cases kerr with
            | some e => simp [hcm, Res.isPanic, Res.get, deref, Ctl.toRes, signing, hmc, ha, hk]
            | none =>
              rcases hs : o.f_GetSigner cert key mc.SignatureAlgorithm with ⟨signer, serr⟩
              cases serr with
              | some e => simp [hcm, Res.isPanic, Res.get, deref, Ctl.toRes, signing, hmc, ha, hk, hs, alg]
              | none =>
                rcases hcr : o.f_Create_EntityDescriptorType signer md with ⟨sig, cerr⟩
                cases cerr with
                | some e => simp [hcm, Res.isPanic, Res.get, deref, Ctl.toRes, signing, hmc, ha, hk, hs, hcr, alg]
                | none =>
                  cases md with
                  | none => simp [hcm, Res.isPanic, Res.get, deref, Ctl.toRes, signing, hmc, ha, hk, hs, hcr, alg]
                  | some m =>
                    cases hw : o.writeErr "Provider_metadataHandle" 0 <;>
                      simp [hcm, Res.isPanic, Res.get, deref, Ctl.toRes, signing, hmc, ha, hk, hs, hcr, alg, afterWrite, hw]

/-- the handler wrote a metadata document -/
def Wrote (md : Option md_EntityDescriptorType) : Prop :=
  ∃ rest, Provider_metadataHandle o (prov st c idp) = .ok (.xmlWriteMarshalled_EntityDescriptorType md :: rest)

/-- **C10 on the regenerated metadata handler (fail closed).**  With metadata signing configured, a storage that cannot
    hand out a usable metadata signing key - it reports an error, returns no record, a record without key or without
    certificate - makes the handler answer HTTP 500; no document is written. -/
theorem C10_generated_metadata_key_failure (hs : signing c = true)
    (hk : o.m_GetMetadataSigningKey.2.isSome ∨ o.m_GetMetadataSigningKey.1 = none ∨
          ∃ ck, o.m_GetMetadataSigningKey.1 = some ck ∧ (ck.Key = none ∨ ck.Certificate = []))
    (md : Option md_EntityDescriptorType) : ¬ Wrote o st c idp md := by
  rintro ⟨rest, hw⟩
  rw [metadataHandle_spec] at hw
  have hcert : ∃ e, getMetadataCert o st = .ok ([], none, some e) := by
    rw [getMetadataCert_eq]
    rcases hx : o.m_GetMetadataSigningKey with ⟨ck, e⟩
    rw [hx] at hk
    cases e with
    | some e => exact ⟨e, rfl⟩
    | none =>
      cases ck with
      | none => exact ⟨_, rfl⟩
      | some ck =>
        simp at hk
        rcases hk with hk | hk
        · exact ⟨"signer has no key", by simp [hk]⟩
        · exact ⟨"signer has no key", by simp [hk]⟩
  obtain ⟨e, he⟩ := hcert
  cases hcm : Config_getMetadata o (some c) idp with
  | panic => rw [hcm] at hw; simp at hw
  | ok t =>
    obtain ⟨m, e'⟩ := t
    cases e' with
    | some e' => rw [hcm] at hw; simp at hw
    | none => rw [hcm] at hw; simp [hs, he] at hw

/-- **C10 on the regenerated metadata handler: signer failures.**  With signing configured, a failing `GetSigner` or a
    failing `signature.Create` means no document is written. -/
theorem C10_generated_metadata_signer_failure (hs : signing c = true)
    (hf : (∀ cert key, (o.f_GetSigner cert key (alg c)).2.isSome) ∨ (∀ sg md, (o.f_Create_EntityDescriptorType sg md).2.isSome))
    (md : Option md_EntityDescriptorType) : ¬ Wrote o st c idp md := by
  rintro ⟨rest, hw⟩
  rw [metadataHandle_spec] at hw
  cases hcm : Config_getMetadata o (some c) idp with
  | panic => rw [hcm] at hw; simp at hw
  | ok t =>
    obtain ⟨m, e'⟩ := t
    cases e' with
    | some e' => rw [hcm] at hw; simp at hw
    | none =>
      rw [hcm] at hw
      simp only [hs, if_true] at hw
      cases hk : getMetadataCert o st with
      | panic => rw [hk] at hw; simp at hw
      | ok k =>
        obtain ⟨cert, key, kerr⟩ := k
        rw [hk] at hw
        cases kerr with
        | some e => simp at hw
        | none =>
          simp only [] at hw
          rcases hsg : o.f_GetSigner cert key (alg c) with ⟨signer, serr⟩
          rw [hsg] at hw
          cases serr with
          | some e => simp at hw
          | none =>
            simp only [] at hw
            rcases hcr : o.f_Create_EntityDescriptorType signer m with ⟨sig, cerr⟩
            rw [hcr] at hw
            cases cerr with
            | some e => simp at hw
            | none =>
              rcases hf with hf | hf
              · have := hf cert key; rw [hsg] at this; simp at this
              · have := hf signer m; rw [hcr] at this; simp at this

/-- **C11 on the regenerated metadata handler: signed iff configured.**  A document the handler writes is the assembled
    metadata; with signing configured it carries exactly the signature `signature.Create` returned for it, without
    signing configured it is written as assembled (unsigned). -/
theorem C11_generated_signed_iff_configured (md : Option md_EntityDescriptorType) (h : Wrote o st c idp md) :
    ∃ m0, Config_getMetadata o (some c) idp = .ok (m0, none) ∧
      (signing c = false → md = m0) ∧
      (signing c = true → ∃ m cert key signer sig, m0 = some m ∧ getMetadataCert o st = .ok (cert, key, none) ∧
          o.f_GetSigner cert key (alg c) = (signer, none) ∧ o.f_Create_EntityDescriptorType signer m0 = (sig, none) ∧
          md = some { m with Signature := sig }) := by
  obtain ⟨rest, hw⟩ := h
  rw [metadataHandle_spec] at hw
  cases hcm : Config_getMetadata o (some c) idp with
  | panic => rw [hcm] at hw; simp at hw
  | ok t =>
    obtain ⟨m0, e'⟩ := t
    cases e' with
    | some e' => rw [hcm] at hw; simp at hw
    | none =>
      rw [hcm] at hw
      refine ⟨m0, rfl, ?_, ?_⟩
      · intro hs
        simp [hs] at hw
        exact hw.1.symm
      · intro hs
        simp only [hs, if_true] at hw
        cases hk : getMetadataCert o st with
        | panic => rw [hk] at hw; simp at hw
        | ok k =>
          obtain ⟨cert, key, kerr⟩ := k
          simp only [hk] at hw
          cases kerr with
          | some e => simp at hw
          | none =>
            simp only [] at hw
            rcases hsg : o.f_GetSigner cert key (alg c) with ⟨signer, serr⟩
            rw [hsg] at hw
            cases serr with
            | some e => simp at hw
            | none =>
              simp only [] at hw
              rcases hcr : o.f_Create_EntityDescriptorType signer m0 with ⟨sig, cerr⟩
              rw [hcr] at hw
              cases cerr with
              | some e => simp at hw
              | none =>
                cases m0 with
                | none => simp at hw
                | some m =>
                  simp at hw
                  exact ⟨m, cert, key, signer, sig, rfl, rfl, hsg, hcr, hw.1.symm⟩


/-! ### The descriptors (`IdentityProviderConfig.getMetadata`, `IdentityProvider.GetMetadata`, `GetEntityID`; translated standalone) -/

open Builders

theorem absolute_ok (o : Ora) (e : provider_Endpoint) (issuer : String) :
    Endpoint_Absolute o e issuer = .ok (Metadata.abs o e issuer) := by
  unfold Metadata.abs Endpoint_Absolute Endpoint_Absolute.body
  by_cases h : e.url = "" <;> simp [h, C11.absolute_eq, Res.isPanic, Res.get, Ctl.toRes]

/-- the endpoints in effect for a configuration -/
def epsOf (o : Ora) (c : provider_IdentityProviderConfig) : provider_Endpoints :=
  ((endpointConfigToEndpoints o c.Endpoints).get).getD default

/-- **the IdP descriptors, as regenerated from metadata.go**: never a panic for a configuration with its metadata
    options, and what the two descriptors advertise -/
theorem getMetadata_spec (o : Ora) (c : provider_IdentityProviderConfig) (mc : provider_MetadataIDPConfig)
    (hmc : c.MetadataIDPConfig = some mc) (entityID issuer : String) (cert : Lib.Bytes) (tf : String) :
    ∃ md aa, IdentityProviderConfig_getMetadata o (some c) entityID issuer cert tf = .ok (some md, some aa) ∧
      md.WantAuthnRequestsSigned = c.WantAuthRequestsSigned ∧
      md.SingleSignOnService = [{ Binding := redirectBinding, Location := Metadata.abs o (epsOf o c).singleSignOnEndpoint issuer },
                                { Binding := postBinding, Location := Metadata.abs o (epsOf o c).singleSignOnEndpoint issuer }] ∧
      md.SingleLogoutService = [{ Binding := redirectBinding, Location := Metadata.abs o (epsOf o c).singleLogoutEndpoint issuer },
                                { Binding := postBinding, Location := Metadata.abs o (epsOf o c).singleLogoutEndpoint issuer }] ∧
      aa.AttributeService = [{ Binding := "urn:oasis:names:tc:SAML:2.0:bindings:SOAP", Location := Metadata.abs o (epsOf o c).attributeEndpoint issuer }] ∧
      (∀ kd ∈ md.KeyDescriptor, ∀ x ∈ kd.KeyInfo.X509Data, x.X509Certificate = Lib.b64encode cert) ∧
      aa.KeyDescriptor = md.KeyDescriptor := by
  unfold IdentityProviderConfig_getMetadata IdentityProviderConfig_getMetadata.body
  have he := endpointConfigToEndpoints_eq o c.Endpoints
  have hsaml := C03.getSAML_eq o { (default : provider_Attributes) with email := "empty", fullName := "empty", givenName := "empty", surname := "empty", userID := "empty", username := "empty", customAttributes := [] }
  by_cases henc : c.EncryptionAlgorithm = "" <;> by_cases hv : mc.ValidUntil = 0 <;> by_cases hc : mc.CacheDuration = "" <;>
    simp only [he, hsaml, hmc, henc, hv, hc, deref, Res.isPanic, Res.get, Ctl.toRes, absolute_ok, epsOf, redirectBinding, postBinding,
      Option.isNone_some, Option.getD_some, Bool.false_eq_true, Bool.or_self, Bool.or_false, if_false, if_true, Ctl.seq_next, ne_eq, not_true_eq_false,
      not_false_eq_true, bne_self_eq_false, bne_iff_ne, decide_true, decide_false] <;>
    refine ⟨_, _, rfl, ?_⟩ <;> simp


/-- **C11 on the regenerated metadata assembly.**  `IdentityProvider.GetMetadata` as regenerated from identityprovider.go /
    metadata.go on this run, for an identity provider with its metadata options: it fails exactly when the response
    signing key cannot be obtained; otherwise the IDPSSODescriptor advertises - for both bindings - the SSO and SLO
    endpoints' absolute URLs for the issuer in effect, the AttributeAuthorityDescriptor the attribute endpoint's, the
    `WantAuthnRequestsSigned` flag is the configured string verbatim, and every key descriptor carries exactly the
    response signing certificate the key getter returned (the one assertions are signed with). -/
theorem C11_generated_metadata (o : Ora) (idpv : provider_IdentityProvider) (c : provider_IdentityProviderConfig)
    (mc : provider_MetadataIDPConfig) (mep : provider_Endpoint) (hc : idpv.conf = some c) (hmc : c.MetadataIDPConfig = some mc)
    (hme : idpv.metadataEndpoint = some mep) :
    match getResponseCert o idpv.storage with
    | .panic => IdentityProvider_GetMetadata o (some idpv) = .panic
    | .ok (_, _, some e) => IdentityProvider_GetMetadata o (some idpv) = .ok (none, none, some e)
    | .ok (cert, _, none) =>
      ∃ md aa, IdentityProvider_GetMetadata o (some idpv) = .ok (some md, some aa, none) ∧
        md.WantAuthnRequestsSigned = c.WantAuthRequestsSigned ∧
        md.SingleSignOnService = [{ Binding := redirectBinding, Location := Metadata.abs o (epsOf o c).singleSignOnEndpoint (o.f_IssuerFromContext ()) },
                                  { Binding := postBinding, Location := Metadata.abs o (epsOf o c).singleSignOnEndpoint (o.f_IssuerFromContext ()) }] ∧
        md.SingleLogoutService = [{ Binding := redirectBinding, Location := Metadata.abs o (epsOf o c).singleLogoutEndpoint (o.f_IssuerFromContext ()) },
                                  { Binding := postBinding, Location := Metadata.abs o (epsOf o c).singleLogoutEndpoint (o.f_IssuerFromContext ()) }] ∧
        aa.AttributeService = [{ Binding := "urn:oasis:names:tc:SAML:2.0:bindings:SOAP", Location := Metadata.abs o (epsOf o c).attributeEndpoint (o.f_IssuerFromContext ()) }] ∧
        (∀ kd ∈ md.KeyDescriptor, ∀ x ∈ kd.KeyInfo.X509Data, x.X509Certificate = Lib.b64encode cert) ∧
        aa.KeyDescriptor = md.KeyDescriptor := by
  unfold IdentityProvider_GetMetadata IdentityProvider_GetMetadata.body
  cases hk : getResponseCert o idpv.storage with
  | panic => simp [hk, deref, Res.isPanic, Ctl.toRes]
  | ok t =>
    obtain ⟨cert, key, kerr⟩ := t
    cases kerr with
    | some e => simp [hk, deref, Res.isPanic, Res.get, Ctl.toRes]
    | none =>
      have hent : IdentityProvider_GetEntityID o (some idpv) = .ok (Metadata.abs o mep (o.f_IssuerFromContext ())) := by
        simp [IdentityProvider_GetEntityID, IdentityProvider_GetEntityID.body, deref, absolute_ok, Res.isPanic, Res.get, Ctl.toRes, hme]
      obtain ⟨md, aa, hg, h1, h2, h3, h4, h5, h6⟩ := getMetadata_spec o c mc hmc (Metadata.abs o mep (o.f_IssuerFromContext ())) (o.f_IssuerFromContext ()) cert idpv.TimeFormat
      refine ⟨md, aa, ?_, h1, h2, h3, h4, h5, h6⟩
      simp [hk, deref, Res.isPanic, Res.get, Ctl.toRes, hent, hc, hg]

end MetadataGen
