import SamlModel.Props.SsoLemmas
import SamlModel.Props.FnLemmas
import SamlModel.Props.C09
import SamlModel.Props.C16
import SamlModel.Props.C13
import SamlModel.Props.C12
set_option linter.unusedSimpArgs false
set_option linter.unusedVariables false
set_option maxHeartbeats 1000000
/-!
  C07 — Conformant requests from registered service providers are accepted (converse of C06 / C13 / C12 on
  the same handler models).  XML decoding is an oracle: "conformant" starts from the decoded request.
-/
namespace C07
open Go Gen FnLemmas Consts

/-- the required-content check passes when its conjuncts hold (converse of `content_ok`) -/
theorem content_of_ok (o : Ora) (idp : md_IDPSSODescriptorType) (sp : serviceprovider_ServiceProvider) (req : samlp_AuthnRequestType)
    (iss : saml_NameIDType) (m : md_EntityDescriptorType)
    (hiss : req.Issuer = some iss) (hm : sp.Metadata = some m) (h1 : req.Id ≠ "") (h2 : req.Version ≠ "") (h3 : iss.Text ≠ "")
    (h4 : iss.Text = m.EntityID)
    (hd : req.Destination = "" ∨ ∃ e, e ∈ idp.SingleSignOnService ∧ req.Destination = e.Location)
    (ht : ∀ c, req.Conditions = some c → TimeOK o defaultTimeFormat c.NotBefore c.NotOnOrAfter) :
    checkRequestRequiredContent o (some idp) (some sp) (some req) = .ok none := by
  have hdest : verifyRequestDestinationOfAuthRequest o (some idp) (some req) = .ok none := by
    rw [dest_eq]
    rcases hd with hd | ⟨e, he, hde⟩
    · simp [hd]
    · by_cases hz : req.Destination = ""
      · simp [hz]
      · have : idp.SingleSignOnService.any (fun x => req.Destination == x.Location) = true :=
          List.any_eq_true.mpr ⟨e, he, by simp [hde]⟩
        simp [hz, this]
  have h3' : ¬ m.EntityID = "" := h4 ▸ h3
  unfold checkRequestRequiredContent checkRequestRequiredContent.body
  cases hc : req.Conditions with
  | none => simp [hc, hiss, hm, h1, h2, h3, h3', h4, hdest, deref, getEntityID_eq, Res.isPanic, Res.get, Ctl.toRes]
  | some c =>
    have htime : timeSpec o "2006-01-02T15:04:05.999999Z" c.NotBefore c.NotOnOrAfter = none := by
      have := (timeCheck_ok o c.NotBefore c.NotOnOrAfter defaultTimeFormat).mpr (ht c hc)
      rw [timeCheck_eq] at this
      simpa [defaultTimeFormat] using this
    by_cases hne : (c.NotOnOrAfter != "" || c.NotBefore != "") = true <;>
      simp [hc, hiss, hm, hne, htime, h1, h2, h3, h3', h4, hdest, deref, getEntityID_eq, timeCheck_eq, Res.isPanic, Res.get, Ctl.toRes]

/-- a request without KeyInfo needs no certificate check -/
theorem certStep_no_keyinfo (o : Ora) (sig : Option xml_dsig_SignatureType) (md : Option md_EntityDescriptorType)
    (h : ∀ s, sig = some s → s.KeyInfo = none) :
    Sso.condStep (certificateCheckNecessary o sig md) (checkCertificate o sig md) = .ok none := by
  unfold certificateCheckNecessary certificateCheckNecessary.body Sso.condStep
  cases sig with
  | none => simp [Ctl.toRes]
  | some s => simp [h s rfl, deref, Ctl.toRes]

/-- what a conformant AuthnRequest looks like to the SSO handler -/
structure ConformantAuthn (o : Ora) (i : Sso.In) (form : Sso.Form) (req : samlp_AuthnRequestType) (iss : saml_NameIDType)
    (sp : serviceprovider_ServiceProvider) (m : md_EntityDescriptorType) (d : md_SPSSODescriptorType) (idp : md_IDPSSODescriptorType) : Prop where
  hmeta : i.metaErr = false
  hidp : i.idpMeta = some idp
  hform : i.form = some form
  hreq : form.AuthRequest ≠ ""
  hdec : i.decoded = some req
  hiss : req.Issuer = some iss
  hsp : i.sp = some sp
  hm : sp.Metadata = some m
  hd : m.SPSSODescriptor = some d
  /-- KeyInfo absent (a KeyInfo naming the registered certificate in any layout is covered by the generators) -/
  hki : ∀ s, req.Signature = some s → s.KeyInfo = none
  /-- the signature is carried the way the binding in use defines it, and verifies when present; absent only where not required -/
  hsig :
    (form.Binding = redirectBinding ∧ embProvided req.Signature = false ∧
      ((form.Sig = "" ∧ form.SigAlg = "" ∧ spRequires sp.Metadata = false ∧ idpRequires i.idpMeta = false) ∨
       (form.Sig ≠ "" ∧ form.SigAlg ≠ "" ∧ o.m_ValidateRedirectSignature (some sp) form.AuthRequest form.RelayState form.SigAlg form.Sig = none))) ∨
    (form.Binding = postBinding ∧ form.Sig = "" ∧ form.SigAlg = "" ∧
      ((embProvided req.Signature = false ∧ spRequires sp.Metadata = false ∧ idpRequires i.idpMeta = false) ∨
       (∃ data, Lib.b64decode form.AuthRequest = some data ∧ o.m_ValidatePostSignature (some sp) (Lib.bytesToString data) = none)))
  /-- a usable consumer endpoint: every registered entry has a location and uses POST or Redirect -/
  hacsne : d.AssertionConsumerService ≠ []
  hacs : ∀ e ∈ d.AssertionConsumerService, e.Location ≠ "" ∧ (e.Binding = redirectBinding ∨ e.Binding = postBinding)
  hid : req.Id ≠ ""
  hver : req.Version ≠ ""
  hissne : iss.Text ≠ ""
  hisseq : iss.Text = m.EntityID
  hdest : req.Destination = "" ∨ ∃ e, e ∈ idp.SingleSignOnService ∧ req.Destination = e.Location
  htime : ∀ c, req.Conditions = some c → TimeOK o defaultTimeFormat c.NotBefore c.NotOnOrAfter
  hcreate : i.createOk = true

/-- **C07 (AuthnRequest).** A conformant request from a registered service provider is accepted: persisted and sent to login. -/
theorem C07_authn (o : Ora) (i : Sso.In) (form : Sso.Form) (req : samlp_AuthnRequestType) (iss : saml_NameIDType)
    (sp : serviceprovider_ServiceProvider) (m : md_EntityDescriptorType) (d : md_SPSSODescriptorType) (idp : md_IDPSSODescriptorType)
    (c : ConformantAuthn o i form req iss sp m d idp) : (Sso.sso o i).out = .login i.createdID := by
  have hsigalg : ¬ (form.SigAlg ≠ "" ∧ form.Sig = "") := by
    rcases c.hsig with ⟨_, _, ⟨h1, h2, _⟩ | ⟨h1, h2, _⟩⟩ | ⟨_, h1, h2, _⟩
    · intro h; exact h.1 h2
    · intro h; exact h1 h.2
    · intro h; exact h.1 h2
  have h6 := certStep_no_keyinfo o req.Signature sp.Metadata c.hki
  have h7 : Sso.condStep (signatureRedirectVerificationNecessary o i.idpMeta sp.Metadata form.Sig form.Binding)
      (verifyRedirectSignature o form.AuthRequest form.RelayState form.Sig form.SigAlg (some sp)) = .ok none := by
    rw [sigRedirNec_eq]
    rcases c.hsig with ⟨hb, _, ⟨h1, h2, h3, h4⟩ | ⟨h1, h2, h3⟩⟩ | ⟨hb, _⟩
    · simp [Sso.condStep, hb, h1, h3, h4]
    · have hv := (verifyRedirect_ok o form.AuthRequest form.RelayState form.Sig form.SigAlg (some sp)).mpr ⟨c.hreq, h1, h2, h3⟩
      simp [Sso.condStep, hb, h1, hv]
    · simp [Sso.condStep, hb, postBinding, redirectBinding]
  have h8 : Sso.condStep (signaturePostVerificationNecessary o i.idpMeta sp.Metadata req.Signature form.Binding)
      (verifyPostSignature o form.AuthRequest (some sp)) = .ok none := by
    rw [sigPostNec_eq]
    rcases c.hsig with ⟨hb, _⟩ | ⟨hb, _, _, ⟨h1, h3, h4⟩ | hv⟩
    · simp [Sso.condStep, hb, postBinding, redirectBinding]
    · simp [Sso.condStep, hb, h1, h3, h4]
    · have := (verifyPost_ok o form.AuthRequest (some sp)).mpr hv
      by_cases hn : ((spRequires sp.Metadata || idpRequires i.idpMeta || embProvided req.Signature) && form.Binding == postBinding) = true
      · simp [Sso.condStep, hn, this]
      · simp at hn; simp [Sso.condStep, hb] at hn ⊢; simp [hn, this]
  have h9 : ¬ ((form.Binding == postBinding && form.Sig != "") || (form.Binding == redirectBinding && embProvided req.Signature)) = true := by
    rcases c.hsig with ⟨hb, he, _⟩ | ⟨hb, hs, _⟩
    · simp [hb, he, postBinding, redirectBinding]
    · simp [hb, hs, postBinding, redirectBinding]
  obtain ⟨sel, hsel, hspec⟩ := C16.C16_selection_meets_spec o d.AssertionConsumerService req.ProtocolBinding
  unfold C16.select at hsel
  have hselOK : sel.1 ≠ "" ∧ (sel.2 = redirectBinding ∨ sel.2 = postBinding) := by
    rcases C16.C16_from_one_entry o d.AssertionConsumerService req.ProtocolBinding with ⟨hn, _⟩ | ⟨e, he, hs⟩
    · exact absurd hn c.hacsne
    · unfold C16.select at hs; rw [hsel] at hs; cases hs
      exact c.hacs e he
  have h14 := content_of_ok o idp sp req iss m c.hiss c.hm c.hid c.hver c.hissne c.hisseq c.hdest c.htime
  have hmeta := c.hmeta
  have hform := c.hform
  have hdec := c.hdec
  have hiss := c.hiss
  have hsp := c.hsp
  have hm := c.hm
  have hd := c.hd
  have hcreate := c.hcreate
  unfold Sso.sso
  simp only [hmeta, Bool.false_eq_true, if_false, hform]
  unfold Sso.ssoAfterForm
  have hreq' : (form.AuthRequest == "") = false := by simpa using c.hreq
  have hsa' : (form.SigAlg != "" && form.Sig == "") = false := by
    by_cases ha : form.SigAlg = "" <;> by_cases hb : form.Sig = "" <;> simp_all
  simp only [hreq', hsa', Bool.false_eq_true, if_false, hdec, hiss, hsp]
  unfold Sso.ssoAfterSp Sso.bindR
  simp only [h6, h7, h8, signaturePostProvided_eq, Option.isSome_none, Bool.false_eq_true, if_false, h9]
  simp only [Sso.spAcs, hm, hd, hsel]
  unfold Sso.ssoAfterSel Sso.bindR
  have hb1 : (sel.1 == "") = false := by simpa using hselOK.1
  have hb2 : (sel.2 == "") = false := by
    rcases hselOK.2 with h | h <;> simp [h, redirectBinding, postBinding]
  have hb3 : (!(sel.2 == redirectBinding || sel.2 == postBinding)) = false := by
    rcases hselOK.2 with h | h <;> simp [h]
  have hidp := c.hidp
  rw [← hidp] at h14
  simp [hb1, hb2, hb3, h14, hcreate]

/-- **C07 (LogoutRequest).** A request that decodes, names a registered issuer and lies in its validity window is
    answered with Success (from `C13_success_iff`). -/
theorem C07_logout (o : Ora) (i : Logout.In) (req : samlp_LogoutRequestType) (sp : serviceprovider_ServiceProvider)
    (hsp : ∀ sp, i.sp = some sp → C13.SpWF sp) (hv : C13.Valid o i req sp) :
    ∃ d m, Logout.logout o i = .reply d m ∧ m.status = statusSuccess :=
  (C13.C13_success_iff o i hsp).mpr ⟨req, sp, hv⟩

/-- **C07 (AttributeQuery).** A query from a registered requester — Issuer and subject present, unsigned or with a
    verifying signature, no KeyInfo, Destination absent or the advertised attribute-service location — is answered,
    as long as storage and signing work. -/
theorem C07_attrq (o : Ora) (i : AttrQuery.In) (q : samlp_AttributeQueryType) (iss subj : saml_NameIDType)
    (sp : serviceprovider_ServiceProvider) (m : md_EntityDescriptorType) (aa : md_AttributeAuthorityDescriptorType)
    (attrs : provider_Attributes) (cert : Lib.Bytes) (key : Option KeyRec)
    (hme : i.metaErr = false) (hbe : i.bodyErr = false) (hdec : i.decoded = some (some q)) (hiss : q.Issuer = some iss)
    (hsp : i.sp = some sp) (hm : sp.Metadata = some m) (haa : i.aaMeta = some aa)
    (hki : ∀ s, q.Signature = some s → s.KeyInfo = none)
    (hsig : embProvided q.Signature = true → i.sigOk = true)
    (hdest : q.Destination = "" ∨ ∃ e, e ∈ aa.AttributeService ∧ q.Destination = e.Location)
    (hsubj : q.Subject.NameID = some subj) (hui : i.userinfo = some attrs)
    (hkey : getResponseCert o () = .ok (cert, key, none)) (hsign : i.signOk = true) :
    ∃ a, AttrQuery.attrQuery o i = .answer a := by
  have h4 := certStep_no_keyinfo o q.Signature sp.Metadata hki
  have h6 : verifyRequestDestinationOfAttrQuery o (some aa) (some q) = .ok none := by
    rw [C12.destAq_eq]
    rcases hdest with hd | ⟨e, he, hde⟩
    · simp [hd]
    · by_cases hz : q.Destination = ""
      · simp [hz]
      · have : aa.AttributeService.any (fun x => q.Destination == x.Location) = true :=
          List.any_eq_true.mpr ⟨e, he, by simp [hde]⟩
        simp [hz, this]
  have h5 : (embProvided q.Signature && !i.sigOk) = false := by
    cases he : embProvided q.Signature with
    | false => simp
    | true => simp [hsig he]
  unfold AttrQuery.attrQuery
  simp only [hme, hbe, Bool.false_eq_true, if_false, hdec, hiss, hsp, h4, Option.isSome_none, signaturePostProvided_eq, h5, haa, h6, hsubj, hui]
  rw [C03.getSAML_eq, C03.getNameID_eq, getEntityID_eq, hm]
  simp [hkey, hsign]

end C07
