import SamlModel.Generated.Funcs
set_option linter.unusedSimpArgs false
set_option linter.unusedVariables false
/-!
  Props.LookupGen — `IdentityProvider.GetServiceProvider` is *translated* (standalone: the handlers keep the oracle of the
  same name): it is the storage's `GetEntityByID` and nothing else, so what the handlers' theorems say about "the service
  provider registered for the Issuer" is about the record the integrator's storage returns for that entity ID.
-/
namespace LookupGen
open Go Gen

/-- **the regenerated lookup is the storage's lookup**, for every entity ID -/
theorem getServiceProvider_spec (o : Ora) (p : Option provider_IdentityProvider) (entityID : String) :
    IdentityProvider_GetServiceProvider o p entityID = .ok (o.m_GetEntityByID entityID) := rfl

/-- the lookup oracle the handlers consult is the regenerated `GetServiceProvider` -/
def LookupIsGenerated (o : Ora) (p : Option provider_IdentityProvider) : Prop :=
  ∀ entityID, IdentityProvider_GetServiceProvider o p entityID = .ok (o.m_GetServiceProvider p entityID)

/-- ... then every service provider a handler works with is the storage's record for the entity ID it asked for -/
theorem lookup_is_storage (o : Ora) (p : Option provider_IdentityProvider) (h : LookupIsGenerated o p) (entityID : String) :
    o.m_GetServiceProvider p entityID = o.m_GetEntityByID entityID := by
  have := h entityID
  rw [getServiceProvider_spec] at this
  injection this with this
  exact this.symm

end LookupGen
