import SamlModel.Model.AttrQuery
import SamlModel.Props.FnLemmas
import SamlModel.Props.C03
set_option linter.unusedSimpArgs false
set_option linter.unusedVariables false
/-!
  C12 — Attribute queries disclose only requested data, to registered requesters.
-/
namespace C12
open Go Gen AttrQuery FnLemmas Consts

/-! ### the destination check against the advertised AttributeService locations (generated code) -/

private def destBody : md_EndpointType → verifyRequestDestinationOfAttrQuery.Frame → Ctl verifyRequestDestinationOfAttrQuery.Frame Err :=
  fun x_attrService s =>
          if s.request.isNone then (.panic : Ctl _ Err) else
            (if ((deref s.request).Destination == x_attrService.Location) then
              let s := { s with foundEndpoint := true };
              .brk s
            else
              .next s)

private theorem destBody_eq (req : samlp_AttributeQueryType) (x : md_EndpointType) (s : verifyRequestDestinationOfAttrQuery.Frame)
    (hs : s.request = some req) :
    destBody x s = if (req.Destination == x.Location) = true then .brk { s with foundEndpoint := true } else .next s := by
  simp [destBody, hs, deref]

private theorem destLoop (req : samlp_AttributeQueryType) (xs : List md_EndpointType) :
    ∀ (s : verifyRequestDestinationOfAttrQuery.Frame), s.request = some req →
    goFor xs s destBody =
      .next { s with foundEndpoint := s.foundEndpoint || xs.any (fun e => req.Destination == e.Location) } := by
  induction xs with
  | nil => intro s _; simp
  | cons x xs ih =>
    intro s hs
    rw [goFor_cons, destBody_eq req x s hs]
    by_cases h : (req.Destination == x.Location) = true
    · simp [h]
    · have h' : (req.Destination == x.Location) = false := by simpa using h
      rw [if_neg h]
      simp only []
      rw [ih s hs]
      simp [h']

theorem destAq_eq (o : Ora) (md : md_AttributeAuthorityDescriptorType) (req : samlp_AttributeQueryType) :
    verifyRequestDestinationOfAttrQuery o (some md) (some req) =
      .ok (if req.Destination = "" then none
           else if md.AttributeService.any (fun e => req.Destination == e.Location) then none
           else some "destination of request is unknown") := by
  unfold verifyRequestDestinationOfAttrQuery verifyRequestDestinationOfAttrQuery.body
  by_cases hd : req.Destination = ""
  · simp [hd, deref, Ctl.toRes]
  · simp only [Option.isNone, deref, Option.getD, Bool.false_eq_true, if_false, bne_iff_ne, ne_eq, hd, not_false_eq_true, if_true]
    have hloop := destLoop req md.AttributeService { metadata := some md, request := some req, foundEndpoint := false } rfl
    unfold destBody at hloop
    simp only [Option.isNone, deref, Option.getD, Bool.false_eq_true, if_false] at hloop
    rw [hloop]
    by_cases ha : md.AttributeService.any (fun e => req.Destination == e.Location) = true <;> simp [ha, Ctl.toRes]

/-- Destination absent, or a location the IdP advertises for the attribute service -/
def DestOK (aa : Option md_AttributeAuthorityDescriptorType) (q : samlp_AttributeQueryType) : Prop :=
  q.Destination = "" ∨ ∃ md e, aa = some md ∧ e ∈ md.AttributeService ∧ q.Destination = e.Location

theorem destAq_ok (o : Ora) (aa : Option md_AttributeAuthorityDescriptorType) (q : samlp_AttributeQueryType)
    (h : verifyRequestDestinationOfAttrQuery o aa (some q) = .ok none) : DestOK aa q := by
  by_cases hd : q.Destination = ""
  · exact Or.inl hd
  · cases aa with
    | none =>
      unfold verifyRequestDestinationOfAttrQuery verifyRequestDestinationOfAttrQuery.body at h
      simp [hd, deref, Ctl.toRes] at h
    | some md =>
      rw [destAq_eq] at h
      simp only [hd, if_false] at h
      by_cases ha : md.AttributeService.any (fun e => q.Destination == e.Location) = true
      · obtain ⟨e, he, heq⟩ := List.any_eq_true.mp ha
        exact Or.inr ⟨md, e, rfl, he, by simpa using heq⟩
      · simp [ha] at h

/-! ### the filter -/

/-- **filter specification (set reading).** An attribute is in the answer iff it is one of the user's
    attributes and either nothing was requested or some requested attribute has the same Name and NameFormat. -/
theorem C12_filter_spec (attrs : List (Option saml_AttributeType)) (queried : List saml_AttributeType) (x : Option saml_AttributeType) :
    x ∈ filterAttrs attrs queried ↔
      x ∈ attrs ∧ (queried = [] ∨ ∃ av q, x = some av ∧ q ∈ queried ∧ av.Name = q.Name ∧ av.NameFormat = q.NameFormat) := by
  unfold filterAttrs
  cases queried with
  | nil => simp
  | cons q0 qs =>
    simp only [List.isEmpty_cons, Bool.false_eq_true, if_false, List.mem_flatMap, List.mem_filterMap]
    constructor
    · rintro ⟨a, ha, q, hq, hm⟩
      cases a with
      | none => simp at hm
      | some av =>
        by_cases hc : (av.Name == q.Name && av.NameFormat == q.NameFormat) = true
        · simp [hc] at hm
          subst hm
          simp at hc
          exact ⟨ha, Or.inr ⟨av, q, rfl, hq, hc.1, hc.2⟩⟩
        · simp [hc] at hm
    · rintro ⟨hx, hq⟩
      rcases hq with hq | ⟨av, q, rfl, hq, h1, h2⟩
      · cases hq
      · exact ⟨some av, hx, q, hq, by simp [h1, h2]⟩

/-- **C12 (guard).** An attribute query is answered with user data only if it decoded, its Issuer is present
    and storage knows it, a signature value it carries verified, and its Destination (when present) is an
    advertised attribute-service location. -/
theorem C12_guard (o : Ora) (i : In) (a : Answer) (h : attrQuery o i = .answer a) :
    ∃ q sp, i.decoded = some (some q) ∧ q.Issuer.isSome ∧ i.sp = some sp ∧
      (embProvided q.Signature = true → i.sigOk = true) ∧ DestOK i.aaMeta q := by
  unfold attrQuery at h
  split at h
  · simp at h
  split at h
  · simp at h
  split at h
  · simp at h
  · simp at h
  rename_i q hq
  split at h
  · simp at h
  rename_i iss hiss
  split at h
  · simp at h
  rename_i sp hsp
  split at h
  · simp at h
  split at h
  · simp at h
  split at h
  · simp at h
  rename_i provided hprov
  split at h
  · simp at h
  rename_i hsig
  split at h
  · simp at h
  rename_i e6 hdest
  split at h
  · simp at h
  rename_i he6
  have e6none : e6 = none := by cases e6 <;> simp_all
  subst e6none
  rw [signaturePostProvided_eq] at hprov
  cases hprov
  refine ⟨q, sp, hq, by simp [hiss], hsp, ?_, destAq_ok o i.aaMeta q hdest⟩
  intro hp
  simp [hp] at hsig
  exact hsig

/-- **C12 (content).** The answer describes exactly the user storage resolved for the queried subject, echoes
    the query ID, names the requester as audience, is issued by the IdP entity ID and contains the user's
    attributes filtered by the requested (Name, NameFormat) pairs. -/
theorem C12_content (o : Ora) (i : In) (a : Answer) (h : attrQuery o i = .answer a) :
    ∃ q sp subj attrs m, i.decoded = some (some q) ∧ i.sp = some sp ∧ q.Subject.NameID = some subj ∧ i.userinfo = some attrs ∧
      sp.Metadata = some m ∧
      a.lookedUp = subj.Text ∧ a.inResponseTo = q.Id ∧ a.audience = m.EntityID ∧ a.issuer = i.issuer ∧
      a.nameID = some { Format := "urn:oasis:names:tc:SAML:1.1:nameid-format:emailAddress", Text := attrs.username } ∧
      a.attributes = filterAttrs (C03.specAttrs attrs) q.Attribute ∧ i.signOk = true := by
  unfold attrQuery at h
  split at h
  · simp at h
  split at h
  · simp at h
  split at h
  · simp at h
  · simp at h
  rename_i q hq
  split at h
  · simp at h
  split at h
  · simp at h
  rename_i sp hsp
  split at h
  · simp at h
  split at h
  · simp at h
  split at h
  · simp at h
  split at h
  · simp at h
  split at h
  · simp at h
  split at h
  · simp at h
  split at h
  · simp at h
  rename_i subj hsubj
  split at h
  · simp at h
  rename_i attrs hui
  rw [C03.getSAML_eq, C03.getNameID_eq, getEntityID_eq] at h
  cases hm : sp.Metadata with
  | none => simp [hm] at h
  | some m =>
    simp only [hm] at h
    split at h
    · simp at h
    split at h
    · simp at h
    split at h
    · simp at h
    rename_i hsign
    simp at h
    subst h
    exact ⟨q, sp, subj, attrs, m, hq, hsp, hsubj, hui, hm, rfl, rfl, rfl, rfl, rfl, rfl, by simpa using hsign⟩

/-- what stays fingerprinted for C12: the constants and the functions that are oracles of the translated handler.  The
    handler and `makeAttributeQueryResponse` are translated on every run and tied by proof
    (`AttrQueryGen.attrquery_handler_refines`, `makeAttributeQueryResponse_refines`, Props/AttrQueryProps.lean) -/
theorem C12_source_current : Consts.current = true ∧
    FactsUtil.sameHashes ["xml.WriteXMLMarshalled", "serviceprovider.ServiceProvider.ValidatePostSignature"] = true := ⟨by decide, by decide⟩

/-- non-vacuity -/
def ora0 : Ora where
  now := 0
  timeParse := fun _ _ => none
  m_ValidateRedirectSignature := fun _ _ _ _ _ => none
  m_ValidatePostSignature := fun _ _ => none
  urlParse := fun _ => none
  inflate := fun _ => {}
  m_GetResponseSigningKey := (some { Certificate := [1], Key := some {} }, none)
def sp0 : serviceprovider_ServiceProvider := { ID := "app", Metadata := some { EntityID := "sp", SPSSODescriptor := some {} } }
def reqAttr0 : saml_AttributeType := { Name := "Email", NameFormat := C03.basicFormat }
def subj0 : saml_SubjectType := { NameID := some { Text := "alice" } }
def q0 : samlp_AttributeQueryType := { Id := "q1", Issuer := some { Text := "sp" }, Subject := subj0, Attribute := [reqAttr0] }
def in0 : In := { issuer := "idp", decoded := some (some q0), sp := some sp0, aaMeta := some {}, userinfo := some { email := "a@x", username := "alice", surname := "S" } }
def ans0 : Answer where
  inResponseTo := "q1"
  issuer := "idp"
  audience := "sp"
  nameID := some { Format := "urn:oasis:names:tc:SAML:1.1:nameid-format:emailAddress", Text := "alice" }
  attributes := [some { Name := "Email", NameFormat := C03.basicFormat, AttributeValue := ["a@x"] }]
  lookedUp := "alice"
example : attrQuery ora0 in0 = .answer ans0 := by decide
example : attrQuery ora0 { in0 with decoded := some (some { q0 with Destination := "https://evil/attr" }) } = .httpError 500 := by decide

end C12
