import SamlModel.Lemmas.Builders
import SamlModel.Model.Callback
import SamlModel.Model.FactsUtil
set_option linter.unusedSimpArgs false
set_option linter.unusedVariables false
set_option maxHeartbeats 1000000
/-!
  C03 — Assertion content is bound to the originating request, audience and user.
-/
namespace C03
open Go Gen Callback Consts

def basicFormat : String := "urn:oasis:names:tc:SAML:2.0:attrname-format:basic"

/-- a standard attribute is emitted iff its value is non-empty, with exactly that value -/
def stdAttr (name v : String) : List (Option saml_AttributeType) :=
  if v = "" then [] else [some { Name := name, NameFormat := basicFormat, AttributeValue := [v] }]

def customAttr (p : String × provider_CustomAttribute) : Option saml_AttributeType :=
  some { Name := p.1, FriendlyName := p.2.FriendlyName, NameFormat := p.2.NameFormat, AttributeValue := p.2.AttributeValue }

/-- **the attribute statement, specified**: the six standard attributes in fixed order (each iff set), then the
    custom attributes in the order the user record yields them, value lists untouched -/
def specAttrs (a : provider_Attributes) : List (Option saml_AttributeType) :=
  stdAttr "Email" a.email ++ stdAttr "SurName" a.surname ++ stdAttr "FirstName" a.givenName ++
  stdAttr "FullName" a.fullName ++ stdAttr "UserName" a.username ++ stdAttr "UserID" a.userID ++
  a.customAttributes.map customAttr

private theorem customLoop (xs : List (String × provider_CustomAttribute)) (s : Attributes_GetSAML.Frame) :
    goFor xs s (fun (p : String × provider_CustomAttribute) s =>
        (Ctl.next { s with attrs := s.attrs ++ [customAttr p] } : Ctl _ (List (Option saml_AttributeType)))) =
      .next { s with attrs := s.attrs ++ xs.map customAttr } := by
  induction xs generalizing s with
  | nil => simp
  | cons x xs ih => rw [goFor_cons]; simp only []; rw [ih]; simp

/-- the generated `GetSAML` computes `specAttrs` -/
theorem getSAML_eq (o : Ora) (a : provider_Attributes) : Attributes_GetSAML o (some a) = .ok (specAttrs a) := by
  unfold Attributes_GetSAML Attributes_GetSAML.body specAttrs
  have hl := customLoop a.customAttributes
  unfold customAttr at hl
  have hdflt : (default : saml_AttributeType).FriendlyName = "" := rfl
  by_cases h1 : a.email = "" <;> by_cases h2 : a.surname = "" <;> by_cases h3 : a.givenName = "" <;>
  by_cases h4 : a.fullName = "" <;> by_cases h5 : a.username = "" <;> by_cases h6 : a.userID = "" <;>
    simp [h1, h2, h3, h4, h5, h6, deref, stdAttr, basicFormat, hl, Ctl.toRes, customAttr, hdflt]

theorem getNameID_eq (o : Ora) (a : provider_Attributes) :
    Attributes_GetNameID o (some a) =
      .ok (some { Format := "urn:oasis:names:tc:SAML:1.1:nameid-format:emailAddress", Text := a.username }) := by
  simp [Attributes_GetNameID, Attributes_GetNameID.body, deref, Ctl.toRes]

/-- **C03 (fields).** A Success reply for stored request `rec`, audience `aud` and user record `attrs`:
    InResponseTo (response and subject confirmation) is the ID of the original AuthnRequest; Destination and
    Recipient are the stored consumer URL; both Issuers are the IdP entity ID; the audience is the entity ID
    registered for the application; NameID and attribute statement are exactly the user's data; it is
    delivered to the stored (URL, binding) with the stored RelayState; NotBefore = AuthnInstant = IssueInstant,
    the two NotOnOrAfter are the instant plus lifetime; response and assertion IDs are the first two fresh IDs. -/
theorem C03_fields (o : Ora) (i : In) (d : Delivery) (m : Msg) (s : Sig) (h : callback o i = .reply d m s)
    (hs : m.status = statusSuccess) :
    ∃ rec aud attrs asr, i.stored = some rec ∧ i.entity = some aud ∧ i.userinfo = some attrs ∧ m.assertion = some asr ∧
      m.inResponseTo = rec.reqID ∧ asr.scInResponseTo = rec.reqID ∧
      m.destination = rec.acs ∧ asr.scRecipient = rec.acs ∧
      m.issuer = i.issuer ∧ asr.issuer = i.issuer ∧ asr.audiences = [aud] ∧
      asr.nameID = some { Format := "urn:oasis:names:tc:SAML:1.1:nameid-format:emailAddress", Text := attrs.username } ∧
      asr.attributes = specAttrs attrs ∧
      d = deliver rec.acs rec.binding rec.relay ∧
      m.issueInstant = i.issueInstant ∧ asr.issueInstant = i.issueInstant ∧ asr.notBefore = i.issueInstant ∧ asr.authnInstant = i.issueInstant ∧
      asr.notOnOrAfter = i.untilInstant ∧ asr.scNotOnOrAfter = i.untilInstant ∧
      m.id = i.ids 0 ∧ asr.id = i.ids 1 ∧ asr.sessionIndex = asr.id := by
  unfold callback at h
  split at h
  · simp at h
  split at h
  · simp at h
  split at h
  · simp [failedMsg, mkResponse] at h; obtain ⟨_, hm, _⟩ := h; subst hm; simp [statusSuccess, statusRequestDenied] at hs
  rename_i rec hrec
  split at h
  · simp at h
  rename_i aud hent
  dsimp only at h
  split at h
  · simp [failedMsg, mkResponse] at h; obtain ⟨_, hm, _⟩ := h; subst hm; simp [statusSuccess, statusAuthnFailed] at hs
  split at h
  · simp [failedMsg, mkResponse] at h; obtain ⟨_, hm, _⟩ := h; subst hm; simp [statusSuccess, statusInvalidAttr] at hs
  rename_i attrs hui
  split at h
  · simp at h
  split at h
  · simp [failedMsg, mkResponse] at h; obtain ⟨_, hm, _⟩ := h; subst hm; simp [statusSuccess, statusInvalidAttr] at hs
  rw [getSAML_eq, getNameID_eq] at h
  simp only at h
  split at h
  · simp [mkResponse] at h; obtain ⟨_, hm, _⟩ := h; subst hm; simp [statusSuccess, statusResponder] at hs
  · simp [mkResponse, mkAssertion] at h
    obtain ⟨hd, hm, _⟩ := h
    subst hm hd
    exact ⟨rec, aud, attrs, _, hrec, hent, hui, rfl, rfl, rfl, rfl, rfl, rfl, rfl, rfl, rfl, rfl, rfl, rfl, rfl, rfl, rfl, rfl, rfl, rfl, rfl, rfl⟩

/-- RelayState travels back byte for byte whenever the reply goes to the consumer -/
theorem C03_relay (acs binding relay : String) (hacs : acs ≠ "") :
    (binding = postBinding → deliver acs binding relay = .postForm acs relay) ∧
    (binding = redirectBinding → deliver acs binding relay = .redirect acs relay) := by
  constructor
  · intro hb; simp [deliver, hacs, hb]
  · intro hb; simp [deliver, hacs, hb, redirectBinding, postBinding]

/-- nothing added, dropped, or reordered within a value list -/
theorem C03_specAttrs_exact (a : provider_Attributes) :
    (∀ p ∈ a.customAttributes, customAttr p ∈ specAttrs a) ∧
    (∀ x ∈ specAttrs a, (∃ p ∈ a.customAttributes, x = customAttr p) ∨
        ∃ name v, v ≠ "" ∧ x = some { Name := name, NameFormat := basicFormat, AttributeValue := [v] } ∧
          ((name = "Email" ∧ v = a.email) ∨ (name = "SurName" ∧ v = a.surname) ∨ (name = "FirstName" ∧ v = a.givenName) ∨
           (name = "FullName" ∧ v = a.fullName) ∨ (name = "UserName" ∧ v = a.username) ∨ (name = "UserID" ∧ v = a.userID))) ∧
    (a.email ≠ "" → some { Name := "Email", NameFormat := basicFormat, AttributeValue := [a.email] } ∈ specAttrs a) ∧
    (a.surname ≠ "" → some { Name := "SurName", NameFormat := basicFormat, AttributeValue := [a.surname] } ∈ specAttrs a) ∧
    (a.givenName ≠ "" → some { Name := "FirstName", NameFormat := basicFormat, AttributeValue := [a.givenName] } ∈ specAttrs a) ∧
    (a.fullName ≠ "" → some { Name := "FullName", NameFormat := basicFormat, AttributeValue := [a.fullName] } ∈ specAttrs a) ∧
    (a.username ≠ "" → some { Name := "UserName", NameFormat := basicFormat, AttributeValue := [a.username] } ∈ specAttrs a) ∧
    (a.userID ≠ "" → some { Name := "UserID", NameFormat := basicFormat, AttributeValue := [a.userID] } ∈ specAttrs a) := by
  refine ⟨?_, ?_, ?_, ?_, ?_, ?_, ?_, ?_⟩
  · intro p hp; simp only [specAttrs, List.mem_append, List.mem_map]; exact Or.inr ⟨p, hp, rfl⟩
  · intro x hx
    simp only [specAttrs, List.mem_append, List.mem_map, stdAttr] at hx
    rcases hx with ((((((hx | hx) | hx) | hx) | hx) | hx) | ⟨p, hp, rfl⟩)
    · split at hx <;> simp at hx; subst hx; exact Or.inr ⟨_, _, ‹_›, rfl, Or.inl ⟨rfl, rfl⟩⟩
    · split at hx <;> simp at hx; subst hx; exact Or.inr ⟨_, _, ‹_›, rfl, Or.inr (Or.inl ⟨rfl, rfl⟩)⟩
    · split at hx <;> simp at hx; subst hx; exact Or.inr ⟨_, _, ‹_›, rfl, Or.inr (Or.inr (Or.inl ⟨rfl, rfl⟩))⟩
    · split at hx <;> simp at hx; subst hx; exact Or.inr ⟨_, _, ‹_›, rfl, Or.inr (Or.inr (Or.inr (Or.inl ⟨rfl, rfl⟩)))⟩
    · split at hx <;> simp at hx; subst hx; exact Or.inr ⟨_, _, ‹_›, rfl, Or.inr (Or.inr (Or.inr (Or.inr (Or.inl ⟨rfl, rfl⟩))))⟩
    · split at hx <;> simp at hx; subst hx; exact Or.inr ⟨_, _, ‹_›, rfl, Or.inr (Or.inr (Or.inr (Or.inr (Or.inr ⟨rfl, rfl⟩))))⟩
    · exact Or.inl ⟨p, hp, rfl⟩
  all_goals (intro h; simp [specAttrs, stdAttr, h])

/-- **C03 (window).** With a time layout whose formatter/parser satisfy `parse (format t) ≤ t < parse (format t) + g`
    (g = the layout's granularity) and a lifetime `exp ≥ g`: NotBefore = IssueInstant ≤ now < NotOnOrAfter, and
    NotOnOrAfter is IssueInstant + lifetime up to the granularity. -/
theorem C03_window (format : Int → String) (parse : String → Int) (g exp now : Int)
    (hfmt : ∀ t, parse (format t) ≤ t ∧ t < parse (format t) + g) (hexp : g ≤ exp) :
    parse (format now) ≤ now ∧ now < parse (format (now + exp)) ∧
    parse (format now) + exp - g < parse (format (now + exp)) ∧ parse (format (now + exp)) ≤ parse (format now) + exp + g := by
  have h1 := hfmt now
  have h2 := hfmt (now + exp)
  refine ⟨h1.1, by omega, by omega, by omega⟩

/-- response and assertion IDs are distinct as soon as the ID source does not repeat -/
theorem C03_ids (i : In) (hinj : ∀ a b, i.ids a = i.ids b → a = b) : i.ids 0 ≠ i.ids 1 := by
  intro h; exact absurd (hinj 0 1 h) (by decide)

/-- **the builders are the generated ones**: `makeResponse` and `makeAssertion` as regenerated from response.go on
    this run never panic and construct exactly the records the callback model works with (`Builders.msgOf`,
    `Builders.assertionOf` are the projections); version "2.0"; the assertion's identifier is the one `NewID()`
    returned at its call site -/
theorem C03_builders_refine (o : Ora) (id reqID acs ii untl status msg issuer aud : String) (nameID : Option saml_NameIDType)
    (attrs : List (Option saml_AttributeType)) :
    (∃ r, Gen.makeResponse o id reqID acs ii status msg issuer = .ok (some r) ∧
        Builders.msgOf r none = Callback.mkResponse id reqID acs ii status msg issuer ∧ r.Version = "2.0") ∧
    (∃ a, Gen.makeAssertion o reqID acs "" ii untl issuer nameID attrs aud true = .ok (some a) ∧
        Builders.assertionOf a = some (Callback.mkAssertion (o.newID "makeAssertion" 0) reqID acs ii untl issuer nameID attrs aud) ∧
        a.Version = "2.0") :=
  ⟨(Builders.makeResponse_refines o id reqID acs ii status msg issuer).imp fun _ h => ⟨h.1, h.2.1, h.2.2.1⟩, Builders.makeAssertion_refines o reqID acs ii untl issuer nameID attrs aud⟩

open Builders in
private theorem makeAssertionResponse_refines (o : Ora) (resp : provider_Response) (ii untl : String) (attrs : provider_Attributes)
    (hsend : resp.SendIP = "") :
    ∃ r, Response_makeAssertionResponse o (some resp) ii untl (some attrs) = .ok (some r) ∧
      msgOf r (assertionOf r.Assertion) =
        { Callback.mkResponse (o.newID "Response_makeAssertionResponse" 0) resp.RequestID resp.AcsUrl ii statusSuccess "" resp.Issuer with
          assertion := some (Callback.mkAssertion (o.newID "makeAssertion" 0) resp.RequestID resp.AcsUrl ii untl resp.Issuer
            (some { Format := "urn:oasis:names:tc:SAML:1.1:nameid-format:emailAddress", Text := attrs.username }) (specAttrs attrs) resp.Audience) } := by
  obtain ⟨r, hr, hm, _⟩ := makeResponse_refines o (o.newID "Response_makeAssertionResponse" 0) resp.RequestID resp.AcsUrl ii
    "urn:oasis:names:tc:SAML:2.0:status:Success" "" resp.Issuer
  obtain ⟨a, ha, hp, _⟩ := makeAssertion_refines o resp.RequestID resp.AcsUrl ii untl resp.Issuer
    (some { Format := "urn:oasis:names:tc:SAML:1.1:nameid-format:emailAddress", Text := attrs.username }) (specAttrs attrs) resp.Audience
  refine ⟨{ r with Assertion := a }, ?_, ?_⟩
  · simp [Response_makeAssertionResponse, Response_makeAssertionResponse.body, Ctl.toRes, deref, hr, getNameID_eq, getSAML_eq, hsend, ha,
      Res.isPanic, Res.get]
  · simp only [msgOf] at hm ⊢
    rw [hp]
    simp only [Callback.mkResponse, statusSuccess] at hm ⊢
    simp_all

/-- **the Success message is the generated one**: `makeSuccessfulResponse` as regenerated from response.go — through
    `makeAssertionResponse`, `makeResponse`, `makeAssertion`, `GetNameID`, `GetSAML`, all regenerated — never panics for
    the `Response` the callback fills in and builds exactly the message of the callback model's Success branch; the two
    identifiers are the ones `NewID()` returned at the two call sites, the instants are `time.Now()` and
    `time.Now().Add(expiration)` in the configured layout -/
theorem C03_success_message_is_generated (o : Ora) (i : Callback.In) (rec : Callback.Rec) (aud fmt : String) (exp : Int)
    (attrs : provider_Attributes) (resp : provider_Response)
    (hacs : resp.AcsUrl = rec.acs) (hreq : resp.RequestID = rec.reqID) (hiss : resp.Issuer = i.issuer) (haud : resp.Audience = aud)
    (hsend : resp.SendIP = "")
    (hid0 : i.ids 0 = o.newID "Response_makeAssertionResponse" 0) (hid1 : i.ids 1 = o.newID "makeAssertion" 0)
    (hii : i.issueInstant = o.m_Format o.now fmt) (hun : i.untilInstant = o.m_Format (o.now + exp) fmt) :
    ∃ r, Response_makeSuccessfulResponse o (some resp) (some attrs) fmt exp = .ok (some r) ∧
      Builders.msgOf r (Builders.assertionOf r.Assertion) =
        { Callback.mkResponse (i.ids 0) rec.reqID rec.acs i.issueInstant statusSuccess "" i.issuer with
          assertion := some (Callback.mkAssertion (i.ids 1) rec.reqID rec.acs i.issueInstant i.untilInstant i.issuer
            (some { Format := "urn:oasis:names:tc:SAML:1.1:nameid-format:emailAddress", Text := attrs.username }) (specAttrs attrs) aud) } := by
  obtain ⟨r, hr, hm⟩ := makeAssertionResponse_refines o resp (o.m_Format o.now fmt) (o.m_Format (o.now + exp) fmt) attrs hsend
  refine ⟨r, ?_, ?_⟩
  · simp only [Response_makeSuccessfulResponse, Response_makeSuccessfulResponse.body, Ctl.toRes, hr, Res.isPanic, Res.get]
    simp
  · rw [hm, hid0, hid1, hii, hun, hacs, hreq, hiss, haud]

/-- the failed responses of the callback are the generated `makeFailedResponse` -/
theorem C03_failed_message_is_generated (o : Ora) (i : Callback.In) (reqID acs status message fmt : String) (resp : provider_Response)
    (hacs : resp.AcsUrl = acs) (hreq : resp.RequestID = reqID) (hiss : resp.Issuer = i.issuer)
    (hid0 : i.ids 0 = o.newID "Response_makeFailedResponse" 0) (hii : i.issueInstant = o.m_Format o.now fmt) :
    ∃ r, Response_makeFailedResponse o (some resp) status message fmt = .ok (some r) ∧
      Builders.msgOf r none = Callback.failedMsg i reqID acs status message := by
  obtain ⟨r, hr, hm, _⟩ := Builders.makeFailedResponse_refines o resp status message fmt
  exact ⟨r, hr, by rw [hm, Callback.failedMsg, hid0, hii, hacs, hreq, hiss]⟩

theorem C03_source_current : Consts.current = true ∧
    FactsUtil.sameHashes ["provider.NewID"] = true := ⟨by decide, by decide⟩

end C03
