import SamlModel.Lemmas.Builders
import SamlModel.Model.Logout
import SamlModel.Props.FnLemmas
set_option linter.unusedSimpArgs false
set_option linter.unusedVariables false
/-!
  C13 — Logout responses go to the registered party and succeed only if valid.
-/
namespace C13
open Go Gen Logout FnLemmas Consts

/-- the registered metadata has an SPSSODescriptor (guaranteed by `NewServiceProvider` since the C09 fix) -/
def SpWF (sp : serviceprovider_ServiceProvider) : Prop := ∃ m d, sp.Metadata = some m ∧ m.SPSSODescriptor = some d

/-- what makes a logout request valid -/
def Valid (o : Ora) (i : In) (req : samlp_LogoutRequestType) (sp : serviceprovider_ServiceProvider) : Prop :=
  i.form.isSome ∧ i.decoded = some req ∧ req.Issuer.isSome ∧ i.sp = some sp ∧
  TimeOK o i.timeFormat req.IssueInstant req.NotOnOrAfter

/-- **C13 (exactly one LogoutResponse; Issuer; InResponseTo).** Unless the registered metadata is malformed
    (no panic otherwise), every reply is a single LogoutResponse issued by the IdP entity ID; it echoes the
    request ID whenever the request decoded. -/
theorem C13_one_logout_response (o : Ora) (i : In) (hsp : ∀ sp, i.sp = some sp → SpWF sp) :
    ∃ d m, logout o i = .reply d m ∧ m.issuer = i.issuer ∧ m.status ≠ "" ∧
      (∀ req, i.form.isSome → i.decoded = some req → m.inResponseTo = req.Id) := by
  unfold logout
  dsimp only
  cases hf : i.form with
  | none => exact ⟨_, _, rfl, rfl, by simp [mkMsg, statusRequestDenied], by intro req h; simp at h⟩
  | some form =>
    cases hd : i.decoded with
    | none => exact ⟨_, _, rfl, rfl, by simp [mkMsg, statusRequestDenied], by intro req _ h; simp at h⟩
    | some req =>
      simp only [timeCheck_eq]
      have hirt : ∀ (r : samlp_LogoutRequestType), (some form : Option LForm).isSome → some req = some r → req.Id = r.Id := by
        intro r _ h; cases h; rfl
      split
      · exact ⟨_, _, rfl, rfl, by simp [mkMsg, statusRequestDenied], fun r a b => hirt r a b⟩
      · cases hi : req.Issuer with
        | none => exact ⟨_, _, rfl, rfl, by simp [mkMsg, statusRequestDenied], fun r a b => hirt r a b⟩
        | some iss =>
          cases hs : i.sp with
          | none => exact ⟨_, _, rfl, rfl, by simp [mkMsg, statusRequestDenied], fun r a b => hirt r a b⟩
          | some sp =>
            obtain ⟨m, d, hm, hdsc⟩ := hsp sp hs
            simp only [hm, hdsc]
            exact ⟨_, _, rfl, rfl, by simp [mkMsg, statusSuccess], fun r a b => hirt r a b⟩

/-- **C13 (Success only if valid, and every valid request succeeds).** -/
theorem C13_success_iff (o : Ora) (i : In) (hsp : ∀ sp, i.sp = some sp → SpWF sp) :
    (∃ d m, logout o i = .reply d m ∧ m.status = statusSuccess) ↔ ∃ req sp, Valid o i req sp := by
  unfold logout Valid
  dsimp only
  cases hf : i.form with
  | none => simp [mkMsg, statusSuccess, statusRequestDenied]
  | some form =>
    cases hd : i.decoded with
    | none => simp [mkMsg, statusSuccess, statusRequestDenied]
    | some req =>
      simp only [timeCheck_eq]
      cases ht : timeSpec o i.timeFormat req.IssueInstant req.NotOnOrAfter with
      | some e =>
        have hnot : ¬ TimeOK o i.timeFormat req.IssueInstant req.NotOnOrAfter := by
          rw [← timeCheck_ok, timeCheck_eq, ht]; simp
        simp [mkMsg, statusSuccess, statusRequestDenied, hnot]
      | none =>
        have hok : TimeOK o i.timeFormat req.IssueInstant req.NotOnOrAfter := by
          rw [← timeCheck_ok, timeCheck_eq, ht]
        cases hi : req.Issuer with
        | none => simp [mkMsg, statusSuccess, statusRequestDenied, hi]
        | some iss =>
          cases hs : i.sp with
          | none => simp [mkMsg, statusSuccess, statusRequestDenied]
          | some sp =>
            obtain ⟨m, d, hm, hdsc⟩ := hsp sp hs
            simp [hm, hdsc, mkMsg, hi, hok]
            exact ⟨_, _, ⟨rfl, rfl⟩, rfl⟩

/-- **C13 (delivery).** A Success response is posted, with the unchanged RelayState, to the first
    SingleLogoutService location registered for the issuer, and its Destination is that location; with no
    registered location it is returned in the HTTP body.  Every non-Success response is returned in the body. -/
theorem C13_delivery (o : Ora) (i : In) (d : Delivery) (m : Msg) (h : logout o i = .reply d m) :
    (m.status ≠ statusSuccess → d = .xmlBody ∧ m.destination = "") ∧
    (m.status = statusSuccess → ∃ form sp md dsc, i.form = some form ∧ i.sp = some sp ∧ sp.Metadata = some md ∧
        md.SPSSODescriptor = some dsc ∧ m.destination = firstSlo dsc ∧
        ((firstSlo dsc = "" ∧ d = .xmlBody) ∨ (firstSlo dsc ≠ "" ∧ d = .postForm (firstSlo dsc) form.RelayState))) := by
  unfold logout at h
  dsimp only at h
  split at h
  · simp [mkMsg] at h; obtain ⟨h1, h2⟩ := h; subst h1 h2; simp [statusSuccess, statusRequestDenied]
  rename_i form hf
  split at h
  · simp [mkMsg] at h; obtain ⟨h1, h2⟩ := h; subst h1 h2; simp [statusSuccess, statusRequestDenied]
  split at h
  · simp at h
  split at h
  · simp [mkMsg] at h; obtain ⟨h1, h2⟩ := h; subst h1 h2; simp [statusSuccess, statusRequestDenied]
  split at h
  · simp [mkMsg] at h; obtain ⟨h1, h2⟩ := h; subst h1 h2; simp [statusSuccess, statusRequestDenied]
  split at h
  · simp [mkMsg] at h; obtain ⟨h1, h2⟩ := h; subst h1 h2; simp [statusSuccess, statusRequestDenied]
  rename_i sp hs
  split at h
  · simp at h
  rename_i md hm
  split at h
  · simp at h
  rename_i dsc hdsc
  simp [mkMsg] at h
  obtain ⟨h1, h2⟩ := h
  subst h1 h2
  refine ⟨by simp, fun _ => ⟨form, sp, md, dsc, hf, hs, hm, hdsc, rfl, ?_⟩⟩
  by_cases hu : firstSlo dsc = ""
  · left; simp [deliver, hu]
  · right; simp [deliver, hu]

/-- the first registered location is meant literally: document order -/
theorem C13_first_location (d : md_SPSSODescriptorType) (e : md_EndpointType) (rest : List md_EndpointType)
    (h : d.SingleLogoutService = e :: rest) : firstSlo d = e.Location := by
  simp [firstSlo, h]

/-- **the builder is the generated one**: `makeLogoutResponse` as regenerated from logout_response.go never panics and
    builds exactly the message of the logout model -/
theorem C13_builder_refines (o : Ora) (i : Logout.In) (reqID url status message : String)
    (hid : i.newID = o.newID "makeLogoutResponse" 0) :
    ∃ r, Gen.makeLogoutResponse o reqID url i.issueInstant status message ((Gen.getIssuer o i.issuer).get) = .ok (some r) ∧
      Builders.logoutMsgOf r = Logout.mkMsg i reqID url status ∧ r.Version = "2.0" :=
  Builders.makeLogoutResponse_refines o i reqID url status message hid

/-- what stays fingerprinted for C13: the constants and the decoder (an oracle of the translated handler).  The handler,
    its form reader, the two builders and `sendBackLogoutResponse` are translated on every run and tied by proof
    (`LogoutGen.logout_handler_refines`, `LogoutGen.sloSendBack_renders`, Props/LogoutProps.lean) -/
theorem C13_source_current : Consts.current = true := by decide

/-- non-vacuity -/
def ora0 : Ora where
  now := 100
  timeParse := fun _ v => if v == "t50" then some 50 else if v == "t200" then some 200 else none
  m_ValidateRedirectSignature := fun _ _ _ _ _ => none
  m_ValidatePostSignature := fun _ _ => none
  urlParse := fun _ => none
  inflate := fun _ => {}
  m_GetResponseSigningKey := (none, none)
def dsc0 : md_SPSSODescriptorType := { SingleLogoutService := [{ Location := "https://sp/slo1" }, { Location := "https://sp/slo2" }] }
def sp0 : serviceprovider_ServiceProvider := { ID := "app", Metadata := some { EntityID := "sp", SPSSODescriptor := some dsc0 } }
def in0 (ii : String) : In :=
  { issuer := "idp", form := some { LogoutRequest := "x", RelayState := "rs" },
    decoded := some { Id := "lr1", IssueInstant := ii, Issuer := some { Text := "sp" } }, sp := some sp0, newID := "n" }
example : logout ora0 (in0 "t50") = .reply (.postForm "https://sp/slo1" "rs")
    { id := "n", inResponseTo := "lr1", destination := "https://sp/slo1", issueInstant := "", status := statusSuccess, issuer := "idp" } := by decide
example : logout ora0 (in0 "t200") = .reply .xmlBody
    { id := "n", inResponseTo := "lr1", destination := "", issueInstant := "", status := statusRequestDenied, issuer := "idp" } := by decide

end C13
