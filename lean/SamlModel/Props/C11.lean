import SamlModel.Lemmas.Builders
import SamlModel.Model.Metadata
import SamlModel.Props.FnLemmas
import SamlModel.Props.SsoLemmas
set_option linter.unusedSimpArgs false
set_option linter.unusedVariables false
/-!
  C11 — Published metadata matches what the IdP actually does.
-/
namespace C11
open Go Gen Metadata Consts

theorem relative_eq (o : Ora) (p : String) : relativeEndpoint o p = .ok ("/" ++ Lib.trimPrefix p "/") := by
  simp [relativeEndpoint, relativeEndpoint.body, Ctl.toRes]

theorem absolute_eq (o : Ora) (host p : String) :
    absoluteEndpoint o host p = .ok (Lib.trimSuffix host "/" ++ ("/" ++ Lib.trimPrefix p "/")) := by
  simp [absoluteEndpoint, absoluteEndpoint.body, relative_eq, Res.isPanic, Res.get, Ctl.toRes]

theorem rel_eq (o : Ora) (e : provider_Endpoint) : rel o e = "/" ++ Lib.trimPrefix e.path "/" := by
  simp [rel, Endpoint_Relative, Endpoint_Relative.body, relative_eq, Res.isPanic, Res.get, Ctl.toRes]

theorem abs_eq (o : Ora) (e : provider_Endpoint) (issuer : String) :
    abs o e issuer = if e.url ≠ "" then e.url else Lib.trimSuffix issuer "/" ++ ("/" ++ Lib.trimPrefix e.path "/") := by
  unfold abs Endpoint_Absolute Endpoint_Absolute.body
  by_cases h : e.url = "" <;> simp [h, absolute_eq, Res.isPanic, Res.get, Ctl.toRes]

/-- **C11 (locations).** For an endpoint configured by path, the advertised location is the issuer (without
    trailing slash) followed by exactly the route this provider registers for that handler. -/
theorem C11_location_is_issuer_plus_route (o : Ora) (e : provider_Endpoint) (issuer : String) (h : e.url = "") :
    abs o e issuer = Lib.trimSuffix issuer "/" ++ rel o e := by
  rw [abs_eq, rel_eq]; simp [h]

/-- the document the metadata handler serves, whenever it serves one -/
def docOf (o : Ora) (c : Cfg) (i : In) (cert : Lib.Bytes) : Doc :=
  { entityID := entityID o c i.issuer, wantAuthnRequestsSigned := c.wantSigned,
    ssoLocations := [(redirectBinding, abs o c.endpoints.singleSignOn i.issuer), (postBinding, abs o c.endpoints.singleSignOn i.issuer)],
    sloLocations := [(redirectBinding, abs o c.endpoints.singleLogout i.issuer), (postBinding, abs o c.endpoints.singleLogout i.issuer)],
    attributeLocations := [(soapBinding, abs o c.endpoints.attributeEp i.issuer)],
    keyDescriptors := [("signing", cert)] ++ (if c.encryptionAlgorithm != "" then [("encryption", cert)] else []),
    signed := c.signMetadata }

theorem metadata_doc (o : Ora) (c : Cfg) (i : In) (d : Doc) (h : metadata o c i = .doc d) :
    ∃ cert key, getResponseCert o () = .ok (cert, key, none) ∧ d = docOf o c i cert ∧
      (c.signMetadata = true → i.metaKeyOk = true ∧ i.signOk = true) := by
  unfold metadata at h
  cases hk : getResponseCert o () with
  | panic => simp [hk] at h
  | ok r =>
    obtain ⟨cert, key, kerr⟩ := r
    cases kerr with
    | some e => simp [hk] at h
    | none =>
      simp only [hk] at h
      cases hs : c.signMetadata with
      | false =>
        simp [hs] at h
        subst h
        exact ⟨cert, key, rfl, by simp [docOf, hs], by simp⟩
      | true =>
        cases hm : i.metaKeyOk <;> cases hg : i.signOk <;> simp [hs, hm, hg] at h
        subst h
        exact ⟨cert, key, rfl, by simp [docOf, hs], by simp⟩

/-- the advertised SSO / SLO / attribute-service / entity-ID URLs of the metadata document -/
theorem C11_metadata_locations (o : Ora) (c : Cfg) (i : In) (d : Doc) (h : metadata o c i = .doc d) :
    d.entityID = abs o c.endpoints.metadataEp i.issuer ∧
    d.ssoLocations = [(redirectBinding, abs o c.endpoints.singleSignOn i.issuer), (postBinding, abs o c.endpoints.singleSignOn i.issuer)] ∧
    d.sloLocations = [(redirectBinding, abs o c.endpoints.singleLogout i.issuer), (postBinding, abs o c.endpoints.singleLogout i.issuer)] ∧
    d.attributeLocations = [(soapBinding, abs o c.endpoints.attributeEp i.issuer)] ∧
    d.wantAuthnRequestsSigned = c.wantSigned := by
  obtain ⟨cert, key, _, hd, _⟩ := metadata_doc o c i d h
  subst hd
  simp [docOf, entityID]

/-- each advertised path-configured location is served by the corresponding handler, provided the configured
    routes are pairwise distinct and differ from the two probe routes (the stated precondition: mux takes the first match) -/
def routesDistinct (o : Ora) (c : Cfg) : Prop := ((routes o c).map (·.1)).Nodup

theorem handlerOf_of_mem (rs : List (String × Handler)) (hnd : (rs.map (·.1)).Nodup) (k : String) (h : Handler)
    (hm : (k, h) ∈ rs) : handlerOf rs k = some h := by
  induction rs with
  | nil => cases hm
  | cons r rs ih =>
    simp only [List.map_cons, List.nodup_cons] at hnd
    unfold handlerOf
    by_cases hk : r.1 = k
    · rcases List.mem_cons.mp hm with heq | hin
      · subst heq; simp [List.find?]
      · exact absurd (List.mem_map.mpr ⟨(k, h), hin, rfl⟩) (hk ▸ hnd.1)
    · have hk' : (r.1 == k) = false := by simpa using hk
      rcases List.mem_cons.mp hm with heq | hin
      · subst heq; simp at hk
      · simp only [List.find?, hk']
        exact ih hnd.2 hin

theorem C11_routes_serve (o : Ora) (c : Cfg) (hd : routesDistinct o c) :
    handlerOf (routes o c) (rel o c.endpoints.singleSignOn) = some .sso ∧
    handlerOf (routes o c) (rel o c.endpoints.singleLogout) = some .slo ∧
    handlerOf (routes o c) (rel o c.endpoints.attributeEp) = some .attributeQuery ∧
    handlerOf (routes o c) (rel o c.endpoints.certificate) = some .certificate ∧
    handlerOf (routes o c) (rel o c.endpoints.callback) = some .callback ∧
    handlerOf (routes o c) (rel o c.endpoints.metadataEp) = some .metadata := by
  refine ⟨?_, ?_, ?_, ?_, ?_, ?_⟩ <;> exact handlerOf_of_mem _ hd _ _ (by simp [routes])

/-- the default configuration satisfies the precondition -/
example (o : Ora) : routesDistinct o {} := by
  simp [routesDistinct, routes, rel_eq, Lib.trimPrefix]

/-- **C11 (one certificate).** The signing KeyDescriptor of the metadata, the certificate endpoint and the key the
    responses are signed with all come from the same `getResponseCert` call result. -/
theorem C11_one_certificate (o : Ora) (c : Cfg) (i : In) (d : Doc) (h : metadata o c i = .doc d) :
    ∃ cert key, getResponseCert o () = .ok (cert, key, none) ∧ ("signing", cert) ∈ d.keyDescriptors ∧
      certificate o = .pem cert ∧ (∀ kd ∈ d.keyDescriptors, kd.2 = cert) := by
  obtain ⟨cert, key, hk, hd, _⟩ := metadata_doc o c i d h
  subst hd
  refine ⟨cert, key, hk, by simp [docOf], by unfold certificate; simp [hk], ?_⟩
  intro kd hkd
  by_cases he : (c.encryptionAlgorithm != "") = true <;> simp [docOf, he] at hkd
  · rcases hkd with rfl | rfl <;> rfl
  · subst hkd; rfl

/-- signed metadata is served only when signing is configured and key retrieval and signing succeeded -/
theorem C11_signed_iff_configured (o : Ora) (c : Cfg) (i : In) (d : Doc) (h : metadata o c i = .doc d) :
    d.signed = c.signMetadata ∧ (d.signed = true → i.metaKeyOk = true ∧ i.signOk = true) := by
  obtain ⟨cert, key, _, hd, hs⟩ := metadata_doc o c i d h
  subst hd
  exact ⟨rfl, hs⟩

/-- **C11 (WantAuthnRequestsSigned).** If the advertised flag is an xs:boolean true ("true" or "1"), an SSO request
    without any signature is refused — for either binding.  (`hunsigned`: the XML-DSig validator, an oracle, does not
    accept the document that carries no signature — goxmldsig's behaviour, sampled by the harness.) -/
theorem C11_want_signed_means_refused (o : Ora) (i : Sso.In) (idp : md_IDPSSODescriptorType) (form : Sso.Form) (req : samlp_AuthnRequestType)
    (hidp : i.idpMeta = some idp) (hw : FnLemmas.xsTrue idp.WantAuthnRequestsSigned = true)
    (hf : i.form = some form) (hd : i.decoded = some req)
    (hb : form.Binding = redirectBinding ∨ form.Binding = postBinding)
    (hnosig : form.Sig = "")
    (hunsigned : ∀ sp data, Lib.b64decode form.AuthRequest = some data → o.m_ValidatePostSignature sp (Lib.bytesToString data) ≠ none) :
    ∀ id, (Sso.sso o i).out ≠ .login id := by
  intro id hl
  obtain ⟨form', req', iss, sp, acsList, sel, a⟩ := Sso.accepted_of_login o i id hl
  have h1 := a.hform; rw [hf] at h1; cases h1
  have h2 := a.hdec; rw [hd] at h2; cases h2
  rcases hb with hb | hb
  · have hnec : signatureRedirectVerificationNecessary o i.idpMeta sp.Metadata form.Sig form.Binding = .ok true := by
      rw [FnLemmas.sigRedirNec_eq]; simp [hidp, FnLemmas.idpRequires, hw, hb]
    have h7 := a.h7
    rw [hnec] at h7
    simp only [Sso.condStep, if_true] at h7
    have := (FnLemmas.verifyRedirect_ok _ _ _ _ _ _).mp h7
    exact this.2.1 hnosig
  · have hnec : signaturePostVerificationNecessary o i.idpMeta sp.Metadata req.Signature form.Binding = .ok true := by
      rw [FnLemmas.sigPostNec_eq]; simp [hidp, FnLemmas.idpRequires, hw, hb]
    have h8 := a.h8
    rw [hnec] at h8
    simp only [Sso.condStep, if_true] at h8
    obtain ⟨data, hdat, hv⟩ := (FnLemmas.verifyPost_ok _ _ _).mp h8
    exact hunsigned _ _ hdat hv

/-- the flag is advertised verbatim: what `getMetadata` publishes is what the verification predicates read -/
theorem C11_flag_verbatim (o : Ora) (c : Cfg) (i : In) (d : Doc) (h : metadata o c i = .doc d) :
    FnLemmas.xsTrue d.wantAuthnRequestsSigned = FnLemmas.xsTrue c.wantSigned := by
  rw [(C11_metadata_locations o c i d h).2.2.2.2]

/-- **endpoint defaults are the generated ones**: `endpointConfigToEndpoints` as regenerated from identityprovider.go
    never panics; without configuration it yields the default paths the metadata model's `Endpoints` carries, and a
    configured endpoint replaces exactly its own default -/
theorem C11_endpoint_defaults (o : Ora) :
    Gen.endpointConfigToEndpoints o none = .ok (some {
      certificateEndpoint := (default : Metadata.Endpoints).certificate, callbackEndpoint := (default : Metadata.Endpoints).callback,
      singleSignOnEndpoint := (default : Metadata.Endpoints).singleSignOn, singleLogoutEndpoint := (default : Metadata.Endpoints).singleLogout,
      attributeEndpoint := (default : Metadata.Endpoints).attributeEp }) ∧
    ∀ c : Gen.provider_EndpointConfig, ∃ e, Gen.endpointConfigToEndpoints o (some c) = .ok (some e) ∧
      e.singleSignOnEndpoint = c.SingleSignOn.getD { path := "SSO" } ∧ e.singleLogoutEndpoint = c.SingleLogOut.getD { path := "SLO" } ∧
      e.attributeEndpoint = c.Attribute.getD { path := "attribute" } ∧ e.certificateEndpoint = c.Certificate.getD { path := "certificate" } ∧
      e.callbackEndpoint = c.Callback.getD { path := "login" } := by
  constructor
  · rw [Builders.endpointConfigToEndpoints_eq]; rfl
  · intro c
    exact ⟨_, Builders.endpointConfigToEndpoints_eq o (some c), by simp, by simp, by simp, by simp, by simp⟩

theorem C11_source_current :
    FactsUtil.sameHashes ["provider.IdentityProvider.GetRoutes",
      "provider.CreateRouter", "provider.NewProvider", "provider.NewIdentityProvider",
      "provider.intercept", "provider.IssuerInterceptor.setIssuerCtx"] = true := by decide

end C11
