import SamlModel.Props.MetadataGen
set_option linter.unusedSimpArgs false
set_option linter.unusedVariables false
/-!
  C09 on the regenerated metadata handler: `Provider.metadataHandle` terminates with a regular HTTP response for every
  answer of its environment, given what construction establishes (`NewProvider` dereferences `conf.IDPConfig`, so a
  provider that serves requests has one) and the contract of `IdentityProvider.GetMetadata` (no error => both
  descriptors; it is translated standalone, MetadataGen.getMetadata_spec).
-/
namespace C09
open Go Gen Consts MetadataGen

variable (o : Ora) (st : Unit) (c : provider_Config) (idp : Option provider_IdentityProvider)

/-- `IdentityProvider.GetMetadata` hands back both descriptors whenever it reports no error -/
def DescriptorsOK : Prop :=
  (o.m_GetMetadata idp).2.2 = none → (o.m_GetMetadata idp).1.isSome ∧ (o.m_GetMetadata idp).2.1.isSome

/-- `Config.getMetadata` as regenerated: no panic, and an entity descriptor whenever no error -/
theorem config_getMetadata_total (hc : c.IDPConfig.isSome) (hd : DescriptorsOK o idp) :
    ∃ md e, Config_getMetadata o (some c) idp = .ok (md, e) ∧ (e = none → md.isSome) := by
  unfold DescriptorsOK at hd
  unfold Config_getMetadata Config_getMetadata.body
  rcases hm : o.m_GetMetadata idp with ⟨d1, d2, e⟩
  rw [hm] at hd
  cases e with
  | some e =>
    refine ⟨none, some e, ?_, by simp⟩
    simp [hm, hc, deref, Ctl.toRes]
  | none =>
    obtain ⟨h1, h2⟩ := hd rfl
    simp only at h1 h2
    cases d1 with
    | none => simp at h1
    | some d1 =>
      cases d2 with
      | none => simp at h2
      | some d2 =>
        cases ho : c.Organisation <;> cases hp : c.ContactPerson <;>
          simp [hm, hc, deref, Ctl.toRes, ho, hp] <;> exact ⟨_, _, ⟨rfl, rfl⟩, fun _ => rfl⟩

/-- **C09 on the regenerated metadata handler**: it never panics - every run ends in HTTP 500 or a written document -/
theorem C09_generated_metadata_handler (hc : c.IDPConfig.isSome) (hd : DescriptorsOK o idp) :
    Provider_metadataHandle o (prov st c idp) ≠ .panic := by
  rw [metadataHandle_spec]
  obtain ⟨md, e, hcm, hmd⟩ := config_getMetadata_total o c idp hc hd
  rw [hcm]
  cases e with
  | some e => simp
  | none =>
    obtain ⟨m, rfl⟩ := Option.isSome_iff_exists.mp (hmd rfl)
    simp only
    by_cases hs : signing c = true
    · rw [if_pos hs, getMetadataCert_eq]
      rcases hk : o.m_GetMetadataSigningKey with ⟨ck, ke⟩
      cases ke with
      | some ke => simp
      | none =>
        cases ck with
        | none => simp
        | some ck =>
          by_cases hkk : (ck.Key.isNone || ck.Certificate.isEmpty) = true
          · simp [hkk]
          · simp only [hkk]
            rcases hsg : o.f_GetSigner ck.Certificate ck.Key (alg c) with ⟨signer, se⟩
            cases se with
            | some se => simp [hsg]
            | none =>
              rcases hcr : o.f_Create_EntityDescriptorType signer (some m) with ⟨sig, ce⟩
              cases ce <;> simp [hsg, hcr]
    · rw [if_neg hs]; simp

/-- the oracle `Config.getMetadata` consults is the regenerated `IdentityProvider.GetMetadata` -/
def GetMetadataIsGenerated (o : Ora) (idp : Option provider_IdentityProvider) : Prop :=
  IdentityProvider_GetMetadata o idp = .ok (o.m_GetMetadata idp)

/-- ... then `DescriptorsOK` is a theorem about the library, for an identity provider as `NewIdentityProvider` builds it
    (configuration, metadata options and metadata endpoint present) -/
theorem descriptorsOK_of_generated (o : Ora) (idpv : provider_IdentityProvider) (c : provider_IdentityProviderConfig)
    (mc : provider_MetadataIDPConfig) (mep : provider_Endpoint) (hc : idpv.conf = some c) (hmc : c.MetadataIDPConfig = some mc)
    (hme : idpv.metadataEndpoint = some mep) (hlink : GetMetadataIsGenerated o (some idpv)) :
    DescriptorsOK o (some idpv) := by
  intro hnone
  have h := MetadataGen.C11_generated_metadata o idpv c mc mep hc hmc hme
  unfold GetMetadataIsGenerated at hlink
  cases hr : getResponseCert o idpv.storage with
  | panic => rw [hr] at h; simp only at h; rw [h] at hlink; cases hlink
  | ok t =>
    obtain ⟨cert, key, e⟩ := t
    rw [hr] at h
    cases e with
    | some e =>
      simp only at h
      rw [h] at hlink
      injection hlink with hl
      rw [← hl] at hnone
      simp at hnone
    | none =>
      simp only at h
      obtain ⟨md, aa, hg, _⟩ := h
      rw [hg] at hlink
      injection hlink with hl
      rw [← hl]
      simp

end C09
