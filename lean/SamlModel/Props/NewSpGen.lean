import SamlModel.Generated.Funcs
import SamlModel.Props.C09
set_option linter.unusedSimpArgs false
set_option linter.unusedVariables false
/-!
  Props.NewSpGen — `serviceprovider.NewServiceProvider` and `getSigningCertsFromMetadata` are *translated* (standalone;
  `xml.ParseMetadataXmlIntoStruct` and `signature.ParseCertificates` are typed oracles, `xml.GetCertsFromKeyDescriptors` is
  the generated function).

  * `newServiceProvider_wf`: a service provider the regenerated constructor hands out carries its metadata, and the
    metadata has an SPSSODescriptor - the well-formedness (`SpWF`) the handler theorems assume of registered service
    providers is what the SP-registration API guarantees.
  * `newServiceProvider_no_panic` (C09, SP-registration API): for every metadata document and every answer of the two
    parsers that honours their contract (no error => a document; no nil certificate among the parsed ones), the
    constructor returns - an error or a service provider - and does not panic.
-/
namespace NewSpGen
open Go Gen FnLemmas

theorem newServiceProvider_wf (o : Ora) (id : String) (cfg : serviceprovider_Config) (sp : serviceprovider_ServiceProvider)
    (e : Err) (h : NewServiceProvider o id (some cfg) = .ok (some sp, e)) :
    e = none ∧ sp.ID = id ∧ ∃ m d, sp.Metadata = some m ∧ m.SPSSODescriptor = some d := by
  unfold NewServiceProvider NewServiceProvider.body at h
  rcases hp : o.f_ParseMetadataXmlIntoStruct cfg.Metadata with ⟨md, perr⟩
  cases perr with
  | some x => simp [hp, deref, Ctl.toRes] at h
  | none =>
    cases md with
    | none => simp [hp, deref, Ctl.toRes] at h
    | some m =>
      cases hd : m.SPSSODescriptor with
      | none => simp [hp, deref, Ctl.toRes, hd] at h
      | some d =>
        cases hg : getSigningCertsFromMetadata o (some m) with
        | panic => simp [hp, deref, Ctl.toRes, hd, hg, Res.isPanic] at h
        | ok t =>
          obtain ⟨certs, cerr⟩ := t
          cases cerr with
          | some x => simp [hp, deref, Ctl.toRes, hd, hg, Res.isPanic, Res.get] at h
          | none =>
            match certs, hg with
            | [], hg =>
              simp [hp, deref, Ctl.toRes, hd, hg, Res.isPanic, Res.get] at h
              obtain ⟨hs, he⟩ := h
              subst hs he
              exact ⟨rfl, rfl, m, d, rfl, hd⟩
            | [none], hg => simp [hp, deref, Ctl.toRes, hd, hg, Res.isPanic, Res.get] at h
            | [some cv], hg =>
              simp [hp, deref, Ctl.toRes, hd, hg, Res.isPanic, Res.get] at h
              obtain ⟨hs, he⟩ := h
              subst hs he
              exact ⟨rfl, rfl, m, d, rfl, hd⟩
            | _ :: _ :: rest, hg =>
              have : ((List.length rest : Int) + 1 + 1 > 1) := by omega
              simp [hp, deref, Ctl.toRes, hd, hg, Res.isPanic, Res.get, this] at h

/-- contract of the two parsers -/
def ParsersOK (o : Ora) : Prop :=
  (∀ b, (o.f_ParseMetadataXmlIntoStruct b).2 = none → (o.f_ParseMetadataXmlIntoStruct b).1.isSome) ∧
  (∀ l, ∀ c ∈ (o.f_ParseCertificates l).1, c.isSome)

theorem newServiceProvider_no_panic (o : Ora) (hp : ParsersOK o) (id : String) (cfg : serviceprovider_Config) :
    NewServiceProvider o id (some cfg) ≠ .panic := by
  unfold NewServiceProvider NewServiceProvider.body
  rcases hpm : o.f_ParseMetadataXmlIntoStruct cfg.Metadata with ⟨md, perr⟩
  cases perr with
  | some x => simp [hpm, deref, Ctl.toRes]
  | none =>
    have hsome := hp.1 cfg.Metadata (by rw [hpm])
    rw [hpm] at hsome
    obtain ⟨m, rfl⟩ := Option.isSome_iff_exists.mp hsome
    cases hd : m.SPSSODescriptor with
    | none => simp [hpm, deref, Ctl.toRes, hd]
    | some d =>
      have hk := C09.getCerts_noPanic o d.KeyDescriptor
      cases hkd : GetCertsFromKeyDescriptors o d.KeyDescriptor with
      | panic => exact absurd hkd hk
      | ok ks =>
        have hg : getSigningCertsFromMetadata o (some m) = .ok (o.f_ParseCertificates ks) := by
          simp [getSigningCertsFromMetadata, getSigningCertsFromMetadata.body, deref, hd, hkd, Res.isPanic, Res.get, Ctl.toRes]
        rcases hpc : o.f_ParseCertificates ks with ⟨certs, cerr⟩
        have hall := hp.2 ks
        rw [hpc] at hall hg
        cases cerr with
        | some x => simp [hpm, deref, Ctl.toRes, hd, hg, Res.isPanic, Res.get]
        | none =>
          match certs, hall, hg with
          | [], _, hg => simp [hpm, deref, Ctl.toRes, hd, hg, Res.isPanic, Res.get]
          | [c], hall, hg =>
            have hc := hall c (by simp)
            obtain ⟨cv, rfl⟩ := Option.isSome_iff_exists.mp hc
            simp [hpm, deref, Ctl.toRes, hd, hg, Res.isPanic, Res.get]
          | _ :: _ :: rest, _, hg =>
            have : ((List.length rest : Int) + 1 + 1 > 1) := by omega
            simp [hpm, deref, Ctl.toRes, hd, hg, Res.isPanic, Res.get, this]

end NewSpGen
