import SamlModel.Lib.Url
import SamlModel.Props.SsoLemmas
import SamlModel.Props.C16
import SamlModel.Props.C03
import SamlModel.Props.C13
set_option linter.unusedSimpArgs false
set_option linter.unusedVariables false
/-!
  C02 — SAML responses are only ever delivered to registered endpoints.
  Delivery targets in the three handler models are always read from registered metadata (SSO, logout) or
  from the stored request (callback); the pair persisted by the SSO endpoint is one registered
  AssertionConsumerService entry (C16 on the generated selection function).
-/
namespace C02
open Go Gen Consts

/-- the registered AssertionConsumerService entries of a service provider -/
def registeredAcs (sp : serviceprovider_ServiceProvider) : List md_IndexedEndpointType := (Sso.spAcs sp).getD []

/-- **C02 (SSO, persistence).** The (URL, binding) pair persisted for an accepted request is one of the
    AssertionConsumerService entries registered for the service provider named by the request's issuer. -/
theorem C02_sso_persists_registered_pair (o : Ora) (i : Sso.In) (id : String) (h : (Sso.sso o i).out = .login id) :
    ∃ sp e p, i.sp = some sp ∧ e ∈ registeredAcs sp ∧ (Sso.sso o i).persist = some p ∧
      p.acs = e.Location ∧ p.binding = e.Binding := by
  obtain ⟨form, req, iss, sp, acsList, sel, a⟩ := Sso.accepted_of_login o i id h
  rcases C16.C16_from_one_entry o acsList req.ProtocolBinding with ⟨_, hsel⟩ | ⟨e, he, hsel⟩
  · unfold C16.select at hsel
    rw [a.hsel] at hsel
    cases hsel
    exact absurd rfl a.h11
  · unfold C16.select at hsel
    rw [a.hsel] at hsel
    cases hsel
    refine ⟨sp, e, _, a.hsp, ?_, a.hpersist, rfl, rfl⟩
    simp [registeredAcs, a.hacs, he]

/-! failed replies of the SSO endpoint: the delivery parameters are empty (reply in the HTTP body) until the
    selection step, and the selected registered pair afterwards -/

private theorem failed_afterSel (o : Ora) (i : Sso.In) (form : Sso.Form) (req : samlp_AuthnRequestType) (sp : serviceprovider_ServiceProvider)
    (acs binding : String) (n : Nat) (st a b r irt : String)
    (h : (Sso.ssoAfterSel o i form req sp acs binding).out = .failed n st a b r irt) : a = acs ∧ b = binding := by
  unfold Sso.ssoAfterSel Sso.bindR at h
  dsimp only at h
  split at h
  · simp at h; exact ⟨by first | exact h.2.2.1 | exact h.2.2.1.symm, by first | exact h.2.2.2.1 | exact h.2.2.2.1.symm⟩
  split at h
  · simp at h; exact ⟨by first | exact h.2.2.1 | exact h.2.2.1.symm, by first | exact h.2.2.2.1 | exact h.2.2.2.1.symm⟩
  split at h
  · simp at h; exact ⟨by first | exact h.2.2.1 | exact h.2.2.1.symm, by first | exact h.2.2.2.1 | exact h.2.2.2.1.symm⟩
  split at h
  · simp at h
  split at h
  · simp at h; exact ⟨by first | exact h.2.2.1 | exact h.2.2.1.symm, by first | exact h.2.2.2.1 | exact h.2.2.2.1.symm⟩
  split at h
  · simp at h; exact ⟨by first | exact h.2.2.1 | exact h.2.2.1.symm, by first | exact h.2.2.2.1 | exact h.2.2.2.1.symm⟩
  · simp at h

private theorem failed_afterSp (o : Ora) (i : Sso.In) (form : Sso.Form) (req : samlp_AuthnRequestType) (sp : serviceprovider_ServiceProvider)
    (n : Nat) (st a b r irt : String) (h : (Sso.ssoAfterSp o i form req sp).out = .failed n st a b r irt) :
    (a = "" ∧ b = "") ∨ ∃ e, e ∈ registeredAcs sp ∧ a = e.Location ∧ b = e.Binding := by
  unfold Sso.ssoAfterSp Sso.bindR at h
  dsimp only at h
  split at h
  · simp at h
  split at h
  · simp at h; exact Or.inl ⟨by first | exact h.2.2.1 | exact h.2.2.1.symm, by first | exact h.2.2.2.1 | exact h.2.2.2.1.symm⟩
  split at h
  · simp at h
  split at h
  · simp at h; exact Or.inl ⟨by first | exact h.2.2.1 | exact h.2.2.1.symm, by first | exact h.2.2.2.1 | exact h.2.2.2.1.symm⟩
  split at h
  · simp at h
  split at h
  · simp at h; exact Or.inl ⟨by first | exact h.2.2.1 | exact h.2.2.1.symm, by first | exact h.2.2.2.1 | exact h.2.2.2.1.symm⟩
  split at h
  · simp at h
  split at h
  · simp at h; exact Or.inl ⟨by first | exact h.2.2.1 | exact h.2.2.1.symm, by first | exact h.2.2.2.1 | exact h.2.2.2.1.symm⟩
  split at h
  · simp at h
  rename_i acsList hacs
  split at h
  · simp at h
  rename_i sel hsel
  obtain ⟨ha, hb⟩ := failed_afterSel o i form req sp sel.1 sel.2 n st a b r irt h
  rcases C16.C16_from_one_entry o acsList req.ProtocolBinding with ⟨_, hs⟩ | ⟨e, he, hs⟩
  · unfold C16.select at hs; rw [hsel] at hs; cases hs
    exact Or.inl ⟨ha, hb⟩
  · unfold C16.select at hs; rw [hsel] at hs; cases hs
    exact Or.inr ⟨e, by simp [registeredAcs, hacs, he], ha, hb⟩

/-- **C02 (SSO, error replies).** A failed Response of the SSO endpoint is returned in the HTTP body (no target)
    or addressed to a registered AssertionConsumerService entry of the issuer's service provider — never to a
    URL taken from the request. -/
theorem C02_sso_error_targets (o : Ora) (i : Sso.In) (n : Nat) (st a b r irt : String)
    (h : (Sso.sso o i).out = .failed n st a b r irt) :
    (a = "" ∧ b = "") ∨ ∃ sp e, i.sp = some sp ∧ e ∈ registeredAcs sp ∧ a = e.Location ∧ b = e.Binding := by
  unfold Sso.sso at h
  split at h
  · simp at h
  split at h
  · simp at h; exact Or.inl ⟨by first | exact h.2.2.1 | exact h.2.2.1.symm, by first | exact h.2.2.2.1 | exact h.2.2.2.1.symm⟩
  unfold Sso.ssoAfterForm at h
  split at h
  · simp at h; exact Or.inl ⟨by first | exact h.2.2.1 | exact h.2.2.1.symm, by first | exact h.2.2.2.1 | exact h.2.2.2.1.symm⟩
  split at h
  · simp at h; exact Or.inl ⟨by first | exact h.2.2.1 | exact h.2.2.1.symm, by first | exact h.2.2.2.1 | exact h.2.2.2.1.symm⟩
  split at h
  · simp at h; exact Or.inl ⟨by first | exact h.2.2.1 | exact h.2.2.1.symm, by first | exact h.2.2.2.1 | exact h.2.2.2.1.symm⟩
  split at h
  · simp at h; exact Or.inl ⟨by first | exact h.2.2.1 | exact h.2.2.1.symm, by first | exact h.2.2.2.1 | exact h.2.2.2.1.symm⟩
  split at h
  · simp at h; exact Or.inl ⟨by first | exact h.2.2.1 | exact h.2.2.1.symm, by first | exact h.2.2.2.1 | exact h.2.2.2.1.symm⟩
  rename_i sp hsp
  rcases failed_afterSp o i _ _ sp n st a b r irt h with h1 | ⟨e, he, h1, h2⟩
  · exact Or.inl h1
  · exact Or.inr ⟨sp, e, hsp, he, h1, h2⟩

/-- **C02 (callback).** Whatever the callback answers, it is delivered with the (URL, binding, RelayState)
    persisted for the request — or written into the HTTP body when no stored request was found. -/
theorem C02_callback_uses_stored_pair (o : Ora) (i : Callback.In) (d : Callback.Delivery) (m : Callback.Msg) (s : Callback.Sig)
    (h : Callback.callback o i = .reply d m s) :
    (i.stored = none ∧ d = .xmlBody) ∨ ∃ rec, i.stored = some rec ∧ d = Callback.deliver rec.acs rec.binding rec.relay ∧ m.destination = rec.acs := by
  unfold Callback.callback at h
  split at h
  · simp at h
  split at h
  · simp at h
  split at h
  · rename_i hrec; simp at h; exact Or.inl ⟨hrec, h.1.symm⟩
  rename_i rec hrec
  split at h
  · simp at h
  dsimp only at h
  split at h
  · simp [Callback.failedMsg, Callback.mkResponse] at h; obtain ⟨h1, h2, _⟩ := h; subst h2; exact Or.inr ⟨rec, hrec, h1.symm, rfl⟩
  split at h
  · simp [Callback.failedMsg, Callback.mkResponse] at h; obtain ⟨h1, h2, _⟩ := h; subst h2; exact Or.inr ⟨rec, hrec, h1.symm, rfl⟩
  split at h
  · simp at h
  split at h
  · simp [Callback.failedMsg, Callback.mkResponse] at h; obtain ⟨h1, h2, _⟩ := h; subst h2; exact Or.inr ⟨rec, hrec, h1.symm, rfl⟩
  split at h
  · split at h
    · simp [Callback.mkResponse] at h; obtain ⟨h1, h2, _⟩ := h; subst h2; exact Or.inr ⟨rec, hrec, h1.symm, rfl⟩
    · simp [Callback.mkResponse] at h; obtain ⟨h1, h2, _⟩ := h; subst h2; exact Or.inr ⟨rec, hrec, h1.symm, rfl⟩
  · simp at h

/-- the delivery function only ever yields its own arguments as target -/
theorem C02_deliver_target (acs binding relay : String) :
    Callback.deliver acs binding relay = .xmlBody ∨ Callback.deliver acs binding relay = .postForm acs relay ∨
    Callback.deliver acs binding relay = .redirect acs relay := by
  unfold Callback.deliver
  split
  · exact Or.inl rfl
  split
  · exact Or.inr (Or.inl rfl)
  split
  · exact Or.inr (Or.inr rfl)
  · exact Or.inl rfl

/-- **C02 (logout).** (restating C13_delivery) a LogoutResponse is posted only to the first registered
    SingleLogoutService location of the issuer's service provider -/
theorem C02_logout_target (o : Ora) (i : Logout.In) (action relay : String) (m : Logout.Msg)
    (h : Logout.logout o i = .reply (.postForm action relay) m) :
    ∃ form sp md dsc, i.form = some form ∧ i.sp = some sp ∧ sp.Metadata = some md ∧ md.SPSSODescriptor = some dsc ∧
      action = Logout.firstSlo dsc ∧ relay = form.RelayState := by
  have hd := C13.C13_delivery o i _ m h
  by_cases hs : m.status = statusSuccess
  · obtain ⟨form, sp, md, dsc, hf, hsp, hm, hdsc, _, hcase⟩ := hd.2 hs
    rcases hcase with ⟨_, hx⟩ | ⟨_, hx⟩
    · cases hx
    · cases hx; exact ⟨form, sp, md, dsc, hf, hsp, hm, hdsc, rfl, rfl⟩
  · have := (hd.1 hs).1; cases this

/-- the redirect URL `sendBackResponse` builds (Lib.Url.redirectURL: hand model of the fingerprinted lines): the
    consumer URL up to its fragment, then "?" — or "&" when the URL already has a query — then the message
    parameters, then the fragment -/
def redirectURL (acs query : String) : String := String.ofList (Lib.Url.redirectURL acs.toList query.toList)

private theorem mem_takeWhile_sat {α} (p : α → Bool) (l : List α) (x : α) (h : x ∈ l.takeWhile p) : p x = true := by
  induction l with
  | nil => simp at h
  | cons a t ih =>
    by_cases ha : p a = true
    · simp only [List.takeWhile_cons, ha, if_true, List.mem_cons] at h
      rcases h with rfl | h
      · exact ha
      · exact ih h
    · simp [List.takeWhile_cons, ha] at h

private theorem dropWhile_head_unsat {α} (p : α → Bool) (l : List α) (c : α) (cs : List α) (h : l.dropWhile p = c :: cs) : p c = false := by
  induction l with
  | nil => simp at h
  | cons a t ih =>
    by_cases ha : p a = true
    · simp only [List.dropWhile_cons, ha, if_true] at h; exact ih h
    · simp only [List.dropWhile_cons, ha] at h
      simp at h
      rw [← h.1]; simpa using ha

/-- the redirect goes to the stored consumer URL: the URL sent is that URL with the message parameters inserted
    before its fragment (if any), joined with `?` or — when it already has a query — `&` -/
theorem C02_wire_redirect (acs query : String) :
    ∃ target frag sep, (redirectURL acs query).toList = target ++ sep :: query.toList ++ frag ∧ target ++ frag = acs.toList ∧
      '#' ∉ target ∧ (frag = [] ∨ frag.head? = some '#') ∧
      (sep = '?' ∨ sep = '&') ∧ (sep = '&' ↔ '?' ∈ target) := by
  refine ⟨Lib.Url.redirectTarget acs.toList, Lib.Url.redirectFragment acs.toList,
    (if (Lib.Url.redirectTarget acs.toList).contains '?' then '&' else '?'), ?_, ?_, ?_, ?_, ?_, ?_⟩
  · simp [redirectURL, Lib.Url.redirectURL]
  · exact List.takeWhile_append_dropWhile
  · intro hm
    have := mem_takeWhile_sat _ _ _ hm
    simp at this
  · unfold Lib.Url.redirectFragment
    cases h : acs.toList.dropWhile (· != '#') with
    | nil => exact Or.inl rfl
    | cons c cs =>
      right
      have := dropWhile_head_unsat _ _ _ _ h
      simp at this
      simp [this]
  · split <;> simp
  · by_cases h : (Lib.Url.redirectTarget acs.toList).contains '?' = true
    · simp only [h, if_true, true_iff]; simpa using h
    · simp only [h]; simp at h; simp [h]

/-- (the SSO handler, the logout handler and `sendBackLogoutResponse` are no longer fingerprinted: they are translated, `SsoGen.sso_handler_refines`,
    `LogoutGen.logout_handler_refines`, `LogoutGen.sloSendBack_renders`) -/
theorem C02_source_current : True := trivial

end C02
