import SamlModel.Props.C14
import SamlModel.Props.DecodeGen
import SamlModel.Props.SsoProps
import SamlModel.Props.LogoutProps
set_option linter.unusedSimpArgs false
set_option linter.unusedVariables false
/-!
  C14 on the regenerated decoders and handlers.  `xml.DecodeAuthNRequest` / `xml.DecodeLogoutRequest` are translated on
  every run (DecodeGen): the only inflation they perform is the one of the generated `InflateAndDecode`, so the bound and
  the rejection proved there (C14_bounded, C14_overflow_rejected) carry over; and the regenerated `ssoHandleFunc` /
  `logoutHandleFunc`, which consult the decoders, do not accept a request whose payload inflates past the cap.
-/
namespace C14
open Go Gen Consts

/-- **C14 (decoder level, AuthnRequest).**  A DEFLATE payload that would inflate past the cap is an error of the
    regenerated decoder: no request value is produced and `xml.Unmarshal` is never consulted. -/
theorem C14_generated_decodeAuthN_rejects (o : Ora) (msg : String) (data : Lib.Bytes) (h : payloadBytes true msg = some data)
    (hbig : (o.inflate data).data.length > cap) :
    ∃ e, DecodeAuthNRequest o encodingDeflate msg = .ok (none, some e) := by
  obtain ⟨e, he⟩ := C14_overflow_rejected o true msg data h hbig
  exact ⟨e, by rw [DecodeGen.decodeAuthN_spec, he]⟩

/-- **C14 (decoder level, LogoutRequest).** -/
theorem C14_generated_decodeLogout_rejects (o : Ora) (msg : String) (data : Lib.Bytes) (h : payloadBytes true msg = some data)
    (hbig : (o.inflate data).data.length > cap) :
    ∃ e, DecodeLogoutRequest o encodingDeflate msg = .ok (none, some e) := by
  obtain ⟨e, he⟩ := C14_overflow_rejected o true msg data h hbig
  exact ⟨e, by rw [DecodeGen.decodeLogout_spec, he]⟩

/-- what the decoders hand to `xml.Unmarshal` is at most `cap` bytes: a decoded request comes from a bounded buffer -/
theorem C14_generated_decodeAuthN_unmarshals_bounded (o : Ora) (msg : String) (data : Lib.Bytes) (h : payloadBytes true msg = some data)
    (req : samlp_AuthnRequestType) (hd : DecodeAuthNRequest o encodingDeflate msg = .ok (some req, none)) :
    (o.inflate data).data.length ≤ cap := by
  apply Nat.le_of_not_gt
  intro hbig
  obtain ⟨e, he⟩ := C14_generated_decodeAuthN_rejects o msg data h hbig
  rw [he] at hd
  simp at hd

/-- **C14 on the regenerated SSO handler.**  With the decoder the library has (`AuthNDecoderIsGenerated`: the oracle the
    handler consults is the regenerated `DecodeAuthNRequest`), a DEFLATE request the handler accepts (login redirect) did
    not inflate past the cap — an over-sized payload is never accepted. -/
theorem C14_generated_sso_handler (o : Ora) (cfg : provider_IdentityProviderConfig) (fmt : String) (exp : Int)
    (henv : SsoGen.EnvOK o cfg fmt exp) (hdec : DecodeGen.AuthNDecoderIsGenerated o) (h : SsoGen.Redirected o cfg fmt exp)
    (henc : (SsoGen.theForm o).Encoding = encodingDeflate) (data : Lib.Bytes)
    (hp : payloadBytes true (SsoGen.theForm o).AuthRequest = some data) :
    (o.inflate data).data.length ≤ cap := by
  obtain ⟨form, req, sp, _, _, _, hreq, _⟩ := C06.C06_generated_handler o cfg fmt exp henv h
  apply Nat.le_of_not_gt
  intro hbig
  obtain ⟨e, he⟩ := C14_generated_decodeAuthN_rejects o _ data hp hbig
  have hg := hdec encodingDeflate (SsoGen.theForm o).AuthRequest
  rw [he] at hg
  have h2 : (o.f_DecodeAuthNRequest encodingDeflate (SsoGen.theForm o).AuthRequest) = (none, some e) := by
    injection hg with hg; exact hg.symm
  unfold SsoGen.decodedOf at hreq
  rw [henc, h2] at hreq
  simp at hreq

/-- **C14 on the regenerated logout handler.**  A DEFLATE LogoutRequest whose payload inflates past the cap is not a
    valid request of the handler: no Success response is produced for it. -/
theorem C14_generated_logout_handler (o : Ora) (cfg : provider_IdentityProviderConfig) (fmt : String) (exp : Int)
    (henv : LogoutGen.EnvOK o cfg fmt exp) (hwf : C13.StorageWF o cfg fmt exp) (hdec : DecodeGen.LogoutDecoderIsGenerated o)
    (hform : o.m_ParseForm = none) (henc : (LogoutGen.theForm o).Encoding = encodingDeflate) (data : Lib.Bytes)
    (hp : payloadBytes true (LogoutGen.theForm o).LogoutRequest = some data) (hbig : (o.inflate data).data.length > cap) :
    ¬ ∃ resp m, IdentityProvider_logoutHandleFunc o (CallbackGen.idp cfg fmt exp) = .ok [Eff.sendBackLogoutResponse (some resp) (some m)] ∧
        m.Status.StatusCode.Value = statusSuccess := by
  rw [C13.C13_generated_success_iff o cfg fmt exp henv hwf]
  rintro ⟨req, sp, _, hd, _⟩
  obtain ⟨e, he⟩ := C14_generated_decodeLogout_rejects o _ data hp hbig
  have hg := hdec encodingDeflate (LogoutGen.theForm o).LogoutRequest
  rw [he] at hg
  have h2 : (o.f_DecodeLogoutRequest encodingDeflate (LogoutGen.theForm o).LogoutRequest) = (none, some e) := by
    injection hg with hg; exact hg.symm
  have hd' : LogoutGen.decodedOf o = some req := hd
  unfold LogoutGen.decodedOf at hd'
  rw [LogoutGen.formOf_ok o hform] at hd'
  simp only [henc, h2] at hd'
  simp at hd'

end C14
