import SamlModel.Props.C12
import SamlModel.Props.C09
import SamlModel.Props.AttrQueryGen
set_option linter.unusedSimpArgs false
set_option linter.unusedVariables false
/-!
  Props.AttrQueryProps — C12 (and C09) stated on the *regenerated* `attributeQueryHandleFunc`
  (`AttrQueryGen.attrquery_handler_refines` transports the theorems about the attribute-query model to it).
-/
namespace C12
open Go Gen Consts AttrQueryGen CallbackGen AttrQuery FnLemmas

variable (o : Ora) (cfg : provider_IdentityProviderConfig) (fmt : String) (exp : Int)

/-- the model answers with 500 or not at all -/
private theorem model_status (i : In) (c : Nat) (h : attrQuery o i = .httpError c) : c = 500 := by
  unfold attrQuery at h
  repeat' split at h
  all_goals first | (simp at h; omega) | (simp at h) | skip
  all_goals simp_all

/-- a run that starts with the envelope is read as the envelope -/
private theorem outOf_envelope (lk : String) (env : Option soap_ResponseEnvelope) (rest : List Eff) (x : Out)
    (h : outOf lk (.ok (Eff.xmlWriteMarshalled env :: rest)) = some x) : outOfEff lk (Eff.xmlWriteMarshalled env) = x := by
  unfold outOf at h
  split at h
  · rename_i heq; simp at heq
  · rename_i e heq
    simp only [Res.ok.injEq, List.cons.injEq] at heq
    obtain ⟨rfl, _⟩ := heq
    simpa using h
  · rename_i env' _ _ heq
    simp only [Res.ok.injEq, List.cons.injEq] at heq
    obtain ⟨he, _⟩ := heq
    cases he
    simpa using h
  · simp at h

/-- **C12 on the regenerated handler.**  `attributeQueryHandleFunc` as regenerated from attribute_query.go on this run,
    in any environment honouring `EnvOK`: if it writes a SOAP envelope at all, then the request decoded to a query `q`
    with an Issuer the storage knows (`sp`), a signature value it carries verified, its Destination (when present) is an
    advertised attribute-service location, the subject was looked up by its NameID, and the response in the envelope
    echoes the query ID, is issued by the IdP, names the requester as audience, and carries the user's NameID and
    exactly the user's attributes filtered by the requested (Name, NameFormat) pairs - nothing else of the user. -/
theorem C12_generated_handler (henv : EnvOK o cfg fmt exp) (env : Option soap_ResponseEnvelope) (rest : List Eff)
    (ht : IdentityProvider_attributeQueryHandleFunc o (idp cfg fmt exp) = .ok (Eff.xmlWriteMarshalled env :: rest)) :
    ∃ q sp subj attrs m e r, decodedOf o = some (some q) ∧ q.Issuer.isSome ∧ spOf o cfg fmt exp = some sp ∧
      (embProvided q.Signature = true → o.m_ValidateAttributeQuerySignature (some sp) (bodyOf o) = none) ∧
      DestOK (o.m_GetMetadata (idp cfg fmt exp)).2.1 q ∧
      q.Subject.NameID = some subj ∧ userOf o = some attrs ∧ sp.Metadata = some m ∧
      env = some e ∧ e.Body.Response = some r ∧
      answerOf subj.Text r = some (expected q.Id (o.m_GetEntityID (idp cfg fmt exp)) m.EntityID attrs q.Attribute subj.Text) := by
  have h := attrquery_handler_refines o cfg fmt exp henv
  unfold goal H at h
  rw [ht] at h
  -- the envelope is the reply
  have hrep : outOfEff (lookedUpOf o) (Eff.xmlWriteMarshalled env) = attrQuery o (inOfOra o cfg fmt exp) :=
    outOf_envelope _ env rest _ h
  cases env with
  | none => simp only [outOfEff] at hrep; exact absurd (model_status o _ 0 hrep.symm) (by decide)
  | some e =>
  cases hr : e.Body.Response with
  | none => simp only [outOfEff, hr] at hrep; exact absurd (model_status o _ 0 hrep.symm) (by decide)
  | some r =>
  cases ha : answerOf (lookedUpOf o) r with
  | none => simp only [outOfEff, hr, ha] at hrep; exact absurd (model_status o _ 0 hrep.symm) (by decide)
  | some a =>
  simp only [outOfEff, hr, ha] at hrep
  obtain ⟨q, sp, hq, hiss, hsp, hsig, hdest⟩ := C12_guard o _ a hrep.symm
  obtain ⟨q', sp', subj, attrs, m, hq', hsp', hsubj, hui, hm, h1, h2, h3, h4, h5, h6, _⟩ := C12_content o _ a hrep.symm
  have hqq : q' = q := by rw [hq] at hq'; simpa using hq'.symm
  have hss : sp' = sp := by rw [hsp] at hsp'; simpa using hsp'.symm
  subst hqq hss
  have hdq : decodedOf o = some (some q') := hq
  have hlk : lookedUpOf o = subj.Text := by simp [lookedUpOf, queryOf, hdq, hsubj]
  refine ⟨q', sp', subj, attrs, m, e, r, hdq, hiss, hsp, ?_, hdest, hsubj, hui, hm, rfl, hr, ?_⟩
  · intro hp
    have := hsig hp
    have hs2 : spOf o cfg fmt exp = some sp' := hsp
    simpa [inOfOra, hs2] using this
  · rw [← hlk, ha]
    congr 1
    cases a
    simp_all [inOfOra, expected]

end C12

namespace C09
open Go Gen AttrQueryGen CallbackGen

/-- **C09 on the regenerated attribute-query handler**: in any environment honouring `EnvOK` in which the registered
    service provider has metadata and the IdP publishes its attribute-authority descriptor, `attributeQueryHandleFunc`
    as regenerated from attribute_query.go on this run does not panic -/
theorem C09_generated_attrquery_handler (o : Ora) (cfg : provider_IdentityProviderConfig) (fmt : String) (exp : Int)
    (henv : EnvOK o cfg fmt exp)
    (hsp : ∀ sp, spOf o cfg fmt exp = some sp → sp.Metadata.isSome)
    (haa : (o.m_GetMetadata (idp cfg fmt exp)).2.2 = none → (o.m_GetMetadata (idp cfg fmt exp)).2.1.isSome) :
    IdentityProvider_attributeQueryHandleFunc o (idp cfg fmt exp) ≠ .panic := by
  intro hp
  have h := attrquery_handler_refines o cfg fmt exp henv
  unfold goal H at h
  rw [hp] at h
  simp only [outOf, Option.some.injEq] at h
  exact C09_attrquery o (inOfOra o cfg fmt exp) hsp (by
    intro hme
    apply haa
    simp only [inOfOra] at hme
    cases hx : (o.m_GetMetadata (idp cfg fmt exp)).2.2 <;> simp_all) h.symm

end C09
