import SamlModel.Props.SsoLemmas
import SamlModel.Props.FnLemmas
set_option linter.unusedSimpArgs false
set_option linter.unusedVariables false
/-!
  C08 — One SSO request, one outcome; rejected requests leave no trace.
  The `Result` of the SSO model holds at most one reply and at most one persist by construction
  (the correspondence checks that the implementation indeed performs exactly one of each); the theorems
  say which combinations occur.
-/
namespace C08
open Go Gen Sso FnLemmas Consts

/-- the possible outcomes of one SSO request -/
inductive Shape : Result → Prop
  | http : Shape { out := .httpError 500 }
  | panic : Shape { out := .panic }
  | rejected (n : Nat) (st a b r irt : String) : n < 15 → st ≠ statusSuccess → Shape { out := .failed n st a b r irt }
  | persistFailed (a b r irt : String) (p : Persist) : p.ok = false →
      Shape { out := .failed 15 statusResponder a b r irt, persist := some p }
  | login (id : String) (p : Persist) : p.ok = true → Shape { out := .login id, persist := some p }

theorem shape_afterSel (o : Ora) (i : In) (form : Form) (req : samlp_AuthnRequestType) (sp : serviceprovider_ServiceProvider)
    (acs binding : String) : Shape (ssoAfterSel o i form req sp acs binding) := by
  unfold ssoAfterSel bindR
  dsimp only
  split
  · exact Shape.rejected _ _ _ _ _ _ (by decide) (by decide)
  split
  · exact Shape.rejected _ _ _ _ _ _ (by decide) (by decide)
  split
  · exact Shape.rejected _ _ _ _ _ _ (by decide) (by decide)
  split
  · exact Shape.panic
  split
  · exact Shape.rejected _ _ _ _ _ _ (by decide) (by decide)
  split
  · rename_i hc
    exact Shape.persistFailed _ _ _ _ _ (by simpa using hc)
  · rename_i hc
    exact Shape.login _ _ (by simpa using hc)

theorem shape_afterSp (o : Ora) (i : In) (form : Form) (req : samlp_AuthnRequestType) (sp : serviceprovider_ServiceProvider) :
    Shape (ssoAfterSp o i form req sp) := by
  unfold ssoAfterSp bindR
  dsimp only
  split
  · exact Shape.panic
  split
  · exact Shape.rejected _ _ _ _ _ _ (by decide) (by decide)
  split
  · exact Shape.panic
  split
  · exact Shape.rejected _ _ _ _ _ _ (by decide) (by decide)
  split
  · exact Shape.panic
  split
  · exact Shape.rejected _ _ _ _ _ _ (by decide) (by decide)
  split
  · exact Shape.panic
  split
  · exact Shape.rejected _ _ _ _ _ _ (by decide) (by decide)
  split
  · exact Shape.panic
  split
  · exact Shape.panic
  · exact shape_afterSel _ _ _ _ _ _ _

theorem shape_afterForm (o : Ora) (i : In) (form : Form) : Shape (ssoAfterForm o i form) := by
  unfold ssoAfterForm
  split
  · exact Shape.rejected _ _ _ _ _ _ (by decide) (by decide)
  split
  · exact Shape.rejected _ _ _ _ _ _ (by decide) (by decide)
  split
  · exact Shape.rejected _ _ _ _ _ _ (by decide) (by decide)
  split
  · exact Shape.rejected _ _ _ _ _ _ (by decide) (by decide)
  split
  · exact Shape.rejected _ _ _ _ _ _ (by decide) (by decide)
  · exact shape_afterSp _ _ _ _ _

/-- **C08.** Handling one SSO request ends in exactly one of: HTTP error; a single failed Response with a
    non-Success status and *nothing persisted*; a failed Response with status Responder after the one
    persist attempt failed; or the login redirect after exactly one successful persist. -/
theorem C08_one_outcome (o : Ora) (i : In) : Shape (sso o i) := by
  unfold sso
  split
  · exact Shape.http
  split
  · exact Shape.rejected _ _ _ _ _ _ (by decide) (by decide)
  · exact shape_afterForm _ _ _

/-- persisted successfully ⇔ the reply is the login redirect, for the identifier storage returned -/
theorem C08_login_iff_persisted (o : Ora) (i : In) :
    (∃ p, (sso o i).persist = some p ∧ p.ok = true) ↔ (sso o i).out = .login i.createdID := by
  constructor
  · rintro ⟨p, hp, hok⟩
    have hs := C08_one_outcome o i
    generalize hr : sso o i = r at hs hp
    cases hs with
    | http => simp at hp
    | panic => simp at hp
    | rejected => simp at hp
    | persistFailed a b r irt p' hf => simp at hp; subst hp; simp [hf] at hok
    | login id p' hok' =>
      have : (sso o i).out = .login id := by rw [hr]
      obtain ⟨_, _, _, _, _, _, a⟩ := accepted_of_login o i id this
      simp [a.hid]
  · intro h
    obtain ⟨_, _, _, _, _, _, a⟩ := accepted_of_login o i _ h
    exact ⟨_, a.hpersist, rfl⟩

/-- a request that cannot be answered — the selected consumer binding is neither POST nor Redirect — is never persisted -/
theorem C08_unanswerable_not_persisted (o : Ora) (i : In) (p : Persist) (h : (sso o i).persist = some p) :
    p.binding = redirectBinding ∨ p.binding = postBinding := by
  have hs := C08_one_outcome o i
  generalize hr : sso o i = r at hs h
  cases hs with
  | http => simp at h
  | panic => simp at h
  | rejected => simp at h
  | login id p' hok =>
    have : (sso o i).out = .login id := by rw [hr]
    obtain ⟨_, _, _, _, _, sel, a⟩ := accepted_of_login o i id this
    have hp := a.hpersist
    rw [hr] at hp
    simp at h hp
    subst h
    rw [hp]
    exact a.h13
  | persistFailed a b r' irt p' hf =>
    -- the failed persist attempt was made with the same, answerable binding
    simp at h; subst h
    have hfull : sso o i = { out := .failed 15 statusResponder a b r' irt, persist := some p' } := hr
    unfold sso at hfull
    split at hfull
    · simp at hfull
    split at hfull
    · simp at hfull
    rename_i form _
    unfold ssoAfterForm at hfull
    split at hfull
    · simp at hfull
    split at hfull
    · simp at hfull
    split at hfull
    · simp at hfull
    split at hfull
    · simp at hfull
    split at hfull
    · simp at hfull
    unfold ssoAfterSp bindR at hfull
    dsimp only at hfull
    split at hfull
    · simp at hfull
    split at hfull
    · simp at hfull
    split at hfull
    · simp at hfull
    split at hfull
    · simp at hfull
    split at hfull
    · simp at hfull
    split at hfull
    · simp at hfull
    split at hfull
    · simp at hfull
    split at hfull
    · simp at hfull
    split at hfull
    · simp at hfull
    split at hfull
    · simp at hfull
    unfold ssoAfterSel bindR at hfull
    dsimp only at hfull
    split at hfull
    · simp at hfull
    split at hfull
    · simp at hfull
    split at hfull
    · simp at hfull
    rename_i h13
    split at hfull
    · simp at hfull
    split at hfull
    · simp at hfull
    split at hfull
    · simp at hfull
      obtain ⟨_, hp⟩ := hfull
      subst hp
      simp at h13 ⊢
      exact Classical.or_iff_not_imp_left.mpr h13
    · simp at hfull

/-- nothing is persisted before every validation step has passed: a reply produced by steps 1–14 comes with no persist -/
theorem C08_rejected_leaves_no_trace (o : Ora) (i : In) (n : Nat) (st a b r irt : String)
    (h : (sso o i).out = .failed n st a b r irt) (hn : n ≠ 15) : (sso o i).persist = none := by
  have hs := C08_one_outcome o i
  generalize hr : sso o i = res at hs h
  cases hs with
  | http => rfl
  | panic => rfl
  | rejected => rfl
  | persistFailed => simp at h; exact absurd h.1.symm hn
  | login => simp at h

theorem C08_source_current : True ∧ Consts.current = true :=
  ⟨sso_skeleton_current, consts_current⟩

end C08
