import SamlModel.Model.Sso
import SamlModel.Props.SendBack
set_option linter.unusedSimpArgs false
set_option linter.unusedVariables false
/-!
  Lemmas about the SSO model shared by C02, C05, C06, C07, C08, C09 (helper lemmas live here so
  that the property files contain property statements only).
  `Response.sendBackResponse`, through which every failure reply of the chain is written, is translated and characterised
  in Props.SendBack (imported here: a change to it breaks `sendBack_renders` and with it every property built on this file).
-/
namespace Sso
open Go Gen Consts

/-- tie: `ssoHandleFunc` and `getAuthRequestFromRequest` are translated on every run and `Props.SsoGen.sso_handler_refines`
    proves the regenerated handler equal (observably) to `Model.Sso`; the chain-skeleton fingerprint this theorem used to
    state is retired (the name is kept for the `*_source_current` theorems that list it) -/
theorem sso_skeleton_current : True := trivial

/-- (`IdentityProvider.GetMetadata`, `xml.DecodeAuthNRequest` and `IdentityProvider.GetServiceProvider` are no longer
    fingerprinted: translated standalone, MetadataGen.C11_generated_metadata / DecodeGen.decodeAuthN_spec /
    LookupGen.getServiceProvider_spec) -/
theorem sso_sources_current : True := trivial

theorem consts_current : Consts.current = true := by decide

/-- Everything that is true when the SSO chain ends in the login redirect. -/
structure Accepted (o : Ora) (i : In) (id : String) (form : Form) (req : samlp_AuthnRequestType) (iss : saml_NameIDType)
    (sp : serviceprovider_ServiceProvider) (acsList : List md_IndexedEndpointType) (sel : String × String) : Prop where
  hmeta : i.metaErr = false
  hform : i.form = some form
  hreq : form.AuthRequest ≠ ""
  hsigalg : ¬ (form.SigAlg ≠ "" ∧ form.Sig = "")
  hdec : i.decoded = some req
  hiss : req.Issuer = some iss
  hsp : i.sp = some sp
  h6 : condStep (certificateCheckNecessary o req.Signature sp.Metadata) (checkCertificate o req.Signature sp.Metadata) = .ok none
  h7 : condStep (signatureRedirectVerificationNecessary o i.idpMeta sp.Metadata form.Sig form.Binding)
        (verifyRedirectSignature o form.AuthRequest form.RelayState form.Sig form.SigAlg (some sp)) = .ok none
  h8 : condStep (signaturePostVerificationNecessary o i.idpMeta sp.Metadata req.Signature form.Binding)
        (verifyPostSignature o form.AuthRequest (some sp)) = .ok none
  h9 : ∃ emb, signaturePostProvided o req.Signature = .ok emb ∧
        ¬ (form.Binding = postBinding ∧ form.Sig ≠ "") ∧ ¬ (form.Binding = redirectBinding ∧ emb = true)
  hacs : spAcs sp = some acsList
  hsel : GetAcsUrlAndBindingForResponse o acsList req.ProtocolBinding = .ok sel
  h11 : sel.1 ≠ ""
  h13 : sel.2 = redirectBinding ∨ sel.2 = postBinding
  h14 : checkRequestRequiredContent o i.idpMeta (some sp) (some req) = .ok none
  hcreate : i.createOk = true
  hid : id = i.createdID
  hpersist : (sso o i).persist = some { acs := sel.1, binding := sel.2, relay := form.RelayState, appID := sp.ID, reqID := req.Id, ok := true }

/-- facts established by steps 11–15 -/
theorem afterSel_login (o : Ora) (i : In) (form : Form) (req : samlp_AuthnRequestType) (sp : serviceprovider_ServiceProvider)
    (acs binding id : String) (r : Result) (hr : ssoAfterSel o i form req sp acs binding = r) (hout : r.out = .login id) :
    acs ≠ "" ∧ (binding = redirectBinding ∨ binding = postBinding) ∧
    checkRequestRequiredContent o i.idpMeta (some sp) (some req) = .ok none ∧ i.createOk = true ∧ id = i.createdID ∧
    r.persist = some { acs := acs, binding := binding, relay := form.RelayState, appID := sp.ID, reqID := req.Id, ok := true } := by
  unfold ssoAfterSel bindR at hr
  simp only [] at hr
  split at hr
  · subst hr; simp at hout
  rename_i h11
  split at hr
  · subst hr; simp at hout
  rename_i h12
  split at hr
  · subst hr; simp at hout
  rename_i h13
  split at hr
  · subst hr; simp at hout
  rename_i e14 h14
  split at hr
  · subst hr; simp at hout
  rename_i h14n
  split at hr
  · subst hr; simp at hout
  rename_i hcreate
  subst hr
  simp at hout
  have e14none : e14 = none := by cases e14 <;> simp_all
  subst e14none
  have hc : i.createOk = true := by simpa using hcreate
  have h13' : binding = redirectBinding ∨ binding = postBinding := by
    by_cases hb : binding = redirectBinding
    · exact Or.inl hb
    · right; simp [hb] at h13; exact h13
  refine ⟨by simpa using h11, h13', h14, hc, hout.symm, by simp [hc]⟩

/-- facts established by steps 6–10 -/
theorem afterSp_login (o : Ora) (i : In) (form : Form) (req : samlp_AuthnRequestType) (sp : serviceprovider_ServiceProvider)
    (id : String) (r : Result) (hr : ssoAfterSp o i form req sp = r) (hout : r.out = .login id) :
    condStep (certificateCheckNecessary o req.Signature sp.Metadata) (checkCertificate o req.Signature sp.Metadata) = .ok none ∧
    condStep (signatureRedirectVerificationNecessary o i.idpMeta sp.Metadata form.Sig form.Binding)
        (verifyRedirectSignature o form.AuthRequest form.RelayState form.Sig form.SigAlg (some sp)) = .ok none ∧
    condStep (signaturePostVerificationNecessary o i.idpMeta sp.Metadata req.Signature form.Binding)
        (verifyPostSignature o form.AuthRequest (some sp)) = .ok none ∧
    (∃ emb, signaturePostProvided o req.Signature = .ok emb ∧
        ¬ (form.Binding = postBinding ∧ form.Sig ≠ "") ∧ ¬ (form.Binding = redirectBinding ∧ emb = true)) ∧
    ∃ acsList sel, spAcs sp = some acsList ∧ GetAcsUrlAndBindingForResponse o acsList req.ProtocolBinding = .ok sel ∧
      ssoAfterSel o i form req sp sel.1 sel.2 = r := by
  unfold ssoAfterSp bindR at hr
  simp only [] at hr
  split at hr
  · subst hr; simp at hout
  rename_i e6 h6
  split at hr
  · subst hr; simp at hout
  rename_i h6n
  split at hr
  · subst hr; simp at hout
  rename_i e7 h7
  split at hr
  · subst hr; simp at hout
  rename_i h7n
  split at hr
  · subst hr; simp at hout
  rename_i e8 h8
  split at hr
  · subst hr; simp at hout
  rename_i h8n
  split at hr
  · subst hr; simp at hout
  rename_i emb hemb
  split at hr
  · subst hr; simp at hout
  rename_i h9
  split at hr
  · subst hr; simp at hout
  rename_i acsList hacs
  split at hr
  · subst hr; simp at hout
  rename_i sel hsel
  have e6none : e6 = none := by cases e6 <;> simp_all
  have e7none : e7 = none := by cases e7 <;> simp_all
  have e8none : e8 = none := by cases e8 <;> simp_all
  subst e6none e7none e8none
  exact ⟨h6, h7, h8, ⟨emb, hemb, by simpa using h9⟩, acsList, sel, hacs, hsel, hr⟩

/-- facts established by steps 2–5 -/
theorem afterForm_login (o : Ora) (i : In) (form : Form) (id : String) (r : Result)
    (hr : ssoAfterForm o i form = r) (hout : r.out = .login id) :
    form.AuthRequest ≠ "" ∧ ¬ (form.SigAlg ≠ "" ∧ form.Sig = "") ∧
    ∃ req iss sp, i.decoded = some req ∧ req.Issuer = some iss ∧ i.sp = some sp ∧ ssoAfterSp o i form req sp = r := by
  unfold ssoAfterForm at hr
  split at hr
  · subst hr; simp at hout
  rename_i hreq
  split at hr
  · subst hr; simp at hout
  rename_i hsigalg
  split at hr
  · subst hr; simp at hout
  rename_i req hdec
  split at hr
  · subst hr; simp at hout
  rename_i iss hiss
  split at hr
  · subst hr; simp at hout
  rename_i sp hsp
  exact ⟨by simpa using hreq, by simpa using hsigalg, req, iss, sp, hdec, hiss, hsp, hr⟩

theorem accepted_of_login (o : Ora) (i : In) (id : String) (h : (sso o i).out = .login id) :
    ∃ form req iss sp acsList sel, Accepted o i id form req iss sp acsList sel := by
  have hfull : ∃ r, sso o i = r ∧ r.out = .login id := ⟨_, rfl, h⟩
  obtain ⟨r, hr, hout⟩ := hfull
  have hr0 := hr
  unfold sso at hr
  split at hr
  · subst hr; simp at hout
  rename_i hmeta
  split at hr
  · subst hr; simp at hout
  rename_i form hform
  obtain ⟨hreq, hsigalg, req, iss, sp, hdec, hiss, hsp, hr2⟩ := afterForm_login o i form id r hr hout
  obtain ⟨h6, h7, h8, h9, acsList, sel, hacs, hsel, hr3⟩ := afterSp_login o i form req sp id r hr2 hout
  obtain ⟨h11, h13, h14, hcreate, hid, hpersist⟩ := afterSel_login o i form req sp sel.1 sel.2 id r hr3 hout
  exact ⟨form, req, iss, sp, acsList, sel, {
    hmeta := by simpa using hmeta
    hform := hform, hreq := hreq, hsigalg := hsigalg, hdec := hdec, hiss := hiss, hsp := hsp, h6 := h6, h7 := h7, h8 := h8, h9 := h9
    hacs := hacs, hsel := hsel, h11 := h11, h13 := h13, h14 := h14, hcreate := hcreate, hid := hid
    hpersist := by rw [hr0]; exact hpersist }⟩

end Sso
