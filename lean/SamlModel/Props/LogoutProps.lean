import SamlModel.Props.C13
import SamlModel.Props.LogoutGen
set_option linter.unusedSimpArgs false
set_option linter.unusedVariables false
/-!
  Props.LogoutProps — C13 stated on the *regenerated* `logoutHandleFunc`
  (`LogoutGen.logout_handler_refines` transports the theorems about the logout model to it).
-/
namespace C13
open Go Gen Consts LogoutGen CallbackGen Builders

variable (o : Ora) (cfg : provider_IdentityProviderConfig) (fmt : String) (exp : Int)

/-- every service provider the storage hands out has an SPSSODescriptor (NewServiceProvider refuses others) -/
def StorageWF : Prop := ∀ iss sp, (o.m_GetServiceProvider (idp cfg fmt exp) iss).1 = some sp → SpWF sp

private theorem spOf_wf (hwf : StorageWF o cfg fmt exp) : ∀ sp, (inOfOra o cfg fmt exp).sp = some sp → SpWF sp := by
  intro sp h
  simp only [inOfOra, spOf] at h
  split at h
  · simp at h
  · split at h
    · simp at h
    · rename_i iss _
      split at h
      · exact hwf iss.Text sp h
      · simp at h

/-- only `sendBackLogoutResponse` on a response and a message means a reply -/
private theorem outOfEff_reply (e : Eff) (d : Logout.Delivery) (msg : Logout.Msg) (h : outOfEff e = .reply d msg) :
    ∃ resp m, e = .sendBackLogoutResponse (some resp) (some m) ∧ logoutMsgOf m = msg := by
  unfold outOfEff at h
  split at h
  · rename_i resp m
    simp only [Logout.Out.reply.injEq] at h
    exact ⟨resp, m, rfl, h.2⟩
  · simp at h

/-- **C13 on the regenerated handler: exactly one LogoutResponse, issued by the IdP.**  `logoutHandleFunc` as
    regenerated from logout.go on this run, in any environment (form parser, decoder, storage, clock, identifier
    source) that honours `EnvOK` and `StorageWF`: it does not panic, writes exactly once, what it writes is a
    LogoutResponse issued by `GetEntityID`, with a status, and echoing the request ID whenever the request decoded. -/
theorem C13_generated_one_response (henv : EnvOK o cfg fmt exp) (hwf : StorageWF o cfg fmt exp) :
    ∃ resp m, IdentityProvider_logoutHandleFunc o (idp cfg fmt exp) = .ok [Eff.sendBackLogoutResponse (some resp) (some m)] ∧
      (m.Issuer.map (·.Text)).getD "" = o.m_GetEntityID (idp cfg fmt exp) ∧ m.Status.StatusCode.Value ≠ "" ∧
      (∀ req, decodedOf o = some req → m.InResponseTo = req.Id) := by
  have h := logout_handler_refines o cfg fmt exp henv
  obtain ⟨d, msg, hl, hiss, hst, hirt⟩ := C13_one_logout_response o (inOfOra o cfg fmt exp) (spOf_wf o cfg fmt exp hwf)
  rw [hl] at h
  cases hr : IdentityProvider_logoutHandleFunc o (idp cfg fmt exp) with
  | panic => rw [hr] at h; simp [outOf] at h
  | ok t =>
    rw [hr] at h
    match t, h with
    | [], h => simp [outOf] at h
    | _ :: _ :: _, h => simp [outOf] at h
    | [e], h =>
      simp only [outOf, Option.some.injEq] at h
      obtain ⟨resp, m, rfl, hm⟩ := outOfEff_reply e d msg h
      refine ⟨resp, m, rfl, ?_, ?_, ?_⟩
      · have := congrArg Logout.Msg.issuer hm
        simpa [logoutMsgOf, hiss, inOfOra] using this
      · have := congrArg Logout.Msg.status hm
        simp only [logoutMsgOf] at this
        rw [this]; exact hst
      · intro req hreq
        have := congrArg Logout.Msg.inResponseTo hm
        simp only [logoutMsgOf] at this
        rw [this]
        have hf : (inOfOra o cfg fmt exp).form.isSome := by
          simp only [inOfOra, decodedOf] at hreq ⊢
          cases hfo : formOf o with
          | none => simp [hfo] at hreq
          | some f => simp
        exact hirt req hf hreq

/-- **C13 on the regenerated handler: Success only if valid, and every valid request succeeds.** -/
theorem C13_generated_success_iff (henv : EnvOK o cfg fmt exp) (hwf : StorageWF o cfg fmt exp) :
    (∃ resp m, IdentityProvider_logoutHandleFunc o (idp cfg fmt exp) = .ok [Eff.sendBackLogoutResponse (some resp) (some m)] ∧
        m.Status.StatusCode.Value = statusSuccess) ↔
      ∃ req sp, Valid o (inOfOra o cfg fmt exp) req sp := by
  have h := logout_handler_refines o cfg fmt exp henv
  rw [← C13_success_iff o (inOfOra o cfg fmt exp) (spOf_wf o cfg fmt exp hwf)]
  constructor
  · rintro ⟨resp, m, ht, hs⟩
    rw [ht] at h
    simp only [outOf, outOfEff, Option.some.injEq] at h
    exact ⟨_, _, h.symm, by simpa [logoutMsgOf] using hs⟩
  · rintro ⟨d, msg, hl, hs⟩
    obtain ⟨resp, m, ht, _⟩ := C13_generated_one_response o cfg fmt exp henv hwf
    refine ⟨resp, m, ht, ?_⟩
    rw [ht, hl] at h
    simp only [outOf, outOfEff, Option.some.injEq, Logout.Out.reply.injEq] at h
    have := congrArg Logout.Msg.status h.2
    simp only [logoutMsgOf] at this
    rw [this]; exact hs

/-- **C13 on the regenerated handler: delivery.**  A Success response is delivered (posted with the unchanged
    RelayState) to the first SingleLogoutService location registered for the issuer and names it as Destination; with
    no registered location, and for every non-Success response, the LogoutResponse carries no consumer address (it is
    written into the HTTP body). -/
theorem C13_generated_delivery (henv : EnvOK o cfg fmt exp) (resp : provider_LogoutResponse) (m : samlp_LogoutResponseType)
    (ht : IdentityProvider_logoutHandleFunc o (idp cfg fmt exp) = .ok [Eff.sendBackLogoutResponse (some resp) (some m)]) :
    (m.Status.StatusCode.Value ≠ statusSuccess → resp.LogoutURL = "" ∧ m.Destination = "") ∧
    (m.Status.StatusCode.Value = statusSuccess → ∃ form sp md dsc, formOf o = some form ∧ spOf o cfg fmt exp = some sp ∧
        sp.Metadata = some md ∧ md.SPSSODescriptor = some dsc ∧ m.Destination = Logout.firstSlo dsc ∧
        resp.LogoutURL = Logout.firstSlo dsc ∧ (resp.LogoutURL ≠ "" → resp.RelayState = form.RelayState)) := by
  have h := logout_handler_refines o cfg fmt exp henv
  rw [ht] at h
  simp only [outOf, outOfEff, Option.some.injEq] at h
  obtain ⟨h1, h2⟩ := C13_delivery o (inOfOra o cfg fmt exp) _ _ h.symm
  constructor
  · intro hs
    obtain ⟨hd, hdest⟩ := h1 (by simpa [logoutMsgOf] using hs)
    refine ⟨?_, by simpa [logoutMsgOf] using hdest⟩
    by_cases hu : resp.LogoutURL = ""
    · exact hu
    · simp [Logout.deliver, hu] at hd
  · intro hs
    obtain ⟨form, sp, md, dsc, hf, hsp, hmd, hdsc, hdest, hdel⟩ := h2 (by simpa [logoutMsgOf] using hs)
    simp only [inOfOra, Option.map_eq_some_iff] at hf
    obtain ⟨f, hf, rfl⟩ := hf
    refine ⟨f, sp, md, dsc, hf, hsp, hmd, hdsc, by simpa [logoutMsgOf] using hdest, ?_, ?_⟩
    · rcases hdel with ⟨he, hd⟩ | ⟨hne, hd⟩
      · by_cases hu : resp.LogoutURL = ""
        · rw [hu, he]
        · simp [Logout.deliver, hu] at hd
      · by_cases hu : resp.LogoutURL = ""
        · simp [Logout.deliver, hu] at hd
        · simp [Logout.deliver, hu] at hd; exact hd.1
    · intro hu
      rcases hdel with ⟨he, hd⟩ | ⟨hne, hd⟩
      · simp [Logout.deliver, hu] at hd
      · simp [Logout.deliver, hu, lformOf] at hd; exact hd.2

end C13

namespace C09
open Go Gen LogoutGen CallbackGen

/-- **C09 on the regenerated logout handler**: in any environment that honours `EnvOK` and `StorageWF`,
    `logoutHandleFunc` as regenerated from logout.go on this run does not panic (and writes exactly one reply) -/
theorem C09_generated_logout_handler (o : Ora) (cfg : provider_IdentityProviderConfig) (fmt : String) (exp : Int)
    (henv : EnvOK o cfg fmt exp) (hwf : C13.StorageWF o cfg fmt exp) :
    IdentityProvider_logoutHandleFunc o (idp cfg fmt exp) ≠ .panic := by
  obtain ⟨resp, m, h, _⟩ := C13.C13_generated_one_response o cfg fmt exp henv hwf
  rw [h]; simp

end C09
