import SamlModel.Model.Consts
import SamlModel.Generated.Funcs
set_option linter.unusedSimpArgs false
set_option linter.unusedVariables false
/-!
  Characterisations of go2lean-generated helper functions: what each returns, for all inputs, in a
  form the property theorems can use.  These lemmas unfold the *generated* bodies; when the source of
  a helper changes they stop checking (a broken proof obligation of every property that imports them).
-/
namespace FnLemmas
open Go Gen Consts

def xsTrue (s : String) : Bool := s == "true" || s == "1"

theorem xs_eq (o : Ora) (v : String) : isXSBooleanTrue o v = .ok (xsTrue v) := by
  simp [isXSBooleanTrue, isXSBooleanTrue.body, Ctl.toRes, xsTrue]

/-- AuthnRequestsSigned of the service provider metadata (absent descriptor counts as "required", as in the code) -/
def spRequires (spMeta : Option md_EntityDescriptorType) : Bool :=
  match spMeta with
  | none => true
  | some m => match m.SPSSODescriptor with
    | none => true
    | some d => xsTrue d.AuthnRequestsSigned

def idpRequires (idpMeta : Option md_IDPSSODescriptorType) : Bool :=
  match idpMeta with
  | none => true
  | some m => xsTrue m.WantAuthnRequestsSigned

/-- an embedded signature with a non-empty value -/
def embProvided (sig : Option xml_dsig_SignatureType) : Bool :=
  match sig with
  | none => false
  | some s => s.SignatureValue.Text != ""

theorem signaturePostProvided_eq (o : Ora) (sig : Option xml_dsig_SignatureType) :
    signaturePostProvided o sig = .ok (embProvided sig) := by
  cases sig with
  | none => simp [signaturePostProvided, signaturePostProvided.body, Ctl.toRes, embProvided]
  | some s =>
    simp only [signaturePostProvided, signaturePostProvided.body, Ctl.toRes, embProvided, deref, Option.getD, Option.isNone]
    by_cases h : s.SignatureValue.Text = ""
    · simp [h]
    · have : s.SignatureValue ≠ default := by
        intro hd; apply h; rw [hd]; rfl
      simp [h, this]

theorem sigRedirNec_eq (o : Ora) (idpMeta : Option md_IDPSSODescriptorType) (spMeta : Option md_EntityDescriptorType) (sig binding : String) :
    signatureRedirectVerificationNecessary o idpMeta spMeta sig binding =
      .ok ((spRequires spMeta || idpRequires idpMeta || sig != "") && binding == redirectBinding) := by
  cases spMeta with
  | none => cases idpMeta <;>
      simp [signatureRedirectVerificationNecessary, signatureRedirectVerificationNecessary.body, Ctl.toRes, spRequires, idpRequires, xs_eq, Res.isPanic, Res.get, deref, redirectBinding]
  | some m =>
    cases hd : m.SPSSODescriptor <;> cases idpMeta <;>
      simp [signatureRedirectVerificationNecessary, signatureRedirectVerificationNecessary.body, Ctl.toRes, spRequires, idpRequires, xs_eq, Res.isPanic, Res.get, deref, redirectBinding, hd]

theorem sigPostNec_eq (o : Ora) (idpMeta : Option md_IDPSSODescriptorType) (spMeta : Option md_EntityDescriptorType)
    (sig : Option xml_dsig_SignatureType) (binding : String) :
    signaturePostVerificationNecessary o idpMeta spMeta sig binding =
      .ok ((spRequires spMeta || idpRequires idpMeta || embProvided sig) && binding == postBinding) := by
  cases spMeta with
  | none => cases idpMeta <;>
      simp [signaturePostVerificationNecessary, signaturePostVerificationNecessary.body, Ctl.toRes, spRequires, idpRequires, xs_eq, Res.isPanic, Res.get, deref, postBinding, signaturePostProvided_eq]
  | some m =>
    cases hd : m.SPSSODescriptor <;> cases idpMeta <;>
      simp [signaturePostVerificationNecessary, signaturePostVerificationNecessary.body, Ctl.toRes, spRequires, idpRequires, xs_eq, Res.isPanic, Res.get, deref, postBinding, hd, signaturePostProvided_eq]

/-- `verifyRedirectSignature` succeeds only if all three values are present and the validation oracle accepts exactly them -/
theorem verifyRedirect_ok (o : Ora) (req relay sig alg : String) (sp : Option serviceprovider_ServiceProvider) :
    verifyRedirectSignature o req relay sig alg sp = .ok none ↔
      req ≠ "" ∧ sig ≠ "" ∧ alg ≠ "" ∧ o.m_ValidateRedirectSignature sp req relay alg sig = none := by
  unfold verifyRedirectSignature verifyRedirectSignature.body
  by_cases h1 : req = "" <;> by_cases h2 : sig = "" <;> by_cases h3 : alg = "" <;> simp [h1, h2, h3, Ctl.toRes]

theorem verifyRedirect_noPanic (o : Ora) (req relay sig alg : String) (sp : Option serviceprovider_ServiceProvider) :
    verifyRedirectSignature o req relay sig alg sp ≠ .panic := by
  unfold verifyRedirectSignature verifyRedirectSignature.body
  by_cases h1 : req = "" <;> by_cases h2 : sig = "" <;> by_cases h3 : alg = "" <;> simp [h1, h2, h3, Ctl.toRes]

/-- `verifyPostSignature` succeeds only if the payload is base64 and the XML-DSig oracle accepts the decoded document -/
theorem verifyPost_ok (o : Ora) (req : String) (sp : Option serviceprovider_ServiceProvider) :
    verifyPostSignature o req sp = .ok none ↔
      ∃ data, Lib.b64decode req = some data ∧ o.m_ValidatePostSignature sp (Lib.bytesToString data) = none := by
  unfold verifyPostSignature verifyPostSignature.body
  cases h : Lib.b64decode req with
  | none => simp [h, Ctl.toRes]
  | some d =>
    cases h2 : o.m_ValidatePostSignature sp (Lib.bytesToString d) <;> simp [h, h2, Ctl.toRes]

theorem verifyPost_noPanic (o : Ora) (req : String) (sp : Option serviceprovider_ServiceProvider) :
    verifyPostSignature o req sp ≠ .panic := by
  unfold verifyPostSignature verifyPostSignature.body
  cases h : Lib.b64decode req with
  | none => simp [h, Ctl.toRes]
  | some d =>
    cases h2 : o.m_ValidatePostSignature sp (Lib.bytesToString d) <;> simp [h, h2, Ctl.toRes]

/-- the validity window the code enforces (`time.go`) -/
def TimeOK (o : Ora) (fmt nb noa : String) : Prop :=
  (nb ≠ "" → ∃ t, o.timeParse fmt nb = some t ∧ t ≤ o.now) ∧
  (noa ≠ "" → ∃ t, o.timeParse fmt noa = some t ∧ o.now < t)

/-- what `checkIfRequestTimeIsStillValid` returns, written out -/
def timeSpec2 (o : Ora) (fmt noa : String) : Err :=
  if noa = "" then none else
  match o.timeParse fmt noa with
  | none => some ("failed to parse NotOnOrAfter: " ++ "time.Parse")
  | some u => if u = o.now ∨ u < o.now then some "on or after time given by NotOnOrAfter" else none

def timeSpec (o : Ora) (fmt nb noa : String) : Err :=
  if nb = "" then timeSpec2 o fmt noa else
  match o.timeParse fmt nb with
  | none => some ("failed to parse NotBefore: " ++ "time.Parse")
  | some t => if t > o.now then some "before time given by NotBefore" else timeSpec2 o fmt noa

theorem timeCheck_eq (o : Ora) (nb noa fmt : String) :
    checkIfRequestTimeIsStillValid o nb noa fmt = .ok (timeSpec o fmt nb noa) := by
  unfold checkIfRequestTimeIsStillValid checkIfRequestTimeIsStillValid.body timeSpec timeSpec2
  by_cases h1 : nb = "" <;> by_cases h2 : noa = ""
  · simp [h1, h2, Ctl.toRes]
  · cases hp : o.timeParse fmt noa with
    | none => simp [h1, h2, hp, Ctl.toRes]
    | some t =>
      by_cases ha : t = o.now ∨ t < o.now <;> simp [h1, h2, hp, Ctl.toRes, ha]
  · cases hp : o.timeParse fmt nb with
    | none => simp [h1, h2, hp, Ctl.toRes]
    | some t =>
      by_cases ha : t > o.now <;> simp [h1, h2, hp, Ctl.toRes, ha]
  · cases hp : o.timeParse fmt nb with
    | none => simp [h1, h2, hp, Ctl.toRes]
    | some t =>
      by_cases ha : t > o.now
      · simp [h1, h2, hp, Ctl.toRes, ha]
      · cases hq : o.timeParse fmt noa with
        | none => simp [h1, h2, hp, hq, Ctl.toRes, ha]
        | some u =>
          by_cases hb : u = o.now ∨ u < o.now <;> simp [h1, h2, hp, hq, Ctl.toRes, ha, hb]

theorem timeSpec2_none (o : Ora) (fmt noa : String) :
    timeSpec2 o fmt noa = none ↔ (noa ≠ "" → ∃ t, o.timeParse fmt noa = some t ∧ o.now < t) := by
  unfold timeSpec2
  by_cases h2 : noa = ""
  · simp [h2]
  · cases hq : o.timeParse fmt noa with
    | none => simp [h2]
    | some u =>
      by_cases hb : u = o.now ∨ u < o.now
      · simp [h2, hb]; omega
      · simp [h2, hb]; omega

theorem timeCheck_ok (o : Ora) (nb noa fmt : String) :
    checkIfRequestTimeIsStillValid o nb noa fmt = .ok none ↔ TimeOK o fmt nb noa := by
  rw [timeCheck_eq]
  unfold TimeOK timeSpec
  by_cases h1 : nb = ""
  · simp [h1, timeSpec2_none]
  · cases hp : o.timeParse fmt nb with
    | none => simp [h1]
    | some t =>
      by_cases ha : t > o.now
      · simp [h1, ha]; intro hle; omega
      · have hle : t ≤ o.now := by omega
        simp [h1, ha, timeSpec2_none, hle]

theorem timeCheck_noPanic (o : Ora) (nb noa fmt : String) : checkIfRequestTimeIsStillValid o nb noa fmt ≠ .panic := by
  rw [timeCheck_eq]; simp

/-! ### destination and required content -/

/-- Destination absent, or one of the SingleSignOnService locations of the IdP metadata in effect -/
def DestOK (idp : Option md_IDPSSODescriptorType) (req : samlp_AuthnRequestType) : Prop :=
  req.Destination = "" ∨ ∃ md e, idp = some md ∧ e ∈ md.SingleSignOnService ∧ req.Destination = e.Location

/-- the generated body of the destination loop -/
private def destBody : md_EndpointType → verifyRequestDestinationOfAuthRequest.Frame → Ctl verifyRequestDestinationOfAuthRequest.Frame Err :=
  fun x_sso s =>
          if s.request.isNone then (.panic : Ctl _ Err) else
            (if ((deref s.request).Destination == x_sso.Location) then
              let s := { s with foundEndpoint := true };
              .brk s
            else
              .next s)

private theorem destBody_eq (req : samlp_AuthnRequestType) (x : md_EndpointType) (s : verifyRequestDestinationOfAuthRequest.Frame)
    (hs : s.request = some req) :
    destBody x s = if (req.Destination == x.Location) = true then .brk { s with foundEndpoint := true } else .next s := by
  simp [destBody, hs, deref]

private theorem destLoop (req : samlp_AuthnRequestType) (xs : List md_EndpointType) :
    ∀ (s : verifyRequestDestinationOfAuthRequest.Frame), s.request = some req →
    goFor xs s destBody =
      .next { s with foundEndpoint := s.foundEndpoint || xs.any (fun e => req.Destination == e.Location) } := by
  induction xs with
  | nil => intro s _; simp
  | cons x xs ih =>
    intro s hs
    rw [goFor_cons, destBody_eq req x s hs]
    by_cases h : (req.Destination == x.Location) = true
    · simp [h]
    · have h' : (req.Destination == x.Location) = false := by simpa using h
      rw [if_neg h]
      simp only []
      rw [ih s hs]
      simp [h']

theorem dest_eq (o : Ora) (md : md_IDPSSODescriptorType) (req : samlp_AuthnRequestType) :
    verifyRequestDestinationOfAuthRequest o (some md) (some req) =
      .ok (if req.Destination = "" then none
           else if md.SingleSignOnService.any (fun e => req.Destination == e.Location) then none
           else some "destination of request is unknown") := by
  unfold verifyRequestDestinationOfAuthRequest verifyRequestDestinationOfAuthRequest.body
  by_cases hd : req.Destination = ""
  · simp [hd, deref, Ctl.toRes]
  · simp only [Option.isNone, deref, Option.getD, Bool.false_eq_true, if_false, bne_iff_ne, ne_eq, hd, not_false_eq_true, if_true]
    have hloop := destLoop req md.SingleSignOnService { metadata := some md, request := some req, foundEndpoint := false } rfl
    unfold destBody at hloop
    simp only [Option.isNone, deref, Option.getD, Bool.false_eq_true, if_false] at hloop
    rw [hloop]
    by_cases ha : md.SingleSignOnService.any (fun e => req.Destination == e.Location) = true <;> simp [ha, Ctl.toRes]

theorem dest_ok (o : Ora) (idp : Option md_IDPSSODescriptorType) (req : samlp_AuthnRequestType)
    (h : verifyRequestDestinationOfAuthRequest o idp (some req) = .ok none) : DestOK idp req := by
  by_cases hd : req.Destination = ""
  · exact Or.inl hd
  · cases idp with
    | none =>
      unfold verifyRequestDestinationOfAuthRequest verifyRequestDestinationOfAuthRequest.body at h
      simp [hd, deref, Ctl.toRes] at h
    | some md =>
      rw [dest_eq] at h
      simp only [hd, if_false] at h
      by_cases ha : md.SingleSignOnService.any (fun e => req.Destination == e.Location) = true
      · obtain ⟨e, he, heq⟩ := List.any_eq_true.mp ha
        exact Or.inr ⟨md, e, rfl, he, by simpa using heq⟩
      · simp [ha] at h

theorem dest_noPanic (o : Ora) (md : md_IDPSSODescriptorType) (req : samlp_AuthnRequestType) :
    verifyRequestDestinationOfAuthRequest o (some md) (some req) ≠ .panic := by
  rw [dest_eq]; simp

/-- the conjunction `checkRequestRequiredContent` enforces -/
structure ContentOK (o : Ora) (idp : Option md_IDPSSODescriptorType) (sp : serviceprovider_ServiceProvider)
    (req : samlp_AuthnRequestType) : Prop where
  time : ∀ c, req.Conditions = some c → TimeOK o defaultTimeFormat c.NotBefore c.NotOnOrAfter
  id : req.Id ≠ ""
  version : req.Version ≠ ""
  issuer : ∃ iss m, req.Issuer = some iss ∧ iss.Text ≠ "" ∧ sp.Metadata = some m ∧ iss.Text = m.EntityID
  dest : DestOK idp req

theorem getEntityID_eq (o : Ora) (sp : serviceprovider_ServiceProvider) :
    ServiceProvider_GetEntityID o (some sp) = match sp.Metadata with
      | none => .panic
      | some m => .ok m.EntityID := by
  cases hm : sp.Metadata <;> simp [ServiceProvider_GetEntityID, ServiceProvider_GetEntityID.body, deref, hm, Ctl.toRes]

/-- the part of `checkRequestRequiredContent` after the time window -/
private theorem content_tail (o : Ora) (idp : Option md_IDPSSODescriptorType) (sp : serviceprovider_ServiceProvider)
    (req : samlp_AuthnRequestType) (s : checkRequestRequiredContent.Frame)
    (hs1 : s.authNRequest = some req) (hs2 : s.sp = some sp) (hs3 : s.idpMetadata = idp)
    (k : Ctl checkRequestRequiredContent.Frame Err)
    (hk : k = (if s.authNRequest.isNone then .panic else
    Ctl.seq
      (if ((deref s.authNRequest).Id == "") then
        .ret ((some "ID is missing in request" : Err))
      else
        .next s)
      fun s =>
      if s.authNRequest.isNone then .panic else
      Ctl.seq
        (if ((deref s.authNRequest).Version == "") then
          .ret ((some "version is missing in request" : Err))
        else
          .next s)
        fun s =>
        if s.authNRequest.isNone || (deref s.authNRequest).Issuer.isNone then .panic else
        Ctl.seq
          (if ((deref (deref s.authNRequest).Issuer).Text == "") then
            .ret ((some "issuer is missing in request" : Err))
          else
            .next s)
          fun s =>
          if s.authNRequest.isNone || (deref s.authNRequest).Issuer.isNone || (ServiceProvider_GetEntityID o s.sp).isPanic then .panic else
          Ctl.seq
            (if ((deref (deref s.authNRequest).Issuer).Text != (ServiceProvider_GetEntityID o s.sp).get) then
              .ret ((some "issuer in request not equal entityID of service provider" : Err))
            else
              .next s)
            fun s =>
            if (verifyRequestDestinationOfAuthRequest o s.idpMetadata s.authNRequest).isPanic then .panic else
            let s := { s with err_2 := (verifyRequestDestinationOfAuthRequest o s.idpMetadata s.authNRequest).get };
            Ctl.seq
              (if (!s.err_2.isNone) then
                .ret (s.err_2)
              else
                .next s)
              fun s =>
              .ret ((none : Err))))
    (h : k.toRes default = .ok none) :
    req.Id ≠ "" ∧ req.Version ≠ "" ∧
    (∃ iss m, req.Issuer = some iss ∧ iss.Text ≠ "" ∧ sp.Metadata = some m ∧ iss.Text = m.EntityID) ∧ DestOK idp req := by
  subst hk
  obtain ⟨f1, f2, f3, f4, f5, f6, f7, f8⟩ := s
  simp only at hs1 hs2 hs3
  subst hs1 hs2 hs3
  simp only [Option.isNone, deref, Option.getD, Bool.false_eq_true, if_false, Bool.false_or, getEntityID_eq] at h
  by_cases h1 : req.Id = ""
  · simp [h1, Ctl.toRes] at h
  by_cases h2 : req.Version = ""
  · simp [h1, h2, Ctl.toRes] at h
  cases hi : req.Issuer with
  | none => simp [h1, h2, hi, Ctl.toRes] at h
  | some iss =>
    by_cases h3 : iss.Text = ""
    · simp [h1, h2, hi, h3, Ctl.toRes] at h
    cases hm : sp.Metadata with
    | none => simp [h1, h2, hi, h3, hm, getEntityID_eq, Ctl.toRes, Res.isPanic] at h
    | some m =>
      by_cases h4 : iss.Text = m.EntityID
      · have h3' : ¬ m.EntityID = "" := h4 ▸ h3
        cases hd : verifyRequestDestinationOfAuthRequest o f5 (some req) with
        | panic => simp [h1, h2, hi, h3, h3', hm, h4, hd, getEntityID_eq, Ctl.toRes, Res.isPanic, Res.get] at h
        | ok e =>
          cases e with
          | none => exact ⟨h1, h2, ⟨iss, m, rfl, h3, rfl, h4⟩, dest_ok o f5 req hd⟩
          | some msg => simp [h1, h2, hi, h3, h3', hm, h4, hd, getEntityID_eq, Ctl.toRes, Res.isPanic, Res.get] at h
      · simp [h1, h2, hi, h3, hm, h4, getEntityID_eq, Ctl.toRes, Res.isPanic, Res.get] at h

theorem seq_toRes_none {σ : Type} (A : Ctl σ Err) (K : σ → Ctl σ Err) (h : (A.seq K).toRes default = .ok none) :
    (∃ s, A = .next s ∧ (K s).toRes default = .ok none) ∨ A = .ret none ∨ (∃ s, A = .brk s) ∨ (∃ s, A = .cont s) := by
  cases A with
  | next s => exact Or.inl ⟨s, rfl, by simpa using h⟩
  | brk s => exact Or.inr (Or.inr (Or.inl ⟨s, rfl⟩))
  | cont s => exact Or.inr (Or.inr (Or.inr ⟨s, rfl⟩))
  | ret r =>
    simp [Ctl.toRes] at h
    subst h; exact Or.inr (Or.inl rfl)
  | panic => simp [Ctl.toRes] at h

theorem content_ok (o : Ora) (idp : Option md_IDPSSODescriptorType) (sp : serviceprovider_ServiceProvider)
    (req : samlp_AuthnRequestType) (h : checkRequestRequiredContent o idp (some sp) (some req) = .ok none) :
    ContentOK o idp sp req := by
  unfold checkRequestRequiredContent checkRequestRequiredContent.body at h
  dsimp only at h
  split at h
  · simp [Ctl.toRes] at h
  rename_i hguard
  obtain ⟨s, hA, hK⟩ | hA | ⟨s, hA⟩ | ⟨s, hA⟩ := seq_toRes_none _ _ h
  · -- the time part fell through with frame `s`
    have hs : s.authNRequest = some req ∧ s.sp = some sp ∧ s.idpMetadata = idp ∧
        (∀ c, req.Conditions = some c → TimeOK o defaultTimeFormat c.NotBefore c.NotOnOrAfter) := by
      cases hc : req.Conditions with
      | none =>
        simp [hc, deref] at hA
        subst hA
        exact ⟨rfl, rfl, rfl, by intro c hc'; cases hc'⟩
      | some c =>
        by_cases hne : (c.NotOnOrAfter != "" || c.NotBefore != "") = true
        · simp only [hc, Option.isNone, deref, Option.getD, Bool.false_eq_true, if_false, Bool.false_or, Bool.not_false, Bool.true_and, hne, if_true, timeCheck_eq, Res.isPanic, Res.get] at hA
          cases ht : timeSpec o "2006-01-02T15:04:05.999999Z" c.NotBefore c.NotOnOrAfter with
          | some msg => simp [ht] at hA
          | none =>
            simp [ht] at hA
            subst hA
            refine ⟨rfl, rfl, rfl, ?_⟩
            intro c2 hc2
            cases hc2
            rw [← timeCheck_ok, timeCheck_eq]
            exact congrArg Res.ok ht
        · have hne' : (c.NotOnOrAfter != "" || c.NotBefore != "") = false := by simpa using hne
          simp only [hc, Option.isNone, deref, Option.getD, Bool.false_eq_true, if_false, Bool.not_false, Bool.true_and, hne'] at hA
          simp at hA
          subst hA
          refine ⟨rfl, rfl, rfl, ?_⟩
          intro c2 hc2
          cases hc2
          have h1 : c.NotOnOrAfter = "" := by
            by_cases hx : c.NotOnOrAfter = "" <;> simp_all
          have h2 : c.NotBefore = "" := by
            by_cases hx : c.NotBefore = "" <;> simp_all
          exact ⟨fun hx => absurd h2 hx, fun hx => absurd h1 hx⟩
    obtain ⟨a, b, c, d⟩ := content_tail o idp sp req s hs.1 hs.2.1 hs.2.2.1 _ rfl hK
    exact ⟨hs.2.2.2, a, b, c, d⟩
  all_goals
    exfalso
    cases hc : req.Conditions with
    | none => simp [hc, deref] at hA
    | some c =>
      by_cases hne : (c.NotOnOrAfter != "" || c.NotBefore != "") = true
      · simp only [hc, Option.isNone, deref, Option.getD, Bool.false_eq_true, if_false, Bool.false_or, Bool.not_false, Bool.true_and, hne, if_true, timeCheck_eq, Res.isPanic, Res.get] at hA
        cases ht : timeSpec o "2006-01-02T15:04:05.999999Z" c.NotBefore c.NotOnOrAfter <;> simp [ht] at hA
      · have hne' : (c.NotOnOrAfter != "" || c.NotBefore != "") = false := by simpa using hne
        simp only [hc, Option.isNone, deref, Option.getD, Bool.false_eq_true, if_false, Bool.not_false, Bool.true_and, hne'] at hA
        simp at hA

end FnLemmas
