import SamlModel.Lemmas.Xml
import SamlModel.Lemmas.Base64
import SamlModel.Lib.XmlMarshal
import SamlModel.Props.C14
set_option linter.unusedSimpArgs false
set_option linter.unusedVariables false
/-!
  C18 — Wire encoding round-trips and cannot be restructured by data.

  Model.  `Lib.XmlMarshal.marshalDoc Gen.Schema.types T v` is `samlxml.Marshal(&v)` / `WriteXMLMarshalled`: the XML
  header followed by the `encoding/xml` printer applied to the tree that the struct marshaller builds from a value of
  wire type `T`.  The *schema* (field order, element / attribute names, namespaces, `omitempty`, `chardata`, …) is read
  from the struct definitions in pkg/provider/xml/** by go2lean on every run (`Gen.Schema`); the marshaller's rules
  and the printer are hand models of encoding/xml, compared byte for byte with the real `Marshal` on every run
  (`lib marshal`).  `Lib.Xml.tokens` is an XML tokenizer written from the XML 1.0 specification, compared with
  `encoding/xml`'s own decoder on every document the harness sees (`lib xmltok`).
-/
namespace C18
open Lib Lib.Xml Lib.XmlMarshal Go Gen

/-! ### ties to the source -/

/-- no wire type uses a construct the marshaller model does not cover -/
theorem schema_supported : Gen.Schema.types.all (fun t => t.bad = "") = true := by decide

/-- every element and attribute name the schema can put on the wire is an XML `Name` -/
theorem schema_names_valid :
    Gen.Schema.types.all (fun t => t.fields.all fun f =>
      f.mode = "chardata" || f.mode = "innerxml" || (f.mode = "xmlname" && f.name = "") || validName f.name.toList) = true := by
  decide +kernel

/-- attributes are never namespaced (the printer model has no prefix allocation) -/
theorem schema_attrs_plain : Gen.Schema.types.all (fun t => t.fields.all fun f => f.mode ≠ "attr" || f.ns = "") = true := by
  decide +kernel

/-- the only verbatim (`innerxml`) field is `saml.BaseIDAbstractType.InnerXml`; the IdP never fills it
    (harness: no marshalled message contains a raw node) -/
theorem schema_innerxml : (Gen.Schema.types.filter fun t => t.fields.any fun f => f.mode = "innerxml").map (·.tname) =
    ["saml.BaseIDAbstractType"] := by decide +kernel

theorem C18_source_current : FactsUtil.sameHashes ["xml.Marshal", "xml.WriteXMLMarshalled", "xml.Write", "xml.DeflateAndBase64"] = true := by decide

/-! ### (1) one well-formed document, (2) that decodes to the values put in -/

/-- **C18 (round trip)**: for every tree the marshaller can build — any values, any bytes — whose names are XML names,
    the reference parser reads back from the marshalled document exactly the tree: the same elements, attributes and
    nesting, and every value as it was put in, with characters outside the XML `Char` range replaced by U+FFFD. -/
theorem C18_roundtrip (n : Node) (h : namesOk n = true) :
    tokens (header ++ print n) = [.pi, .chr '\n'] ++ events n :=
  tokens_doc n h

/-- **C18 (single well-formed document)** -/
theorem C18_wellformed (name ns : Str) (attrs : List (Str × Str)) (kids : Forest)
    (h : namesOk (.elem name ns attrs kids) = true) :
    wellFormed (tokens (header ++ print (.elem name ns attrs kids))) = true :=
  wellFormed_doc name ns attrs kids h

/-- **C18 (data cannot restructure)**: element names, attribute names and nesting of the parsed document are those of
    the tree with every value emptied — no value, whatever it contains, adds, removes or renames anything -/
theorem C18_structure_fixed (n : Node) (h : namesOk n = true) :
    skeleton (tokens (header ++ print n)) = skeleton (events (blank n)) := by
  rw [tokens_doc n h, skeleton_append, skeleton_blank]
  rfl

/-- … in particular two messages of the same shape differ only in their values -/
theorem C18_same_shape (n m : Node) (hn : namesOk n = true) (hm : namesOk m = true) (hs : blank n = blank m) :
    skeleton (tokens (header ++ print n)) = skeleton (tokens (header ++ print m)) := by
  rw [C18_structure_fixed n hn, C18_structure_fixed m hm, hs]

/-- **C18 (exact for legal characters)**: values made of legal XML characters come back exactly -/
theorem C18_legal_exact (s : Str) (h : ∀ c ∈ s, isXmlChar c = true) :
    tokens (header ++ print (.elem "a".toList [] [("k".toList, s)] (.cons (.text s) .nil))) =
      [.pi, .chr '\n', .open "a".toList, .attr "k".toList s, .openEnd] ++ s.map .chr ++ [.close "a".toList] := by
  have hn : namesOk (.elem "a".toList [] [("k".toList, s)] (.cons (.text s) .nil)) = true := by
    simp only [namesOk, namesOkF, List.all_cons, List.all_nil, Bool.and_true]; decide
  rw [tokens_doc _ hn]
  simp [events, eventsForest, attrEvents, allAttrs, sanitize_of_legal s h]

/-- the escaped form of any value contains no markup delimiter and no quote -/
theorem C18_no_markup (s : Str) : ∀ x ∈ escapeChars s, x ≠ '<' ∧ x ≠ '>' ∧ x ≠ '"' ∧ x ≠ '\'' :=
  escapeChars_no_markup s

/-! ### (3) the codec -/

/-- `DeflateAndBase64` (hand model of the fingerprinted function: DEFLATE, then standard base64 with padding) -/
def deflateAndBase64 (deflate : Lib.Bytes → Lib.Bytes) (data : Lib.Bytes) : String := Lib.b64encode (deflate data)

/-- **C18 (codec round trip)**: for every byte string within the decoder's size limit, DEFLATE+base64 followed by the
    decoder with the DEFLATE identifier returns the original bytes.  The compressor/decompressor pair is compress/flate:
    that inflating its own output yields the input is the hypothesis `hflate` (checked differentially on every run). -/
theorem C18_codec_roundtrip (o : Ora) (deflate : Lib.Bytes → Lib.Bytes) (data : Lib.Bytes)
    (hflate : o.inflate (deflate data) = { data := data, err := false }) (hsize : data.length ≤ C14.cap) :
    InflateAndDecode o Consts.encodingDeflate true (deflateAndBase64 deflate data) = .ok (data, none) := by
  have hp : C14.payloadBytes true (deflateAndBase64 deflate data) = some (deflate data) := by
    simp [C14.payloadBytes, deflateAndBase64, b64decode_encode]
  have := C14.C14_small_unchanged o true _ _ hp (by rw [hflate]; exact hsize) (by rw [hflate])
  rw [this, hflate]

/-- beyond the limit the decoder reports an error — it never returns a truncated message (C14 and C18 meet here) -/
theorem C18_codec_oversize (o : Ora) (deflate : Lib.Bytes → Lib.Bytes) (data : Lib.Bytes)
    (hflate : o.inflate (deflate data) = { data := data, err := false }) (hsize : data.length > C14.cap) :
    ∃ e, InflateAndDecode o Consts.encodingDeflate true (deflateAndBase64 deflate data) = .ok ([], some e) := by
  have hp : C14.payloadBytes true (deflateAndBase64 deflate data) = some (deflate data) := by
    simp [C14.payloadBytes, deflateAndBase64, b64decode_encode]
  exact C14.C14_overflow_rejected o true _ _ hp (by rw [hflate]; exact hsize)

/-- **C18 (unknown encoding)**: an encoding identifier that is neither absent nor the DEFLATE identifier is an error,
    never a silent pass-through -/
theorem C18_unknown_encoding (o : Ora) (enc : String) (b64 : Bool) (msg : String) (data : Lib.Bytes)
    (h : C14.payloadBytes b64 msg = some data) (h1 : enc ≠ "") (h2 : enc ≠ Consts.encodingDeflate) :
    InflateAndDecode o enc b64 msg = .ok ([], some "unknown encoding") :=
  C14.C14_unknown_encoding o enc b64 msg data h h1 h2

/-- base64 alone round-trips for every byte string -/
theorem C18_base64_roundtrip (bs : Lib.Bytes) : Lib.b64decode (Lib.b64encode bs) = some bs := b64decode_encode bs

/-! ### non-vacuity: a hostile status message through the real schema -/

/-- a LogoutResponse whose status message tries to close the element and open another -/
def hostile : GVal :=
  .struct (.cons (.struct (.cons (.str []) (.cons (.str []) .nil)))        -- XMLName
    (.cons (.str "id\"1".toList) (.cons (.str "req<1>".toList) (.cons (.str "2.0".toList) (.cons (.str "t".toList)
    (.cons (.str "https://sp/slo?a=1&b=2".toList) (.cons (.str []) (.cons .nil (.cons .nil (.cons .nil
    (.cons (.struct (.cons (.struct (.cons (.str []) (.cons (.str []) .nil)))
        (.cons (.struct (.cons (.struct (.cons (.str []) (.cons (.str []) .nil))) (.cons (.str "urn:x".toList) (.cons .nil .nil))))
        (.cons (.str "</StatusMessage></Status><Status>]]>&#0;\u0001".toList) (.cons .nil .nil))))) .nil)))))))))))

example : ((marshalTree Gen.Schema.types "samlp.LogoutResponseType" hostile).map namesOk) = some true := by decide +kernel
example : ((marshalDoc Gen.Schema.types "samlp.LogoutResponseType" hostile).map fun d => wellFormed (tokens d)) = some true := by
  decide +kernel

end C18
