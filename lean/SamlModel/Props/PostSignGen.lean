import SamlModel.Props.C04
set_option linter.unusedSimpArgs false
set_option linter.unusedVariables false
/-!
  Props.PostSignGen — `createPostSignature` (post.go) is *translated* (standalone; `signature.GetSigner` and
  `signature.Create` - the enveloped XML signature of the third-party signer - are typed oracles; the response is an
  in-out parameter: the function returns it with the signature set).
-/
namespace C04
open Go Gen Lib Consts

/-- **what the regenerated `createPostSignature` signs and where it puts the signature**: on success the signer was
    built from exactly the certificate, key and algorithm handed in, the signature is the one `signature.Create` made
    over the assertion *as handed in*, it is stored in that assertion's `Signature` and nothing else of the response
    changes -/
theorem createPostSignature_signs (o : Ora) (m : samlp_ResponseType) (key : Option KeyRec) (cert : Lib.Bytes) (alg : String)
    (r' : Option samlp_ResponseType) (h : createPostSignature o (some m) key cert alg = .ok (none, r')) :
    ∃ signer sig, o.f_GetSigner cert key alg = (signer, none) ∧ o.f_Create_AssertionType signer m.Assertion = (sig, none) ∧
      r' = some { m with Assertion := { m.Assertion with Signature := sig } } := by
  unfold createPostSignature createPostSignature.body at h
  rcases hs : o.f_GetSigner cert key alg with ⟨signer, e1⟩
  cases e1 with
  | some e => simp [hs, Ctl.toRes] at h
  | none =>
    rcases hc : o.f_Create_AssertionType signer m.Assertion with ⟨sig, e2⟩
    cases e2 with
    | some e => simp [hs, hc, Ctl.toRes, deref] at h
    | none =>
      simp [hs, hc, Ctl.toRes, deref] at h
      exact ⟨signer, sig, rfl, by simp [hc], h.symm⟩

/-- a failing signer or signature leaves the response as it was (no half-signed message) and never panics -/
theorem createPostSignature_failure (o : Ora) (m : samlp_ResponseType) (key : Option KeyRec) (cert : Lib.Bytes) (alg : String) :
    createPostSignature o (some m) key cert alg ≠ .panic ∧
    ∀ e r', createPostSignature o (some m) key cert alg = .ok (some e, r') → r' = some m := by
  unfold createPostSignature createPostSignature.body
  rcases hs : o.f_GetSigner cert key alg with ⟨signer, e1⟩
  cases e1 with
  | some e => simp [hs, Ctl.toRes]
  | none =>
    rcases hc : o.f_Create_AssertionType signer m.Assertion with ⟨sig, e2⟩
    cases e2 with
    | some e => simp [hs, hc, Ctl.toRes, deref]
    | none => simp [hs, hc, Ctl.toRes, deref]

end C04
