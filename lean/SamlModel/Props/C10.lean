import SamlModel.Props.SsoLemmas
import SamlModel.Props.C08
import SamlModel.Props.C01
import SamlModel.Props.C12
import SamlModel.Props.C13
import SamlModel.Model.Metadata
set_option linter.unusedSimpArgs false
set_option linter.unusedVariables false
/-!
  C10 — Storage and key failures fail closed.  In the handler models a storage or key operation is an input
  whose failure is `none` / `false` / an error in the oracle record; the theorems say that every such failure
  ends in an error reply: no Success assertion, no user data, no signed metadata, no persistence afterwards.
-/
namespace C10
open Go Gen Consts

/-- the response-signing-key getter fails: a returned error, a nil record, a missing key or certificate, an
    empty certificate — everything the generated `getResponseCert` turns into an error -/
def respKeyFails (o : Ora) : Prop := ∃ cert key e, getResponseCert o () = .ok (cert, key, some e)

/-! ### SSO endpoint -/

theorem C10_sso_key_failure (o : Ora) (i : Sso.In) (h : i.metaErr = true) :
    Sso.sso o i = { out := .httpError 500, persist := none } := by
  unfold Sso.sso; simp [h]

theorem C10_sso_lookup_failure (o : Ora) (i : Sso.In) (h : i.sp = none) :
    (∀ id, (Sso.sso o i).out ≠ .login id) ∧ (Sso.sso o i).persist = none := by
  constructor
  · intro id hl
    obtain ⟨_, _, _, sp, _, _, a⟩ := Sso.accepted_of_login o i id hl
    have := a.hsp; rw [h] at this; cases this
  · unfold Sso.sso
    split
    · rfl
    split
    · rfl
    unfold Sso.ssoAfterForm
    split
    · rfl
    split
    · rfl
    split
    · rfl
    split
    · rfl
    split
    · rfl
    · rename_i sp hsp; rw [h] at hsp; cases hsp

theorem C10_sso_persist_failure (o : Ora) (i : Sso.In) (h : i.createOk = false) :
    (∀ id, (Sso.sso o i).out ≠ .login id) ∧ (∀ p, (Sso.sso o i).persist = some p → p.ok = false) := by
  have hno : ∀ id, (Sso.sso o i).out ≠ .login id := by
    intro id hl
    obtain ⟨_, _, _, _, _, _, a⟩ := Sso.accepted_of_login o i id hl
    have := a.hcreate; rw [h] at this; cases this
  refine ⟨hno, ?_⟩
  intro p hp
  cases hok : p.ok with
  | false => rfl
  | true => exact absurd ((C08.C08_login_iff_persisted o i).mp ⟨p, hp, hok⟩) (hno _)

/-! ### login callback -/

theorem C10_callback_fail_closed (o : Ora) (i : Callback.In)
    (h : i.stored = none ∨ i.entity = none ∨ i.userinfo = none ∨ i.signOk = false ∨ respKeyFails o) :
    ¬ C01.successOut (Callback.callback o i) := by
  intro hs
  obtain ⟨_, _, rec, hrec, _, hent, hui, hsign, cert, key, hkey⟩ := C01.C01_success_only_if_done o i hs
  rcases h with h | h | h | h | ⟨c, k, e, h⟩
  · rw [h] at hrec; cases hrec
  · rw [h] at hent; cases hent
  · rw [h] at hui; cases hui
  · rw [h] at hsign; cases hsign
  · rw [h] at hkey; cases hkey

/-- and then nothing about the user is in the reply (C01_no_leak) -/
theorem C10_callback_no_user_data (o : Ora) (i : Callback.In) (d : Callback.Delivery) (m : Callback.Msg) (s : Callback.Sig)
    (hr : Callback.callback o i = .reply d m s)
    (h : i.stored = none ∨ i.entity = none ∨ i.userinfo = none ∨ i.signOk = false ∨ respKeyFails o) :
    m.status ≠ statusSuccess ∧ m.assertion = none ∧ s = .none := by
  have hns : m.status ≠ statusSuccess := fun hst => C10_callback_fail_closed o i h ⟨d, m, s, hr, hst⟩
  exact ⟨hns, C01.C01_no_leak o i d m s hr hns⟩

/-- the entity lookup failure is an HTTP 500 -/
theorem C10_callback_entity_failure (o : Ora) (i : Callback.In) (rec : Callback.Rec) (hp : i.parseErr = false) (hid : i.id ≠ "")
    (hr : i.stored = some rec) (he : i.entity = none) : Callback.callback o i = .httpError 500 := by
  unfold Callback.callback; simp [hp, hid, hr, he]

/-! ### logout -/

theorem C10_logout_lookup_failure (o : Ora) (i : Logout.In) (h : i.sp = none) :
    ¬ ∃ d m, Logout.logout o i = .reply d m ∧ m.status = statusSuccess := by
  intro hs
  have hw : ∀ sp, i.sp = some sp → C13.SpWF sp := by intro sp hsp; rw [h] at hsp; cases hsp
  obtain ⟨req, sp, _, _, _, hsp, _⟩ := (C13.C13_success_iff o i hw).mp hs
  rw [h] at hsp; cases hsp

/-! ### attribute query -/

theorem C10_attrquery_fail_closed (o : Ora) (i : AttrQuery.In) (a : AttrQuery.Answer)
    (h : i.sp = none ∨ i.userinfo = none ∨ i.signOk = false ∨ i.metaErr = true) :
    AttrQuery.attrQuery o i ≠ .answer a := by
  intro ha
  obtain ⟨q, sp, subj, attrs, m, _, hsp, _, hui, _, _, _, _, _, _, _, hsign⟩ := C12.C12_content o i a ha
  rcases h with h | h | h | h
  · rw [h] at hsp; cases hsp
  · rw [h] at hui; cases hui
  · rw [h] at hsign; cases hsign
  · unfold AttrQuery.attrQuery at ha; simp [h] at ha

theorem C10_attrquery_key_failure (o : Ora) (i : AttrQuery.In) (a : AttrQuery.Answer) (h : respKeyFails o) :
    AttrQuery.attrQuery o i ≠ .answer a := by
  intro ha
  obtain ⟨c, k, e, hk⟩ := h
  unfold AttrQuery.attrQuery at ha
  split at ha
  · simp at ha
  split at ha
  · simp at ha
  split at ha
  · simp at ha
  · simp at ha
  split at ha
  · simp at ha
  split at ha
  · simp at ha
  split at ha
  · simp at ha
  split at ha
  · simp at ha
  split at ha
  · simp at ha
  split at ha
  · simp at ha
  split at ha
  · simp at ha
  split at ha
  · simp at ha
  split at ha
  · simp at ha
  split at ha
  · simp at ha
  split at ha
  · rw [hk] at ha
    simp at ha
  · simp at ha

/-! ### metadata, certificate, readiness -/

theorem C10_metadata_key_failure (o : Ora) (c : Metadata.Cfg) (i : Metadata.In) (h : respKeyFails o) :
    Metadata.metadata o c i = .httpError 500 := by
  obtain ⟨ce, k, e, hk⟩ := h
  unfold Metadata.metadata; simp [hk]

/-- no signed metadata after a metadata-key or signing failure -/
theorem C10_metadata_signing_failure (o : Ora) (c : Metadata.Cfg) (i : Metadata.In) (hs : c.signMetadata = true)
    (h : i.metaKeyOk = false ∨ i.signOk = false) : ∀ d, Metadata.metadata o c i ≠ .doc d := by
  intro d hd
  unfold Metadata.metadata at hd
  split at hd
  · simp at hd
  split at hd
  · simp at hd
  rcases h with h | h
  · simp [hs, h] at hd
  · by_cases hk : i.metaKeyOk = true <;> simp [hs, h, hk] at hd

theorem C10_certificate_key_failure (o : Ora) (h : respKeyFails o) : Metadata.certificate o = .httpError 500 := by
  obtain ⟨ce, k, e, hk⟩ := h
  unfold Metadata.certificate; simp [hk]

theorem C10_readiness (i : Metadata.In) (h : i.healthOk = false) : Metadata.ready i = .httpError 500 := by
  unfold Metadata.ready; simp [h]

/-- which key shapes count as failure: the generated `getResponseCert` on what storage returns -/
theorem C10_key_shapes (o : Ora) (h : o.m_GetResponseSigningKey.2.isSome ∨ o.m_GetResponseSigningKey.1 = none ∨
      (∃ ck, o.m_GetResponseSigningKey.1 = some ck ∧ (ck.Key = none ∨ ck.Certificate = []))) :
    respKeyFails o := by
  unfold respKeyFails getResponseCert getResponseCert.body
  rcases h with h | h | ⟨ck, hck, h⟩
  · cases he : o.m_GetResponseSigningKey.2 with
    | none => simp [he] at h
    | some e => exact ⟨_, _, _, by simp [he, Ctl.toRes]; exact ⟨rfl, rfl, rfl⟩⟩
  · cases he : o.m_GetResponseSigningKey.2 with
    | some e => exact ⟨_, _, _, by simp [he, Ctl.toRes]; exact ⟨rfl, rfl, rfl⟩⟩
    | none => exact ⟨_, _, _, by simp [he, h, Ctl.toRes, deref]; exact ⟨rfl, rfl, rfl⟩⟩
  · cases he : o.m_GetResponseSigningKey.2 with
    | some e => exact ⟨_, _, _, by simp [he, Ctl.toRes]; exact ⟨rfl, rfl, rfl⟩⟩
    | none =>
      rcases h with h | h
      · exact ⟨_, _, _, by simp [he, hck, h, Ctl.toRes, deref]; exact ⟨rfl, rfl, rfl⟩⟩
      · cases hk : ck.Key with
        | none => exact ⟨_, _, _, by simp [he, hck, hk, Ctl.toRes, deref]; exact ⟨rfl, rfl, rfl⟩⟩
        | some kk => exact ⟨_, _, _, by simp [he, hck, hk, h, Ctl.toRes, deref]; exact ⟨rfl, rfl, rfl⟩⟩

theorem C10_source_current :
    FactsUtil.sameHashes ["provider.Readiness", "provider.ReadyStorage"] = true := by decide

end C10
