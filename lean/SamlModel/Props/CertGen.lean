import SamlModel.Props.C10
set_option linter.unusedSimpArgs false
set_option linter.unusedVariables false
/-!
  Props.CertGen — `IdentityProvider.certificateHandleFunc` is *translated* (go2lean, regenerated on every run): the local
  `bytes.Buffer` is the bytes written to it, `pem.Encode` a library oracle (`pemEncode`), `w.Header().Set` and
  `io.Copy(w, buffer)` effects of the returned trace, the error of the copy the write oracle.

  `certificateHandle_spec` characterises the regenerated handler for every answer of its environment; C10 (no
  certificate when the key getter fails), C09 (no panic) and the refinement of the hand model `Metadata.certificate`
  follow.
-/
namespace CertGen
open Go Gen Consts

variable (o : Ora) (idp : provider_IdentityProvider)

/-- what follows the PEM body: nothing, or the (too late) 500 -/
def afterCopy : List Eff :=
  match o.writeErr "IdentityProvider_certificateHandleFunc" 0 with
  | none => []
  | some e => [.httpError ("failed to response with certificate: " ++ e) 500]

/-- **the regenerated certificate handler, specified** -/
theorem certificateHandle_spec :
    IdentityProvider_certificateHandleFunc o (some idp) =
      match getResponseCert o idp.storage with
      | .panic => .panic
      | .ok (_, _, some e) => .ok [.httpError ("failed to read certificate: " ++ e) 500]
      | .ok (cert, _, none) =>
        match o.pemEncode "CERTIFICATE" cert with
        | (_, some e) => .ok [.httpError ("failed to pem encode certificate: " ++ e) 500]
        | (pem, none) =>
          .ok ([.setHeader "Content-Disposition" "attachment; filename=idp.crt", .setHeader "Content-Type" (o.headerGet "Content-Type"),
                .writeBody pem] ++ afterCopy o) := by
  unfold IdentityProvider_certificateHandleFunc IdentityProvider_certificateHandleFunc.body
  cases hk : getResponseCert o idp.storage with
  | panic => simp [hk, Res.isPanic, deref, Ctl.toRes]
  | ok t =>
    obtain ⟨cert, key, e⟩ := t
    cases e with
    | some e => simp [hk, Res.isPanic, Res.get, deref, Ctl.toRes]
    | none =>
      rcases hp : o.pemEncode "CERTIFICATE" cert with ⟨pem, pe⟩
      cases pe with
      | some pe => simp [hk, hp, Res.isPanic, Res.get, deref, Ctl.toRes]
      | none =>
        cases hw : o.writeErr "IdentityProvider_certificateHandleFunc" 0 <;>
          simp [hk, hp, hw, Res.isPanic, Res.get, deref, Ctl.toRes, afterCopy]

/-- **C10 on the regenerated certificate handler (fail closed).**  When the response signing key cannot be obtained -
    the getter reports an error, returns no record, a record without key or certificate - the handler answers HTTP 500
    and writes no certificate: the trace is exactly one `http.Error`. -/
theorem C10_generated_certificate_key_failure (cert : Lib.Bytes) (key : Option KeyRec) (e : String)
    (h : getResponseCert o idp.storage = .ok (cert, key, some e)) :
    IdentityProvider_certificateHandleFunc o (some idp) = .ok [.httpError ("failed to read certificate: " ++ e) 500] := by
  rw [certificateHandle_spec, h]

/-- the regenerated handler writes a body only with the key getter's certificate, PEM-encoded by the library: the
    certificate offered for download is the one responses are signed with (C11) -/
theorem C11_generated_certificate_body (body : Lib.Bytes) (pre post : List Eff)
    (h : IdentityProvider_certificateHandleFunc o (some idp) = .ok (pre ++ .writeBody body :: post)) :
    ∃ cert key, getResponseCert o idp.storage = .ok (cert, key, none) ∧ (o.pemEncode "CERTIFICATE" cert) = (body, none) := by
  rw [certificateHandle_spec] at h
  cases hk : getResponseCert o idp.storage with
  | panic => rw [hk] at h; simp at h
  | ok t =>
    obtain ⟨cert, key, e⟩ := t
    rw [hk] at h
    cases e with
    | some e =>
      simp only [Res.ok.injEq] at h
      have := congrArg (fun l => l.any (fun x => match x with | .writeBody _ => true | _ => false)) h
      simp at this
    | none =>
      refine ⟨cert, key, rfl, ?_⟩
      rcases hp : o.pemEncode "CERTIFICATE" cert with ⟨pem, pe⟩
      simp only [hp] at h
      cases pe with
      | some pe =>
        simp only [Res.ok.injEq] at h
        have := congrArg (fun l => l.any (fun x => match x with | .writeBody _ => true | _ => false)) h
        simp at this
      | none =>
        simp only [Res.ok.injEq] at h
        have hb := congrArg (fun l => l.filterMap (fun x => match x with | .writeBody b => some b | _ => none)) h
        have hnone : (afterCopy o).filterMap (fun x => match x with | .writeBody b => some b | _ => none) = [] := by
          unfold afterCopy; cases o.writeErr "IdentityProvider_certificateHandleFunc" 0 <;> simp
        simp [List.filterMap_append, hnone] at hb
        -- hb : [pem] = (filterMap pre) ++ body :: (filterMap post)
        have : pem = body := by
          cases hpre : pre.filterMap (fun x => match x with | .writeBody b => some b | _ => none) with
          | nil => rw [hpre] at hb; simp at hb; exact hb.1
          | cons a l => rw [hpre] at hb; simp at hb
        rw [this]

/-- **C09 on the regenerated certificate handler**: no panic, whatever the storage returns -/
theorem C09_generated_certificate_handler : IdentityProvider_certificateHandleFunc o (some idp) ≠ .panic := by
  rw [certificateHandle_spec]
  have hnp : getResponseCert o idp.storage ≠ .panic := by
    unfold getResponseCert getResponseCert.body
    rcases hg : o.m_GetResponseSigningKey with ⟨ck, e⟩
    cases e with
    | some e => simp [hg, Ctl.toRes]
    | none =>
      cases ck with
      | none => simp [hg, Ctl.toRes, deref]
      | some ck =>
        by_cases h1 : ck.Key = none <;> by_cases h2 : ck.Certificate = [] <;>
          simp [hg, Ctl.toRes, deref, h1, h2]
  cases hk : getResponseCert o idp.storage with
  | panic => exact absurd hk hnp
  | ok t =>
  obtain ⟨cert, key, e⟩ := t
  cases e with
  | some e => simp
  | none =>
    rcases hp : o.pemEncode "CERTIFICATE" cert with ⟨pem, pe⟩
    cases pe <;> simp [hp]

/-- the hand model `Metadata.certificate` is what the regenerated handler does, read through the observation
    "HTTP 500 / the PEM of this certificate" -/
theorem certificate_refines (st : Unit) (hst : idp.storage = st) :
    match Metadata.certificate o with
    | .panic => IdentityProvider_certificateHandleFunc o (some idp) = .panic
    | .httpError _ => ∃ m, IdentityProvider_certificateHandleFunc o (some idp) = .ok [.httpError m 500] ∨
        (∃ cert key, getResponseCert o () = .ok (cert, key, none) ∧ (o.pemEncode "CERTIFICATE" cert).2.isSome)
    | .pem cert => (o.pemEncode "CERTIFICATE" cert).2.isSome ∨
        ∃ rest, IdentityProvider_certificateHandleFunc o (some idp) =
          .ok (.setHeader "Content-Disposition" "attachment; filename=idp.crt" :: .setHeader "Content-Type" (o.headerGet "Content-Type") ::
            .writeBody (o.pemEncode "CERTIFICATE" cert).1 :: rest)
    | _ => True := by
  have hu : idp.storage = () := rfl
  rw [certificateHandle_spec, hu]
  unfold Metadata.certificate
  cases hk : getResponseCert o () with
  | panic => simp
  | ok t =>
    obtain ⟨cert, key, e⟩ := t
    cases e with
    | some e => simp
    | none =>
      simp
      rcases hp : o.pemEncode "CERTIFICATE" cert with ⟨pem, pe⟩
      cases pe with
      | some pe => left; simp
      | none => right; exact ⟨_, rfl⟩

end CertGen
