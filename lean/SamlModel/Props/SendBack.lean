import SamlModel.Props.HandlerGen
import SamlModel.Lemmas.ByteIndex
import SamlModel.Lemmas.Redirect
set_option linter.unusedSimpArgs false
set_option linter.unusedVariables false
/-!
  Props.SendBack — `Response.sendBackResponse` is *translated* (go2lean regenerates it from response.go on every run: the
  writes to the client — `xml.Write`, the POST template, `http.Redirect`, the `ErrorFunc` callback — are the effect trace
  it returns; `xml.Marshal`, `xml.DeflateAndBase64` and the error a write returns are typed oracles; `strings.Index`,
  the two string slices and `strings.Contains` are the byte-offset functions of Lib.Strings).

  `sendBack_renders`: for every `Response`, message and environment the generated function writes exactly `render`:
  the marshalled message as the body when there is no consumer URL or the binding is neither POST nor Redirect, the
  auto-submitting form with (RelayState, base64 message, consumer URL) for POST, and for Redirect a 302 to
  `Lib.Url.redirectURL acs (buildQ …)` — the consumer URL with the message parameters inserted before its fragment,
  joined by `?` or `&` — which is the URL the theorems of C02 (`C02_wire_redirect`) and C04 (`C04_redirect_url…`) are
  about.  `sendBack_delivers` reads the same off `Callback.deliver`, the hand model's one-step summary of this function.
-/
namespace SendBack
open Go Gen Consts Callback Redirect

/-- what follows a write: nothing, or the error callback with the write error -/
def after (o : Ora) (k : Nat) : List Eff :=
  match o.writeErr "Response_sendBackResponse" k with
  | none => []
  | some e => [.callErrorFunc e]

/-- what `sendBackResponse` writes -/
def render (o : Ora) (resp : provider_Response) (m : Option samlp_ResponseType) : List Eff :=
  match o.f_Marshal_ResponseType m with
  | (_, some e) => [.callErrorFunc e]
  | (data, none) =>
    if resp.AcsUrl = "" then .xmlWrite data :: after o 0
    else if resp.ProtocolBinding = postBinding then
      .templateExecute { RelayState := resp.RelayState, SAMLResponse := Lib.b64encode data, AssertionConsumerServiceURL := resp.AcsUrl } ::
        after o 1
    else if resp.ProtocolBinding = redirectBinding then
      match o.f_DeflateAndBase64 data with
      | (_, some e) => [.callErrorFunc e]
      | (d, none) =>
        [.httpRedirect (String.ofList (Lib.Url.redirectURL resp.AcsUrl.toList
          (buildQ (Lib.bytesToString d) resp.RelayState resp.SigAlg resp.Signature))) 302]
    else .xmlWrite data :: after o 2

theorem takeWhile_all {α} (p : α → Bool) (l : List α) (h : ∀ c ∈ l, p c = true) : l.takeWhile p = l := by
  induction l with
  | nil => rfl
  | cons x xs ih => simp [List.takeWhile_cons, h x (by simp), ih (fun c hc => h c (by simp [hc]))]

theorem dropWhile_all {α} (p : α → Bool) (l : List α) (h : ∀ c ∈ l, p c = true) : l.dropWhile p = [] := by
  induction l with
  | nil => rfl
  | cons x xs ih => simp [List.dropWhile_cons, h x (by simp), ih (fun c hc => h c (by simp [hc]))]

/-- the URL of the redirect, as the generated code computes it (`strings.Index` / slices / `strings.Contains`) -/
theorem redirect_target (acs q : String) :
    (if Lib.indexChar acs '#' ≥ 0 then
        Lib.byteTake acs (Lib.indexChar acs '#') ++
          (if (Lib.byteTake acs (Lib.indexChar acs '#')).toList.contains '?' then "&" else "?") ++ q ++
          Lib.byteDrop acs (Lib.indexChar acs '#')
      else acs ++ (if acs.toList.contains '?' then "&" else "?") ++ q ++ "") =
      String.ofList (Lib.Url.redirectURL acs.toList q.toList) := by
  apply String.toList_inj.mp
  by_cases h : '#' ∈ acs.toList
  · have hi : Lib.indexChar acs '#' ≥ 0 := by rw [Lib.indexChar_nonneg acs '#' h]; omega
    rw [if_pos hi, Lib.byteTake_indexChar acs '#' h, Lib.byteDrop_indexChar acs '#' h]
    by_cases hq : '?' ∈ List.takeWhile (fun x => x != '#') acs.toList <;>
      simp [Lib.Url.redirectURL, Lib.Url.redirectTarget, Lib.Url.redirectFragment, hq]
  · have hi : ¬ Lib.indexChar acs '#' ≥ 0 := by rw [Lib.indexChar_neg acs '#' h]; omega
    rw [if_neg hi]
    have hall : ∀ c ∈ acs.toList, (c != '#') = true := by
      intro c hc
      simp
      intro hcc
      exact h (hcc ▸ hc)
    have ht := takeWhile_all (fun x => x != '#') acs.toList hall
    have hd := dropWhile_all (fun x => x != '#') acs.toList hall
    by_cases hq : '?' ∈ acs.toList <;>
      simp [Lib.Url.redirectURL, Lib.Url.redirectTarget, Lib.Url.redirectFragment, hq, ht, hd]

/-- **`sendBackResponse` as regenerated from response.go writes exactly `render`**, for every `Response`, every message
    and every answer of the marshaller, the compressor and the client connection; it never panics (the slice offsets it
    computes are within the consumer URL) -/
theorem sendBack_renders (o : Ora) (resp : provider_Response) (m : Option samlp_ResponseType) :
    Response_sendBackResponse o (some resp) m = .ok (render o resp m) := by
  rcases hm : o.f_Marshal_ResponseType m with ⟨data, e⟩
  cases e with
  | some e => simp [Response_sendBackResponse, Response_sendBackResponse.body, Ctl.toRes, hm, render]
  | none =>
    by_cases hacs : resp.AcsUrl = ""
    · cases hw : o.writeErr "Response_sendBackResponse" 0 <;>
        simp [Response_sendBackResponse, Response_sendBackResponse.body, Ctl.toRes, hm, render, hacs, deref, after, hw]
    · by_cases hp : resp.ProtocolBinding = postBinding
      · have hp' : resp.ProtocolBinding = "urn:oasis:names:tc:SAML:2.0:bindings:HTTP-POST" := hp
        cases hw : o.writeErr "Response_sendBackResponse" 1 <;>
          simp [Response_sendBackResponse, Response_sendBackResponse.body, Ctl.toRes, hm, render, hacs, deref, after, hw, hp', postBinding]
      · have hp' : ¬ resp.ProtocolBinding = "urn:oasis:names:tc:SAML:2.0:bindings:HTTP-POST" := hp
        by_cases hr : resp.ProtocolBinding = redirectBinding
        · have hr' : resp.ProtocolBinding = "urn:oasis:names:tc:SAML:2.0:bindings:HTTP-Redirect" := hr
          rcases hd : o.f_DeflateAndBase64 data with ⟨d, e⟩
          cases e with
          | some e =>
            simp [Response_sendBackResponse, Response_sendBackResponse.body, Ctl.toRes, hm, render, hacs, deref, hr', hd, postBinding, redirectBinding]
          | none =>
            have hq := BuildRedirectQuery_eq o (Lib.bytesToString d) resp.RelayState resp.SigAlg resp.Signature
            have ht := redirect_target resp.AcsUrl (String.ofList (buildQ (Lib.bytesToString d) resp.RelayState resp.SigAlg resp.Signature))
            have hlen := Lib.indexChar_le_len resp.AcsUrl '#'
            by_cases hi : 0 ≤ Lib.indexChar resp.AcsUrl '#'
            · have hi' : Lib.indexChar resp.AcsUrl '#' ≥ 0 := hi
              have hn : ¬ Lib.indexChar resp.AcsUrl '#' < 0 := by omega
              have hn2 : ¬ Lib.goLen resp.AcsUrl < Lib.indexChar resp.AcsUrl '#' := by omega
              rw [if_pos hi'] at ht
              by_cases hc : '?' ∈ (Lib.byteTake resp.AcsUrl (Lib.indexChar resp.AcsUrl '#')).toList
              · have hc' : (Lib.byteTake resp.AcsUrl (Lib.indexChar resp.AcsUrl '#')).toList.contains '?' = true := by simpa using hc
                rw [if_pos hc'] at ht
                simp [Response_sendBackResponse, Response_sendBackResponse.body, Ctl.toRes, hm, render, hacs, deref, hr', hd, postBinding, redirectBinding, hq, Res.isPanic, Res.get, hi, hn, hn2, hc]
                simpa using ht
              · have hc' : ¬ (Lib.byteTake resp.AcsUrl (Lib.indexChar resp.AcsUrl '#')).toList.contains '?' = true := by simpa using hc
                rw [if_neg hc'] at ht
                simp [Response_sendBackResponse, Response_sendBackResponse.body, Ctl.toRes, hm, render, hacs, deref, hr', hd, postBinding, redirectBinding, hq, Res.isPanic, Res.get, hi, hn, hn2, hc]
                simpa using ht
            · have hi' : ¬ Lib.indexChar resp.AcsUrl '#' ≥ 0 := hi
              rw [if_neg hi'] at ht
              by_cases hc : '?' ∈ resp.AcsUrl.toList
              · have hc' : resp.AcsUrl.toList.contains '?' = true := by simpa using hc
                rw [if_pos hc'] at ht
                simp [Response_sendBackResponse, Response_sendBackResponse.body, Ctl.toRes, hm, render, hacs, deref, hr', hd, postBinding, redirectBinding, hq, Res.isPanic, Res.get, hi, hc]
                simpa using ht
              · have hc' : ¬ resp.AcsUrl.toList.contains '?' = true := by simpa using hc
                rw [if_neg hc'] at ht
                simp [Response_sendBackResponse, Response_sendBackResponse.body, Ctl.toRes, hm, render, hacs, deref, hr', hd, postBinding, redirectBinding, hq, Res.isPanic, Res.get, hi, hc]
                simpa using ht
        · have hr' : ¬ resp.ProtocolBinding = "urn:oasis:names:tc:SAML:2.0:bindings:HTTP-Redirect" := hr
          cases hw : o.writeErr "Response_sendBackResponse" 2 <;>
            simp [Response_sendBackResponse, Response_sendBackResponse.body, Ctl.toRes, hm, render, hacs, deref, after, hw, hp', hr', postBinding, redirectBinding]

/-- **the hand model's delivery is what the regenerated `sendBackResponse` does**: `Callback.deliver` names the first
    write of `render` — the body, the POST form with exactly (RelayState, base64 message, consumer URL), or the redirect
    to `Lib.Url.redirectURL` of the consumer URL and the message parameters -/
theorem sendBack_delivers (o : Ora) (resp : provider_Response) (m : Option samlp_ResponseType) (data : Lib.Bytes)
    (hm : o.f_Marshal_ResponseType m = (data, none)) :
    match Callback.deliver resp.AcsUrl resp.ProtocolBinding resp.RelayState with
    | .xmlBody => (render o resp m).head? = some (.xmlWrite data)
    | .postForm acs relay =>
      (render o resp m).head? = some (.templateExecute { RelayState := relay, SAMLResponse := Lib.b64encode data, AssertionConsumerServiceURL := acs })
    | .redirect acs relay =>
      ∀ d, o.f_DeflateAndBase64 data = (d, none) →
        render o resp m = [.httpRedirect (String.ofList (Lib.Url.redirectURL acs.toList
          (buildQ (Lib.bytesToString d) relay resp.SigAlg resp.Signature))) 302] := by
  unfold Callback.deliver render
  rw [hm]
  by_cases hacs : resp.AcsUrl = ""
  · simp [hacs]
  · by_cases hp : resp.ProtocolBinding = postBinding
    · simp [hacs, hp]
    · by_cases hr : resp.ProtocolBinding = redirectBinding
      · have : ¬ redirectBinding = postBinding := by decide
        simp [hacs, hr, this]
        intro d hd
        simp [hd]
      · simp [hacs, hp, hr]

end SendBack
