import SamlModel.Props.CheckerGen
import SamlModel.Exec.C20
import SamlModel.Model.FactsUtil
set_option linter.unusedSimpArgs false
/-!
  C20 — Validation chains stop at the first failure and report it exactly once.
  Theorems about the checker model (`Model.Checker`, hand translation of checker.go, tied to the
  source by fingerprint + exhaustive `chk` correspondence) for **all** programs: any length, any
  parameters.
-/
namespace C20
open Checker

/-- the closure that `addDesc` appends for step `i` described by `d` -/
def stepFn (i : Nat) (d : StepDesc) : M Trace Bool :=
  ((addDesc { steps := [] } i d).steps).headD (fun t => (false, t))

theorem addDesc_steps (c : Checker Trace) (i : Nat) (d : StepDesc) :
    (addDesc c i d).steps = c.steps ++ [stepFn i d] := by
  cases d <;> rfl

/-- **append-only**: adding a step leaves the earlier steps untouched and puts the new one last -/
theorem C20_append_only (c : Checker Trace) (k : Nat) (prog : List StepDesc) (d : StepDesc) :
    (buildFrom c k (prog ++ [d])).steps = (buildFrom c k prog).steps ++ [stepFn (k + prog.length) d] := by
  induction prog generalizing c k with
  | nil => simp [buildFrom, addDesc_steps]
  | cons x xs ih =>
    simp only [List.cons_append, buildFrom, List.length_cons]
    rw [ih]
    have : k + 1 + xs.length = k + (xs.length + 1) := by omega
    rw [this]

theorem buildFrom_steps (c : Checker Trace) (k : Nat) (prog : List StepDesc) :
    (buildFrom c k prog).steps = c.steps ++ (prog.zipIdx k).map (fun p => stepFn p.2 p.1) := by
  induction prog generalizing c k with
  | nil => simp [buildFrom]
  | cons d ds ih =>
    simp only [buildFrom, ih, addDesc_steps, List.zipIdx_cons, List.map_cons, List.append_assoc, List.singleton_append]

/-- behaviour of one step: it fails exactly on the documented condition, performs exactly the
    documented reads, and runs its failure callback once iff it fails -/
theorem step_run (i : Nat) (d : StepDesc) (t : Trace) :
    stepFn i d t = (fails d, t ++ reads i d ++ (if fails d then [⟨i, .error⟩] else [])) := by
  cases d with
  | notEmpty v =>
    by_cases h : v = "" <;> simp [stepFn, addDesc, withValueNotEmptyCheck, addStep, logged, fails, reads, h]
  | valuesNotEmpty vs =>
    have hany : anyEmpty vs = vs.any (· == "") := by
      induction vs with
      | nil => rfl
      | cons x xs ih => by_cases hx : x = "" <;> simp [anyEmpty, hx, ih]
    by_cases h : vs.any (· == "") = true <;>
      simp [stepFn, addDesc, withValuesNotEmptyCheck, addStep, logged, fails, reads, hany, h]
  | length v mn mx =>
    by_cases h1 : mn > 0 <;> by_cases h2 : Lib.goLen v < mn <;> by_cases h3 : mx > 0 <;> by_cases h4 : Lib.goLen v > mx <;>
      simp [stepFn, addDesc, withValueLengthCheck, addStep, logged, fails, reads, h1, h2, h3, h4]
  | equals v e =>
    by_cases h : v = e <;> simp [stepFn, addDesc, withValueEqualsCheck, addStep, logged, fails, reads, h]
  | condNotEmpty c v =>
    cases c <;> by_cases h : v = "" <;>
      simp [stepFn, addDesc, withConditionalValueNotEmpty, addStep, logged, fails, reads, h]
  | condLogic c e =>
    cases c <;> cases e <;> simp [stepFn, addDesc, withConditionalLogicStep, addStep, logged, fails, reads]
  | logic e =>
    cases e <;> simp [stepFn, addDesc, withLogicStep, addStep, logged, fails, reads]
  | valueStep => simp [stepFn, addDesc, withValueStep, addStep, logged, fails, reads]

theorem runSteps_ref (k : Nat) (prog : List StepDesc) (t : Trace) :
    runSteps ((prog.zipIdx k).map (fun p => stepFn p.2 p.1)) t = ((refFrom k prog).1, t ++ (refFrom k prog).2) := by
  induction prog generalizing k t with
  | nil => simp [runSteps, refFrom]
  | cons d ds ih =>
    simp only [List.zipIdx_cons, List.map_cons, runSteps, step_run, refFrom]
    by_cases h : fails d = true
    · simp [h]
    · have h' : fails d = false := by simpa using h
      simp [h', ih]

/-- **C20 backbone.** For every program, started from any trace, the chain behaves exactly like the
    reference interpreter: same verdict, same invocations in the same order. -/
theorem C20_run_eq_ref (prog : List StepDesc) (t : Trace) :
    checkFailed (build prog) t = ((refRun prog).1, t ++ (refRun prog).2) := by
  unfold checkFailed build refRun
  rw [buildFrom_steps]
  simpa using runSteps_ref 0 prog t

theorem C20_holdsOn (prog : List StepDesc) : holdsOn prog = true := by
  simp [holdsOn, C20_run_eq_ref]

/-- re-evaluating a chain repeats the same behaviour -/
theorem C20_reevaluation (prog : List StepDesc) (t : Trace) :
    let r1 := checkFailed (build prog) t
    let r2 := checkFailed (build prog) r1.2
    r2.1 = r1.1 ∧ r2.2 = r1.2 ++ (refRun prog).2 ∧ r1.2 = t ++ (refRun prog).2 := by
  simp [C20_run_eq_ref]

/-! ### consequences, stated on the reference run (equal to the chain's run by `C20_run_eq_ref`) -/

/-- the chain reports failure iff some step failed -/
theorem refFrom_failed_iff (k : Nat) (prog : List StepDesc) : (refFrom k prog).1 = prog.any fails := by
  induction prog generalizing k with
  | nil => rfl
  | cons d ds ih =>
    by_cases h : fails d = true
    · simp [refFrom, h]
    · have h' : fails d = false := by simpa using h
      simp [refFrom, h', ih]

theorem C20_failed_iff (prog : List StepDesc) (t : Trace) :
    (checkFailed (build prog) t).1 = prog.any fails := by
  rw [C20_run_eq_ref]; exact refFrom_failed_iff 0 prog

private theorem reads_all (i : Nat) (d : StepDesc) :
    (reads i d).all (fun e => e.step == i && e.role != .error) = true := by
  cases d with
  | length v mn mx =>
    by_cases h1 : mn > 0 <;> by_cases h2 : Lib.goLen v < mn <;> by_cases h3 : mx > 0 <;> simp [reads, h1, h2, h3]
  | equals v e => by_cases h : v = e <;> simp [reads, h]
  | condNotEmpty c v => cases c <;> simp [reads]
  | condLogic c e => cases c <;> simp [reads]
  | notEmpty v => simp [reads]
  | valuesNotEmpty vs => simp [reads]
  | logic e => simp [reads]
  | valueStep => simp [reads]

private theorem reads_step (i : Nat) (d : StepDesc) : ∀ e ∈ reads i d, e.step = i ∧ e.role ≠ .error := by
  intro e he
  have := List.all_eq_true.mp (reads_all i d) e he
  simpa using this

/-- every event of the run belongs to a step of the program; a callback (`error` event) occurs only
    for a step that fails and whose predecessors all pass -/
theorem refFrom_shape (k : Nat) (prog : List StepDesc) :
    ∀ e ∈ (refFrom k prog).2, k ≤ e.step ∧ e.step < k + prog.length ∧
      (e.role = .error → ∃ d, prog[e.step - k]? = some d ∧ fails d = true ∧
          ∀ j, j < e.step - k → ∀ d', prog[j]? = some d' → fails d' = false) := by
  induction prog generalizing k with
  | nil => simp [refFrom]
  | cons d ds ih =>
    intro e he
    by_cases h : fails d = true
    · simp [refFrom, h] at he
      rcases he with he | he
      · have := reads_step k d e he
        refine ⟨by omega, by simp; omega, fun hr => absurd hr this.2⟩
      · subst he
        refine ⟨Nat.le_refl _, by simp, fun _ => ⟨d, by simp, h, ?_⟩⟩
        intro j hj; simp at hj
    · have h' : fails d = false := by simpa using h
      simp [refFrom, h'] at he
      rcases he with he | he
      · have := reads_step k d e he
        refine ⟨by omega, by simp; omega, fun hr => absurd hr this.2⟩
      · obtain ⟨h1, h2, h3⟩ := ih (k + 1) e he
        refine ⟨by omega, by simp at h2 ⊢; omega, fun hr => ?_⟩
        obtain ⟨d0, hd0, hf, hprev⟩ := h3 hr
        have hk : e.step - k = (e.step - (k + 1)) + 1 := by omega
        refine ⟨d0, by rw [hk]; simpa using hd0, hf, ?_⟩
        intro j hj d' hd'
        cases j with
        | zero => simp at hd'; subst hd'; exact h'
        | succ j => exact hprev j (by omega) d' (by simpa using hd')

/-- **first failure, exactly once.** If step `k` is the first failing step, the trace consists of the
    reads of steps `0..k` followed by exactly one callback event, that of step `k`. -/
theorem refFrom_first_failure (base : Nat) (prog : List StepDesc) (k : Nat) (d : StepDesc)
    (hk : prog[k]? = some d) (hf : fails d = true)
    (hprev : ∀ j, j < k → ∀ d', prog[j]? = some d' → fails d' = false) :
    (refFrom base prog).1 = true ∧
    (refFrom base prog).2 = ((prog.take (k + 1)).zipIdx base).flatMap (fun p => reads p.2 p.1) ++ [⟨base + k, .error⟩] := by
  induction prog generalizing base k with
  | nil => simp at hk
  | cons x xs ih =>
    cases k with
    | zero =>
      simp at hk; subst hk
      simp [refFrom, hf]
    | succ k =>
      have hx : fails x = false := hprev 0 (by omega) x (by simp)
      have := ih (base + 1) k (by simpa using hk) (fun j hj d' hd' => hprev (j + 1) (by omega) d' (by simpa using hd'))
      simp only [refFrom, hx, this.1, this.2]
      refine ⟨by simp, ?_⟩
      simp [List.zipIdx_cons, Nat.add_assoc, Nat.add_comm 1 k]

/-- The chain, run from the empty trace: first failing step `k` ⇒ verdict `true`; the invocations are
    the reads of steps `0..k` then the callback of step `k` — exactly once — and neither the logic nor
    the callback of any later step runs (no event with a step number above `k`). -/
theorem C20_first_failure (prog : List StepDesc) (k : Nat) (d : StepDesc)
    (hk : prog[k]? = some d) (hf : fails d = true)
    (hprev : ∀ j, j < k → ∀ d', prog[j]? = some d' → fails d' = false) :
    let r := checkFailed (build prog) []
    r.1 = true ∧
    r.2 = ((prog.take (k + 1)).zipIdx 0).flatMap (fun p => reads p.2 p.1) ++ [⟨k, .error⟩] ∧
    r.2.count ⟨k, .error⟩ = 1 ∧
    ∀ e ∈ r.2, e.step ≤ k ∧ (e.role = .error → e.step = k) := by
  have h := refFrom_first_failure 0 prog k d hk hf hprev
  simp only [C20_run_eq_ref, refRun, h.1, h.2, Nat.zero_add, List.nil_append]
  refine ⟨trivial, trivial, ?_, ?_⟩
  · rw [List.count_append]
    have : (List.flatMap (fun p => reads p.2 p.1) ((List.take (k + 1) prog).zipIdx 0)).count ⟨k, .error⟩ = 0 := by
      apply List.count_eq_zero.mpr
      intro hmem
      obtain ⟨p, _, hp⟩ := List.mem_flatMap.mp hmem
      exact (reads_step p.2 p.1 _ hp).2 rfl
    simp [this]
  · intro e he
    rcases List.mem_append.mp he with he | he
    · obtain ⟨p, hp, hpe⟩ := List.mem_flatMap.mp he
      have hs := reads_step p.2 p.1 e hpe
      have hidx := List.mem_zipIdx hp
      have hl : (List.take (k + 1) prog).length ≤ k + 1 := by simp; omega
      exact ⟨by omega, fun hr => absurd hr hs.2⟩
    · simp at he; subst he; exact ⟨Nat.le_refl _, fun _ => rfl⟩

/-- no step fails: verdict `false`, every step's reads in order, no callback at all -/
theorem C20_no_failure (prog : List StepDesc) (h : ∀ d ∈ prog, fails d = false) :
    let r := checkFailed (build prog) []
    r.1 = false ∧ r.2 = (prog.zipIdx 0).flatMap (fun p => reads p.2 p.1) ∧ ∀ e ∈ r.2, e.role ≠ .error := by
  have key : ∀ (k : Nat) (prog : List StepDesc), (∀ d ∈ prog, fails d = false) →
      refFrom k prog = (false, (prog.zipIdx k).flatMap (fun p => reads p.2 p.1)) := by
    intro k prog
    induction prog generalizing k with
    | nil => intro _; rfl
    | cons x xs ih =>
      intro hall
      have hx := hall x (by simp)
      simp [refFrom, hx, ih (k + 1) (fun d hd => hall d (by simp [hd])), List.zipIdx_cons]
  simp only [C20_run_eq_ref, refRun, key 0 prog h, List.nil_append]
  refine ⟨trivial, trivial, ?_⟩
  intro e he
  obtain ⟨p, _, hpe⟩ := List.mem_flatMap.mp he
  exact (reads_step p.2 p.1 e hpe).2

/-- strict order: step numbers along the trace never decrease -/
theorem refFrom_sorted (k : Nat) (prog : List StepDesc) :
    ((refFrom k prog).2.map (·.step)).Pairwise (· ≤ ·) := by
  induction prog generalizing k with
  | nil => simp [refFrom]
  | cons d ds ih =>
    have hr : ∀ e ∈ reads k d, e.step = k := fun e he => (reads_step k d e he).1
    have hA : ((reads k d).map (·.step)).Pairwise (· ≤ ·) := by
      apply List.pairwise_of_forall_mem_list
      intro a ha b hb
      obtain ⟨e, he, rfl⟩ := List.mem_map.mp ha
      obtain ⟨e', he', rfl⟩ := List.mem_map.mp hb
      rw [hr e he, hr e' he']; exact Nat.le_refl _
    by_cases h : fails d = true
    · simp only [refFrom, h, if_true, List.map_append, List.map_cons, List.map_nil]
      rw [List.pairwise_append]
      refine ⟨hA, by simp, ?_⟩
      intro a ha b hb
      simp at hb; subst hb
      obtain ⟨e, he, rfl⟩ := List.mem_map.mp ha
      rw [hr e he]; exact Nat.le_refl _
    · have h' : fails d = false := by simpa using h
      simp only [refFrom, h', Bool.false_eq_true, if_false, List.map_append]
      rw [List.pairwise_append]
      refine ⟨hA, ih (k + 1), ?_⟩
      intro a ha b hb
      obtain ⟨e, he, rfl⟩ := List.mem_map.mp ha
      obtain ⟨e', he', rfl⟩ := List.mem_map.mp hb
      have := (refFrom_shape (k + 1) ds e' he').1
      rw [hr e he]; omega

theorem C20_order (prog : List StepDesc) :
    (((checkFailed (build prog) []).2).map (·.step)).Pairwise (· ≤ ·) := by
  rw [C20_run_eq_ref]; simpa [refRun] using refFrom_sorted 0 prog

/-! ### each step kind fails exactly on its documented condition (`step_run` shows the model step
    returns `fails d`; these restate `fails` kind by kind) -/
theorem C20_cond_notEmpty (v : String) : fails (.notEmpty v) = true ↔ v = "" := by simp [fails]
theorem C20_cond_valuesNotEmpty (vs : List String) : fails (.valuesNotEmpty vs) = true ↔ ∃ v ∈ vs, v = "" := by simp [fails]
theorem C20_cond_length (v : String) (mn mx : Int) :
    fails (.length v mn mx) = true ↔ (mn > 0 ∧ Lib.goLen v < mn) ∨ (mx > 0 ∧ Lib.goLen v > mx) := by simp [fails]
theorem C20_cond_equals (v e : String) : fails (.equals v e) = true ↔ v ≠ e := by simp [fails]
theorem C20_cond_condNotEmpty (c : Bool) (v : String) : fails (.condNotEmpty c v) = true ↔ c = true ∧ v = "" := by simp [fails]
theorem C20_cond_condLogic (c e : Bool) : fails (.condLogic c e) = true ↔ c = true ∧ e = true := by simp [fails]
theorem C20_cond_logic (e : Bool) : fails (.logic e) = true ↔ e = true := by simp [fails]
theorem C20_cond_valueStep : fails .valueStep = false := rfl

/-- tie: checker.go is translated on every run (`Generated/Checker.lean`) and `Props.CheckerGen` proves every generated
    function equal to the function of `Model.Checker` these theorems are stated over (`checkFailed_eq`, `withXxx_eq`); the
    source fingerprints this theorem used to list are retired -/
theorem C20_source_current : Gen.Chk.translated = true := rfl

/-- non-vacuity: a three-step chain whose second step fails -/
example : checkFailed (build [.notEmpty "x", .condLogic true true, .logic true]) [] =
    (true, [⟨0, .value⟩, ⟨1, .cond⟩, ⟨1, .logic⟩, ⟨1, .error⟩]) := by decide

end C20
