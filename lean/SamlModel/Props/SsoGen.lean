import SamlModel.Props.SsoLemmas
import SamlModel.Props.LogoutGen
set_option linter.unusedSimpArgs false
set_option linter.unusedVariables false
/-!
  Props.SsoGen — `IdentityProvider.ssoHandleFunc` and `getAuthRequestFromRequest` are *translated* (go2lean, chain
  handler: see ChainSem / Props.LogoutGen).  The fifteen `checkerInstance.WithXxx` registrations are fifteen `Go.Step`s
  over the handler frame; `storage.CreateAuthRequest` is recorded in the effect trace with its arguments (its answer is an
  oracle); `verifyRedirectSignature` / `verifyPostSignature` hand the error back through their `func(error)` parameter,
  which go2lean returns as an extra result (`…_wb`).

  `sso_handler_refines`: for every behaviour of the environment the regenerated handler does exactly what the hand-written
  model `Sso.sso` (the model the C02 / C05 / C06 / C07 / C08 / C09 theorems are about) does on the input read off from the
  same oracle answers: same reply (HTTP 500, a failed Response with the same status code, delivery parameters and
  InResponseTo, or the 303 to the login URL of the identifier storage returned), same `CreateAuthRequest` call or none.
-/
namespace SsoGen
open Go Gen Consts CallbackGen Builders

variable (o : Ora) (cfg : provider_IdentityProviderConfig) (fmt : String) (exp : Int)

/-! ### The form -/

def theForm : provider_AuthRequestForm :=
  { AuthRequest := o.formValue "SAMLRequest",
    Encoding := if o.formValue "SAMLEncoding" == "" && o.urlQueryHas "SAMLRequest" then encodingDeflate else o.formValue "SAMLEncoding",
    RelayState := o.formValue "RelayState", SigAlg := o.formValue "SigAlg", Sig := o.formValue "Signature",
    Binding := if o.urlQueryHas "SAMLRequest" then redirectBinding else postBinding }

theorem getForm_eq : getAuthRequestFromRequest o =
    match o.m_ParseForm with
    | some e => .ok (none, some ("failed to parse form: " ++ e))
    | none => .ok (some (theForm o), none) := by
  unfold getAuthRequestFromRequest getAuthRequestFromRequest.body theForm
  cases h : o.m_ParseForm with
  | some e => simp [Ctl.toRes, h]
  | none =>
    by_cases hq : o.urlQueryHas "SAMLRequest" = true <;> by_cases he : o.formValue "SAMLEncoding" = "" <;>
      simp [Ctl.toRes, h, hq, he, deref, encodingDeflate, redirectBinding, postBinding]

def formOf (f : provider_AuthRequestForm) : Sso.Form :=
  { AuthRequest := f.AuthRequest, Encoding := f.Encoding, RelayState := f.RelayState, SigAlg := f.SigAlg, Sig := f.Sig, Binding := f.Binding }

/-! ### The model's input, read off from the oracle answers -/

def decodedOf : Option samlp_AuthnRequestType :=
  if o.m_ParseForm.isSome then none else
  if (o.f_DecodeAuthNRequest (theForm o).Encoding (theForm o).AuthRequest).2.isNone then
    (o.f_DecodeAuthNRequest (theForm o).Encoding (theForm o).AuthRequest).1 else none

def spOf : Option serviceprovider_ServiceProvider :=
  match decodedOf o with
  | none => none
  | some req =>
    match req.Issuer with
    | none => none
    | some iss => if (o.m_GetServiceProvider (idp cfg fmt exp) iss.Text).2.isNone then (o.m_GetServiceProvider (idp cfg fmt exp) iss.Text).1 else none

/-- the consumer endpoint the handler selects -/
def selOf : String × String :=
  match decodedOf o, spOf o cfg fmt exp with
  | some req, some sp =>
    match Sso.spAcs sp with
    | some l => (GetAcsUrlAndBindingForResponse o l req.ProtocolBinding).get
    | none => ("", "")
  | _, _ => ("", "")

/-- the answer of `storage.CreateAuthRequest` to the call the handler makes -/
def createOf : Unit × Err :=
  o.m_CreateAuthRequest (decodedOf o) (selOf o cfg fmt exp).1 (selOf o cfg fmt exp).2 (theForm o).RelayState
    ((spOf o cfg fmt exp).map (·.ID)).get!

def inOfOra : Sso.In :=
  { metaErr := (o.m_GetMetadata (idp cfg fmt exp)).2.2.isSome,
    idpMeta := (o.m_GetMetadata (idp cfg fmt exp)).1,
    form := if o.m_ParseForm.isSome then none else some (formOf (theForm o)),
    decoded := decodedOf o,
    sp := spOf o cfg fmt exp,
    createOk := (createOf o cfg fmt exp).2.isNone,
    createdID := o.m_GetID }

/-! ### What is observable -/

inductive Obs where
  | httpError (code : Nat)
  | panic
  | failed (status acs binding relay inResponseTo : String)
  | login (url : String)
deriving DecidableEq

structure ObsR where
  out : Obs
  persist : Option Sso.Persist := none

/-- the model's result, observably: the number of the failing step is not visible to a client -/
def obsOfModel (r : Sso.Result) : ObsR :=
  { out := match r.out with
      | .httpError c => .httpError c
      | .panic => .panic
      | .failed _ st a b rl irt => .failed st a b rl irt
      | .login id => .login (o.m_LoginURL (spOf o cfg fmt exp) id),
    persist := r.persist }

/-- what one write means for the client (an effect this handler does not perform is mapped to a value the model never
    produces, HTTP status 0: the refinement theorem thereby excludes it) -/
def obsOfEff : Eff → Obs
  | .httpError _ code => .httpError code.toNat
  | .sendBackResponse (some resp) (some m) => .failed m.Status.StatusCode.Value resp.AcsUrl resp.ProtocolBinding resp.RelayState resp.RequestID
  | .httpRedirect url 303 => .login url
  | _ => .httpError 0

/-- a run of the handler, observably: one write, possibly after the one `CreateAuthRequest` call -/
def obsOf : Res (List Eff) → Option ObsR
  | .panic => some { out := .panic }
  | .ok [.callCreateAuthRequest req acs b relay app, e] =>
    some { out := obsOfEff e,
           persist := some { acs := acs, binding := b, relay := relay, appID := app, reqID := (req.map (·.Id)).getD "",
                             ok := match e with | .httpRedirect _ _ => true | _ => false } }
  | .ok [e] => some { out := obsOfEff e }
  | .ok _ => none

/-- contract of the environment: a decoder / storage call that reports no error hands back a value, and registered
    service providers carry their metadata (NewServiceProvider builds no other) -/
def EnvOK : Prop :=
  (∀ enc req, (o.f_DecodeAuthNRequest enc req).2 = none → (o.f_DecodeAuthNRequest enc req).1.isSome) ∧
  (∀ iss, (o.m_GetServiceProvider (idp cfg fmt exp) iss).2 = none →
    ∃ sp, (o.m_GetServiceProvider (idp cfg fmt exp) iss).1 = some sp ∧ sp.Metadata.isSome)


/-! ### Frames and failure callbacks -/

open IdentityProvider_ssoHandleFunc

theorem deref_some {α} [Inhabited α] (x : α) : deref (some x) = x := rfl
theorem isPanic_ok {α} (a : α) : (Res.ok a).isPanic = false := rfl
theorem isPanic_panic {α} : (Res.panic : Res α).isPanic = true := rfl
theorem get_ok {α} [Inhabited α] (a : α) : (Res.ok a).get = a := rfl

theorem mfr_isPanic (resp : provider_Response) (st msg : String) :
    (Response_makeFailedResponse o (some resp) st msg fmt).isPanic = false := by
  obtain ⟨r, hr, _⟩ := makeFailedResponse_refines o resp st msg fmt
  rw [hr]; rfl

/-- the failed Response a callback of this handler writes -/
def failEff (resp : provider_Response) (status msg : String) : Eff :=
  .sendBackResponse (some resp) (Response_makeFailedResponse o (some resp) status msg fmt).get

theorem obs_failEff (resp : provider_Response) (status msg : String) :
    obsOfEff (failEff o fmt resp status msg) = .failed status resp.AcsUrl resp.ProtocolBinding resp.RelayState resp.RequestID := by
  obtain ⟨r, hr, hm, _⟩ := makeFailedResponse_refines o resp status msg fmt
  have hs : r.Status.StatusCode.Value = status := by
    have := congrArg Callback.Msg.status hm
    simpa [msgOf, Callback.mkResponse] using this
  simp [failEff, hr, Res.get, obsOfEff, hs]

/-- what the handler frame holds between the steps of the chain -/
structure Known (f : Option provider_AuthRequestForm) (req : Option samlp_AuthnRequestType)
    (sp : Option serviceprovider_ServiceProvider) (resp : provider_Response) (s : Frame) : Prop where
  hp : s.p = idp cfg fmt exp
  heff : s.eff_ = []
  hmeta : s.metadata = (o.m_GetMetadata (idp cfg fmt exp)).1
  hform : s.authRequestForm = f
  hreq : s.authNRequest = req
  hsp : s.sp = sp
  hresp : s.response = some resp

/-- a step failed: its callback wrote the failed Response with this status code for the delivery parameters `resp` -/
def FailsWith (resp : provider_Response) (status : String) (r : Res (Bool × Frame)) : Prop :=
  ∃ s' msg, r = .ok (true, s') ∧ s'.eff_ = [failEff o fmt resp status msg]

/-- the response the chain starts with -/
def resp0 : provider_Response := { (default : provider_Response) with Issuer := o.m_GetEntityID (idp cfg fmt exp) }

/-- step 1 (form) -/
theorem step1 (s : Frame) (k : Known o cfg fmt exp none none none (resp0 o cfg fmt exp) s) :
    match o.m_ParseForm with
    | some _ => FailsWith o fmt (resp0 o cfg fmt exp) statusRequestDenied (Step.run (.withLogicStep (clo0 o) (clo1 o)) s)
    | none => ∃ s', Step.run (.withLogicStep (clo0 o) (clo1 o)) s = .ok (false, s') ∧
        Known o cfg fmt exp (some (theForm o)) none none
          { resp0 o cfg fmt exp with SigAlg := (theForm o).SigAlg, RelayState := (theForm o).RelayState } s' := by
  obtain ⟨hp, heff, hmeta, hform, hreq, hsp, hresp⟩ := k
  simp only [Step.run, Clo.andThen, failWith, clo0, clo1]
  cases h : o.m_ParseForm with
  | some e =>
    simp [getForm_eq, h, isPanic_ok, get_ok, Ctl.toClo, hp, hresp, idp, deref, mfr_isPanic, FailsWith, heff, failEff, statusRequestDenied]
    exact ⟨_, rfl⟩
  | none =>
    simp [getForm_eq, h, isPanic_ok, get_ok, Ctl.toClo, hresp, deref]
    refine ⟨?_, ?_, ?_, ?_, ?_, ?_, ?_⟩ <;> simp [hp, heff, hmeta, hreq, hsp, resp0]


/-- step 2 (the request is not empty) -/
theorem step2 (f : provider_AuthRequestForm) (resp : provider_Response) (s : Frame) (k : Known o cfg fmt exp (some f) none none resp s) :
    if f.AuthRequest = "" then FailsWith o fmt resp statusRequestDenied (Step.run (.withValueNotEmptyCheck (clo2 o) (clo3 o)) s)
    else Step.run (.withValueNotEmptyCheck (clo2 o) (clo3 o)) s = .ok (false, s) := by
  obtain ⟨hp, heff, hmeta, hform, hreq, hsp, hresp⟩ := k
  simp only [Step.run, Clo.andThen, failWith, clo2, clo3]
  by_cases h : f.AuthRequest = ""
  · simp [h, hform, deref, Ctl.toClo, hp, hresp, idp, mfr_isPanic, FailsWith, heff, failEff, statusRequestDenied]
    exact ⟨_, rfl⟩
  · simp [h, hform, deref, Ctl.toClo]

/-- step 3 (a signature algorithm needs a signature) -/
theorem step3 (f : provider_AuthRequestForm) (resp : provider_Response) (s : Frame) (k : Known o cfg fmt exp (some f) none none resp s) :
    if f.SigAlg ≠ "" ∧ f.Sig = "" then
      FailsWith o fmt resp statusRequestDenied (Step.run (.withConditionalValueNotEmpty (clo4 o) (clo5 o) (clo6 o)) s)
    else Step.run (.withConditionalValueNotEmpty (clo4 o) (clo5 o) (clo6 o)) s = .ok (false, s) := by
  obtain ⟨hp, heff, hmeta, hform, hreq, hsp, hresp⟩ := k
  simp only [Step.run, Clo.andThen, failWith, clo4, clo5, clo6]
  by_cases h1 : f.SigAlg = ""
  · simp [h1, hform, deref, Ctl.toClo]
  · by_cases h2 : f.Sig = ""
    · simp [h1, h2, hform, deref, Ctl.toClo, hp, hresp, idp, mfr_isPanic, FailsWith, heff, failEff, statusRequestDenied]
      exact ⟨_, rfl⟩
    · simp [h1, h2, hform, deref, Ctl.toClo]

/-- step 4 (decoding) -/
theorem step4 (f : provider_AuthRequestForm) (resp : provider_Response) (s : Frame) (k : Known o cfg fmt exp (some f) none none resp s) :
    match o.f_DecodeAuthNRequest f.Encoding f.AuthRequest with
    | (_, some _) => FailsWith o fmt resp statusRequestDenied (Step.run (.withLogicStep (clo7 o) (clo8 o)) s)
    | (none, none) => True
    | (some req, none) => ∃ s', Step.run (.withLogicStep (clo7 o) (clo8 o)) s = .ok (false, s') ∧
        Known o cfg fmt exp (some f) (some req) none { resp with RequestID := req.Id } s' := by
  obtain ⟨hp, heff, hmeta, hform, hreq, hsp, hresp⟩ := k
  simp only [Step.run, Clo.andThen, failWith, clo7, clo8]
  rcases hd : o.f_DecodeAuthNRequest f.Encoding f.AuthRequest with ⟨dq, derr⟩
  cases derr with
  | some e =>
    simp [hd, hform, deref, Ctl.toClo, hp, hresp, idp, mfr_isPanic, FailsWith, heff, failEff, statusRequestDenied]
    exact ⟨_, rfl⟩
  | none =>
    cases dq with
    | none => simp
    | some req =>
      simp [hd, hform, deref, Ctl.toClo, hresp]
      refine ⟨?_, ?_, ?_, ?_, ?_, ?_, ?_⟩ <;> simp [hp, heff, hmeta, hform, hsp]

/-- step 5 (the sender) -/
theorem step5 (f : provider_AuthRequestForm) (req : samlp_AuthnRequestType) (resp : provider_Response) (s : Frame)
    (k : Known o cfg fmt exp (some f) (some req) none resp s) :
    match req.Issuer with
    | none => FailsWith o fmt resp statusRequestDenied (Step.run (.withLogicStep (clo9 o) (clo10 o)) s)
    | some iss =>
      match o.m_GetServiceProvider (idp cfg fmt exp) iss.Text with
      | (_, some _) => FailsWith o fmt resp statusRequestDenied (Step.run (.withLogicStep (clo9 o) (clo10 o)) s)
      | (none, none) => True
      | (some sp, none) =>
        match sp.Metadata with
        | none => True
        | some m => ∃ s', Step.run (.withLogicStep (clo9 o) (clo10 o)) s = .ok (false, s') ∧
            Known o cfg fmt exp (some f) (some req) (some sp) { resp with Audience := m.EntityID } s' := by
  obtain ⟨hp, heff, hmeta, hform, hreq, hsp, hresp⟩ := k
  simp only [Step.run, Clo.andThen, failWith, clo9, clo10]
  cases hi : req.Issuer with
  | none =>
    simp [hi, hreq, deref, Ctl.toClo, hp, hresp, idp, mfr_isPanic, FailsWith, heff, failEff, statusRequestDenied]
    exact ⟨_, rfl⟩
  | some iss =>
    simp only []
    rcases hs : o.m_GetServiceProvider (idp cfg fmt exp) iss.Text with ⟨spo, serr⟩
    have hs' := hs
    simp only [idp] at hs'
    cases serr with
    | some e =>
      simp [hi, hs', hreq, deref, Ctl.toClo, hp, hresp, idp, mfr_isPanic, FailsWith, heff, failEff, statusRequestDenied]
      exact ⟨_, rfl⟩
    | none =>
      cases spo with
      | none => simp
      | some sp =>
        simp only []
        cases hm : sp.Metadata with
        | none => simp
        | some m =>
          simp [hi, hs', hreq, deref, Ctl.toClo, hp, hresp, idp, FnLemmas.getEntityID_eq, hm, isPanic_ok, get_ok]
          refine ⟨?_, ?_, ?_, ?_, ?_, ?_, ?_⟩ <;> simp [hp, heff, hmeta, hform, hreq, idp]


/-! ### The `func(error)` variants -/

theorem verifyRedirect_wb (a r sg al : String) (sp : Option serviceprovider_ServiceProvider) :
    (verifyRedirectSignature_wb o a r sg al sp).isPanic = (verifyRedirectSignature o a r sg al sp).isPanic ∧
    (verifyRedirectSignature_wb o a r sg al sp).get.1 = (verifyRedirectSignature o a r sg al sp).get := by
  unfold verifyRedirectSignature_wb verifyRedirectSignature_wb.body verifyRedirectSignature verifyRedirectSignature.body
  by_cases h1 : a = "" <;> by_cases h2 : sg = "" <;> by_cases h3 : al = "" <;>
    simp [h1, h2, h3, Ctl.toRes, Res.isPanic, Res.get]

theorem verifyPost_wb (a : String) (sp : Option serviceprovider_ServiceProvider) :
    (verifyPostSignature_wb o a sp).isPanic = (verifyPostSignature o a sp).isPanic ∧
    (verifyPostSignature_wb o a sp).get.1 = (verifyPostSignature o a sp).get := by
  unfold verifyPostSignature_wb verifyPostSignature_wb.body verifyPostSignature verifyPostSignature.body
  cases h1 : Lib.b64decode a with
  | none => simp [h1, Ctl.toRes, Res.isPanic, Res.get]
  | some d =>
    cases h2 : o.m_ValidatePostSignature sp (Lib.bytesToString d) <;>
      simp [h1, h2, Ctl.toRes, Res.isPanic, Res.get]


theorem wb_cases (W : Res (Err × Option Err)) (P : Res Err) (h : W.isPanic = P.isPanic ∧ W.get.1 = P.get) :
    (W = .panic ∧ P = .panic) ∨ ∃ e w, W = .ok (e, w) ∧ P = .ok e := by
  obtain ⟨h1, h2⟩ := h
  cases W with
  | panic => cases P with
    | panic => exact Or.inl ⟨rfl, rfl⟩
    | ok e => simp [Res.isPanic] at h1
  | ok p => cases P with
    | panic => simp [Res.isPanic] at h1
    | ok e => obtain ⟨e', w⟩ := p; simp [Res.get] at h2; subst h2; exact Or.inr ⟨e', w, rfl, rfl⟩

/-- the state between the sender lookup and the endpoint selection: only `err` changes -/
theorem Known.setErr {f req sp resp} {s : Frame} (k : Known o cfg fmt exp f req sp resp s) (e : Err) :
    Known o cfg fmt exp f req sp resp { s with err := e } :=
  ⟨k.hp, k.heff, k.hmeta, k.hform, k.hreq, k.hsp, k.hresp⟩

/-- step 6 (KeyInfo certificate) -/
theorem step6 (f req sp resp) (s : Frame) (k : Known o cfg fmt exp (some f) (some req) (some sp) resp s) :
    match Sso.condStep (certificateCheckNecessary o req.Signature sp.Metadata) (checkCertificate o req.Signature sp.Metadata) with
    | .panic => Step.run (.withConditionalLogicStep (clo11 o) (clo12 o) (clo13 o)) s = .panic
    | .ok (some _) => FailsWith o fmt resp statusRequestDenied (Step.run (.withConditionalLogicStep (clo11 o) (clo12 o) (clo13 o)) s)
    | .ok none => Step.run (.withConditionalLogicStep (clo11 o) (clo12 o) (clo13 o)) s = .ok (false, s) := by
  obtain ⟨hp, heff, hmeta, hform, hreq, hsp, hresp⟩ := k
  simp only [Step.run, Clo.andThen, failWith, clo11, clo12, clo13]
  cases hcn : certificateCheckNecessary o req.Signature sp.Metadata with
  | panic => simp [Sso.condStep, hreq, hsp, deref, hcn, isPanic_panic]
  | ok need =>
    cases need with
    | false => simp [Sso.condStep, hreq, hsp, deref, hcn, isPanic_ok, get_ok]
    | true =>
      cases hcc : checkCertificate o req.Signature sp.Metadata with
      | panic => simp [Sso.condStep, hreq, hsp, deref, hcn, hcc, isPanic_ok, get_ok, isPanic_panic]
      | ok e =>
        cases e with
        | none => simp [Sso.condStep, hreq, hsp, deref, hcn, hcc, isPanic_ok, get_ok]
        | some m =>
          simp [Sso.condStep, hreq, hsp, deref, hcn, hcc, isPanic_ok, get_ok, Ctl.toClo, hp, hresp, idp, mfr_isPanic, FailsWith, heff, failEff, statusRequestDenied]
          exact ⟨_, rfl⟩

/-- step 7 (redirect-binding signature) -/
theorem step7 (f req sp resp) (s : Frame) (k : Known o cfg fmt exp (some f) (some req) (some sp) resp s) :
    match Sso.condStep (signatureRedirectVerificationNecessary o (o.m_GetMetadata (idp cfg fmt exp)).1 sp.Metadata f.Sig f.Binding)
        (verifyRedirectSignature o f.AuthRequest f.RelayState f.Sig f.SigAlg (some sp)) with
    | .panic => Step.run (.withConditionalLogicStep (clo14 o) (clo15 o) (clo16 o)) s = .panic
    | .ok (some _) => FailsWith o fmt resp statusRequestDenied (Step.run (.withConditionalLogicStep (clo14 o) (clo15 o) (clo16 o)) s)
    | .ok none => ∃ s', Step.run (.withConditionalLogicStep (clo14 o) (clo15 o) (clo16 o)) s = .ok (false, s') ∧
        Known o cfg fmt exp (some f) (some req) (some sp) resp s' := by
  have k' := k
  obtain ⟨hp, heff, hmeta, hform, hreq, hsp, hresp⟩ := k
  simp only [Step.run, Clo.andThen, failWith, clo14, clo15, clo16]
  cases hcn : signatureRedirectVerificationNecessary o (o.m_GetMetadata (idp cfg fmt exp)).1 sp.Metadata f.Sig f.Binding with
  | panic => simp [Sso.condStep, hform, hsp, hmeta, deref, hcn, isPanic_panic]
  | ok need =>
    have hcn' := hcn
    simp only [idp] at hcn'
    cases need with
    | false => simp [Sso.condStep, hform, hsp, hmeta, deref, hcn, isPanic_ok, get_ok]; exact k'
    | true =>
      rcases wb_cases _ _ (verifyRedirect_wb o f.AuthRequest f.RelayState f.Sig f.SigAlg (some sp)) with ⟨hW, hP⟩ | ⟨e, w, hW, hP⟩
      · simp [Sso.condStep, hform, hsp, hmeta, deref, hcn, hW, hP, isPanic_ok, get_ok, isPanic_panic]
      · cases e with
        | none =>
          simp only [Sso.condStep, hP]
          cases w with
          | none => simp [hform, hsp, hmeta, deref, hcn, hW, isPanic_ok, get_ok]; exact k'
          | some e' =>
            simp [hform, hsp, hmeta, deref, hcn, hW, isPanic_ok, get_ok]
            refine ⟨?_, ?_, ?_, ?_, ?_, ?_, ?_⟩ <;> simp [hp, heff, hmeta, hform, hreq, hsp, hresp]
        | some m =>
          simp only [Sso.condStep, hP]
          cases w <;>
            (simp [hform, hsp, hmeta, deref, hcn, hcn', hW, isPanic_ok, get_ok, Ctl.toClo, hp, hresp, idp, mfr_isPanic, FailsWith, heff, failEff, statusRequestDenied]
             exact ⟨_, rfl⟩)


/-- step 8 (POST-binding signature) -/
theorem step8 (f req sp resp) (s : Frame) (k : Known o cfg fmt exp (some f) (some req) (some sp) resp s) :
    match Sso.condStep (signaturePostVerificationNecessary o (o.m_GetMetadata (idp cfg fmt exp)).1 sp.Metadata req.Signature f.Binding)
        (verifyPostSignature o f.AuthRequest (some sp)) with
    | .panic => Step.run (.withConditionalLogicStep (clo17 o) (clo18 o) (clo19 o)) s = .panic
    | .ok (some _) => FailsWith o fmt resp statusRequestDenied (Step.run (.withConditionalLogicStep (clo17 o) (clo18 o) (clo19 o)) s)
    | .ok none => ∃ s', Step.run (.withConditionalLogicStep (clo17 o) (clo18 o) (clo19 o)) s = .ok (false, s') ∧
        Known o cfg fmt exp (some f) (some req) (some sp) resp s' := by
  have k' := k
  obtain ⟨hp, heff, hmeta, hform, hreq, hsp, hresp⟩ := k
  simp only [Step.run, Clo.andThen, failWith, clo17, clo18, clo19]
  cases hcn : signaturePostVerificationNecessary o (o.m_GetMetadata (idp cfg fmt exp)).1 sp.Metadata req.Signature f.Binding with
  | panic => simp [Sso.condStep, hform, hreq, hsp, hmeta, deref, hcn, isPanic_panic]
  | ok need =>
    have hcn' := hcn
    simp only [idp] at hcn'
    cases need with
    | false => simp [Sso.condStep, hform, hreq, hsp, hmeta, deref, hcn, isPanic_ok, get_ok]; exact k'
    | true =>
      rcases wb_cases _ _ (verifyPost_wb o f.AuthRequest (some sp)) with ⟨hW, hP⟩ | ⟨e, w, hW, hP⟩
      · simp [Sso.condStep, hform, hreq, hsp, hmeta, deref, hcn, hW, hP, isPanic_ok, get_ok, isPanic_panic]
      · cases e with
        | none =>
          simp only [Sso.condStep, hP]
          cases w with
          | none => simp [hform, hreq, hsp, hmeta, deref, hcn, hW, isPanic_ok, get_ok]; exact k'
          | some e' =>
            simp [hform, hreq, hsp, hmeta, deref, hcn, hW, isPanic_ok, get_ok]
            refine ⟨?_, ?_, ?_, ?_, ?_, ?_, ?_⟩ <;> simp [hp, heff, hmeta, hform, hreq, hsp, hresp]
        | some m =>
          simp only [Sso.condStep, hP]
          cases w <;>
            (simp [hform, hreq, hsp, hmeta, deref, hcn, hcn', hW, isPanic_ok, get_ok, Ctl.toClo, hp, hresp, idp, mfr_isPanic, FailsWith, heff, failEff, statusRequestDenied]
             exact ⟨_, rfl⟩)

/-- step 9 (a signature has to be carried the way the binding defines it) -/
theorem step9 (f req sp resp) (s : Frame) (k : Known o cfg fmt exp (some f) (some req) (some sp) resp s) :
    if (f.Binding == postBinding && f.Sig != "") || (f.Binding == redirectBinding && FnLemmas.embProvided req.Signature) then
      FailsWith o fmt resp statusRequestDenied (Step.run (.withLogicStep (clo20 o) (clo21 o)) s)
    else ∃ s', Step.run (.withLogicStep (clo20 o) (clo21 o)) s = .ok (false, s') ∧
        Known o cfg fmt exp (some f) (some req) (some sp) resp s' := by
  have k' := k
  obtain ⟨hp, heff, hmeta, hform, hreq, hsp, hresp⟩ := k
  simp only [Step.run, Clo.andThen, failWith, clo20, clo21]
  have hemb := FnLemmas.signaturePostProvided_eq o req.Signature
  by_cases h1 : f.Binding = postBinding ∧ f.Sig ≠ ""
  · have h1a : f.Binding = "urn:oasis:names:tc:SAML:2.0:bindings:HTTP-POST" := h1.1
    simp [h1.1, h1.2, h1a, hform, hreq, deref, Ctl.toClo, hp, hresp, idp, mfr_isPanic, FailsWith, heff, failEff, statusRequestDenied, postBinding, hemb, isPanic_ok, get_ok]
    exact ⟨_, rfl⟩
  · by_cases h2 : f.Binding = redirectBinding ∧ FnLemmas.embProvided req.Signature = true
    · have h2a : f.Binding = "urn:oasis:names:tc:SAML:2.0:bindings:HTTP-Redirect" := h2.1
      simp [h2.1, h2.2, h2a, hform, hreq, deref, Ctl.toClo, hp, hresp, idp, mfr_isPanic, FailsWith, heff, failEff, statusRequestDenied, postBinding, redirectBinding, hemb, isPanic_ok, get_ok]
      exact ⟨_, rfl⟩
    · have hc : ((f.Binding == postBinding && f.Sig != "") || (f.Binding == redirectBinding && FnLemmas.embProvided req.Signature)) = false := by
        cases hb1 : (f.Binding == postBinding) <;> cases hb2 : (f.Sig != "") <;> cases hb3 : (f.Binding == redirectBinding) <;>
          cases hb4 : FnLemmas.embProvided req.Signature <;> simp_all
      rw [if_neg (by simp [hc])]
      have h1' : ¬ (f.Binding = "urn:oasis:names:tc:SAML:2.0:bindings:HTTP-POST" ∧ ¬ f.Sig = "") := h1
      have h2' : ¬ (f.Binding = "urn:oasis:names:tc:SAML:2.0:bindings:HTTP-Redirect" ∧ FnLemmas.embProvided req.Signature = true) := h2
      simp [hform, hreq, deref, Ctl.toClo, hemb, isPanic_ok, get_ok, h1', h2']
      exact k'


/-- step 10 (consumer endpoint selection) -/
theorem step10 (f req sp resp) (s : Frame) (k : Known o cfg fmt exp (some f) (some req) (some sp) resp s) :
    match Sso.spAcs sp with
    | none => Step.run (.withValueStep (clo22 o)) s = .panic
    | some l =>
      match GetAcsUrlAndBindingForResponse o l req.ProtocolBinding with
      | .panic => Step.run (.withValueStep (clo22 o)) s = .panic
      | .ok sel => ∃ s', Step.run (.withValueStep (clo22 o)) s = .ok (false, s') ∧
          Known o cfg fmt exp (some f) (some req) (some sp) { resp with AcsUrl := sel.1, ProtocolBinding := sel.2 } s' := by
  obtain ⟨hp, heff, hmeta, hform, hreq, hsp, hresp⟩ := k
  simp only [Step.run, Clo.andThen, clo22, Sso.spAcs]
  cases hm : sp.Metadata with
  | none => simp [hsp, hm, deref, Ctl.toClo]
  | some m =>
    cases hd : m.SPSSODescriptor with
    | none => simp [hsp, hm, hd, deref, Ctl.toClo]
    | some d =>
      simp only []
      cases hg : GetAcsUrlAndBindingForResponse o d.AssertionConsumerService req.ProtocolBinding with
      | panic => simp [hsp, hreq, hm, hd, hg, deref, Ctl.toClo, isPanic_panic]
      | ok sel =>
        simp [hsp, hreq, hm, hd, hg, deref, Ctl.toClo, isPanic_ok, get_ok, hresp]
        refine ⟨?_, ?_, ?_, ?_, ?_, ?_, ?_⟩ <;> simp [hp, heff, hmeta, hform, hreq, hsp]

/-- steps 11 and 12 (a consumer URL and a binding were found) -/
theorem step11 (f req sp resp) (s : Frame) (k : Known o cfg fmt exp (some f) (some req) (some sp) resp s) :
    if resp.AcsUrl = "" then FailsWith o fmt resp statusUnsupportedBinding (Step.run (.withValueNotEmptyCheck (clo23 o) (clo24 o)) s)
    else Step.run (.withValueNotEmptyCheck (clo23 o) (clo24 o)) s = .ok (false, s) := by
  obtain ⟨hp, heff, hmeta, hform, hreq, hsp, hresp⟩ := k
  simp only [Step.run, Clo.andThen, failWith, clo23, clo24]
  by_cases h : resp.AcsUrl = ""
  · simp [h, hresp, deref, Ctl.toClo, hp, idp, mfr_isPanic, FailsWith, heff, failEff, statusUnsupportedBinding]
    exact ⟨_, rfl⟩
  · simp [h, hresp, deref, Ctl.toClo]

theorem step12 (f req sp resp) (s : Frame) (k : Known o cfg fmt exp (some f) (some req) (some sp) resp s) :
    if resp.ProtocolBinding = "" then FailsWith o fmt resp statusUnsupportedBinding (Step.run (.withValueNotEmptyCheck (clo25 o) (clo26 o)) s)
    else Step.run (.withValueNotEmptyCheck (clo25 o) (clo26 o)) s = .ok (false, s) := by
  obtain ⟨hp, heff, hmeta, hform, hreq, hsp, hresp⟩ := k
  simp only [Step.run, Clo.andThen, failWith, clo25, clo26]
  by_cases h : resp.ProtocolBinding = ""
  · simp [h, hresp, deref, Ctl.toClo, hp, idp, mfr_isPanic, FailsWith, heff, failEff, statusUnsupportedBinding]
    exact ⟨_, rfl⟩
  · simp [h, hresp, deref, Ctl.toClo]

/-- step 13 (the selected binding can be answered) -/
theorem step13 (f req sp resp) (s : Frame) (k : Known o cfg fmt exp (some f) (some req) (some sp) resp s) :
    if resp.ProtocolBinding = redirectBinding ∨ resp.ProtocolBinding = postBinding then
      Step.run (.withLogicStep (clo27 o) (clo28 o)) s = .ok (false, s)
    else FailsWith o fmt resp statusUnsupportedBinding (Step.run (.withLogicStep (clo27 o) (clo28 o)) s) := by
  obtain ⟨hp, heff, hmeta, hform, hreq, hsp, hresp⟩ := k
  simp only [Step.run, Clo.andThen, failWith, clo27, clo28]
  by_cases h1 : resp.ProtocolBinding = redirectBinding
  · have hb1 : (resp.ProtocolBinding == "urn:oasis:names:tc:SAML:2.0:bindings:HTTP-Redirect") = true := beq_iff_eq.mpr h1
    rw [if_pos (Or.inl h1)]
    simp [hb1, hresp, deref_some, Ctl.toClo]
  · have hb1 : (resp.ProtocolBinding == "urn:oasis:names:tc:SAML:2.0:bindings:HTTP-Redirect") = false := by
      cases hx : (resp.ProtocolBinding == "urn:oasis:names:tc:SAML:2.0:bindings:HTTP-Redirect") with
      | false => rfl
      | true => exact absurd (beq_iff_eq.mp hx) h1
    by_cases h2 : resp.ProtocolBinding = postBinding
    · have hb2 : (resp.ProtocolBinding == "urn:oasis:names:tc:SAML:2.0:bindings:HTTP-POST") = true := beq_iff_eq.mpr h2
      rw [if_pos (Or.inr h2)]
      simp [hb1, hb2, hresp, deref_some, Ctl.toClo]
    · have hb2 : (resp.ProtocolBinding == "urn:oasis:names:tc:SAML:2.0:bindings:HTTP-POST") = false := by
        cases hx : (resp.ProtocolBinding == "urn:oasis:names:tc:SAML:2.0:bindings:HTTP-POST") with
        | false => rfl
        | true => exact absurd (beq_iff_eq.mp hx) h2
      rw [if_neg (fun hh => hh.elim h1 h2)]
      simp [hb1, hb2, hresp, deref_some, Ctl.toClo, hp, idp, mfr_isPanic, FailsWith, heff, failEff, statusUnsupportedBinding]
      exact ⟨_, rfl⟩

/-- step 14 (required content) -/
theorem step14 (f req sp resp) (s : Frame) (k : Known o cfg fmt exp (some f) (some req) (some sp) resp s) :
    match checkRequestRequiredContent o (o.m_GetMetadata (idp cfg fmt exp)).1 (some sp) (some req) with
    | .panic => Step.run (.withLogicStep (clo29 o) (clo30 o)) s = .panic
    | .ok (some _) => FailsWith o fmt resp statusRequestDenied (Step.run (.withLogicStep (clo29 o) (clo30 o)) s)
    | .ok none => Step.run (.withLogicStep (clo29 o) (clo30 o)) s = .ok (false, s) := by
  obtain ⟨hp, heff, hmeta, hform, hreq, hsp, hresp⟩ := k
  simp only [Step.run, Clo.andThen, failWith, clo29, clo30]
  cases hc : checkRequestRequiredContent o (o.m_GetMetadata (idp cfg fmt exp)).1 (some sp) (some req) with
  | panic => simp [hmeta, hsp, hreq, hc, isPanic_panic]
  | ok e =>
    have hc' := hc
    simp only [idp] at hc'
    cases e with
    | none => simp [hmeta, hsp, hreq, hc, isPanic_ok, get_ok]
    | some m =>
      simp [hmeta, hsp, hreq, hc, hc', isPanic_ok, get_ok, Ctl.toClo, hp, hresp, idp, deref, mfr_isPanic, FailsWith, heff, failEff, statusRequestDenied]
      exact ⟨_, rfl⟩

/-- step 15 (persist): the one storage write, then - on failure - the Responder reply -/
theorem step15 (f req sp resp) (s : Frame) (k : Known o cfg fmt exp (some f) (some req) (some sp) resp s) :
    match (o.m_CreateAuthRequest (some req) resp.AcsUrl resp.ProtocolBinding f.RelayState sp.ID).2 with
    | some _ => ∃ s' msg, Step.run (.withLogicStep (clo31 o) (clo32 o)) s = .ok (true, s') ∧
        s'.eff_ = [Eff.callCreateAuthRequest (some req) resp.AcsUrl resp.ProtocolBinding f.RelayState sp.ID, failEff o fmt resp statusResponder msg]
    | none => ∃ s', Step.run (.withLogicStep (clo31 o) (clo32 o)) s = .ok (false, s') ∧
        s'.eff_ = [Eff.callCreateAuthRequest (some req) resp.AcsUrl resp.ProtocolBinding f.RelayState sp.ID] ∧
        s'.p = idp cfg fmt exp ∧ s'.sp = some sp ∧ s'.response = some resp := by
  obtain ⟨hp, heff, hmeta, hform, hreq, hsp, hresp⟩ := k
  simp only [Step.run, Clo.andThen, failWith, clo31, clo32]
  cases hc : (o.m_CreateAuthRequest (some req) resp.AcsUrl resp.ProtocolBinding f.RelayState sp.ID).2 with
  | some e =>
    simp [hform, hreq, hsp, hresp, deref, hc, Ctl.toClo, hp, idp, mfr_isPanic, heff, failEff, statusResponder]
    exact ⟨_, rfl⟩
  | none =>
    simp [hform, hreq, hsp, hresp, deref, hc, Ctl.toClo, heff, hp]


/-! ### Composition -/

theorem run_cons_pass {st : Step Frame} {rest : List (Step Frame)} {s s' : Frame} (h : st.run s = .ok (false, s')) :
    runDirect (st :: rest) s = runDirect rest s' := by rw [runDirect_cons, h]
theorem run_cons_panic {st : Step Frame} {rest : List (Step Frame)} {s : Frame} (h : st.run s = .panic) :
    runDirect (st :: rest) s = .panic := by rw [runDirect_cons, h]
theorem run_cons_fails {resp status} {st : Step Frame} {rest : List (Step Frame)} {s : Frame} (h : FailsWith o fmt resp status (st.run s)) :
    FailsWith o fmt resp status (runDirect (st :: rest) s) := by
  obtain ⟨s', msg, hr, he⟩ := h
  exact ⟨s', msg, by rw [runDirect_cons, hr], he⟩

def chainFrom (k : Nat) : List (Step Frame) := (chain o).drop k

theorem chain_eq : chain o = chainFrom o 0 := rfl
theorem cons0 : chainFrom o 0 = Step.withLogicStep (clo0 o) (clo1 o) :: chainFrom o 1 := rfl
theorem cons1 : chainFrom o 1 = Step.withValueNotEmptyCheck (clo2 o) (clo3 o) :: chainFrom o 2 := rfl
theorem cons2 : chainFrom o 2 = Step.withConditionalValueNotEmpty (clo4 o) (clo5 o) (clo6 o) :: chainFrom o 3 := rfl
theorem cons3 : chainFrom o 3 = Step.withLogicStep (clo7 o) (clo8 o) :: chainFrom o 4 := rfl
theorem cons4 : chainFrom o 4 = Step.withLogicStep (clo9 o) (clo10 o) :: chainFrom o 5 := rfl
theorem cons5 : chainFrom o 5 = Step.withConditionalLogicStep (clo11 o) (clo12 o) (clo13 o) :: chainFrom o 6 := rfl
theorem cons6 : chainFrom o 6 = Step.withConditionalLogicStep (clo14 o) (clo15 o) (clo16 o) :: chainFrom o 7 := rfl
theorem cons7 : chainFrom o 7 = Step.withConditionalLogicStep (clo17 o) (clo18 o) (clo19 o) :: chainFrom o 8 := rfl
theorem cons8 : chainFrom o 8 = Step.withLogicStep (clo20 o) (clo21 o) :: chainFrom o 9 := rfl
theorem cons9 : chainFrom o 9 = Step.withValueStep (clo22 o) :: chainFrom o 10 := rfl
theorem cons10 : chainFrom o 10 = Step.withValueNotEmptyCheck (clo23 o) (clo24 o) :: chainFrom o 11 := rfl
theorem cons11 : chainFrom o 11 = Step.withValueNotEmptyCheck (clo25 o) (clo26 o) :: chainFrom o 12 := rfl
theorem cons12 : chainFrom o 12 = Step.withLogicStep (clo27 o) (clo28 o) :: chainFrom o 13 := rfl
theorem cons13 : chainFrom o 13 = Step.withLogicStep (clo29 o) (clo30 o) :: chainFrom o 14 := rfl
theorem cons14 : chainFrom o 14 = [Step.withLogicStep (clo31 o) (clo32 o)] := rfl

/-- the frame in which the chain starts -/
def s0 : Frame :=
  { p := idp cfg fmt exp, response := some (resp0 o cfg fmt exp), metadata := (o.m_GetMetadata (idp cfg fmt exp)).1 }

theorem s0_known : Known o cfg fmt exp none none none (resp0 o cfg fmt exp) (s0 o cfg fmt exp) :=
  ⟨rfl, rfl, rfl, rfl, rfl, rfl, rfl⟩

abbrev H := IdentityProvider_ssoHandleFunc

/-- what the handler does after the chain -/
def epilogue (s : Frame) : Res (List Eff) :=
  match s.response with
  | none => .panic
  | some resp =>
    if resp.ProtocolBinding = redirectBinding ∨ resp.ProtocolBinding = postBinding then
      .ok (s.eff_ ++ [Eff.httpRedirect (o.m_LoginURL s.sp o.m_GetID) 303])
    else
      match s.p with
      | none => .panic
      | some p => .ok (s.eff_ ++ [failEff o p.TimeFormat resp statusUnsupportedBinding ("unsupported binding: " ++ resp.ProtocolBinding)])

theorem handler_of_chain (h : (o.m_GetMetadata (idp cfg fmt exp)).2.2 = none) :
    H o (idp cfg fmt exp) =
      match runDirect (chain o) (s0 o cfg fmt exp) with
      | .panic => .panic
      | .ok (true, s) => .ok s.eff_
      | .ok (false, s) => epilogue o s := by
  have h' := h
  simp only [idp] at h'
  simp only [H, IdentityProvider_ssoHandleFunc, body, runChain_eq_runDirect]
  simp [Ctl.toRes, h', idp, s0, resp0]
  cases hr : runDirect (chain o) _ with
  | panic => simp
  | ok p =>
    obtain ⟨b, s⟩ := p
    cases b with
    | true => simp
    | false =>
      dsimp only
      cases hresp : s.response with
      | none => simp [epilogue, hresp]
      | some resp =>
        by_cases h1 : resp.ProtocolBinding = redirectBinding
        · have hb1 : (resp.ProtocolBinding == "urn:oasis:names:tc:SAML:2.0:bindings:HTTP-Redirect") = true := beq_iff_eq.mpr h1
          have he : epilogue o s = .ok (s.eff_ ++ [Eff.httpRedirect (o.m_LoginURL s.sp o.m_GetID) 303]) := by
            simp only [epilogue, hresp]; exact if_pos (Or.inl h1)
          have h1' : resp.ProtocolBinding = "urn:oasis:names:tc:SAML:2.0:bindings:HTTP-Redirect" := h1
          rw [he]
          simp [hresp, deref_some, hb1, show resp.ProtocolBinding = "urn:oasis:names:tc:SAML:2.0:bindings:HTTP-Redirect" ∨ resp.ProtocolBinding = "urn:oasis:names:tc:SAML:2.0:bindings:HTTP-POST" from Or.inl h1']
        · have hb1 : (resp.ProtocolBinding == "urn:oasis:names:tc:SAML:2.0:bindings:HTTP-Redirect") = false := by
            cases hx : (resp.ProtocolBinding == "urn:oasis:names:tc:SAML:2.0:bindings:HTTP-Redirect") with
            | false => rfl
            | true => exact absurd (beq_iff_eq.mp hx) h1
          by_cases h2 : resp.ProtocolBinding = postBinding
          · have hb2 : (resp.ProtocolBinding == "urn:oasis:names:tc:SAML:2.0:bindings:HTTP-POST") = true := beq_iff_eq.mpr h2
            have he : epilogue o s = .ok (s.eff_ ++ [Eff.httpRedirect (o.m_LoginURL s.sp o.m_GetID) 303]) := by
              simp only [epilogue, hresp]; exact if_pos (Or.inr h2)
            have h2' : resp.ProtocolBinding = "urn:oasis:names:tc:SAML:2.0:bindings:HTTP-POST" := h2
            rw [he]
            simp [hresp, deref_some, hb1, hb2, show resp.ProtocolBinding = "urn:oasis:names:tc:SAML:2.0:bindings:HTTP-Redirect" ∨ resp.ProtocolBinding = "urn:oasis:names:tc:SAML:2.0:bindings:HTTP-POST" from Or.inr h2']
          · have hb2 : (resp.ProtocolBinding == "urn:oasis:names:tc:SAML:2.0:bindings:HTTP-POST") = false := by
              cases hx : (resp.ProtocolBinding == "urn:oasis:names:tc:SAML:2.0:bindings:HTTP-POST") with
              | false => rfl
              | true => exact absurd (beq_iff_eq.mp hx) h2
            have hn : ¬ (resp.ProtocolBinding = "urn:oasis:names:tc:SAML:2.0:bindings:HTTP-Redirect" ∨ resp.ProtocolBinding = "urn:oasis:names:tc:SAML:2.0:bindings:HTTP-POST") :=
              fun hh => hh.elim h1 h2
            cases hp : s.p with
            | none =>
              have he : epilogue o s = .panic := by
                simp only [epilogue, hresp, hp]; exact if_neg (fun hh => hh.elim h1 h2)
              rw [he]
              simp [hresp, deref_some, hb1, hb2, hp, hn]
            | some p =>
              have he : epilogue o s = .ok (s.eff_ ++ [failEff o p.TimeFormat resp statusUnsupportedBinding ("unsupported binding: " ++ resp.ProtocolBinding)]) := by
                simp only [epilogue, hresp, hp]; exact if_neg (fun hh => hh.elim h1 h2)
              rw [he]
              simp [hresp, deref_some, hb1, hb2, hp, hn, mfr_isPanic, failEff, statusUnsupportedBinding]


abbrev goal : Prop :=
  obsOf (H o (idp cfg fmt exp)) = some (obsOfModel o cfg fmt exp (Sso.sso o (inOfOra o cfg fmt exp)))

theorem h_meta_err (e : String) (h : (o.m_GetMetadata (idp cfg fmt exp)).2.2 = some e) : goal o cfg fmt exp := by
  have h' := h
  simp only [idp] at h'
  simp [goal, H, IdentityProvider_ssoHandleFunc, body, Ctl.toRes, h', idp, obsOf, obsOfEff, obsOfModel, Sso.sso, inOfOra, h]

theorem out_of_panic (h : (o.m_GetMetadata (idp cfg fmt exp)).2.2 = none) (hr : runDirect (chain o) (s0 o cfg fmt exp) = .panic) :
    obsOf (H o (idp cfg fmt exp)) = some { out := .panic } := by
  rw [handler_of_chain o cfg fmt exp h, hr]; rfl

theorem out_of_fails (h : (o.m_GetMetadata (idp cfg fmt exp)).2.2 = none) (resp : provider_Response) (status : String)
    (hr : FailsWith o fmt resp status (runDirect (chain o) (s0 o cfg fmt exp))) :
    obsOf (H o (idp cfg fmt exp)) = some { out := .failed status resp.AcsUrl resp.ProtocolBinding resp.RelayState resp.RequestID } := by
  obtain ⟨s', msg, hr, he⟩ := hr
  rw [handler_of_chain o cfg fmt exp h, hr]
  simp only [he, obsOf, obs_failEff]


/-! ### The refinement -/

theorem resp0_eq : resp0 o cfg fmt exp =
    { ProtocolBinding := "", RelayState := "", AcsUrl := "", Signature := "", SigAlg := "", RequestID := "",
      Issuer := o.m_GetEntityID (idp cfg fmt exp), Audience := "", SendIP := "" } := rfl

/-- **the regenerated SSO handler refines the SSO model.**  For every behaviour of the environment that honours `EnvOK`,
    `ssoHandleFunc` as regenerated from sso.go on this run does, observably, exactly what `Sso.sso` does on the input read
    off from the same oracle answers: it panics where the model panics, answers HTTP 500 when the IdP metadata cannot be
    read, writes the failed Response with the model's status code for the model's delivery parameters (consumer URL,
    binding, RelayState) and InResponseTo, or redirects (303) to the login URL of the identifier `CreateAuthRequest`
    returned; and it calls `CreateAuthRequest` exactly when, and with exactly the arguments, the model persists. -/
theorem sso_handler_refines (henv : EnvOK o cfg fmt exp) : goal o cfg fmt exp := by
  cases h : (o.m_GetMetadata (idp cfg fmt exp)).2.2 with
  | some e => exact h_meta_err o cfg fmt exp e h
  | none =>
  have hme : (inOfOra o cfg fmt exp).metaErr = false := by simp [inOfOra, h]
  have hidp : (inOfOra o cfg fmt exp).idpMeta = (o.m_GetMetadata (idp cfg fmt exp)).1 := rfl
  unfold goal
  -- step 1
  have h1 := step1 o cfg fmt exp _ (s0_known o cfg fmt exp)
  cases hpf : o.m_ParseForm with
  | some e =>
    rw [hpf] at h1
    simp only [] at h1
    have hform : (inOfOra o cfg fmt exp).form = none := by simp [inOfOra, hpf]
    rw [out_of_fails o cfg fmt exp h _ _ (by rw [chain_eq, cons0]; exact run_cons_fails o fmt h1)]
    simp [obsOfModel, Sso.sso, hme, hform, resp0_eq, statusRequestDenied]
  | none =>
  rw [hpf] at h1
  simp only [] at h1
  obtain ⟨s1, hr1, k1⟩ := h1
  have hrun1 : runDirect (chainFrom o 0) (s0 o cfg fmt exp) = runDirect (chainFrom o 1) s1 := by
    rw [cons0]; exact run_cons_pass hr1
  have hform : (inOfOra o cfg fmt exp).form = some (formOf (theForm o)) := by simp [inOfOra, hpf]
  -- the response after step 1
  generalize hr1def : ({ resp0 o cfg fmt exp with SigAlg := (theForm o).SigAlg, RelayState := (theForm o).RelayState } : provider_Response) = r1 at k1
  have hr1f : r1.AcsUrl = "" ∧ r1.ProtocolBinding = "" ∧ r1.RelayState = (theForm o).RelayState ∧ r1.RequestID = "" := by
    subst hr1def; exact ⟨rfl, rfl, rfl, rfl⟩
  -- step 2
  have h2 := step2 o cfg fmt exp (theForm o) r1 s1 k1
  by_cases ha : (theForm o).AuthRequest = ""
  · rw [if_pos ha] at h2
    rw [out_of_fails o cfg fmt exp h _ _ (by rw [chain_eq, hrun1, cons1]; exact run_cons_fails o fmt h2)]
    simp [obsOfModel, Sso.sso, Sso.ssoAfterForm, hme, hform, formOf, ha, hr1f, statusRequestDenied]
  rw [if_neg ha] at h2
  have hrun2 : runDirect (chainFrom o 0) (s0 o cfg fmt exp) = runDirect (chainFrom o 2) s1 := by
    rw [hrun1, cons1]; exact run_cons_pass h2
  -- step 3
  have h3 := step3 o cfg fmt exp (theForm o) r1 s1 k1
  by_cases hsa : (theForm o).SigAlg ≠ "" ∧ (theForm o).Sig = ""
  · rw [if_pos hsa] at h3
    rw [out_of_fails o cfg fmt exp h _ _ (by rw [chain_eq, hrun2, cons2]; exact run_cons_fails o fmt h3)]
    simp [obsOfModel, Sso.sso, Sso.ssoAfterForm, hme, hform, formOf, ha, hsa.1, hsa.2, hr1f, statusRequestDenied]
  rw [if_neg hsa] at h3
  have hsa' : ((theForm o).SigAlg != "" && (theForm o).Sig == "") = false := by
    cases hx : ((theForm o).SigAlg != "" && (theForm o).Sig == "") with
    | false => rfl
    | true => exfalso; apply hsa; simpa using hx
  have hrun3 : runDirect (chainFrom o 0) (s0 o cfg fmt exp) = runDirect (chainFrom o 3) s1 := by
    rw [hrun2, cons2]; exact run_cons_pass h3
  -- step 4
  have h4 := step4 o cfg fmt exp (theForm o) r1 s1 k1
  rcases hd : o.f_DecodeAuthNRequest (theForm o).Encoding (theForm o).AuthRequest with ⟨dq, derr⟩
  rw [hd] at h4
  cases derr with
  | some e =>
    simp only [] at h4
    have hdec : (inOfOra o cfg fmt exp).decoded = none := by simp [inOfOra, decodedOf, hpf, hd]
    rw [out_of_fails o cfg fmt exp h _ _ (by rw [chain_eq, hrun3, cons3]; exact run_cons_fails o fmt h4)]
    simp [obsOfModel, Sso.sso, Sso.ssoAfterForm, hme, hform, formOf, ha, hsa', hdec, hr1f, statusRequestDenied]
  | none =>
  cases dq with
  | none =>
    have := henv.1 (theForm o).Encoding (theForm o).AuthRequest (by rw [hd])
    rw [hd] at this
    simp at this
  | some req =>
  simp only [] at h4
  obtain ⟨s4, hr4, k4⟩ := h4
  have hdec : (inOfOra o cfg fmt exp).decoded = some req := by simp [inOfOra, decodedOf, hpf, hd]
  have hdec' : decodedOf o = some req := by simp [decodedOf, hpf, hd]
  have hrun4 : runDirect (chainFrom o 0) (s0 o cfg fmt exp) = runDirect (chainFrom o 4) s4 := by
    rw [hrun3, cons3]; exact run_cons_pass hr4
  generalize hr4def : ({ r1 with RequestID := req.Id } : provider_Response) = r4 at k4
  have hr4f : r4.AcsUrl = "" ∧ r4.ProtocolBinding = "" ∧ r4.RelayState = (theForm o).RelayState ∧ r4.RequestID = req.Id := by
    subst hr4def; exact ⟨hr1f.1, hr1f.2.1, hr1f.2.2.1, rfl⟩
  -- step 5
  have h5 := step5 o cfg fmt exp (theForm o) req r4 s4 k4
  cases hi : req.Issuer with
  | none =>
    rw [hi] at h5
    simp only [] at h5
    rw [out_of_fails o cfg fmt exp h _ _ (by rw [chain_eq, hrun4, cons4]; exact run_cons_fails o fmt h5)]
    simp [obsOfModel, Sso.sso, Sso.ssoAfterForm, hme, hform, formOf, ha, hsa', hdec, hi, hr4f, statusRequestDenied]
  | some iss =>
  rw [hi] at h5
  simp only [] at h5
  rcases hs : o.m_GetServiceProvider (idp cfg fmt exp) iss.Text with ⟨spo, serr⟩
  rw [hs] at h5
  cases serr with
  | some e =>
    simp only [] at h5
    have hsp : (inOfOra o cfg fmt exp).sp = none := by simp [inOfOra, spOf, hdec', hi, hs]
    rw [out_of_fails o cfg fmt exp h _ _ (by rw [chain_eq, hrun4, cons4]; exact run_cons_fails o fmt h5)]
    simp [obsOfModel, Sso.sso, Sso.ssoAfterForm, hme, hform, formOf, ha, hsa', hdec, hi, hsp, hr4f, statusRequestDenied]
  | none =>
  obtain ⟨sp, hspo, hmd⟩ := henv.2 iss.Text (by rw [hs])
  rw [hs] at hspo
  simp only at hspo
  subst hspo
  obtain ⟨m, hm⟩ := Option.isSome_iff_exists.mp hmd
  simp only [hm] at h5
  obtain ⟨s5, hr5, k5⟩ := h5
  have hsp : (inOfOra o cfg fmt exp).sp = some sp := by simp [inOfOra, spOf, hdec', hi, hs]
  have hsp' : spOf o cfg fmt exp = some sp := by simp [spOf, hdec', hi, hs]
  have hrun5 : runDirect (chainFrom o 0) (s0 o cfg fmt exp) = runDirect (chainFrom o 5) s5 := by
    rw [hrun4, cons4]; exact run_cons_pass hr5
  generalize hr5def : ({ r4 with Audience := m.EntityID } : provider_Response) = r5 at k5
  have hr5f : r5.AcsUrl = "" ∧ r5.ProtocolBinding = "" ∧ r5.RelayState = (theForm o).RelayState ∧ r5.RequestID = req.Id := by
    subst hr5def; exact hr4f
  -- common simp facts for the model side
  have M := And.intro hme (And.intro hform (And.intro hdec hsp))
  -- step 6
  have h6 := step6 o cfg fmt exp (theForm o) req sp r5 s5 k5
  cases hc6 : Sso.condStep (certificateCheckNecessary o req.Signature sp.Metadata) (checkCertificate o req.Signature sp.Metadata) with
  | panic =>
    rw [hc6] at h6
    rw [out_of_panic o cfg fmt exp h (by rw [chain_eq, hrun5, cons5]; exact run_cons_panic h6)]
    simp [obsOfModel, Sso.sso, Sso.ssoAfterForm, Sso.ssoAfterSp, Sso.bindR, hme, hform, formOf, ha, hsa', hdec, hi, hsp, hc6]
  | ok c6 =>
  cases c6 with
  | some e =>
    rw [hc6] at h6
    simp only [] at h6
    rw [out_of_fails o cfg fmt exp h _ _ (by rw [chain_eq, hrun5, cons5]; exact run_cons_fails o fmt h6)]
    simp [obsOfModel, Sso.sso, Sso.ssoAfterForm, Sso.ssoAfterSp, Sso.bindR, hme, hform, formOf, ha, hsa', hdec, hi, hsp, hc6, hr5f, statusRequestDenied]
  | none =>
  rw [hc6] at h6
  simp only [] at h6
  have hrun6 : runDirect (chainFrom o 0) (s0 o cfg fmt exp) = runDirect (chainFrom o 6) s5 := by
    rw [hrun5, cons5]; exact run_cons_pass h6
  -- step 7
  have h7 := step7 o cfg fmt exp (theForm o) req sp r5 s5 k5
  cases hc7 : Sso.condStep (signatureRedirectVerificationNecessary o (o.m_GetMetadata (idp cfg fmt exp)).1 sp.Metadata (theForm o).Sig (theForm o).Binding)
        (verifyRedirectSignature o (theForm o).AuthRequest (theForm o).RelayState (theForm o).Sig (theForm o).SigAlg (some sp)) with
  | panic =>
    rw [hc7] at h7
    rw [out_of_panic o cfg fmt exp h (by rw [chain_eq, hrun6, cons6]; exact run_cons_panic h7)]
    simp [obsOfModel, Sso.sso, Sso.ssoAfterForm, Sso.ssoAfterSp, Sso.bindR, hme, hidp, hform, formOf, ha, hsa', hdec, hi, hsp, hc6, hc7]
  | ok c7 =>
  cases c7 with
  | some e =>
    rw [hc7] at h7
    simp only [] at h7
    rw [out_of_fails o cfg fmt exp h _ _ (by rw [chain_eq, hrun6, cons6]; exact run_cons_fails o fmt h7)]
    simp [obsOfModel, Sso.sso, Sso.ssoAfterForm, Sso.ssoAfterSp, Sso.bindR, hme, hidp, hform, formOf, ha, hsa', hdec, hi, hsp, hc6, hc7, hr5f, statusRequestDenied]
  | none =>
  rw [hc7] at h7
  simp only [] at h7
  obtain ⟨s7, hr7, k7⟩ := h7
  have hrun7 : runDirect (chainFrom o 0) (s0 o cfg fmt exp) = runDirect (chainFrom o 7) s7 := by
    rw [hrun6, cons6]; exact run_cons_pass hr7
  -- step 8
  have h8 := step8 o cfg fmt exp (theForm o) req sp r5 s7 k7
  cases hc8 : Sso.condStep (signaturePostVerificationNecessary o (o.m_GetMetadata (idp cfg fmt exp)).1 sp.Metadata req.Signature (theForm o).Binding)
        (verifyPostSignature o (theForm o).AuthRequest (some sp)) with
  | panic =>
    rw [hc8] at h8
    rw [out_of_panic o cfg fmt exp h (by rw [chain_eq, hrun7, cons7]; exact run_cons_panic h8)]
    simp [obsOfModel, Sso.sso, Sso.ssoAfterForm, Sso.ssoAfterSp, Sso.bindR, hme, hidp, hform, formOf, ha, hsa', hdec, hi, hsp, hc6, hc7, hc8]
  | ok c8 =>
  cases c8 with
  | some e =>
    rw [hc8] at h8
    simp only [] at h8
    rw [out_of_fails o cfg fmt exp h _ _ (by rw [chain_eq, hrun7, cons7]; exact run_cons_fails o fmt h8)]
    simp [obsOfModel, Sso.sso, Sso.ssoAfterForm, Sso.ssoAfterSp, Sso.bindR, hme, hidp, hform, formOf, ha, hsa', hdec, hi, hsp, hc6, hc7, hc8, hr5f, statusRequestDenied]
  | none =>
  rw [hc8] at h8
  simp only [] at h8
  obtain ⟨s8, hr8, k8⟩ := h8
  have hrun8 : runDirect (chainFrom o 0) (s0 o cfg fmt exp) = runDirect (chainFrom o 8) s8 := by
    rw [hrun7, cons7]; exact run_cons_pass hr8
  -- step 9
  have h9 := step9 o cfg fmt exp (theForm o) req sp r5 s8 k8
  have hemb := FnLemmas.signaturePostProvided_eq o req.Signature
  by_cases hc9 : (((theForm o).Binding == postBinding && (theForm o).Sig != "") || ((theForm o).Binding == redirectBinding && FnLemmas.embProvided req.Signature)) = true
  · rw [if_pos hc9] at h9
    rw [out_of_fails o cfg fmt exp h _ _ (by rw [chain_eq, hrun8, cons8]; exact run_cons_fails o fmt h9)]
    simp [obsOfModel, Sso.sso, Sso.ssoAfterForm, Sso.ssoAfterSp, Sso.bindR, hme, hidp, hform, formOf, ha, hsa', hdec, hi, hsp, hc6, hc7, hc8, hemb, hc9, hr5f, statusRequestDenied]
  rw [if_neg hc9] at h9
  obtain ⟨s9, hr9, k9⟩ := h9
  have hc9' : (((theForm o).Binding == postBinding && (theForm o).Sig != "") || ((theForm o).Binding == redirectBinding && FnLemmas.embProvided req.Signature)) = false := by
    simpa using hc9
  have hrun9 : runDirect (chainFrom o 0) (s0 o cfg fmt exp) = runDirect (chainFrom o 9) s9 := by
    rw [hrun8, cons8]; exact run_cons_pass hr9
  -- step 10
  have h10 := step10 o cfg fmt exp (theForm o) req sp r5 s9 k9
  cases hacs : Sso.spAcs sp with
  | none =>
    rw [hacs] at h10
    simp only [] at h10
    rw [out_of_panic o cfg fmt exp h (by rw [chain_eq, hrun9, cons9]; exact run_cons_panic h10)]
    simp [obsOfModel, Sso.sso, Sso.ssoAfterForm, Sso.ssoAfterSp, Sso.bindR, hme, hidp, hform, formOf, ha, hsa', hdec, hi, hsp, hc6, hc7, hc8, hemb, hc9', hacs]
  | some l =>
  rw [hacs] at h10
  simp only [] at h10
  cases hsel : GetAcsUrlAndBindingForResponse o l req.ProtocolBinding with
  | panic =>
    rw [hsel] at h10
    simp only [] at h10
    rw [out_of_panic o cfg fmt exp h (by rw [chain_eq, hrun9, cons9]; exact run_cons_panic h10)]
    simp [obsOfModel, Sso.sso, Sso.ssoAfterForm, Sso.ssoAfterSp, Sso.bindR, hme, hidp, hform, formOf, ha, hsa', hdec, hi, hsp, hc6, hc7, hc8, hemb, hc9', hacs, hsel]
  | ok sel =>
  rw [hsel] at h10
  simp only [] at h10
  obtain ⟨s10, hr10, k10⟩ := h10
  have hrun10 : runDirect (chainFrom o 0) (s0 o cfg fmt exp) = runDirect (chainFrom o 10) s10 := by
    rw [hrun9, cons9]; exact run_cons_pass hr10
  generalize hr10def : ({ r5 with AcsUrl := sel.1, ProtocolBinding := sel.2 } : provider_Response) = r10 at k10
  have hr10f : r10.AcsUrl = sel.1 ∧ r10.ProtocolBinding = sel.2 ∧ r10.RelayState = (theForm o).RelayState ∧ r10.RequestID = req.Id := by
    subst hr10def; exact ⟨rfl, rfl, hr5f.2.2.1, hr5f.2.2.2⟩
  have hselOf : selOf o cfg fmt exp = sel := by simp [selOf, hdec', hsp', hacs, hsel, Res.get]
  -- the model from here on
  have hmodel : Sso.sso o (inOfOra o cfg fmt exp) = Sso.ssoAfterSel o (inOfOra o cfg fmt exp) (formOf (theForm o)) req sp sel.1 sel.2 := by
    simp [Sso.sso, Sso.ssoAfterForm, Sso.ssoAfterSp, Sso.bindR, hme, hidp, hform, formOf, ha, hsa', hdec, hi, hsp, hc6, hc7, hc8, hemb, hc9', hacs, hsel]
  rw [hmodel]
  -- step 11
  have h11 := step11 o cfg fmt exp (theForm o) req sp r10 s10 k10
  by_cases he11 : sel.1 = ""
  · rw [if_pos (by rw [hr10f.1]; exact he11)] at h11
    rw [out_of_fails o cfg fmt exp h _ _ (by rw [chain_eq, hrun10, cons10]; exact run_cons_fails o fmt h11)]
    simp [obsOfModel, Sso.ssoAfterSel, he11, hr10f, formOf, statusUnsupportedBinding]
  rw [if_neg (by rw [hr10f.1]; exact he11)] at h11
  have hrun11 : runDirect (chainFrom o 0) (s0 o cfg fmt exp) = runDirect (chainFrom o 11) s10 := by
    rw [hrun10, cons10]; exact run_cons_pass h11
  -- step 12
  have h12 := step12 o cfg fmt exp (theForm o) req sp r10 s10 k10
  by_cases he12 : sel.2 = ""
  · rw [if_pos (by rw [hr10f.2.1]; exact he12)] at h12
    rw [out_of_fails o cfg fmt exp h _ _ (by rw [chain_eq, hrun11, cons11]; exact run_cons_fails o fmt h12)]
    simp [obsOfModel, Sso.ssoAfterSel, he11, he12, hr10f, formOf, statusUnsupportedBinding]
  rw [if_neg (by rw [hr10f.2.1]; exact he12)] at h12
  have hrun12 : runDirect (chainFrom o 0) (s0 o cfg fmt exp) = runDirect (chainFrom o 12) s10 := by
    rw [hrun11, cons11]; exact run_cons_pass h12
  -- step 13
  have h13 := step13 o cfg fmt exp (theForm o) req sp r10 s10 k10
  by_cases hn13 : ¬ (sel.2 = redirectBinding ∨ sel.2 = postBinding)
  · have he13 := hn13
    rw [if_neg (by rw [hr10f.2.1]; exact he13)] at h13
    rw [out_of_fails o cfg fmt exp h _ _ (by rw [chain_eq, hrun12, cons12]; exact run_cons_fails o fmt h13)]
    have hb : (sel.2 == redirectBinding || sel.2 == postBinding) = false := by
      cases hx : (sel.2 == redirectBinding || sel.2 == postBinding) with
      | false => rfl
      | true => exfalso; apply he13; simpa using hx
    simp [obsOfModel, Sso.ssoAfterSel, he11, he12, hb, hr10f, formOf, statusUnsupportedBinding]
  have he13 : sel.2 = redirectBinding ∨ sel.2 = postBinding := Decidable.not_not.mp hn13
  rw [if_pos (by rw [hr10f.2.1]; exact he13)] at h13
  have hb13 : (sel.2 == redirectBinding || sel.2 == postBinding) = true := by simpa using he13
  have hrun13 : runDirect (chainFrom o 0) (s0 o cfg fmt exp) = runDirect (chainFrom o 13) s10 := by
    rw [hrun12, cons12]; exact run_cons_pass h13
  -- step 14
  have h14 := step14 o cfg fmt exp (theForm o) req sp r10 s10 k10
  cases hc14 : checkRequestRequiredContent o (o.m_GetMetadata (idp cfg fmt exp)).1 (some sp) (some req) with
  | panic =>
    rw [hc14] at h14
    rw [out_of_panic o cfg fmt exp h (by rw [chain_eq, hrun13, cons13]; exact run_cons_panic h14)]
    simp [obsOfModel, Sso.ssoAfterSel, Sso.bindR, he11, he12, hb13, hidp, hc14]
  | ok c14 =>
  cases c14 with
  | some e =>
    rw [hc14] at h14
    simp only [] at h14
    rw [out_of_fails o cfg fmt exp h _ _ (by rw [chain_eq, hrun13, cons13]; exact run_cons_fails o fmt h14)]
    simp [obsOfModel, Sso.ssoAfterSel, Sso.bindR, he11, he12, hb13, hidp, hc14, hr10f, formOf, statusRequestDenied]
  | none =>
  rw [hc14] at h14
  simp only [] at h14
  have hrun14 : runDirect (chainFrom o 0) (s0 o cfg fmt exp) = runDirect (chainFrom o 14) s10 := by
    rw [hrun13, cons13]; exact run_cons_pass h14
  -- step 15
  have h15 := step15 o cfg fmt exp (theForm o) req sp r10 s10 k10
  rw [hr10f.1, hr10f.2.1] at h15
  have hcreate : (inOfOra o cfg fmt exp).createOk = (o.m_CreateAuthRequest (some req) sel.1 sel.2 (theForm o).RelayState sp.ID).2.isNone := by
    simp [inOfOra, createOf, hselOf, hdec', hsp']
  cases hc15 : (o.m_CreateAuthRequest (some req) sel.1 sel.2 (theForm o).RelayState sp.ID).2 with
  | some e =>
    rw [hc15] at h15
    simp only [] at h15
    obtain ⟨s15, msg, hr15, he15⟩ := h15
    have hfin : runDirect (chain o) (s0 o cfg fmt exp) = .ok (true, s15) := by
      rw [chain_eq, hrun14, cons14, runDirect_cons, hr15]
    rw [handler_of_chain o cfg fmt exp h, hfin]
    simp [he15, obsOf, obs_failEff, obsOfModel, Sso.ssoAfterSel, Sso.bindR, he11, he12, hb13, hidp, hc14, hcreate, hc15, hr10f, formOf]
    rfl
  | none =>
    rw [hc15] at h15
    simp only [] at h15
    obtain ⟨s15, hr15, he15, hp15, hsp15, hresp15⟩ := h15
    have hfin : runDirect (chain o) (s0 o cfg fmt exp) = .ok (false, s15) := by
      rw [chain_eq, hrun14, cons14, runDirect_cons, hr15]; rfl
    rw [handler_of_chain o cfg fmt exp h, hfin]
    simp only [epilogue, hresp15]
    rw [if_pos (by rw [hr10f.2.1]; exact he13)]
    simp [he15, hsp15, obsOf, obsOfEff, obsOfModel, Sso.ssoAfterSel, Sso.bindR, he11, he12, hb13, hidp, hc14, hcreate, hc15, hsp', formOf, show (inOfOra o cfg fmt exp).createdID = o.m_GetID from rfl]

end SsoGen
