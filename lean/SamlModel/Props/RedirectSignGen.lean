import SamlModel.Props.C04
set_option linter.unusedSimpArgs false
set_option linter.unusedVariables false
/-!
  Props.RedirectSignGen — `createRedirectSignature` (redirect.go) is *translated* (standalone; `xml.Marshal`,
  `xml.DeflateAndBase64`, `signature.ParseTlsKeyPair`, `GetSigningContext` and `CreateRedirect` - the RSA signature - are
  typed oracles).  `createRedirectSignature_signs`: whenever the regenerated function returns a signature, it is the
  base64 of what the signer produced over exactly `C04.signedOctets` - `BuildRedirectQuery` of the deflated message, the
  RelayState and the algorithm, without a Signature parameter - and the algorithm it returns is the configured one.
  With `C04_redirect_query` (the verifier recovers exactly these octets, the algorithm and the signature bytes from the
  query `sendBackResponse` sends) this closes the redirect-binding clause of C04 over regenerated code on both sides.
-/
namespace C04
open Go Gen Lib Consts

theorem createRedirectSignature_signs (o : Ora) (m : Option samlp_ResponseType) (key : Option KeyRec) (cert : Lib.Bytes)
    (alg relay sigB64 alg' : String)
    (h : createRedirectSignature o m key cert alg relay = .ok (sigB64, alg', none)) :
    ∃ resp data tls ctx signed sig,
      o.f_Marshal_ResponseType m = (resp, none) ∧ o.f_DeflateAndBase64 resp = (data, none) ∧
      o.f_ParseTlsKeyPair cert key = (tls, none) ∧ o.f_GetSigningContext tls alg = (ctx, none) ∧
      signedOctets o (Lib.bytesToString data) relay alg = .ok signed ∧
      o.f_CreateRedirect ctx signed = (sig, none) ∧ sigB64 = Lib.b64encode sig ∧ alg' = alg := by
  unfold createRedirectSignature createRedirectSignature.body at h
  rcases hm : o.f_Marshal_ResponseType m with ⟨resp, e1⟩
  cases e1 with
  | some e => simp [hm, Ctl.toRes] at h
  | none =>
  rcases hd : o.f_DeflateAndBase64 resp with ⟨data, e2⟩
  cases e2 with
  | some e => simp [hm, hd, Ctl.toRes] at h
  | none =>
  rcases ht : o.f_ParseTlsKeyPair cert key with ⟨tls, e3⟩
  cases e3 with
  | some e => simp [hm, hd, ht, Ctl.toRes] at h
  | none =>
  rcases hc : o.f_GetSigningContext tls alg with ⟨ctx, e4⟩
  cases e4 with
  | some e => simp [hm, hd, ht, hc, Ctl.toRes] at h
  | none =>
  have hq := Redirect.BuildRedirectQuery_eq o (Lib.bytesToString data) relay alg ""
  rcases hs : o.f_CreateRedirect ctx (String.ofList (Redirect.buildQ (Lib.bytesToString data) relay alg "")) with ⟨sig, e5⟩
  cases e5 with
  | some e => simp [hm, hd, ht, hc, hq, hs, Ctl.toRes, Res.isPanic, Res.get] at h
  | none =>
    simp [hm, hd, ht, hc, hq, hs, Ctl.toRes, Res.isPanic, Res.get] at h
    exact ⟨resp, data, tls, ctx, _, sig, by simp [hm], by simp [hd], by simp [ht], by simp [hc], hq, by simp [hs], h.1.symm, h.2.symm⟩

end C04
