import SamlModel.Props.C02
import SamlModel.Props.C05
import SamlModel.Props.C06
import SamlModel.Props.C07
import SamlModel.Props.C08
import SamlModel.Props.C09
import SamlModel.Props.SsoGen
import SamlModel.Props.RedirectSigGen
set_option linter.unusedSimpArgs false
set_option linter.unusedVariables false
/-!
  Props.SsoProps — C05, C06, C08 (and C09) stated on the *regenerated* `ssoHandleFunc`
  (`SsoGen.sso_handler_refines` transports the theorems about the SSO model to it).
-/
namespace SsoGen
open Go Gen Consts CallbackGen Sso

variable (o : Ora) (cfg : provider_IdentityProviderConfig) (fmt : String) (exp : Int)

/-- the regenerated handler sent the user agent to the login page -/
def Redirected : Prop :=
  ∃ pre url, IdentityProvider_ssoHandleFunc o (idp cfg fmt exp) = .ok (pre ++ [Eff.httpRedirect url 303])

/-- **a login redirect of the regenerated handler is an accepted request of the model**, and it was preceded by exactly
    one `CreateAuthRequest` call, which succeeded -/
theorem login_of_redirected (henv : EnvOK o cfg fmt exp) (h : Redirected o cfg fmt exp) :
    (Sso.sso o (inOfOra o cfg fmt exp)).out = .login o.m_GetID ∧
    ∃ req acs b relay app, IdentityProvider_ssoHandleFunc o (idp cfg fmt exp) =
      .ok [Eff.callCreateAuthRequest req acs b relay app, Eff.httpRedirect (o.m_LoginURL (spOf o cfg fmt exp) o.m_GetID) 303] := by
  obtain ⟨pre, url, ht⟩ := h
  have hr := sso_handler_refines o cfg fmt exp henv
  unfold goal H at hr
  rw [ht] at hr
  have hshape := C08.C08_one_outcome o (inOfOra o cfg fmt exp)
  generalize hres : Sso.sso o (inOfOra o cfg fmt exp) = res at hr hshape
  match pre, hr with
  | [], hr =>
    simp only [List.nil_append, obsOf, obsOfEff, Option.some.injEq] at hr
    cases hshape <;> simp [obsOfModel] at hr
  | [c], hr =>
    cases c with
    | callCreateAuthRequest req acs b relay app =>
      simp only [List.cons_append, List.nil_append, obsOf, obsOfEff, Option.some.injEq] at hr
      cases hshape with
      | http => simp [obsOfModel] at hr
      | panic => simp [obsOfModel] at hr
      | rejected => simp [obsOfModel] at hr
      | persistFailed => simp [obsOfModel] at hr
      | login id p hp =>
        simp [obsOfModel] at hr
        obtain ⟨hurl, _⟩ := hr
        have hid : id = o.m_GetID := by
          have := C08.C08_login_iff_persisted o (inOfOra o cfg fmt exp)
          rw [hres] at this
          have h2 := this.mp ⟨p, rfl, hp⟩
          simp at h2
          exact h2
        subst hid
        exact ⟨rfl, req, acs, b, relay, app, by rw [ht, hurl]; rfl⟩
    | _ => simp [obsOf] at hr
  | _ :: _ :: _, hr => simp [obsOf] at hr

end SsoGen

namespace C05
open Go Gen Consts CallbackGen Sso SsoGen FnLemmas

/-- **C05 on the regenerated handler.**  `ssoHandleFunc` as regenerated from sso.go on this run, in any environment
    honouring `EnvOK`: if it sends the user agent to the login page, then the request decoded, its sender is registered,
    and - whenever the service provider's metadata or the IdP's configuration require signed AuthnRequests - the
    signature the binding in use defines was verified (Redirect: over the query octets with the registered key;
    POST: the enveloped signature); a signature value that is present was verified in any case. -/
theorem C05_generated_handler (o : Ora) (cfg : provider_IdentityProviderConfig) (fmt : String) (exp : Int)
    (henv : EnvOK o cfg fmt exp) (h : Redirected o cfg fmt exp) :
    ∃ form req sp, (inOfOra o cfg fmt exp).form = some form ∧ decodedOf o = some req ∧ spOf o cfg fmt exp = some sp ∧
      (Form.WF form → required (inOfOra o cfg fmt exp) sp = true → redirectVerified o form sp ∨ postVerified o form sp) ∧
      (Form.WF form → form.Sig ≠ "" → redirectVerified o form sp) ∧
      (Form.WF form → embProvided req.Signature = true → postVerified o form sp) := by
  obtain ⟨hl, _⟩ := login_of_redirected o cfg fmt exp henv h
  obtain ⟨form, req, sp, p, hf, hd, hs, _, _, _, hreq⟩ := C05_required_implies_verified o _ _ hl
  obtain ⟨form', req', sp', hf', hd', hs', h1, h2⟩ := C05_bad_signature_never_accepted o _ _ hl
  rw [hf] at hf'; rw [hd] at hd'; rw [hs] at hs'
  cases hf'; cases hd'; cases hs'
  exact ⟨form, req, sp, hf, hd, hs, hreq, h1, h2⟩

end C05

namespace C06
open Go Gen Consts CallbackGen Sso SsoGen FnLemmas

/-- **C06 on the regenerated handler.**  A request the regenerated `ssoHandleFunc` accepts (login redirect) satisfies every
    validity condition: non-empty SAMLRequest, no SigAlg without Signature, a decodable AuthnRequest whose Issuer is the
    entity ID of the registered service provider storage returned for it, ID and Version present, Destination absent or
    an advertised SSO location, Conditions (when present) bracketing the current time. -/
theorem C06_generated_handler (o : Ora) (cfg : provider_IdentityProviderConfig) (fmt : String) (exp : Int)
    (henv : EnvOK o cfg fmt exp) (h : Redirected o cfg fmt exp) :
    ∃ form req sp,
      (inOfOra o cfg fmt exp).form = some form ∧ form.AuthRequest ≠ "" ∧ ¬ (form.SigAlg ≠ "" ∧ form.Sig = "") ∧
      decodedOf o = some req ∧ spOf o cfg fmt exp = some sp ∧
      req.Id ≠ "" ∧ req.Version ≠ "" ∧
      (∃ iss m, req.Issuer = some iss ∧ iss.Text ≠ "" ∧ sp.Metadata = some m ∧ iss.Text = m.EntityID) ∧
      DestOK (o.m_GetMetadata (idp cfg fmt exp)).1 req ∧
      (∀ c, req.Conditions = some c → TimeOK o defaultTimeFormat c.NotBefore c.NotOnOrAfter) := by
  obtain ⟨hl, _⟩ := login_of_redirected o cfg fmt exp henv h
  exact C06_accept_implies_valid o (inOfOra o cfg fmt exp) ⟨_, hl⟩

end C06

namespace C08
open Go Gen Consts CallbackGen Sso SsoGen

/-- **C08 on the regenerated handler.**  For every environment honouring `EnvOK`, one run of the regenerated
    `ssoHandleFunc` has exactly one outcome: a panic, or exactly one write to the client, preceded by at most one
    `CreateAuthRequest` call; the call happens only for a request that passed every check (its binding is one the IdP can
    answer), and a request rejected by a check leaves no trace in storage. -/
theorem C08_generated_handler (o : Ora) (cfg : provider_IdentityProviderConfig) (fmt : String) (exp : Int)
    (henv : EnvOK o cfg fmt exp) :
    ∃ r, obsOf (IdentityProvider_ssoHandleFunc o (idp cfg fmt exp)) = some r ∧
      (∀ p, r.persist = some p → (p.binding = redirectBinding ∨ p.binding = postBinding) ∧
        ((∃ url, r.out = .login url) ∨ ∃ a b rl irt, r.out = .failed statusResponder a b rl irt)) ∧
      ((∃ url, r.out = .login url) → ∃ p, r.persist = some p ∧ p.ok = true) := by
  have hr := sso_handler_refines o cfg fmt exp henv
  unfold goal H at hr
  refine ⟨_, hr, ?_, ?_⟩
  · intro p hp
    have hb := C08_unanswerable_not_persisted o (inOfOra o cfg fmt exp) p (by simpa [obsOfModel] using hp)
    refine ⟨hb, ?_⟩
    have hs := C08_one_outcome o (inOfOra o cfg fmt exp)
    generalize Sso.sso o (inOfOra o cfg fmt exp) = res at hs hp
    cases hs <;> simp [obsOfModel] at hp ⊢
  · rintro ⟨url, hu⟩
    have hs := C08_one_outcome o (inOfOra o cfg fmt exp)
    generalize Sso.sso o (inOfOra o cfg fmt exp) = res at hs hu
    cases hs with
    | login id p hp => exact ⟨p, by simp [obsOfModel], hp⟩
    | _ => simp [obsOfModel] at hu

end C08

namespace C09
open Go Gen Consts CallbackGen Sso SsoGen

/-- **C09 on the regenerated SSO handler**: in any environment honouring `EnvOK` in which registered service providers
    have an SPSSODescriptor and the IdP metadata is available whenever reading it reports no error, `ssoHandleFunc` as
    regenerated from sso.go on this run does not panic -/
theorem C09_generated_sso_handler (o : Ora) (cfg : provider_IdentityProviderConfig) (fmt : String) (exp : Int)
    (henv : EnvOK o cfg fmt exp)
    (hsp : ∀ sp, spOf o cfg fmt exp = some sp → SpWF sp)
    (hidp : (o.m_GetMetadata (idp cfg fmt exp)).2.2 = none → (o.m_GetMetadata (idp cfg fmt exp)).1.isSome) :
    IdentityProvider_ssoHandleFunc o (idp cfg fmt exp) ≠ .panic := by
  intro hp
  have hr := sso_handler_refines o cfg fmt exp henv
  unfold goal H at hr
  rw [hp] at hr
  simp only [obsOf, Option.some.injEq] at hr
  have hnp := C09_sso o (inOfOra o cfg fmt exp) hsp (by
    intro hme
    apply hidp
    simp only [inOfOra] at hme
    cases hx : (o.m_GetMetadata (idp cfg fmt exp)).2.2 <;> simp_all)
  have hs := C08.C08_one_outcome o (inOfOra o cfg fmt exp)
  generalize hres : Sso.sso o (inOfOra o cfg fmt exp) = res at hs hr hnp
  cases hs <;> simp [obsOfModel] at hr hnp

end C09

namespace C05
open Go Gen Consts CallbackGen Sso SsoGen FnLemmas RedirectSigGen

/-- the storage's service providers validate redirect signatures with the library's own method: the answers of the
    `ValidateRedirectSignature` oracle are those of the regenerated function -/
def RedirectOracleIsGenerated (o : Ora) : Prop :=
  ∀ sp r rs a s, o.m_ValidateRedirectSignature (some sp) r rs a s = (ServiceProvider_ValidateRedirectSignature o (some sp) r rs a s).get

/-- **C05, down to the verified octets.**  If the Redirect signature of an accepted request "verified"
    (`redirectVerified`, the conclusion of `C05_required_implies_verified` / `C05_generated_handler`), then a signing key is
    registered for the service provider, the Signature parameter is base64 of some bytes `sv`, and the signature
    verifier (`signature.ValidateRedirect`: RSA / DSA over the algorithm named by SigAlg) accepted `sv` under that key
    over exactly `octets AuthRequest RelayState SigAlg` - octets that determine these three values
    (`octets_injective`): the signature covers exactly the request content, RelayState and algorithm the endpoint then
    acts on (`form` is what `getAuthRequestFromRequest` read and what is decoded, echoed and persisted). -/
theorem C05_redirect_signature_covers_what_is_acted_on (o : Ora) (hlink : RedirectOracleIsGenerated o) (form : Form)
    (sp : serviceprovider_ServiceProvider) (h : redirectVerified o form sp) :
    sp.signerPublicKey.isSome ∧ ∃ sv, Lib.b64decode form.Sig = some sv ∧
      o.f_ValidateRedirect form.SigAlg (Lib.stringToBytes (String.ofList (octets form.AuthRequest form.RelayState form.SigAlg))) sv
        sp.signerPublicKey = none := by
  obtain ⟨_, _, _, _, hv⟩ := h
  rw [hlink, validateRedirect_spec] at hv
  simp only [Res.get] at hv
  cases hk : sp.signerPublicKey with
  | none => simp [hk] at hv
  | some k =>
    simp only [hk, Option.isNone_some, Bool.false_eq_true, if_false] at hv
    cases hd : Lib.b64decode form.Sig with
    | none => simp [hd] at hv
    | some sv =>
      simp only [hd] at hv
      exact ⟨rfl, sv, rfl, hv⟩

end C05

namespace C02
open Go Gen Consts CallbackGen Sso SsoGen

/-- **C02 on the regenerated SSO handler.**  In any environment honouring `EnvOK`: if `ssoHandleFunc` as regenerated from
    sso.go on this run sends the user agent to the login page, then the (consumer URL, binding) pair it handed to
    `CreateAuthRequest` - the pair the callback will later deliver the assertion to - is the Location and Binding of one
    AssertionConsumerService entry of the metadata registered for the request's issuer; and the failed Responses it writes
    itself are addressed either nowhere (they are returned in the HTTP body) or to such a registered pair. -/
theorem C02_generated_sso_handler (o : Ora) (cfg : provider_IdentityProviderConfig) (fmt : String) (exp : Int)
    (henv : EnvOK o cfg fmt exp) :
    (Redirected o cfg fmt exp →
      ∃ sp e req relay app, spOf o cfg fmt exp = some sp ∧ e ∈ registeredAcs sp ∧
        IdentityProvider_ssoHandleFunc o (idp cfg fmt exp) =
          .ok [Eff.callCreateAuthRequest req e.Location e.Binding relay app,
               Eff.httpRedirect (o.m_LoginURL (spOf o cfg fmt exp) o.m_GetID) 303]) ∧
    (∀ r st a b rl irt, obsOf (IdentityProvider_ssoHandleFunc o (idp cfg fmt exp)) = some r → r.out = .failed st a b rl irt →
      (a = "" ∧ b = "") ∨ ∃ sp e, spOf o cfg fmt exp = some sp ∧ e ∈ registeredAcs sp ∧ a = e.Location ∧ b = e.Binding) := by
  have hr := sso_handler_refines o cfg fmt exp henv
  unfold goal H at hr
  constructor
  · intro hred
    obtain ⟨hl, req, acs, b, relay, app, ht⟩ := login_of_redirected o cfg fmt exp henv hred
    obtain ⟨sp, e, p, hsp, he, hp, hacs, hb⟩ := C02_sso_persists_registered_pair o (inOfOra o cfg fmt exp) _ hl
    rw [ht] at hr
    simp only [obsOf, Option.some.injEq] at hr
    have hpers := congrArg ObsR.persist hr
    simp only [obsOfModel, hp, Option.some.injEq] at hpers
    have h1 : acs = e.Location := by rw [← hacs, ← hpers]
    have h2 : b = e.Binding := by rw [← hb, ← hpers]
    subst h1 h2
    exact ⟨sp, e, req, relay, app, hsp, he, ht⟩
  · intro r st a b rl irt hobs hout
    rw [hobs] at hr
    simp only [Option.some.injEq] at hr
    subst hr
    simp only [obsOfModel] at hout
    cases hm : (Sso.sso o (inOfOra o cfg fmt exp)).out with
    | failed n st' a' b' rl' irt' =>
      rw [hm] at hout
      simp only [Obs.failed.injEq] at hout
      obtain ⟨_, ha, hb, _, _⟩ := hout
      subst ha hb
      exact C02_sso_error_targets o (inOfOra o cfg fmt exp) n st' a' b' rl' irt' hm
    | httpError c => rw [hm] at hout; simp at hout
    | panic => rw [hm] at hout; simp at hout
    | login id => rw [hm] at hout; simp at hout

end C02

namespace C07
open Go Gen Consts CallbackGen Sso SsoGen

/-- an accepted request of the model is a login redirect of the regenerated handler, after exactly one successful
    `CreateAuthRequest` call -/
theorem redirected_of_login (o : Ora) (cfg : provider_IdentityProviderConfig) (fmt : String) (exp : Int)
    (henv : EnvOK o cfg fmt exp) (id : String) (h : (Sso.sso o (inOfOra o cfg fmt exp)).out = .login id) :
    Redirected o cfg fmt exp := by
  have hr := sso_handler_refines o cfg fmt exp henv
  unfold goal H at hr
  have eff_login : ∀ e url, obsOfEff e = .login url → e = Eff.httpRedirect url 303 := by
    intro e url he
    unfold obsOfEff at he
    split at he <;> simp_all
  have hm : (obsOfModel o cfg fmt exp (Sso.sso o (inOfOra o cfg fmt exp))).out = .login (o.m_LoginURL (spOf o cfg fmt exp) id) := by
    simp [obsOfModel, h]
  unfold Redirected
  cases ht : IdentityProvider_ssoHandleFunc o (idp cfg fmt exp) with
  | panic =>
    rw [ht] at hr
    simp only [obsOf, Option.some.injEq] at hr
    rw [← hr] at hm
    simp at hm
  | ok t =>
    rw [ht] at hr
    unfold obsOf at hr
    split at hr
    · rename_i heq; simp at heq
    · rename_i req acs b relay app e heq
      simp only [Res.ok.injEq] at heq
      simp only [Option.some.injEq] at hr
      rw [← hr] at hm
      simp only at hm
      have he := eff_login e _ hm
      exact ⟨[Eff.callCreateAuthRequest req acs b relay app], _, by rw [heq, he]; rfl⟩
    · rename_i e heq
      simp only [Res.ok.injEq] at heq
      simp only [Option.some.injEq] at hr
      rw [← hr] at hm
      simp only at hm
      have he := eff_login e _ hm
      exact ⟨[], _, by rw [heq, he]; rfl⟩
    · simp at hr

/-- **C07 on the regenerated SSO handler.**  A conformant AuthnRequest of a registered service provider (`ConformantAuthn`
    of the input read off from the environment's answers: correctly encoded, correctly signed where a signature is
    required or present, valid content, answerable consumer endpoint, storage accepts the request) makes the regenerated
    `ssoHandleFunc` persist it and redirect (303) to the login page. -/
theorem C07_generated_sso_handler (o : Ora) (cfg : provider_IdentityProviderConfig) (fmt : String) (exp : Int)
    (henv : EnvOK o cfg fmt exp) (form : Sso.Form) (req : samlp_AuthnRequestType) (iss : saml_NameIDType)
    (sp : serviceprovider_ServiceProvider) (m : md_EntityDescriptorType) (d : md_SPSSODescriptorType) (idpm : md_IDPSSODescriptorType)
    (c : ConformantAuthn o (inOfOra o cfg fmt exp) form req iss sp m d idpm) : Redirected o cfg fmt exp :=
  redirected_of_login o cfg fmt exp henv _ (C07_authn o _ form req iss sp m d idpm c)

end C07
