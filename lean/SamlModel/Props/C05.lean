import SamlModel.Props.SsoLemmas
import SamlModel.Props.FnLemmas
set_option linter.unusedSimpArgs false
set_option linter.unusedVariables false
/-!
  C05 — Unsigned or forged AuthnRequests are never accepted when signing is required.
  RSA and XML-DSig validation are oracles (`o.m_ValidateRedirectSignature`, `o.m_ValidatePostSignature`:
  the library methods of the same names, sampled by the harness with real keys); everything around them —
  when verification is necessary, over which values, in which order relative to persistence — is proved.
-/
namespace C05
open Go Gen Sso FnLemmas Consts

/-- signing is required by the service provider's metadata or by the IdP configuration, in any xs:boolean
    `true` form (missing metadata counts as "required", as in the code) -/
def required (i : In) (sp : serviceprovider_ServiceProvider) : Bool := spRequires sp.Metadata || idpRequires i.idpMeta

/-- the binding decision of `getAuthRequestFromRequest` is one of the two bindings (tie: fingerprint of that
    function + the `sso` correspondence) -/
def Form.WF (f : Form) : Prop := f.Binding = redirectBinding ∨ f.Binding = postBinding

/-- the Redirect signature verified over exactly the request, RelayState and algorithm the IdP acts on -/
def redirectVerified (o : Ora) (form : Form) (sp : serviceprovider_ServiceProvider) : Prop :=
  form.Binding = redirectBinding ∧ form.AuthRequest ≠ "" ∧ form.Sig ≠ "" ∧ form.SigAlg ≠ "" ∧
  o.m_ValidateRedirectSignature (some sp) form.AuthRequest form.RelayState form.SigAlg form.Sig = none

/-- the enveloped signature of the POSTed document verified under the registered certificates -/
def postVerified (o : Ora) (form : Form) (sp : serviceprovider_ServiceProvider) : Prop :=
  form.Binding = postBinding ∧
  ∃ data, Lib.b64decode form.AuthRequest = some data ∧ o.m_ValidatePostSignature (some sp) (Lib.bytesToString data) = none

private theorem condStep_true {c : Res Bool} {l : Res Err} (h : condStep c l = .ok none) (hc : c = .ok true) : l = .ok none := by
  subst hc; simpa [condStep] using h

/-- **C05 (first sentence).** When signing is required, an accepted request carries a signature that
    verified — for the binding in effect — over exactly the content the IdP then persists. -/
theorem C05_required_implies_verified (o : Ora) (i : In) (id : String) (h : (sso o i).out = .login id) :
    ∃ form req sp p, i.form = some form ∧ i.decoded = some req ∧ i.sp = some sp ∧ (sso o i).persist = some p ∧
      p.relay = form.RelayState ∧ p.reqID = req.Id ∧
      (Form.WF form → required i sp = true → redirectVerified o form sp ∨ postVerified o form sp) := by
  obtain ⟨form, req, iss, sp, acsList, sel, a⟩ := accepted_of_login o i id h
  refine ⟨form, req, sp, _, a.hform, a.hdec, a.hsp, a.hpersist, rfl, rfl, ?_⟩
  intro hwf hreq
  rcases hwf with hb | hb
  · left
    have hnec : signatureRedirectVerificationNecessary o i.idpMeta sp.Metadata form.Sig form.Binding = .ok true := by
      rw [sigRedirNec_eq]
      unfold required at hreq
      simp [hb, hreq]
    have := condStep_true a.h7 hnec
    obtain ⟨h1, h2, h3, h4⟩ := (verifyRedirect_ok _ _ _ _ _ _).mp this
    exact ⟨hb, h1, h2, h3, h4⟩
  · right
    have hnec : signaturePostVerificationNecessary o i.idpMeta sp.Metadata req.Signature form.Binding = .ok true := by
      rw [sigPostNec_eq]
      unfold required at hreq
      simp [hb, hreq]
    have := condStep_true a.h8 hnec
    exact ⟨hb, (verifyPost_ok _ _ _).mp this⟩

/-- **C05 (second sentence).** Whatever the configuration: an accepted request that bears a non-empty
    signature value — as a `Signature` parameter or embedded in the document — had that signature verified
    (a signature in the place the binding in use does not define is rejected outright). -/
theorem C05_bad_signature_never_accepted (o : Ora) (i : In) (id : String) (h : (sso o i).out = .login id) :
    ∃ form req sp, i.form = some form ∧ i.decoded = some req ∧ i.sp = some sp ∧
      (Form.WF form → form.Sig ≠ "" → redirectVerified o form sp) ∧
      (Form.WF form → embProvided req.Signature = true → postVerified o form sp) := by
  obtain ⟨form, req, iss, sp, acsList, sel, a⟩ := accepted_of_login o i id h
  obtain ⟨emb, hemb, hnp, hnr⟩ := a.h9
  rw [signaturePostProvided_eq] at hemb
  cases hemb
  refine ⟨form, req, sp, a.hform, a.hdec, a.hsp, ?_, ?_⟩
  · intro hwf hs
    have hb : form.Binding = redirectBinding := by
      rcases hwf with hb | hb
      · exact hb
      · exact absurd ⟨hb, hs⟩ hnp
    have hnec : signatureRedirectVerificationNecessary o i.idpMeta sp.Metadata form.Sig form.Binding = .ok true := by
      rw [sigRedirNec_eq]; simp [hb, hs]
    have := condStep_true a.h7 hnec
    obtain ⟨h1, h2, h3, h4⟩ := (verifyRedirect_ok _ _ _ _ _ _).mp this
    exact ⟨hb, h1, h2, h3, h4⟩
  · intro hwf he
    have hb : form.Binding = postBinding := by
      rcases hwf with hb | hb
      · exact absurd ⟨hb, he⟩ hnr
      · exact hb
    have hnec : signaturePostVerificationNecessary o i.idpMeta sp.Metadata req.Signature form.Binding = .ok true := by
      rw [sigPostNec_eq]; simp [hb, he]
    have := condStep_true a.h8 hnec
    exact ⟨hb, (verifyPost_ok _ _ _).mp this⟩

/-- every xs:boolean spelling of `true` counts: "true" and "1", on either side -/
theorem C05_xs_boolean (i : In) (sp : serviceprovider_ServiceProvider) (m : md_EntityDescriptorType) (d : md_SPSSODescriptorType)
    (hm : sp.Metadata = some m) (hd : m.SPSSODescriptor = some d) (h : d.AuthnRequestsSigned = "true" ∨ d.AuthnRequestsSigned = "1") :
    required i sp = true := by
  rcases h with h | h <;> simp [required, spRequires, hm, hd, h, xsTrue]

theorem C05_xs_boolean_idp (i : In) (sp : serviceprovider_ServiceProvider) (md : md_IDPSSODescriptorType)
    (hm : i.idpMeta = some md) (h : md.WantAuthnRequestsSigned = "true" ∨ md.WantAuthnRequestsSigned = "1") :
    required i sp = true := by
  rcases h with h | h <;> simp [required, idpRequires, hm, h, xsTrue]

/-- a KeyInfo in the request must name a registered certificate (step 6 precedes persistence) -/
theorem C05_keyinfo_must_be_registered (o : Ora) (i : In) (id : String) (h : (sso o i).out = .login id) :
    ∃ req sp, i.decoded = some req ∧ i.sp = some sp ∧
      (certificateCheckNecessary o req.Signature sp.Metadata = .ok true → checkCertificate o req.Signature sp.Metadata = .ok none) := by
  obtain ⟨form, req, iss, sp, acsList, sel, a⟩ := accepted_of_login o i id h
  exact ⟨req, sp, a.hdec, a.hsp, fun hc => condStep_true a.h6 hc⟩

theorem C05_source_current : True ∧ Consts.current = true ∧
    FactsUtil.sameHashes ["serviceprovider.ServiceProvider.ValidatePostSignature", "signature.ValidateRedirect", "signature.ValidatePost"] = true :=
  ⟨sso_skeleton_current, consts_current, by decide⟩

/-- non-vacuity: with signing required a validly signed Redirect request is accepted, an unsigned one is not -/
def oraAccepting : Ora where
  now := 100
  timeParse := fun _ _ => none
  m_ValidateRedirectSignature := fun _ _ _ _ s => if s == "good" then none else some "bad signature"
  m_ValidatePostSignature := fun _ _ => some "no signature"
  urlParse := fun _ => none
  inflate := fun _ => {}
  m_GetResponseSigningKey := (none, none)
def acs1 : md_IndexedEndpointType := { Index := "1", Binding := postBinding, Location := "https://sp/acs" }
def spsso : md_SPSSODescriptorType := { AuthnRequestsSigned := "1", AssertionConsumerService := [acs1] }
def sp1 : serviceprovider_ServiceProvider := { ID := "app", Metadata := some { EntityID := "sp", SPSSODescriptor := some spsso } }
def idp1 : md_IDPSSODescriptorType := { WantAuthnRequestsSigned := "", SingleSignOnService := [] }
def req1 : samlp_AuthnRequestType := { Id := "id1", Version := "2.0", Issuer := some { Text := "sp" } }
def inSigned (sig : String) : In :=
  { idpMeta := some idp1, form := some { AuthRequest := "abc", Binding := redirectBinding, Sig := sig, SigAlg := if sig == "" then "" else "alg" },
    decoded := some req1, sp := some sp1, createOk := true, createdID := "ar-1" }
example : (sso oraAccepting (inSigned "good")).out = .login "ar-1" := by decide
example : (sso oraAccepting (inSigned "")).out = .failed 7 statusRequestDenied "" "" "" "id1" := by decide
example : (sso oraAccepting (inSigned "forged")).out = .failed 7 statusRequestDenied "" "" "" "id1" := by decide

end C05
