import SamlModel.Props.CallbackGen
set_option linter.unusedSimpArgs false
set_option linter.unusedVariables false
/-!
  Props.HandlerGen — `IdentityProvider.callbackHandleFunc` itself is *translated*: go2lean regenerates it from login.go on
  every run, the writes to the client (`http.Error`, `Response.sendBackResponse`) being collected as an effect trace
  (`Gen.Eff`) the generated function returns, the request (`ParseForm`, `Form.Get`), the storage (`AuthRequestByID`,
  `GetEntityIDByAppID`, the stored request's getters) and `GetEntityID` being typed oracles.

  `handler_refines`: for **every** behaviour of that environment the generated handler writes exactly one reply, and it
  is the reply of the hand-written callback model (`Callback.callback`) on the input read off from the same oracle
  answers: same HTTP status on the error paths, same delivery (consumer URL / binding / RelayState), same message
  field by field (the identifiers being the ones `NewID()` returned at the generated call sites), same signature style.
  The theorems about the callback model (C01, C02, C03, C04, C17) are thereby theorems about the regenerated handler;
  what stays fingerprinted is `sendBackResponse` (the rendering of one effect), modelled by `Callback.deliver`.
-/
namespace HandlerGen
open Go Gen Consts CallbackGen Builders

variable (o : Ora) (cfg : provider_IdentityProviderConfig) (fmt : String) (exp : Int)

/-- the stored request as the handler reads it through `models.AuthRequestInt` -/
def recOf : Callback.Rec :=
  { reqID := o.m_GetAuthRequestID, relay := o.m_GetRelayState, binding := o.m_GetBindingType,
    acs := o.m_GetAccessConsumerServiceURL, appID := o.m_GetApplicationID, userID := o.m_GetUserID, done := o.m_Done }

def issuerOf : String := o.m_GetEntityID (idp cfg fmt exp)
def idOf : String := o.formGet "id"
def lookup : Unit × Err := o.m_AuthRequestByID (idOf o)
def entity : String × Err := o.m_GetEntityIDByAppID o.m_GetApplicationID

/-- the handler got as far as building the Success message (which draws the first two identifiers) -/
def built : Bool :=
  (lookup o).2.isNone && o.m_Done && (userinfo o).1.isNone &&
    (match getResponseCert o () with
     | .ok (_, _, none) => true
     | _ => false)

/-- the identifiers in the order the handler draws them, named by the generated call sites -/
def idsOf : Nat → String := fun n =>
  if n = 0 then (if built o then o.newID "Response_makeAssertionResponse" 0 else o.newID "Response_makeFailedResponse" 0)
  else if n = 1 then o.newID "makeAssertion" 0
  else o.newID "Response_makeFailedResponse" 0

/-- the input of the callback model read off from the oracle answers the generated handler sees -/
def inOfOra : Callback.In :=
  { inOf o cfg fmt exp (issuerOf o cfg fmt exp) (idOf o) (recOf o) (entity o).1 (idsOf o) with
    parseErr := o.m_ParseForm.isSome
    stored := if (lookup o).2.isNone then some (recOf o) else none
    storedErr := (lookup o).2.getD ""
    entity := if (entity o).2.isNone then some (entity o).1 else none }

/-- what one effect means for the client.  `sendBackResponse` delivers according to the `Response` it is called on;
    a message without assertion is sent unsigned, one with an assertion is signed in the style of the delivery -/
def outOfEff : Eff → Callback.Out
  | .httpError _ code => .httpError code.toNat
  | .sendBackResponse (some resp) (some m) =>
    .reply (Callback.deliver resp.AcsUrl resp.ProtocolBinding resp.RelayState) (msgOf m (assertionOf m.Assertion))
      (if (assertionOf m.Assertion).isNone then .none else Callback.sigStyle resp.AcsUrl resp.ProtocolBinding)
  | _ => .panic   -- a nil `Response` / message, or an effect a handler does not perform itself

/-- the reply of a handler run: defined when it wrote exactly once (or panicked) -/
def outOf : Res (List Eff) → Option Callback.Out
  | .panic => some .panic
  | .ok [e] => some (outOfEff e)
  | .ok _ => none

/-- the response the handler has filled in when it calls `loginResponse` -/
theorem resp1_eq :
    ({ ProtocolBinding := o.m_GetBindingType, RelayState := o.m_GetRelayState, AcsUrl := o.m_GetAccessConsumerServiceURL,
       Signature := "", SigAlg := "", RequestID := o.m_GetAuthRequestID, Issuer := issuerOf o cfg fmt exp,
       Audience := (entity o).1, SendIP := "" } : provider_Response) =
      respOf (issuerOf o cfg fmt exp) (recOf o) (entity o).1 := rfl

theorem default_response : (default : provider_Response) =
    { ProtocolBinding := "", RelayState := "", AcsUrl := "", Signature := "", SigAlg := "", RequestID := "", Issuer := "",
      Audience := "", SendIP := "" } := rfl

/-! ### The prologue -/

/-- `ParseForm` fails: 500, nothing else -/
theorem handler_parse_error (e : String) (h : o.m_ParseForm = some e) :
    outOf (IdentityProvider_callbackHandleFunc o (idp cfg fmt exp)) = some (Callback.callback o (inOfOra o cfg fmt exp)) := by
  simp [IdentityProvider_callbackHandleFunc, IdentityProvider_callbackHandleFunc.body, Ctl.toRes, h, outOf, outOfEff, Callback.callback, inOfOra]

/-- no `id`: 500 -/
theorem handler_no_id (h : o.m_ParseForm = none) (hid : o.formGet "id" = "") :
    outOf (IdentityProvider_callbackHandleFunc o (idp cfg fmt exp)) = some (Callback.callback o (inOfOra o cfg fmt exp)) := by
  simp [IdentityProvider_callbackHandleFunc, IdentityProvider_callbackHandleFunc.body, Ctl.toRes, h, hid, outOf, outOfEff, Callback.callback, inOfOra, inOf, idOf]

/-- unknown request: a RequestDenied response written as the body (there is no consumer URL yet), carrying the
    storage's error text -/
theorem handler_lookup_fails (h : o.m_ParseForm = none) (hid : o.formGet "id" ≠ "") (e : String)
    (hl : (o.m_AuthRequestByID (o.formGet "id")).2 = some e) :
    outOf (IdentityProvider_callbackHandleFunc o (idp cfg fmt exp)) = some (Callback.callback o (inOfOra o cfg fmt exp)) := by
  obtain ⟨r, hr, hm, ha⟩ := makeFailedResponse_refines o { (default : provider_Response) with Issuer := issuerOf o cfg fmt exp }
    statusRequestDenied ("failed to get request: " ++ e) fmt
  simp only [default_response, issuerOf, idp, statusRequestDenied] at hr hm
  simp [IdentityProvider_callbackHandleFunc, IdentityProvider_callbackHandleFunc.body, Ctl.toRes, h, hid, hl, outOf, outOfEff, Callback.callback, inOfOra, inOf, idOf, lookup,
    IdentityProvider_errorResponse, IdentityProvider_errorResponse.body, idp, deref, default_response, hr, Res.isPanic, Res.get, ha, hm, Callback.deliver, Callback.failedMsg, issuerOf, idsOf, built,
    statusRequestDenied]

/-- the application's entity ID cannot be resolved: 500 -/
theorem handler_entity_fails (h : o.m_ParseForm = none) (hid : o.formGet "id" ≠ "") (hl : (o.m_AuthRequestByID (o.formGet "id")).2 = none)
    (e : String) (he : (o.m_GetEntityIDByAppID o.m_GetApplicationID).2 = some e) :
    outOf (IdentityProvider_callbackHandleFunc o (idp cfg fmt exp)) = some (Callback.callback o (inOfOra o cfg fmt exp)) := by
  simp [IdentityProvider_callbackHandleFunc, IdentityProvider_callbackHandleFunc.body, Ctl.toRes, h, hid, hl, he, outOf, outOfEff, Callback.callback, inOfOra, inOf, idOf, lookup,
    idp, deref, default_response, Res.isPanic, Res.get, entity, recOf]

/-- after the prologue the handler's single write is determined by `loginResponse` on the filled-in response:
    its message, or the failed response built from its error text -/
theorem handler_after_prologue (h : o.m_ParseForm = none) (hid : o.formGet "id" ≠ "") (hl : (o.m_AuthRequestByID (o.formGet "id")).2 = none)
    (he : (o.m_GetEntityIDByAppID o.m_GetApplicationID).2 = none) :
    IdentityProvider_callbackHandleFunc o (idp cfg fmt exp) =
      match IdentityProvider_loginResponse o (idp cfg fmt exp) () (some (respOf (issuerOf o cfg fmt exp) (recOf o) (entity o).1)) with
      | .panic => .panic
      | .ok (m, none, resp) => .ok [Eff.sendBackResponse resp m]
      | .ok (_, some status, resp) =>
        match Response_makeFailedResponse o resp status "failed to create response" fmt with
        | .panic => .panic
        | .ok m => .ok [Eff.sendBackResponse resp m] := by
  rw [← resp1_eq]
  have hu : (o.m_AuthRequestByID (o.formGet "id")).fst = () := rfl
  simp [IdentityProvider_callbackHandleFunc, IdentityProvider_callbackHandleFunc.body, Ctl.toRes, h, hid, hl, he, idp, deref, default_response, Res.isPanic, Res.get, entity, issuerOf, hu]
  generalize IdentityProvider_loginResponse o _ _ _ = L
  cases L with
  | panic => simp
  | ok t =>
    obtain ⟨m, e, resp⟩ := t
    cases e with
    | none => simp
    | some st =>
      simp
      cases Response_makeFailedResponse o resp st "failed to create response" fmt <;> simp

/-- the failed replies after the prologue: `loginResponse` returned an error text, which becomes the status code -/
theorem handler_failed (h : o.m_ParseForm = none) (hid : o.formGet "id" ≠ "") (hl : (o.m_AuthRequestByID (o.formGet "id")).2 = none)
    (he : (o.m_GetEntityIDByAppID o.m_GetApplicationID).2 = none) (status : String)
    (hL : IdentityProvider_loginResponse o (idp cfg fmt exp) () (some (respOf (issuerOf o cfg fmt exp) (recOf o) (entity o).1)) =
      .ok (none, some status, some (respOf (issuerOf o cfg fmt exp) (recOf o) (entity o).1))) :
    outOf (IdentityProvider_callbackHandleFunc o (idp cfg fmt exp)) =
      some (.reply (Callback.deliver (recOf o).acs (recOf o).binding (recOf o).relay)
        (Callback.mkResponse (o.newID "Response_makeFailedResponse" 0) (recOf o).reqID (recOf o).acs (o.m_Format o.now fmt) status
          "failed to create response" (issuerOf o cfg fmt exp)) .none) := by
  rw [handler_after_prologue o cfg fmt exp h hid hl he, hL]
  obtain ⟨r, hr, hm, ha⟩ := makeFailedResponse_refines o (respOf (issuerOf o cfg fmt exp) (recOf o) (entity o).1) status "failed to create response" fmt
  simp only [respOf, recOf] at hr hm
  simp [hr, outOf, outOfEff, ha, hm, respOf, recOf]

/-- **the regenerated handler refines the callback model.**  For every behaviour of the environment (request, storage,
    key getter, signer, clock, identifier source) in which a successful user lookup hands back the attribute record it
    was given (`hsome`: the callee passes `&Attributes{}`, the storage cannot nil it), the handler regenerated from
    login.go on this run either panics where the model panics or writes to the client exactly once, and what it
    writes is the reply of `Callback.callback` on the input read off from the same answers. -/
theorem handler_refines (hsome : (userinfo o).1 = none → (userinfo o).2.isSome) :
    outOf (IdentityProvider_callbackHandleFunc o (idp cfg fmt exp)) = some (Callback.callback o (inOfOra o cfg fmt exp)) := by
  cases h : o.m_ParseForm with
  | some e => exact handler_parse_error o cfg fmt exp e h
  | none =>
  by_cases hid : o.formGet "id" = ""
  · exact handler_no_id o cfg fmt exp h hid
  cases hl : (o.m_AuthRequestByID (o.formGet "id")).2 with
  | some e => exact handler_lookup_fails o cfg fmt exp h hid e hl
  | none =>
  cases he : (o.m_GetEntityIDByAppID o.m_GetApplicationID).2 with
  | some e => exact handler_entity_fails o cfg fmt exp h hid hl e he
  | none =>
  by_cases hd : o.m_Done = true
  · cases hu : (userinfo o).1 with
    | some e =>
      rw [handler_failed o cfg fmt exp h hid hl he statusInvalidAttr (login_userinfo_fails o cfg fmt exp _ hd (by rw [hu]; rfl))]
      simp [Callback.callback, inOfOra, inOf, idOf, lookup, entity, h, hid, hl, he, hd, hu, recOf, Callback.failedMsg, idsOf, built]
    | none =>
      obtain ⟨attrs, ha⟩ := Option.isSome_iff_exists.mp (hsome hu)
      cases hk : getResponseCert o () with
      | panic =>
        have hL : IdentityProvider_loginResponse o (idp cfg fmt exp) () (some (respOf (issuerOf o cfg fmt exp) (recOf o) (entity o).1)) = .panic := by
          simp [IdentityProvider_loginResponse, IdentityProvider_loginResponse.body, Ctl.toRes, hd, idp, deref, hk, Res.isPanic,
            show (o.m_SetUserinfoWithUserID o.m_GetApplicationID o.m_GetUserID []).1 = none from hu]
        rw [handler_after_prologue o cfg fmt exp h hid hl he, hL]
        simp [outOf, Callback.callback, inOfOra, inOf, idOf, lookup, entity, h, hid, hl, he, hd, hu, ha, hk, recOf]
      | ok t =>
        obtain ⟨c, k, kerr⟩ := t
        cases kerr with
        | some e =>
          rw [handler_failed o cfg fmt exp h hid hl he statusInvalidAttr (login_key_fails o cfg fmt exp _ hd hu c k e hk)]
          simp [Callback.callback, inOfOra, inOf, idOf, lookup, entity, h, hid, hl, he, hd, hu, ha, hk, recOf, Callback.failedMsg, idsOf, built]
        | none =>
          obtain ⟨r0, hr0, hm0⟩ := C03.C03_success_message_is_generated o (inOfOra o cfg fmt exp)
            (recOf o) (entity o).1 fmt exp attrs (respOf (issuerOf o cfg fmt exp) (recOf o) (entity o).1) rfl rfl rfl rfl rfl
            (by simp [inOfOra, inOf, idsOf, built, lookup, idOf, hl, hd, hu, hk]) (by simp [inOfOra, inOf, idsOf]) rfl rfl
          have hpos := login_positive o cfg fmt exp (respOf (issuerOf o cfg fmt exp) (recOf o) (entity o).1) hd hu attrs ha c k hk r0 hr0
          have hass : assertionOf r0.Assertion ≠ none := by
            intro hn
            have := congrArg Callback.Msg.assertion hm0
            rw [hn] at this
            simp [msgOf] at this
          have hb : ((respOf (issuerOf o cfg fmt exp) (recOf o) (entity o).1).ProtocolBinding = redirectBinding ∧ (respOf (issuerOf o cfg fmt exp) (recOf o) (entity o).1).AcsUrl ≠ "") ↔
              ((recOf o).binding = redirectBinding ∧ (recOf o).acs ≠ "") := Iff.rfl
          have hrel : (respOf (issuerOf o cfg fmt exp) (recOf o) (entity o).1).RelayState = (recOf o).relay := rfl
          have hdone' : (recOf o).done = true := hd
          have he' : (entity o).2 = none := he
          have hl' : (lookup o).2 = none := hl
          have hid' : ¬ idOf o = "" := hid
          have hacs : (respOf (issuerOf o cfg fmt exp) (recOf o) (entity o).1).AcsUrl = (recOf o).acs := rfl
          have hbind : (respOf (issuerOf o cfg fmt exp) (recOf o) (entity o).1).ProtocolBinding = (recOf o).binding := rfl
          have hid0 : (inOfOra o cfg fmt exp).ids 0 = o.newID "Response_makeAssertionResponse" 0 := by
            simp [inOfOra, inOf, idsOf, built, lookup, idOf, hl, hd, hu, hk]
          have hid2 : (inOfOra o cfg fmt exp).ids 2 = o.newID "Response_makeFailedResponse" 0 := by
            simp [inOfOra, inOf, idsOf]
          by_cases hbr : (recOf o).binding = redirectBinding ∧ (recOf o).acs ≠ ""
          · rw [if_pos (hb.mpr hbr), hrel] at hpos
            rcases hs : o.f_createRedirectSignature (some r0) k c cfg.SignatureAlgorithm (recOf o).relay with ⟨sg, al, e⟩
            rw [hs] at hpos
            cases e with
            | some e =>
              simp only at hpos
              rw [handler_failed o cfg fmt exp h hid hl he statusResponder hpos]
              have hs' : (o.f_createRedirectSignature (some r0) k c cfg.SignatureAlgorithm (recOf o).relay).2.2 = some e := by rw [hs]
              simp [Callback.callback, hid2]
              simp [inOfOra, inOf, h, hid', hl', he', hdone', hu, ha, hk, hr0, hbr, hs', C03.getNameID_eq, C03.getSAML_eq]
            | none =>
              simp only at hpos
              rw [handler_after_prologue o cfg fmt exp h hid hl he, hpos]
              have hs' : (o.f_createRedirectSignature (some r0) k c cfg.SignatureAlgorithm (recOf o).relay).2.2 = none := by rw [hs]
              simp [outOf, outOfEff, signedResp, hass, hacs, hbind, hrel, hm0]
              simp [Callback.callback]
              simp [inOfOra, inOf, h, hid', hl', he', hdone', hu, ha, hk, hr0, hbr, hs', C03.getNameID_eq, C03.getSAML_eq]
          · rw [if_neg (fun hh => hbr (hb.mp hh))] at hpos
            cases hs : o.f_createPostSignature (some r0) k c cfg.SignatureAlgorithm with
            | some e =>
              rw [hs] at hpos
              simp only at hpos
              rw [handler_failed o cfg fmt exp h hid hl he statusResponder hpos]
              simp [Callback.callback, hid2]
              simp [inOfOra, inOf, h, hid', hl', he', hdone', hu, ha, hk, hr0, hbr, hs, C03.getNameID_eq, C03.getSAML_eq]
            | none =>
              rw [hs] at hpos
              simp only at hpos
              rw [handler_after_prologue o cfg fmt exp h hid hl he, hpos]
              simp [outOf, outOfEff, hass, hacs, hbind, hrel, hm0]
              simp [Callback.callback]
              simp [inOfOra, inOf, h, hid', hl', he', hdone', hu, ha, hk, hr0, hbr, hs, C03.getNameID_eq, C03.getSAML_eq]
  · have hd' : o.m_Done = false := by simpa using hd
    rw [handler_failed o cfg fmt exp h hid hl he statusAuthnFailed (login_not_done o cfg fmt exp _ hd')]
    simp [Callback.callback, inOfOra, inOf, idOf, lookup, entity, h, hid, hl, he, hd', recOf, Callback.failedMsg, idsOf, built]

/-- the handler never writes twice and never returns without writing -/
theorem handler_writes_once (hsome : (userinfo o).1 = none → (userinfo o).2.isSome) (t : List Eff)
    (ht : IdentityProvider_callbackHandleFunc o (idp cfg fmt exp) = .ok t) : ∃ e, t = [e] := by
  have h := handler_refines o cfg fmt exp hsome
  rw [ht] at h
  match t, h with
  | [e], _ => exact ⟨e, rfl⟩
  | [], h => simp [outOf] at h
  | _ :: _ :: _, h => simp [outOf] at h

end HandlerGen
