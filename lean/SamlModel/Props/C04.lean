import SamlModel.Lemmas.Redirect
import SamlModel.Lib.C14n
import SamlModel.Model.Callback
import SamlModel.Model.AttrQuery
import SamlModel.Model.Metadata
import SamlModel.Model.FactsUtil
set_option linter.unusedSimpArgs false
set_option linter.unusedVariables false
/-!
  Props.C04 — every signature the IdP emits verifies under a conformant verifier (partial: RSA/SHA and the
  namespace handling of the two canonicalisers are sampled by the harness, not proved).

  1. Redirect binding, end to end on strings: the query `BuildRedirectQuery` (generated from redirect.go on every
     run) assembles for the URL carries, for an independent implementation of saml-bindings §3.4.4.1 working on the
     *raw* query, exactly the octets that were signed, the algorithm URI and the signature value — for all
     responses, RelayStates, algorithm URIs and signature bytes (`C04_redirect_query`, `C04_redirect_url`,
     `C04_redirect_url_with_query`).
  2. Coverage: no Success assertion leaves unsigned; the signature style matches the delivery
     (`C04_success_is_signed`, `C04_aq_signed`, `C04_metadata_signed_iff_configured`).
  3. Enveloped XML-DSig: the signer's digest input and a conformant verifier's coincide on a text node / attribute
     value exactly when it avoids the characters `& < > CR` / `& < " TAB LF CR` (`C04_c14n_text`, `C04_c14n_attr`);
     this is the input class of the open finding D16.
-/
namespace C04
open Go Gen Lib Lib.Url Consts Redirect

/-! ## 1. Redirect binding -/

/-- what `createRedirectSignature` signs: `BuildRedirectQuery(resp, relay, alg, "")` (redirect.go) -/
def signedOctets (o : Ora) (resp relay alg : String) : Res String := BuildRedirectQuery o resp relay alg ""

/-- what `sendBackResponse` puts behind the consumer URL, the `Signature` field being `base64(sig)` as
    `createRedirectSignature` returns it -/
def sentQuery (o : Ora) (resp relay alg : String) (sig : List UInt8) : Res String :=
  BuildRedirectQuery o resp relay alg (b64encode sig)

/-- **Redirect binding**: for every response payload, RelayState, non-empty algorithm URI and non-empty signature
    value, an independent verifier working on the raw query of the URL sent recovers (i) exactly the octets the
    IdP signed, (ii) the algorithm URI, (iii) the signature bytes.  With `S.verify pk m (S.sign sk m) = true` for
    the signature scheme this is "the signature verifies". -/
theorem C04_redirect_query (o : Ora) (resp relay alg : String) (sig : List UInt8) (halg : alg ≠ "") (hsig : sig ≠ []) :
    ∃ signed sent, signedOctets o resp relay alg = .ok signed ∧ sentQuery o resp relay alg sig = .ok sent ∧
      verify sent.toList = some { octets := signed.toList, alg := alg.toUTF8.toList, sig := sig } := by
  refine ⟨_, _, BuildRedirectQuery_eq o resp relay alg "", BuildRedirectQuery_eq o resp relay alg (b64encode sig), ?_⟩
  simp only [String.toList_ofList]
  exact verify_sent resp relay alg sig halg hsig

private theorem buildQ_no_delims (resp relay alg sig : String) :
    '?' ∉ buildQ resp relay alg sig ∧ '#' ∉ buildQ resp relay alg sig := by
  have hk : ∀ k ∈ [kSAMLResponse, kRelayState, kSignature, kSigAlg], '?' ∉ k ∧ '#' ∉ k := by decide
  have hp : ∀ k ∈ [kSAMLResponse, kRelayState, kSignature, kSigAlg], ∀ v, '?' ∉ part k v ∧ '#' ∉ part k v := by
    intro k hk' v
    unfold part
    split
    · constructor <;> intro hm <;> simp only [List.mem_cons, List.mem_append] at hm
      · rcases hm with (h | h) | (h | h)
        · exact absurd h (by decide)
        · exact (hk k hk').1 h
        · exact absurd h (by decide)
        · exact (E_clean v _ h).2.2.1 rfl
      · rcases hm with (h | h) | (h | h)
        · exact absurd h (by decide)
        · exact (hk k hk').2 h
        · exact absurd h (by decide)
        · exact (E_clean v _ h).2.2.2.1 rfl
    · simp
  unfold buildQ
  constructor <;> intro hm <;> simp only [List.mem_append, List.mem_cons] at hm
  · rcases hm with (((h | h | h) | h) | h) | h
    · exact (hk _ (by simp)).1 h
    · exact absurd h (by decide)
    · exact (E_clean resp _ h).2.2.1 rfl
    · exact (hp kRelayState (by simp) relay).1 h
    · exact (hp kSignature (by simp) sig).1 h
    · exact (hp kSigAlg (by simp) alg).1 h
  · rcases hm with (((h | h | h) | h) | h) | h
    · exact (hk _ (by simp)).2 h
    · exact absurd h (by decide)
    · exact (E_clean resp _ h).2.2.2.1 rfl
    · exact (hp kRelayState (by simp) relay).2 h
    · exact (hp kSignature (by simp) sig).2 h
    · exact (hp kSigAlg (by simp) alg).2 h

/-- the query never contains a character that would end it or start a fragment, whatever the values -/
theorem C04_query_has_no_delimiter (o : Ora) (resp relay alg sig : String) :
    ∃ q, BuildRedirectQuery o resp relay alg sig = .ok q ∧ '?' ∉ q.toList ∧ '#' ∉ q.toList := by
  refine ⟨_, BuildRedirectQuery_eq o resp relay alg sig, ?_⟩
  simp only [String.toList_ofList]
  exact buildQ_no_delims resp relay alg sig

private theorem rawQuery_append (acs q : List Char) (h : '?' ∉ acs) : rawQuery (acs ++ '?' :: q) = q := by
  induction acs with
  | nil => simp [rawQuery]
  | cons c cs ih =>
    have hc : c ≠ '?' := fun e => h (by simp [e])
    simp only [List.cons_append, rawQuery, if_neg hc]
    exact ih (fun e => h (by simp [e]))

private theorem takeWhile_append_all {α} (p : α → Bool) (a b : List α) (h : ∀ x ∈ a, p x = true) :
    (a ++ b).takeWhile p = a ++ b.takeWhile p := by
  induction a with
  | nil => rfl
  | cons x xs ih =>
    simp only [List.cons_append, List.takeWhile_cons, h x (by simp), if_true]
    rw [ih (fun y hy => h y (by simp [hy]))]

private theorem takeWhile_fragment (acs : List Char) : (redirectFragment acs).takeWhile (· != '#') = [] := by
  unfold redirectFragment
  cases h : acs.dropWhile (· != '#') with
  | nil => rfl
  | cons c cs =>
    have : (c != '#') = false := by
      induction acs with
      | nil => simp at h
      | cons a t ih =>
        by_cases ha : (a != '#') = true
        · simp only [List.dropWhile_cons, ha, if_true] at h; exact ih h
        · simp only [List.dropWhile_cons, ha] at h
          simp at h
          rw [← h.1]; simpa using ha
    simp [List.takeWhile_cons, this]

/-- what a URL parser takes as the query of the URL sent: the message parameters, preceded by the consumer URL's own
    query if it has one — the fragment of the consumer URL stays behind it -/
private theorem urlQuery_redirectURL (acs q : List Char) (hq : '#' ∉ q) :
    urlQuery (redirectURL acs q) =
      rawQuery (redirectTarget acs ++ (if (redirectTarget acs).contains '?' then '&' else '?') :: q) := by
  unfold urlQuery redirectURL
  congr 1
  have ht : ∀ x ∈ redirectTarget acs, (x != '#') = true := by
    intro x hx
    unfold redirectTarget at hx
    induction acs with
    | nil => simp at hx
    | cons a t ih =>
      by_cases ha : (a != '#') = true
      · simp only [List.takeWhile_cons, ha, if_true, List.mem_cons] at hx
        rcases hx with rfl | hx
        · exact ha
        · exact ih hx
      · simp [List.takeWhile_cons, ha] at hx
  have hsep : ((if (redirectTarget acs).contains '?' then '&' else '?') != '#') = true := by split <;> decide
  have hq' : ∀ x ∈ q, (x != '#') = true := by
    intro x hx
    simp only [bne_iff_ne, ne_eq]
    intro e; exact hq (e ▸ hx)
  rw [List.append_assoc, takeWhile_append_all _ _ _ ht]
  simp only [List.cons_append, List.takeWhile_cons, hsep, if_true]
  rw [takeWhile_append_all _ _ _ hq', takeWhile_fragment]
  simp

private theorem buildQ_no_hash (resp relay alg sig : String) : '#' ∉ buildQ resp relay alg sig :=
  (buildQ_no_delims resp relay alg sig).2

/-- **the URL actually sent** (consumer URL without a query of its own, with or without a fragment): the query a URL
    parser extracts from `sendBackResponse`'s redirect target verifies -/
theorem C04_redirect_url (acs : List Char) (resp relay alg : String) (sig : List UInt8)
    (hq : '?' ∉ redirectTarget acs) (halg : alg ≠ "") (hsig : sig ≠ []) :
    verify (urlQuery (redirectURL acs (buildQ resp relay alg (b64encode sig)))) =
      some { octets := buildQ resp relay alg "", alg := alg.toUTF8.toList, sig := sig } := by
  rw [urlQuery_redirectURL _ _ (buildQ_no_hash _ _ _ _)]
  have : (redirectTarget acs).contains '?' = false := by simpa using hq
  rw [this]
  simp only [Bool.false_eq_true, if_false]
  rw [rawQuery_append _ _ hq]
  exact verify_sent resp relay alg sig halg hsig

/-- parameters of `pre & q` are those of `pre` followed by those of `q` -/
private theorem params_amp (pre q : List Char) : params (pre ++ '&' :: q) = params pre ++ params q := by
  unfold params
  suffices h : splitOn '&' (pre ++ '&' :: q) = splitOn '&' pre ++ splitOn '&' q by rw [h, List.filterMap_append]
  induction pre with
  | nil => simp [splitOn]
  | cons c cs ih =>
    simp only [List.cons_append]
    by_cases hc : c = '&'
    · subst hc
      rw [splitOn_cons_sep, splitOn_cons_sep, ih]; rfl
    · rw [splitOn_cons_ne _ _ _ hc, splitOn_cons_ne _ _ _ hc, ih]
      cases h : splitOn '&' cs with
      | nil => exact absurd h (splitOn_ne_nil _ _)
      | cons a t => simp

private theorem lookup_append_of_absent (k : List Char) (xs ys : List (List Char × List Char))
    (h : ∀ p ∈ xs, p.1 ≠ k) : (xs ++ ys).lookup k = ys.lookup k := by
  induction xs with
  | nil => rfl
  | cons p xs ih =>
    obtain ⟨a, b⟩ := p
    have hne : (k == a) = false := by
      have := h (a, b) (by simp)
      simp only [ne_eq] at this
      simpa [beq_eq_false_iff_ne] using fun e => this e.symm
    simp only [List.cons_append, List.lookup, hne]
    exact ih (fun p hp => h p (by simp [hp]))

/-- **the URL sent** (registered consumer URL that already carries a query `pre`, none of whose parameters is one
    of the four message parameters): `acs?pre & query` verifies just the same -/
theorem C04_redirect_url_with_query (pre : List Char) (resp relay alg : String) (sig : List UInt8)
    (hpre : ∀ p ∈ params pre, p.1 ≠ kSAMLResponse ∧ p.1 ≠ kRelayState ∧ p.1 ≠ kSigAlg ∧ p.1 ≠ kSignature)
    (halg : alg ≠ "") (hsig : sig ≠ []) :
    verify (pre ++ '&' :: buildQ resp relay alg (b64encode sig)) =
      some { octets := buildQ resp relay alg "", alg := alg.toUTF8.toList, sig := sig } := by
  rw [← verify_sent resp relay alg sig halg hsig]
  have h1 := lookup_append_of_absent kSAMLResponse (params pre) (params (buildQ resp relay alg (b64encode sig))) (fun p hp => (hpre p hp).1)
  have h2 := lookup_append_of_absent kRelayState (params pre) (params (buildQ resp relay alg (b64encode sig))) (fun p hp => (hpre p hp).2.1)
  have h3 := lookup_append_of_absent kSigAlg (params pre) (params (buildQ resp relay alg (b64encode sig))) (fun p hp => (hpre p hp).2.2.1)
  have h4 := lookup_append_of_absent kSignature (params pre) (params (buildQ resp relay alg (b64encode sig))) (fun p hp => (hpre p hp).2.2.2)
  unfold verify verifierOctets verifierAlg verifierSig rawParam
  rw [params_amp, h1, h2, h3, h4]

private theorem rawQuery_append' (base rest : List Char) (h : '?' ∉ base) : rawQuery (base ++ '?' :: rest) = rest :=
  rawQuery_append base rest h

/-- the same at URL level: consumer URL `base?pre[#frag]` -/
theorem C04_redirect_url_with_query' (acs base pre : List Char) (resp relay alg : String) (sig : List UInt8)
    (hacs : redirectTarget acs = base ++ '?' :: pre) (hb : '?' ∉ base)
    (hpre : ∀ p ∈ params pre, p.1 ≠ kSAMLResponse ∧ p.1 ≠ kRelayState ∧ p.1 ≠ kSigAlg ∧ p.1 ≠ kSignature)
    (halg : alg ≠ "") (hsig : sig ≠ []) :
    verify (urlQuery (redirectURL acs (buildQ resp relay alg (b64encode sig)))) =
      some { octets := buildQ resp relay alg "", alg := alg.toUTF8.toList, sig := sig } := by
  rw [urlQuery_redirectURL _ _ (buildQ_no_hash _ _ _ _)]
  have : (redirectTarget acs).contains '?' = true := by rw [hacs]; simp
  rw [this, hacs]
  simp only [if_true]
  have : base ++ '?' :: pre ++ '&' :: buildQ resp relay alg (b64encode sig) =
      base ++ '?' :: (pre ++ '&' :: buildQ resp relay alg (b64encode sig)) := by simp
  rw [this, rawQuery_append _ _ hb]
  exact C04_redirect_url_with_query pre resp relay alg sig hpre halg hsig

/-- non-vacuity: a consumer URL with a fragment -/
example : urlQuery (redirectURL "https://sp.example.com/acs#top".toList "SAMLResponse=x".toList) = "SAMLResponse=x".toList := by decide

/-- non-vacuity: a concrete response, RelayState with metacharacters, rsa-sha256 and a three-byte signature -/
example : verify (buildQ "fZJ+b/8=" "a&b=c d" "http://www.w3.org/2001/04/xmldsig-more#rsa-sha256" (b64encode [1, 2, 255])) =
    some { octets := buildQ "fZJ+b/8=" "a&b=c d" "http://www.w3.org/2001/04/xmldsig-more#rsa-sha256" "",
           alg := "http://www.w3.org/2001/04/xmldsig-more#rsa-sha256".toUTF8.toList, sig := [1, 2, 255] } :=
  verify_sent _ _ _ _ (by decide) (by decide)

/-! ## 2. Coverage: nothing that says Success leaves unsigned -/

/-- **callback**: a Success response is always signed; the signature travels in the query exactly when the reply
    is a redirect, and is enveloped in the assertion for the POST form and for delivery in the HTTP body -/
theorem C04_success_is_signed (o : Ora) (i : Callback.In) (d : Callback.Delivery) (m : Callback.Msg) (s : Callback.Sig)
    (h : Callback.callback o i = .reply d m s) (hs : m.status = statusSuccess)
    (hb : ∀ r, i.stored = some r → r.binding = postBinding ∨ r.binding = redirectBinding) :
    i.signOk = true ∧ m.assertion.isSome ∧
    ((∃ acs relay, d = .redirect acs relay) ∧ s = .query ∨ (¬ ∃ acs relay, d = .redirect acs relay) ∧ s = .enveloped) := by
  unfold Callback.callback at h
  have hne1 : statusRequestDenied ≠ statusSuccess := by decide
  have hne2 : statusAuthnFailed ≠ statusSuccess := by decide
  have hne3 : statusInvalidAttr ≠ statusSuccess := by decide
  have hne4 : statusResponder ≠ statusSuccess := by decide
  split at h
  · cases h
  split at h
  · cases h
  split at h
  · cases h; exact absurd hs hne1
  rename_i rec hrec
  split at h
  · cases h
  split at h
  · cases h; exact absurd hs hne2
  split at h
  · cases h; exact absurd hs hne3
  split at h
  · cases h
  split at h
  · cases h; exact absurd hs hne3
  split at h
  · split at h
    · cases h; exact absurd hs hne4
    · rename_i hsign
      cases h
      refine ⟨by simpa using hsign, rfl, ?_⟩
      have hbind := hb rec hrec
      unfold Callback.deliver Callback.sigStyle
      by_cases hacs : rec.acs = ""
      · simp [hacs]
      · rcases hbind with hp | hr
        · have : (rec.binding == redirectBinding) = false := by rw [hp]; decide
          have hne : postBinding ≠ redirectBinding := by decide
          simp [hacs, hp, this, hne]
        · have : (rec.binding == postBinding) = false := by rw [hr]; decide
          have hne : redirectBinding ≠ postBinding := by decide
          simp [hacs, hr, this, hne]
  · cases h

/-- **attribute query**: an answer (always a Success assertion in a SOAP envelope) exists only if the signing key was
    usable and `createPostSignature` succeeded — the model has no unsigned answer -/
theorem C04_aq_signed (o : Ora) (i : AttrQuery.In) (a : AttrQuery.Answer) (h : AttrQuery.attrQuery o i = .answer a) :
    i.signOk = true ∧ ∃ c k, getResponseCert o () = .ok (c, k, none) := by
  unfold AttrQuery.attrQuery at h
  split at h
  · simp at h
  split at h
  · simp at h
  split at h
  · simp at h
  · simp at h
  split at h
  · simp at h
  split at h
  · simp at h
  split at h
  · simp at h
  split at h
  · simp at h
  split at h
  · simp at h
  split at h
  · simp at h
  split at h
  · simp at h
  split at h
  · simp at h
  split at h
  · simp at h
  split at h
  · simp at h
  split at h
  · split at h
    · simp at h
    rename_i c k kerr hcert
    split at h
    · simp at h
    rename_i hk
    split at h
    · simp at h
    rename_i hsign
    refine ⟨by simpa using hsign, c, k, ?_⟩
    cases kerr with
    | none => exact hcert
    | some e => simp at hk
  · simp at h

/-- **metadata**: the served document is signed exactly when signing is configured -/
theorem C04_metadata_signed_iff_configured (o : Ora) (c : Metadata.Cfg) (i : Metadata.In) (d : Metadata.Doc)
    (h : Metadata.metadata o c i = .doc d) : d.signed = c.signMetadata ∧ (c.signMetadata = true → i.metaKeyOk = true ∧ i.signOk = true) := by
  unfold Metadata.metadata at h
  split at h
  · cases h
  split at h
  · cases h
  by_cases hc : c.signMetadata = true
  · simp only [hc, if_true] at h
    split at h
    · cases h
    split at h
    · cases h
    · cases h; simp_all
  · simp only [hc, if_false] at h
    cases h; simp_all

/-! ## 3. Enveloped XML-DSig: where the signer's and a conformant verifier's digest inputs agree -/
open Lib.C14n

private theorem length_flatMap_ge (f : Char → List Char) (hf : ∀ c, 1 ≤ (f c).length) (s : List Char) :
    s.length ≤ (s.flatMap f).length := by
  induction s with
  | nil => simp
  | cons c cs ih => simp only [List.flatMap_cons, List.length_append, List.length_cons]; have := hf c; omega

private theorem flatMap_eq_self_iff (f : Char → List Char) (p : Char → Bool)
    (hf : ∀ c, if p c then 1 < (f c).length else f c = [c]) (s : List Char) :
    s.flatMap f = s ↔ s.all (fun c => !p c) = true := by
  have hge : ∀ c, 1 ≤ (f c).length := by
    intro c; have := hf c; split at this
    · omega
    · rw [this]; simp
  induction s with
  | nil => simp
  | cons c cs ih =>
    simp only [List.flatMap_cons, List.all_cons, Bool.and_eq_true, Bool.not_eq_true']
    constructor
    · intro h
      have hlen := congrArg List.length h
      simp only [List.length_append, List.length_cons] at hlen
      have h2 := length_flatMap_ge f hge cs
      have hc := hf c
      by_cases hp : p c = true
      · rw [if_pos hp] at hc; omega
      · rw [if_neg hp] at hc
        rw [hc] at h
        simp only [List.singleton_append, List.cons.injEq, true_and] at h
        exact ⟨by simpa using hp, ih.mp h⟩
    · rintro ⟨hp, hall⟩
      have hc := hf c
      rw [if_neg (by simp [hp])] at hc
      rw [hc, ih.mpr hall]; rfl

private theorem textEsc_spec (c : Char) : if textSpecial c then 1 < (textEsc c).length else textEsc c = [c] := by
  unfold textSpecial textEsc
  by_cases h1 : c = '&'
  · simp [h1]
  by_cases h2 : c = '<'
  · simp [h2]
  by_cases h3 : c = '>'
  · simp [h3]
  by_cases h4 : c = '\r'
  · simp [h4]
  simp [h1, h2, h3, h4]

private theorem attrEsc_spec (c : Char) : if attrSpecial c then 1 < (attrEsc c).length else attrEsc c = [c] := by
  unfold attrSpecial attrEsc
  by_cases h1 : c = '&'
  · simp [h1]
  by_cases h2 : c = '<'
  · simp [h2]
  by_cases h3 : c = '"'
  · simp [h3]
  by_cases h4 : c = '\t'
  · simp [h4]
  by_cases h5 : c = '\n'
  · simp [h5]
  by_cases h6 : c = '\r'
  · simp [h6]
  simp [h1, h2, h3, h4, h5, h6]

/-- **text nodes**: the verifier's canonical form equals what the signer digested iff none of `& < > CR` occurs -/
theorem C04_c14n_text (s : List Char) : c14nText s = signerText s ↔ textClean s = true :=
  flatMap_eq_self_iff textEsc textSpecial textEsc_spec s

/-- **attribute values**: likewise iff none of `& < " TAB LF CR` occurs -/
theorem C04_c14n_attr (s : List Char) : c14nAttr s = signerAttr s ↔ attrClean s = true :=
  flatMap_eq_self_iff attrEsc attrSpecial attrEsc_spec s

/-- the full statement for the enveloped signature ("whatever characters occur") is false: D16's witness -/
theorem C04_enveloped_full_false : ¬ ∀ s : List Char, c14nText s = signerText s := by
  intro h
  have := (C04_c14n_text ['a', '&', 'b']).mp (h _)
  revert this; decide

/-- quotes, apostrophes, TAB and LF in text, and `>` / apostrophes in attribute values, are harmless -/
example : textClean "a\"b'c\td\ne f".toList = true ∧ attrClean "a>b'c d".toList = true := by decide

/-! ## Ties -/

/-- the hand-modelled signing glue is the source of today; the third-party signer and verifier are the pinned versions -/
theorem C04_source_current :
    FactsUtil.sameHashes ["signature.Create", "signature.GetSigner", "xml.Marshal"] = true ∧
    FactsUtil.lookup Gen.Facts.deps "github.com/amdonov/xmlsig" = "v0.1.0" ∧
    FactsUtil.lookup Gen.Facts.deps "github.com/russellhaering/goxmldsig" = "v1.4.0" :=
  ⟨by decide, by decide, by decide⟩

end C04
