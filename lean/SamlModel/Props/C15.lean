import SamlModel.Lemmas.Interleave
import SamlModel.Lemmas.Uuid
import SamlModel.Model.Callback
import SamlModel.Model.FactsUtil
import SamlModel.Props.Stateless
set_option linter.unusedSimpArgs false
set_option linter.unusedVariables false
set_option linter.unusedSectionVars false
/-!
  Props.C15 — concurrent requests are isolated and draw pairwise distinct identifiers (partial: data-race freedom
  under the Go memory model and real scheduling are observed with the race detector, not proved).

  * `C15_isolation`, `C15_reply_is_own`, `C15_no_cross_talk`, `C15_frame`: for **every** family of requests in
    flight, **every** schedule (any interleaving of their storage operations, any length), the state of request `i`
    — and so its reply — is what it would be had it been served alone, and does not change when the other requests
    or records of their name spaces change; the only hypothesis is that the request does not read a record another
    request in flight created (distinct sessions).
  * `C15_ids_distinct`: all identifiers drawn by all requests under any schedule are pairwise distinct, given that the
    identifier source never repeats (stated assumption about `uuid.New`).
  * `C15_shared_state_readonly`: the premise that the requests share nothing but the storage, as regenerated facts:
    no handler-reachable code writes through the provider / configuration / service-provider structs or touches a
    mutable package variable, and those structs have exactly the fields the model was written against.
  * `C15_session_isolated`: the theorem instantiated at the shape of the real endpoints (SSO then login callback of
    one session, the reply being `Callback.callback` of the storage answers).
-/
namespace C15
open Interleave

variable {κ ν ρ : Type} [DecidableEq κ]

def init (progs : Nat → Prog κ ν ρ) (store : κ → Option ν) : State κ ν ρ :=
  { procs := fun i => { prog := progs i }, store := store }

/-- request `i`, served alone from the given storage, never reads a record created by another request in flight -/
def DistinctSession (e : Env κ) (S : State κ ν ρ) (i : Nat) : Prop := ∀ n, readsOwn e (alone e S i n) i

/-- **isolation**: under any schedule, request `i` is in exactly the state it reaches alone after as many steps as
    the schedule gave it -/
theorem C15_isolation (e : Env κ) (S : State κ ν ρ) (sched : List Nat) (i : Nat) (h : DistinctSession e S i) :
    (run e S sched).procs i = (alone e S i (sched.count i)).procs i :=
  (sim_run e i sched S S (sim_refl e i S) h).1

/-- **each reply is determined by its own request**: whenever the reply of request `i` is written under a schedule,
    it is the reply request `i` writes when served alone -/
theorem C15_reply_is_own (e : Env κ) (S : State κ ν ρ) (sched : List Nat) (i : Nat) (r : ρ) (h : DistinctSession e S i)
    (hr : replyOf (run e S sched) i = some r) : ∀ m, sched.count i ≤ m → replyOf (alone e S i m) i = some r := by
  intro m hm
  have h1 := C15_isolation e S sched i h
  have h2 : replyOf (alone e S i (sched.count i)) i = some r := by
    unfold replyOf at hr ⊢; rw [← h1]; exact hr
  exact alone_done e S i _ m r h2 hm

/-- **no cross-talk**: replace every other request by any other request, reschedule arbitrarily (same number of steps
    for `i`), change any record of the other requests' name spaces — request `i` ends in the same state.  In
    particular nothing of another session (request ID, RelayState, consumer URL, audience, host, user attributes) can
    appear in its reply unless it is in its own request or in the records it names. -/
theorem C15_no_cross_talk (e : Env κ) (S S' : State κ ν ρ) (sched sched' : List Nat) (i : Nat)
    (hsame : S'.procs i = S.procs i) (hstore : ∀ k, ¬ foreign e i k → S'.store k = S.store k)
    (h : DistinctSession e S i) (hc : sched'.count i = sched.count i) :
    (run e S' sched').procs i = (run e S sched).procs i := by
  have h1 := (sim_run e i sched' S' S ⟨hsame, hstore⟩ h).1
  have h2 := C15_isolation e S sched i h
  rw [h1, h2, hc]

/-- **frame**: the reply depends on the storage only through records outside the other requests' name spaces -/
theorem C15_frame (e : Env κ) (S S' : State κ ν ρ) (i n : Nat)
    (hsame : S'.procs i = S.procs i) (hstore : ∀ k, ¬ foreign e i k → S'.store k = S.store k)
    (h : DistinctSession e S i) : (alone e S' i n).procs i = (alone e S i n).procs i := by
  have := (sim_run e i (List.replicate n i) S' S ⟨hsame, hstore⟩ h).1
  rw [run_replicate] at this
  simpa using this

/-- **identifiers**: under any schedule the identifiers request `i` drew are the first values of its own stream … -/
theorem C15_ids_own (e : Env κ) (progs : Nat → Prog κ ν ρ) (store : κ → Option ν) (sched : List Nat) (i : Nat) :
    ((run e (init progs store) sched).procs i).ids =
      (List.range ((run e (init progs store) sched).procs i).drawn).map (e.ids i) :=
  idsInv_run e sched _ (fun _ => rfl) i

/-- … so all identifiers of all requests, across all interleavings, are pairwise distinct when the source does not
    repeat (`uuid.New`: 122 random bits; the assumption is stated, not proved) -/
theorem C15_ids_distinct (e : Env κ) (progs : Nat → Prog κ ν ρ) (store : κ → Option ν) (sched : List Nat)
    (hinj : ∀ a b n m, e.ids a n = e.ids b m → a = b ∧ n = m) :
    (∀ i, ((run e (init progs store) sched).procs i).ids.Nodup) ∧
    (∀ i j x, x ∈ ((run e (init progs store) sched).procs i).ids → x ∈ ((run e (init progs store) sched).procs j).ids → i = j) := by
  constructor
  · intro i
    rw [C15_ids_own]
    exact List.Pairwise.map (e.ids i) (fun a b hab heq => hab (hinj i i a b heq).2) List.nodup_range
  · intro i j x hi hj
    rw [C15_ids_own] at hi hj
    obtain ⟨a, _, ha⟩ := List.mem_map.mp hi
    obtain ⟨b, _, hb⟩ := List.mem_map.mp hj
    exact (hinj i j a b (ha.trans hb.symm)).1

/-- **all identifiers are legal xs:ID tokens**: `NewID()` is `_` followed by the canonical rendering of the 16 bytes the
    generator drew; for every such 16 bytes (indeed any bytes) that is an NCName, 37 characters long -/
theorem C15_ids_are_xsID (bs : List UInt8) (h : bs.length = 16) :
    Lib.Uuid.isXsID (Lib.Uuid.newID bs) = true ∧ (Lib.Uuid.newID bs).length = 37 := by
  refine ⟨Lib.Uuid.newID_isXsID bs, ?_⟩
  simp [Lib.Uuid.newID, Lib.Uuid.render_length bs h]

/-- `NewID` is the function the rendering was modelled from, and the UUID library is the pinned version -/
theorem C15_newid_current :
    FactsUtil.sameHashes ["provider.NewID"] = true ∧ FactsUtil.lookup Gen.Facts.deps "github.com/google/uuid" = "v1.6.0" :=
  ⟨by decide, by decide⟩

/-! ## The premise, tied to the source -/

/-- **shared state is read-only**: in code reachable from a route handler (object-level call graph over all packages
    of the module) nothing is assigned through the provider / configuration / service-provider structs, no mutable
    package variable is used, no `sync` primitive sits on a shared struct; every package variable is of a kind that
    cannot carry request data; and the shared structs have exactly the fields the model was written against -/
theorem C15_shared_state_readonly :
    Gen.Facts.sharedTouches = [] ∧
    Gen.Facts.globals.all (fun g => g.2.2 == "safe") = true ∧
    Gen.Facts.sharedFields = Expected.sharedFields ∧
    Gen.Facts.writes.all (fun w => !w.2.2) = true :=
  Stateless.handlers_stateless

/-! ## The shape of the real endpoints -/

inductive Key where
  | req (id : String)
  | app (id : String)
  | user (id : String)
deriving DecidableEq, Repr

inductive Val where
  | req (r : Callback.Rec)
  | entity (e : String)
  | user (a : Gen.provider_Attributes)

def asRec : Option Val → Option Callback.Rec
  | some (.req r) => some r
  | _ => none
def asEntity : Option Val → Option String
  | some (.entity e) => some e
  | _ => none
def asUser : Option Val → Option Gen.provider_Attributes
  | some (.user a) => some a
  | _ => none

/-- the login callback as a program: read the stored request (`AuthRequestByID`), the application's entity ID
    (`GetEntityIDByAppID`), the user (`SetUserinfoWithUserID`), draw the message identifiers, reply
    `Callback.callback` of exactly those answers -/
def callbackProg (o : Gen.Ora) (base : Callback.In) (id : Key) : Prog Key Val Callback.Out :=
  .read id fun vr =>
    match asRec vr with
    | none => .fresh fun i0 => .done (Callback.callback o { base with stored := none, ids := fun _ => i0 })
    | some rec =>
      .read (.app rec.appID) fun ve => .read (.user rec.userID) fun vu =>
        .fresh fun i0 => .fresh fun i1 => .fresh fun i2 =>
          .done (Callback.callback o { base with stored := some rec, entity := asEntity ve, userinfo := asUser vu,
                                                 ids := fun n => if n = 0 then i0 else if n = 1 then i1 else i2 })

/-- one session: the SSO endpoint persists the request (`CreateAuthRequest`), later the callback for the identifier
    the storage returned is served -/
def sessionProg (o : Gen.Ora) (base : Callback.In) (rec : Callback.Rec) : Prog Key Val Callback.Out :=
  .create (.req rec) fun k => callbackProg o base k

theorem callbackProg_safe (e : Env Key) (o : Gen.Ora) (base : Callback.In) (i : Nat) (st : Key → Option Val) (c d : Nat) (id : Key)
    (hid : ¬ foreign e i id)
    (hrec : ∀ rec, asRec (st id) = some rec → ¬ foreign e i (.app rec.appID) ∧ ¬ foreign e i (.user rec.userID)) :
    SafeProg e i st c d (callbackProg o base id) := by
  unfold callbackProg
  apply SafeProg.read _ _ _ _ _ hid
  cases h : asRec (st id) with
  | none => simp only; exact SafeProg.fresh _ _ _ _ (SafeProg.done _ _ _ _)
  | some rec =>
    simp only
    obtain ⟨ha, hu⟩ := hrec rec h
    apply SafeProg.read _ _ _ _ _ ha
    apply SafeProg.read _ _ _ _ _ hu
    exact SafeProg.fresh _ _ _ _ (SafeProg.fresh _ _ _ _ (SafeProg.fresh _ _ _ _ (SafeProg.done _ _ _ _)))

theorem sessionProg_safe (e : Env Key) (o : Gen.Ora) (base : Callback.In) (rec : Callback.Rec) (i : Nat) (st : Key → Option Val)
    (hown : ∀ n, ¬ foreign e i (e.alloc i n))
    (happ : ¬ foreign e i (.app rec.appID)) (huser : ¬ foreign e i (.user rec.userID)) :
    SafeProg e i st 0 0 (sessionProg o base rec) := by
  unfold sessionProg
  apply SafeProg.create
  apply callbackProg_safe _ _ _ _ _ _ _ _ (hown 0)
  intro rec' h
  simp [asRec] at h
  subst h
  exact ⟨happ, huser⟩

/-- **a session among arbitrary other traffic**: if the records it names besides its own (application, user) are not
    in other sessions' name spaces, then whatever the other requests are and however they are scheduled, the session
    ends in the state it reaches alone — and the same for any other set of neighbours, any other schedule that gives
    it as many steps, any other content of the neighbours' records -/
theorem C15_session_isolated (e : Env Key) (o : Gen.Ora) (base : Callback.In) (rec : Callback.Rec)
    (others others' : Nat → Prog Key Val Callback.Out) (store store' : Key → Option Val) (sched sched' : List Nat) (i : Nat)
    (hown : ∀ n, ¬ foreign e i (e.alloc i n))
    (happ : ¬ foreign e i (.app rec.appID)) (huser : ¬ foreign e i (.user rec.userID))
    (hstore : ∀ k, ¬ foreign e i k → store' k = store k) (hc : sched'.count i = sched.count i) :
    let S := init (fun j => if j = i then sessionProg o base rec else others j) store
    let S' := init (fun j => if j = i then sessionProg o base rec else others' j) store'
    (run e S sched).procs i = (alone e S i (sched.count i)).procs i ∧
    (run e S' sched').procs i = (run e S sched).procs i := by
  intro S S'
  have hsafe : SafeState e i S := by
    unfold SafeState
    simp only [S, init, if_true]
    exact sessionProg_safe e o base rec i store hown happ huser
  have hd : DistinctSession e S i := fun n => readsOwn_of_safe e i _ (safeState_alone e i S hsafe n)
  refine ⟨C15_isolation e S sched i hd, ?_⟩
  apply C15_no_cross_talk e S S' sched sched' i ?_ hstore hd hc
  simp [S, S', init]

/-- non-vacuity: name spaces by session number; a session reads its own record and two shared, pre-existing ones -/
example : let e : Env Key := { alloc := fun i n => .req s!"ar-{i}-{n}", ids := fun i n => s!"_{i}-{n}" }
    ¬ foreign e 0 (.app "app-1") ∧ ¬ foreign e 0 (.user "uid-1") := by
  intro e
  constructor <;> (rintro ⟨j, n, _, h⟩; simp [e] at h)

end C15
