import SamlModel.Exec.C16
set_option linter.unusedSimpArgs false
/-!
  C16 — Consumer endpoint selection is a deterministic, documented function of metadata.
  Theorems about `Gen.GetAcsUrlAndBindingForResponse`, the definition go2lean regenerates from
  /repo/pkg/provider/sso.go on every run.  All statements are for lists of any length.
-/
namespace C16
open Go Gen

private theorem xs_eq (o : Ora) (v : String) : isXSBooleanTrue o v = .ok (xsTrue v) := by
  simp [isXSBooleanTrue, isXSBooleanTrue.body, Ctl.toRes, xsTrue]

/-- invariant of loop 3 (running minimum) -/
private def Inv3 (seen : List Ep) (s : GetAcsUrlAndBindingForResponse.Frame) : Prop :=
  (s.found = false ∧ seen = []) ∨
  (s.found = true ∧ ∃ e, e ∈ seen ∧ (s.acsUrl, s.protocolBinding) = pairOf e ∧ s.index = idx e ∧
      ∀ e', e' ∈ seen → idx e ≤ idx e')

/-- one iteration of loop 3, as a function on frames -/
private def step3 (x : Ep) (s : GetAcsUrlAndBindingForResponse.Frame) : GetAcsUrlAndBindingForResponse.Frame :=
  if ((!s.found) || decide (idx x < s.index)) = true then
    { s with i := idx x, acsUrl := x.Location, protocolBinding := x.Binding, index := idx x, found := true }
  else { s with i := idx x }

private theorem step3_inv (seen : List Ep) (x : Ep) (s : GetAcsUrlAndBindingForResponse.Frame) (h : Inv3 seen s) :
    Inv3 (seen ++ [x]) (step3 x s) := by
  unfold step3
  by_cases hc : ((!s.found) || decide (idx x < s.index)) = true
  · rw [if_pos hc]
    right
    refine ⟨rfl, x, by simp, rfl, rfl, ?_⟩
    intro e' he'
    rcases h with ⟨hf, hs⟩ | ⟨hf, e, he, _, hidx, hmin⟩
    · subst hs; simp at he'; subst he'; exact Int.le_refl _
    · simp [hf] at hc
      rcases List.mem_append.mp he' with h1 | h1
      · have := hmin e' h1; omega
      · simp at h1; subst h1; exact Int.le_refl _
  · rw [if_neg hc]
    rcases h with ⟨hf, _⟩ | ⟨hf, e, he, hp, hidx, hmin⟩
    · simp [hf] at hc
    · right
      simp [hf] at hc
      refine ⟨hf, e, by simp [he], hp, hidx, ?_⟩
      intro e' he'
      rcases List.mem_append.mp he' with h1 | h1
      · exact hmin e' h1
      · simp at h1; subst h1; omega

private theorem loop3 (rest : List Ep) : ∀ (seen : List Ep) (s : GetAcsUrlAndBindingForResponse.Frame),
    Inv3 seen s → Inv3 (seen ++ rest) (rest.foldl (fun s x => step3 x s) s) := by
  induction rest with
  | nil => intro seen s h; simpa using h
  | cons x xs ih =>
    intro seen s h
    have := ih _ _ (step3_inv seen x s h)
    simpa using this

/-- **C16 (main theorem).** For every registered list and requested binding the selection function
    does not panic and returns a pair related to its inputs by the documented rule. -/
theorem C16_selection_meets_spec (o : Ora) (acs : List Ep) (req : String) :
    ∃ r, select o acs req = .ok r ∧ SpecRel acs req r := by
  unfold select GetAcsUrlAndBindingForResponse GetAcsUrlAndBindingForResponse.body
  simp only [xs_eq, Res.isPanic, Res.get, Bool.false_eq_true, if_false, ite_next]
  rw [goFor_find' (fun (e : Ep) (s : GetAcsUrlAndBindingForResponse.Frame) => e.Binding == s.requestProtocolBinding)
        (fun e _ => (e.Location, e.Binding))]
  dsimp only
  cases h1 : acs.find? (fun e => e.Binding == req) with
  | some e => exact ⟨pairOf e, by simp [Ctl.toRes, pairOf], Or.inr (Or.inl ⟨e, h1, rfl⟩)⟩
  | none =>
    simp only [Ctl.seq_next]
    rw [goFor_find' (fun (e : Ep) (_ : GetAcsUrlAndBindingForResponse.Frame) => xsTrue e.IsDefault)
          (fun e _ => (e.Location, e.Binding))]
    cases h2 : acs.find? (fun e => xsTrue e.IsDefault) with
    | some e => exact ⟨pairOf e, by simp [Ctl.toRes, pairOf], Or.inr (Or.inr (Or.inl ⟨h1, e, h2, rfl⟩))⟩
    | none =>
      simp only [Ctl.seq_next]
      rw [goFor_fold]
      simp only [Ctl.seq_next, Ctl.toRes]
      have hinv := loop3 acs []
        { acs := acs, requestProtocolBinding := req, acsUrl := "", protocolBinding := "", found := false, index := 0 }
        (Or.inl ⟨rfl, rfl⟩)
      simp only [List.nil_append] at hinv
      refine ⟨_, rfl, ?_⟩
      rcases hinv with ⟨_, hnil⟩ | ⟨_, e, he, hp, _, hmin⟩
      · subst hnil; exact Or.inl ⟨rfl, rfl⟩
      · exact Or.inr (Or.inr (Or.inr ⟨h1, h2, e, he, hp, hmin⟩))

/-- the chosen pair always comes from one registered entry (URL and binding of the same entry) -/
theorem C16_from_one_entry (o : Ora) (acs : List Ep) (req : String) :
    (acs = [] ∧ select o acs req = .ok ("", "")) ∨ ∃ e, e ∈ acs ∧ select o acs req = .ok (pairOf e) := by
  obtain ⟨r, hr, hs⟩ := C16_selection_meets_spec o acs req
  rcases hs with ⟨h, rfl⟩ | ⟨e, he, rfl⟩ | ⟨_, e, he, rfl⟩ | ⟨_, _, e, he, rfl, _⟩
  · exact Or.inl ⟨h, hr⟩
  · exact Or.inr ⟨e, List.mem_of_find?_eq_some he, hr⟩
  · exact Or.inr ⟨e, List.mem_of_find?_eq_some he, hr⟩
  · exact Or.inr ⟨e, he, hr⟩

/-- requested binding first, in document order -/
theorem C16_requested_first (o : Ora) (acs : List Ep) (req : String) (e : Ep)
    (h : acs.find? (fun e => e.Binding == req) = some e) : select o acs req = .ok (pairOf e) := by
  obtain ⟨r, hr, hs⟩ := C16_selection_meets_spec o acs req
  rcases hs with ⟨hn, _⟩ | ⟨e', he', rfl⟩ | ⟨hn, _⟩ | ⟨hn, _⟩
  · subst hn; simp at h
  · rw [h] at he'; cases he'; exact hr
  · rw [h] at hn; cases hn
  · rw [h] at hn; cases hn

/-- otherwise the first entry flagged isDefault (xs:boolean true: "true" or "1") -/
theorem C16_default_next (o : Ora) (acs : List Ep) (req : String) (e : Ep)
    (h1 : acs.find? (fun e => e.Binding == req) = none)
    (h2 : acs.find? (fun e => xsTrue e.IsDefault) = some e) : select o acs req = .ok (pairOf e) := by
  obtain ⟨r, hr, hs⟩ := C16_selection_meets_spec o acs req
  rcases hs with ⟨hn, _⟩ | ⟨e', he', _⟩ | ⟨_, e', he', rfl⟩ | ⟨_, hn, _⟩
  · subst hn; simp at h2
  · rw [h1] at he'; cases he'
  · rw [h2] at he'; cases he'; exact hr
  · rw [h2] at hn; cases hn

/-- otherwise an entry with the lowest index -/
theorem C16_lowest_index (o : Ora) (acs : List Ep) (req : String) (hne : acs ≠ [])
    (h1 : acs.find? (fun e => e.Binding == req) = none)
    (h2 : acs.find? (fun e => xsTrue e.IsDefault) = none) :
    ∃ e, e ∈ acs ∧ select o acs req = .ok (pairOf e) ∧ ∀ e', e' ∈ acs → idx e ≤ idx e' := by
  obtain ⟨r, hr, hs⟩ := C16_selection_meets_spec o acs req
  rcases hs with ⟨hn, _⟩ | ⟨e', he', _⟩ | ⟨_, e', he', _⟩ | ⟨_, _, e, he, rfl, hmin⟩
  · exact absurd hn hne
  · rw [h1] at he'; cases he'
  · rw [h2] at he'; cases he'
  · exact ⟨e, he, hr, hmin⟩

/-- nothing registered: nothing chosen -/
theorem C16_empty (o : Ora) (req : String) : select o [] req = .ok ("", "") := by
  rcases C16_from_one_entry o [] req with ⟨_, h⟩ | ⟨e, he, _⟩
  · exact h
  · cases he

/-- deterministic: the result does not depend on anything but the list and the requested binding -/
theorem C16_deterministic (o o' : Ora) (acs : List Ep) (req : String) : select o acs req = select o' acs req := by
  unfold select GetAcsUrlAndBindingForResponse GetAcsUrlAndBindingForResponse.body
  simp only [xs_eq]

/-- the executable statement used by the counterexample hunt is the relational one -/
theorem specB_iff (acs : List Ep) (req : String) (r : String × String) : specB acs req r = true ↔ SpecRel acs req r := by
  unfold specB SpecRel
  cases acs with
  | nil => simp
  | cons a as =>
    cases h1 : List.find? (fun e => e.Binding == req) (a :: as) with
    | some e => simp [h1]
    | none =>
      cases h2 : List.find? (fun e => xsTrue e.IsDefault) (a :: as) with
      | some e => simp [h1, h2]
      | none =>
        simp only [h1, h2, List.any_eq_true, Bool.and_eq_true, beq_iff_eq, List.all_eq_true, decide_eq_true_eq]
        constructor
        · rintro ⟨e, he, hr, hm⟩
          exact Or.inr (Or.inr (Or.inr ⟨trivial, trivial, e, he, hr, hm⟩))
        · rintro (⟨h, _⟩ | ⟨e, he, _⟩ | ⟨_, e, he, _⟩ | ⟨_, _, e, he, hr, hm⟩)
          · cases h
          · cases he
          · cases he
          · exact ⟨e, he, hr, hm⟩

theorem C16_holdsOn (o : Ora) (acs : List Ep) (req : String) : holdsOn o acs req = true := by
  obtain ⟨r, hr, hs⟩ := C16_selection_meets_spec o acs req
  unfold holdsOn
  rw [hr]
  exact (specB_iff acs req r).mpr hs

/-- non-vacuity: an index-0 entry beats later higher indexes (the historical defect), and "1" is a default flag -/
example : ∀ o, select o [{ Index := "0", Binding := "A", Location := "l0" }, { Index := "5", Binding := "A", Location := "l5" },
    { Index := "3", Binding := "A", Location := "l3" }] "B" = .ok ("l0", "A") := by
  intro o; rfl
example : ∀ o, select o [{ Index := "2", Binding := "A", Location := "l2" }, { Index := "7", IsDefault := "1", Binding := "C", Location := "l7" }] "B"
    = .ok ("l7", "C") := by
  intro o; rfl

end C16
