import SamlModel.Generated.Funcs
import SamlModel.Model.Consts
set_option linter.unusedSimpArgs false
set_option linter.unusedVariables false
/-!
  C14 — Decompression of request payloads is bounded.
  Theorems about the *generated* `Gen.InflateAndDecode` (xml/xml.go): the inflater is an oracle
  (`o.inflate bytes` = the stream of bytes it would produce, of any length), `io.LimitReader` and
  `io.ReadAll` are modelled in `Lib.Stream`; `materialised` counts the bytes `ReadAll` buffers.
-/
namespace C14
open Go Gen Consts

/-- the cap the property asks for: of the order of net/http's 10 MB form limit -/
def cap : Nat := 10 * 1024 * 1024

theorem limitReader_materialised (r : Lib.Stream) (n : Int) : Lib.materialised (Lib.limitReader r n) ≤ n.toNat := by
  simp [Lib.materialised, Lib.limitReader, List.length_take]; omega

/-- the payload bytes handed to the inflater -/
def payloadBytes (b64 : Bool) (msg : String) : Option Lib.Bytes :=
  if b64 then Lib.b64decode msg else some (Lib.stringToBytes msg)

/-- what the decoder does with the (limited) stream -/
def decodeSpec (st : Lib.Stream) : Lib.Bytes × Err :=
  if st.err then ([], some "read error")
  else if st.data.length > cap then ([], some "inflated message is larger than %d bytes")
  else (st.data, none)

/-- the limit the code passes to `io.LimitReader`: cap + 1 -/
def limit : Int := 10485761
theorem limit_eq : limit = (cap : Int) + 1 := by decide

/-- **the only read of the inflated stream goes through `LimitReader(cap + 1)`**: with the DEFLATE encoding the
    result is a function of the limited stream alone -/
theorem C14_reads_through_limit (o : Ora) (b64 : Bool) (msg : String) (data : Lib.Bytes) (h : payloadBytes b64 msg = some data) :
    InflateAndDecode o encodingDeflate b64 msg = .ok (decodeSpec (Lib.limitReader (o.inflate data) limit)) := by
  unfold InflateAndDecode InflateAndDecode.body payloadBytes limit at *
  cases b64 with
  | false =>
    simp at h; subst h
    generalize hst : Lib.limitReader (o.inflate (Lib.stringToBytes msg)) 10485761 = st
    unfold decodeSpec Lib.readAll cap
    by_cases he : st.err = true
    · simp [encodingDeflate, hst, he, Ctl.toRes]
    · by_cases hl : st.data.length > 10485760
      · have : (10485760 : Int) < (st.data.length : Int) := by omega
        simp [encodingDeflate, hst, he, hl, this, Ctl.toRes]
      · have : ¬ (10485760 : Int) < (st.data.length : Int) := by omega
        simp [encodingDeflate, hst, he, hl, this, Ctl.toRes]
  | true =>
    simp at h
    generalize hst : Lib.limitReader (o.inflate data) 10485761 = st
    unfold decodeSpec Lib.readAll cap
    by_cases he : st.err = true
    · simp [encodingDeflate, h, hst, he, Ctl.toRes]
    · by_cases hl : st.data.length > 10485760
      · have : (10485760 : Int) < (st.data.length : Int) := by omega
        simp [encodingDeflate, h, hst, he, hl, this, Ctl.toRes]
      · have : ¬ (10485760 : Int) < (st.data.length : Int) := by omega
        simp [encodingDeflate, h, hst, he, hl, this, Ctl.toRes]

/-- **C14 (bounded).** Whatever the compression ratio, at most cap + 1 bytes are materialised. -/
theorem C14_bounded (o : Ora) (data : Lib.Bytes) :
    Lib.materialised (Lib.limitReader (o.inflate data) limit) ≤ cap + 1 := by
  have := limitReader_materialised (o.inflate data) limit
  simpa [limit, cap] using this

/-- **C14 (overflow is detected, not truncated).** A payload that inflates to more than the cap is an error —
    wherever the padding sits (the stream is opaque) — never a silently truncated message. -/
theorem C14_overflow_rejected (o : Ora) (b64 : Bool) (msg : String) (data : Lib.Bytes) (h : payloadBytes b64 msg = some data)
    (hbig : (o.inflate data).data.length > cap) :
    ∃ e, InflateAndDecode o encodingDeflate b64 msg = .ok ([], some e) := by
  rw [C14_reads_through_limit o b64 msg data h]
  unfold decodeSpec
  by_cases he : (Lib.limitReader (o.inflate data) limit).err = true
  · exact ⟨_, by rw [if_pos he]⟩
  · have hl : (Lib.limitReader (o.inflate data) limit).data.length > cap := by
      simp [Lib.limitReader, List.length_take, limit, cap] at *; omega
    exact ⟨_, by rw [if_neg he, if_pos hl]⟩

/-- **no regression for well-behaved senders**: a complete stream within the cap is returned unchanged -/
theorem C14_small_unchanged (o : Ora) (b64 : Bool) (msg : String) (data : Lib.Bytes) (h : payloadBytes b64 msg = some data)
    (hsmall : (o.inflate data).data.length ≤ cap) (hok : (o.inflate data).err = false) :
    InflateAndDecode o encodingDeflate b64 msg = .ok ((o.inflate data).data, none) := by
  rw [C14_reads_through_limit o b64 msg data h]
  unfold decodeSpec
  have h1 : (Lib.limitReader (o.inflate data) limit).err = false := by simp [Lib.limitReader, hok]
  have h2 : (Lib.limitReader (o.inflate data) limit).data = (o.inflate data).data := by
    simp only [Lib.limitReader]; apply List.take_of_length_le; simp [limit, cap] at *; omega
  have h3 : ¬ (Lib.limitReader (o.inflate data) limit).data.length > cap := by rw [h2]; omega
  rw [if_neg (by simp [h1]), if_neg h3, h2]

/-- the absent encoding identifier is a pass-through and any other unknown identifier an error (shared with C18) -/
theorem C14_unknown_encoding (o : Ora) (enc : String) (b64 : Bool) (msg : String) (data : Lib.Bytes)
    (h : payloadBytes b64 msg = some data) (h1 : enc ≠ "") (h2 : enc ≠ encodingDeflate) :
    InflateAndDecode o enc b64 msg = .ok ([], some "unknown encoding") := by
  unfold InflateAndDecode InflateAndDecode.body payloadBytes at *
  have h2' : ¬ enc = "urn:oasis:names:tc:SAML:2.0:bindings:URL-Encoding:DEFLATE" := h2
  cases b64 with
  | false => simp [h1, h2', Ctl.toRes]
  | true => simp at h; simp [h, h1, h2', Ctl.toRes]

theorem C14_source_current : Consts.current = true := by decide

/-- non-vacuity: a 3-byte stream is returned; the hypotheses of the theorems are satisfiable -/
example : (Lib.limitReader { data := [1, 2, 3], err := false } limit).data = [1, 2, 3] := by decide

end C14
