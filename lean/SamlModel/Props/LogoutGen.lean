import SamlModel.Lemmas.Builders
import SamlModel.Model.Logout
import SamlModel.Props.FnLemmas
import SamlModel.Props.CallbackGen
set_option linter.unusedSimpArgs false
set_option linter.unusedVariables false
/-!
  Props.LogoutGen — `IdentityProvider.logoutHandleFunc` is *translated*: go2lean regenerates the handler from logout.go
  on every run.  The closure literals the handler registers with its `checker.Checker` become functions of the handler
  frame (`Go.Clo`), the chain is built with the functions of `Model.Checker` (one `Checker.withXxx` per
  `checkerInstance.WithXxx` call, in source order), `CheckFailed()` is `Go.runChain`, and what the handler and its
  failure callbacks write to the client is returned as an effect trace.

  `logout_handler_refines`: for **every** behaviour of the environment (form parser, decoder, storage, clock,
  identifier source) the regenerated handler writes exactly one LogoutResponse, and it is the reply of the hand-written
  model `Logout.logout` (the model the C13 theorems are about) on the input read off from the same oracle answers.
-/
namespace LogoutGen
open Go Gen Consts CallbackGen Builders

variable (o : Ora) (cfg : provider_IdentityProviderConfig) (fmt : String) (exp : Int)

/-- `getLogoutRequestFromRequest(r)` -/
def formOf : Option provider_LogoutRequestForm :=
  match getLogoutRequestFromRequest o with
  | .ok (some f, none) => some f
  | _ => none

def lformOf (f : provider_LogoutRequestForm) : Logout.LForm :=
  { LogoutRequest := f.LogoutRequest, Encoding := f.Encoding, RelayState := f.RelayState }

/-- `xml.DecodeLogoutRequest(form.Encoding, form.LogoutRequest)` -/
def decodedOf : Option samlp_LogoutRequestType :=
  match formOf o with
  | none => none
  | some f => if (o.f_DecodeLogoutRequest f.Encoding f.LogoutRequest).2.isNone then (o.f_DecodeLogoutRequest f.Encoding f.LogoutRequest).1 else none

/-- `p.GetServiceProvider(ctx, request.Issuer.Text)` -/
def spOf : Option serviceprovider_ServiceProvider :=
  match decodedOf o with
  | none => none
  | some req =>
    match req.Issuer with
    | none => none
    | some iss => if (o.m_GetServiceProvider (idp cfg fmt exp) iss.Text).2.isNone then (o.m_GetServiceProvider (idp cfg fmt exp) iss.Text).1 else none

/-- the input of the logout model read off from the oracle answers the generated handler sees -/
def inOfOra : Logout.In :=
  { issuer := o.m_GetEntityID (idp cfg fmt exp), timeFormat := fmt,
    form := (formOf o).map lformOf, decoded := decodedOf o, sp := spOf o cfg fmt exp,
    issueInstant := o.m_Format o.now fmt, newID := o.newID "makeLogoutResponse" 0 }

/-- what one effect means for the client: `sendBackLogoutResponse` delivers according to the `LogoutResponse` it is
    called on (`Logout.deliver`; the rendering is `logoutSendBack_renders` below) -/
def outOfEff : Eff → Logout.Out
  | .sendBackLogoutResponse (some resp) (some m) => .reply (Logout.deliver resp.LogoutURL resp.RelayState) (logoutMsgOf m)
  | _ => .panic

def outOf : Res (List Eff) → Option Logout.Out
  | .panic => some .panic
  | .ok [e] => some (outOfEff e)
  | .ok _ => none

/-- contract of the environment: a decoder / storage call that reports no error hands back a value -/
def EnvOK : Prop :=
  (∀ enc req, (o.f_DecodeLogoutRequest enc req).2 = none → (o.f_DecodeLogoutRequest enc req).1.isSome) ∧
  (∀ iss, (o.m_GetServiceProvider (idp cfg fmt exp) iss).2 = none → (o.m_GetServiceProvider (idp cfg fmt exp) iss).1.isSome)

theorem getForm_eq (o : Ora) : getLogoutRequestFromRequest o =
    match o.m_ParseForm with
    | some e => .ok (none, some e)
    | none => .ok (some { LogoutRequest := o.formGet "SAMLRequest",
                          Encoding := if o.urlQueryHas "SAMLRequest" && o.formGet "SAMLEncoding" == "" then encodingDeflate else o.formGet "SAMLEncoding",
                          RelayState := o.formGet "RelayState" }, none) := by
  unfold getLogoutRequestFromRequest getLogoutRequestFromRequest.body
  cases h : o.m_ParseForm with
  | some e => simp [Ctl.toRes, h]
  | none =>
    by_cases hq : (o.urlQueryHas "SAMLRequest" && o.formGet "SAMLEncoding" == "") = true
    · simp [Ctl.toRes, h, hq, deref, encodingDeflate]
    · simp [Ctl.toRes, h, hq, deref, encodingDeflate]

theorem default_lresp : (default : provider_LogoutResponse) = { RelayState := "", LogoutURL := "", RequestID := "", Issuer := "" } := rfl

/-- the failed LogoutResponse the callbacks build: never panics, and is the model's message -/
theorem failed_builder (o : Ora) (relay url reqID issuer reason msg fmt : String) :
    ∃ r, LogoutResponse_makeFailedLogoutResponse o (some { RelayState := relay, LogoutURL := url, RequestID := reqID, Issuer := issuer }) reason msg fmt = .ok (some r) ∧
      logoutMsgOf r = { id := o.newID "makeLogoutResponse" 0, inResponseTo := reqID, destination := url,
                        issueInstant := o.m_Format o.now fmt, status := reason, issuer := issuer } := by
  simp [LogoutResponse_makeFailedLogoutResponse, LogoutResponse_makeFailedLogoutResponse.body, Ctl.toRes, makeLogoutResponse, makeLogoutResponse.body, logoutMsgOf, getIssuer_eq, Res.get, Res.isPanic, deref]

theorem success_builder (o : Ora) (relay url reqID issuer fmt : String) :
    ∃ r, LogoutResponse_makeSuccessfulLogoutResponse o (some { RelayState := relay, LogoutURL := url, RequestID := reqID, Issuer := issuer }) fmt = .ok (some r) ∧
      logoutMsgOf r = { id := o.newID "makeLogoutResponse" 0, inResponseTo := reqID, destination := url,
                        issueInstant := o.m_Format o.now fmt, status := statusSuccess, issuer := issuer } := by
  simp [LogoutResponse_makeSuccessfulLogoutResponse, LogoutResponse_makeSuccessfulLogoutResponse.body, Ctl.toRes, makeLogoutResponse, makeLogoutResponse.body, logoutMsgOf, getIssuer_eq, Res.get, Res.isPanic, deref, statusSuccess]


open IdentityProvider_logoutHandleFunc in
theorem h_parse_err (e : String) (h : o.m_ParseForm = some e) :
   outOf (IdentityProvider_logoutHandleFunc o (idp cfg fmt exp)) = some (Logout.logout o (inOfOra o cfg fmt exp)) := by
  obtain ⟨r, hr, hm⟩ := failed_builder o "" "" "" (o.m_GetEntityID (idp cfg fmt exp)) statusRequestDenied ("failed to parse form: " ++ e) fmt
  simp only [idp, statusRequestDenied] at hr
  simp only [IdentityProvider_logoutHandleFunc, body, runChain_eq_runDirect, chain, runDirect_cons, Step.run, Clo.andThen, failWith]
  simp [Ctl.toRes, clo0, clo1, getForm_eq, h, idp, deref, Res.isPanic, Res.get, default_lresp, hr, outOf, outOfEff, hm,
    Logout.logout, inOfOra, formOf, Logout.mkMsg, Logout.deliver, statusRequestDenied]


def theForm : provider_LogoutRequestForm :=
  { LogoutRequest := o.formGet "SAMLRequest",
    Encoding := if o.urlQueryHas "SAMLRequest" && o.formGet "SAMLEncoding" == "" then encodingDeflate else o.formGet "SAMLEncoding",
    RelayState := o.formGet "RelayState" }

theorem getForm_ok (h : o.m_ParseForm = none) : getLogoutRequestFromRequest o = .ok (some (theForm o), none) := by
  rw [getForm_eq, h]; rfl

theorem formOf_ok (h : o.m_ParseForm = none) : formOf o = some (theForm o) := by
  simp [formOf, getForm_ok o h]

open IdentityProvider_logoutHandleFunc in
theorem h_decode_err (h : o.m_ParseForm = none) (e : String)
    (hd : (o.f_DecodeLogoutRequest (theForm o).Encoding (theForm o).LogoutRequest).2 = some e) :
   outOf (IdentityProvider_logoutHandleFunc o (idp cfg fmt exp)) = some (Logout.logout o (inOfOra o cfg fmt exp)) := by
  obtain ⟨r, hr, hm⟩ := failed_builder o (theForm o).RelayState "" "" (o.m_GetEntityID (idp cfg fmt exp)) statusRequestDenied ("failed to decode request: " ++ e) fmt
  simp only [idp, statusRequestDenied] at hr
  simp only [IdentityProvider_logoutHandleFunc, body, runChain_eq_runDirect, chain, runDirect_cons, Step.run, Clo.andThen, failWith]
  simp [Ctl.toRes, clo0, clo1, clo2, clo3, getForm_ok o h, idp, deref, Res.isPanic, Res.get, default_lresp, hr, outOf, outOfEff, hm, hd,
    Logout.logout, inOfOra, formOf_ok o h, decodedOf, Logout.mkMsg, Logout.deliver, statusRequestDenied]

open IdentityProvider_logoutHandleFunc in
theorem h_after_decode (henv : EnvOK o cfg fmt exp) (h : o.m_ParseForm = none) (req : samlp_LogoutRequestType)
    (hd : o.f_DecodeLogoutRequest (theForm o).Encoding (theForm o).LogoutRequest = (some req, none)) :
   outOf (IdentityProvider_logoutHandleFunc o (idp cfg fmt exp)) = some (Logout.logout o (inOfOra o cfg fmt exp)) := by
  have hdec : decodedOf o = some req := by simp [decodedOf, formOf_ok o h, hd]
  cases ht : checkIfRequestTimeIsStillValid o req.IssueInstant req.NotOnOrAfter fmt with
  | panic =>
    simp only [IdentityProvider_logoutHandleFunc, body, runChain_eq_runDirect, chain, runDirect_cons, Step.run, Clo.andThen, failWith]
    simp [Ctl.toRes, clo0, clo1, clo2, clo3, clo4, getForm_ok o h, idp, deref, Res.isPanic, Res.get, default_lresp, outOf, outOfEff, hd, ht,
      Logout.logout, inOfOra, formOf_ok o h, hdec]
  | ok terr =>
  cases terr with
  | some e =>
    obtain ⟨r, hr, hm⟩ := failed_builder o (theForm o).RelayState "" req.Id (o.m_GetEntityID (idp cfg fmt exp)) statusRequestDenied ("failed to validate request: ") fmt
    simp only [idp, statusRequestDenied] at hr
    simp only [IdentityProvider_logoutHandleFunc, body, runChain_eq_runDirect, chain, runDirect_cons, Step.run, Clo.andThen, failWith]
    simp [Ctl.toRes, clo0, clo1, clo2, clo3, clo4, clo5, getForm_ok o h, idp, deref, Res.isPanic, Res.get, default_lresp, outOf, outOfEff, hd, ht, hr, hm,
      Logout.logout, inOfOra, formOf_ok o h, hdec, Logout.mkMsg, Logout.deliver, statusRequestDenied]
  | none =>
  cases hi : req.Issuer with
  | none =>
    obtain ⟨r, hr, hm⟩ := failed_builder o (theForm o).RelayState "" req.Id (o.m_GetEntityID (idp cfg fmt exp)) statusRequestDenied ("failed to find registered serviceprovider: issuer is missing in request") fmt
    simp only [idp, statusRequestDenied] at hr
    simp only [IdentityProvider_logoutHandleFunc, body, runChain_eq_runDirect, chain, runDirect_cons, Step.run, Clo.andThen, failWith]
    simp [Ctl.toRes, clo0, clo1, clo2, clo3, clo4, clo5, clo6, clo7, getForm_ok o h, idp, deref, Res.isPanic, Res.get, default_lresp, outOf, outOfEff, hd, ht, hr, hm, hi,
      Logout.logout, inOfOra, formOf_ok o h, hdec, Logout.mkMsg, Logout.deliver, statusRequestDenied]
  | some iss =>
  rcases hs : o.m_GetServiceProvider (idp cfg fmt exp) iss.Text with ⟨spo, serr⟩
  cases serr with
  | some e =>
    obtain ⟨r, hr, hm⟩ := failed_builder o (theForm o).RelayState "" req.Id (o.m_GetEntityID (idp cfg fmt exp)) statusRequestDenied ("failed to find registered serviceprovider: " ++ e) fmt
    simp only [idp, statusRequestDenied] at hr hs
    simp only [IdentityProvider_logoutHandleFunc, body, runChain_eq_runDirect, chain, runDirect_cons, Step.run, Clo.andThen, failWith]
    simp [Ctl.toRes, clo0, clo1, clo2, clo3, clo4, clo5, clo6, clo7, getForm_ok o h, idp, deref, Res.isPanic, Res.get, default_lresp, outOf, outOfEff, hd, ht, hr, hm, hi, hs,
      Logout.logout, inOfOra, formOf_ok o h, hdec, spOf, Logout.mkMsg, Logout.deliver, statusRequestDenied]
  | none =>
  cases spo with
  | none =>
    have := henv.2 iss.Text (by rw [hs])
    rw [hs] at this
    simp at this
  | some sp =>
  have hsp : spOf o cfg fmt exp = some sp := by simp [spOf, hdec, hi, hs]
  simp only [idp] at hs
  cases hm : sp.Metadata with
  | none =>
    simp only [IdentityProvider_logoutHandleFunc, body, runChain_eq_runDirect, chain, runDirect_cons, Step.run, Clo.andThen, failWith]
    simp [Ctl.toRes, clo0, clo1, clo2, clo3, clo4, clo5, clo6, clo7, clo8, getForm_ok o h, idp, deref, Res.isPanic, Res.get, default_lresp, outOf, outOfEff, hd, ht, hi, hs, hm,
      Logout.logout, inOfOra, formOf_ok o h, hdec, hsp]
  | some md =>
  cases hdsc : md.SPSSODescriptor with
  | none =>
    simp only [IdentityProvider_logoutHandleFunc, body, runChain_eq_runDirect, chain, runDirect_cons, Step.run, Clo.andThen, failWith]
    simp [Ctl.toRes, clo0, clo1, clo2, clo3, clo4, clo5, clo6, clo7, clo8, getForm_ok o h, idp, deref, Res.isPanic, Res.get, default_lresp, outOf, outOfEff, hd, ht, hi, hs, hm, hdsc,
      Logout.logout, inOfOra, formOf_ok o h, hdec, hsp]
  | some dsc =>
  cases hl : dsc.SingleLogoutService with
  | nil =>
    obtain ⟨r, hr, hmm⟩ := success_builder o (theForm o).RelayState "" req.Id (o.m_GetEntityID (idp cfg fmt exp)) fmt
    simp only [idp] at hr
    simp only [IdentityProvider_logoutHandleFunc, body, runChain_eq_runDirect, chain, runDirect_cons, Step.run, Clo.andThen, failWith]
    simp [Ctl.toRes, clo0, clo1, clo2, clo3, clo4, clo5, clo6, clo7, clo8, getForm_ok o h, idp, deref, Res.isPanic, Res.get, default_lresp, outOf, outOfEff, hd, ht, hi, hs, hm, hdsc, hl, hr, hmm,
      Logout.logout, inOfOra, formOf_ok o h, hdec, hsp, Logout.mkMsg, Logout.deliver, Logout.firstSlo, lformOf]
  | cons ep rest =>
    obtain ⟨r, hr, hmm⟩ := success_builder o (theForm o).RelayState ep.Location req.Id (o.m_GetEntityID (idp cfg fmt exp)) fmt
    simp only [idp] at hr
    simp only [IdentityProvider_logoutHandleFunc, body, runChain_eq_runDirect, chain, runDirect_cons, Step.run, Clo.andThen, failWith]
    simp [Ctl.toRes, clo0, clo1, clo2, clo3, clo4, clo5, clo6, clo7, clo8, getForm_ok o h, idp, deref, Res.isPanic, Res.get, default_lresp, outOf, outOfEff, hd, ht, hi, hs, hm, hdsc, hl, hr, hmm,
      Logout.logout, inOfOra, formOf_ok o h, hdec, hsp, Logout.mkMsg, Logout.deliver, Logout.firstSlo, goFor_cons, lformOf]


/-- **the regenerated logout handler refines the logout model.**  For every behaviour of the environment that honours
    `EnvOK`, the handler regenerated from logout.go on this run either panics where the model panics (a registered
    service provider without SPSSODescriptor, a panicking time check) or writes to the client exactly once, and what it
    writes is the reply of `Logout.logout` on the input read off from the same answers. -/
theorem logout_handler_refines (henv : EnvOK o cfg fmt exp) :
    outOf (IdentityProvider_logoutHandleFunc o (idp cfg fmt exp)) = some (Logout.logout o (inOfOra o cfg fmt exp)) := by
  cases h : o.m_ParseForm with
  | some e => exact h_parse_err o cfg fmt exp e h
  | none =>
  rcases hd : o.f_DecodeLogoutRequest (theForm o).Encoding (theForm o).LogoutRequest with ⟨dq, derr⟩
  cases derr with
  | some e => exact h_decode_err o cfg fmt exp h e (by rw [hd])
  | none =>
    cases dq with
    | none =>
      have := henv.1 (theForm o).Encoding (theForm o).LogoutRequest (by rw [hd])
      rw [hd] at this
      simp at this
    | some req => exact h_after_decode o cfg fmt exp henv h req hd

/-- the handler never writes twice and never returns without writing -/
theorem logout_handler_writes_once (henv : EnvOK o cfg fmt exp) (t : List Eff)
    (ht : IdentityProvider_logoutHandleFunc o (idp cfg fmt exp) = .ok t) : ∃ e, t = [e] := by
  have h := logout_handler_refines o cfg fmt exp henv
  rw [ht] at h
  match t, h with
  | [e], _ => exact ⟨e, rfl⟩
  | [], h => simp [outOf] at h
  | _ :: _ :: _, h => simp [outOf] at h

/-! ### `sendBackLogoutResponse` (translated) -/

/-- what follows a write: nothing, or the error callback with the write error -/
def sloAfter (k : Nat) : List Eff :=
  match o.writeErr "LogoutResponse_sendBackLogoutResponse" k with
  | none => []
  | some e => [.callErrorFunc e]

/-- what `sendBackLogoutResponse` writes -/
def sloRender (resp : provider_LogoutResponse) (m : Option samlp_LogoutResponseType) : List Eff :=
  match o.f_Marshal_LogoutResponseType m with
  | (_, some e) => [.callErrorFunc e]
  | (data, none) =>
    if resp.LogoutURL = "" then .xmlWrite data :: sloAfter o 0
    else .templateExecute_LogoutResponseForm { RelayState := resp.RelayState, SAMLResponse := Lib.b64encode data, LogoutURL := resp.LogoutURL } :: sloAfter o 1

/-- **`sendBackLogoutResponse` as regenerated from logout_response.go writes exactly `sloRender`** and never panics -/
theorem sloSendBack_renders (resp : provider_LogoutResponse) (m : Option samlp_LogoutResponseType) :
    LogoutResponse_sendBackLogoutResponse o (some resp) m = .ok (sloRender o resp m) := by
  rcases hm : o.f_Marshal_LogoutResponseType m with ⟨data, e⟩
  cases e with
  | some e => simp [LogoutResponse_sendBackLogoutResponse, LogoutResponse_sendBackLogoutResponse.body, Ctl.toRes, hm, sloRender]
  | none =>
    by_cases hu : resp.LogoutURL = ""
    · cases hw : o.writeErr "LogoutResponse_sendBackLogoutResponse" 0 <;>
        simp [LogoutResponse_sendBackLogoutResponse, LogoutResponse_sendBackLogoutResponse.body, Ctl.toRes, hm, sloRender, hu, deref, sloAfter, hw]
    · cases hw : o.writeErr "LogoutResponse_sendBackLogoutResponse" 1 <;>
        simp [LogoutResponse_sendBackLogoutResponse, LogoutResponse_sendBackLogoutResponse.body, Ctl.toRes, hm, sloRender, hu, deref, sloAfter, hw]

/-- **the hand model's delivery is what the regenerated `sendBackLogoutResponse` does**: `Logout.deliver` names its first
    write — the marshalled message as the body, or the auto-submitting form with exactly (RelayState, base64 message,
    logout URL) -/
theorem sloSendBack_delivers (resp : provider_LogoutResponse) (m : Option samlp_LogoutResponseType) (data : Lib.Bytes)
    (hm : o.f_Marshal_LogoutResponseType m = (data, none)) :
    match Logout.deliver resp.LogoutURL resp.RelayState with
    | .xmlBody => (sloRender o resp m).head? = some (.xmlWrite data)
    | .postForm url relay =>
      (sloRender o resp m).head? = some (.templateExecute_LogoutResponseForm { RelayState := relay, SAMLResponse := Lib.b64encode data, LogoutURL := url }) := by
  unfold Logout.deliver sloRender
  rw [hm]
  by_cases hu : resp.LogoutURL = "" <;> simp [hu]

end LogoutGen
