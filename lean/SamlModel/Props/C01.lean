import SamlModel.Model.Callback
import SamlModel.Props.HandlerGen
import SamlModel.Model.FactsUtil
set_option linter.unusedSimpArgs false
set_option linter.unusedVariables false
/-!
  C01 — No Success assertion without completed authentication.
-/
namespace C01
open Go Gen Callback Consts

/-- the reply carries a Response with status Success -/
def successOut (out : Out) : Prop := ∃ d m s, out = .reply d m s ∧ m.status = statusSuccess

/-- **C01 (only if).** A Success reply implies the whole positive path: an id was given, the stored request
    exists and reports `Done()`, the audience lookup, user-info retrieval, signing-key retrieval and signing
    all succeeded. -/
theorem C01_success_only_if_done (o : Ora) (i : In) (h : successOut (callback o i)) :
    i.parseErr = false ∧ i.id ≠ "" ∧ ∃ rec, i.stored = some rec ∧ rec.done = true ∧
      i.entity.isSome ∧ i.userinfo.isSome ∧ i.signOk = true ∧
      ∃ cert key, getResponseCert o () = .ok (cert, key, none) := by
  obtain ⟨d, m, s, hout, hst⟩ := h
  unfold callback at hout
  split at hout
  · simp at hout
  rename_i hp
  split at hout
  · simp at hout
  rename_i hid
  split at hout
  · simp [failedMsg, mkResponse] at hout; obtain ⟨_, hm, _⟩ := hout; subst hm; simp [statusSuccess, statusRequestDenied] at hst
  rename_i rec hrec
  split at hout
  · simp at hout
  rename_i aud hent
  dsimp only at hout
  split at hout
  · simp [failedMsg, mkResponse] at hout; obtain ⟨_, hm, _⟩ := hout; subst hm; simp [statusSuccess, statusAuthnFailed] at hst
  rename_i hdone
  split at hout
  · simp [failedMsg, mkResponse] at hout; obtain ⟨_, hm, _⟩ := hout; subst hm; simp [statusSuccess, statusInvalidAttr] at hst
  rename_i attrs hui
  split at hout
  · simp at hout
  rename_i cert key kerr hkey
  split at hout
  · simp [failedMsg, mkResponse] at hout; obtain ⟨_, hm, _⟩ := hout; subst hm; simp [statusSuccess, statusInvalidAttr] at hst
  rename_i hkerr
  split at hout
  · split at hout
    · simp [mkResponse] at hout; obtain ⟨_, hm, _⟩ := hout; subst hm; simp [statusSuccess, statusResponder] at hst
    · rename_i hsign
      have hk : kerr = none := by cases kerr <;> simp_all
      subst hk
      exact ⟨by simpa using hp, by simpa using hid, rec, hrec, by simpa using hdone, by simp [hent], by simp [hui], by simpa using hsign, cert, key, hkey⟩
  · simp at hout

/-- **C01 (every other case).** A reply whose status is not Success contains no assertion at all — no
    subject identifier, no attribute — and no signature. -/
theorem C01_no_leak (o : Ora) (i : In) (d : Delivery) (m : Msg) (s : Sig) (h : callback o i = .reply d m s)
    (hns : m.status ≠ statusSuccess) : m.assertion = none ∧ s = .none := by
  unfold callback at h
  split at h
  · simp at h
  split at h
  · simp at h
  split at h
  · simp [failedMsg, mkResponse] at h; obtain ⟨_, hm, hs⟩ := h; subst hm; exact ⟨rfl, hs.symm⟩
  split at h
  · simp at h
  dsimp only at h
  split at h
  · simp [failedMsg, mkResponse] at h; obtain ⟨_, hm, hs⟩ := h; subst hm; exact ⟨rfl, hs.symm⟩
  split at h
  · simp [failedMsg, mkResponse] at h; obtain ⟨_, hm, hs⟩ := h; subst hm; exact ⟨rfl, hs.symm⟩
  split at h
  · simp at h
  split at h
  · simp [failedMsg, mkResponse] at h; obtain ⟨_, hm, hs⟩ := h; subst hm; exact ⟨rfl, hs.symm⟩
  split at h
  · split at h
    · simp [mkResponse] at h; obtain ⟨_, hm, hs⟩ := h; subst hm; exact ⟨rfl, hs.symm⟩
    · simp [mkResponse] at h; obtain ⟨_, hm, _⟩ := h; subst hm; simp at hns
  · simp at h

/-- a Success status and an assertion always come together, and then the reply is signed -/
theorem C01_success_has_signed_assertion (o : Ora) (i : In) (d : Delivery) (m : Msg) (s : Sig)
    (h : callback o i = .reply d m s) (hs : m.status = statusSuccess) : m.assertion.isSome ∧ s ≠ .none := by
  unfold callback at h
  split at h
  · simp at h
  split at h
  · simp at h
  split at h
  · simp [failedMsg, mkResponse] at h; obtain ⟨_, hm, _⟩ := h; subst hm; simp [statusSuccess, statusRequestDenied] at hs
  split at h
  · simp at h
  dsimp only at h
  split at h
  · simp [failedMsg, mkResponse] at h; obtain ⟨_, hm, _⟩ := h; subst hm; simp [statusSuccess, statusAuthnFailed] at hs
  split at h
  · simp [failedMsg, mkResponse] at h; obtain ⟨_, hm, _⟩ := h; subst hm; simp [statusSuccess, statusInvalidAttr] at hs
  split at h
  · simp at h
  split at h
  · simp [failedMsg, mkResponse] at h; obtain ⟨_, hm, _⟩ := h; subst hm; simp [statusSuccess, statusInvalidAttr] at hs
  split at h
  · split at h
    · simp [mkResponse] at h; obtain ⟨_, hm, _⟩ := h; subst hm; simp [statusSuccess, statusResponder] at hs
    · simp [mkResponse] at h
      obtain ⟨_, hm, hsig⟩ := h
      subst hm hsig
      refine ⟨rfl, ?_⟩
      unfold sigStyle; split <;> simp
  · simp at h

/-- user data is not even looked at before the gate: for a request that is not done, the reply does not
    depend on what user-info retrieval, key retrieval or signing would answer -/
theorem C01_pending_independent_of_user (o o' : Ora) (i : In) (rec : Rec) (hr : i.stored = some rec) (hd : rec.done = false)
    (u : Option provider_Attributes) (b : Bool) :
    callback o' { i with userinfo := u, signOk := b } = callback o i := by
  unfold callback
  simp [hr, hd, failedMsg]

/-! ### histories: any interleaving of SSO acceptance, login completion and callback calls -/

/-- operations of the system: `accept` = the SSO endpoint persisted a request under `id`; `complete` = the
    login UI marked it done (only storage does this); `callback` = the callback endpoint is called with `id`
    and whatever downstream oracles answer -/
inductive SysOp where
  | accept (id : String) (rec : Rec)
  | complete (id : String)
  | callback (id : String) (entity : Option String) (userinfo : Option provider_Attributes) (signOk : Bool) (o : Ora)

abbrev Store := String → Option Rec

def stepStore (st : Store) : SysOp → Store
  | .accept id rec => fun k => if k = id then some { rec with done := false } else st k
  | .complete id => fun k => if k = id then (st id).map (fun r => { r with done := true }) else st k
  | .callback .. => st

/-- reply of one callback call in store `st` -/
def callbackIn (st : Store) (id : String) (entity : Option String) (userinfo : Option provider_Attributes) (signOk : Bool) (o : Ora) : Out :=
  callback o { id := id, stored := st id, entity := entity, userinfo := userinfo, signOk := signOk }

def storeAfter (ops : List SysOp) : Store := ops.foldl stepStore (fun _ => none)

/-- a record exists only if an `accept` created it, and is `done` only if a `complete` for it follows that `accept` -/
private def Inv (pre : List SysOp) (st : Store) : Prop :=
  ∀ id r, st id = some r →
    (∃ (n : Nat) (rec : Rec), pre[n]? = some (SysOp.accept id rec)) ∧
    (r.done = true → ∃ (n m : Nat) (rec : Rec), n < m ∧ pre[n]? = some (SysOp.accept id rec) ∧ pre[m]? = some (SysOp.complete id))

private theorem inv_step (pre : List SysOp) (st : Store) (op : SysOp) (hinv : Inv pre st) : Inv (pre ++ [op]) (stepStore st op) := by
  intro id r h
  have lift1 : ∀ (n : Nat) x, pre[n]? = some x → (pre ++ [op])[n]? = some x := by
    intro n x hx
    have hn : n < pre.length := by
      rcases Nat.lt_or_ge n pre.length with hc | hc
      · exact hc
      · rw [List.getElem?_eq_none hc] at hx; cases hx
    rw [List.getElem?_append_left hn]; exact hx
  cases op with
  | accept id' rec' =>
    simp only [stepStore] at h
    by_cases hk : id = id'
    · subst hk
      simp at h
      subst h
      refine ⟨⟨pre.length, rec', by simp⟩, by simp⟩
    · simp [hk] at h
      obtain ⟨⟨n, rec, hn⟩, h2⟩ := hinv id r h
      refine ⟨⟨n, rec, lift1 _ _ hn⟩, fun hd => ?_⟩
      obtain ⟨n, m, rec, hnm, ha, hc⟩ := h2 hd
      exact ⟨n, m, rec, hnm, lift1 _ _ ha, lift1 _ _ hc⟩
  | complete id' =>
    simp only [stepStore] at h
    by_cases hk : id = id'
    · subst hk
      simp at h
      obtain ⟨r0, hr0, hr⟩ := h
      obtain ⟨⟨n, rec, hn⟩, _⟩ := hinv id r0 hr0
      have hnl : n < pre.length := by
        rcases Nat.lt_or_ge n pre.length with hc | hc
        · exact hc
        · rw [List.getElem?_eq_none hc] at hn; cases hn
      refine ⟨⟨n, rec, lift1 _ _ hn⟩, fun _ => ⟨n, pre.length, rec, hnl, lift1 _ _ hn, by simp⟩⟩
    · simp [hk] at h
      obtain ⟨⟨n, rec, hn⟩, h2⟩ := hinv id r h
      refine ⟨⟨n, rec, lift1 _ _ hn⟩, fun hd => ?_⟩
      obtain ⟨n, m, rec, hnm, ha, hc⟩ := h2 hd
      exact ⟨n, m, rec, hnm, lift1 _ _ ha, lift1 _ _ hc⟩
  | callback id' e u b o =>
    simp only [stepStore] at h
    obtain ⟨⟨n, rec, hn⟩, h2⟩ := hinv id r h
    refine ⟨⟨n, rec, lift1 _ _ hn⟩, fun hd => ?_⟩
    obtain ⟨n, m, rec, hnm, ha, hc⟩ := h2 hd
    exact ⟨n, m, rec, hnm, lift1 _ _ ha, lift1 _ _ hc⟩

private theorem inv_fold (ops : List SysOp) : ∀ (pre : List SysOp) (st : Store), Inv pre st → Inv (pre ++ ops) (ops.foldl stepStore st) := by
  induction ops with
  | nil => intro pre st h; simpa using h
  | cons op ops ih =>
    intro pre st h
    have := ih (pre ++ [op]) (stepStore st op) (inv_step pre st op h)
    simpa [List.append_assoc] using this

private theorem store_inv (ops : List SysOp) (id : String) (r : Rec) (h : storeAfter ops id = some r) :
    (∃ (n : Nat) (rec : Rec), ops[n]? = some (SysOp.accept id rec)) ∧
    (r.done = true → ∃ (n m : Nat) (rec : Rec), n < m ∧ ops[n]? = some (SysOp.accept id rec) ∧ ops[m]? = some (SysOp.complete id)) := by
  have h0 : Inv [] (fun _ => none) := by intro id r h; simp at h
  have := inv_fold ops [] _ h0
  simp only [List.nil_append] at this
  exact this id r h

/-- **C01 (histories).** In any history — any number of sessions, any interleaving — a callback call that
    answers Success for `id` is preceded by an `accept` of `id` and, after it, a `complete` of `id`. -/
theorem C01_history (ops : List SysOp) (id : String) (entity : Option String) (userinfo : Option provider_Attributes)
    (signOk : Bool) (o : Ora) (h : successOut (callbackIn (storeAfter ops) id entity userinfo signOk o)) :
    ∃ (n m : Nat) (rec : Rec), n < m ∧ m < ops.length ∧ ops[n]? = some (SysOp.accept id rec) ∧ ops[m]? = some (SysOp.complete id) := by
  obtain ⟨_, _, rec, hrec, hdone, _⟩ := C01_success_only_if_done o _ h
  simp only at hrec
  obtain ⟨_, h2⟩ := store_inv ops id rec hrec
  obtain ⟨n, m, r, hnm, ha, hc⟩ := h2 hdone
  have hm : m < ops.length := by
    rcases Nat.lt_or_ge m ops.length with hcn | hcn
    · exact hcn
    · rw [List.getElem?_eq_none hcn] at hc; cases hc
  exact ⟨n, m, r, hnm, hm, ha, hc⟩

/-! ## The same statements over the regenerated code

  `loginResponse` is regenerated from login.go on every run (`Gen.IdentityProvider_loginResponse`); Props.CallbackGen
  links it to the callback model.  Restated here as obligations of this property. -/

/-- **the gate, on the generated function itself**: for every provider value, every `Response` and every answer of the
    other oracles, the generated `loginResponse` hands back a response only if `Done()` answered true; otherwise its
    result is the error `AuthnFailed` and nothing else was computed from user data -/
theorem C01_generated_gate (o : Gen.Ora) (p : Option Gen.provider_IdentityProvider) (resp : Option Gen.provider_Response)
    (h : o.m_Done = false) :
    Gen.IdentityProvider_loginResponse o p () resp = .ok (none, some Consts.statusAuthnFailed, resp) := by
  simp [Gen.IdentityProvider_loginResponse, Gen.IdentityProvider_loginResponse.body, Go.Ctl.toRes, h, Consts.statusAuthnFailed]

/-- whenever the generated `loginResponse` returns an error, the callback model's reply is a failed Response with exactly
    that status, no assertion, unsigned -/
theorem C01_generated_failure (o : Gen.Ora) (cfg : Gen.provider_IdentityProviderConfig) (fmt : String) (exp : Int)
    (issuer id : String) (rec : Callback.Rec) (aud : String) (ids : Nat → String) (hid : id ≠ "")
    (hdone : o.m_Done = rec.done) (hsome : (CallbackGen.userinfo o).1 = none → (CallbackGen.userinfo o).2.isSome)
    (status : String) (r' : Option Gen.provider_Response)
    (hgen : Gen.IdentityProvider_loginResponse o (CallbackGen.idp cfg fmt exp) () (some (CallbackGen.respOf issuer rec aud)) = .ok (none, some status, r')) :
    ∃ m, Callback.callback o (CallbackGen.inOf o cfg fmt exp issuer id rec aud ids) =
        .reply (Callback.deliver rec.acs rec.binding rec.relay) m .none ∧
      m.status = status ∧ m.assertion = none ∧ m.inResponseTo = rec.reqID ∧ m.destination = rec.acs ∧ m.issuer = issuer :=
  CallbackGen.generated_failure o cfg fmt exp issuer id rec aud ids hid hdone hsome status r' hgen

/-- whenever the generated `loginResponse` returns a response, it is the Success message the callback model delivers,
    and the stored request was completed -/
theorem C01_generated_success (o : Gen.Ora) (cfg : Gen.provider_IdentityProviderConfig) (fmt : String) (exp : Int)
    (issuer id : String) (rec : Callback.Rec) (aud : String) (ids : Nat → String) (hid : id ≠ "")
    (hdone : o.m_Done = rec.done) (hsome : (CallbackGen.userinfo o).1 = none → (CallbackGen.userinfo o).2.isSome)
    (hid0 : ids 0 = o.newID "Response_makeAssertionResponse" 0) (hid1 : ids 1 = o.newID "makeAssertion" 0)
    (r : Gen.samlp_ResponseType) (r' : Option Gen.provider_Response)
    (hgen : Gen.IdentityProvider_loginResponse o (CallbackGen.idp cfg fmt exp) () (some (CallbackGen.respOf issuer rec aud)) = .ok (some r, none, r')) :
    Callback.callback o (CallbackGen.inOf o cfg fmt exp issuer id rec aud ids) =
      .reply (Callback.deliver rec.acs rec.binding rec.relay) (Builders.msgOf r (Builders.assertionOf r.Assertion))
        (Callback.sigStyle rec.acs rec.binding) ∧ rec.done = true :=
  CallbackGen.generated_success o cfg fmt exp issuer id rec aud ids hid hdone hsome hid0 hid1 r r' hgen

/-- **C01 on the regenerated handler.**  `IdentityProvider.callbackHandleFunc` as go2lean regenerates it from login.go on
    this run (`Props.HandlerGen`): whatever the request, the storage, the key getter, the signer, the clock and the
    identifier source answer, if the handler writes a Response whose status is Success then the request carried an id,
    the storage knew it and the stored request answered `Done()` = true; and a Response with any other status carries no
    assertion at all.  Nothing is written besides that one Response (`HandlerGen.handler_writes_once`). -/
theorem C01_generated_handler (o : Gen.Ora) (cfg : Gen.provider_IdentityProviderConfig) (fmt : String) (exp : Int)
    (hsome : (CallbackGen.userinfo o).1 = none → (CallbackGen.userinfo o).2.isSome)
    (resp : Gen.provider_Response) (m : Gen.samlp_ResponseType)
    (ht : Gen.IdentityProvider_callbackHandleFunc o (CallbackGen.idp cfg fmt exp) = .ok [Gen.Eff.sendBackResponse (some resp) (some m)]) :
    (m.Status.StatusCode.Value = statusSuccess →
      o.formGet "id" ≠ "" ∧ (o.m_AuthRequestByID (o.formGet "id")).2 = none ∧ o.m_Done = true) ∧
    (m.Status.StatusCode.Value ≠ statusSuccess → Builders.assertionOf m.Assertion = none) := by
  have h := HandlerGen.handler_refines o cfg fmt exp hsome
  rw [ht] at h
  simp only [HandlerGen.outOf, HandlerGen.outOfEff, Option.some.injEq] at h
  constructor
  · intro hs
    obtain ⟨_, hid, rec, hrec, hdone, _⟩ := C01_success_only_if_done o (HandlerGen.inOfOra o cfg fmt exp) ⟨_, _, _, h.symm, hs⟩
    have hid' : o.formGet "id" ≠ "" := hid
    refine ⟨hid', ?_⟩
    have hst : (HandlerGen.inOfOra o cfg fmt exp).stored =
        if (o.m_AuthRequestByID (o.formGet "id")).2.isNone then some (HandlerGen.recOf o) else none := rfl
    rw [hst] at hrec
    cases hl : (o.m_AuthRequestByID (o.formGet "id")).2 with
    | some e => simp [hl] at hrec
    | none =>
      simp [hl] at hrec
      subst hrec
      exact ⟨rfl, hdone⟩
  · intro hns
    exact (C01_no_leak o (HandlerGen.inOfOra o cfg fmt exp) _ _ _ h.symm hns).1

theorem C01_source_current : Consts.current = true ∧
    FactsUtil.sameHashes ["provider.NewID"] = true := ⟨by decide, by decide⟩

/-- non-vacuity: a done record with all oracles succeeding yields a signed Success reply; a pending one AuthnFailed -/
def okOra : Ora where
  now := 0
  timeParse := fun _ _ => none
  m_ValidateRedirectSignature := fun _ _ _ _ _ => none
  m_ValidatePostSignature := fun _ _ => none
  urlParse := fun _ => none
  inflate := fun _ => {}
  m_GetResponseSigningKey := (some { Certificate := [1], Key := some {} }, none)
def recDone : Rec := { reqID := "r1", binding := postBinding, acs := "https://sp/acs", appID := "app", userID := "u", done := true }
def inDone (done : Bool) : In := { id := "x", stored := some { recDone with done := done }, entity := some "sp", userinfo := some { username := "alice" } }
example : (match callback okOra (inDone true) with
    | .reply (.postForm a _) m s => m.status == statusSuccess && s == Sig.enveloped && a == "https://sp/acs" && m.assertion.isSome
    | _ => false) = true := by decide
example : (match callback okOra (inDone false) with
    | .reply _ m s => m.status == statusAuthnFailed && s == Sig.none && m.assertion.isNone
    | _ => false) = true := by decide

/-- non-vacuity of `C01_generated_handler`: an environment in which the regenerated handler runs through to a signed
    Success, and the same environment with `Done()` = false, where it answers AuthnFailed without an assertion -/
def okOraH (done : Bool) : Ora :=
  { okOra with
    formGet := fun _ => "x"
    m_Done := done
    m_GetBindingType := postBinding
    m_GetAccessConsumerServiceURL := "https://sp/acs"
    m_SetUserinfoWithUserID := fun _ _ _ => (none, some { username := "alice" }) }
example : (match HandlerGen.outOf (IdentityProvider_callbackHandleFunc (okOraH true) (CallbackGen.idp {} "f" 5)) with
    | some (.reply (.postForm a _) m s) => m.status == statusSuccess && s == Sig.enveloped && a == "https://sp/acs" && m.assertion.isSome
    | _ => false) = true := by decide
example : (match HandlerGen.outOf (IdentityProvider_callbackHandleFunc (okOraH false) (CallbackGen.idp {} "f" 5)) with
    | some (.reply (.postForm _ _) m s) => m.status == statusAuthnFailed && s == Sig.none && m.assertion.isNone
    | _ => false) = true := by decide
example : (CallbackGen.userinfo (okOraH true)).1 = none → (CallbackGen.userinfo (okOraH true)).2.isSome := by decide

end C01
