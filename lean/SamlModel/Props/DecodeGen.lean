import SamlModel.Generated.Funcs
set_option linter.unusedSimpArgs false
set_option linter.unusedVariables false
/-!
  Props.DecodeGen — `xml.DecodeAuthNRequest` and `xml.DecodeLogoutRequest` are *translated* (standalone: the handlers keep
  the oracle of the same name): base64 / DEFLATE through the generated `InflateAndDecode` (bounded inflation: C14), then
  `encoding/xml.Unmarshal` as a typed oracle that fills the freshly allocated struct.

  The specifications below make one clause of the handlers' environment contract (`EnvOK`: "a decoder that reports no
  error hands back a value") a theorem about the library's decoder instead of an assumption.
-/
namespace DecodeGen
open Go Gen

theorem decodeAuthN_spec (o : Ora) (enc msg : String) :
    DecodeAuthNRequest o enc msg =
      match InflateAndDecode o enc true msg with
      | .panic => .panic
      | .ok (_, some e) => .ok (none, some e)
      | .ok (data, none) =>
        match o.f_Unmarshal_AuthnRequestType data with
        | (some e, _) => .ok (none, some e)
        | (none, req) => .ok (some req, none) := by
  unfold DecodeAuthNRequest DecodeAuthNRequest.body
  cases h : InflateAndDecode o enc true msg with
  | panic => simp [h, Res.isPanic, Ctl.toRes]
  | ok t =>
    obtain ⟨data, e⟩ := t
    cases e with
    | some e => simp [h, Res.isPanic, Res.get, Ctl.toRes]
    | none =>
      rcases hu : o.f_Unmarshal_AuthnRequestType data with ⟨ue, req⟩
      cases ue <;> simp [h, Res.isPanic, Res.get, Ctl.toRes, hu]

theorem decodeLogout_spec (o : Ora) (enc msg : String) :
    DecodeLogoutRequest o enc msg =
      match InflateAndDecode o enc true msg with
      | .panic => .panic
      | .ok (_, some e) => .ok (none, some e)
      | .ok (data, none) =>
        match o.f_Unmarshal_LogoutRequestType data with
        | (some e, _) => .ok (none, some e)
        | (none, req) => .ok (some req, none) := by
  unfold DecodeLogoutRequest DecodeLogoutRequest.body
  cases h : InflateAndDecode o enc true msg with
  | panic => simp [h, Res.isPanic, Ctl.toRes]
  | ok t =>
    obtain ⟨data, e⟩ := t
    cases e with
    | some e => simp [h, Res.isPanic, Res.get, Ctl.toRes]
    | none =>
      rcases hu : o.f_Unmarshal_LogoutRequestType data with ⟨ue, req⟩
      cases ue <;> simp [h, Res.isPanic, Res.get, Ctl.toRes, hu]

/-- **the regenerated decoder never reports success without a request** (and never an error together with one) -/
theorem decodeAuthN_value_iff_no_error (o : Ora) (enc msg : String) (r : Option samlp_AuthnRequestType) (e : Err)
    (h : DecodeAuthNRequest o enc msg = .ok (r, e)) : (e = none ↔ r.isSome) := by
  rw [decodeAuthN_spec] at h
  cases hi : InflateAndDecode o enc true msg with
  | panic => rw [hi] at h; simp at h
  | ok t =>
    obtain ⟨data, ie⟩ := t
    rw [hi] at h
    cases ie with
    | some x => simp at h; obtain ⟨h1, h2⟩ := h; subst h1 h2; simp
    | none =>
      simp only [] at h
      rcases hu : o.f_Unmarshal_AuthnRequestType data with ⟨ue, req⟩
      rw [hu] at h
      cases ue with
      | some x => simp at h; obtain ⟨h1, h2⟩ := h; subst h1 h2; simp
      | none => simp at h; obtain ⟨h1, h2⟩ := h; subst h1 h2; simp

theorem decodeLogout_value_iff_no_error (o : Ora) (enc msg : String) (r : Option samlp_LogoutRequestType) (e : Err)
    (h : DecodeLogoutRequest o enc msg = .ok (r, e)) : (e = none ↔ r.isSome) := by
  rw [decodeLogout_spec] at h
  cases hi : InflateAndDecode o enc true msg with
  | panic => rw [hi] at h; simp at h
  | ok t =>
    obtain ⟨data, ie⟩ := t
    rw [hi] at h
    cases ie with
    | some x => simp at h; obtain ⟨h1, h2⟩ := h; subst h1 h2; simp
    | none =>
      simp only [] at h
      rcases hu : o.f_Unmarshal_LogoutRequestType data with ⟨ue, req⟩
      rw [hu] at h
      cases ue with
      | some x => simp at h; obtain ⟨h1, h2⟩ := h; subst h1 h2; simp
      | none => simp at h; obtain ⟨h1, h2⟩ := h; subst h1 h2; simp

/-- **`xml.DecodeAttributeQuery` as regenerated**: the SOAP envelope is decoded by `encoding/xml` (typed oracle over the
    request's bytes) and what is returned is the AttributeQuery of its Body - possibly none, with no error: an envelope
    without AttributeQuery decodes (the handler's chain checks for it, AttrQueryGen); never a panic -/
theorem decodeAttributeQuery_spec (o : Ora) (request : String) :
    DecodeAttributeQuery o request =
      match o.f_Unmarshal_AttributeQueryEnvelope (Lib.stringToBytes request) with
      | (some e, _) => .ok (none, some e)
      | (none, env) => .ok (env.Body.AttributeQuery, none) := by
  unfold DecodeAttributeQuery DecodeAttributeQuery.body
  rcases hu : o.f_Unmarshal_AttributeQueryEnvelope (Lib.stringToBytes request) with ⟨ue, env⟩
  cases ue <;> simp [hu, Ctl.toRes]

theorem decodeAttributeQuery_no_panic (o : Ora) (request : String) : DecodeAttributeQuery o request ≠ .panic := by
  rw [decodeAttributeQuery_spec]
  rcases hu : o.f_Unmarshal_AttributeQueryEnvelope (Lib.stringToBytes request) with ⟨ue, env⟩
  cases ue <;> simp

/-- an error never comes with a query -/
theorem decodeAttributeQuery_error_no_value (o : Ora) (request : String) (q : Option samlp_AttributeQueryType) (e : String)
    (h : DecodeAttributeQuery o request = .ok (q, some e)) : q = none := by
  rw [decodeAttributeQuery_spec] at h
  rcases hu : o.f_Unmarshal_AttributeQueryEnvelope (Lib.stringToBytes request) with ⟨ue, env⟩
  rw [hu] at h
  cases ue with
  | some e' => simp at h; exact h.1.symm
  | none => simp at h

/-- the decoder oracle the attribute-query handler consults is the regenerated decoder -/
def AttrQueryDecoderIsGenerated (o : Ora) : Prop :=
  ∀ request, DecodeAttributeQuery o request = .ok (o.f_DecodeAttributeQuery request)

/-- the decoder oracle the SSO handler consults is the regenerated decoder -/
def AuthNDecoderIsGenerated (o : Ora) : Prop :=
  ∀ enc msg, DecodeAuthNRequest o enc msg = .ok (o.f_DecodeAuthNRequest enc msg)

/-- ... then the first clause of `SsoGen.EnvOK` holds: it is a property of the library's decoder -/
theorem envOK_decode_of_generated (o : Ora) (h : AuthNDecoderIsGenerated o) :
    ∀ enc req, (o.f_DecodeAuthNRequest enc req).2 = none → (o.f_DecodeAuthNRequest enc req).1.isSome := by
  intro enc req hn
  exact (decodeAuthN_value_iff_no_error o enc req _ _ (h enc req)).mp hn

def LogoutDecoderIsGenerated (o : Ora) : Prop :=
  ∀ enc msg, DecodeLogoutRequest o enc msg = .ok (o.f_DecodeLogoutRequest enc msg)

theorem envOK_logout_decode_of_generated (o : Ora) (h : LogoutDecoderIsGenerated o) :
    ∀ enc req, (o.f_DecodeLogoutRequest enc req).2 = none → (o.f_DecodeLogoutRequest enc req).1.isSome := by
  intro enc req hn
  exact (decodeLogout_value_iff_no_error o enc req _ _ (h enc req)).mp hn

end DecodeGen
