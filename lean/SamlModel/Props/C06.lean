import SamlModel.Lib.Time
import SamlModel.Props.SsoLemmas
import SamlModel.Props.FnLemmas
set_option linter.unusedSimpArgs false
set_option linter.unusedVariables false
/-!
  C06 — Accepted AuthnRequests satisfy every validity condition.
  "Accepted" = the SSO model ends in the login redirect (by C08 exactly the runs that persist the
  request).  The statement is about `Model.Sso` (order of steps tied to the source by the chain
  skeleton) and the *generated* `checkRequestRequiredContent`, `checkIfRequestTimeIsStillValid`,
  `verifyRequestDestinationOfAuthRequest`, `GetEntityID`.
-/
namespace C06
open Go Gen Sso FnLemmas Consts

def accepted (o : Ora) (i : In) : Prop := ∃ id, (sso o i).out = .login id

/-- **C06.** An accepted request: the form carried a non-empty SAMLRequest, no SigAlg without
    Signature, the payload decoded as an AuthnRequest, its Issuer is present and is the entity ID of the
    registered service provider storage returned for it, ID and Version are non-empty, Destination is
    absent or one of the advertised SSO locations, and Conditions (when present) bracket the current
    time in the supported lexical form. -/
theorem C06_accept_implies_valid (o : Ora) (i : In) (h : accepted o i) :
    ∃ form req sp,
      i.form = some form ∧ form.AuthRequest ≠ "" ∧ ¬ (form.SigAlg ≠ "" ∧ form.Sig = "") ∧
      i.decoded = some req ∧ i.sp = some sp ∧
      req.Id ≠ "" ∧ req.Version ≠ "" ∧
      (∃ iss m, req.Issuer = some iss ∧ iss.Text ≠ "" ∧ sp.Metadata = some m ∧ iss.Text = m.EntityID) ∧
      DestOK i.idpMeta req ∧
      (∀ c, req.Conditions = some c → TimeOK o defaultTimeFormat c.NotBefore c.NotOnOrAfter) := by
  obtain ⟨id, h⟩ := h
  obtain ⟨form, req, iss, sp, acsList, sel, a⟩ := accepted_of_login o i id h
  have c := content_ok o i.idpMeta sp req a.h14
  exact ⟨form, req, sp, a.hform, a.hreq, a.hsigalg, a.hdec, a.hsp, c.id, c.version, c.issuer, c.dest, c.time⟩

/-- an empty SAMLRequest is rejected -/
theorem C06_empty_request_rejected (o : Ora) (i : In) (form : Form) (hf : i.form = some form) (he : form.AuthRequest = "") :
    ¬ accepted o i := by
  intro h
  obtain ⟨f, _, _, hf', hne, _⟩ := C06_accept_implies_valid o i h
  rw [hf] at hf'; cases hf'; exact hne he

/-- a SigAlg without a Signature is rejected -/
theorem C06_sigalg_without_signature_rejected (o : Ora) (i : In) (form : Form) (hf : i.form = some form)
    (h1 : form.SigAlg ≠ "") (h2 : form.Sig = "") : ¬ accepted o i := by
  intro h
  obtain ⟨f, _, _, hf', _, hs, _⟩ := C06_accept_implies_valid o i h
  rw [hf] at hf'; cases hf'; exact hs ⟨h1, h2⟩

/-- an undecodable payload (bad base64 / DEFLATE / XML, unknown SAMLEncoding — everything that makes
    `DecodeAuthNRequest` fail) is rejected -/
theorem C06_undecodable_rejected (o : Ora) (i : In) (hd : i.decoded = none) : ¬ accepted o i := by
  intro h
  obtain ⟨_, _, _, _, _, _, hd', _⟩ := C06_accept_implies_valid o i h
  rw [hd] at hd'; cases hd'

/-- a request without Issuer, or whose Issuer is unknown to storage, is rejected -/
theorem C06_unregistered_issuer_rejected (o : Ora) (i : In) (hs : i.sp = none) : ¬ accepted o i := by
  intro h
  obtain ⟨_, _, _, _, _, _, _, hs', _⟩ := C06_accept_implies_valid o i h
  rw [hs] at hs'; cases hs'

/-- unparseable timestamps are rejected -/
theorem C06_unparseable_time_rejected (o : Ora) (i : In) (req : samlp_AuthnRequestType) (c : saml_ConditionsType)
    (hd : i.decoded = some req) (hc : req.Conditions = some c)
    (hbad : (c.NotBefore ≠ "" ∧ o.timeParse defaultTimeFormat c.NotBefore = none) ∨
            (c.NotOnOrAfter ≠ "" ∧ o.timeParse defaultTimeFormat c.NotOnOrAfter = none)) : ¬ accepted o i := by
  intro h
  obtain ⟨_, r, _, _, _, _, hd', _, _, _, _, _, ht⟩ := C06_accept_implies_valid o i h
  rw [hd] at hd'; cases hd'
  obtain ⟨t1, t2⟩ := ht c hc
  rcases hbad with ⟨hn, hp⟩ | ⟨hn, hp⟩
  · obtain ⟨t, htp, _⟩ := t1 hn; rw [hp] at htp; cases htp
  · obtain ⟨t, htp, _⟩ := t2 hn; rw [hp] at htp; cases htp

/-- a request outside its validity window is rejected (exact boundaries: NotBefore ≤ now < NotOnOrAfter) -/
theorem C06_outside_window_rejected (o : Ora) (i : In) (req : samlp_AuthnRequestType) (c : saml_ConditionsType)
    (hd : i.decoded = some req) (hc : req.Conditions = some c) (t : Int)
    (hbad : (c.NotBefore ≠ "" ∧ o.timeParse defaultTimeFormat c.NotBefore = some t ∧ o.now < t) ∨
            (c.NotOnOrAfter ≠ "" ∧ o.timeParse defaultTimeFormat c.NotOnOrAfter = some t ∧ t ≤ o.now)) : ¬ accepted o i := by
  intro h
  obtain ⟨_, r, _, _, _, _, hd', _, _, _, _, _, ht⟩ := C06_accept_implies_valid o i h
  rw [hd] at hd'; cases hd'
  obtain ⟨t1, t2⟩ := ht c hc
  rcases hbad with ⟨hn, hp, hlt⟩ | ⟨hn, hp, hle⟩
  · obtain ⟨t', htp, hle⟩ := t1 hn; rw [hp] at htp; cases htp; omega
  · obtain ⟨t', htp, hlt⟩ := t2 hn; rw [hp] at htp; cases htp; omega

/-! ## The default layout, concretely

  `time.Parse` is an oracle of the generated `checkIfRequestTimeIsStillValid`.  For the library's `DefaultTimeFormat`
  it is also modelled (`Lib.Time.parseDefault`, compared with `time.Parse` on a boundary corpus and some 10^4-10^5
  mutated strings on every run).  Under the hypothesis that the oracle is that function, "unparseable" and "the
  instant" become concrete. -/

/-- the `time.Parse` oracle answers as Go's parser does for the default layout (instants in nanoseconds) -/
def ParsesAsGo (o : Ora) : Prop :=
  ∀ s, o.timeParse defaultTimeFormat s = (Lib.Time.parseDefault s.toList).map Lib.Time.Instant.nanos

/-- an accepted request's Conditions carry timestamps of the supported lexical form whose instants bracket `now` -/
theorem C06_window_concrete (o : Ora) (i : In) (req : samlp_AuthnRequestType) (c : saml_ConditionsType) (hgo : ParsesAsGo o)
    (h : accepted o i) (hd : i.decoded = some req) (hc : req.Conditions = some c) :
    (c.NotBefore ≠ "" → ∃ t, Lib.Time.parseDefault c.NotBefore.toList = some t ∧ t.nanos ≤ o.now) ∧
    (c.NotOnOrAfter ≠ "" → ∃ t, Lib.Time.parseDefault c.NotOnOrAfter.toList = some t ∧ o.now < t.nanos) := by
  obtain ⟨_, r, _, _, _, _, hd', _, _, _, _, _, ht⟩ := C06_accept_implies_valid o i h
  rw [hd] at hd'; cases hd'
  obtain ⟨t1, t2⟩ := ht c hc
  constructor
  · intro hn
    obtain ⟨t, htp, hle⟩ := t1 hn
    rw [hgo] at htp
    cases hp : Lib.Time.parseDefault c.NotBefore.toList with
    | none => rw [hp] at htp; cases htp
    | some u => rw [hp] at htp; simp at htp; exact ⟨u, rfl, by omega⟩
  · intro hn
    obtain ⟨t, htp, hlt⟩ := t2 hn
    rw [hgo] at htp
    cases hp : Lib.Time.parseDefault c.NotOnOrAfter.toList with
    | none => rw [hp] at htp; cases htp
    | some u => rw [hp] at htp; simp at htp; exact ⟨u, rfl, by omega⟩

/-- `0001-01-01T00:00:00Z` is a timestamp like any other (Go's zero `time.Time`): a request that expired then is
    rejected at any time after 1970 -/
theorem C06_zero_time_is_expired (o : Ora) (i : In) (req : samlp_AuthnRequestType) (c : saml_ConditionsType) (hgo : ParsesAsGo o)
    (hd : i.decoded = some req) (hc : req.Conditions = some c) (hz : c.NotOnOrAfter = "0001-01-01T00:00:00Z") (hnow : 0 ≤ o.now) :
    ¬ accepted o i := by
  intro h
  obtain ⟨t, hp, hlt⟩ := (C06_window_concrete o i req c hgo h hd hc).2 (by rw [hz]; decide)
  have : Lib.Time.parseDefault c.NotOnOrAfter.toList = some { sec := -62135596800, nsec := 0 } := by rw [hz]; decide
  rw [this] at hp; cases hp
  simp [Lib.Time.Instant.nanos] at hlt
  omega

/-- lexical forms outside the layout are errors; forms inside it that one might not expect are accepted (regression
    table for the model; the same strings are in the corpus compared with `time.Parse`) -/
example :
    Lib.Time.parseDefault "2024-01-01T00:00:00+00:00".toList = none ∧ Lib.Time.parseDefault "2024-01-01T00:00:00".toList = none ∧
    Lib.Time.parseDefault "2024-01-01 00:00:00Z".toList = none ∧ Lib.Time.parseDefault "2023-02-29T00:00:00Z".toList = none ∧
    Lib.Time.parseDefault "2024-01-01T24:00:00Z".toList = none ∧ Lib.Time.parseDefault "2024-01-01T23:59:60Z".toList = none ∧
    (Lib.Time.parseDefault "2024-02-29T5:04:05,1234567891Z".toList).isSome ∧ (Lib.Time.parseDefault "1970-01-01T00:00:00Z".toList) = some ⟨0, 0⟩ := by
  decide

/-- `Lib.Time.parseDefault` was written from the `time` package of this toolchain -/
theorem C06_toolchain_current : FactsUtil.lookup Gen.Facts.deps "go" = "1.23.7" := by decide

/-- tie obligations of this property -/
theorem C06_source_current : True ∧ Consts.current = true :=
  ⟨sso_skeleton_current, consts_current⟩

/-- non-vacuity: a minimal valid unsigned Redirect request is accepted -/
def exampleOra : Ora where
  now := 100
  timeParse := fun _ _ => none
  m_ValidateRedirectSignature := fun _ _ _ _ _ => none
  m_ValidatePostSignature := fun _ _ => none
  urlParse := fun _ => none
  inflate := fun _ => {}
  m_GetResponseSigningKey := (none, none)
def exampleAcs : md_IndexedEndpointType := { Index := "1", Binding := postBinding, Location := "https://sp/acs" }
def exampleSPSSO : md_SPSSODescriptorType := { AuthnRequestsSigned := "false", AssertionConsumerService := [exampleAcs] }
def exampleSP : serviceprovider_ServiceProvider := { ID := "app", Metadata := some { EntityID := "sp", SPSSODescriptor := some exampleSPSSO } }
def exampleIdp : md_IDPSSODescriptorType := { WantAuthnRequestsSigned := "", SingleSignOnService := [{ Location := "https://idp/SSO" }] }
def exampleForm : Form := { AuthRequest := "abc", Binding := redirectBinding, RelayState := "r" }
def exampleReq : samlp_AuthnRequestType := { Id := "id1", Version := "2.0", Issuer := some { Text := "sp" } }
def exampleIn : In :=
  { idpMeta := some exampleIdp, form := some exampleForm, decoded := some exampleReq, sp := some exampleSP, createOk := true, createdID := "ar-1" }
example : (sso exampleOra exampleIn).out = .login "ar-1" := by decide

end C06
