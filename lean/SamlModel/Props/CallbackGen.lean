import SamlModel.Props.C03
set_option linter.unusedSimpArgs false
set_option linter.unusedVariables false
/-!
  Props.CallbackGen — `IdentityProvider.loginResponse` and `createSignature` are *translated* (go2lean regenerates them
  from login.go / response.go on every run, with `Done()`, the storage's user lookup, the key getter, `time.Now`,
  `NewID` and the two signing functions as typed oracles, the `*Response` parameter as an in-out value).  This file
  characterises the generated function branch by branch and links it to the hand-written callback model: whatever the
  generated code returns, `Callback.callback` fed from the same oracle answers replies with exactly that status /
  exactly that message.  The theorems of C01, C03 and C04 about the callback model are thereby theorems about the
  regenerated decision path; the remaining hand-modelled part of `callbackHandleFunc` is the straight-line prologue
  (form, id, `AuthRequestByID`, `GetEntityIDByAppID`) and the two `sendBackResponse` calls (fingerprinted).
-/
namespace CallbackGen
open Go Gen Consts

variable (o : Ora) (cfg : provider_IdentityProviderConfig) (fmt : String) (exp : Int) (resp : provider_Response)

/-- the identity provider value `loginResponse` reads: configuration, time layout, assertion lifetime -/
def idp : Option provider_IdentityProvider := some { conf := some cfg, storage := (), TimeFormat := fmt, Expiration := exp }

/-- `storage.SetUserinfoWithUserID(ctx, appID, attrs, userID, nil)`: the error and the attribute record it filled -/
def userinfo : Err × Option provider_Attributes := o.m_SetUserinfoWithUserID o.m_GetApplicationID o.m_GetUserID []

/-- (1) the Done() gate comes first: nothing else is consulted -/
theorem login_not_done (h : o.m_Done = false) :
    IdentityProvider_loginResponse o (idp cfg fmt exp) () (some resp) = .ok (none, some statusAuthnFailed, some resp) := by
  simp [IdentityProvider_loginResponse, IdentityProvider_loginResponse.body, Ctl.toRes, h, statusAuthnFailed]

/-- (2) user data could not be loaded -/
theorem login_userinfo_fails (h : o.m_Done = true) (hu : (userinfo o).1.isSome = true) :
    IdentityProvider_loginResponse o (idp cfg fmt exp) () (some resp) = .ok (none, some statusInvalidAttr, some resp) := by
  unfold userinfo at hu
  simp [IdentityProvider_loginResponse, IdentityProvider_loginResponse.body, Ctl.toRes, h, hu, statusInvalidAttr]


/-- (3) the response signing key is unusable -/
theorem login_key_fails (h : o.m_Done = true) (hu : (userinfo o).1 = none) (c : Lib.Bytes) (k : Option KeyRec) (e : String)
    (hk : getResponseCert o () = .ok (c, k, some e)) :
    IdentityProvider_loginResponse o (idp cfg fmt exp) () (some resp) = .ok (none, some statusInvalidAttr, some resp) := by
  unfold userinfo at hu
  simp [IdentityProvider_loginResponse, IdentityProvider_loginResponse.body, Ctl.toRes, h, hu, hk, statusInvalidAttr, idp, deref,
    Res.isPanic, Res.get]

/-- `createSignature`, redirect delivery, signing succeeded: signature and algorithm are put into the response -/
theorem createSignature_redirect_ok (r : samlp_ResponseType) (k : Option KeyRec) (c : Lib.Bytes) (alg sig a : String)
    (hb1 : resp.ProtocolBinding = "urn:oasis:names:tc:SAML:2.0:bindings:HTTP-Redirect") (hb2 : resp.AcsUrl ≠ "")
    (hs : o.f_createRedirectSignature (some r) k c alg resp.RelayState = (sig, a, none)) :
    createSignature o (some resp) (some r) k c alg = .ok (none, some { resp with Signature := sig, SigAlg := a }) := by
  simp [createSignature, createSignature.body, Ctl.toRes, deref, hb1, hb2, hs]

/-- … signing failed: the error wraps the signer's, the response is untouched -/
theorem createSignature_redirect_err (r : samlp_ResponseType) (k : Option KeyRec) (c : Lib.Bytes) (alg sig a e : String)
    (hb1 : resp.ProtocolBinding = "urn:oasis:names:tc:SAML:2.0:bindings:HTTP-Redirect") (hb2 : resp.AcsUrl ≠ "")
    (hs : o.f_createRedirectSignature (some r) k c alg resp.RelayState = (sig, a, some e)) :
    createSignature o (some resp) (some r) k c alg = .ok (some ("failed to sign response: " ++ e), some resp) := by
  simp [createSignature, createSignature.body, Ctl.toRes, deref, hb1, hb2, hs]

/-- any other delivery: the enveloped signature, the response untouched -/
theorem createSignature_post (r : samlp_ResponseType) (k : Option KeyRec) (c : Lib.Bytes) (alg : String)
    (hb : ¬(resp.ProtocolBinding = "urn:oasis:names:tc:SAML:2.0:bindings:HTTP-Redirect" ∧ ¬resp.AcsUrl = "")) :
    createSignature o (some resp) (some r) k c alg =
      .ok ((o.f_createPostSignature (some r) k c alg).map ("failed to sign response: " ++ ·), some resp) := by
  cases hs : o.f_createPostSignature (some r) k c alg <;>
  simp [createSignature, createSignature.body, Ctl.toRes, deref, hb, hs]

/-- the response `createSignature` hands back: with the query-string signature fields set for a redirect delivery -/
def signedResp (sig alg : String) : provider_Response := { resp with Signature := sig, SigAlg := alg }

/-- (4)/(5) the positive path: the generated success message `r`, then `createSignature`.  Redirect delivery
    (binding Redirect and a consumer URL): `createRedirectSignature` is consulted with the stored RelayState, its
    signature and algorithm are put into the response; otherwise `createPostSignature`.  A signing error gives status
    Responder and no message. -/
theorem login_positive (h : o.m_Done = true) (hu : (userinfo o).1 = none) (attrs : provider_Attributes)
    (ha : (userinfo o).2 = some attrs) (c : Lib.Bytes) (k : Option KeyRec) (hk : getResponseCert o () = .ok (c, k, none))
    (r : samlp_ResponseType) (hr : Response_makeSuccessfulResponse o (some resp) (some attrs) fmt exp = .ok (some r)) :
    IdentityProvider_loginResponse o (idp cfg fmt exp) () (some resp) =
      if resp.ProtocolBinding = redirectBinding ∧ resp.AcsUrl ≠ "" then
        match o.f_createRedirectSignature (some r) k c cfg.SignatureAlgorithm resp.RelayState with
        | (sig, alg, none) => .ok (some r, none, some (signedResp resp sig alg))
        | (_, _, some _) => .ok (none, some statusResponder, some resp)
      else
        match o.f_createPostSignature (some r) k c cfg.SignatureAlgorithm with
        | none => .ok (some r, none, some resp)
        | some _ => .ok (none, some statusResponder, some resp) := by
  unfold userinfo at hu ha
  by_cases hb : resp.ProtocolBinding = redirectBinding ∧ resp.AcsUrl ≠ ""
  · rw [if_pos hb]
    obtain ⟨hb1, hb2⟩ := hb
    have hb1' : resp.ProtocolBinding = "urn:oasis:names:tc:SAML:2.0:bindings:HTTP-Redirect" := hb1
    rcases hs : o.f_createRedirectSignature (some r) k c cfg.SignatureAlgorithm resp.RelayState with ⟨sig, alg, e⟩
    cases e with
    | none =>
      simp [IdentityProvider_loginResponse, IdentityProvider_loginResponse.body, createSignature_redirect_ok o resp r k c _ sig alg hb1' hb2 hs,
        Ctl.toRes, h, hu, ha, hk, hr, idp, deref, Res.isPanic, Res.get, signedResp]
    | some e =>
      simp [IdentityProvider_loginResponse, IdentityProvider_loginResponse.body, createSignature_redirect_err o resp r k c _ sig alg e hb1' hb2 hs,
        Ctl.toRes, h, hu, ha, hk, hr, idp, deref, Res.isPanic, Res.get, statusResponder]
  · rw [if_neg hb]
    have hcond : ¬(resp.ProtocolBinding = "urn:oasis:names:tc:SAML:2.0:bindings:HTTP-Redirect" ∧ ¬resp.AcsUrl = "") := hb
    cases hs : o.f_createPostSignature (some r) k c cfg.SignatureAlgorithm with
    | none =>
      simp [IdentityProvider_loginResponse, IdentityProvider_loginResponse.body, createSignature_post o resp r k c _ hcond,
        Ctl.toRes, h, hu, ha, hk, hr, idp, deref, Res.isPanic, Res.get, hs]
    | some e =>
      simp [IdentityProvider_loginResponse, IdentityProvider_loginResponse.body, createSignature_post o resp r k c _ hcond,
        Ctl.toRes, h, hu, ha, hk, hr, idp, deref, Res.isPanic, Res.get, hs, statusResponder]


/-! ### The callback model, fed from the same oracles -/

/-- the `Response` `callbackHandleFunc` has filled in when it calls `loginResponse` (login.go: Issuer from the
    context, the four delivery parameters from the stored request, Audience from `GetEntityIDByAppID`) -/
def respOf (issuer : String) (rec : Callback.Rec) (aud : String) : provider_Response :=
  { ProtocolBinding := rec.binding, RelayState := rec.relay, AcsUrl := rec.acs, Signature := "", SigAlg := "",
    RequestID := rec.reqID, Issuer := issuer, Audience := aud, SendIP := "" }

/-- the input of the callback model that corresponds to the oracle answers the generated code sees -/
def inOf (issuer id : String) (rec : Callback.Rec) (aud : String) (ids : Nat → String) : Callback.In :=
  { issuer := issuer, id := id, stored := some rec, entity := some aud,
    userinfo := if (userinfo o).1 = none then (userinfo o).2 else none,
    signOk :=
      match (userinfo o).2, getResponseCert o () with
      | some attrs, .ok (c, k, none) =>
        match Response_makeSuccessfulResponse o (some (respOf issuer rec aud)) (some attrs) fmt exp with
        | .ok (some r) =>
          if rec.binding = redirectBinding ∧ rec.acs ≠ "" then
            (o.f_createRedirectSignature (some r) k c cfg.SignatureAlgorithm rec.relay).2.2.isNone
          else (o.f_createPostSignature (some r) k c cfg.SignatureAlgorithm).isNone
        | _ => true
      | _, _ => true,
    issueInstant := o.m_Format o.now fmt, untilInstant := o.m_Format (o.now + exp) fmt, ids := ids }

/-- **whenever the generated `loginResponse` returns an error, the callback model answers with a failed Response whose
    status code is exactly that error text** (how `callbackHandleFunc` uses it), carrying no assertion, addressed with
    the stored delivery parameters, unsigned -/
theorem generated_failure (issuer id : String) (rec : Callback.Rec) (aud : String) (ids : Nat → String) (hid : id ≠ "")
    (hdone : o.m_Done = rec.done) (hsome : (userinfo o).1 = none → (userinfo o).2.isSome)
    (status : String) (r' : Option provider_Response)
    (hgen : IdentityProvider_loginResponse o (idp cfg fmt exp) () (some (respOf issuer rec aud)) = .ok (none, some status, r')) :
    ∃ m, Callback.callback o (inOf o cfg fmt exp issuer id rec aud ids) =
        .reply (Callback.deliver rec.acs rec.binding rec.relay) m .none ∧
      m.status = status ∧ m.assertion = none ∧ m.inResponseTo = rec.reqID ∧ m.destination = rec.acs ∧ m.issuer = issuer := by
  have hresp : (respOf issuer rec aud).SendIP = "" := rfl
  have hidb : (id == "") = false := by simpa using hid
  by_cases hd : rec.done = true
  · -- authentication completed
    have hdone' : o.m_Done = true := by rw [hdone]; exact hd
    cases hu : (userinfo o).1 with
    | some e =>
      rw [login_userinfo_fails o cfg fmt exp _ hdone' (by rw [hu]; rfl)] at hgen
      cases hgen
      refine ⟨Callback.failedMsg (inOf o cfg fmt exp issuer id rec aud ids) rec.reqID rec.acs statusInvalidAttr "failed to create response", ?_, rfl, rfl, rfl, rfl, rfl⟩
      simp [Callback.callback, inOf, hidb, hd, hu]
    | none =>
      obtain ⟨attrs, ha⟩ := Option.isSome_iff_exists.mp (hsome hu)
      cases hk : getResponseCert o () with
      | panic =>
        simp [IdentityProvider_loginResponse, IdentityProvider_loginResponse.body, Ctl.toRes, hdone', idp, deref, hk, Res.isPanic,
          show (o.m_SetUserinfoWithUserID o.m_GetApplicationID o.m_GetUserID []).1 = none from hu] at hgen
      | ok t =>
        obtain ⟨c, k, kerr⟩ := t
        cases kerr with
        | some e =>
          rw [login_key_fails o cfg fmt exp _ hdone' hu c k e hk] at hgen
          cases hgen
          refine ⟨Callback.failedMsg (inOf o cfg fmt exp issuer id rec aud ids) rec.reqID rec.acs statusInvalidAttr "failed to create response", ?_, rfl, rfl, rfl, rfl, rfl⟩
          simp [Callback.callback, inOf, hidb, hd, hu, ha, hk]
        | none =>
          obtain ⟨r, hr, _⟩ := C03.C03_success_message_is_generated o (inOf o cfg fmt exp issuer id rec aud (fun n => if n = 0 then o.newID "Response_makeAssertionResponse" 0 else o.newID "makeAssertion" 0))
            rec aud fmt exp attrs (respOf issuer rec aud) rfl rfl rfl rfl rfl rfl rfl rfl rfl
          rw [login_positive o cfg fmt exp _ hdone' hu attrs ha c k hk r hr] at hgen
          refine ⟨Callback.mkResponse (ids 2) rec.reqID rec.acs (o.m_Format o.now fmt) statusResponder "failed to create response" issuer, ?_, ?_, rfl, rfl, rfl, rfl⟩
          · -- the model's signOk is false exactly here
            have hb : ((respOf issuer rec aud).ProtocolBinding = redirectBinding ∧ (respOf issuer rec aud).AcsUrl ≠ "") ↔ (rec.binding = redirectBinding ∧ rec.acs ≠ "") := Iff.rfl
            by_cases hbr : rec.binding = redirectBinding ∧ rec.acs ≠ ""
            · rw [if_pos (hb.mpr hbr)] at hgen
              rcases hs : o.f_createRedirectSignature (some r) k c cfg.SignatureAlgorithm (respOf issuer rec aud).RelayState with ⟨sg, al, e⟩
              rw [hs] at hgen
              cases e with
              | none => simp at hgen
              | some e =>
                have hs' : (o.f_createRedirectSignature (some r) k c cfg.SignatureAlgorithm rec.relay).2.2 = some e := by
                  have : (respOf issuer rec aud).RelayState = rec.relay := rfl
                  rw [this] at hs; rw [hs]
                simp [Callback.callback, inOf, hidb, hd, hu, ha, hk, hr, hbr, hs', C03.getNameID_eq, C03.getSAML_eq]
            · rw [if_neg (fun h => hbr (hb.mp h))] at hgen
              cases hs : o.f_createPostSignature (some r) k c cfg.SignatureAlgorithm with
              | none => rw [hs] at hgen; simp at hgen
              | some e =>
                simp [Callback.callback, inOf, hidb, hd, hu, ha, hk, hr, hbr, hs, C03.getNameID_eq, C03.getSAML_eq]
          · -- status
            have hb : ((respOf issuer rec aud).ProtocolBinding = redirectBinding ∧ (respOf issuer rec aud).AcsUrl ≠ "") ↔ (rec.binding = redirectBinding ∧ rec.acs ≠ "") := Iff.rfl
            by_cases hbr : rec.binding = redirectBinding ∧ rec.acs ≠ ""
            · rw [if_pos (hb.mpr hbr)] at hgen
              rcases hs : o.f_createRedirectSignature (some r) k c cfg.SignatureAlgorithm (respOf issuer rec aud).RelayState with ⟨sg, al, e⟩
              rw [hs] at hgen
              cases e with
              | none => simp at hgen
              | some e => simp at hgen; simp [Callback.mkResponse, hgen.1]
            · rw [if_neg (fun h => hbr (hb.mp h))] at hgen
              cases hs : o.f_createPostSignature (some r) k c cfg.SignatureAlgorithm with
              | none => rw [hs] at hgen; simp at hgen
              | some e => rw [hs] at hgen; simp at hgen; simp [Callback.mkResponse, hgen.1]
  · -- the Done() gate
    have hd' : rec.done = false := by simpa using hd
    have hdone' : o.m_Done = false := by rw [hdone]; exact hd'
    rw [login_not_done o cfg fmt exp _ hdone'] at hgen
    cases hgen
    refine ⟨Callback.failedMsg (inOf o cfg fmt exp issuer id rec aud ids) rec.reqID rec.acs statusAuthnFailed "failed to create response", ?_, rfl, rfl, rfl, rfl, rfl⟩
    simp [Callback.callback, inOf, hidb, hd']


/-- **whenever the generated `loginResponse` returns a response, it is the Success message of the callback model**,
    signed in the style of the delivery: the callback model's reply carries exactly the message the generated builders
    produced (identifiers and instants as drawn by the generated code) -/
theorem generated_success (issuer id : String) (rec : Callback.Rec) (aud : String) (ids : Nat → String) (hid : id ≠ "")
    (hdone : o.m_Done = rec.done) (hsome : (userinfo o).1 = none → (userinfo o).2.isSome)
    (hid0 : ids 0 = o.newID "Response_makeAssertionResponse" 0) (hid1 : ids 1 = o.newID "makeAssertion" 0)
    (r : samlp_ResponseType) (r' : Option provider_Response)
    (hgen : IdentityProvider_loginResponse o (idp cfg fmt exp) () (some (respOf issuer rec aud)) = .ok (some r, none, r')) :
    Callback.callback o (inOf o cfg fmt exp issuer id rec aud ids) =
      .reply (Callback.deliver rec.acs rec.binding rec.relay) (Builders.msgOf r (Builders.assertionOf r.Assertion))
        (Callback.sigStyle rec.acs rec.binding) ∧ rec.done = true := by
  have hidb : (id == "") = false := by simpa using hid
  by_cases hd : rec.done = true
  · have hdone' : o.m_Done = true := by rw [hdone]; exact hd
    refine ⟨?_, hd⟩
    cases hu : (userinfo o).1 with
    | some e =>
      rw [login_userinfo_fails o cfg fmt exp _ hdone' (by rw [hu]; rfl)] at hgen
      cases hgen
    | none =>
      obtain ⟨attrs, ha⟩ := Option.isSome_iff_exists.mp (hsome hu)
      cases hk : getResponseCert o () with
      | panic =>
        simp [IdentityProvider_loginResponse, IdentityProvider_loginResponse.body, Ctl.toRes, hdone', idp, deref, hk, Res.isPanic,
          show (o.m_SetUserinfoWithUserID o.m_GetApplicationID o.m_GetUserID []).1 = none from hu] at hgen
      | ok t =>
        obtain ⟨c, k, kerr⟩ := t
        cases kerr with
        | some e =>
          rw [login_key_fails o cfg fmt exp _ hdone' hu c k e hk] at hgen
          cases hgen
        | none =>
          obtain ⟨r0, hr0, hm0⟩ := C03.C03_success_message_is_generated o (inOf o cfg fmt exp issuer id rec aud ids)
            rec aud fmt exp attrs (respOf issuer rec aud) rfl rfl rfl rfl rfl hid0 hid1 rfl rfl
          rw [login_positive o cfg fmt exp _ hdone' hu attrs ha c k hk r0 hr0] at hgen
          have hb : ((respOf issuer rec aud).ProtocolBinding = redirectBinding ∧ (respOf issuer rec aud).AcsUrl ≠ "") ↔ (rec.binding = redirectBinding ∧ rec.acs ≠ "") := Iff.rfl
          have hrel : (respOf issuer rec aud).RelayState = rec.relay := rfl
          by_cases hbr : rec.binding = redirectBinding ∧ rec.acs ≠ ""
          · rw [if_pos (hb.mpr hbr), hrel] at hgen
            rcases hs : o.f_createRedirectSignature (some r0) k c cfg.SignatureAlgorithm rec.relay with ⟨sg, al, e⟩
            rw [hs] at hgen
            cases e with
            | some e => simp at hgen
            | none =>
              simp at hgen
              obtain ⟨hrr, _⟩ := hgen
              subst hrr
              have hs' : (o.f_createRedirectSignature (some r0) k c cfg.SignatureAlgorithm rec.relay).2.2 = none := by rw [hs]
              simp [Callback.callback, inOf, hidb, hd, hu, ha, hk, hr0, hbr, hs', C03.getNameID_eq, C03.getSAML_eq]
              exact hm0.symm
          · rw [if_neg (fun h => hbr (hb.mp h))] at hgen
            cases hs : o.f_createPostSignature (some r0) k c cfg.SignatureAlgorithm with
            | some e => rw [hs] at hgen; simp at hgen
            | none =>
              rw [hs] at hgen
              simp at hgen
              obtain ⟨hrr, _⟩ := hgen
              subst hrr
              simp [Callback.callback, inOf, hidb, hd, hu, ha, hk, hr0, hbr, hs, C03.getNameID_eq, C03.getSAML_eq]
              exact hm0.symm
  · have hd' : rec.done = false := by simpa using hd
    have hdone' : o.m_Done = false := by rw [hdone]; exact hd'
    rw [login_not_done o cfg fmt exp _ hdone'] at hgen
    cases hgen

end CallbackGen
