import SamlModel.Lemmas.Redirect
import SamlModel.Generated.Funcs
set_option linter.unusedSimpArgs false
set_option linter.unusedVariables false
/-!
  Props.RedirectSigGen — `ServiceProvider.ValidateRedirectSignature` (serviceprovider.go) is *translated*: the octets the
  signature of a Redirect-binding AuthnRequest is checked over are assembled by the regenerated code
  (`url.QueryEscape` is `Lib.queryEscape`, `signature.ValidateRedirect` - the RSA / DSA verification - a typed oracle).

  * `validateRedirect_spec`: the regenerated function refuses when no signing key is registered or the Signature
    parameter is not base64, and otherwise asks the verifier about exactly `signedOctets request relayState sigAlg`.
  * `signedOctets_injective`: those octets determine the three values - a signature that verifies covers exactly the
    request content, the RelayState and the algorithm the endpoint then acts on (C05), nothing can be traded between them.
-/
namespace RedirectSigGen
open Go Gen Lib.Url Redirect

def kSAMLRequest : List Char := ['S', 'A', 'M', 'L', 'R', 'e', 'q', 'u', 'e', 's', 't']

/-- the octets over which a Redirect-binding request signature is checked (saml-bindings 3.4.4.1, request side) -/
def signedOctets (req relay alg : String) : List Char :=
  renderParams ((kSAMLRequest, E req) :: (opt kRelayState relay ++ [(kSigAlg, E alg)]))

/-- `url.QueryEscape` is injective -/
theorem E_inj (s t : String) (h : E s = E t) : s = t := by
  have hs := E_unescape s
  rw [h, E_unescape t] at hs
  have hl : t.toUTF8.toList = s.toUTF8.toList := by simpa using hs
  rw [ba_toList, ba_toList] at hl
  have hd : t.toUTF8.data = s.toUTF8.data := Array.toList_inj.mp hl
  have hb : t.toUTF8 = s.toUTF8 := by
    cases ht : t.toUTF8; cases hs' : s.toUTF8; simp_all
  exact (String.toByteArray_inj.mp hb).symm

/-- RelayState is signed iff its escaped form is not empty (`url.QueryEscape(relayState) != ""`) -/
def optRelay (relay : String) : List (List Char × List Char) :=
  if Lib.queryEscape relay ≠ "" then [(kRelayState, E relay)] else []

/-- the octets over which a Redirect-binding request signature is checked -/
def octets (req relay alg : String) : List Char :=
  renderParams ((kSAMLRequest, E req) :: (optRelay relay ++ [(kSigAlg, E alg)]))

theorem octets_params (req relay alg : String) :
    params (octets req relay alg) = (kSAMLRequest, E req) :: (optRelay relay ++ [(kSigAlg, E alg)]) := by
  apply params_render _ (by simp)
  intro p hp
  have hk : ∀ k ∈ [kSAMLRequest, kRelayState, kSigAlg], '=' ∉ k ∧ '&' ∉ k := by decide
  have hv : ∀ s, '&' ∉ E s := fun s hm => (E_clean s _ hm).1 rfl
  simp only [List.mem_cons, List.mem_append, optRelay] at hp
  rcases hp with rfl | hp | hp
  · exact ⟨(hk _ (by simp)).1, (hk _ (by simp)).2, hv _⟩
  · split at hp
    · simp only [List.mem_singleton] at hp; subst hp
      exact ⟨(hk _ (by simp)).1, (hk _ (by simp)).2, hv _⟩
    · simp at hp
  · simp only [List.mem_singleton, List.not_mem_nil, or_false] at hp; subst hp
    exact ⟨(hk _ (by simp)).1, (hk _ (by simp)).2, hv _⟩

/-- **the signed octets determine what was signed**: equal octets mean the same request content, the same algorithm and
    - whenever a RelayState is covered at all - the same RelayState; and a covered RelayState is never confused with an
    absent one -/
theorem octets_injective (r1 s1 a1 r2 s2 a2 : String) (h : octets r1 s1 a1 = octets r2 s2 a2) :
    r1 = r2 ∧ a1 = a2 ∧ optRelay s1 = optRelay s2 ∧ (Lib.queryEscape s1 ≠ "" → s1 = s2) := by
  have hp := congrArg params h
  rw [octets_params, octets_params] at hp
  have hk : kRelayState ≠ kSigAlg := by decide
  simp only [List.cons.injEq, Prod.mk.injEq, true_and] at hp
  obtain ⟨hr, hrest⟩ := hp
  have hr' := E_inj _ _ hr
  by_cases h1 : Lib.queryEscape s1 = "" <;> by_cases h2 : Lib.queryEscape s2 = "" <;>
    simp [optRelay, h1, h2, hk, hk.symm] at hrest ⊢
  · exact ⟨hr', E_inj _ _ hrest⟩
  · exact ⟨hr', E_inj _ _ hrest.2, hrest.1, E_inj _ _ hrest.1⟩

theorem octets_toString (req relay alg : String) :
    (if Lib.queryEscape relay ≠ "" then "SAMLRequest=" ++ Lib.queryEscape req ++ "&RelayState=" ++ Lib.queryEscape relay ++ "&SigAlg=" ++ Lib.queryEscape alg
     else "SAMLRequest=" ++ Lib.queryEscape req ++ "&SigAlg=" ++ Lib.queryEscape alg) = String.ofList (octets req relay alg) := by
  apply String.toList_inj.mp
  have k0 : "SAMLRequest=".toList = kSAMLRequest ++ ['='] := by decide
  by_cases h : Lib.queryEscape relay = ""
  · simp [octets, optRelay, h, renderParams, queryEscape_toList, k0, k4]
  · simp [octets, optRelay, h, renderParams, queryEscape_toList, k0, k2, k4]

/-- **`ValidateRedirectSignature` as regenerated from serviceprovider.go**: refuses without a registered key or with a
    Signature parameter that is not base64, and otherwise hands exactly `octets request relayState sigAlg`, the decoded
    signature and the registered key to the verifier -/
theorem validateRedirect_spec (o : Ora) (sp : serviceprovider_ServiceProvider) (req relay alg sig : String) :
    ServiceProvider_ValidateRedirectSignature o (some sp) req relay alg sig =
      .ok (if sp.signerPublicKey.isNone then some "error can not validate signature if no certificate is present for this service provider"
           else match Lib.b64decode sig with
             | none => some "base64"
             | some sv => o.f_ValidateRedirect alg (Lib.stringToBytes (String.ofList (octets req relay alg))) sv sp.signerPublicKey) := by
  unfold ServiceProvider_ValidateRedirectSignature ServiceProvider_ValidateRedirectSignature.body
  have ho := octets_toString req relay alg
  by_cases hk : sp.signerPublicKey.isNone = true
  · simp [deref, hk, Ctl.toRes]
  · by_cases hr : Lib.queryEscape relay = "" <;> cases hd : Lib.b64decode sig <;>
      simp [deref, hk, hr, hd, Ctl.toRes, ← ho]

end RedirectSigGen
