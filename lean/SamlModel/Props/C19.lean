import SamlModel.Generated.Funcs
import SamlModel.Model.FactsUtil
set_option linter.unusedSimpArgs false
set_option linter.unusedVariables false
/-!
  C19 — Issuer validation and derivation.  Theorems about the generated `ValidateIssuer`,
  `ValidateIssuerPath`, `devLocalAllowed`, `hasQueryOrFragment`, `dynamicIssuer` (context.go).
  `url.Parse` is an oracle (`o.urlParse`): its record is what `net/url` reports for the string.
-/
namespace C19
open Go Gen

theorem validatePath_eq (o : Ora) (u : UrlRec) :
    ValidateIssuerPath o (some u) = .ok (if u.Fragment != "" || u.RawQuery != "" || u.ForceQuery then some "no fragments or query allowed for issuer" else none) := by
  unfold ValidateIssuerPath ValidateIssuerPath.body
  by_cases h1 : u.Fragment = "" <;> by_cases h2 : u.RawQuery = "" <;> cases h3 : u.ForceQuery <;> simp [deref, h1, h2, h3, Ctl.toRes]

theorem devLocal_eq (o : Ora) (u : UrlRec) (insecure : Bool) :
    devLocalAllowed o (some u) insecure = .ok (insecure && u.Scheme == "http") := by
  unfold devLocalAllowed devLocalAllowed.body
  cases insecure <;> simp [deref, Ctl.toRes]

theorem hasQF_eq (o : Ora) (raw : String) : hasQueryOrFragment o raw = .ok (Lib.containsAny raw "?#") := by
  simp [hasQueryOrFragment, hasQueryOrFragment.body, Ctl.toRes]

/-- **C19 (static issuer).** `ValidateIssuer` succeeds only for a non-empty string that parses as a URL with a
    non-empty host name, scheme https (http only in insecure mode), and neither `?` nor `#` anywhere —
    hence no query and no fragment, not even an empty one. -/
theorem C19_static_only_if (o : Ora) (issuer : String) (insecure : Bool) (h : ValidateIssuer o issuer insecure = .ok none) :
    issuer ≠ "" ∧ ∃ u, o.urlParse issuer = some u ∧ u.hostname ≠ "" ∧
      (u.Scheme = "https" ∨ (insecure = true ∧ u.Scheme = "http")) ∧
      Lib.containsAny issuer "?#" = false ∧ u.Fragment = "" ∧ u.RawQuery = "" ∧ u.ForceQuery = false := by
  unfold ValidateIssuer ValidateIssuer.body at h
  by_cases h0 : issuer = ""
  · simp [h0, Ctl.toRes] at h
  cases hp : o.urlParse issuer with
  | none => simp [h0, hp, Ctl.toRes] at h
  | some u =>
    by_cases h1 : u.hostname = ""
    · simp [h0, hp, h1, deref, Ctl.toRes] at h
    by_cases h3 : Lib.containsAny issuer "?#" = true
    · by_cases h2 : u.Scheme = "https"
      · simp [h0, hp, h1, h2, h3, deref, devLocal_eq, hasQF_eq, validatePath_eq, Res.isPanic, Res.get, Ctl.toRes] at h
      · by_cases hi : (insecure && u.Scheme == "http") = true <;>
          simp [h0, hp, h1, h2, h3, hi, deref, devLocal_eq, hasQF_eq, validatePath_eq, Res.isPanic, Res.get, Ctl.toRes] at h
    have h3' : Lib.containsAny issuer "?#" = false := by simpa using h3
    by_cases h4 : (u.Fragment != "" || u.RawQuery != "" || u.ForceQuery) = true
    · by_cases h2 : u.Scheme = "https"
      · simp [h0, hp, h1, h2, h3', h4, deref, devLocal_eq, hasQF_eq, validatePath_eq, Res.isPanic, Res.get, Ctl.toRes] at h
      · by_cases hi : (insecure && u.Scheme == "http") = true <;>
          simp [h0, hp, h1, h2, h3', h4, hi, deref, devLocal_eq, hasQF_eq, validatePath_eq, Res.isPanic, Res.get, Ctl.toRes] at h
    have h4' : u.Fragment = "" ∧ u.RawQuery = "" ∧ u.ForceQuery = false := by
      simp at h4; exact ⟨h4.1.1, h4.1.2, h4.2⟩
    by_cases h2 : u.Scheme = "https"
    · exact ⟨h0, u, rfl, h1, Or.inl h2, h3', h4'.1, h4'.2.1, h4'.2.2⟩
    · by_cases hi : (insecure && u.Scheme == "http") = true
      · simp at hi
        exact ⟨h0, u, rfl, h1, Or.inr hi, h3', h4'.1, h4'.2.1, h4'.2.2⟩
      · simp [h0, hp, h1, h2, h3', hi, deref, devLocal_eq, hasQF_eq, validatePath_eq, Res.isPanic, Res.get, Ctl.toRes] at h

/-- validation never panics -/
theorem C19_validate_no_panic (o : Ora) (issuer : String) (insecure : Bool) : ValidateIssuer o issuer insecure ≠ .panic := by
  unfold ValidateIssuer ValidateIssuer.body
  by_cases h0 : issuer = ""
  · simp [h0, Ctl.toRes]
  cases hp : o.urlParse issuer with
  | none => simp [h0, hp, Ctl.toRes]
  | some u =>
    by_cases h1 : u.hostname = "" <;> by_cases h2 : u.Scheme = "https" <;> by_cases hi : (insecure && u.Scheme == "http") = true <;>
      by_cases h3 : Lib.containsAny issuer "?#" = true <;>
      by_cases h4 : (u.Fragment != "" || u.RawQuery != "" || u.ForceQuery) = true <;>
      simp [h0, hp, h1, h2, hi, h3, h4, deref, devLocal_eq, hasQF_eq, validatePath_eq, Res.isPanic, Res.get, Ctl.toRes]

/-- http is accepted only when insecure mode was explicitly enabled -/
theorem C19_http_needs_insecure (o : Ora) (issuer : String) (u : UrlRec) (hp : o.urlParse issuer = some u) (hs : u.Scheme ≠ "https") :
    ValidateIssuer o issuer false ≠ .ok none := by
  intro h
  obtain ⟨_, u', hu, _, hsch, _⟩ := C19_static_only_if o issuer false h
  rw [hp] at hu; cases hu
  rcases hsch with h1 | ⟨h1, _⟩
  · exact hs h1
  · cases h1

/-- the configured path, given a leading slash if it lacks one -/
def normPath (path : String) : String := if path ≠ "" ∧ Lib.hasPrefix path "/" = false then "/" ++ path else path

theorem goLen_pos (s : String) : (Lib.goLen s > 0) ↔ s ≠ "" := by
  unfold Lib.goLen
  constructor
  · intro h hs; subst hs; simp at h
  · intro h
    have : s.utf8ByteSize ≠ 0 := fun hz => h (String.utf8ByteSize_eq_zero_iff.mp hz)
    omega

/-- **C19 (derived issuer).** `dynamicIssuer host path insecure` is "https://" (or "http://" in insecure mode) + host
    + the configured path with a leading slash; nothing else enters. -/
theorem C19_dynamic_shape (o : Ora) (host path : String) (insecure : Bool) :
    dynamicIssuer o host path insecure = .ok ((if insecure then "http" else "https") ++ "://" ++ host ++ normPath path) := by
  unfold dynamicIssuer dynamicIssuer.body normPath
  by_cases hp : path = ""
  · subst hp; cases insecure <;> simp [Ctl.toRes, Lib.goLen]
  · have hpos : Lib.goLen path > 0 := (goLen_pos path).mpr hp
    by_cases hs : Lib.hasPrefix path "/" = true
    · cases insecure <;> simp [Ctl.toRes, hp, hpos, hs]
    · have hs' : Lib.hasPrefix path "/" = false := by simpa using hs
      cases insecure <;> simp [Ctl.toRes, hp, hpos, hs']

/-- the request contributes the host only: the derived issuer as a function of what `issuerFromForwardedOrHost`
    reads from the request — the first host of the configured forwarding headers if any, else `r.Host` -/
def derivedIssuer (o : Ora) (path : String) (insecure : Bool) (firstForwardedHost : Option String) (reqHost : String) : Res String :=
  dynamicIssuer o (firstForwardedHost.getD reqHost) path insecure

theorem C19_nothing_else_from_request (o o' : Ora) (path : String) (insecure : Bool) (fwd : Option String) (reqHost : String) :
    derivedIssuer o path insecure fwd reqHost = derivedIssuer o' path insecure fwd reqHost ∧
    (∃ s, derivedIssuer o path insecure fwd reqHost = .ok s ∧
      Lib.hasPrefix s (if insecure then "http://" else "https://") = true) := by
  unfold derivedIssuer
  rw [C19_dynamic_shape, C19_dynamic_shape]
  refine ⟨rfl, _, rfl, ?_⟩
  cases insecure <;> simp [Lib.hasPrefix, String.toList_append, List.append_assoc]

theorem C19_source_current :
    FactsUtil.sameHashes ["provider.NewProvider", "provider.IssuerInterceptor.setIssuerCtx", "provider.IssuerFromContext"] = true := by decide

/-- non-vacuity -/
def ora0 : Ora where
  now := 0
  timeParse := fun _ _ => none
  m_ValidateRedirectSignature := fun _ _ _ _ _ => none
  m_ValidatePostSignature := fun _ _ => none
  urlParse := fun s => if s == "https://idp/saml" then some { Scheme := "https", Host := "idp", hostname := "idp" }
    else if s == "https://idp/saml?" then some { Scheme := "https", Host := "idp", hostname := "idp", ForceQuery := true } else none
  inflate := fun _ => {}
  m_GetResponseSigningKey := (none, none)
example : ValidateIssuer ora0 "https://idp/saml" false = .ok none := by decide
example : ValidateIssuer ora0 "https://idp/saml?" false = .ok (some "no fragments or query allowed for issuer") := by decide
example : dynamicIssuer ora0 "h.example" "saml" true = .ok "http://h.example/saml" := by decide

end C19
