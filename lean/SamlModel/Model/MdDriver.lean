import SamlModel.Model.Metadata
import SamlModel.Generated.FnDriver
namespace MdDriver
open Tok Go Gen Metadata

def decEp (ts : List String) : Option (provider_Endpoint × List String) := (dec ts : Option (provider_Endpoint × _))

/-- `md <ora> <issuer> <6 endpoints: certificate callback sso slo attribute metadata>` →
    entityID, sso, slo, attribute, certificate locations, then the six routes -/
def run (ts : List String) : Option String := do
  let (o, ts) ← decOra ts
  let (issuer, ts) ← (dec ts : Option (String × _))
  let (e1, ts) ← decEp ts
  let (e2, ts) ← decEp ts
  let (e3, ts) ← decEp ts
  let (e4, ts) ← decEp ts
  let (e5, ts) ← decEp ts
  let (e6, ts) ← decEp ts
  if !ts.isEmpty then none else
  let c : Cfg := { endpoints := { certificate := e1, callback := e2, singleSignOn := e3, singleLogout := e4, attributeEp := e5, metadataEp := e6 } }
  pure (" ".intercalate (enc (entityID o c issuer) ++ enc (abs o e3 issuer) ++ enc (abs o e4 issuer) ++ enc (abs o e5 issuer) ++ enc (abs o e1 issuer) ++
    ((routes o c).flatMap fun r => enc r.1)))

end MdDriver
