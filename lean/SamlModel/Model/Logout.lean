import SamlModel.Generated.Funcs
import SamlModel.Model.Consts
/-!
  Model.Logout — `logoutHandleFunc` and the LogoutResponse builders (logout.go, logout_response.go):
  five chain steps (tie: `Gen.Facts.sloChain = Expected.sloChain`), the time window check is the
  generated `checkIfRequestTimeIsStillValid`.
-/
namespace Logout
open Go Gen Consts

structure LForm where
  LogoutRequest : String := ""
  Encoding : String := ""
  RelayState : String := ""
deriving Repr, DecidableEq, Inhabited

structure In where
  /-- IdP entity ID for this request -/
  issuer : String := ""
  timeFormat : String := defaultTimeFormat
  /-- `getLogoutRequestFromRequest`; `none` = form parse error -/
  form : Option LForm := none
  /-- `xml.DecodeLogoutRequest form.Encoding form.LogoutRequest`; `none` = error -/
  decoded : Option samlp_LogoutRequestType := none
  /-- `storage.GetEntityByID issuer`; `none` = error -/
  sp : Option serviceprovider_ServiceProvider := none
  issueInstant : String := ""
  newID : String := ""
deriving Repr, Inhabited

structure Msg where
  id : String
  inResponseTo : String
  destination : String
  issueInstant : String
  status : String
  issuer : String
deriving Repr, DecidableEq

inductive Delivery where
  | xmlBody
  | postForm (action relay : String)
deriving Repr, DecidableEq

inductive Out where
  | panic
  | reply (d : Delivery) (m : Msg)
deriving Repr, DecidableEq

/-- `makeLogoutResponse` -/
def mkMsg (i : In) (reqID url status : String) : Msg :=
  { id := i.newID, inResponseTo := reqID, destination := url, issueInstant := i.issueInstant, status := status, issuer := i.issuer }

/-- `sendBackLogoutResponse` -/
def deliver (url relay : String) : Delivery := if url == "" then .xmlBody else .postForm url relay

/-- the first registered SingleLogoutService location ("" when none) -/
def firstSlo (d : md_SPSSODescriptorType) : String :=
  match d.SingleLogoutService with
  | [] => ""
  | e :: _ => e.Location

def logout (o : Ora) (i : In) : Out :=
  -- failure callbacks run before the logout URL is known: failed responses are written into the HTTP body
  let failed (reqID : String) : Out := .reply .xmlBody (mkMsg i reqID "" statusRequestDenied)
  match i.form with
  | none => failed ""
  | some form =>
  match i.decoded with
  | none => failed ""
  | some req =>
  match checkIfRequestTimeIsStillValid o req.IssueInstant req.NotOnOrAfter i.timeFormat with
  | .panic => .panic
  | .ok terr =>
  if terr.isSome then failed req.Id else
  match req.Issuer with
  | none => failed req.Id
  | some _ =>
  match i.sp with
  | none => failed req.Id
  | some sp =>
  match sp.Metadata with
  | none => .panic
  | some m =>
  match m.SPSSODescriptor with
  | none => .panic
  | some d =>
    let url := firstSlo d
    .reply (deliver url form.RelayState) (mkMsg i req.Id url statusSuccess)

end Logout
