import SamlModel.Generated.Funcs
import SamlModel.Model.Consts
import SamlModel.Model.Sso
/-!
  Model.AttrQuery — `attributeQueryHandleFunc` (attribute_query.go) and the filter of
  `makeAttributeQueryResponse` (response.go): eight chain steps (tie: `Gen.Facts.aqChain`), every
  failure is an HTTP 500; certificate check, destination check, key check and the attribute list are
  the generated definitions.
-/
namespace AttrQuery
open Go Gen Consts

structure In where
  issuer : String := ""
  /-- reading the request body failed -/
  bodyErr : Bool := false
  /-- `GetMetadata` failed before the chain -/
  metaErr : Bool := false
  aaMeta : Option md_AttributeAuthorityDescriptorType := none
  /-- `xml.DecodeAttributeQuery`: `none` = error, `some none` = an envelope without AttributeQuery -/
  decoded : Option (Option samlp_AttributeQueryType) := none
  /-- `storage.GetEntityByID issuer` -/
  sp : Option serviceprovider_ServiceProvider := none
  /-- `sp.ValidateAttributeQuerySignature request` returns nil -/
  sigOk : Bool := false
  /-- `storage.SetUserinfoWithLoginName subject`: `none` = error -/
  userinfo : Option provider_Attributes := none
  /-- `createPostSignature` succeeds -/
  signOk : Bool := true
deriving Repr, Inhabited

/-- the filter of `makeAttributeQueryResponse`: every attribute of the user once per requested attribute with the
    same Name and NameFormat; all attributes when nothing is requested -/
def filterAttrs (attrs : List (Option saml_AttributeType)) (queried : List saml_AttributeType) : List (Option saml_AttributeType) :=
  if queried.isEmpty then attrs
  else attrs.flatMap fun a =>
    queried.filterMap fun q =>
      match a with
      | none => none
      | some av => if av.Name == q.Name && av.NameFormat == q.NameFormat then some a else none

structure Answer where
  inResponseTo : String
  issuer : String
  audience : String
  nameID : Option saml_NameIDType
  attributes : List (Option saml_AttributeType)
  /-- argument of `SetUserinfoWithLoginName` -/
  lookedUp : String
deriving Repr, DecidableEq

inductive Out where
  | httpError (code : Nat)
  | panic
  /-- SOAP envelope with a Success response whose assertion carries an enveloped signature -/
  | answer (a : Answer)
deriving Repr, DecidableEq

def attrQuery (o : Ora) (i : In) : Out :=
  if i.metaErr then .httpError 500 else
  if i.bodyErr then .httpError 500 else
  match i.decoded with
  | none => .httpError 500
  | some none => .httpError 500
  | some (some q) =>
  match q.Issuer with
  | none => .httpError 500
  | some _ =>
  match i.sp with
  | none => .httpError 500
  | some sp =>
  match Sso.condStep (certificateCheckNecessary o q.Signature sp.Metadata) (checkCertificate o q.Signature sp.Metadata) with
  | .panic => .panic
  | .ok e4 =>
  if e4.isSome then .httpError 500 else
  match signaturePostProvided o q.Signature with
  | .panic => .panic
  | .ok provided =>
  if provided && !i.sigOk then .httpError 500 else
  match verifyRequestDestinationOfAttrQuery o i.aaMeta (some q) with
  | .panic => .panic
  | .ok e6 =>
  if e6.isSome then .httpError 500 else
  match q.Subject.NameID with
  | none => .httpError 500
  | some subj =>
  match i.userinfo with
  | none => .httpError 500
  | some attrs =>
  match ServiceProvider_GetEntityID o (some sp), Attributes_GetSAML o (some attrs), Attributes_GetNameID o (some attrs) with
  | .ok audience, .ok samlAttrs, .ok nameID =>
    match getResponseCert o () with
    | .panic => .panic
    | .ok (_, _, kerr) =>
    if kerr.isSome then .httpError 500 else
    if !i.signOk then .httpError 500 else
    .answer { inResponseTo := q.Id, issuer := i.issuer, audience := audience, nameID := nameID,
              attributes := filterAttrs samlAttrs q.Attribute, lookedUp := subj.Text }
  | _, _, _ => .panic

end AttrQuery
