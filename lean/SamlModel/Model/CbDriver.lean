import SamlModel.Model.Callback
import SamlModel.Model.SsoDriver
/-! `cb` op: run the callback model, print a canonical reply. -/
namespace CbDriver
open Tok Go Gen Callback

instance : Codec Rec where
  enc r := enc r.reqID ++ enc r.relay ++ enc r.binding ++ enc r.acs ++ enc r.appID ++ enc r.userID ++ enc r.done
  dec ts := do
    let (a, ts) ← (dec ts : Option (String × _))
    let (b, ts) ← (dec ts : Option (String × _))
    let (c, ts) ← (dec ts : Option (String × _))
    let (d, ts) ← (dec ts : Option (String × _))
    let (e, ts) ← (dec ts : Option (String × _))
    let (f, ts) ← (dec ts : Option (String × _))
    let (g, ts) ← (dec ts : Option (Bool × _))
    pure ({ reqID := a, relay := b, binding := c, acs := d, appID := e, userID := f, done := g }, ts)

def decIn (ts : List String) : Option (In × List String) := do
  let (issuer, ts) ← (dec ts : Option (String × _))
  let (parseErr, ts) ← (dec ts : Option (Bool × _))
  let (id, ts) ← (dec ts : Option (String × _))
  let (stored, ts) ← (dec ts : Option (Option Rec × _))
  let (storedErr, ts) ← (dec ts : Option (String × _))
  let (entity, ts) ← (dec ts : Option (Option String × _))
  let (userinfo, ts) ← (dec ts : Option (Option provider_Attributes × _))
  let (signOk, ts) ← (dec ts : Option (Bool × _))
  pure ({ issuer, parseErr, id, stored, storedErr, entity, userinfo, signOk, issueInstant := "t", untilInstant := "u",
          ids := fun n => s!"id#{n}" }, ts)

def showAttr : Option saml_AttributeType → List String
  | none => ["nil"]
  | some a => enc a.Name ++ enc a.NameFormat ++ enc a.FriendlyName ++ enc a.AttributeValue

def showSig : Sig → String
  | .none => "none" | .enveloped => "enveloped" | .query => "query"

def showOut : Out → String
  | .httpError c => s!"http {c}"
  | .panic => "panic"
  | .reply d m s =>
    let (kind, target, relay) := match d with
      | .xmlBody => ("xmlbody", "", "")
      | .postForm a r => ("post", a, r)
      | .redirect a r => ("redirect", a, r)
    let head := [kind] ++ enc target ++ enc relay ++ [SsoDriver.statusShort m.status] ++ enc m.inResponseTo ++ enc m.destination ++ enc m.issuer ++ [showSig s] ++ enc m.statusMessage
    let tail := match m.assertion with
      | none => ["A0"]
      | some a =>
        ["A1"] ++ enc ((a.nameID.map (·.Text)).getD "") ++ enc a.issuer ++ enc a.audiences ++ enc a.scInResponseTo ++ enc a.scRecipient ++
          [toString a.attributes.length] ++ a.attributes.flatMap showAttr ++
          [if a.notBefore == m.issueInstant && a.authnInstant == m.issueInstant && a.issueInstant == m.issueInstant && a.scNotOnOrAfter == a.notOnOrAfter && a.sessionIndex == a.id && a.id != m.id then "T1" else "T0"]
    " ".intercalate (head ++ tail)

def run (ts : List String) : Option String := do
  let (o, ts) ← decOra ts
  let (i, ts) ← decIn ts
  if !ts.isEmpty then none else
  pure (showOut (callback o i))

end CbDriver
