import SamlModel.Model.Expected
/-! Helpers to state "the source the hand-written model was written against is the source of today". -/
namespace FactsUtil

def lookup (tbl : List (String × String)) (k : String) : String :=
  ((tbl.find? (·.1 == k)).map (·.2)).getD "absent"

/-- the listed functions have the fingerprints recorded in `Expected` -/
def sameHashes (names : List String) : Bool :=
  names.all fun n => lookup Gen.Facts.funcHashes n == lookup Expected.funcHashes n && lookup Expected.funcHashes n != "absent"

def constOf (k : String) : String := lookup Gen.Facts.consts k

end FactsUtil
