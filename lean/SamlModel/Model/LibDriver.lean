import SamlModel.Props.RedirectSigGen
import SamlModel.Tok
import SamlModel.Lib.Strings
import SamlModel.Lib.Base64
import SamlModel.Lib.XmlEscape
import SamlModel.Lib.HtmlTok
import SamlModel.Generated.Facts
import SamlModel.Lib.Utf8
import SamlModel.Lib.XmlMarshal
import SamlModel.Lib.Url
import SamlModel.Lib.C14n
import SamlModel.Lib.Uuid
import SamlModel.Lib.Time
/-!
  `lib <fn> <args>`: the hand-written library models (Lib.*) as protocol operations, so that the harness can
  compare each of them with the Go function it stands for (strconv.Atoi, url.QueryEscape, strings.Fields,
  base64.StdEncoding, xml.EscapeText, html/template's escapers, an HTML tokenizer).
-/
namespace LibDriver
open Tok Lib Lib.Html Lib.HtmlTok

def encEvent : Event → String
  | .open n => "o:" ++ hexEncode n
  | .attr n v => "a:" ++ hexEncode n ++ ":" ++ hexEncode v
  | .openEnd s => if s then "e:1" else "e:0"
  | .close n => "c:" ++ hexEncode n

def encForm (f : FormRec) : String :=
  let o (x : Option Bytes) : String := match x with | some b => "+" ++ hexEncode b | none => "-"
  "form " ++ o f.action ++ " " ++ o f.method ++ " " ++ toString f.others ++ " " ++
    " ".intercalate (f.hidden.map fun (n, v) => hexEncode n ++ "=" ++ hexEncode v)

open Lib.Xml Lib.XmlMarshal in
/-- generic value: `s x<hex>` | `b 0|1` | `i n` | `n` | `r k v…` | `l k v…` -/
partial def decGVal : List String → Option (GVal × List String)
  | "s" :: t :: rest => do
    let (b, _) ← (dec [t] : Option (Bytes × _))
    pure (.str (Lib.Utf8.goRunes b), rest)
  | "b" :: "1" :: rest => some (.bool true, rest)
  | "b" :: "0" :: rest => some (.bool false, rest)
  | "i" :: n :: rest => n.toInt?.map fun i => (.int i, rest)
  | "n" :: rest => some (.nil, rest)
  | "r" :: k :: rest => do
    let n ← k.toNat?
    let (vs, rest) ← many n rest
    pure (.struct vs, rest)
  | "l" :: k :: rest => do
    let n ← k.toNat?
    let (vs, rest) ← many n rest
    pure (.list vs, rest)
  | _ => none
where
  many : Nat → List String → Option (GVals × List String)
    | 0, ts => some (.nil, ts)
    | n + 1, ts => do
      let (v, ts) ← decGVal ts
      let (vs, ts) ← many n ts
      pure (.cons v vs, ts)

open Lib.Xml in
def encXmlEv : Lib.Xml.Ev → String
  | .pi => "pi"
  | .open n => "o:" ++ hexEncode (Lib.Utf8.encode n)
  | .attr n v => "a:" ++ hexEncode (Lib.Utf8.encode n) ++ ":" ++ hexEncode (Lib.Utf8.encode v)
  | .openEnd => "e"
  | .chr c => "t:" ++ hexEncode (Lib.Utf8.encode [c])
  | .close n => "c:" ++ hexEncode (Lib.Utf8.encode n)
  | .err => "err"

def run (ts : List String) : Option String :=
  match ts with
  | "page" :: which :: ts => do
    let (u, ts) ← (dec ts : Option (Bytes × _))
    let (r, ts) ← (dec ts : Option (Bytes × _))
    let (m, ts) ← (dec ts : Option (Bytes × _))
    if !ts.isEmpty then none else
    let lits ← (match which with
      | "post" => some Gen.Facts.postTemplateLits
      | "logout" => some Gen.Facts.logoutTemplateLits
      | _ => none)
    pure ("x" ++ hexEncode (page lits u r m))
  | "tok" :: ts => do
    let (sc, ts) ← (dec ts : Option (Bool × _))
    let (d, ts) ← (dec ts : Option (Bytes × _))
    if !ts.isEmpty then none else
    pure (" ".intercalate ((tokenize sc d).map encEvent))
  | "forms" :: ts => do
    let (sc, ts) ← (dec ts : Option (Bool × _))
    let (d, ts) ← (dec ts : Option (Bytes × _))
    if !ts.isEmpty then none else
    pure (" | ".intercalate ((formsOf (tokenize sc d)).map encForm))
  | "marshal" :: tname :: ts => do
    let (v, ts) ← decGVal ts
    if !ts.isEmpty then none else
    pure (match Lib.XmlMarshal.marshalDoc Gen.Schema.types tname v with
      | some d => "x" ++ hexEncode (Lib.Utf8.encode d)
      | none => "unsupported")
  | ["xmltok", t] => do
    let (b, _) ← (dec [t] : Option (Bytes × _))
    let evs := Lib.Xml.tokens (Lib.Utf8.goRunes b)
    pure (" ".intercalate (evs.map encXmlEv) ++ (if Lib.Xml.wellFormed evs then " WF" else " NOTWF"))
  | ["xmlescb", t] => do
    let (b, _) ← (dec [t] : Option (Bytes × _))
    pure ("x" ++ hexEncode (Lib.Utf8.encode (Lib.escapeChars (Lib.Utf8.goRunes b))))
  | ["attresc", t] => do
    let (v, _) ← (dec [t] : Option (Bytes × _))
    pure ("x" ++ hexEncode (attrEscape v))
  | ["urlattr", t] => do
    let (v, _) ← (dec [t] : Option (Bytes × _))
    pure ("x" ++ hexEncode (urlAttr v))
  | ["attrdec", t] => do
    let (v, _) ← (dec [t] : Option (Bytes × _))
    pure ("x" ++ hexEncode (decodeAttrValue v))
  | ["b64enc", t] => do
    let (v, _) ← (dec [t] : Option (Bytes × _))
    pure (" ".intercalate (enc (b64encode v)))
  | ["b64dec", t] => do
    let (s, _) ← (dec [t] : Option (String × _))
    pure (match b64decode s with
      | some b => "+ x" ++ hexEncode b
      | none => "-")
  | ["xmlesc", t] => do
    let (s, _) ← (dec [t] : Option (String × _))
    pure (" ".intercalate (enc (xmlEscape s)))
  | ["atoi", t] => do
    let (s, _) ← (dec [t] : Option (String × _))
    let (v, ok) := atoi s
    pure (toString v ++ " " ++ (if ok then "1" else "0"))
  | ["timeparse", t] => do
    -- time.Parse(DefaultTimeFormat, s): unix seconds and nanoseconds, or error
    let (s, _) ← (dec [t] : Option (String × _))
    pure (match Lib.Time.parseDefault s.toList with
      | some i => "+ " ++ toString i.sec ++ " " ++ toString i.nsec
      | none => "-")
  | ["uuid", t] => do
    let (b, _) ← (dec [t] : Option (Bytes × _))
    pure (" ".intercalate (enc (String.ofList (Lib.Uuid.newID b))) ++ (if Lib.Uuid.isXsID (Lib.Uuid.newID b) then " 1" else " 0"))
  | ["qunesc", t] => do
    let (s, _) ← (dec [t] : Option (String × _))
    pure (match Lib.Url.queryUnescape s.toList with
      | some b => "+ x" ++ hexEncode b
      | none => "-")
  | ["rverify", t] => do
    -- the §3.4.4.1 verifier of Lib.Url on a raw query
    let (s, _) ← (dec [t] : Option (String × _))
    pure (match Lib.Url.verify s.toList with
      | some v => "+ x" ++ hexEncode (String.ofList v.octets).toUTF8.toList ++ " x" ++ hexEncode v.alg ++ " x" ++ hexEncode v.sig
      | none => "-")
  | ["urlquery", t] => do
    -- what a URL parser takes as the query of a URL
    let (s, _) ← (dec [t] : Option (String × _))
    pure (" ".intercalate (enc (String.ofList (Lib.Url.urlQuery s.toList))))
  | ["redirurl", a, q] => do
    -- the redirect target sendBackResponse builds from consumer URL and query
    let (acs, _) ← (dec [a] : Option (String × _))
    let (qs, _) ← (dec [q] : Option (String × _))
    pure (" ".intercalate (enc (String.ofList (Lib.Url.redirectURL acs.toList qs.toList))))
  | ["c14n", t] => do
    -- canonical text / attribute value of a conformant verifier, the signer's rendering, and the two "clean" verdicts
    let (b, _) ← (dec [t] : Option (Bytes × _))
    let cs := Lib.Utf8.goRunes b
    pure ("x" ++ hexEncode (Lib.Utf8.encode (Lib.C14n.c14nText cs)) ++ " x" ++ hexEncode (Lib.Utf8.encode (Lib.C14n.c14nAttr cs)) ++
      " x" ++ hexEncode (Lib.Utf8.encode (Lib.C14n.signerText cs)) ++ " x" ++ hexEncode (Lib.Utf8.encode (Lib.C14n.signerAttr cs)) ++
      (if Lib.C14n.textClean cs then " 1" else " 0") ++ (if Lib.C14n.attrClean cs then " 1" else " 0"))
  | ["byteidx", a, b] => do
    -- strings.Index(s, c) for a one-character ASCII c, then s[:i] and s[i:] (when i >= 0) and strings.Contains
    let (s, _) ← (dec [a] : Option (String × _))
    let (cs, _) ← (dec [b] : Option (String × _))
    match cs.toList with
    | [c] =>
      let i := indexChar s c
      if i < 0 then pure (toString i ++ " " ++ (if s.toList.contains c then "1" else "0"))
      else pure (toString i ++ " " ++ (if s.toList.contains c then "1" else "0") ++ " " ++ " ".intercalate (enc (byteTake s i) ++ enc (byteDrop s i)))
    | _ => none
  | ["reqoctets", a, b, c] => do
    -- the octets the regenerated ServiceProvider.ValidateRedirectSignature hands to the verifier (RedirectSigGen.octets)
    let (req, _) ← (dec [a] : Option (String × _))
    let (relay, _) ← (dec [b] : Option (String × _))
    let (alg, _) ← (dec [c] : Option (String × _))
    pure (" ".intercalate (enc (String.ofList (RedirectSigGen.octets req relay alg))))
  | ["qesc", t] => do
    let (s, _) ← (dec [t] : Option (String × _))
    pure (" ".intercalate (enc (queryEscape s)))
  | ["fields", t] => do
    let (s, _) ← (dec [t] : Option (String × _))
    pure (" ".intercalate (enc (fields s)))
  | ["trimprefix", a, b] => do
    let (s, _) ← (dec [a] : Option (String × _))
    let (p, _) ← (dec [b] : Option (String × _))
    pure (" ".intercalate (enc (trimPrefix s p) ++ enc (trimSuffix s p) ++ enc (hasPrefix s p) ++ enc (hasSuffix s p)))
  | _ => none

end LibDriver
