-- Snapshot written by tools/update_expected.py; compared with Gen.Facts by the *_source_current theorems.
import SamlModel.Generated.Facts
namespace Expected
open Gen.Facts

def funcHashes : List (String × String) := [
  ("provider.IdentityProvider.callbackHandleFunc", "636c7715f1e361ec"),
  ("provider.IdentityProvider.loginResponse", "98152b496cd27d27"),
  ("provider.IdentityProvider.errorResponse", "36e97fa86262a93a"),
  ("provider.Response.sendBackResponse", "1a525b7bf734bd74"),
  ("provider.createSignature", "c82c7fa2a02ee920"),
  ("provider.createPostSignature", "63abb0ce7bc8d709"),
  ("provider.createRedirectSignature", "28c3d516d478f83a"),
  ("provider.Response.makeFailedResponse", "dfcc74e197631e19"),
  ("provider.Response.makeSuccessfulResponse", "df93754e5af2b523"),
  ("provider.Response.makeAssertionResponse", "b1a9d567ce552003"),
  ("provider.makeAttributeQueryResponse", "dc58d1260ea4f131"),
  ("provider.makeAssertion", "bd8b346c3395d76f"),
  ("provider.makeResponse", "f62b3d560f95dc67"),
  ("provider.getIssuer", "cb5ee625b1b06b81"),
  ("provider.LogoutResponse.sendBackLogoutResponse", "1e0d9bc86319a654"),
  ("provider.LogoutResponse.makeFailedLogoutResponse", "a76baf7472fec33f"),
  ("provider.LogoutResponse.makeSuccessfulLogoutResponse", "a427b98e74995523"),
  ("provider.makeLogoutResponse", "a675d5649d30eb6f"),
  ("provider.getAuthRequestFromRequest", "b2cb4b9adedc17cc"),
  ("provider.getLogoutRequestFromRequest", "b33cb62b475f2797"),
  ("provider.verifyPostSignature", "4ee00ad1f9f5c5c5"),
  ("provider.IdentityProvider.GetMetadata", "5080bbc904a22921"),
  ("provider.IdentityProvider.GetEntityID", "79c6ea89b28ee605"),
  ("provider.IdentityProvider.GetRoutes", "22f0f3685d852c95"),
  ("provider.IdentityProvider.GetServiceProvider", "7de5e04c09cf24ad"),
  ("provider.IdentityProvider.certificateHandleFunc", "1fbec9a4a0a00a13"),
  ("provider.IdentityProviderConfig.getMetadata", "f32db56ba7c6f926"),
  ("provider.Config.getMetadata", "fea4a979e8982a82"),
  ("provider.Provider.GetMetadata", "a27527b186082fd9"),
  ("provider.Provider.metadataHandle", "0fc2ad245ec7d6e4"),
  ("provider.getMetadataCert", "e357009fdf6a2058"),
  ("provider.CreateRouter", "3288756f8d4855fd"),
  ("provider.NewProvider", "1df52f88b4831174"),
  ("provider.NewIdentityProvider", "d8b36fe2a888eaa3"),
  ("provider.endpointConfigToEndpoints", "16d589fc65e7763e"),
  ("provider.NewID", "a5316cc1d451616f"),
  ("provider.Readiness", "67e31901a1be8672"),
  ("provider.ReadyStorage", "56e1d6f23d31eb42"),
  ("provider.issuerFromForwardedOrHost", "6a33fdc46a67bd21"),
  ("provider.hostFromForwarded", "065d05d473ed26b2"),
  ("provider.StaticIssuer", "00add1aeeac7650d"),
  ("provider.IssuerFromContext", "10346d72461c0720"),
  ("provider.IssuerInterceptor.setIssuerCtx", "eeb9dd9f15315394"),
  ("provider.intercept", "65bd78a5706fcde7"),
  ("checker.Checker.CheckFailed", "c42c80c9470f43d0"),
  ("checker.Checker.addStep", "609b8a07bb445571"),
  ("checker.Checker.WithValueNotEmptyCheck", "9321a78769c71812"),
  ("checker.Checker.WithValuesNotEmptyCheck", "9a37523b9cdf7065"),
  ("checker.Checker.WithValueLengthCheck", "40fce41f8eed533b"),
  ("checker.Checker.WithValueEqualsCheck", "cb8b98cc18765f08"),
  ("checker.Checker.WithConditionalValueNotEmpty", "056efe2a593ece3b"),
  ("checker.Checker.WithConditionalLogicStep", "45abbedcd5c97e16"),
  ("checker.Checker.WithLogicStep", "1f32d72fffe8b59a"),
  ("checker.Checker.WithValueStep", "746e7cc31865a65f"),
  ("xml.Marshal", "de795f45661ea22c"),
  ("xml.DeflateAndBase64", "1244861d4e33b7e3"),
  ("xml.WriteXMLMarshalled", "4af105bd6646b0ed"),
  ("xml.Write", "fba6fa932c04ebee"),
  ("xml.DecodeAuthNRequest", "29a3c601aa164e8e"),
  ("xml.DecodeAttributeQuery", "d8d099a637c4939c"),
  ("xml.DecodeLogoutRequest", "af76d00bf6b01921"),
  ("serviceprovider.ServiceProvider.ValidatePostSignature", "a001037d705afe90"),
  ("serviceprovider.ServiceProvider.ValidateRedirectSignature", "7ec17590afe8ccc0"),
  ("serviceprovider.NewServiceProvider", "749d0d9066f79ae5"),
  ("serviceprovider.getSigningCertsFromMetadata", "b193dc584a035161"),
  ("signature.ValidateRedirect", "431ef443a529a2a0"),
  ("signature.ValidatePost", "8fad1d15a4e01ede"),
  ("signature.verifyDSA", "94fae0aad5dfc86a"),
  ("signature.Create", "695e25f35b0a9e86"),
  ("signature.GetSigner", "f1040a9716268ef5"),
  ("signature.ParseCertificates", "ed5bbe2c035b43c5")
]

def ssoChain : Chain := {
  steps := [
    { kind := "WithLogicStep", calls := ["getAuthRequestFromRequest"], fail := "saml:StatusCodeRequestDenied", hash := "6d1e0e84d14bd754" },
    { kind := "WithValueNotEmptyCheck", calls := [], fail := "saml:StatusCodeRequestDenied", hash := "aa6dd7cdc496248d" },
    { kind := "WithConditionalValueNotEmpty", calls := [], fail := "saml:StatusCodeRequestDenied", hash := "aa191bd0a0491350" },
    { kind := "WithLogicStep", calls := ["xml.DecodeAuthNRequest"], fail := "saml:StatusCodeRequestDenied", hash := "9db311d7d45ed307" },
    { kind := "WithLogicStep", calls := ["p.GetServiceProvider", "sp.GetEntityID"], fail := "saml:StatusCodeRequestDenied", hash := "f5f16f0dd2b96765" },
    { kind := "WithConditionalLogicStep", calls := ["certificateCheckNecessary", "checkCertificate"], fail := "saml:StatusCodeRequestDenied", hash := "1d68e00dbf0c5bb5" },
    { kind := "WithConditionalLogicStep", calls := ["signatureRedirectVerificationNecessary", "verifyRedirectSignature"], fail := "saml:StatusCodeRequestDenied", hash := "871729f82d7c9e60" },
    { kind := "WithConditionalLogicStep", calls := ["signaturePostVerificationNecessary", "verifyPostSignature"], fail := "saml:StatusCodeRequestDenied", hash := "efba847eb941b37f" },
    { kind := "WithLogicStep", calls := ["signaturePostProvided((func() *xml_dsig.SignatureType literal))", "signaturePostProvided"], fail := "saml:StatusCodeRequestDenied", hash := "7a51de5648904e70" },
    { kind := "WithValueStep", calls := ["GetAcsUrlAndBindingForResponse"], fail := "", hash := "4ab736a2c4f73210" },
    { kind := "WithValueNotEmptyCheck", calls := [], fail := "saml:StatusCodeUnsupportedBinding", hash := "d1ec2ad52822da77" },
    { kind := "WithValueNotEmptyCheck", calls := [], fail := "saml:StatusCodeUnsupportedBinding", hash := "4ade47dba013821c" },
    { kind := "WithLogicStep", calls := [], fail := "saml:StatusCodeUnsupportedBinding", hash := "fb86fd4708b121b2" },
    { kind := "WithLogicStep", calls := ["checkRequestRequiredContent"], fail := "saml:StatusCodeRequestDenied", hash := "feb0e0a8e2b4b333" },
    { kind := "WithLogicStep", calls := ["p.storage.CreateAuthRequest"], fail := "saml:StatusCodeResponder", hash := "4331612103638966" }
  ],
  pre := "0f0fd2f0b1e24eb6",
  post := "6ee89733f83442d2" }

def sloChain : Chain := {
  steps := [
    { kind := "WithLogicStep", calls := ["getLogoutRequestFromRequest"], fail := "logout:StatusCodeRequestDenied", hash := "916161946aab0004" },
    { kind := "WithLogicStep", calls := ["xml.DecodeLogoutRequest"], fail := "logout:StatusCodeRequestDenied", hash := "bf80b24fe133afc3" },
    { kind := "WithLogicStep", calls := ["checkIfRequestTimeIsStillValid"], fail := "logout:StatusCodeRequestDenied", hash := "3a8a3606a8d892b2" },
    { kind := "WithLogicStep", calls := ["p.GetServiceProvider"], fail := "logout:StatusCodeRequestDenied", hash := "fc62e37cee0725a7" },
    { kind := "WithValueStep", calls := [], fail := "", hash := "156de38ef1cd996e" }
  ],
  pre := "f3e583c7db75ebc9",
  post := "bd570e7b4b670cb7" }

def aqChain : Chain := {
  steps := [
    { kind := "WithLogicStep", calls := ["ioutil.ReadAll", "string"], fail := "http:http.StatusInternalServerError", hash := "fab5e09eba8e40dc" },
    { kind := "WithLogicStep", calls := ["xml.DecodeAttributeQuery"], fail := "http:http.StatusInternalServerError", hash := "964b4551df96acd1" },
    { kind := "WithLogicStep", calls := ["p.GetServiceProvider"], fail := "http:http.StatusInternalServerError", hash := "207663917e909bc0" },
    { kind := "WithConditionalLogicStep", calls := ["certificateCheckNecessary", "checkCertificate"], fail := "http:http.StatusInternalServerError", hash := "a4ef47b05e81e2c9" },
    { kind := "WithConditionalLogicStep", calls := ["signaturePostProvided", "sp.ValidateAttributeQuerySignature"], fail := "http:http.StatusInternalServerError", hash := "ad6ba0ee25cb797f" },
    { kind := "WithLogicStep", calls := ["verifyRequestDestinationOfAttrQuery"], fail := "http:http.StatusInternalServerError", hash := "31501dfdb99f8aaf" },
    { kind := "WithLogicStep", calls := ["p.storage.SetUserinfoWithLoginName", "make", "append", "makeAttributeQueryResponse", "p.GetEntityID", "sp.GetEntityID"], fail := "http:http.StatusInternalServerError", hash := "011e4c0781c91026" },
    { kind := "WithLogicStep", calls := ["getResponseCert", "createPostSignature"], fail := "http:http.StatusInternalServerError", hash := "6408089480a02166" }
  ],
  pre := "5beaeee6241db7b2",
  post := "8108d4a3ce746038" }

def consts : List (String × String) := [
  ("StatusCodeSuccess", "urn:oasis:names:tc:SAML:2.0:status:Success"),
  ("StatusCodeVersionMissmatch", "urn:oasis:names:tc:SAML:2.0:status:VersionMismatch"),
  ("StatusCodeAuthNFailed", "urn:oasis:names:tc:SAML:2.0:status:AuthnFailed"),
  ("StatusCodeInvalidAttrNameOrValue", "urn:oasis:names:tc:SAML:2.0:status:InvalidAttrNameOrValue"),
  ("StatusCodeInvalidNameIDPolicy", "urn:oasis:names:tc:SAML:2.0:status:InvalidNameIDPolicy"),
  ("StatusCodeRequestDenied", "urn:oasis:names:tc:SAML:2.0:status:RequestDenied"),
  ("StatusCodeRequestUnsupported", "urn:oasis:names:tc:SAML:2.0:status:RequestUnsupported"),
  ("StatusCodeUnsupportedBinding", "urn:oasis:names:tc:SAML:2.0:status:UnsupportedBinding"),
  ("StatusCodeResponder", "urn:oasis:names:tc:SAML:2.0:status:Responder"),
  ("StatusCodePartialLogout", "urn:oasis:names:tc:SAML:2.0:status:PartialLogout"),
  ("DefaultTimeFormat", "2006-01-02T15:04:05.999999Z"),
  ("PostBinding", "urn:oasis:names:tc:SAML:2.0:bindings:HTTP-POST"),
  ("RedirectBinding", "urn:oasis:names:tc:SAML:2.0:bindings:HTTP-Redirect"),
  ("DefaultMetadataEndpoint", "/metadata"),
  ("DefaultCertificateEndpoint", "certificate"),
  ("DefaultCallbackEndpoint", "login"),
  ("DefaultSingleSignOnEndpoint", "SSO"),
  ("DefaultSingleLogOutEndpoint", "SLO"),
  ("DefaultAttributeEndpoint", "attribute"),
  ("healthEndpoint", "/healthz"),
  ("readinessEndpoint", "/ready"),
  ("EncodingDeflate", "urn:oasis:names:tc:SAML:2.0:bindings:URL-Encoding:DEFLATE")
]

def templatePkg : String := "html/template"

def deps : List (String × String) := [("go", "1.23.7"), ("github.com/amdonov/xmlsig", "v0.1.0"), ("github.com/beevik/etree", "v1.3.0"), ("github.com/google/uuid", "v1.6.0"), ("github.com/gorilla/mux", "v1.8.1"), ("github.com/muhlemmer/httpforwarded", "v0.1.0"), ("github.com/russellhaering/goxmldsig", "v1.4.0")]

def handlerReachableWrites : List (String × String × Bool) := []

end Expected
