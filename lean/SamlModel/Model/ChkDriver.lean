import SamlModel.Exec.C20
import SamlModel.Tok
/-! `chk` op: run the checker model on a program, twice (re-evaluation), print verdicts and traces. -/
namespace ChkDriver
open Tok C20

instance : Codec StepDesc where
  enc
    | .notEmpty v => "0" :: enc v
    | .valuesNotEmpty vs => "1" :: enc vs
    | .length v mn mx => "2" :: (enc v ++ enc mn ++ enc mx)
    | .equals v e => "3" :: (enc v ++ enc e)
    | .condNotEmpty c v => "4" :: (enc c ++ enc v)
    | .condLogic c e => "5" :: (enc c ++ enc e)
    | .logic e => "6" :: enc e
    | .valueStep => ["7"]
  dec
    | "0" :: ts => do let (v, ts) ← (dec ts : Option (String × _)); pure (.notEmpty v, ts)
    | "1" :: ts => do let (v, ts) ← (dec ts : Option (List String × _)); pure (.valuesNotEmpty v, ts)
    | "2" :: ts => do
      let (v, ts) ← (dec ts : Option (String × _))
      let (a, ts) ← (dec ts : Option (Int × _))
      let (b, ts) ← (dec ts : Option (Int × _))
      pure (.length v a b, ts)
    | "3" :: ts => do
      let (v, ts) ← (dec ts : Option (String × _))
      let (e, ts) ← (dec ts : Option (String × _))
      pure (.equals v e, ts)
    | "4" :: ts => do
      let (c, ts) ← (dec ts : Option (Bool × _))
      let (v, ts) ← (dec ts : Option (String × _))
      pure (.condNotEmpty c v, ts)
    | "5" :: ts => do
      let (c, ts) ← (dec ts : Option (Bool × _))
      let (e, ts) ← (dec ts : Option (Bool × _))
      pure (.condLogic c e, ts)
    | "6" :: ts => do let (e, ts) ← (dec ts : Option (Bool × _)); pure (.logic e, ts)
    | "7" :: ts => some (.valueStep, ts)
    | _ => none

def showTrace (t : Trace) : String := " ".intercalate (t.map fun e => toString e.step ++ ":" ++ e.role.name)

def run (ts : List String) : Option String := do
  let (prog, rest) ← (dec ts : Option (List StepDesc × _))
  if !rest.isEmpty then none else
  let c := build prog
  let r1 := Checker.checkFailed c []
  let r2 := Checker.checkFailed c []
  pure (s!"{if r1.1 then 1 else 0} [{showTrace r1.2}] {if r2.1 then 1 else 0} [{showTrace r2.2}] {if holdsOn prog then 1 else 0}")

end ChkDriver
