import SamlModel.Model.Logout
import SamlModel.Model.SsoDriver
namespace SloDriver
open Tok Go Gen Logout

instance : Codec LForm where
  enc f := enc f.LogoutRequest ++ enc f.Encoding ++ enc f.RelayState
  dec ts := do
    let (a, ts) ← (dec ts : Option (String × _))
    let (b, ts) ← (dec ts : Option (String × _))
    let (c, ts) ← (dec ts : Option (String × _))
    pure ({ LogoutRequest := a, Encoding := b, RelayState := c }, ts)

def decIn (ts : List String) : Option (In × List String) := do
  let (issuer, ts) ← (dec ts : Option (String × _))
  let (timeFormat, ts) ← (dec ts : Option (String × _))
  let (form, ts) ← (dec ts : Option (Option LForm × _))
  let (decoded, ts) ← (dec ts : Option (Option samlp_LogoutRequestType × _))
  let (sp, ts) ← (dec ts : Option (Option serviceprovider_ServiceProvider × _))
  pure ({ issuer, timeFormat, form, decoded, sp, issueInstant := "t", newID := "id#0" }, ts)

def showOut : Out → String
  | .panic => "panic"
  | .reply d m =>
    let (kind, target, relay) := match d with
      | .xmlBody => ("xmlbody", "", "")
      | .postForm a r => ("post", a, r)
    " ".intercalate ([kind] ++ enc target ++ enc relay ++ [SsoDriver.statusShort m.status] ++ enc m.inResponseTo ++ enc m.destination ++ enc m.issuer)

def run (ts : List String) : Option String := do
  let (o, ts) ← decOra ts
  let (i, ts) ← decIn ts
  if !ts.isEmpty then none else
  pure (showOut (logout o i))

end SloDriver
