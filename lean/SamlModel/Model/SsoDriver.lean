import SamlModel.Model.Sso
import SamlModel.Generated.FnDriver
/-! `sso` op: decode oracle answers and the handler input, run the model, print a canonical reply. -/
namespace SsoDriver
open Tok Go Gen Sso

instance : Codec Form where
  enc f := enc f.AuthRequest ++ enc f.Encoding ++ enc f.RelayState ++ enc f.SigAlg ++ enc f.Sig ++ enc f.Binding
  dec ts := do
    let (a, ts) ← (dec ts : Option (String × _))
    let (b, ts) ← (dec ts : Option (String × _))
    let (c, ts) ← (dec ts : Option (String × _))
    let (d, ts) ← (dec ts : Option (String × _))
    let (e, ts) ← (dec ts : Option (String × _))
    let (f, ts) ← (dec ts : Option (String × _))
    pure ({ AuthRequest := a, Encoding := b, RelayState := c, SigAlg := d, Sig := e, Binding := f }, ts)

def decIn (ts : List String) : Option (In × List String) := do
  let (metaErr, ts) ← (dec ts : Option (Bool × _))
  let (idpMeta, ts) ← (dec ts : Option (Option md_IDPSSODescriptorType × _))
  let (form, ts) ← (dec ts : Option (Option Form × _))
  let (decoded, ts) ← (dec ts : Option (Option samlp_AuthnRequestType × _))
  let (sp, ts) ← (dec ts : Option (Option serviceprovider_ServiceProvider × _))
  let (createOk, ts) ← (dec ts : Option (Bool × _))
  let (createdID, ts) ← (dec ts : Option (String × _))
  pure ({ metaErr, idpMeta, form, decoded, sp, createOk, createdID }, ts)

def statusShort (s : String) : String :=
  let p := "urn:oasis:names:tc:SAML:2.0:status:"
  if p.toList.isPrefixOf s.toList then String.ofList (s.toList.drop p.length) else s

/-- how `sendBackResponse` delivers with these parameters -/
def deliveryKind (acs binding : String) : String :=
  if acs == "" then "xmlbody"
  else if binding == Consts.postBinding then "post"
  else if binding == Consts.redirectBinding then "redirect"
  else "xmlbody"

def showPersist : Option Persist → String
  | none => "-"
  | some p => " ".intercalate ([if p.ok then "ok" else "err"] ++ enc p.acs ++ enc p.binding ++ enc p.relay ++ enc p.appID ++ enc p.reqID)

def showResult (r : Result) : String :=
  let head := match r.out with
    | .httpError c => s!"http {c}"
    | .panic => "panic"
    | .login id => " ".intercalate ("login" :: enc id)
    | .failed n st acs binding relay irt =>
      let k := deliveryKind acs binding
      let relayShown := if k == "xmlbody" then "" else relay
      let target := if k == "xmlbody" then "" else acs
      " ".intercalate (["fail", statusShort st, k] ++ enc target ++ enc relayShown ++ enc irt ++ [s!"#step={n}"])
  head ++ " | " ++ showPersist r.persist

def run (ts : List String) : Option String := do
  let (o, ts) ← decOra ts
  let (i, ts) ← decIn ts
  if !ts.isEmpty then none else
  pure (showResult (sso o i))

end SsoDriver
