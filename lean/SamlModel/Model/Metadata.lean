import SamlModel.Generated.Funcs
import SamlModel.Model.Consts
/-!
  Model.Metadata — endpoint configuration, routes, and the metadata / certificate / readiness handlers
  (identityprovider.go, provider.go, metadata.go, probes.go; all fingerprinted).  Advertised locations and
  routes are computed with the *generated* `Endpoint.Absolute` / `Endpoint.Relative`.
-/
namespace Metadata
open Go Gen Consts

/-- the five IdP endpoints plus the metadata endpoint, after `endpointConfigToEndpoints` / `NewProvider`
    applied the defaults -/
structure Endpoints where
  certificate : provider_Endpoint := { path := "certificate" }
  callback : provider_Endpoint := { path := "login" }
  singleSignOn : provider_Endpoint := { path := "SSO" }
  singleLogout : provider_Endpoint := { path := "SLO" }
  attributeEp : provider_Endpoint := { path := "attribute" }
  metadataEp : provider_Endpoint := { path := "/metadata" }
deriving Repr, DecidableEq, Inhabited

structure Cfg where
  endpoints : Endpoints := {}
  /-- `IdentityProviderConfig.WantAuthRequestsSigned`, advertised verbatim -/
  wantSigned : String := ""
  encryptionAlgorithm : String := ""
  /-- `MetadataConfig.SignatureAlgorithm != ""` -/
  signMetadata : Bool := false
deriving Repr, Inhabited

inductive Handler where
  | certificate | callback | sso | slo | attributeQuery | metadata | health | ready
deriving Repr, DecidableEq

def abs (o : Ora) (e : provider_Endpoint) (issuer : String) : String := (Endpoint_Absolute o e issuer).get
def rel (o : Ora) (e : provider_Endpoint) : String := (Endpoint_Relative o e).get

/-- `CreateRouter` + `GetRoutes`: registration order matters for gorilla/mux (first match wins) -/
def routes (o : Ora) (c : Cfg) : List (String × Handler) :=
  [("/healthz", .health), ("/ready", .ready), (rel o c.endpoints.metadataEp, .metadata),
   (rel o c.endpoints.certificate, .certificate), (rel o c.endpoints.callback, .callback),
   (rel o c.endpoints.singleSignOn, .sso), (rel o c.endpoints.singleLogout, .slo),
   (rel o c.endpoints.attributeEp, .attributeQuery)]

/-- handler serving an exact path (mux without patterns: first registered route with that path) -/
def handlerOf (rs : List (String × Handler)) (path : String) : Option Handler :=
  (rs.find? (·.1 == path)).map (·.2)

/-- `IdentityProvider.GetEntityID`: the metadata endpoint's absolute URL for the request's issuer -/
def entityID (o : Ora) (c : Cfg) (issuer : String) : String := abs o c.endpoints.metadataEp issuer

structure Doc where
  entityID : String
  wantAuthnRequestsSigned : String
  ssoLocations : List (String × String)      -- (binding, location)
  sloLocations : List (String × String)
  attributeLocations : List (String × String)
  /-- base64 of the response signing certificate, per KeyDescriptor (use, certificate) -/
  keyDescriptors : List (String × Lib.Bytes)
  signed : Bool
deriving Repr, DecidableEq

inductive Out where
  | httpError (code : Nat)
  | panic
  | doc (d : Doc)
  /-- certificate endpoint: PEM of the certificate bytes -/
  | pem (cert : Lib.Bytes)
  | okJson
deriving Repr, DecidableEq

structure In where
  issuer : String := ""
  /-- `getMetadataCert` succeeds (only consulted when signing is configured) -/
  metaKeyOk : Bool := true
  /-- `signature.GetSigner` + `signature.Create` succeed -/
  signOk : Bool := true
  /-- storage.Health returns nil -/
  healthOk : Bool := true
deriving Repr, Inhabited

def soapBinding : String := "urn:oasis:names:tc:SAML:2.0:bindings:SOAP"

def metadata (o : Ora) (c : Cfg) (i : In) : Out :=
  match getResponseCert o () with
  | .panic => .panic
  | .ok (cert, _, kerr) =>
  if kerr.isSome then .httpError 500 else
  let kds := [("signing", cert)] ++ (if c.encryptionAlgorithm != "" then [("encryption", cert)] else [])
  let d : Doc := {
    entityID := entityID o c i.issuer, wantAuthnRequestsSigned := c.wantSigned,
    ssoLocations := [(redirectBinding, abs o c.endpoints.singleSignOn i.issuer), (postBinding, abs o c.endpoints.singleSignOn i.issuer)],
    sloLocations := [(redirectBinding, abs o c.endpoints.singleLogout i.issuer), (postBinding, abs o c.endpoints.singleLogout i.issuer)],
    attributeLocations := [(soapBinding, abs o c.endpoints.attributeEp i.issuer)],
    keyDescriptors := kds, signed := false }
  if c.signMetadata then
    if !i.metaKeyOk then .httpError 500
    else if !i.signOk then .httpError 500
    else .doc { d with signed := true }
  else .doc d

def certificate (o : Ora) : Out :=
  match getResponseCert o () with
  | .panic => .panic
  | .ok (cert, _, kerr) => if kerr.isSome then .httpError 500 else .pem cert

def ready (i : In) : Out := if i.healthOk then .okJson else .httpError 500

end Metadata
