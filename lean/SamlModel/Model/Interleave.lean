/-!
  Model.Interleave — requests in flight on one provider instance, at the granularity at which they can influence
  each other.

  A request being served is a *program*: it ends with a reply, or performs one storage operation (atomic: the
  integrator's storage serialises its operations) or draws an identifier, and continues with the answer.  Everything
  else a handler does happens on its own stack (per-request `Response`, `Checker`, decoded message) and on the
  provider's configuration, which is read-only after construction — that premise is the regenerated obligation
  `C15_shared_state_readonly` — so it is folded into the continuation functions.

  The state shared by the requests in flight is the storage (`κ → Option ν`) and nothing else.  Storage keys created
  by request `i` and identifiers drawn by request `i` come from its own name space (`alloc i n`, `ids i n`): the
  storage / `uuid.New` hand out values no other request is given (assumption stated where it is used).
-/
namespace Interleave

/-- one request in flight -/
inductive Prog (κ ν ρ : Type) where
  /-- the reply has been written -/
  | done (r : ρ)
  /-- a storage read (`AuthRequestByID`, `GetEntityByID`, `GetEntityIDByAppID`, `SetUserinfo…`, key getters) -/
  | read (k : κ) (cont : Option ν → Prog κ ν ρ)
  /-- a storage write that creates a record under a key the storage chooses (`CreateAuthRequest`) -/
  | create (v : ν) (cont : κ → Prog κ ν ρ)
  /-- `NewID()` -/
  | fresh (cont : String → Prog κ ν ρ)

/-- a request in flight with the number of records it created and identifiers it drew so far, and the identifiers -/
structure PState (κ ν ρ : Type) where
  prog : Prog κ ν ρ
  created : Nat := 0
  drawn : Nat := 0
  ids : List String := []

structure State (κ ν ρ : Type) where
  procs : Nat → PState κ ν ρ
  store : κ → Option ν

/-- the environment: how the storage names new records and what `NewID` returns, per request -/
structure Env (κ : Type) where
  alloc : Nat → Nat → κ
  ids : Nat → Nat → String

variable {κ ν ρ : Type} [DecidableEq κ]

def setProc (procs : Nat → PState κ ν ρ) (i : Nat) (p : PState κ ν ρ) : Nat → PState κ ν ρ :=
  fun j => if j = i then p else procs j

/-- request `i` performs its next operation -/
def step (e : Env κ) (s : State κ ν ρ) (i : Nat) : State κ ν ρ :=
  let p := s.procs i
  match p.prog with
  | .done _ => s
  | .read k cont => { s with procs := setProc s.procs i { p with prog := cont (s.store k) } }
  | .create v cont =>
    let k := e.alloc i p.created
    { procs := setProc s.procs i { p with prog := cont k, created := p.created + 1 },
      store := fun k' => if k' = k then some v else s.store k' }
  | .fresh cont =>
    let x := e.ids i p.drawn
    { s with procs := setProc s.procs i { p with prog := cont x, drawn := p.drawn + 1, ids := p.ids ++ [x] } }

/-- a schedule: which request moves next, any number of times, in any order -/
def run (e : Env κ) (s : State κ ν ρ) (sched : List Nat) : State κ ν ρ := sched.foldl (step e) s

/-- request `i` served with nothing else going on: `n` of its operations -/
def alone (e : Env κ) (s : State κ ν ρ) (i : Nat) : Nat → State κ ν ρ
  | 0 => s
  | n + 1 => step e (alone e s i n) i

/-- the reply of request `i`, once written -/
def replyOf (s : State κ ν ρ) (i : Nat) : Option ρ :=
  match (s.procs i).prog with
  | .done r => some r
  | _ => none

/-- a key of another request's name space -/
def foreign (e : Env κ) (i : Nat) (k : κ) : Prop := ∃ j n, j ≠ i ∧ k = e.alloc j n

/-- the next operation of request `i` is not a read of a record another request in flight created -/
def readsOwn (e : Env κ) (s : State κ ν ρ) (i : Nat) : Prop :=
  ∀ k cont, (s.procs i).prog = .read k cont → ¬ foreign e i k

end Interleave
