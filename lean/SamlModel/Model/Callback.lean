import SamlModel.Generated.Funcs
import SamlModel.Model.Consts
/-!
  Model.Callback — `callbackHandleFunc` + `loginResponse` + the message builders of response.go
  (all fingerprinted; the attribute list and NameID come from the *generated* `GetSAML`/`GetNameID`,
  the key check from the generated `getResponseCert`).
-/
namespace Callback
open Go Gen Consts

/-- the stored authentication request as the handler reads it (`models.AuthRequestInt`) -/
structure Rec where
  reqID : String := ""
  relay : String := ""
  binding : String := ""
  acs : String := ""
  appID : String := ""
  userID : String := ""
  done : Bool := false
deriving Repr, DecidableEq, Inhabited

structure In where
  /-- `p.GetEntityID(ctx)`: the IdP entity ID for this request -/
  issuer : String := ""
  parseErr : Bool := false
  /-- `r.Form.Get("id")` -/
  id : String := ""
  /-- `storage.AuthRequestByID id`; `none` = error -/
  stored : Option Rec := none
  /-- the text of the error `AuthRequestByID` returned (meaningful when `stored = none`) -/
  storedErr : String := ""
  /-- `storage.GetEntityIDByAppID rec.appID`; `none` = error -/
  entity : Option String := none
  /-- `storage.SetUserinfoWithUserID`: `none` = error, else the attribute record it filled -/
  userinfo : Option provider_Attributes := none
  /-- `createSignature` (signer construction and signing) succeeds -/
  signOk : Bool := true
  /-- `time.Now()` formatted with the configured layout, and `now + Expiration` likewise -/
  issueInstant : String := ""
  untilInstant : String := ""
  /-- the identifiers `NewID()` returns, in call order -/
  ids : Nat → String := fun _ => ""

structure Assertion where
  id : String
  issueInstant : String
  issuer : String
  nameID : Option saml_NameIDType
  scInResponseTo : String
  scNotOnOrAfter : String
  scRecipient : String
  notBefore : String
  notOnOrAfter : String
  audiences : List String
  attributes : List (Option saml_AttributeType)
  authnInstant : String
  sessionIndex : String
deriving Repr, DecidableEq

structure Msg where
  id : String
  inResponseTo : String
  destination : String
  issueInstant : String
  status : String
  statusMessage : String
  issuer : String
  assertion : Option Assertion
deriving Repr, DecidableEq

inductive Sig where
  | none | enveloped | query
deriving Repr, DecidableEq

/-- how `sendBackResponse` delivers with the given consumer URL and binding -/
inductive Delivery where
  | xmlBody
  | postForm (action relay : String)
  | redirect (acs relay : String)
deriving Repr, DecidableEq

def deliver (acs binding relay : String) : Delivery :=
  if acs == "" then .xmlBody
  else if binding == postBinding then .postForm acs relay
  else if binding == redirectBinding then .redirect acs relay
  else .xmlBody

inductive Out where
  | httpError (code : Nat)
  | panic
  | reply (d : Delivery) (m : Msg) (s : Sig)
deriving Repr, DecidableEq

/-- `makeResponse` -/
def mkResponse (id reqID acs issueInstant status message issuer : String) : Msg :=
  { id := id, inResponseTo := reqID, destination := acs, issueInstant := issueInstant, status := status,
    statusMessage := message, issuer := issuer, assertion := none }

/-- `Response.makeFailedResponse` -/
def failedMsg (i : In) (reqID acs status message : String) : Msg :=
  mkResponse (i.ids 0) reqID acs i.issueInstant status message i.issuer

/-- `makeAssertion` (authN = true) -/
def mkAssertion (id reqID acs issueInstant untilInstant issuer : String) (nameID : Option saml_NameIDType)
    (attrs : List (Option saml_AttributeType)) (audience : String) : Assertion :=
  { id := id, issueInstant := issueInstant, issuer := issuer, nameID := nameID, scInResponseTo := reqID,
    scNotOnOrAfter := untilInstant, scRecipient := acs, notBefore := issueInstant, notOnOrAfter := untilInstant,
    audiences := [audience], attributes := attrs, authnInstant := issueInstant, sessionIndex := id }

/-- the signature style `createSignature` picks -/
def sigStyle (acs binding : String) : Sig :=
  if binding == redirectBinding && acs != "" then .query else .enveloped

def callback (o : Ora) (i : In) : Out :=
  if i.parseErr then .httpError 500 else
  if i.id == "" then .httpError 500 else
  match i.stored with
  | none => .reply .xmlBody (failedMsg i "" "" statusRequestDenied ("failed to get request: " ++ i.storedErr)) .none
  | some rec =>
  match i.entity with
  | none => .httpError 500
  | some audience =>
  let fail (status : String) : Out :=
    .reply (deliver rec.acs rec.binding rec.relay) (failedMsg i rec.reqID rec.acs status "failed to create response") .none
  -- loginResponse: the Done() gate comes first
  if !rec.done then fail statusAuthnFailed else
  match i.userinfo with
  | none => fail statusInvalidAttr
  | some attrs =>
  match getResponseCert o () with
  | .panic => .panic
  | .ok (_, _, kerr) =>
  if kerr.isSome then fail statusInvalidAttr else
  match Attributes_GetNameID o (some attrs), Attributes_GetSAML o (some attrs) with
  | .ok nameID, .ok samlAttrs =>
    let resp := mkResponse (i.ids 0) rec.reqID rec.acs i.issueInstant statusSuccess "" i.issuer
    let assertion := mkAssertion (i.ids 1) rec.reqID rec.acs i.issueInstant i.untilInstant i.issuer nameID samlAttrs audience
    if !i.signOk then
      -- the failed response is built after the successful one: it draws the third identifier
      .reply (deliver rec.acs rec.binding rec.relay)
        (mkResponse (i.ids 2) rec.reqID rec.acs i.issueInstant statusResponder "failed to create response" i.issuer) .none
    else .reply (deliver rec.acs rec.binding rec.relay) { resp with assertion := some assertion } (sigStyle rec.acs rec.binding)
  | _, _ => .panic

end Callback
