import SamlModel.Model.AttrQuery
import SamlModel.Model.CbDriver
namespace AqDriver
open Tok Go Gen AttrQuery

def decIn (ts : List String) : Option (In × List String) := do
  let (issuer, ts) ← (dec ts : Option (String × _))
  let (bodyErr, ts) ← (dec ts : Option (Bool × _))
  let (metaErr, ts) ← (dec ts : Option (Bool × _))
  let (aaMeta, ts) ← (dec ts : Option (Option md_AttributeAuthorityDescriptorType × _))
  let (decoded, ts) ← (dec ts : Option (Option (Option samlp_AttributeQueryType) × _))
  let (sp, ts) ← (dec ts : Option (Option serviceprovider_ServiceProvider × _))
  let (sigOk, ts) ← (dec ts : Option (Bool × _))
  let (userinfo, ts) ← (dec ts : Option (Option provider_Attributes × _))
  let (signOk, ts) ← (dec ts : Option (Bool × _))
  pure ({ issuer, bodyErr, metaErr, aaMeta, decoded, sp, sigOk, userinfo, signOk }, ts)

def showOut : Out → String
  | .httpError c => s!"http {c}"
  | .panic => "panic"
  | .answer a =>
    " ".intercalate (["soap"] ++ enc a.inResponseTo ++ enc a.issuer ++ enc a.audience ++ enc ((a.nameID.map (·.Text)).getD "") ++ enc a.lookedUp ++
      [toString a.attributes.length] ++ a.attributes.flatMap CbDriver.showAttr)

def run (ts : List String) : Option String := do
  let (o, ts) ← decOra ts
  let (i, ts) ← decIn ts
  if !ts.isEmpty then none else
  pure (showOut (attrQuery o i))

end AqDriver
