import SamlModel.Lib.Strings
/-!
  Model.Checker — hand translation of /repo/pkg/provider/checker/checker.go (fingerprinted, see
  `Model.Expected`), polymorphic in the client state `σ`.  A closure `func() T` of the client is a
  state transformer `M σ T`; a step is `M σ Bool` ("failed"); `CheckFailed` runs the steps in order
  and stops at the first `true`.
-/
namespace Checker

abbrev M (σ α : Type) := σ → α × σ

structure Checker (σ : Type) where
  steps : List (M σ Bool) := []

def addStep (c : Checker σ) (f : M σ Bool) : Checker σ := { steps := c.steps ++ [f] }

/-- `CheckFailed`: `for _, step := range c.steps { if step() { return true } }; return false` -/
def runSteps : List (M σ Bool) → M σ Bool
  | [], s => (false, s)
  | f :: fs, s =>
    match f s with
    | (true, s') => (true, s')
    | (false, s') => runSteps fs s'

def checkFailed (c : Checker σ) : M σ Bool := runSteps c.steps

def withValueNotEmptyCheck (c : Checker σ) (value : M σ String) (errorFunc : M σ Unit) : Checker σ :=
  addStep c fun s =>
    let (v, s) := value s
    if v == "" then
      let (_, s) := errorFunc s
      (true, s)
    else (false, s)

/-- loop of `WithValuesNotEmptyCheck`: the first empty value triggers the callback -/
def anyEmpty : List String → Bool
  | [] => false
  | v :: vs => if v == "" then true else anyEmpty vs

def withValuesNotEmptyCheck (c : Checker σ) (values : M σ (List String)) (errorFunc : M σ Unit) : Checker σ :=
  addStep c fun s =>
    let (vs, s) := values s
    if anyEmpty vs then
      let (_, s) := errorFunc s
      (true, s)
    else (false, s)

/-- `(minlength > 0 && len(value()) < minlength) || (maxlength > 0 && len(value()) > maxlength)` with Go's
    short-circuit evaluation: `value` is read once per conjunct that reaches it. -/
def withValueLengthCheck (c : Checker σ) (value : M σ String) (minlength maxlength : Int) (errorFunc : M σ Unit) : Checker σ :=
  addStep c fun s =>
    let (b1, s) : Bool × σ :=
      if minlength > 0 then
        let (v, s) := value s
        (decide (Lib.goLen v < minlength), s)
      else (false, s)
    let (b, s) : Bool × σ :=
      if b1 then (true, s)
      else if maxlength > 0 then
        let (v, s) := value s
        (decide (Lib.goLen v > maxlength), s)
      else (false, s)
    if b then
      let (_, s) := errorFunc s
      (true, s)
    else (false, s)

/-- on failure the log line re-reads `value()` and `equal()` before the callback runs -/
def withValueEqualsCheck (c : Checker σ) (value equal : M σ String) (errorFunc : M σ Unit) : Checker σ :=
  addStep c fun s =>
    let (v, s) := value s
    let (e, s) := equal s
    if v != e then
      let (_, s) := value s
      let (_, s) := equal s
      let (_, s) := errorFunc s
      (true, s)
    else (false, s)

def withConditionalValueNotEmpty (c : Checker σ) (cond : M σ Bool) (value : M σ String) (errorFunc : M σ Unit) : Checker σ :=
  addStep c fun s =>
    let (b, s) := cond s
    if b then
      let (v, s) := value s
      if v == "" then
        let (_, s) := errorFunc s
        (true, s)
      else (false, s)
    else (false, s)

/-- `logic` returns whether it produced an error -/
def withConditionalLogicStep (c : Checker σ) (cond : M σ Bool) (logic : M σ Bool) (errorFunc : M σ Unit) : Checker σ :=
  addStep c fun s =>
    let (b, s) := cond s
    if b then
      let (e, s) := logic s
      if e then
        let (_, s) := errorFunc s
        (true, s)
      else (false, s)
    else (false, s)

def withLogicStep (c : Checker σ) (logic : M σ Bool) (errorFunc : M σ Unit) : Checker σ :=
  addStep c fun s =>
    let (e, s) := logic s
    if e then
      let (_, s) := errorFunc s
      (true, s)
    else (false, s)

def withValueStep (c : Checker σ) (logic : M σ Unit) : Checker σ :=
  addStep c fun s =>
    let (_, s) := logic s
    (false, s)

end Checker
