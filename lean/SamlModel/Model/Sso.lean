import SamlModel.Generated.Funcs
import SamlModel.Model.Consts
/-!
  Model.Sso — the SSO handler (`ssoHandleFunc`, sso.go) as a function from what the handler learns
  from outside to what it does.  The order of the steps is the order of the `checkerInstance.With…`
  calls in the source (tie: `Gen.Facts.ssoChain = Expected.ssoChain`, theorem `sso_skeleton_current`);
  by C20 the chain runs the steps in that order and stops at the first failing one, running only its
  failure callback.  Wherever a step calls a helper that go2lean translates, the model calls the
  *generated* definition.
-/
namespace Sso
open Go Gen Consts

/-- `AuthRequestForm` (result of `getAuthRequestFromRequest`) -/
structure Form where
  AuthRequest : String := ""
  Encoding : String := ""
  RelayState : String := ""
  SigAlg : String := ""
  Sig : String := ""
  Binding : String := ""
deriving Repr, DecidableEq, Inhabited

/-- everything `ssoHandleFunc` learns from outside, besides the oracles in `Gen.Ora` -/
structure In where
  /-- `p.GetMetadata` (needs the response signing key) failed -/
  metaErr : Bool := false
  idpMeta : Option md_IDPSSODescriptorType := none
  /-- `getAuthRequestFromRequest`: `none` = the form could not be parsed -/
  form : Option Form := none
  /-- `xml.DecodeAuthNRequest form.Encoding form.AuthRequest`: `none` = error -/
  decoded : Option samlp_AuthnRequestType := none
  /-- `storage.GetEntityByID issuer`: `none` = error -/
  sp : Option serviceprovider_ServiceProvider := none
  /-- `storage.CreateAuthRequest` succeeds, and the identifier it returns -/
  createOk : Bool := true
  createdID : String := ""
deriving Repr, Inhabited

/-- arguments of `storage.CreateAuthRequest` -/
structure Persist where
  acs : String
  binding : String
  relay : String
  appID : String
  reqID : String
  ok : Bool
deriving Repr, DecidableEq

inductive Out where
  | httpError (code : Nat)
  | panic
  /-- a failed Response: chain step that failed, status code, and the delivery parameters in effect -/
  | failed (step : Nat) (status : String) (acs binding relay inResponseTo : String)
  /-- 303 to the service provider's login URL for the identifier storage returned -/
  | login (id : String)
deriving Repr, DecidableEq

structure Result where
  out : Out
  persist : Option Persist := none
deriving Repr, DecidableEq

def bindR (r : Res α) (k : α → Result) : Result :=
  match r with
  | .panic => { out := .panic }
  | .ok a => k a

/-- a conditional logic step (`WithConditionalLogicStep`): `cond` decides whether `logic` runs;
    the result is the error that makes the step fail, if any -/
def condStep (cond : Res Bool) (logic : Res Err) : Res Err :=
  match cond with
  | .panic => .panic
  | .ok c => if c then logic else .ok none

def spAcs (sp : serviceprovider_ServiceProvider) : Option (List md_IndexedEndpointType) :=
  match sp.Metadata with
  | none => none
  | some m => match m.SPSSODescriptor with
    | none => none
    | some d => some d.AssertionConsumerService

/-- steps 11–15: both selected values non-empty, binding answerable, required content, persist -/
def ssoAfterSel (o : Ora) (i : In) (form : Form) (req : samlp_AuthnRequestType) (sp : serviceprovider_ServiceProvider)
    (acs binding : String) : Result :=
  let fail (n : Nat) (status : String) : Result := { out := .failed n status acs binding form.RelayState req.Id }
  if acs == "" then fail 11 statusUnsupportedBinding else
  if binding == "" then fail 12 statusUnsupportedBinding else
  if !(binding == redirectBinding || binding == postBinding) then fail 13 statusUnsupportedBinding else
  bindR (checkRequestRequiredContent o i.idpMeta (some sp) (some req)) fun e14 =>
  if e14.isSome then fail 14 statusRequestDenied else
  let p : Persist := { acs := acs, binding := binding, relay := form.RelayState, appID := sp.ID, reqID := req.Id, ok := i.createOk }
  if !i.createOk then { out := .failed 15 statusResponder acs binding form.RelayState req.Id, persist := some p } else
  { out := .login i.createdID, persist := some p }

/-- steps 6–10: certificate, signatures, signature placement, consumer endpoint selection -/
def ssoAfterSp (o : Ora) (i : In) (form : Form) (req : samlp_AuthnRequestType) (sp : serviceprovider_ServiceProvider) : Result :=
  let fail (n : Nat) : Result := { out := .failed n statusRequestDenied "" "" form.RelayState req.Id }
  bindR (condStep (certificateCheckNecessary o req.Signature sp.Metadata) (checkCertificate o req.Signature sp.Metadata)) fun e6 =>
  if e6.isSome then fail 6 else
  bindR (condStep (signatureRedirectVerificationNecessary o i.idpMeta sp.Metadata form.Sig form.Binding)
    (verifyRedirectSignature o form.AuthRequest form.RelayState form.Sig form.SigAlg (some sp))) fun e7 =>
  if e7.isSome then fail 7 else
  bindR (condStep (signaturePostVerificationNecessary o i.idpMeta sp.Metadata req.Signature form.Binding)
    (verifyPostSignature o form.AuthRequest (some sp))) fun e8 =>
  if e8.isSome then fail 8 else
  bindR (signaturePostProvided o req.Signature) fun emb =>
  if (form.Binding == postBinding && form.Sig != "") || (form.Binding == redirectBinding && emb) then fail 9 else
  match spAcs sp with
  | none => { out := .panic }
  | some acsList =>
  bindR (GetAcsUrlAndBindingForResponse o acsList req.ProtocolBinding) fun sel =>
  ssoAfterSel o i form req sp sel.1 sel.2

/-- steps 2–5: request present, SigAlg ⇒ Signature, decode, service provider lookup -/
def ssoAfterForm (o : Ora) (i : In) (form : Form) : Result :=
  if form.AuthRequest == "" then { out := .failed 2 statusRequestDenied "" "" form.RelayState "" } else
  if form.SigAlg != "" && form.Sig == "" then { out := .failed 3 statusRequestDenied "" "" form.RelayState "" } else
  match i.decoded with
  | none => { out := .failed 4 statusRequestDenied "" "" form.RelayState "" }
  | some req =>
  match req.Issuer with
  | none => { out := .failed 5 statusRequestDenied "" "" form.RelayState req.Id }
  | some _ =>
  match i.sp with
  | none => { out := .failed 5 statusRequestDenied "" "" form.RelayState req.Id }
  | some sp => ssoAfterSp o i form req sp

def sso (o : Ora) (i : In) : Result :=
  if i.metaErr then { out := .httpError 500 } else
  match i.form with
  | none => { out := .failed 1 statusRequestDenied "" "" "" "" }
  | some form => ssoAfterForm o i form

end Sso
