import SamlModel.Model.FactsUtil
/-! Constants of /repo used by the hand-written models, with the tie to the regenerated facts. -/
namespace Consts

def postBinding : String := "urn:oasis:names:tc:SAML:2.0:bindings:HTTP-POST"
def redirectBinding : String := "urn:oasis:names:tc:SAML:2.0:bindings:HTTP-Redirect"
def statusSuccess : String := "urn:oasis:names:tc:SAML:2.0:status:Success"
def statusRequestDenied : String := "urn:oasis:names:tc:SAML:2.0:status:RequestDenied"
def statusUnsupportedBinding : String := "urn:oasis:names:tc:SAML:2.0:status:UnsupportedBinding"
def statusResponder : String := "urn:oasis:names:tc:SAML:2.0:status:Responder"
def statusAuthnFailed : String := "urn:oasis:names:tc:SAML:2.0:status:AuthnFailed"
def statusInvalidAttr : String := "urn:oasis:names:tc:SAML:2.0:status:InvalidAttrNameOrValue"
def defaultTimeFormat : String := "2006-01-02T15:04:05.999999Z"
def encodingDeflate : String := "urn:oasis:names:tc:SAML:2.0:bindings:URL-Encoding:DEFLATE"

/-- the literals above are the values of the corresponding Go constants in today's source -/
def current : Bool :=
  FactsUtil.constOf "PostBinding" == postBinding && FactsUtil.constOf "RedirectBinding" == redirectBinding &&
  FactsUtil.constOf "StatusCodeSuccess" == statusSuccess && FactsUtil.constOf "StatusCodeRequestDenied" == statusRequestDenied &&
  FactsUtil.constOf "StatusCodeUnsupportedBinding" == statusUnsupportedBinding && FactsUtil.constOf "StatusCodeResponder" == statusResponder &&
  FactsUtil.constOf "StatusCodeAuthNFailed" == statusAuthnFailed && FactsUtil.constOf "StatusCodeInvalidAttrNameOrValue" == statusInvalidAttr &&
  FactsUtil.constOf "DefaultTimeFormat" == defaultTimeFormat && FactsUtil.constOf "EncodingDeflate" == encodingDeflate

end Consts
