/-
  GoSem — the target language of the go2lean translator.

  A Go function body is translated statement by statement into a term of type
  `Ctl σ ρ`, where `σ` is the function's *frame* (a structure with one field per
  parameter / local variable) and `ρ` its result type.  Control flow is first order:
  `next` (fall through), `brk`, `cont`, `ret`, `panic`.  `for … range` is `goFor`,
  structural recursion on the list – termination is by construction.
-/
namespace Go

/-- Result of running a translated Go function: a value or a run-time panic. -/
inductive Res (α : Type) where
  | ok (a : α)
  | panic
deriving Repr, DecidableEq

instance [Inhabited α] : Inhabited (Res α) := ⟨.ok default⟩

def Res.isPanic : Res α → Bool
  | .panic => true
  | .ok _ => false

def Res.get [Inhabited α] : Res α → α
  | .ok a => a
  | .panic => default

/-- Outcome of one statement. -/
inductive Ctl (σ ρ : Type) where
  | next (s : σ)
  | brk (s : σ)
  | cont (s : σ)
  | ret (r : ρ)
  | panic

namespace Ctl

/-- Sequencing: run the continuation only on fall-through. -/
@[inline] def seq (c : Ctl σ ρ) (k : σ → Ctl σ ρ) : Ctl σ ρ :=
  match c with
  | .next s => k s
  | .brk s => .brk s
  | .cont s => .cont s
  | .ret r => .ret r
  | .panic => .panic

/-- A function body that falls off its end returns `dflt` (only for result-less Go functions). -/
def toRes (c : Ctl σ ρ) (dflt : ρ) : Res ρ :=
  match c with
  | .ret r => .ok r
  | .panic => .panic
  | .next _ => .ok dflt
  | .brk _ => .ok dflt
  | .cont _ => .ok dflt

@[simp] theorem seq_next (s : σ) (k : σ → Ctl σ ρ) : (Ctl.next s).seq k = k s := rfl
@[simp] theorem seq_ret (r : ρ) (k : σ → Ctl σ ρ) : (Ctl.ret r : Ctl σ ρ).seq k = .ret r := rfl
@[simp] theorem seq_panic (k : σ → Ctl σ ρ) : (Ctl.panic : Ctl σ ρ).seq k = .panic := rfl
@[simp] theorem seq_brk (s : σ) (k : σ → Ctl σ ρ) : (Ctl.brk s).seq k = .brk s := rfl
@[simp] theorem seq_cont (s : σ) (k : σ → Ctl σ ρ) : (Ctl.cont s).seq k = .cont s := rfl

end Ctl

/-- `for _, x := range xs { body }`.  `break` leaves the loop (result `next`), `continue`
    proceeds with the next element, `return`/`panic` propagate. -/
def goFor : List α → σ → (α → σ → Ctl σ ρ) → Ctl σ ρ
  | [], s, _ => .next s
  | x :: xs, s, body =>
    match body x s with
    | .next s' => goFor xs s' body
    | .cont s' => goFor xs s' body
    | .brk s' => .next s'
    | .ret r => .ret r
    | .panic => .panic

@[simp] theorem goFor_nil (s : σ) (body : α → σ → Ctl σ ρ) : goFor [] s body = .next s := rfl

theorem goFor_cons (x : α) (xs : List α) (s : σ) (body : α → σ → Ctl σ ρ) :
    goFor (x :: xs) s body =
      match body x s with
      | .next s' => goFor xs s' body
      | .cont s' => goFor xs s' body
      | .brk s' => .next s'
      | .ret r => .ret r
      | .panic => .panic := rfl

/-- Dereference of a Go pointer modelled as `Option`; only used after a nil guard. -/
@[inline] def deref [Inhabited α] (p : Option α) : α := p.getD default

/-- Go `error` values are modelled by their message template. -/
abbrev Err := Option String

end Go
