/-
  GoSem — the target language of the go2lean translator.

  A Go function body is translated statement by statement into a term of type
  `Ctl σ ρ`, where `σ` is the function's *frame* (a structure with one field per
  parameter / local variable) and `ρ` its result type.  Control flow is first order:
  `next` (fall through), `brk`, `cont`, `ret`, `panic`.  `for … range` is `goFor`,
  structural recursion on the list – termination is by construction.
-/
namespace Go

/-- Result of running a translated Go function: a value or a run-time panic. -/
inductive Res (α : Type) where
  | ok (a : α)
  | panic
deriving Repr, DecidableEq

instance [Inhabited α] : Inhabited (Res α) := ⟨.ok default⟩

def Res.isPanic : Res α → Bool
  | .panic => true
  | .ok _ => false

def Res.get [Inhabited α] : Res α → α
  | .ok a => a
  | .panic => default

/-- Outcome of one statement. -/
inductive Ctl (σ ρ : Type) where
  | next (s : σ)
  | brk (s : σ)
  | cont (s : σ)
  | ret (r : ρ)
  | panic

namespace Ctl

/-- Sequencing: run the continuation only on fall-through. -/
@[inline] def seq (c : Ctl σ ρ) (k : σ → Ctl σ ρ) : Ctl σ ρ :=
  match c with
  | .next s => k s
  | .brk s => .brk s
  | .cont s => .cont s
  | .ret r => .ret r
  | .panic => .panic

/-- A function body that falls off its end returns `dflt` (only for result-less Go functions). -/
def toRes (c : Ctl σ ρ) (dflt : ρ) : Res ρ :=
  match c with
  | .ret r => .ok r
  | .panic => .panic
  | .next _ => .ok dflt
  | .brk _ => .ok dflt
  | .cont _ => .ok dflt

@[simp] theorem seq_next (s : σ) (k : σ → Ctl σ ρ) : (Ctl.next s).seq k = k s := rfl
@[simp] theorem seq_ret (r : ρ) (k : σ → Ctl σ ρ) : (Ctl.ret r : Ctl σ ρ).seq k = .ret r := rfl
@[simp] theorem seq_panic (k : σ → Ctl σ ρ) : (Ctl.panic : Ctl σ ρ).seq k = .panic := rfl
@[simp] theorem seq_brk (s : σ) (k : σ → Ctl σ ρ) : (Ctl.brk s).seq k = .brk s := rfl
@[simp] theorem seq_cont (s : σ) (k : σ → Ctl σ ρ) : (Ctl.cont s).seq k = .cont s := rfl

end Ctl

/-- `for _, x := range xs { body }`.  `break` leaves the loop (result `next`), `continue`
    proceeds with the next element, `return`/`panic` propagate. -/
def goFor : List α → σ → (α → σ → Ctl σ ρ) → Ctl σ ρ
  | [], s, _ => .next s
  | x :: xs, s, body =>
    match body x s with
    | .next s' => goFor xs s' body
    | .cont s' => goFor xs s' body
    | .brk s' => .next s'
    | .ret r => .ret r
    | .panic => .panic

@[simp] theorem goFor_nil (s : σ) (body : α → σ → Ctl σ ρ) : goFor [] s body = .next s := rfl

theorem goFor_cons (x : α) (xs : List α) (s : σ) (body : α → σ → Ctl σ ρ) :
    goFor (x :: xs) s body =
      match body x s with
      | .next s' => goFor xs s' body
      | .cont s' => goFor xs s' body
      | .brk s' => .next s'
      | .ret r => .ret r
      | .panic => .panic := rfl

/-- A search loop: `for _, x := range xs { if p x { return f x } }` is `List.find?`. -/
theorem goFor_find (p : α → Bool) (f : α → ρ) (xs : List α) (s : σ) :
    goFor xs s (fun x s => if p x = true then (Ctl.ret (f x) : Ctl σ ρ) else Ctl.next s) =
      match xs.find? p with
      | some e => Ctl.ret (f e)
      | none => Ctl.next s := by
  induction xs with
  | nil => rfl
  | cons x xs ih =>
    rw [goFor_cons]
    by_cases h : p x = true
    · rw [if_pos h]; simp [List.find?, h]
    · rw [if_neg h]
      have h' : p x = false := by simpa using h
      simp only [List.find?, h']
      exact ih

/-- The same with predicate and result depending on the (unchanged) frame. -/
theorem goFor_find' (p : α → σ → Bool) (f : α → σ → ρ) (xs : List α) (s : σ) :
    goFor xs s (fun x s => if p x s = true then (Ctl.ret (f x s) : Ctl σ ρ) else Ctl.next s) =
      match xs.find? (fun x => p x s) with
      | some e => Ctl.ret (f e s)
      | none => Ctl.next s := by
  induction xs with
  | nil => rfl
  | cons x xs ih =>
    rw [goFor_cons]
    by_cases h : p x s = true
    · rw [if_pos h]; simp [List.find?, h]
    · rw [if_neg h]
      have h' : p x s = false := by simpa using h
      simp only [List.find?, h']
      exact ih

/-- A loop whose body only updates the frame is a fold. -/
theorem goFor_fold (g : α → σ → σ) (xs : List α) (s : σ) :
    goFor xs s (fun x s => (Ctl.next (g x s) : Ctl σ ρ)) = Ctl.next (xs.foldl (fun s x => g x s) s) := by
  induction xs generalizing s with
  | nil => rfl
  | cons x xs ih => rw [goFor_cons]; exact ih _

/-- `if c then next a else next b` is `next (if c then a else b)` -/
theorem ite_next (c : Prop) [Decidable c] (a b : σ) :
    (if c then (Ctl.next a : Ctl σ ρ) else Ctl.next b) = Ctl.next (if c then a else b) := by
  split <;> rfl

/-- A loop whose body always falls through (whatever the frame) falls through. -/
theorem goFor_always_next {α σ ρ : Type} (body : α → σ → Ctl σ ρ) (h : ∀ x s, ∃ s', body x s = .next s')
    (xs : List α) (s : σ) : ∃ s', goFor xs s body = .next s' := by
  induction xs generalizing s with
  | nil => exact ⟨s, rfl⟩
  | cons x xs ih =>
    rw [goFor_cons]
    obtain ⟨s1, h1⟩ := h x s
    rw [h1]
    exact ih s1

/-- ... and followed by a returning continuation, the function does not panic. -/
theorem seq_noPanic_of_next {α σ ρ : Type} (xs : List α) (s : σ) (body : α → σ → Ctl σ ρ) (k : σ → Ctl σ ρ) (d : ρ)
    (hb : ∀ x s, ∃ s', body x s = .next s') (hk : ∀ s, ∃ r, k s = .ret r) :
    ((goFor xs s body).seq k).toRes d ≠ .panic := by
  obtain ⟨s', hs⟩ := goFor_always_next body hb xs s
  obtain ⟨r, hr⟩ := hk s'
  rw [hs, Ctl.seq_next, hr]
  simp [Ctl.toRes]

/-- Outcome of one iteration of a loop whose body threads a state and may `return`. -/
inductive LoopR (σ ρ : Type) where
  | next (s : σ)
  | ret (r : ρ) (s : σ)

/-- `for _, x := range xs { body }` over a threaded state, with early `return` (target of the checker.go translation) -/
def forM : List α → σ → (α → σ → LoopR σ ρ) → LoopR σ ρ
  | [], s, _ => .next s
  | x :: xs, s, body =>
    match body x s with
    | .next s' => forM xs s' body
    | .ret r s' => .ret r s'

/-- Dereference of a Go pointer modelled as `Option`; only used after a nil guard. -/
@[inline] def deref [Inhabited α] (p : Option α) : α := p.getD default

/-- Go `error` values are modelled by their message template. -/
abbrev Err := Option String

end Go
