import SamlModel.GoSem
import SamlModel.Lib.Stream
/-
  Tok — the token codec of the line protocol between the Go harness and the Lean driver
  (DESIGN Appendix A).  One op per line, tokens separated by a single space:
  string `x<hex of UTF-8 bytes>`, integer decimal, Bool `0|1`, option `-` | `+ v`, list `n e₁ … eₙ`,
  pair / record: components in order.  Decoders reject anything they cannot parse (never default).
-/
namespace Tok

class Codec (α : Type) where
  enc : α → List String
  dec : List String → Option (α × List String)

export Codec (enc dec)

def hexDigitVal (c : Char) : Option Nat :=
  if '0' ≤ c ∧ c ≤ '9' then some (c.toNat - '0'.toNat)
  else if 'a' ≤ c ∧ c ≤ 'f' then some (c.toNat - 'a'.toNat + 10)
  else none

/-- tail recursive: tokens of several megabytes (inflated streams of the C14 thorough tier) must not need stack -/
def hexDecodeAux : List Char → List UInt8 → Option (List UInt8)
  | [], acc => some acc.reverse
  | a :: b :: rest, acc =>
    match hexDigitVal a, hexDigitVal b with
    | some x, some y => hexDecodeAux rest (UInt8.ofNat (x * 16 + y) :: acc)
    | _, _ => none
  | _, _ => none

def hexDecode (l : List Char) : Option (List UInt8) := hexDecodeAux l []

def hexChar (n : Nat) : Char := if n < 10 then Char.ofNat (48 + n) else Char.ofNat (87 + n)

def hexEncode (bs : List UInt8) : String :=
  String.ofList (bs.flatMap fun b => [hexChar (b.toNat / 16), hexChar (b.toNat % 16)])

instance : Codec String where
  enc s := ["x" ++ hexEncode s.toUTF8.toList]
  dec
    | t :: rest =>
      match t.toList with
      | 'x' :: h => do
        let bs ← hexDecode h
        let s ← String.fromUTF8? (ByteArray.mk bs.toArray)
        pure (s, rest)
      | _ => none
    | [] => none

instance : Codec Lib.Bytes where
  enc b := ["x" ++ hexEncode b]
  dec
    | t :: rest =>
      match t.toList with
      | 'x' :: h => do
        let bs ← hexDecode h
        pure (bs, rest)
      | _ => none
    | [] => none

instance : Codec Int where
  enc i := [toString i]
  dec
    | t :: rest => (t.toInt?).map (·, rest)
    | [] => none

instance : Codec Nat where
  enc i := [toString i]
  dec
    | t :: rest => (t.toNat?).map (·, rest)
    | [] => none

instance : Codec Bool where
  enc b := [if b then "1" else "0"]
  dec
    | "1" :: rest => some (true, rest)
    | "0" :: rest => some (false, rest)
    | _ => none

instance : Codec Unit where
  enc _ := []
  dec ts := some ((), ts)

instance [Codec α] : Codec (Option α) where
  enc
    | none => ["-"]
    | some a => "+" :: enc a
  dec
    | "-" :: rest => some (none, rest)
    | "+" :: rest => (dec rest).map fun (a, r) => (some a, r)
    | _ => none

instance [Codec α] [Codec β] : Codec (α × β) where
  enc p := enc p.1 ++ enc p.2
  dec ts := do
    let (a, r) ← dec ts
    let (b, r') ← dec r
    pure ((a, b), r')

def decN [Codec α] : Nat → List String → Option (List α × List String)
  | 0, ts => some ([], ts)
  | n + 1, ts => do
    let (a, r) ← dec ts
    let (as, r') ← decN n r
    pure (a :: as, r')

instance [Codec α] : Codec (List α) where
  enc l := toString l.length :: l.flatMap enc
  dec
    | t :: rest => do
      let n ← t.toNat?
      decN n rest
    | [] => none

instance : Codec Lib.Stream where
  enc s := enc s.data ++ enc s.err
  dec ts := do
    let (d, r) ← dec ts
    let (e, r') ← dec r
    pure ({ data := d, err := e }, r')

instance [Codec α] : Codec (Go.Res α) where
  enc
    | .panic => ["panic"]
    | .ok a => "ok" :: enc a
  dec
    | "panic" :: rest => some (.panic, rest)
    | "ok" :: rest => (dec rest).map fun (a, r) => (.ok a, r)
    | _ => none

/-- A function oracle given as a finite table with a default.  The key of a row is the
    comma-joined token encoding of the arguments. -/
structure Table (β : Type) where
  rows : List (String × β)
  dflt : β

def Table.get (t : Table β) (k : List String) : β :=
  ((t.rows.find? (·.1 == ",".intercalate k)).map (·.2)).getD t.dflt

instance [Codec β] : Codec (Table β) where
  enc t := enc t.dflt ++ enc t.rows
  dec ts := do
    let (d, r) ← (dec ts : Option (β × List String))
    let (rows, r') ← (dec r : Option (List (String × β) × List String))
    pure ({ rows := rows, dflt := d }, r')

end Tok
