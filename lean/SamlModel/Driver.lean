import SamlModel.Generated.FnDriver
/-! Driver.step: dispatch of one protocol line.  Unknown or unparsable ops yield `bad-op`. -/
namespace Driver

def step (line : String) : String :=
  match line.splitOn " " with
  | "fn" :: name :: args =>
    match Gen.fnDispatch name args with
    | some toks => " ".intercalate toks
    | none => "bad-op"
  | _ => "bad-op"

end Driver
