import SamlModel.Generated.FnDriver
import SamlModel.Model.ChkDriver
import SamlModel.Model.SsoDriver
import SamlModel.Model.CbDriver
import SamlModel.Model.SloDriver
import SamlModel.Model.AqDriver
import SamlModel.Model.MdDriver
import SamlModel.Exec.C16
import SamlModel.Model.LibDriver
/-! Driver.step: dispatch of one protocol line.  Unknown or unparsable ops yield `bad-op`. -/
namespace Driver

def step (line : String) : String :=
  match line.splitOn " " with
  | "fn" :: name :: args =>
    match Gen.fnDispatch name args with
    | some toks => " ".intercalate toks
    | none => "bad-op"
  | "sso" :: args => (SsoDriver.run args).getD "bad-op"
  | "cb" :: args => (CbDriver.run args).getD "bad-op"
  | "slo" :: args => (SloDriver.run args).getD "bad-op"
  | "aq" :: args => (AqDriver.run args).getD "bad-op"
  | "md" :: args => (MdDriver.run args).getD "bad-op"
  | "lib" :: args => (LibDriver.run args).getD "bad-op"
  | "chk" :: args => (ChkDriver.run args).getD "bad-op"
  | _ => "bad-op"

end Driver
