import SamlModel.Lib.Xml
import SamlModel.Lemmas.XmlEscape
set_option linter.unusedSimpArgs false
set_option linter.unusedVariables false
/-! Frame lemmas for the reference XML tokenizer and the round-trip theorem for printed trees. -/
namespace Lib.Xml
open Lib

/-! ### `run` -/

theorem run_nil (st : St) : run st [] = (st, []) := rfl

def runAcc (acc : St × List Ev) (s : Str) : St × List Ev :=
  s.foldl (fun (acc : St × List Ev) c => let (s', ev) := step acc.1 c; (s', acc.2 ++ ev)) acc

theorem runAcc_eq (st : St) (pre : List Ev) (s : Str) : runAcc (st, pre) s = ((run st s).1, pre ++ (run st s).2) := by
  induction s generalizing st pre with
  | nil => simp [runAcc, run]
  | cons x xs ih =>
    have h1 : runAcc (st, pre) (x :: xs) = runAcc ((step st x).1, pre ++ (step st x).2) xs := by simp [runAcc]
    have h2 : run st (x :: xs) = runAcc ((step st x).1, [] ++ (step st x).2) xs := by simp [run, runAcc]
    rw [h1, h2, ih, ih]; simp [List.append_assoc]

theorem run_cons (st : St) (x : Char) (xs : Str) :
    run st (x :: xs) = ((run (step st x).1 xs).1, (step st x).2 ++ (run (step st x).1 xs).2) := by
  have h2 : run st (x :: xs) = runAcc ((step st x).1, [] ++ (step st x).2) xs := by simp [run, runAcc]
  rw [h2, runAcc_eq]; simp

theorem run_append (st : St) (a b : Str) :
    run st (a ++ b) = ((run (run st a).1 b).1, (run st a).2 ++ (run (run st a).1 b).2) := by
  induction a generalizing st with
  | nil => simp [run_nil]
  | cons x xs ih => rw [List.cons_append, run_cons, ih, run_cons]; simp [List.append_assoc]

/-- sequencing: if `a` leads from `s0` to `s1` with events `e1`, and `b` from `s1` to `s2` with `e2` … -/
theorem run_seq (s0 s1 s2 : St) (a b : Str) (e1 e2 : List Ev) (h1 : run s0 a = (s1, e1)) (h2 : run s1 b = (s2, e2)) :
    run s0 (a ++ b) = (s2, e1 ++ e2) := by
  rw [run_append, h1]; simp [h2]

/-! ### character data -/

theorem escapeChar_cases (c : Char) :
    (c = '"' ∨ c = '\'' ∨ c = '&' ∨ c = '<' ∨ c = '>' ∨ c = '\t' ∨ c = '\n' ∨ c = '\r') ∨
    (c ≠ '"' ∧ c ≠ '\'' ∧ c ≠ '&' ∧ c ≠ '<' ∧ c ≠ '>' ∧ c ≠ '\t' ∧ c ≠ '\n' ∧ c ≠ '\r') := by
  by_cases h1 : c = '"' <;> by_cases h2 : c = '\'' <;> by_cases h3 : c = '&' <;> by_cases h4 : c = '<' <;>
  by_cases h5 : c = '>' <;> by_cases h6 : c = '\t' <;> by_cases h7 : c = '\n' <;> by_cases h8 : c = '\r' <;> simp_all

theorem repl_plain : replacementChar ≠ '<' ∧ replacementChar ≠ '&' ∧ replacementChar ≠ '\r' ∧ replacementChar ≠ '\n' ∧
    replacementChar ≠ '"' ∧ replacementChar ≠ '\'' ∧ replacementChar ≠ '\t' := by decide

/-- one escaped character, read as content, is reported as the (sanitised) character -/
theorem run_content_escapeChar (c : Char) : run {} (escapeChar c) = ({}, [.chr (sanitizeChar c)]) := by
  rcases escapeChar_cases c with h | ⟨h1, h2, h3, h4, h5, h6, h7, h8⟩
  · rcases h with rfl | rfl | rfl | rfl | rfl | rfl | rfl | rfl <;> decide
  · unfold escapeChar sanitizeChar
    simp only [h1, h2, h3, h4, h5, h6, h7, h8, if_false]
    by_cases hx : isXmlChar c = true
    · simp only [hx, if_true]
      rw [run_cons]
      have : step {} c = ({}, [.chr c]) := by simp [step, h3, h4, h7, h8]
      rw [this]; simp [run_nil]
    · simp only [hx, if_false, Bool.false_eq_true]
      rw [run_cons]
      obtain ⟨r1, r2, r3, r4, _⟩ := repl_plain
      have : step {} replacementChar = ({}, [.chr replacementChar]) := by simp [step, r1, r2, r3, r4]
      rw [this]; simp [run_nil]

theorem run_content_escape (s : Str) : run {} (escapeChars s) = ({}, (sanitize s).map .chr) := by
  induction s with
  | nil => simp [escapeChars, sanitize, run_nil]
  | cons c cs ih =>
    have : escapeChars (c :: cs) = escapeChar c ++ escapeChars cs := by simp [escapeChars]
    rw [this, run_seq _ _ _ _ _ _ _ (run_content_escapeChar c) ih]
    simp [sanitize]

/-! ### attribute values -/

theorem escapeChar_plain (c : Char) : ∀ x ∈ escapeChar c, x ≠ '<' ∧ x ≠ '"' ∧ x ≠ '\t' ∧ x ≠ '\n' ∧ x ≠ '\r' := by
  intro x hx
  rcases escapeChar_cases c with h | ⟨h1, h2, h3, h4, h5, h6, h7, h8⟩
  · rcases h with rfl | rfl | rfl | rfl | rfl | rfl | rfl | rfl <;>
      (simp [escapeChar] at hx; rcases hx with rfl | rfl | rfl | rfl | rfl <;> decide)
  · unfold escapeChar at hx
    simp only [h1, h2, h3, h4, h5, h6, h7, h8, if_false] at hx
    obtain ⟨r1, r2, r3, r4, r5, r6, r7⟩ := repl_plain
    split at hx <;> (simp at hx; subst hx)
    · exact ⟨h4, h1, h6, h7, h8⟩
    · exact ⟨r1, r5, r7, r4, r3⟩

theorem escapeChars_plain (s : Str) : ∀ x ∈ escapeChars s, x ≠ '<' ∧ x ≠ '"' ∧ x ≠ '\t' ∧ x ≠ '\n' ∧ x ≠ '\r' := by
  intro x hx
  obtain ⟨c, _, hc⟩ := List.mem_flatMap.mp hx
  exact escapeChar_plain c x hc

/-- attribute-value normalisation leaves a string without literal tab / LF / CR alone -/
theorem normAttr_plain (w : Str) (h : ∀ x ∈ w, x ≠ '\t' ∧ x ≠ '\n' ∧ x ≠ '\r') : normAttr w = w := by
  have key : ∀ (w pre : Str), (∀ x ∈ w, x ≠ '\t' ∧ x ≠ '\n' ∧ x ≠ '\r') → w.foldl normAttrStep (pre, false) = (pre ++ w, false) := by
    intro w
    induction w with
    | nil => intro pre _; simp
    | cons x xs ih =>
      intro pre h
      obtain ⟨h1, h2, h3⟩ := h x (by simp)
      simp only [List.foldl_cons]
      have : normAttrStep (pre, false) x = (pre ++ [x], false) := by simp [normAttrStep, h1, h2, h3]
      rw [this, ih (pre ++ [x]) (fun y hy => h y (by simp [hy]))]
      simp
  unfold normAttr
  rw [key w [] h]; simp

theorem decodeAttr_escape (s : Str) : decodeAttr (escapeChars s) = some (sanitize s) := by
  unfold decodeAttr
  rw [normAttr_plain _ (fun x hx => let h := escapeChars_plain s x hx; ⟨h.2.2.1, h.2.2.2.1, h.2.2.2.2⟩)]
  exact refUnescape_escape s

/-- inside a double-quoted value, characters other than `"` and `<` are only collected -/
theorem run_dq_body (n a v w : Str) (hw : ∀ x ∈ w, x ≠ '"' ∧ x ≠ '<') :
    run { mode := .valDq, name := n, aname := a, val := v } w = ({ mode := .valDq, name := n, aname := a, val := v ++ w }, []) := by
  induction w generalizing v with
  | nil => simp [run_nil]
  | cons x xs ih =>
    obtain ⟨h1, h2⟩ := hw x (by simp)
    rw [run_cons]
    have hs : step { mode := .valDq, name := n, aname := a, val := v } x = ({ mode := .valDq, name := n, aname := a, val := v ++ [x] }, []) := by
      simp [step, h1, h2]
    rw [hs, ih (v ++ [x]) (fun y hy => hw y (by simp [hy]))]
    simp [List.append_assoc]

/-- characters of a name -/
theorem run_name_chars (m : Mode) (hm : m = .openName ∨ m = .closeName) (pre w : Str) (hw : ∀ x ∈ w, isNameChar x = true) :
    run { mode := m, name := pre } w = ({ mode := m, name := pre ++ w }, []) := by
  induction w generalizing pre with
  | nil => simp [run_nil]
  | cons x xs ih =>
    rw [run_cons]
    have hx := hw x (by simp)
    have hs : step { mode := m, name := pre } x = ({ mode := m, name := pre ++ [x] }, []) := by
      rcases hm with rfl | rfl <;> simp [step, hx]
    rw [hs, ih (pre ++ [x]) (fun y hy => hw y (by simp [hy]))]
    simp [List.append_assoc]

theorem run_aname_chars (n pre w : Str) (hw : ∀ x ∈ w, isNameChar x = true) :
    run { mode := .attrName, name := n, aname := pre } w = ({ mode := .attrName, name := n, aname := pre ++ w }, []) := by
  induction w generalizing pre with
  | nil => simp [run_nil]
  | cons x xs ih =>
    rw [run_cons]
    have hx := hw x (by simp)
    have hs : step { mode := .attrName, name := n, aname := pre } x = ({ mode := .attrName, name := n, aname := pre ++ [x] }, []) := by
      simp [step, hx]
    rw [hs, ih (pre ++ [x]) (fun y hy => hw y (by simp [hy]))]
    simp [List.append_assoc]

theorem nameStart_nameChar (c : Char) (h : isNameStart c = true) : isNameChar c = true := by simp [isNameChar, h]

theorem validName_cons (n : Str) (h : validName n = true) : ∃ c t, n = c :: t ∧ isNameStart c = true ∧ ∀ x ∈ t, isNameChar x = true := by
  cases n with
  | nil => simp [validName] at h
  | cons c t =>
    simp [validName] at h
    exact ⟨c, t, rfl, h.1, h.2⟩

/-- a name start character is none of the punctuation the tag states test first -/
theorem nameStart_not_punct (c : Char) (h : isNameStart c = true) :
    c ≠ '/' ∧ c ≠ '?' ∧ c ≠ '!' ∧ c ≠ '>' ∧ c ≠ ' ' ∧ c ≠ '\t' ∧ c ≠ '\n' ∧ c ≠ '\r' ∧ c ≠ '=' ∧ isWs c = false := by
  refine ⟨?_, ?_, ?_, ?_, ?_, ?_, ?_, ?_, ?_, ?_⟩
  all_goals first
    | (intro he; subst he; revert h; decide)
    | (cases hw : isWs c with
        | false => rfl
        | true =>
          simp [isWs] at hw
          rcases hw with ((rfl | rfl) | rfl) | rfl <;> (revert h; decide))

/-! ### tags -/

def attrEv (a : Str × Str) : Ev := .attr a.1 (sanitize a.2)

theorem not_nameChar_punct : isNameChar '=' = false ∧ isNameChar ' ' = false ∧ isNameChar '>' = false ∧ isNameChar '"' = false ∧
    isWs '=' = false ∧ isWs '>' = false ∧ isWs '"' = false ∧ isWs ' ' = true := by decide

/-- one attribute, read after the white space that precedes it -/
theorem run_attr (n : Str) (a : Str × Str) (ha : validName a.1 = true) :
    run { mode := .beforeAttr, name := n } (a.1 ++ ['=', '"'] ++ escapeChars a.2 ++ ['"']) =
      ({ mode := .afterVal, name := n }, [attrEv a]) := by
  obtain ⟨c, t, hct, hc, ht⟩ := validName_cons a.1 ha
  obtain ⟨p1, p2, p3, p4, p5, p6, p7, p8, p9, p10⟩ := nameStart_not_punct c hc
  obtain ⟨q1, q2, q3, q4, q5, q6, q7, q8⟩ := not_nameChar_punct
  rw [hct]
  have e1 : run { mode := .beforeAttr, name := n } [c] = ({ mode := .attrName, name := n, aname := [c] }, []) := by
    rw [run_cons]; simp [step, p10, p4, p1, hc, run_nil]
  have e2 := run_aname_chars n [c] t ht
  have e3 : run { mode := .attrName, name := n, aname := [c] ++ t } ['=', '"'] = ({ mode := .valDq, name := n, aname := [c] ++ t, val := [] }, []) := by
    rw [run_cons]
    have s1 : step { mode := .attrName, name := n, aname := [c] ++ t } '=' = ({ mode := .beforeVal, name := n, aname := [c] ++ t }, []) := by
      simp [step, q1]
    rw [s1, run_cons]
    have s2 : step { mode := .beforeVal, name := n, aname := [c] ++ t } '"' = ({ mode := .valDq, name := n, aname := [c] ++ t, val := [] }, []) := by
      simp [step, q7]
    rw [s2]; simp [run_nil]
  have e4 := run_dq_body n ([c] ++ t) [] (escapeChars a.2) (fun x hx => let h := escapeChars_plain a.2 x hx; ⟨h.2.1, h.1⟩)
  have e5 : run { mode := .valDq, name := n, aname := [c] ++ t, val := [] ++ escapeChars a.2 } ['"'] =
      ({ mode := .afterVal, name := n }, [.attr ([c] ++ t) (sanitize a.2)]) := by
    rw [run_cons]
    have s1 : step { mode := .valDq, name := n, aname := [c] ++ t, val := [] ++ escapeChars a.2 } '"' =
        ({ mode := .afterVal, name := n }, [.attr ([c] ++ t) (sanitize a.2)]) := by
      simp [step, decodeAttr_escape]
    rw [s1]; simp [run_nil]
  have := run_seq _ _ _ _ _ _ _ (run_seq _ _ _ _ _ _ _ (run_seq _ _ _ _ _ _ _ (run_seq _ _ _ _ _ _ _ e1 e2) e3) e4) e5
  simp only [List.nil_append, List.append_nil] at this
  have hl : c :: t ++ ['=', '"'] ++ escapeChars a.2 ++ ['"'] = [c] ++ t ++ ['=', '"'] ++ escapeChars a.2 ++ ['"'] := by simp
  rw [hl, this]
  simp [attrEv, hct]

/-- further attributes, each preceded by one space -/
theorem run_attrs (n : Str) (attrs : List (Str × Str)) (h : ∀ a ∈ attrs, validName a.1 = true) :
    run { mode := .afterVal, name := n } (attrs.flatMap printAttr) = ({ mode := .afterVal, name := n }, attrs.map attrEv) := by
  induction attrs with
  | nil => simp [run_nil]
  | cons a rest ih =>
    have hsp : run { mode := .afterVal, name := n } [' '] = ({ mode := .beforeAttr, name := n }, []) := by
      rw [run_cons]; simp [step, isWs, run_nil]
    have ha := run_attr n a (h a (by simp))
    have hr := ih (fun x hx => h x (by simp [hx]))
    have := run_seq _ _ _ _ _ _ _ (run_seq _ _ _ _ _ _ _ hsp ha) hr
    have hl : (a :: rest).flatMap printAttr = [' '] ++ (a.1 ++ ['=', '"'] ++ escapeChars a.2 ++ ['"']) ++ rest.flatMap printAttr := by
      simp [printAttr, List.append_assoc]
    rw [hl, this]; simp

theorem run_open (n ns : Str) (attrs : List (Str × Str)) (hn : validName n = true) (h : ∀ a ∈ attrs, validName a.1 = true) :
    run {} (printOpen n ns attrs) = ({}, [.open n] ++ attrEvents ns attrs ++ [.openEnd]) := by
  obtain ⟨c, t, hct, hc, ht⟩ := validName_cons n hn
  obtain ⟨p1, p2, p3, p4, p5, p6, p7, p8, p9, p10⟩ := nameStart_not_punct c hc
  obtain ⟨q1, q2, q3, q4, q5, q6, q7, q8⟩ := not_nameChar_punct
  have hall : ∀ a ∈ allAttrs ns attrs, validName a.1 = true := by
    intro a ha
    unfold allAttrs at ha
    by_cases hns : ns = []
    · simp [hns] at ha; exact h a ha
    · simp [hns] at ha
      rcases ha with rfl | ha
      · show validName "xmlns".toList = true; decide
      · exact h a ha
  have e1 : run {} ('<' :: n) = ({ mode := .openName, name := n }, []) := by
    rw [hct, run_cons]
    have s1 : step {} '<' = ({ mode := .lt }, []) := by simp [step]
    rw [s1, run_cons]
    have s2 : step { mode := .lt } c = ({ mode := .openName, name := [c] }, []) := by simp [step, p1, p2, p3, hc]
    rw [s2, run_name_chars .openName (Or.inl rfl) [c] t ht]
    simp
  unfold printOpen attrEvents
  generalize allAttrs ns attrs = al at hall
  cases al with
  | nil =>
    have e2 : run { mode := .openName, name := n } ['>'] = ({}, [.open n, .openEnd]) := by
      rw [run_cons]
      have : step { mode := .openName, name := n } '>' = ({}, [.open n, .openEnd]) := by simp [step, q3, q6]
      rw [this]; simp [run_nil]
    have := run_seq _ _ _ _ _ _ _ e1 e2
    simpa using this
  | cons a rest =>
    have e2 : run { mode := .openName, name := n } [' '] = ({ mode := .beforeAttr, name := n }, [.open n]) := by
      rw [run_cons]
      have : step { mode := .openName, name := n } ' ' = ({ mode := .beforeAttr, name := n }, [.open n]) := by simp [step, q2, q8]
      rw [this]; simp [run_nil]
    have e3 := run_attr n a (hall a (by simp))
    have e4 := run_attrs n rest (fun x hx => hall x (by simp [hx]))
    have e5 : run { mode := .afterVal, name := n } ['>'] = ({}, [.openEnd]) := by
      rw [run_cons]
      have : step { mode := .afterVal, name := n } '>' = ({}, [.openEnd]) := by simp [step, q6]
      rw [this]; simp [run_nil]
    have := run_seq _ _ _ _ _ _ _ (run_seq _ _ _ _ _ _ _ (run_seq _ _ _ _ _ _ _ (run_seq _ _ _ _ _ _ _ e1 e2) e3) e4) e5
    have hl : ['<'] ++ n ++ (a :: rest).flatMap printAttr ++ ['>'] =
        '<' :: n ++ [' '] ++ (a.1 ++ ['=', '"'] ++ escapeChars a.2 ++ ['"']) ++ rest.flatMap printAttr ++ ['>'] := by
      simp [printAttr, List.append_assoc]
    rw [hl, this]
    simp [attrEv]

theorem run_close (n : Str) (hn : validName n = true) : run {} (printClose n) = ({}, [.close n]) := by
  obtain ⟨c, t, hct, hc, ht⟩ := validName_cons n hn
  obtain ⟨q1, q2, q3, q4, q5, q6, q7, q8⟩ := not_nameChar_punct
  have hall : ∀ x ∈ n, isNameChar x = true := by
    intro x hx; rw [hct] at hx; simp at hx
    rcases hx with rfl | hx
    · exact nameStart_nameChar _ hc
    · exact ht x hx
  unfold printClose
  have e1 : run {} ['<', '/'] = ({ mode := .closeName, name := [] }, []) := by decide
  have e2 := run_name_chars .closeName (Or.inr rfl) [] n hall
  have e3 : run { mode := .closeName, name := [] ++ n } ['>'] = ({}, [.close n]) := by
    rw [run_cons]
    have : step { mode := .closeName, name := [] ++ n } '>' = ({}, [.close n]) := by simp [step, q3]
    rw [this]; simp [run_nil]
  have := run_seq _ _ _ _ _ _ _ (run_seq _ _ _ _ _ _ _ e1 e2) e3
  simpa using this

/-! ### trees -/

mutual
/-- every element and attribute name is an XML `Name`, and there is no verbatim (`innerxml`) content -/
def namesOk : Node → Bool
  | .elem name _ attrs kids => validName name && attrs.all (fun a => validName a.1) && namesOkF kids
  | .text _ => true
  | .raw _ => false
def namesOkF : Forest → Bool
  | .nil => true
  | .cons n f => namesOk n && namesOkF f
end

mutual
/-- **round trip**: the reference tokenizer reads back from the printed tree exactly the tree's events — same names and
    nesting, every value sanitised and nothing else -/
theorem run_print (n : Node) (h : namesOk n = true) : run {} (print n) = ({}, events n) := by
  match n with
  | .elem name ns attrs kids =>
    simp only [namesOk, Bool.and_eq_true, List.all_eq_true] at h
    obtain ⟨⟨h1, h2⟩, h3⟩ := h
    have e1 := run_open name ns attrs h1 h2
    have e2 := run_printForest kids h3
    have e3 := run_close name h1
    have := run_seq _ _ _ _ _ _ _ (run_seq _ _ _ _ _ _ _ e1 e2) e3
    simp only [print, events]
    rw [this]
  | .text s => simp only [print, events]; exact run_content_escape s
  | .raw s => simp [namesOk] at h
theorem run_printForest (f : Forest) (h : namesOkF f = true) : run {} (printForest f) = ({}, eventsForest f) := by
  match f with
  | .nil => simp [printForest, eventsForest, run_nil]
  | .cons n f =>
    simp only [namesOkF, Bool.and_eq_true] at h
    have := run_seq _ _ _ _ _ _ _ (run_print n h.1) (run_printForest f h.2)
    simp only [printForest, eventsForest]
    exact this
end

theorem run_header : run {} header = ({}, [.pi, .chr '\n']) := by decide

/-- the token stream of a marshalled document -/
theorem tokens_doc (n : Node) (h : namesOk n = true) : tokens (header ++ print n) = [.pi, .chr '\n'] ++ events n := by
  unfold tokens
  rw [run_seq _ _ _ _ _ _ _ run_header (run_print n h)]
  simp

/-! ### well-formedness -/

def wfRun (w : WfSt) (evs : List Ev) : WfSt := evs.foldl wfStep w

theorem wfRun_append (w : WfSt) (a b : List Ev) : wfRun w (a ++ b) = wfRun (wfRun w a) b := by simp [wfRun]

theorem wfRun_attrs (w : WfSt) (hs : w.stack ≠ []) (l : List (Str × Str)) : wfRun w (l.map fun a => Ev.attr a.1 (sanitize a.2)) = w := by
  induction l with
  | nil => rfl
  | cons a t ih => simp only [List.map_cons, wfRun, List.foldl_cons] at ih ⊢; simp only [wfStep, hs, if_false]; exact ih

theorem wfRun_chrs (w : WfSt) (hs : w.stack ≠ []) (l : Str) : wfRun w (l.map .chr) = w := by
  induction l with
  | nil => rfl
  | cons a t ih => simp only [List.map_cons, wfRun, List.foldl_cons] at ih ⊢; simp only [wfStep, hs, false_and, if_false]; exact ih

mutual
/-- below an open element, the events of a subtree leave the checker exactly where it was -/
theorem wf_node (n : Node) (w : WfSt) (hs : w.stack ≠ []) (h : namesOk n = true) : wfRun w (events n) = w := by
  match n with
  | .elem name ns attrs kids =>
    simp only [namesOk, Bool.and_eq_true] at h
    simp only [events, attrEvents, wfRun_append]
    have h1 : wfRun w [.open name] = { w with stack := name :: w.stack } := by simp [wfRun, wfStep, hs]
    rw [h1, wfRun_attrs _ (by simp)]
    have h2 : wfRun { w with stack := name :: w.stack } [.openEnd] = { w with stack := name :: w.stack } := by simp [wfRun, wfStep]
    rw [h2, wf_forest kids _ (by simp) h.2]
    simp [wfRun, wfStep]
  | .text s => simp only [events]; exact wfRun_chrs w hs _
  | .raw s => simp [namesOk] at h
theorem wf_forest (f : Forest) (w : WfSt) (hs : w.stack ≠ []) (h : namesOkF f = true) : wfRun w (eventsForest f) = w := by
  match f with
  | .nil => rfl
  | .cons n f =>
    simp only [namesOkF, Bool.and_eq_true] at h
    simp only [eventsForest, wfRun_append]
    rw [wf_node n w hs h.1, wf_forest f w hs h.2]
end

/-- **single well-formed document**: a marshalled element (valid names, no verbatim content) tokenizes to a stream in
    which every end tag matches its start tag, there is exactly one root and nothing but white space around it -/
theorem wellFormed_doc (name ns : Str) (attrs : List (Str × Str)) (kids : Forest) (h : namesOk (.elem name ns attrs kids) = true) :
    wellFormed (tokens (header ++ print (.elem name ns attrs kids))) = true := by
  rw [tokens_doc _ h]
  simp only [namesOk, Bool.and_eq_true] at h
  unfold wellFormed
  show (let w := wfRun {} ([.pi, .chr '\n'] ++ events (.elem name ns attrs kids)); (w.ok && decide (w.stack = [])) && decide (w.roots = 1)) = true
  simp only [events, attrEvents, wfRun_append]
  have h0 : wfRun {} [.pi, .chr '\n'] = {} := by decide
  have h1 : wfRun {} [.open name] = { stack := [name], roots := 1 } := by simp [wfRun, wfStep]
  rw [h0, h1, wfRun_attrs _ (by simp)]
  have h2 : wfRun { stack := [name], roots := 1 } [.openEnd] = { stack := [name], roots := 1 } := by simp [wfRun, wfStep]
  rw [h2, wf_forest kids _ (by simp) h.2]
  simp [wfRun, wfStep]

/-! ### data cannot change the structure -/

mutual
/-- the same tree with every value emptied -/
def blank : Node → Node
  | .elem name ns attrs kids => .elem name ns (attrs.map fun a => (a.1, [])) (blankF kids)
  | .text _ => .text []
  | .raw s => .raw s
def blankF : Forest → Forest
  | .nil => .nil
  | .cons n f => .cons (blank n) (blankF f)
end

theorem skeleton_append (a b : List Ev) : skeleton (a ++ b) = skeleton a ++ skeleton b := by simp [skeleton]

theorem skeleton_chrs (l : Str) : skeleton (l.map .chr) = [] := by
  induction l with
  | nil => rfl
  | cons a t ih => simp [skeleton] at ih ⊢

theorem skeleton_attrs (l : List (Str × Str)) :
    skeleton (l.map fun a => Ev.attr a.1 (sanitize a.2)) = l.map fun a => Ev.attr a.1 [] := by
  induction l with
  | nil => rfl
  | cons a t ih => simp [skeleton] at ih ⊢; exact ih

mutual
/-- the names, attribute names and nesting reported by the tokenizer do not depend on any value -/
theorem skeleton_blank (n : Node) : skeleton (events n) = skeleton (events (blank n)) := by
  match n with
  | .elem name ns attrs kids =>
    simp only [events, blank, attrEvents, skeleton_append, skeleton_attrs]
    rw [skeleton_blankF kids]
    by_cases hns : ns = [] <;> simp [allAttrs, hns, Function.comp_def, sanitize]
  | .text s => simp only [events, blank]; rw [skeleton_chrs, skeleton_chrs]
  | .raw s => rfl
theorem skeleton_blankF (f : Forest) : skeleton (eventsForest f) = skeleton (eventsForest (blankF f)) := by
  match f with
  | .nil => rfl
  | .cons n f => simp only [eventsForest, blankF, skeleton_append]; rw [skeleton_blank n, skeleton_blankF f]
end

end Lib.Xml
