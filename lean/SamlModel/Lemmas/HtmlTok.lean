import SamlModel.Lib.HtmlTok
import SamlModel.Lemmas.Html
set_option linter.unusedSimpArgs false
set_option linter.unusedVariables false
/-! Frame lemmas for the HTML tokenizer slice and the newline normaliser. -/
namespace Lib.HtmlTok
open Lib.Html

open Lean in
/-- byte-string literal, expanded to a numeric list when the file is elaborated -/
macro:max "b!" s:str : term => do
  let bytes := s.getString.toUTF8.toList
  let elems ← bytes.toArray.mapM fun b => `(($(Syntax.mkNumLit (toString b.toNat)) : UInt8))
  `(([$elems,*] : List UInt8))

/-! ### `run` -/

theorem run_nil (sc : Bool) (st : St) : run sc st [] = (st, []) := rfl

def runAcc (sc : Bool) (acc : St × List Event) (bs : Lib.Bytes) : St × List Event :=
  bs.foldl (fun (acc : St × List Event) x => let (s', ev) := step sc acc.1 x; (s', acc.2 ++ ev)) acc

theorem runAcc_eq (sc : Bool) (st : St) (pre : List Event) (bs : Lib.Bytes) :
    runAcc sc (st, pre) bs = ((run sc st bs).1, pre ++ (run sc st bs).2) := by
  induction bs generalizing st pre with
  | nil => simp [runAcc, run]
  | cons x xs ih =>
    have h1 : runAcc sc (st, pre) (x :: xs) = runAcc sc ((step sc st x).1, pre ++ (step sc st x).2) xs := by
      simp [runAcc, List.foldl_cons]
    have h2 : run sc st (x :: xs) = runAcc sc ((step sc st x).1, [] ++ (step sc st x).2) xs := by
      simp [run, runAcc, List.foldl_cons]
    rw [h1, h2, ih, ih]
    simp [List.append_assoc]

theorem run_cons (sc : Bool) (st : St) (x : UInt8) (xs : Lib.Bytes) :
    run sc st (x :: xs) = ((run sc (step sc st x).1 xs).1, (step sc st x).2 ++ (run sc (step sc st x).1 xs).2) := by
  have h2 : run sc st (x :: xs) = runAcc sc ((step sc st x).1, [] ++ (step sc st x).2) xs := by
    simp [run, runAcc, List.foldl_cons]
  rw [h2, runAcc_eq]; simp

theorem run_append (sc : Bool) (st : St) (a c : Lib.Bytes) :
    run sc st (a ++ c) = ((run sc (run sc st a).1 c).1, (run sc st a).2 ++ (run sc (run sc st a).1 c).2) := by
  induction a generalizing st with
  | nil => simp [run_nil]
  | cons x xs ih =>
    rw [List.cons_append, run_cons, ih, run_cons]
    simp [List.append_assoc]

/-- inside a double-quoted attribute value, bytes other than `"` are only collected -/
theorem run_dq_body (sc : Bool) (e : Bool) (n a v w : Lib.Bytes) (hw : ∀ x ∈ w, x ≠ 0x22) :
    run sc { mode := .attrValDq, isEnd := e, name := n, aname := a, val := v } w =
      ({ mode := .attrValDq, isEnd := e, name := n, aname := a, val := v ++ w }, []) := by
  induction w generalizing v with
  | nil => simp [run_nil]
  | cons x xs ih =>
    have hx : x ≠ 0x22 := hw x (by simp)
    rw [run_cons]
    have hs : step sc { mode := .attrValDq, isEnd := e, name := n, aname := a, val := v } x =
        ({ mode := .attrValDq, isEnd := e, name := n, aname := a, val := v ++ [x] }, []) := by
      simp [step, hx]
    rw [hs]
    simp only [List.nil_append]
    rw [ih (v ++ [x]) (fun y hy => hw y (by simp [hy]))]
    simp [List.append_assoc]

/-- **one hole**: an escaped value followed by the closing quote yields exactly one attribute event, whose value is the
    substituted value (NUL ↦ U+FFFD), and leaves the tokenizer in the after-attribute-value state -/
theorem run_hole (sc : Bool) (n a v rest : Lib.Bytes) (ha : a ≠ []) :
    run sc { mode := .attrValDq, isEnd := false, name := n, aname := a, val := [] } (attrEscape v ++ 0x22 :: rest) =
      ((run sc { mode := .afterAttrValQ, isEnd := false, name := n, aname := [], val := [] } rest).1,
       Event.attr a (nulToFFFD v) :: (run sc { mode := .afterAttrValQ, isEnd := false, name := n, aname := [], val := [] } rest).2) := by
  rw [run_append, run_dq_body sc false n a [] (attrEscape v) (fun x hx => (attrEscape_safe v x hx).1), run_cons]
  have hs : step sc { mode := .attrValDq, isEnd := false, name := n, aname := a, val := [] ++ attrEscape v } 0x22 =
      ({ mode := .afterAttrValQ, isEnd := false, name := n, aname := [], val := [] }, [Event.attr a (nulToFFFD v)]) := by
    simp [step, flushAttr, ha, attr_roundtrip]
  rw [hs]
  simp

/-! ### newline normalisation -/

def nlAcc (acc : Bool × Lib.Bytes) (bs : Lib.Bytes) : Bool × Lib.Bytes :=
  bs.foldl (fun (acc : Bool × Lib.Bytes) x => let (p, o) := nlStep acc.1 x; (p, acc.2 ++ o)) acc

theorem nlAcc_eq (p : Bool) (pre bs : Lib.Bytes) : nlAcc (p, pre) bs = ((nlRun p bs).1, pre ++ (nlRun p bs).2) := by
  induction bs generalizing p pre with
  | nil => simp [nlAcc, nlRun]
  | cons x xs ih =>
    have h1 : nlAcc (p, pre) (x :: xs) = nlAcc ((nlStep p x).1, pre ++ (nlStep p x).2) xs := by simp [nlAcc]
    have h2 : nlRun p (x :: xs) = nlAcc ((nlStep p x).1, [] ++ (nlStep p x).2) xs := by simp [nlRun, nlAcc]
    rw [h1, h2, ih, ih]; simp [List.append_assoc]

theorem nlRun_cons (p : Bool) (x : UInt8) (xs : Lib.Bytes) :
    nlRun p (x :: xs) = ((nlRun (nlStep p x).1 xs).1, (nlStep p x).2 ++ (nlRun (nlStep p x).1 xs).2) := by
  have h2 : nlRun p (x :: xs) = nlAcc ((nlStep p x).1, [] ++ (nlStep p x).2) xs := by simp [nlRun, nlAcc]
  rw [h2, nlAcc_eq]; simp

theorem nlRun_append (p : Bool) (a c : Lib.Bytes) :
    nlRun p (a ++ c) = ((nlRun (nlRun p a).1 c).1, (nlRun p a).2 ++ (nlRun (nlRun p a).1 c).2) := by
  induction a generalizing p with
  | nil => simp [nlRun]
  | cons x xs ih => rw [List.cons_append, nlRun_cons, ih, nlRun_cons]; simp [List.append_assoc]

/-- a non-empty string without CR and LF is unchanged and leaves the normaliser in its rest state -/
theorem nlRun_plain (p : Bool) (w : Lib.Bytes) (hne : w ≠ []) (hw : ∀ y ∈ w, y ≠ 0x0D ∧ y ≠ 0x0A) : nlRun p w = (false, w) := by
  induction w generalizing p with
  | nil => exact absurd rfl hne
  | cons x xs ih =>
    have hx := hw x (by simp)
    rw [nlRun_cons]
    have hs : nlStep p x = (false, [x]) := by simp [nlStep, hx.1, hx.2]
    rw [hs]
    by_cases hxs : xs = []
    · subst hxs; simp [nlRun]
    · rw [ih false hxs (fun y hy => hw y (by simp [hy]))]; simp

/-- a string without CR, read from the rest state, is unchanged (LF stays LF) -/
theorem nlRun_noCR (w : Lib.Bytes) (hw : ∀ y ∈ w, y ≠ 0x0D) : nlRun false w = (false, w) := by
  induction w with
  | nil => rfl
  | cons x xs ih =>
    have hx := hw x (by simp)
    rw [nlRun_cons]
    have hs : nlStep false x = (false, [x]) := by simp [nlStep, hx]
    rw [hs, ih (fun y hy => hw y (by simp [hy]))]; simp

theorem attrEscapeByte_ne_nil (x : UInt8) : attrEscapeByte x ≠ [] := by
  unfold attrEscapeByte; repeat' split
  all_goals simp [fffd]

theorem attrEscapeByte_noNL (x : UInt8) (h1 : x ≠ 0x0D) (h2 : x ≠ 0x0A) : ∀ y ∈ attrEscapeByte x, y ≠ 0x0D ∧ y ≠ 0x0A := by
  intro y hy
  unfold attrEscapeByte at hy
  repeat' split at hy
  all_goals (simp [fffd] at hy)
  all_goals first
    | (subst hy; exact ⟨h1, h2⟩)
    | (rcases hy with rfl | rfl | rfl | rfl | rfl <;> decide)
    | (rcases hy with rfl | rfl | rfl | rfl <;> decide)
    | (rcases hy with rfl | rfl | rfl <;> decide)

/-- the escaper and the newline normaliser commute, byte by byte -/
theorem nlRun_escapeByte (p : Bool) (x : UInt8) :
    nlRun p (attrEscapeByte x) = ((nlStep p x).1, attrEscape (nlStep p x).2) := by
  by_cases h1 : x = 0x0D
  · subst h1; cases p <;> decide
  by_cases h2 : x = 0x0A
  · subst h2; cases p <;> decide
  rw [nlRun_plain p _ (attrEscapeByte_ne_nil x) (attrEscapeByte_noNL x h1 h2)]
  simp [nlStep, h1, h2, attrEscape]

theorem attrEscape_append (a c : Lib.Bytes) : attrEscape (a ++ c) = attrEscape a ++ attrEscape c := by
  simp [attrEscape]

theorem nlRun_escape (p : Bool) (v : Lib.Bytes) : nlRun p (attrEscape v) = ((nlRun p v).1, attrEscape (nlRun p v).2) := by
  induction v generalizing p with
  | nil => simp [attrEscape, nlRun]
  | cons x xs ih =>
    have : attrEscape (x :: xs) = attrEscapeByte x ++ attrEscape xs := by simp [attrEscape]
    rw [this, nlRun_append, nlRun_escapeByte, ih, nlRun_cons]
    simp [attrEscape_append]

theorem normNL_noCR (w : Lib.Bytes) (hw : ∀ y ∈ w, y ≠ 0x0D) : normNL w = w := by
  simp [normNL, nlRun_noCR w hw]

end Lib.HtmlTok
