import SamlModel.Lib.Strings
/-!
  Lemmas.ByteIndex — `strings.Index` on a one-character needle and slicing at the offset it returns are
  `takeWhile` / `dropWhile` on the characters; the offset never exceeds `len(s)`.
-/
namespace Lib

theorem ofList_utf8ByteSize (l : List Char) : (String.ofList l).utf8ByteSize = (l.map Char.utf8Size).sum := by
  induction l with
  | nil => rfl
  | cons c l ih =>
    have : String.ofList (c :: l) = String.singleton c ++ String.ofList l := by
      apply String.toList_inj.mp; simp
    rw [this, String.utf8ByteSize_append, String.utf8ByteSize_singleton, ih]; simp

theorem utf8ByteSize_eq_sum (s : String) : s.utf8ByteSize = (s.toList.map Char.utf8Size).sum := by
  have := ofList_utf8ByteSize s.toList
  simpa using this

def bytesOf (l : List Char) : Nat := (l.map Char.utf8Size).sum

theorem char_size_pos (c : Char) : 0 < c.utf8Size := by
  have := Char.utf8Size_pos c; omega

/-- the offset `indexCharAux` reports, in terms of the prefix before the first `c` -/
theorem indexCharAux_spec (c : Char) (l : List Char) (n : Nat) :
    (c ∈ l → indexCharAux c l n = ((n + bytesOf (l.takeWhile (· != c)) : Nat) : Int)) ∧
    (c ∉ l → indexCharAux c l n = -1) := by
  induction l generalizing n with
  | nil => simp [indexCharAux]
  | cons x xs ih =>
    by_cases hx : x = c
    · subst hx; simp [indexCharAux, bytesOf]
    · have hx' : (x != c) = true := by simpa using hx
      have hcx : ¬ c = x := fun h => hx h.symm
      constructor
      · intro hm
        have hm' : c ∈ xs := by simpa [hcx] using hm
        simp only [indexCharAux, hx, if_false, List.takeWhile_cons, hx', if_true]
        rw [(ih (n + x.utf8Size)).1 hm']
        simp [bytesOf]; omega
      · intro hm
        have hm' : c ∉ xs := by simpa [hcx] using hm
        simp only [indexCharAux, hx, if_false]
        exact (ih _).2 hm'


theorem byteTakeAux_takeWhile (c : Char) (l : List Char) (hm : c ∈ l) :
    byteTakeAux l (bytesOf (l.takeWhile (· != c))) = l.takeWhile (· != c) := by
  induction l with
  | nil => simp at hm
  | cons x xs ih =>
    by_cases hx : x = c
    · subst hx
      have := char_size_pos x
      simp [byteTakeAux, bytesOf]; omega
    · have hx' : (x != c) = true := by simpa using hx
      have hcx : ¬ c = x := fun h => hx h.symm
      have hm' : c ∈ xs := by simpa [hcx] using hm
      simp only [List.takeWhile_cons, hx', if_true, byteTakeAux, bytesOf, List.map_cons, List.sum_cons]
      rw [if_pos (by omega)]
      have : x.utf8Size + (List.map Char.utf8Size (List.takeWhile (fun x => x != c) xs)).sum - x.utf8Size = bytesOf (xs.takeWhile (· != c)) := by
        simp [bytesOf]
      rw [this, ih hm']

theorem byteDropAux_dropWhile (c : Char) (l : List Char) (hm : c ∈ l) :
    byteDropAux l (bytesOf (l.takeWhile (· != c))) = l.dropWhile (· != c) := by
  induction l with
  | nil => simp at hm
  | cons x xs ih =>
    by_cases hx : x = c
    · subst hx
      simp [byteDropAux, bytesOf]
    · have hx' : (x != c) = true := by simpa using hx
      have hcx : ¬ c = x := fun h => hx h.symm
      have hm' : c ∈ xs := by simpa [hcx] using hm
      have hp := char_size_pos x
      simp only [List.takeWhile_cons, List.dropWhile_cons, hx', if_true, byteDropAux, bytesOf, List.map_cons, List.sum_cons]
      rw [if_neg (by omega), if_pos (by omega)]
      have : x.utf8Size + (List.map Char.utf8Size (List.takeWhile (fun x => x != c) xs)).sum - x.utf8Size = bytesOf (xs.takeWhile (· != c)) := by
        simp [bytesOf]
      rw [this, ih hm']

theorem bytesOf_takeWhile_le (p : Char → Bool) (l : List Char) : bytesOf (l.takeWhile p) ≤ bytesOf l := by
  induction l with
  | nil => simp
  | cons x xs ih =>
    simp only [List.takeWhile_cons]
    split
    · simp [bytesOf] at ih ⊢; omega
    · simp [bytesOf]

/-- `strings.Index(s, c) < 0` exactly when `c` does not occur -/
theorem indexChar_neg (s : String) (c : Char) (h : c ∉ s.toList) : indexChar s c = -1 :=
  (indexCharAux_spec c s.toList 0).2 h

theorem indexChar_nonneg (s : String) (c : Char) (h : c ∈ s.toList) :
    indexChar s c = (bytesOf (s.toList.takeWhile (· != c)) : Nat) := by
  have := (indexCharAux_spec c s.toList 0).1 h
  simpa [indexChar] using this

/-- the offset is within the string: slicing at it does not panic -/
theorem indexChar_le_len (s : String) (c : Char) : indexChar s c ≤ goLen s := by
  by_cases h : c ∈ s.toList
  · rw [indexChar_nonneg s c h, goLen, utf8ByteSize_eq_sum]
    have := bytesOf_takeWhile_le (· != c) s.toList
    simp only [bytesOf] at this
    exact Int.ofNat_le.mpr this
  · rw [indexChar_neg s c h, goLen]; omega

/-- `s[:strings.Index(s, c)]` is the part before the first `c` -/
theorem byteTake_indexChar (s : String) (c : Char) (h : c ∈ s.toList) :
    byteTake s (indexChar s c) = String.ofList (s.toList.takeWhile (· != c)) := by
  rw [byteTake, indexChar_nonneg s c h]
  simp [byteTakeAux_takeWhile c s.toList h]

/-- `s[strings.Index(s, c):]` is the part from the first `c` on -/
theorem byteDrop_indexChar (s : String) (c : Char) (h : c ∈ s.toList) :
    byteDrop s (indexChar s c) = String.ofList (s.toList.dropWhile (· != c)) := by
  rw [byteDrop, indexChar_nonneg s c h]
  simp [byteDropAux_dropWhile c s.toList h]

end Lib
