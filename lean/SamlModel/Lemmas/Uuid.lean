import SamlModel.Lib.Uuid
/-! Lemmas.Uuid — every rendering of `NewID` is an NCName. -/
namespace Lib.Uuid

theorem hexLower_nameChar : ∀ n : Fin 16, isNameChar (hexLower n.val) = true := by decide

theorem hexByte_nameChar (b : UInt8) : ∀ c ∈ hexByte b, isNameChar c = true := by
  intro c hc
  simp only [hexByte, List.mem_cons, List.not_mem_nil, or_false] at hc
  rcases hc with rfl | rfl
  · exact hexLower_nameChar ⟨b.toNat / 16, by have := b.toNat_lt; omega⟩
  · exact hexLower_nameChar ⟨b.toNat % 16, by omega⟩

theorem hexBytes_nameChar (bs : List UInt8) : ∀ c ∈ hexBytes bs, isNameChar c = true := by
  intro c hc
  obtain ⟨b, _, hb⟩ := List.mem_flatMap.mp hc
  exact hexByte_nameChar b c hb

theorem render_nameChar (bs : List UInt8) : (render bs).all isNameChar = true := by
  rw [List.all_eq_true]
  intro c hc
  unfold render at hc
  simp only [List.mem_append, List.mem_cons] at hc
  have hd : isNameChar '-' = true := by decide
  rcases hc with ((((h | h | h) | h | h) | h | h) | h | h) <;> first | exact hexBytes_nameChar _ c h | (rw [h]; exact hd)

/-- **every identifier `NewID` can return is a legal xs:ID**, whatever 16 bytes the generator drew (all 2^128 values,
    and any other length) -/
theorem newID_isXsID (bs : List UInt8) : isXsID (newID bs) = true := by
  simp only [newID, isXsID, Bool.and_eq_true]
  exact ⟨by decide, render_nameChar bs⟩

/-- the rendering has the canonical length for 16 bytes -/
theorem render_length (bs : List UInt8) (h : bs.length = 16) : (render bs).length = 36 := by
  have hl : ∀ xs : List UInt8, (hexBytes xs).length = 2 * xs.length := by
    intro xs; induction xs with
    | nil => rfl
    | cons x xs ih => simp only [hexBytes, List.flatMap_cons, List.length_append] at ih ⊢; simp [hexByte, ih]; omega
  unfold render
  simp only [List.length_append, List.length_cons, hl, List.length_take, List.length_drop, h]
  omega
end Lib.Uuid
