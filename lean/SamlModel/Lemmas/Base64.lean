import SamlModel.Lib.Base64
set_option linter.unusedSimpArgs false
/-! Round-trip of the base64 model: `b64decode (b64encode bs) = some bs` for every byte string. -/
namespace Lib

theorem b64Val_b64Char : ∀ n : Fin 64, b64Val (b64Char n.val) = some n.val := by decide

theorem b64Val_b64Char' (n : Nat) (h : n < 64) : b64Val (b64Char n) = some n := b64Val_b64Char ⟨n, h⟩

theorem b64Char_ne_pad : ∀ n : Fin 64, b64Char n.val ≠ '=' ∧ b64Char n.val ≠ '\r' ∧ b64Char n.val ≠ '\n' := by decide

theorem b64Char_ne_pad' (n : Nat) (h : n < 64) : b64Char n ≠ '=' ∧ b64Char n ≠ '\r' ∧ b64Char n ≠ '\n' := b64Char_ne_pad ⟨n, h⟩

/-- decoding what was encoded, on lists of numbers below 256 -/
theorem b64Decode_encode (xs : List Nat) (h : ∀ x ∈ xs, x < 256) : b64DecodeChars (b64EncodeChars xs) = some xs := by
  induction xs using b64EncodeChars.induct with
  | case1 a b c rest ih =>
    have ha := h a (by simp); have hb := h b (by simp); have hc := h c (by simp)
    have hr : ∀ x ∈ rest, x < 256 := fun x hx => h x (by simp [hx])
    have e0 := b64Val_b64Char' (a / 4) (by omega)
    have e1 := b64Val_b64Char' ((a % 4) * 16 + b / 16) (by omega)
    have e2 := b64Val_b64Char' ((b % 16) * 4 + c / 64) (by omega)
    have e3 := b64Val_b64Char' (c % 64) (by omega)
    have p1 := (b64Char_ne_pad' (c % 64) (by omega)).1
    simp only [b64EncodeChars, b64DecodeChars, p1, if_false, e0, e1, e2, e3, ih hr, bind, Option.bind, pure]
    congr 1
    simp
    refine ⟨by omega, by omega, by omega⟩
  | case2 a b =>
    have ha := h a (by simp); have hb := h b (by simp)
    have e0 := b64Val_b64Char' (a / 4) (by omega)
    have e1 := b64Val_b64Char' ((a % 4) * 16 + b / 16) (by omega)
    have e2 := b64Val_b64Char' ((b % 16) * 4) (by omega)
    have p0 := (b64Char_ne_pad' ((b % 16) * 4) (by omega)).1
    simp only [b64EncodeChars, b64DecodeChars, if_true, p0, if_false, e0, e1, e2, bind, Option.bind, pure, ne_eq, not_true_eq_false]
    congr 1
    simp
    refine ⟨by omega, by omega⟩
  | case3 a =>
    have ha := h a (by simp)
    have e0 := b64Val_b64Char' (a / 4) (by omega)
    have e1 := b64Val_b64Char' ((a % 4) * 16) (by omega)
    simp only [b64EncodeChars, b64DecodeChars, if_true, e0, e1, bind, Option.bind, pure, ne_eq, not_true_eq_false, if_false]
    congr 1
    simp
    omega
  | case4 => simp [b64EncodeChars, b64DecodeChars]

/-- the encoder's output contains neither CR nor LF, so the decoder's whitespace filter is the identity on it -/
theorem b64Encode_no_crlf (xs : List Nat) (h : ∀ x ∈ xs, x < 256) :
    (b64EncodeChars xs).filter (fun c => c != '\r' && c != '\n') = b64EncodeChars xs := by
  apply List.filter_eq_self.mpr
  intro c hc
  induction xs using b64EncodeChars.induct with
  | case1 a b c' rest ih =>
    have ha := h a (by simp); have hb := h b (by simp); have hc' := h c' (by simp)
    simp only [b64EncodeChars, List.mem_cons] at hc
    rcases hc with rfl | rfl | rfl | rfl | hc
    · have := b64Char_ne_pad' (a / 4) (by omega); simp [this.2.1, this.2.2]
    · have := b64Char_ne_pad' ((a % 4) * 16 + b / 16) (by omega); simp [this.2.1, this.2.2]
    · have := b64Char_ne_pad' ((b % 16) * 4 + c' / 64) (by omega); simp [this.2.1, this.2.2]
    · have := b64Char_ne_pad' (c' % 64) (by omega); simp [this.2.1, this.2.2]
    · exact ih (fun x hx => h x (by simp [hx])) hc
  | case2 a b =>
    have ha := h a (by simp); have hb := h b (by simp)
    simp only [b64EncodeChars, List.mem_cons, List.mem_nil_iff, or_false] at hc
    rcases hc with rfl | rfl | rfl | rfl
    · have := b64Char_ne_pad' (a / 4) (by omega); simp [this.2.1, this.2.2]
    · have := b64Char_ne_pad' ((a % 4) * 16 + b / 16) (by omega); simp [this.2.1, this.2.2]
    · have := b64Char_ne_pad' ((b % 16) * 4) (by omega); simp [this.2.1, this.2.2]
    · decide
  | case3 a =>
    have ha := h a (by simp)
    simp only [b64EncodeChars, List.mem_cons, List.mem_nil_iff, or_false] at hc
    rcases hc with rfl | rfl | rfl | rfl
    · have := b64Char_ne_pad' (a / 4) (by omega); simp [this.2.1, this.2.2]
    · have := b64Char_ne_pad' ((a % 4) * 16) (by omega); simp [this.2.1, this.2.2]
    · decide
    · decide
  | case4 => simp [b64EncodeChars] at hc

/-- **Base64 round trip**: for every byte string, `DecodeString (EncodeToString bs) = bs` -/
theorem b64decode_encode (bs : Bytes) : b64decode (b64encode bs) = some bs := by
  unfold b64decode b64encode
  have hlt : ∀ x ∈ bs.map (·.toNat), x < 256 := by
    intro x hx
    obtain ⟨b, _, rfl⟩ := List.mem_map.mp hx
    exact b.toNat_lt
  simp only [String.toList_ofList]
  rw [b64Encode_no_crlf _ hlt, b64Decode_encode _ hlt]
  simp [List.map_map, Function.comp_def]

end Lib
