import SamlModel.Lemmas.Url
import SamlModel.Lemmas.Base64
import SamlModel.Generated.Funcs
set_option linter.unusedSimpArgs false
set_option linter.unusedVariables false
/-!
  Lemmas.Redirect — the query string `BuildRedirectQuery` assembles (generated from redirect.go), how it splits
  back into parameters, and what the §3.4.4.1 verifier of Lib.Url reads from it.
-/
namespace Redirect
open Go Gen Lib Lib.Url

/-- `url.QueryEscape s` as characters -/
def E (s : String) : List Char := queryEscapeBytes s.toUTF8.toList

theorem queryEscape_toList (s : String) : (Lib.queryEscape s).toList = E s := by
  simp [Lib.queryEscape, E]

def part (k : List Char) (v : String) : List Char := if v ≠ "" then '&' :: k ++ '=' :: E v else []

/-- the query `BuildRedirectQuery` assembles, as characters -/
def buildQ (resp relay alg sig : String) : List Char :=
  kSAMLResponse ++ '=' :: E resp ++ part kRelayState relay ++ part kSignature sig ++ part kSigAlg alg

theorem k1 : "SAMLResponse=".toList = kSAMLResponse ++ ['='] := by decide
theorem k2 : "&RelayState=".toList = '&' :: kRelayState ++ ['='] := by decide
theorem k3 : "&Signature=".toList = '&' :: kSignature ++ ['='] := by decide
theorem k4 : "&SigAlg=".toList = '&' :: kSigAlg ++ ['='] := by decide

/-- **tie to the source**: the generated `BuildRedirectQuery` is `buildQ` -/
theorem BuildRedirectQuery_eq (o : Ora) (resp relay alg sig : String) :
    BuildRedirectQuery o resp relay alg sig = .ok (String.ofList (buildQ resp relay alg sig)) := by
  unfold BuildRedirectQuery BuildRedirectQuery.body
  by_cases h1 : relay = "" <;> by_cases h2 : sig = "" <;> by_cases h3 : alg = "" <;>
    simp only [h1, h2, h3, Ctl.toRes, Ctl.seq_next, bne_self_eq_false, if_false, Bool.false_eq_true, bne_iff_ne, ne_eq, not_false_eq_true, if_true, not_true_eq_false] <;>
    (congr 1; apply String.toList_inj.mp;
     simp [buildQ, part, h1, h2, h3, String.toList_append, queryEscape_toList, k1, k2, k3, k4])


def escClean (b : UInt8) : Bool :=
  (escByte b).all fun c => c != '&' && c != '=' && c != '?' && c != '#' && decide (c.toNat < 128)
theorem escClean_fin : ∀ n : Fin 256, escClean (UInt8.ofNat n.val) = true := by decide +kernel
theorem escClean_all (b : UInt8) : escClean b = true := by
  have := escClean_fin ⟨b.toNat, b.toNat_lt⟩
  simpa using this

/-- an escaped value contains none of the URL delimiters and is ASCII -/
theorem E_clean (s : String) : ∀ c ∈ E s, c ≠ '&' ∧ c ≠ '=' ∧ c ≠ '?' ∧ c ≠ '#' ∧ c.toNat < 128 := by
  intro c hc
  unfold E at hc
  rw [queryEscapeBytes_eq] at hc
  obtain ⟨b, _, hb⟩ := List.mem_flatMap.mp hc
  have := escClean_all b
  unfold escClean at this
  have := List.all_eq_true.mp this c hb
  simp only [Bool.and_eq_true, bne_iff_ne, ne_eq, decide_eq_true_eq] at this
  exact ⟨this.1.1.1.1, this.1.1.1.2, this.1.1.2, this.1.2, this.2⟩

def renderParams : List (List Char × List Char) → List Char
  | [] => []
  | [(n, v)] => n ++ '=' :: v
  | (n, v) :: p :: rest => (n ++ '=' :: v) ++ '&' :: renderParams (p :: rest)

theorem params_render (ps : List (List Char × List Char)) (hne : ps ≠ [])
    (h : ∀ p ∈ ps, '=' ∉ p.1 ∧ '&' ∉ p.1 ∧ '&' ∉ p.2) : params (renderParams ps) = ps := by
  induction ps with
  | nil => exact absurd rfl hne
  | cons p rest ih =>
    obtain ⟨n, v⟩ := p
    have hp := h (n, v) (by simp)
    cases rest with
    | nil => exact params_last n v hp.1 hp.2.1 hp.2.2
    | cons q rest =>
      show params ((n ++ '=' :: v) ++ '&' :: renderParams (q :: rest)) = _
      rw [params_cons n v _ hp.1 hp.2.1 hp.2.2, ih (by simp) (fun x hx => h x (by simp [hx]))]

def opt (k : List Char) (v : String) : List (List Char × List Char) := if v ≠ "" then [(k, E v)] else []

theorem buildQ_render (resp relay alg sig : String) :
    buildQ resp relay alg sig =
      renderParams ((kSAMLResponse, E resp) :: (opt kRelayState relay ++ opt kSignature sig ++ opt kSigAlg alg)) := by
  by_cases h1 : relay = "" <;> by_cases h2 : sig = "" <;> by_cases h3 : alg = "" <;>
    simp [buildQ, part, opt, h1, h2, h3, renderParams]

theorem buildQ_params (resp relay alg sig : String) :
    params (buildQ resp relay alg sig) =
      (kSAMLResponse, E resp) :: (opt kRelayState relay ++ opt kSignature sig ++ opt kSigAlg alg) := by
  rw [buildQ_render]
  apply params_render _ (by simp)
  intro p hp
  have hk : ∀ k ∈ [kSAMLResponse, kRelayState, kSignature, kSigAlg], '=' ∉ k ∧ '&' ∉ k := by decide
  have hv : ∀ s, '&' ∉ E s := fun s hm => (E_clean s _ hm).1 rfl
  simp only [List.mem_cons, List.mem_append, opt] at hp
  rcases hp with rfl | (hp | hp) | hp
  · exact ⟨(hk _ (by simp)).1, (hk _ (by simp)).2, hv _⟩
  all_goals
    split at hp
    · simp only [List.mem_singleton] at hp; subst hp
      exact ⟨(hk _ (by simp)).1, (hk _ (by simp)).2, hv _⟩
    · simp at hp


theorem E_unescape (s : String) : queryUnescape (E s) = some s.toUTF8.toList := unescape_escape _

theorem b64Char_ascii (n : Nat) : (b64Char n).toNat < 128 := by
  by_cases h : n < 64
  · exact (by decide : ∀ k : Fin 64, (b64Char k.val).toNat < 128) ⟨n, h⟩
  · have : b64Char n = '/' := by
      unfold b64Char
      rw [if_neg (by omega), if_neg (by omega), if_neg (by omega), if_neg (by omega)]
    rw [this]; decide

theorem b64EncodeChars_ascii (xs : List Nat) : ∀ c ∈ b64EncodeChars xs, c.toNat < 128 := by
  induction xs using b64EncodeChars.induct with
  | case1 a b c' rest ih =>
    intro c hc
    simp only [b64EncodeChars, List.mem_cons] at hc
    rcases hc with rfl | rfl | rfl | rfl | hc
    · exact b64Char_ascii _
    · exact b64Char_ascii _
    · exact b64Char_ascii _
    · exact b64Char_ascii _
    · exact ih c hc
  | case2 a b =>
    intro c hc
    simp only [b64EncodeChars, List.mem_cons, List.not_mem_nil, or_false] at hc
    rcases hc with rfl | rfl | rfl | rfl
    · exact b64Char_ascii _
    · exact b64Char_ascii _
    · exact b64Char_ascii _
    · decide
  | case3 a =>
    intro c hc
    simp only [b64EncodeChars, List.mem_cons, List.not_mem_nil, or_false] at hc
    rcases hc with rfl | rfl | rfl | rfl
    · exact b64Char_ascii _
    · exact b64Char_ascii _
    · decide
    · decide
  | case4 => intro c hc; simp [b64EncodeChars] at hc

theorem ascii_char_roundtrip (c : Char) (h : c.toNat < 128) : Char.ofNat (c.val.toUInt8.toNat) = c := by
  have : c.val.toUInt8.toNat = c.toNat := by
    show c.val.toNat % 256 = c.val.toNat
    have : c.val.toNat = c.toNat := rfl
    omega
  rw [this]; exact Char.ofNat_toNat c

/-- base64 text survives escaping, unescaping and the byte→character step -/
theorem sig_roundtrip (sig : List UInt8) :
    (queryUnescape (E (b64encode sig))).bind (fun b => b64decode (String.ofList (b.map fun x => Char.ofNat x.toNat))) = some sig := by
  rw [E_unescape]
  simp only [Option.bind_some]
  have hascii := b64EncodeChars_ascii (sig.map (·.toNat))
  have e : (b64encode sig).toUTF8.toList.map (fun x => Char.ofNat x.toNat) = b64EncodeChars (sig.map (·.toNat)) := by
    unfold b64encode
    rw [ascii_toUTF8 _ hascii, List.map_map]
    conv => rhs; rw [← List.map_id (b64EncodeChars _)]
    apply List.map_congr_left
    intro c hc
    exact ascii_char_roundtrip c (hascii c hc)
  rw [e]
  exact b64decode_encode sig


theorem b64encode_ne_empty (sig : List UInt8) (h : sig ≠ []) : b64encode sig ≠ "" := by
  unfold b64encode
  intro he
  have : b64EncodeChars (sig.map (·.toNat)) = [] := by
    have := congrArg String.toList he
    simpa using this
  cases sig with
  | nil => exact h rfl
  | cons a t => cases t with
    | nil => simp [b64EncodeChars] at this
    | cons b t => cases t with
      | nil => simp [b64EncodeChars] at this
      | cons c t => simp [b64EncodeChars] at this

theorem keys_distinct :
    (kSigAlg == kSAMLResponse) = false ∧ (kSigAlg == kRelayState) = false ∧ (kSigAlg == kSignature) = false ∧
    (kRelayState == kSAMLResponse) = false ∧ (kSignature == kSAMLResponse) = false ∧ (kSignature == kRelayState) = false ∧
    (kRelayState == kSignature) = false ∧ (kRelayState == kSigAlg) = false := by decide

/-- **Redirect binding, the query**: from the query actually sent, an independent implementation of §3.4.4.1
    reconstructs exactly the octets that were signed, the algorithm URI, and the signature value. -/
theorem verify_sent (resp relay alg : String) (sig : List UInt8) (halg : alg ≠ "") (hsig : sig ≠ []) :
    verify (buildQ resp relay alg (b64encode sig)) =
      some { octets := buildQ resp relay alg "", alg := alg.toUTF8.toList, sig := sig } := by
  have hs := b64encode_ne_empty sig hsig
  have hsr := sig_roundtrip sig
  obtain ⟨d1, d2, d3, d4, d5, d6, d7, d8⟩ := keys_distinct
  rw [E_unescape] at hsr
  simp only [Option.bind_some, String.toUTF8_eq_toByteArray] at hsr
  unfold verify verifierOctets verifierAlg verifierSig rawParam
  rw [buildQ_params]
  by_cases h1 : relay = ""
  · simp [opt, h1, hs, halg, List.lookup, d1, d2, d3, d4, d5, d6, d7, d8, E_unescape, buildQ, part, hsr]
  · simp [opt, h1, hs, halg, List.lookup, d1, d2, d3, d4, d5, d6, d7, d8, E_unescape, buildQ, part, hsr]

end Redirect
