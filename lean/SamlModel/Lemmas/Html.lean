import SamlModel.Lib.Html
set_option linter.unusedSimpArgs false
/-! Theorems about the html/template escaper models. -/
namespace Lib.Html

theorem attrRun_append (st : AttrState) (a c : Bytes) : attrRun st (a ++ c) = attrRun (attrRun st a) c := by
  simp [attrRun, List.foldl_append]

/-- **no delimiter**: the attribute escaper's output contains no `"`, `<`, `>`, `'` and no NUL — whatever the input bytes -/
theorem attrEscapeByte_safe (x : UInt8) : ∀ y ∈ attrEscapeByte x, y ≠ 0x22 ∧ y ≠ 0x3C ∧ y ≠ 0x3E ∧ y ≠ 0x27 ∧ y ≠ 0 := by
  intro y hy
  unfold attrEscapeByte at hy
  by_cases h0 : x = 0
  · simp [h0, fffd] at hy; rcases hy with rfl | rfl | rfl <;> decide
  by_cases h1 : x = 0x22
  · simp [h1] at hy; rcases hy with rfl | rfl | rfl | rfl | rfl <;> decide
  by_cases h2 : x = 0x26
  · simp [h2] at hy; rcases hy with rfl | rfl | rfl | rfl | rfl <;> decide
  by_cases h3 : x = 0x27
  · simp [h3] at hy; rcases hy with rfl | rfl | rfl | rfl | rfl <;> decide
  by_cases h4 : x = 0x2B
  · simp [h4] at hy; rcases hy with rfl | rfl | rfl | rfl | rfl <;> decide
  by_cases h5 : x = 0x3C
  · simp [h5] at hy; rcases hy with rfl | rfl | rfl | rfl <;> decide
  by_cases h6 : x = 0x3E
  · simp [h6] at hy; rcases hy with rfl | rfl | rfl | rfl <;> decide
  simp [h0, h1, h2, h3, h4, h5, h6] at hy
  subst hy
  exact ⟨h1, h5, h6, h3, h0⟩

theorem attrEscape_safe (v : Bytes) : ∀ y ∈ attrEscape v, y ≠ 0x22 ∧ y ≠ 0x3C ∧ y ≠ 0x3E ∧ y ≠ 0x27 ∧ y ≠ 0 := by
  intro y hy
  obtain ⟨x, _, hx⟩ := List.mem_flatMap.mp hy
  exact attrEscapeByte_safe x y hx

/-- one source byte: from a clean decoder state its escape decodes to the byte itself (NUL → U+FFFD) -/
theorem attrRun_escapeByte (out : Bytes) (x : UInt8) :
    attrRun { out := out } (attrEscapeByte x) = { out := out ++ (if x = 0 then fffd else [x]) } := by
  unfold attrEscapeByte
  by_cases h0 : x = 0
  · subst h0; simp [attrRun, attrStep, fffd]
  by_cases h1 : x = 0x22
  · subst h1; simp [attrRun, attrStep, resolveCharRef, numOf, decVal, encodeCodePoint, isAlnum]
  by_cases h2 : x = 0x26
  · subst h2; simp [attrRun, attrStep, resolveCharRef, isAlnum]
  by_cases h3 : x = 0x27
  · subst h3; simp [attrRun, attrStep, resolveCharRef, numOf, decVal, encodeCodePoint, isAlnum]
  by_cases h4 : x = 0x2B
  · subst h4; simp [attrRun, attrStep, resolveCharRef, numOf, decVal, encodeCodePoint, isAlnum]
  by_cases h5 : x = 0x3C
  · subst h5; simp [attrRun, attrStep, resolveCharRef, isAlnum]
  by_cases h6 : x = 0x3E
  · subst h6; simp [attrRun, attrStep, resolveCharRef, isAlnum]
  simp [h0, h1, h2, h3, h4, h5, h6, attrRun, attrStep]

theorem attrRun_escape (out : Bytes) (v : Bytes) : attrRun { out := out } (attrEscape v) = { out := out ++ nulToFFFD v } := by
  induction v generalizing out with
  | nil => simp [attrEscape, attrRun, nulToFFFD]
  | cons x xs ih =>
    have : attrEscape (x :: xs) = attrEscapeByte x ++ attrEscape xs := by simp [attrEscape]
    rw [this, attrRun_append, attrRun_escapeByte, ih]
    simp [nulToFFFD, List.append_assoc]

/-- **attribute round trip**: decoding the escaped value gives back exactly the value (NUL replaced by U+FFFD),
    for every byte string -/
theorem attr_roundtrip (v : Bytes) : decodeAttrValue (attrEscape v) = nulToFFFD v := by
  unfold decodeAttrValue
  have := attrRun_escape [] v
  simp only [List.nil_append] at this
  rw [show ({} : AttrState) = { out := [] } from rfl, this]

/-! ### URL normaliser and filter -/

/-- bytes the URL normaliser can emit -/
def urlOut (y : UInt8) : Bool := urlKeep y || y = 0x25 || isHexByte y

theorem hexLower_ok (n : Nat) (h : n < 16) : isHexByte (hexLower n) = true := by
  have : ∀ k : Fin 16, isHexByte (hexLower k.val) = true := by decide
  exact this ⟨n, h⟩

theorem urlNormHead_out (x : UInt8) (rest : Bytes) : ∀ y ∈ urlNormHead x rest, urlOut y = true := by
  intro y hy
  unfold urlNormHead at hy
  split at hy
  · rename_i hk; simp at hy; subst hy; simp [urlOut, hk]
  · split at hy
    · rename_i hp
      have h25 : ∀ y ∈ ([0x25, 0x32, 0x35] : Bytes), urlOut y = true := by decide
      split at hy
      · split at hy
        · simp at hy; subst hy; subst hp; decide
        · exact h25 y hy
      · exact h25 y hy
    · simp only [List.mem_cons, List.not_mem_nil, or_false] at hy
      rcases hy with rfl | rfl | rfl
      · decide
      · have := hexLower_ok (x.toNat / 16) (by have := x.toNat_lt; omega); simp [urlOut, this]
      · have := hexLower_ok (x.toNat % 16) (by omega); simp [urlOut, this]

theorem urlNormalize_out (u : Bytes) : ∀ y ∈ urlNormalize u, urlOut y = true := by
  induction u with
  | nil => intro y hy; simp [urlNormalize] at hy
  | cons x rest ih =>
    intro y hy
    simp only [urlNormalize, List.mem_append] at hy
    rcases hy with hy | hy
    · exact urlNormHead_out x rest y hy
    · exact ih y hy

/-- none of the bytes the normaliser emits is a quote, an angle bracket, a space, a control character or NUL -/
theorem urlOut_safe (y : UInt8) (h : urlOut y = true) : y ≠ 0x22 ∧ y ≠ 0x3C ∧ y ≠ 0x3E ∧ y ≠ 0x27 ∧ y ≠ 0x20 ∧ y ≠ 0 ∧ y ≠ 0x0D ∧ y ≠ 0x0A := by
  have : ∀ k : Fin 256, urlOut (UInt8.ofNat k.val) = true → UInt8.ofNat k.val ≠ 0x22 ∧ UInt8.ofNat k.val ≠ 0x3C ∧ UInt8.ofNat k.val ≠ 0x3E ∧
      UInt8.ofNat k.val ≠ 0x27 ∧ UInt8.ofNat k.val ≠ 0x20 ∧ UInt8.ofNat k.val ≠ 0 ∧ UInt8.ofNat k.val ≠ 0x0D ∧ UInt8.ofNat k.val ≠ 0x0A := by decide +kernel
  have := this ⟨y.toNat, y.toNat_lt⟩
  simp only [UInt8.ofNat_toNat] at this
  exact this h

/-- the URL filter returns its argument or the fail-safe marker; the argument only when it has no protocol or its
    protocol is http, https or mailto (compared case-insensitively) -/
theorem urlFilter_cases (u : Bytes) :
    urlFilter u = failsafe ∨ (urlFilter u = u ∧ (schemeOf u = none ∨ ∃ p, schemeOf u = some p ∧
      (foldProto p = [0x68, 0x74, 0x74, 0x70] ∨ foldProto p = [0x68, 0x74, 0x74, 0x70, 0x73] ∨ foldProto p = [0x6D, 0x61, 0x69, 0x6C, 0x74, 0x6F]))) := by
  unfold urlFilter
  cases hs : schemeOf u with
  | none => exact Or.inr ⟨rfl, Or.inl rfl⟩
  | some p =>
    simp only
    split
    · rename_i h; exact Or.inr ⟨rfl, Or.inr ⟨p, rfl, h⟩⟩
    · exact Or.inl rfl

/-- a `javascript:` or `data:` URL (any letter case) never survives the filter -/
theorem urlFilter_blocks (u p : Bytes) (hs : schemeOf u = some p)
    (hbad : foldProto p ≠ [0x68, 0x74, 0x74, 0x70] ∧ foldProto p ≠ [0x68, 0x74, 0x74, 0x70, 0x73] ∧ foldProto p ≠ [0x6D, 0x61, 0x69, 0x6C, 0x74, 0x6F]) :
    urlFilter u = failsafe := by
  unfold urlFilter
  simp only [hs]
  split
  · rename_i h; rcases h with h | h | h
    · exact absurd h hbad.1
    · exact absurd h hbad.2.1
    · exact absurd h hbad.2.2
  · rfl

example : urlFilter (str "javascript:alert(1)") = failsafe := by decide +kernel
example : urlFilter (str "JaVaScRiPt:alert(1)") = failsafe := by decide +kernel
example : urlFilter (str "data:text/html,x") = failsafe := by decide +kernel
example : urlFilter (str "https://sp.example.com/acs?x=1") = str "https://sp.example.com/acs?x=1" := by decide +kernel

/-! ### what a browser makes of the emitted action -/

theorem schemeChar_keep (x : UInt8) (h : schemeChar x = true) : urlKeep x = true := by
  have : ∀ k : Fin 256, schemeChar (UInt8.ofNat k.val) = true → urlKeep (UInt8.ofNat k.val) = true := by decide +kernel
  have := this ⟨x.toNat, x.toNat_lt⟩
  simp only [UInt8.ofNat_toNat] at this
  exact this h

theorem byte_facts (x : UInt8) : (schemeChar x = true → x ≠ 0x25 ∧ x ≠ 0x2F ∧ x ≠ 0x3A ∧ x ≠ 0xC5) ∧
    (isAlphaByte x = true → schemeChar x = true) := by
  have : ∀ k : Fin 256, (schemeChar (UInt8.ofNat k.val) = true → UInt8.ofNat k.val ≠ 0x25 ∧ UInt8.ofNat k.val ≠ 0x2F ∧ UInt8.ofNat k.val ≠ 0x3A ∧
      UInt8.ofNat k.val ≠ 0xC5) ∧
      (isAlphaByte (UInt8.ofNat k.val) = true → schemeChar (UInt8.ofNat k.val) = true) := by decide +kernel
  have := this ⟨x.toNat, x.toNat_lt⟩
  simp only [UInt8.ofNat_toNat] at this
  exact this

theorem urlNormHead_pct (x : UInt8) (rest : Bytes) (hk : ¬ urlKeep x = true) : ∃ tl, urlNormHead x rest = 0x25 :: tl := by
  unfold urlNormHead
  rw [if_neg hk]
  by_cases hp : x = 0x25
  · subst hp
    rw [if_pos rfl]
    rcases rest with _ | ⟨a, _ | ⟨c, r⟩⟩
    · exact ⟨_, rfl⟩
    · exact ⟨_, rfl⟩
    · by_cases hh : (isHexByte a && isHexByte c) = true
      · exact ⟨[], by simp [hh]⟩
      · exact ⟨_, by simp [hh]; rfl⟩
  · rw [if_neg hp]; exact ⟨_, rfl⟩

/-- percent-encoding never creates a scheme: a scheme read from the normalised URL was already there -/
theorem schemeTail_normalize (u p : Bytes) (h : schemeTail (urlNormalize u) = some p) : schemeTail u = some p := by
  induction u generalizing p with
  | nil => simp [urlNormalize, schemeTail] at h
  | cons x rest ih =>
    by_cases hk : urlKeep x = true
    · have hn : urlNormalize (x :: rest) = x :: urlNormalize rest := by simp [urlNormalize, urlNormHead, hk]
      rw [hn] at h
      unfold schemeTail at h ⊢
      by_cases hc : x = 0x3A
      · simpa [hc] using h
      · simp only [hc, if_false] at h ⊢
        by_cases hs : schemeChar x = true
        · simp only [hs, if_true] at h ⊢
          cases hq : schemeTail (urlNormalize rest) with
          | none => simp [hq] at h
          | some q => rw [hq] at h; rw [ih q hq]; exact h
        · simp [hs] at h
    · -- an encoded byte starts with '%', which is neither ':' nor a scheme character
      have hhead : ∃ tl, urlNormalize (x :: rest) = 0x25 :: tl := by
        obtain ⟨tl, htl⟩ := urlNormHead_pct x rest hk
        exact ⟨tl ++ urlNormalize rest, by simp [urlNormalize, htl]⟩
      obtain ⟨tl, htl⟩ := hhead
      rw [htl] at h
      have : schemeChar 0x25 = false := by decide
      simp [schemeTail, this] at h

/-- a scheme read left to right is the prefix before the first ':' and contains no '/' -/
theorem schemeOf_of_schemeTail (u p : Bytes) (h : schemeTail u = some p) : schemeOf u = some p ∧ ∀ y ∈ p, schemeChar y = true := by
  have key : ∀ (u p : Bytes), schemeTail u = some p → u.findIdx? (· = 0x3A) = some p.length ∧ u.take p.length = p ∧ (∀ y ∈ p, schemeChar y = true) := by
    intro u
    induction u with
    | nil => intro p h; simp [schemeTail] at h
    | cons x rest ih =>
      intro p h
      unfold schemeTail at h
      by_cases hc : x = 0x3A
      · simp [hc] at h; subst h; simp [hc, List.findIdx?_cons]
      · simp only [hc, if_false] at h
        by_cases hs : schemeChar x = true
        · simp only [hs, if_true] at h
          cases hq : schemeTail rest with
          | none => simp [hq] at h
          | some q =>
            rw [hq] at h
            simp at h
            subst h
            obtain ⟨h1, h2, h3⟩ := ih q hq
            refine ⟨?_, ?_, ?_⟩
            · simp [List.findIdx?_cons, hc, h1]
            · simp [h2]
            · intro y hy
              simp at hy
              rcases hy with rfl | hy
              · exact hs
              · exact h3 y hy
        · simp [hs] at h
  obtain ⟨h1, h2, h3⟩ := key u p h
  refine ⟨?_, h3⟩
  unfold schemeOf
  rw [h1]
  simp only [h2]
  have : (0x2F : UInt8) ∉ p := fun hm => absurd rfl ((byte_facts 0x2F).1 (h3 _ hm)).2.1
  simp [this]

theorem foldProto_ascii (p : Bytes) (h : ∀ y ∈ p, schemeChar y = true) : foldProto p = p.map toLowerByte := by
  induction p with
  | nil => simp [foldProto]
  | cons x t ih =>
    have hx : x ≠ 0xC5 := ((byte_facts x).1 (h x (by simp))).2.2.2
    have : foldProto (x :: t) = toLowerByte x :: foldProto t := by
      cases t with
      | nil => simp [foldProto]
      | cons y t' =>
        conv => lhs; unfold foldProto
        split
        · rename_i heq; simp at heq; exact absurd heq.1 hx
        · rename_i heq; simp at heq; obtain ⟨rfl, rfl⟩ := heq; rfl
        · rename_i heq; simp at heq
    rw [this, ih (fun y hy => h y (by simp [hy]))]
    simp

/-- **the action a browser sees has a safe protocol**: whatever the consumer URL, if a WHATWG URL parser finds a scheme in
    the emitted action then it is http, https or mailto (ASCII case-insensitively) -/
theorem action_browser_scheme (u p : Bytes) (h : browserScheme (urlNormalize (urlFilter u)) = some p) :
    p.map toLowerByte = [0x68, 0x74, 0x74, 0x70] ∨ p.map toLowerByte = [0x68, 0x74, 0x74, 0x70, 0x73] ∨
      p.map toLowerByte = [0x6D, 0x61, 0x69, 0x6C, 0x74, 0x6F] := by
  -- the scheme of the output is a scheme of the filter's result
  have hpre : ∀ w : Bytes, browserScheme (urlNormalize w) = some p → schemeTail w = some p := by
    intro w hw
    cases w with
    | nil => simp [urlNormalize, browserScheme] at hw
    | cons x rest =>
      by_cases hk : urlKeep x = true
      · have hn : urlNormalize (x :: rest) = x :: urlNormalize rest := by simp [urlNormalize, urlNormHead, hk]
        rw [hn] at hw
        unfold browserScheme at hw
        by_cases ha : isAlphaByte x = true
        · simp only [ha, if_true] at hw
          cases hq : schemeTail (urlNormalize rest) with
          | none => simp [hq] at hw
          | some q =>
            rw [hq] at hw; simp at hw; subst hw
            have hs := (byte_facts x).2 ha
            have hc : x ≠ 0x3A := ((byte_facts x).1 hs).2.2.1
            simp [schemeTail, hc, hs, schemeTail_normalize rest q hq]
        · simp [ha] at hw
      · have hhead : ∃ tl, urlNormalize (x :: rest) = 0x25 :: tl := by
          obtain ⟨tl, htl⟩ := urlNormHead_pct x rest hk
          exact ⟨tl ++ urlNormalize rest, by simp [urlNormalize, htl]⟩
        obtain ⟨tl, htl⟩ := hhead
        rw [htl] at hw
        have : isAlphaByte 0x25 = false := by decide
        simp [browserScheme, this] at hw
  have hst := hpre _ h
  rcases urlFilter_cases u with hf | ⟨hf, hs⟩
  · rw [hf] at hst
    have : schemeTail failsafe = none := by decide +kernel
    rw [this] at hst; cases hst
  · rw [hf] at hst
    obtain ⟨hso, hall⟩ := schemeOf_of_schemeTail u p hst
    rcases hs with hnone | ⟨q, hq, hsafe⟩
    · rw [hnone] at hso; cases hso
    · rw [hq] at hso
      cases hso
      rw [foldProto_ascii p hall] at hsafe
      exact hsafe

/-- the whole `action` pipeline never emits a byte that could end the attribute or open a tag -/
theorem urlAttr_safe (u : Bytes) : ∀ y ∈ urlAttr u, y ≠ 0x22 ∧ y ≠ 0x3C ∧ y ≠ 0x3E ∧ y ≠ 0x27 ∧ y ≠ 0 :=
  attrEscape_safe _

theorem nulToFFFD_of_nz (w : Bytes) (hnz : ∀ y ∈ w, y ≠ 0) : nulToFFFD w = w := by
  induction w with
  | nil => rfl
  | cons x xs ih =>
    have hx : x ≠ 0 := hnz x (by simp)
    simp only [nulToFFFD, List.flatMap_cons, hx, if_false] at ih ⊢
    rw [ih (fun y hy => hnz y (by simp [hy]))]
    rfl

theorem nulToFFFD_urlNormalize (u : Bytes) : nulToFFFD (urlNormalize u) = urlNormalize u :=
  nulToFFFD_of_nz _ (fun y hy => (urlOut_safe y (urlNormalize_out _ y hy)).2.2.2.2.2.1)

/-- and an HTML parser recovers exactly the normalised, filtered URL from it -/
theorem urlAttr_decodes (u : Bytes) : decodeAttrValue (urlAttr u) = urlNormalize (urlFilter u) := by
  unfold urlAttr
  rw [attr_roundtrip, nulToFFFD_urlNormalize]

end Lib.Html
