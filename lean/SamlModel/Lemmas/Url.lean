import SamlModel.Lib.Url
/-!
  Lemmas.Url — `QueryUnescape ∘ QueryEscape = id` for all byte strings, the UTF-8 bytes of ASCII strings,
  and how a query assembled from escaped values splits back into its parameters.
-/
namespace Lib.Url
open Lib

theorem ba_len (bs : ByteArray) : bs.data.toList.length = bs.size := by
  rw [Array.length_toList]; rfl

theorem ba_loop (bs : ByteArray) (n : Nat) : ∀ (i : Nat) (r : List UInt8), bs.size - i = n →
    ByteArray.toList.loop bs i r = r.reverse ++ bs.data.toList.drop i := by
  induction n with
  | zero =>
    intro i r h
    unfold ByteArray.toList.loop
    have : ¬ i < bs.size := by omega
    simp only [this, if_false]
    have : bs.data.toList.length ≤ i := by rw [ba_len]; omega
    rw [List.drop_eq_nil_of_le this]; simp
  | succ n ih =>
    intro i r h
    unfold ByteArray.toList.loop
    have hi : i < bs.size := by omega
    simp only [hi, if_true]
    rw [ih (i+1) _ (by omega)]
    have hl : i < bs.data.toList.length := by rw [ba_len]; exact hi
    rw [List.drop_eq_getElem_cons hl]
    have : bs.get! i = bs.data.toList[i] := by
      simp only [ByteArray.get!]
      rw [getElem!_pos bs.data i (by simpa [ba_len] using hi)]
      simp
    rw [this]; simp

theorem ba_toList (bs : ByteArray) : bs.toList = bs.data.toList := by
  unfold ByteArray.toList
  rw [ba_loop bs _ 0 [] rfl]; simp

/-- the UTF-8 bytes of a string, as a list, character by character -/
theorem toUTF8_ofList (cs : List Char) : (String.ofList cs).toUTF8.toList = cs.flatMap String.utf8EncodeChar := by
  rw [ba_toList, String.toUTF8_eq_toByteArray, String.toByteArray_ofList]
  simp [List.utf8Encode]

theorem ascii_toUTF8 (cs : List Char) (h : ∀ c ∈ cs, c.toNat < 128) :
    (String.ofList cs).toUTF8.toList = cs.map (fun c => c.val.toUInt8) := by
  rw [toUTF8_ofList]
  induction cs with
  | nil => rfl
  | cons c cs ih =>
    have hc : c.toNat < 128 := h c (by simp)
    have : c.utf8Size = 1 := by
      unfold Char.utf8Size
      have : c.val ≤ 0x7f := by
        show c.val.toNat ≤ 127
        have : c.val.toNat = c.toNat := rfl
        omega
      simp [this]
    simp only [List.flatMap_cons, List.map_cons, String.utf8EncodeChar_eq_singleton this]
    rw [ih (fun x hx => h x (by simp [hx]))]
    rfl
def escByte (b : UInt8) : List Char :=
  if unreservedByte b then [Char.ofNat b.toNat]
  else if b == 0x20 then ['+']
  else ['%', hexDigit (b.toNat / 16), hexDigit (b.toNat % 16)]

theorem queryEscapeBytes_eq (bs : List UInt8) : queryEscapeBytes bs = bs.flatMap escByte := rfl

theorem unesc_plain (c : Char) (rest : List Char) (h1 : c ≠ '%') (h2 : c ≠ '+') :
    queryUnescape (c :: rest) = (queryUnescape rest).map (charBytes c ++ ·) := by
  conv => lhs; unfold queryUnescape
  split <;> simp_all

theorem unesc_plus (rest : List Char) : queryUnescape ('+' :: rest) = (queryUnescape rest).map ((0x20 : UInt8) :: ·) := by
  rw [queryUnescape]

theorem unesc_pct (x y : Char) (hi lo : Nat) (rest : List Char) (hx : hexVal? x = some hi) (hy : hexVal? y = some lo) :
    queryUnescape ('%' :: x :: y :: rest) = (queryUnescape rest).map (UInt8.ofNat (hi * 16 + lo) :: ·) := by
  rw [queryUnescape, hx, hy]

/-- shape of one escaped byte, decided over all 256 byte values -/
def escOk (b : UInt8) : Bool :=
  match escByte b with
  | [c] => (c != '%' && c != '+' && charBytes c == [b]) || (c == '+' && b == 0x20)
  | ['%', x, y] => match hexVal? x, hexVal? y with
      | some hi, some lo => UInt8.ofNat (hi * 16 + lo) == b
      | _, _ => false
  | _ => false

theorem escOk_fin : ∀ n : Fin 256, escOk (UInt8.ofNat n.val) = true := by decide +kernel

theorem escOk_all (b : UInt8) : escOk b = true := by
  have := escOk_fin ⟨b.toNat, b.toNat_lt⟩
  simpa using this

theorem unesc_escByte (b : UInt8) (rest : List Char) :
    queryUnescape (escByte b ++ rest) = (queryUnescape rest).map (b :: ·) := by
  have h := escOk_all b
  unfold escOk at h
  split at h
  · rename_i c hc
    rw [hc]
    simp only [Bool.or_eq_true, Bool.and_eq_true, bne_iff_ne, ne_eq, beq_iff_eq] at h
    rcases h with ⟨⟨h1, h2⟩, h3⟩ | ⟨h1, h2⟩
    · simp only [List.singleton_append]
      rw [unesc_plain c rest h1 h2, h3]; rfl
    · subst h1; subst h2
      simp only [List.singleton_append]; rw [unesc_plus]
  · rename_i x y hc
    rw [hc]
    split at h
    · rename_i hi lo hx hy
      simp only [beq_iff_eq] at h
      simp only [List.cons_append, List.nil_append]
      rw [unesc_pct x y hi lo rest hx hy, h]
    · simp at h
  · simp at h

theorem unescape_escape (bs : List UInt8) : queryUnescape (queryEscapeBytes bs) = some bs := by
  rw [queryEscapeBytes_eq]
  induction bs with
  | nil => rfl
  | cons b bs ih => simp only [List.flatMap_cons]; rw [unesc_escByte, ih]; rfl

theorem splitOn_cons_sep (sep : Char) (cs : List Char) : splitOn sep (sep :: cs) = [] :: splitOn sep cs := by
  conv => lhs; unfold splitOn
  simp

theorem splitOn_cons_ne (sep c : Char) (cs : List Char) (h : c ≠ sep) :
    splitOn sep (c :: cs) = match splitOn sep cs with
      | [] => [[c]]
      | h :: t => (c :: h) :: t := by
  conv => lhs; unfold splitOn
  rw [if_neg h]
  rfl

theorem splitOn_ne_nil (sep : Char) (a : List Char) : splitOn sep a ≠ [] := by
  induction a with
  | nil => simp [splitOn]
  | cons c cs ih =>
    unfold splitOn
    split
    · simp
    · split <;> simp

theorem splitOn_noSep (sep : Char) (a : List Char) (h : sep ∉ a) : splitOn sep a = [a] := by
  induction a with
  | nil => rfl
  | cons c cs ih =>
    have hc : c ≠ sep := fun e => h (by simp [e])
    have hcs : sep ∉ cs := fun e => h (by simp [e])
    unfold splitOn
    rw [if_neg hc, ih hcs]

theorem splitOn_append (sep : Char) (a b : List Char) (h : sep ∉ a) :
    splitOn sep (a ++ sep :: b) = a :: splitOn sep b := by
  induction a with
  | nil => simp [splitOn]
  | cons c cs ih =>
    have hc : c ≠ sep := fun e => h (by simp [e])
    have hcs : sep ∉ cs := fun e => h (by simp [e])
    simp only [List.cons_append]
    conv => lhs; unfold splitOn
    rw [if_neg hc, ih hcs]

theorem cutEq_append (n v : List Char) (h : '=' ∉ n) : cutEq (n ++ '=' :: v) = some (n, v) := by
  induction n with
  | nil => simp [cutEq]
  | cons c cs ih =>
    have hc : c ≠ '=' := fun e => h (by simp [e])
    have hcs : '=' ∉ cs := fun e => h (by simp [e])
    simp only [List.cons_append]
    unfold cutEq
    rw [if_neg hc, ih hcs]; rfl

/-- splitting a query whose first piece has no `&` -/
theorem params_cons (n v rest : List Char) (hn : '=' ∉ n) (hn' : '&' ∉ n) (hv : '&' ∉ v) :
    params (n ++ '=' :: v ++ '&' :: rest) = (n, v) :: params rest := by
  unfold params
  have : '&' ∉ n ++ '=' :: v := by
    intro hm
    rcases List.mem_append.mp hm with h | h
    · exact hn' h
    · rcases List.mem_cons.mp h with h | h
      · exact absurd h (by decide)
      · exact hv h
  rw [splitOn_append '&' _ rest this, List.filterMap_cons, cutEq_append n v hn]

theorem params_last (n v : List Char) (hn : '=' ∉ n) (hn' : '&' ∉ n) (hv : '&' ∉ v) :
    params (n ++ '=' :: v) = [(n, v)] := by
  unfold params
  have : '&' ∉ n ++ '=' :: v := by
    intro hm
    rcases List.mem_append.mp hm with h | h
    · exact hn' h
    · rcases List.mem_cons.mp h with h | h
      · exact absurd h (by decide)
      · exact hv h
  rw [splitOn_noSep '&' _ this]
  simp [cutEq_append n v hn]
end Lib.Url
