import SamlModel.Model.Callback
import SamlModel.Model.Logout
import SamlModel.Model.Metadata
import SamlModel.Props.FnLemmas
set_option linter.unusedSimpArgs false
/-!
  Lemmas.Builders — the message builders of response.go / logout_response.go / identityprovider.go are *translated*
  (go2lean regenerates `Gen.getIssuer`, `Gen.makeResponse`, `Gen.makeAssertion`, `Gen.makeLogoutResponse`,
  `Gen.endpointConfigToEndpoints` on every run).  The handler models use small record types (`Callback.Msg`,
  `Callback.Assertion`, `Logout.Msg`, `Metadata.Endpoints`); the lemmas here show that the generated builders never
  panic and build exactly the records the models assume (refinement), so the property theorems about the models are
  theorems about the generated code.
-/
namespace Builders
open Go Gen Consts

/-- the hand model's view of a generated `samlp.ResponseType` -/
def msgOf (r : samlp_ResponseType) (a : Option Callback.Assertion) : Callback.Msg :=
  { id := r.Id, inResponseTo := r.InResponseTo, destination := r.Destination, issueInstant := r.IssueInstant,
    status := r.Status.StatusCode.Value, statusMessage := r.Status.StatusMessage,
    issuer := (r.Issuer.map (·.Text)).getD "", assertion := a }

/-- the hand model's view of a generated `saml.AssertionType` (defined when it has the one-subject-confirmation,
    one-audience-restriction, one-attribute-statement, one-authn-statement shape `makeAssertion` builds) -/
def assertionOf (a : saml_AssertionType) : Option Callback.Assertion :=
  match a.Subject, a.Conditions, a.AttributeStatement, a.AuthnStatement with
  | some subj, some cond, [as], [au] =>
    match subj.SubjectConfirmation, cond.AudienceRestriction with
    | [sc], [ar] =>
      match sc.SubjectConfirmationData with
      | some scd =>
        some { id := a.Id, issueInstant := a.IssueInstant, issuer := a.Issuer.Text, nameID := subj.NameID,
               scInResponseTo := scd.InResponseTo, scNotOnOrAfter := scd.NotOnOrAfter, scRecipient := scd.Recipient,
               notBefore := cond.NotBefore, notOnOrAfter := cond.NotOnOrAfter, audiences := ar.Audience,
               attributes := as.Attribute, authnInstant := au.AuthnInstant, sessionIndex := au.SessionIndex }
      | none => none
    | _, _ => none
  | _, _, _, _ => none

theorem getIssuer_eq (o : Ora) (issuer : String) :
    getIssuer o issuer = .ok (some { Format := "urn:oasis:names:tc:SAML:2.0:nameid-format:entity", Text := issuer }) := by
  simp [getIssuer, getIssuer.body, Ctl.toRes]

/-- **`makeResponse` (generated from response.go) refines the hand model's `mkResponse`** -/
theorem makeResponse_refines (o : Ora) (id reqID acs ii status msg issuer : String) :
    ∃ r, makeResponse o id reqID acs ii status msg issuer = .ok (some r) ∧
      msgOf r none = Callback.mkResponse id reqID acs ii status msg issuer ∧ r.Version = "2.0" ∧
      assertionOf r.Assertion = none := by
  unfold makeResponse makeResponse.body
  by_cases h : acs = ""
  · simp [h, getIssuer_eq, Ctl.toRes, Res.isPanic, Res.get, msgOf, Callback.mkResponse, deref]; exact ⟨rfl, rfl⟩
  · simp [h, getIssuer_eq, Ctl.toRes, Res.isPanic, Res.get, msgOf, Callback.mkResponse, deref]; rfl

/-- **`makeAssertion` (generated from response.go) refines the hand model's `mkAssertion`**: for the callback's call
    (`sendIP = ""`, `authN = true`) it never panics and builds exactly the assertion of the model, the identifier being
    the one `NewID()` returned at its call site -/
theorem makeAssertion_refines (o : Ora) (reqID acs ii untl issuer : String) (nameID : Option saml_NameIDType)
    (attrs : List (Option saml_AttributeType)) (aud : String) :
    ∃ a, makeAssertion o reqID acs "" ii untl issuer nameID attrs aud true = .ok (some a) ∧
      assertionOf a = some (Callback.mkAssertion (o.newID "makeAssertion" 0) reqID acs ii untl issuer nameID attrs aud) ∧
      a.Version = "2.0" := by
  unfold makeAssertion makeAssertion.body
  by_cases h : acs = ""
  · simp [h, getIssuer_eq, Ctl.toRes, Res.isPanic, Res.get, assertionOf, Callback.mkAssertion, deref]; rfl
  · simp [h, getIssuer_eq, Ctl.toRes, Res.isPanic, Res.get, assertionOf, Callback.mkAssertion, deref]

/-- **`makeFailedResponse` (generated) refines `Callback.mkResponse`** with the instant `time.Now().Format(layout)` and
    the identifier of its `NewID()` call site -/
theorem makeFailedResponse_refines (o : Ora) (resp : provider_Response) (reason message fmt : String) :
    ∃ r, Response_makeFailedResponse o (some resp) reason message fmt = .ok (some r) ∧
      msgOf r none = Callback.mkResponse (o.newID "Response_makeFailedResponse" 0) resp.RequestID resp.AcsUrl (o.m_Format o.now fmt) reason message resp.Issuer ∧
      assertionOf r.Assertion = none := by
  obtain ⟨r, hr, hm, _, ha⟩ := makeResponse_refines o (o.newID "Response_makeFailedResponse" 0) resp.RequestID resp.AcsUrl (o.m_Format o.now fmt) reason message resp.Issuer
  refine ⟨r, ?_, hm, ha⟩
  simp [Response_makeFailedResponse, Response_makeFailedResponse.body, Ctl.toRes, deref, hr, Res.isPanic, Res.get]

/-- the hand model's view of a generated `samlp.LogoutResponseType` -/
def logoutMsgOf (r : samlp_LogoutResponseType) : Logout.Msg :=
  { id := r.Id, inResponseTo := r.InResponseTo, destination := r.Destination, issueInstant := r.IssueInstant,
    status := r.Status.StatusCode.Value, issuer := (r.Issuer.map (·.Text)).getD "" }

/-- **`makeLogoutResponse` (generated) refines `Logout.mkMsg`** -/
theorem makeLogoutResponse_refines (o : Ora) (i : Logout.In) (reqID url status message : String)
    (hid : i.newID = o.newID "makeLogoutResponse" 0) :
    ∃ r, makeLogoutResponse o reqID url i.issueInstant status message ((getIssuer o i.issuer).get) = .ok (some r) ∧
      logoutMsgOf r = Logout.mkMsg i reqID url status ∧ r.Version = "2.0" := by
  simp [makeLogoutResponse, makeLogoutResponse.body, Ctl.toRes, logoutMsgOf, Logout.mkMsg, getIssuer_eq, Res.get, hid]

/-- `NewEndpoint` -/
theorem newEndpoint_eq (o : Ora) (p : String) : NewEndpoint o p = .ok { path := p } := by
  simp [NewEndpoint, NewEndpoint.body, Ctl.toRes]; rfl

/-- **`endpointConfigToEndpoints` (generated)**: never panics; every endpoint is the configured one, else the default
    path the model's `Metadata.Endpoints` carries -/
theorem endpointConfigToEndpoints_eq (o : Ora) (conf : Option provider_EndpointConfig) :
    endpointConfigToEndpoints o conf = .ok (some {
      certificateEndpoint := ((conf.bind (·.Certificate)).getD { path := "certificate" }),
      callbackEndpoint := ((conf.bind (·.Callback)).getD { path := "login" }),
      singleSignOnEndpoint := ((conf.bind (·.SingleSignOn)).getD { path := "SSO" }),
      singleLogoutEndpoint := ((conf.bind (·.SingleLogOut)).getD { path := "SLO" }),
      attributeEndpoint := ((conf.bind (·.Attribute)).getD { path := "attribute" }) }) := by
  unfold endpointConfigToEndpoints endpointConfigToEndpoints.body
  cases conf with
  | none => simp [newEndpoint_eq, Ctl.toRes, Res.isPanic, Res.get]
  | some c =>
    cases h1 : c.Certificate <;> cases h2 : c.Callback <;> cases h3 : c.SingleSignOn <;> cases h4 : c.SingleLogOut <;> cases h5 : c.Attribute <;>
      simp [newEndpoint_eq, Ctl.toRes, Res.isPanic, Res.get, deref, h1, h2, h3, h4, h5]

end Builders
