import SamlModel.Model.Interleave
/-!
  Lemmas.Interleave — a request's own run simulates its part of any interleaved run.
-/
namespace Interleave
variable {κ ν ρ : Type} [DecidableEq κ]
set_option linter.unusedSectionVars false

/-- the interleaved state `S` looks, to request `i`, like its private state `A` -/
def Sim (e : Env κ) (i : Nat) (S A : State κ ν ρ) : Prop :=
  S.procs i = A.procs i ∧ ∀ k, ¬ foreign e i k → S.store k = A.store k

theorem setProc_same (procs : Nat → PState κ ν ρ) (i : Nat) (p : PState κ ν ρ) : setProc procs i p i = p := by
  simp [setProc]

theorem setProc_other (procs : Nat → PState κ ν ρ) (i j : Nat) (p : PState κ ν ρ) (h : i ≠ j) : setProc procs j p i = procs i := by
  simp [setProc, h]

/-- a step of another request is invisible to request `i` -/
theorem sim_step_other (e : Env κ) (i j : Nat) (S A : State κ ν ρ) (hij : j ≠ i) (h : Sim e i S A) :
    Sim e i (step e S j) A := by
  obtain ⟨hp, hs⟩ := h
  unfold step
  cases hprog : (S.procs j).prog with
  | done r => simp only [hprog]; exact ⟨hp, hs⟩
  | read k cont =>
    simp only [hprog]
    exact ⟨by simp [setProc, Ne.symm hij, hp], hs⟩
  | create v cont =>
    simp only [hprog]
    refine ⟨by simp [setProc, Ne.symm hij, hp], ?_⟩
    intro k hk
    have : k ≠ e.alloc j (S.procs j).created := by
      intro heq
      exact hk ⟨j, _, hij, heq⟩
    simp only [this, if_false]
    exact hs k hk
  | fresh cont =>
    simp only [hprog]
    exact ⟨by simp [setProc, Ne.symm hij, hp], hs⟩

/-- a step of request `i` itself is the same step in both worlds, provided it does not read a foreign record -/
theorem sim_step_own (e : Env κ) (i : Nat) (S A : State κ ν ρ)
    (h : Sim e i S A) (hr : readsOwn e A i) : Sim e i (step e S i) (step e A i) := by
  obtain ⟨hp, hs⟩ := h
  unfold step
  rw [hp]
  cases hprog : (A.procs i).prog with
  | done r => simp only [hprog]; exact ⟨hp, hs⟩
  | read k cont =>
    simp only [hprog]
    have hk : ¬ foreign e i k := hr k cont hprog
    refine ⟨?_, hs⟩
    simp [setProc, hs k hk]
  | create v cont =>
    simp only [hprog]
    refine ⟨by simp [setProc], ?_⟩
    intro k hk
    by_cases heq : k = e.alloc i (A.procs i).created
    · simp [heq]
    · simp only [heq, if_false]; exact hs k hk
  | fresh cont =>
    simp only [hprog]
    exact ⟨by simp [setProc], hs⟩

theorem alone_step (e : Env κ) (A : State κ ν ρ) (i n : Nat) : alone e (step e A i) i n = alone e A i (n + 1) := by
  induction n with
  | zero => rfl
  | succ n ih => simp only [alone]; rw [ih]; rfl

/-- **simulation**: after any schedule, request `i` is where it would be had it run alone for as many steps as the
    schedule gave it -/
theorem sim_run (e : Env κ) (i : Nat) (sched : List Nat) : ∀ (S A : State κ ν ρ), Sim e i S A → (∀ n, readsOwn e (alone e A i n) i) →
      Sim e i (run e S sched) (alone e A i (sched.count i)) := by
  induction sched with
  | nil => intro S A h _; simpa [run, alone] using h
  | cons j rest ih =>
    intro S A h hr
    by_cases hj : j = i
    · subst hj
      have h1 := sim_step_own e j S A h (hr 0)
      have := ih (step e S j) (step e A j) h1 (fun n => by rw [alone_step]; exact hr (n + 1))
      rw [alone_step] at this
      simpa [run] using this
    · have h1 := sim_step_other e i j S A hj h
      have := ih (step e S j) A h1 hr
      have hc : (j :: rest).count i = rest.count i := by simp [List.count_cons, hj]
      rw [hc]
      simpa [run] using this

theorem sim_refl (e : Env κ) (i : Nat) (S : State κ ν ρ) : Sim e i S S := ⟨rfl, fun _ _ => rfl⟩

theorem run_replicate (e : Env κ) (S : State κ ν ρ) (i n : Nat) : run e S (List.replicate n i) = alone e S i n := by
  induction n generalizing S with
  | zero => rfl
  | succ n ih =>
    simp only [List.replicate_succ, run, List.foldl_cons]
    have := ih (step e S i)
    simp only [run] at this
    rw [this, alone_step]

/-- once the reply is written the request does nothing more -/
theorem step_done (e : Env κ) (S : State κ ν ρ) (i : Nat) (r : ρ) (h : (S.procs i).prog = .done r) : step e S i = S := by
  unfold step; simp [h]

theorem alone_done (e : Env κ) (S : State κ ν ρ) (i n m : Nat) (r : ρ) (h : replyOf (alone e S i n) i = some r) (hm : n ≤ m) :
    replyOf (alone e S i m) i = some r := by
  induction m with
  | zero => have : n = 0 := by omega
            subst this; exact h
  | succ m ih =>
    by_cases hn : n = m + 1
    · subst hn; exact h
    · have h1 := ih (by omega)
      simp only [alone]
      have hd : ((alone e S i m).procs i).prog = .done r := by
        unfold replyOf at h1
        split at h1
        · rename_i r' hr'; simp at h1; rw [hr', h1]
        · simp at h1
      rw [step_done e _ i r hd]; exact h1

/-- the identifiers a request has drawn are the first `drawn` values of its own stream -/
def IdsInv (e : Env κ) (S : State κ ν ρ) : Prop :=
  ∀ i, (S.procs i).ids = (List.range (S.procs i).drawn).map (e.ids i)

theorem idsInv_step (e : Env κ) (S : State κ ν ρ) (j : Nat) (h : IdsInv e S) : IdsInv e (step e S j) := by
  intro i
  unfold step
  cases hprog : (S.procs j).prog with
  | done r => simp only [hprog]; exact h i
  | read k cont =>
    simp only [hprog]
    by_cases hij : i = j
    · subst hij; simp [setProc, h i]
    · simp [setProc, hij, h i]
  | create v cont =>
    simp only [hprog]
    by_cases hij : i = j
    · subst hij; simp [setProc, h i]
    · simp [setProc, hij, h i]
  | fresh cont =>
    simp only [hprog]
    by_cases hij : i = j
    · subst hij; simp [setProc, h i, List.range_succ]
    · simp [setProc, hij, h i]

theorem idsInv_run (e : Env κ) (sched : List Nat) : ∀ (S : State κ ν ρ), IdsInv e S → IdsInv e (run e S sched) := by
  induction sched with
  | nil => intro S h; exact h
  | cons j rest ih => intro S h; exact ih _ (idsInv_step e S j h)

/-- a request that, run alone from this storage, only reads records outside the other requests' name spaces -/
inductive SafeProg (e : Env κ) (i : Nat) : (κ → Option ν) → Nat → Nat → Prog κ ν ρ → Prop where
  | done (st c d r) : SafeProg e i st c d (.done r)
  | read (st c d k cont) : ¬ foreign e i k → SafeProg e i st c d (cont (st k)) → SafeProg e i st c d (.read k cont)
  | create (st c d v cont) :
      SafeProg e i (fun k' => if k' = e.alloc i c then some v else st k') (c + 1) d (cont (e.alloc i c)) →
      SafeProg e i st c d (.create v cont)
  | fresh (st c d cont) : SafeProg e i st c (d + 1) (cont (e.ids i d)) → SafeProg e i st c d (.fresh cont)

def SafeState (e : Env κ) (i : Nat) (S : State κ ν ρ) : Prop :=
  SafeProg e i S.store (S.procs i).created (S.procs i).drawn (S.procs i).prog

theorem safeState_step (e : Env κ) (i : Nat) (S : State κ ν ρ) (h : SafeState e i S) : SafeState e i (step e S i) := by
  unfold SafeState at h ⊢
  unfold step
  cases hprog : (S.procs i).prog with
  | done r => simp only [hprog]; rw [hprog] at h; exact h
  | read k cont =>
    simp only [hprog]
    rw [hprog] at h
    cases h with
    | read _ _ _ _ _ _ hs => simpa [setProc] using hs
  | create v cont =>
    simp only [hprog]
    rw [hprog] at h
    cases h with
    | create _ _ _ _ _ hs => simpa [setProc] using hs
  | fresh cont =>
    simp only [hprog]
    rw [hprog] at h
    cases h with
    | fresh _ _ _ _ hs => simpa [setProc] using hs

theorem safeState_alone (e : Env κ) (i : Nat) (S : State κ ν ρ) (h : SafeState e i S) (n : Nat) : SafeState e i (alone e S i n) := by
  induction n with
  | zero => exact h
  | succ n ih => exact safeState_step e i _ ih

theorem readsOwn_of_safe (e : Env κ) (i : Nat) (S : State κ ν ρ) (h : SafeState e i S) : readsOwn e S i := by
  intro k cont hk
  unfold SafeState at h
  rw [hk] at h
  cases h with
  | read _ _ _ _ _ hnf _ => exact hnf

end Interleave
