import SamlModel.Lib.XmlEscape
set_option linter.unusedSimpArgs false
/-! Theorems about the XML text escaper: no markup in its output; the reference unescaper inverts it up to sanitisation. -/
namespace Lib

theorem unescRun_append (st : UnescState) (a b : List Char) : unescRun st (a ++ b) = unescRun (unescRun st a) b := by
  simp [unescRun, List.foldl_append]

/-- one source character: from a clean state, reading its escape yields exactly its sanitised form -/
theorem unesc_escapeChar (out : List Char) (c : Char) :
    unescRun { out := out } (escapeChar c) = { out := out ++ [sanitizeChar c] } := by
  unfold escapeChar
  by_cases h1 : c = '"'
  · subst h1; simp [unescRun, unescStep, resolveRef, parseNum, decDigit, sanitizeChar, isXmlChar]
  by_cases h2 : c = '\''
  · subst h2; simp [unescRun, unescStep, resolveRef, parseNum, decDigit, sanitizeChar, isXmlChar]
  by_cases h3 : c = '&'
  · subst h3; simp [unescRun, unescStep, resolveRef, sanitizeChar, isXmlChar]
  by_cases h4 : c = '<'
  · subst h4; simp [unescRun, unescStep, resolveRef, sanitizeChar, isXmlChar]
  by_cases h5 : c = '>'
  · subst h5; simp [unescRun, unescStep, resolveRef, sanitizeChar, isXmlChar]
  by_cases h6 : c = '\t'
  · subst h6; simp [unescRun, unescStep, resolveRef, parseNum, hexDigit?, sanitizeChar, isXmlChar]
  by_cases h7 : c = '\n'
  · subst h7; simp [unescRun, unescStep, resolveRef, parseNum, hexDigit?, sanitizeChar, isXmlChar]
  by_cases h8 : c = '\r'
  · subst h8; simp [unescRun, unescStep, resolveRef, parseNum, hexDigit?, sanitizeChar, isXmlChar]
  simp only [h1, h2, h3, h4, h5, h6, h7, h8, if_false]
  by_cases hx : isXmlChar c = true
  · simp [hx, unescRun, unescStep, h3, sanitizeChar]
  · have hx' : isXmlChar c = false := by simpa using hx
    have hr : replacementChar ≠ '&' := by decide
    simp [hx', unescRun, unescStep, hr, sanitizeChar]

theorem unesc_escapeChars (out : List Char) (s : List Char) :
    unescRun { out := out } (escapeChars s) = { out := out ++ sanitize s } := by
  induction s generalizing out with
  | nil => simp [escapeChars, unescRun, sanitize]
  | cons c cs ih =>
    have : escapeChars (c :: cs) = escapeChar c ++ escapeChars cs := by simp [escapeChars]
    rw [this, unescRun_append, unesc_escapeChar, ih]
    simp [sanitize, List.append_assoc]

/-- **round trip**: unescaping what the marshaller's escaper wrote gives back the string, with characters that XML
    cannot carry replaced by U+FFFD — for every string -/
theorem refUnescape_escape (s : List Char) : refUnescape (escapeChars s) = some (sanitize s) := by
  unfold refUnescape
  have := unesc_escapeChars [] s
  simp only [List.nil_append] at this
  rw [show ({} : UnescState) = { out := [] } from rfl, this]
  simp

theorem sanitize_of_legal (s : List Char) (h : ∀ c ∈ s, isXmlChar c = true) : sanitize s = s := by
  induction s with
  | nil => rfl
  | cons c cs ih =>
    simp only [sanitize, List.map_cons, sanitizeChar, h c (by simp), if_true]
    congr 1
    exact ih (fun x hx => h x (by simp [hx]))

/-- **no markup**: the escaper's output never contains `<`, `>`, `"` or `'` — whatever the data -/
theorem escapeChar_no_markup (c : Char) : ∀ x ∈ escapeChar c, x ≠ '<' ∧ x ≠ '>' ∧ x ≠ '"' ∧ x ≠ '\'' := by
  intro x hx
  unfold escapeChar at hx
  by_cases h1 : c = '"'
  · simp [h1] at hx; rcases hx with rfl | rfl | rfl | rfl | rfl <;> decide
  by_cases h2 : c = '\''
  · simp [h2] at hx; rcases hx with rfl | rfl | rfl | rfl | rfl <;> decide
  by_cases h3 : c = '&'
  · simp [h3] at hx; rcases hx with rfl | rfl | rfl | rfl | rfl <;> decide
  by_cases h4 : c = '<'
  · simp [h4] at hx; rcases hx with rfl | rfl | rfl | rfl <;> decide
  by_cases h5 : c = '>'
  · simp [h5] at hx; rcases hx with rfl | rfl | rfl | rfl <;> decide
  by_cases h6 : c = '\t'
  · simp [h6] at hx; rcases hx with rfl | rfl | rfl | rfl | rfl <;> decide
  by_cases h7 : c = '\n'
  · simp [h7] at hx; rcases hx with rfl | rfl | rfl | rfl | rfl <;> decide
  by_cases h8 : c = '\r'
  · simp [h8] at hx; rcases hx with rfl | rfl | rfl | rfl | rfl <;> decide
  simp only [h1, h2, h3, h4, h5, h6, h7, h8, if_false] at hx
  by_cases hxc : isXmlChar c = true
  · simp [hxc] at hx; subst hx; exact ⟨h4, h5, h1, h2⟩
  · have : isXmlChar c = false := by simpa using hxc
    simp [this] at hx; subst hx; decide

theorem escapeChars_no_markup (s : List Char) : ∀ x ∈ escapeChars s, x ≠ '<' ∧ x ≠ '>' ∧ x ≠ '"' ∧ x ≠ '\'' := by
  intro x hx
  obtain ⟨c, _, hc⟩ := List.mem_flatMap.mp hx
  exact escapeChar_no_markup c x hc

/-- every `&` the escaper writes opens one of its eight references: the output is always well-formed for the unescaper -/
theorem escapeChars_wellformed (s : List Char) : (refUnescape (escapeChars s)).isSome := by
  rw [refUnescape_escape]; rfl

end Lib
