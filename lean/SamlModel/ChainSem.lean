import SamlModel.GoSem
import SamlModel.Model.Checker
/-!
  ChainSem — target of go2lean for the *chain handlers* (`ssoHandleFunc`, `logoutHandleFunc`,
  `attributeQueryHandleFunc`).

  * A closure literal over the handler's local variables is a function of the handler frame that may update it
    and may panic: `Clo σ α`.
  * One `checkerInstance.WithXxx(…)` call is one `Step σ` (constructor named after the method; value names, which
    checker.go only logs, are dropped).
  * `CheckFailed()` is `runChain`: the steps are registered, in order, with the functions of `Model.Checker` - the
    model of checker.go the C20 theorems are about - over the *panic-absorbing* state `Option σ`: once a closure
    panics the state is `none`, every later closure is a no-op, and the run reports the panic.  (A Go panic aborts the
    handler, nothing after it is observable; the embedding keeps the checker model total without giving checker.go a
    second semantics.)
  * `runChain_eq_runDirect`: that run is the obvious direct recursion (`runDirect`), which the handler refinement
    proofs use.
-/
set_option linter.unusedSimpArgs false
namespace Go

/-- a closure over a frame `σ` with result `α` -/
abbrev Clo (σ α : Type) := σ → Res (α × σ)

/-- body of a closure literal: `return v` is `.ret (v, s)` -/
def Ctl.toClo [Inhabited α] (c : Ctl σ (α × σ)) : Res (α × σ) :=
  match c with
  | .ret r => .ok r
  | .panic => .panic
  | .next s => .ok (default, s)
  | .brk s => .ok (default, s)
  | .cont s => .ok (default, s)

@[simp] theorem Ctl.toClo_ret [Inhabited α] (r : α × σ) : (Ctl.ret r : Ctl σ (α × σ)).toClo = .ok r := rfl
@[simp] theorem Ctl.toClo_panic [Inhabited α] : (Ctl.panic : Ctl σ (α × σ)).toClo = .panic := rfl
@[simp] theorem Ctl.toClo_next [Inhabited α] (s : σ) : (Ctl.next s : Ctl σ (α × σ)).toClo = .ok (default, s) := rfl

/-- closure value inside the checker model -/
def Clo.lift [Inhabited α] (f : Clo σ α) : Checker.M (Option σ) α := fun st =>
  match st with
  | none => (default, none)
  | some s =>
    match f s with
    | .panic => (default, none)
    | .ok (a, s') => (a, some s')

/-- a `func() error` inside the checker model, which asks only whether an error was produced -/
def Clo.liftErr (f : Clo σ Err) : Checker.M (Option σ) Bool := fun st =>
  match st with
  | none => (false, none)
  | some s =>
    match f s with
    | .panic => (false, none)
    | .ok (e, s') => (e.isSome, some s')

/-- one registration call on a `checker.Checker` -/
inductive Step (σ : Type) where
  | withValueNotEmptyCheck (value : Clo σ String) (errorFunc : Clo σ Unit)
  | withValuesNotEmptyCheck (values : Clo σ (List String)) (errorFunc : Clo σ Unit)
  | withValueLengthCheck (value : Clo σ String) (minlength maxlength : Int) (errorFunc : Clo σ Unit)
  | withValueEqualsCheck (value equal : Clo σ String) (errorFunc : Clo σ Unit)
  | withConditionalValueNotEmpty (cond : Clo σ Bool) (value : Clo σ String) (errorFunc : Clo σ Unit)
  | withConditionalLogicStep (cond : Clo σ Bool) (logic : Clo σ Err) (errorFunc : Clo σ Unit)
  | withLogicStep (logic : Clo σ Err) (errorFunc : Clo σ Unit)
  | withValueStep (logic : Clo σ Unit)

/-- the registration as checker.go performs it: the function of `Model.Checker` with the method's name -/
def Step.register (c : Checker.Checker (Option σ)) : Step σ → Checker.Checker (Option σ)
  | .withValueNotEmptyCheck v e => Checker.withValueNotEmptyCheck c (Clo.lift v) (Clo.lift e)
  | .withValuesNotEmptyCheck v e => Checker.withValuesNotEmptyCheck c (Clo.lift v) (Clo.lift e)
  | .withValueLengthCheck v mn mx e => Checker.withValueLengthCheck c (Clo.lift v) mn mx (Clo.lift e)
  | .withValueEqualsCheck v q e => Checker.withValueEqualsCheck c (Clo.lift v) (Clo.lift q) (Clo.lift e)
  | .withConditionalValueNotEmpty cnd v e => Checker.withConditionalValueNotEmpty c (Clo.lift cnd) (Clo.lift v) (Clo.lift e)
  | .withConditionalLogicStep cnd l e => Checker.withConditionalLogicStep c (Clo.lift cnd) (Clo.liftErr l) (Clo.lift e)
  | .withLogicStep l e => Checker.withLogicStep c (Clo.liftErr l) (Clo.lift e)
  | .withValueStep l => Checker.withValueStep c (Clo.lift l)

/-- `checkerInstance := checker.Checker{}` followed by the registrations in source order -/
def buildChain (steps : List (Step σ)) : Checker.Checker (Option σ) := steps.foldl Step.register {}

/-- `checkerInstance.CheckFailed()` on a handler frame -/
def runChain (steps : List (Step σ)) (s : σ) : Res (Bool × σ) :=
  match Checker.checkFailed (buildChain steps) (some s) with
  | (_, none) => .panic
  | (b, some s') => .ok (b, s')

/-! ### The direct reading -/

/-- run a closure, then continue -/
@[inline] def Clo.andThen (f : Clo σ α) (k : α → σ → Res β) : σ → Res β := fun s =>
  match f s with
  | .panic => .panic
  | .ok (a, s') => k a s'

/-- the failure branch of every step: run the callback, report failure -/
def failWith (errorFunc : Clo σ Unit) : Clo σ Bool := errorFunc.andThen fun _ s => .ok (true, s)

/-- one step: did it fail -/
def Step.run : Step σ → Clo σ Bool
  | .withValueNotEmptyCheck v e => v.andThen fun x s => if x == "" then failWith e s else .ok (false, s)
  | .withValuesNotEmptyCheck v e => v.andThen fun xs s => if Checker.anyEmpty xs then failWith e s else .ok (false, s)
  | .withValueLengthCheck v mn mx e =>
    let after (b : Bool) : Clo σ Bool := fun s => if b then failWith e s else .ok (false, s)
    let second : Clo σ Bool := fun s =>
      if mx > 0 then v.andThen (fun x s => after (decide (Lib.goLen x > mx)) s) s else after false s
    fun s => if mn > 0 then v.andThen (fun x s => if decide (Lib.goLen x < mn) then after true s else second s) s else second s
  | .withValueEqualsCheck v q e => v.andThen fun x => q.andThen fun y s =>
      if x != y then v.andThen (fun _ => q.andThen fun _ => failWith e) s else .ok (false, s)
  | .withConditionalValueNotEmpty cnd v e => cnd.andThen fun b s =>
      if b then v.andThen (fun x s => if x == "" then failWith e s else .ok (false, s)) s else .ok (false, s)
  | .withConditionalLogicStep cnd l e => cnd.andThen fun b s =>
      if b then l.andThen (fun err s => if err.isSome then failWith e s else .ok (false, s)) s else .ok (false, s)
  | .withLogicStep l e => l.andThen fun err s => if err.isSome then failWith e s else .ok (false, s)
  | .withValueStep l => l.andThen fun _ s => .ok (false, s)

/-- `for _, step := range c.steps { if step() { return true } }; return false` -/
def runDirect : List (Step σ) → Clo σ Bool
  | [], s => .ok (false, s)
  | st :: rest, s =>
    match st.run s with
    | .panic => .panic
    | .ok (true, s') => .ok (true, s')
    | .ok (false, s') => runDirect rest s'

@[simp] theorem runDirect_nil (s : σ) : runDirect ([] : List (Step σ)) s = .ok (false, s) := rfl
theorem runDirect_cons (st : Step σ) (rest : List (Step σ)) (s : σ) :
    runDirect (st :: rest) s =
      match st.run s with
      | .panic => .panic
      | .ok (true, s') => .ok (true, s')
      | .ok (false, s') => runDirect rest s' := rfl

/-! ### The two readings agree -/

/-- the function a step adds to the checker -/
def Step.toM (st : Step σ) : Checker.M (Option σ) Bool :=
  match (Step.register ({} : Checker.Checker (Option σ)) st).steps with
  | [f] => f
  | _ => fun s => (false, s)

private theorem register_steps (c : Checker.Checker (Option σ)) (st : Step σ) :
    (Step.register c st).steps = c.steps ++ [st.toM] := by
  cases st <;> simp [Step.register, Step.toM, Checker.withValueNotEmptyCheck, Checker.withValuesNotEmptyCheck,
    Checker.withValueLengthCheck, Checker.withValueEqualsCheck, Checker.withConditionalValueNotEmpty,
    Checker.withConditionalLogicStep, Checker.withLogicStep, Checker.withValueStep, Checker.addStep]

private theorem foldl_steps (steps : List (Step σ)) (c : Checker.Checker (Option σ)) :
    (steps.foldl Step.register c).steps = c.steps ++ steps.map Step.toM := by
  induction steps generalizing c with
  | nil => simp
  | cons st rest ih => simp [List.foldl, ih, register_steps, List.append_assoc]

theorem buildChain_steps (steps : List (Step σ)) : (buildChain steps).steps = steps.map Step.toM := by
  simp [buildChain, foldl_steps]


variable {σ : Type}

@[simp] theorem lift_none' [Inhabited α] (f : Clo σ α) : Clo.lift f none = (default, none) := rfl
@[simp] theorem liftErr_none' (f : Clo σ Err) : Clo.liftErr f none = (false, none) := rfl
theorem lift_ok [Inhabited α] (f : Clo σ α) (s s' : σ) (a : α) (h : f s = .ok (a, s')) : Clo.lift f (some s) = (a, some s') := by
  simp [Clo.lift, h]
theorem lift_panic [Inhabited α] (f : Clo σ α) (s : σ) (h : f s = .panic) : Clo.lift f (some s) = (default, none) := by
  simp [Clo.lift, h]
theorem liftErr_ok (f : Clo σ Err) (s s' : σ) (a : Err) (h : f s = .ok (a, s')) : Clo.liftErr f (some s) = (a.isSome, some s') := by
  simp [Clo.liftErr, h]
theorem liftErr_panic (f : Clo σ Err) (s : σ) (h : f s = .panic) : Clo.liftErr f (some s) = (false, none) := by
  simp [Clo.liftErr, h]

/-- the outcome of a direct run, as the checker model's pair -/
def asPair : Res (Bool × σ) → Bool × Option σ → Prop
  | .panic, p => p.2 = none
  | .ok (b, s), p => p = (b, some s)

/-- the failure branch in the checker model -/
def failM (e : Clo σ Unit) (st : Option σ) : Bool × Option σ := (true, (Clo.lift e st).2)

theorem failM_none (e : Clo σ Unit) : failM e none = (true, none) := rfl
theorem failM_sim (e : Clo σ Unit) (s : σ) : asPair (failWith e s) (failM e (some s)) := by
  unfold failWith Clo.andThen failM
  cases he : e s with
  | panic => simp [lift_panic _ _ he, asPair]
  | ok q => obtain ⟨u, s2⟩ := q; simp [lift_ok _ _ _ _ he, asPair]

theorem toM_1 (v : Clo σ String) (e : Clo σ Unit) : (Step.withValueNotEmptyCheck v e).toM = fun st =>
    if (Clo.lift v st).1 == "" then failM e (Clo.lift v st).2 else (false, (Clo.lift v st).2) := rfl
theorem toM_2 (v : Clo σ (List String)) (e : Clo σ Unit) : (Step.withValuesNotEmptyCheck v e).toM = fun st =>
    if Checker.anyEmpty (Clo.lift v st).1 then failM e (Clo.lift v st).2 else (false, (Clo.lift v st).2) := rfl
theorem toM_7 (l : Clo σ Err) (e : Clo σ Unit) : (Step.withLogicStep l e).toM = fun st =>
    if (Clo.liftErr l st).1 then failM e (Clo.liftErr l st).2 else (false, (Clo.liftErr l st).2) := rfl
theorem toM_8 (l : Clo σ Unit) : (Step.withValueStep l).toM = fun st => (false, (Clo.lift l st).2) := rfl
theorem toM_6 (c : Clo σ Bool) (l : Clo σ Err) (e : Clo σ Unit) : (Step.withConditionalLogicStep c l e).toM = fun st =>
    if (Clo.lift c st).1 then
      (if (Clo.liftErr l (Clo.lift c st).2).1 then failM e (Clo.liftErr l (Clo.lift c st).2).2 else (false, (Clo.liftErr l (Clo.lift c st).2).2))
    else (false, (Clo.lift c st).2) := rfl
theorem toM_5 (c : Clo σ Bool) (v : Clo σ String) (e : Clo σ Unit) : (Step.withConditionalValueNotEmpty c v e).toM = fun st =>
    if (Clo.lift c st).1 then
      (if (Clo.lift v (Clo.lift c st).2).1 == "" then failM e (Clo.lift v (Clo.lift c st).2).2 else (false, (Clo.lift v (Clo.lift c st).2).2))
    else (false, (Clo.lift c st).2) := rfl
theorem toM_4 (v q : Clo σ String) (e : Clo σ Unit) : (Step.withValueEqualsCheck v q e).toM = fun st =>
    let r1 := Clo.lift v st
    let r2 := Clo.lift q r1.2
    if r1.1 != r2.1 then failM e (Clo.lift q (Clo.lift v r2.2).2).2 else (false, r2.2) := rfl
theorem toM_3 (v : Clo σ String) (mn mx : Int) (e : Clo σ Unit) : (Step.withValueLengthCheck v mn mx e).toM = fun st =>
    let p1 : Bool × Option σ := if mn > 0 then (decide (Lib.goLen (Clo.lift v st).1 < mn), (Clo.lift v st).2) else (false, st)
    let p2 : Bool × Option σ := if p1.1 then (true, p1.2) else if mx > 0 then (decide (Lib.goLen (Clo.lift v p1.2).1 > mx), (Clo.lift v p1.2).2) else (false, p1.2)
    if p2.1 then failM e p2.2 else (false, p2.2) := by
  funext st
  simp only [Step.toM, Step.register, Checker.withValueLengthCheck, Checker.addStep, List.nil_append, failM]
  first | done | (split <;> split <;> simp_all)

theorem anyEmpty_default : Checker.anyEmpty (default : List String) = false := rfl
local macro "fin" : tactic => `(tactic| first | done | (split <;> rfl) | simp [anyEmpty_default])

theorem ite_snd_none {α : Type} (c : Prop) [Decidable c] (a b : Bool × Option α) (ha : a.2 = none) (hb : b.2 = none) :
    (if c then a else b).2 = none := by split <;> assumption

theorem toM_none (st : Step σ) : (st.toM none).2 = none := by
  cases st with
  | withValueNotEmptyCheck v e => rw [toM_1]; simp [failM_none]; fin
  | withValuesNotEmptyCheck v e => rw [toM_2]; simp [failM_none]; fin
  | withValueLengthCheck v mn mx e =>
    rw [toM_3]; simp only [lift_none']
    by_cases h1 : mn > 0 <;> by_cases h2 : mx > 0 <;> simp [h1, h2, failM_none] <;> (repeat' split) <;> simp_all [failM_none]
  | withValueEqualsCheck v q e => rw [toM_4]; simp [failM_none]
  | withConditionalValueNotEmpty c v e => rw [toM_5]; simp [failM_none]
  | withConditionalLogicStep c l e => rw [toM_6]; simp [failM_none]
  | withLogicStep l e => rw [toM_7]; simp [failM_none]
  | withValueStep l => rw [toM_8]; simp

theorem toM_some (st : Step σ) (s : σ) : asPair (st.run s) (st.toM (some s)) := by
  cases st with
  | withLogicStep l e =>
    rw [toM_7]; simp only [Step.run, Clo.andThen]
    cases hl : l s with
    | panic => simp [liftErr_panic _ _ hl, asPair]
    | ok p =>
      obtain ⟨err, s1⟩ := p
      simp only [liftErr_ok _ _ _ _ hl]
      cases err with
      | none => simp [asPair]
      | some m => simpa using failM_sim e s1
  | withValueStep l =>
    rw [toM_8]; simp only [Step.run, Clo.andThen]
    cases hl : l s with
    | panic => simp [lift_panic _ _ hl, asPair]
    | ok p => obtain ⟨u, s1⟩ := p; simp [lift_ok _ _ _ _ hl, asPair]
  | withValueNotEmptyCheck v e =>
    rw [toM_1]; simp only [Step.run, Clo.andThen]
    cases hv : v s with
    | panic => simp [lift_panic _ _ hv, asPair, failM_none]; fin
    | ok p =>
      obtain ⟨x, s1⟩ := p
      simp only [lift_ok _ _ _ _ hv]
      by_cases hx : (x == "") = true
      · simp only [hx, if_true]; exact failM_sim e s1
      · simp [hx, asPair]
  | withValuesNotEmptyCheck v e =>
    rw [toM_2]; simp only [Step.run, Clo.andThen]
    cases hv : v s with
    | panic => simp [lift_panic _ _ hv, asPair, failM_none]; fin
    | ok p =>
      obtain ⟨x, s1⟩ := p
      simp only [lift_ok _ _ _ _ hv]
      by_cases hx : Checker.anyEmpty x = true
      · simp only [hx, if_true]; exact failM_sim e s1
      · simp [hx, asPair]
  | withConditionalLogicStep c l e =>
    rw [toM_6]; simp only [Step.run, Clo.andThen]
    cases hc : c s with
    | panic => simp [lift_panic _ _ hc, asPair, failM_none]
    | ok p =>
      obtain ⟨b, s1⟩ := p
      simp only [lift_ok _ _ _ _ hc]
      cases b with
      | false => simp [asPair]
      | true =>
        simp only [if_true]
        cases hl : l s1 with
        | panic => simp [liftErr_panic _ _ hl, asPair]
        | ok p =>
          obtain ⟨err, s2⟩ := p
          simp only [liftErr_ok _ _ _ _ hl]
          cases err with
          | none => simp [asPair]
          | some m => simpa using failM_sim e s2
  | withConditionalValueNotEmpty c v e =>
    rw [toM_5]; simp only [Step.run, Clo.andThen]
    cases hc : c s with
    | panic => simp [lift_panic _ _ hc, asPair, failM_none]
    | ok p =>
      obtain ⟨b, s1⟩ := p
      simp only [lift_ok _ _ _ _ hc]
      cases b with
      | false => simp [asPair]
      | true =>
        simp only [if_true]
        cases hv : v s1 with
        | panic => simp [lift_panic _ _ hv, asPair, failM_none]; fin
        | ok p =>
          obtain ⟨x, s2⟩ := p
          simp only [lift_ok _ _ _ _ hv]
          by_cases hx : (x == "") = true
          · simp only [hx, if_true]; exact failM_sim e s2
          · simp [hx, asPair]
  | withValueEqualsCheck v q e =>
    rw [toM_4]; simp only [Step.run, Clo.andThen]
    cases hv : v s with
    | panic => simp [lift_panic _ _ hv, asPair, failM_none]
    | ok p =>
      obtain ⟨x, s1⟩ := p
      simp only [lift_ok _ _ _ _ hv]
      cases hq : q s1 with
      | panic => simp [lift_panic _ _ hq, asPair, failM_none]; fin
      | ok p =>
        obtain ⟨y, s2⟩ := p
        simp only [lift_ok _ _ _ _ hq]
        by_cases hxy : (x != y) = true
        · simp only [hxy, if_true]
          cases hv2 : v s2 with
          | panic => simp [lift_panic _ _ hv2, asPair, failM_none]
          | ok p =>
            obtain ⟨x2, s3⟩ := p
            simp only [lift_ok _ _ _ _ hv2]
            cases hq2 : q s3 with
            | panic => simp [lift_panic _ _ hq2, asPair, failM_none]
            | ok p =>
              obtain ⟨y2, s4⟩ := p
              simp only [lift_ok _ _ _ _ hq2]
              exact failM_sim e s4
        · simp [hxy, asPair]
  | withValueLengthCheck v mn mx e =>
    rw [toM_3]; simp only [Step.run, Clo.andThen]
    have second : ∀ s1 : σ, asPair
        (if mx > 0 then v.andThen (fun x s2 => if decide (Lib.goLen x > mx) = true then failWith e s2 else .ok (false, s2)) s1 else
          (if false = true then failWith e s1 else .ok (false, s1)))
        (let p2 : Bool × Option σ := if mx > 0 then (decide (Lib.goLen (Clo.lift v (some s1)).1 > mx), (Clo.lift v (some s1)).2) else (false, some s1)
         if p2.1 then failM e p2.2 else (false, p2.2)) := by
      intro s1
      by_cases h2 : mx > 0
      · simp only [h2, if_true, Clo.andThen]
        cases hv : v s1 with
        | panic => simp [lift_panic _ _ hv, asPair, failM_none]; fin
        | ok p =>
          obtain ⟨x, s2⟩ := p
          simp only [lift_ok _ _ _ _ hv]
          by_cases hx : decide (Lib.goLen x > mx) = true
          · simp only [hx, if_true]; exact failM_sim e s2
          · simp [hx, asPair]
      · simp [h2, asPair]
    by_cases h1 : mn > 0
    · simp only [h1, if_true]
      cases hv : v s with
      | panic => simp [lift_panic _ _ hv, asPair, failM_none]; (repeat' split) <;> simp_all [failM_none]
      | ok p =>
        obtain ⟨x, s1⟩ := p
        simp only [lift_ok _ _ _ _ hv]
        by_cases hx : decide (Lib.goLen x < mn) = true
        · simp only [hx, if_true]; exact failM_sim e s1
        · simp only [hx]; simpa [Clo.andThen] using second s1
    · simp only [h1, if_false]; simpa [Clo.andThen] using second s

private theorem runSteps_none (fs : List (Step σ)) : (Checker.runSteps (fs.map Step.toM) (none : Option σ)).2 = none := by
  induction fs with
  | nil => rfl
  | cons st rest ih =>
    simp only [List.map, Checker.runSteps]
    have h := toM_none st
    rcases hst : st.toM none with ⟨b, s'⟩
    rw [hst] at h
    simp only at h
    subst h
    cases b <;> simp [ih]

theorem runSteps_eq_runDirect (steps : List (Step σ)) (s : σ) :
    asPair (runDirect steps s) (Checker.runSteps (steps.map Step.toM) (some s)) := by
  induction steps generalizing s with
  | nil => simp [asPair, Checker.runSteps]
  | cons st rest ih =>
    have h := toM_some st s
    simp only [List.map, Checker.runSteps, runDirect_cons]
    cases hr : st.run s with
    | panic =>
      rw [hr] at h
      simp only [asPair] at h
      rcases hm : st.toM (some s) with ⟨b, s'⟩
      rw [hm] at h
      simp only at h
      subst h
      cases b
      · simp only [asPair]; exact runSteps_none rest
      · simp [asPair]
    | ok p =>
      obtain ⟨b, s'⟩ := p
      rw [hr] at h
      simp only [asPair] at h
      rw [h]
      cases b
      · simp only; exact ih s'
      · simp [asPair]

/-- **`CheckFailed()` through `Model.Checker` is the direct run.** -/
theorem runChain_eq_runDirect (steps : List (Step σ)) (s : σ) : runChain steps s = runDirect steps s := by
  have h := runSteps_eq_runDirect steps s
  unfold runChain Checker.checkFailed
  rw [buildChain_steps]
  cases hr : runDirect steps s with
  | panic =>
    rw [hr] at h
    simp only [asPair] at h
    rcases hm : Checker.runSteps (steps.map Step.toM) (some s) with ⟨b, s'⟩
    rw [hm] at h
    simp only at h
    subst h
    rfl
  | ok p =>
    obtain ⟨b, s'⟩ := p
    rw [hr] at h
    simp only [asPair] at h
    rw [h]

end Go
