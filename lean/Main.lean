import SamlModel.Driver
/-! Line-protocol driver: one op per input line, one canonical reply line per op. -/

partial def loop (h : IO.FS.Stream) (out : IO.FS.Stream) : IO Unit := do
  let line ← h.getLine
  if line.isEmpty then return ()
  let l := String.ofList (line.toList.filter (fun c => c != '\n' && c != '\r'))
  out.putStrLn (Driver.step l)
  out.flush
  loop h out

def main : IO Unit := do
  loop (← IO.getStdin) (← IO.getStdout)
