"""Per-property configuration of the check runner."""

COMMON_TRUST = [
    "Lean 4.33.0 kernel; axioms limited to propext, Classical.choice, Quot.sound (audited per theorem on every run)",
    "go2lean translator (/verif/tools/cmd/go2lean) and the GoSem target semantics (lean/SamlModel/GoSem.lean); validated by differential runs, not verified",
    "the correspondence harness (/verif/harness), its generators and monitors",
]

PROPS = {
    "C16": {
        "modules": ["SamlModel.Props.C16"],
        "translated": ["GetAcsUrlAndBindingForResponse", "isXSBooleanTrue"],
        "trusted_base": COMMON_TRUST + [
            "Lib.atoi models strconv.Atoi (differentially tested); slices modelled as lists",
        ],
        "assumptions": [
            "the index attribute is read with strconv.Atoi and its error ignored, exactly as the code does; idx in the theorem is that reading",
        ],
    },
}
