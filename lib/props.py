"""Per-property configuration of the check runner."""

COMMON_TRUST = [
    "Lean 4.33.0 kernel; axioms limited to propext, Classical.choice, Quot.sound (audited per theorem on every run)",
    "go2lean translator (/verif/tools/cmd/go2lean) and the GoSem target semantics (lean/SamlModel/GoSem.lean); validated by differential runs, not verified",
    "the correspondence harness (/verif/harness), its generators and monitors",
]

SSO_TRUST = [
    "Model.Sso is a hand-written model of ssoHandleFunc. Tie 1 (proof): ssoHandleFunc and getAuthRequestFromRequest are translated by go2lean on every run (chain handler: the closure literals registered with the checker.Checker are functions of the handler frame, fifteen Go.Step, CheckFailed() = Go.runChain = Model.Checker on the panic-absorbing state; storage.CreateAuthRequest is recorded in the effect trace with its arguments; the func(error) parameters of verifyRedirectSignature / verifyPostSignature are extra results of generated _wb variants proved equal to the plain ones) and SsoGen.sso_handler_refines proves, step lemma by step lemma, that for every answer of the environment (GetMetadata, ParseForm / FormValue / URL.Query, xml.DecodeAuthNRequest, GetServiceProvider, the two signature validators, time.Now / Parse, CreateAuthRequest, GetID, LoginURL, NewID as typed oracles) the regenerated handler does observably what Sso.sso does on the input read off from the same answers: same reply (HTTP 500 / failed Response with the same status, delivery parameters and InResponseTo / 303 to the login URL), same CreateAuthRequest call or none; C05_generated_handler, C06_generated_handler, C08_generated_handler, C09_generated_sso_handler state the properties on the regenerated handler. Tie 2 (correspondence): the sso differential (model vs implementation on every generated request, the model input derived with the library's own decoders)",
    "environment contract of sso_handler_refines (EnvOK): a decoder / storage call that reports no error hands back a non-nil value, registered service providers carry their metadata (NewServiceProvider builds no other); the decoder clause is a theorem about the regenerated xml.DecodeAuthNRequest / DecodeLogoutRequest (DecodeGen.decodeAuthN_value_iff_no_error, envOK_decode_of_generated) under the link that the decoder oracle is the library's decoder",
    "net/http form parsing, encoding/xml decoding, gorilla/mux routing are not modelled (the harness derives the model's input from them)",
]

CB_TRUST = [
    "Model.Callback is a hand-written model of callbackHandleFunc / loginResponse / makeResponse / makeAssertion / createSignature. Tie 1 (proof): all of these are also translated by go2lean on every run and HandlerGen.handler_refines proves that, for every answer of the environment, the regenerated handler writes exactly one reply and it is the reply of Model.Callback.callback on the input read off from the same answers (effects http.Error / sendBackResponse are returned as a trace; ParseForm, Form.Get, the storage, the stored request's getters, the key getter, the two signing functions, time.Now/Format and NewID are typed oracles). Tie 2 (correspondence): the cb differential runs model and implementation on every generated callback request, status message included. Fingerprinted remains sendBackResponse (one effect = one delivery, Callback.deliver)",
    "encoding/xml marshalling of the message, html/template and the redirect URL are not part of this model (C17/C18); the harness decodes replies with an independent token-level parser",
]

SLO_TRUST = [
    "Model.Logout is a hand-written model of logoutHandleFunc and the LogoutResponse builders. Tie 1 (proof): logoutHandleFunc, getLogoutRequestFromRequest, makeFailedLogoutResponse, makeSuccessfulLogoutResponse, makeLogoutResponse and sendBackLogoutResponse are translated by go2lean on every run - the closure literals registered with the checker.Checker become functions of the handler frame (Go.Clo), each checkerInstance.WithXxx call one Go.Step, CheckFailed() is Go.runChain, i.e. Model.Checker's functions on the panic-absorbing state, proved equal to the direct recursion (ChainSem.runChain_eq_runDirect) - and LogoutGen.logout_handler_refines proves that, for every answer of the environment (ParseForm / Form.Get / URL.Query, xml.DecodeLogoutRequest, GetServiceProvider, time.Now / Format / Parse, NewID as typed oracles), the regenerated handler writes exactly one LogoutResponse and it is Logout.logout on the input read off from the same answers; LogoutGen.sloSendBack_renders / _delivers do the same for the rendering of that one effect. Tie 2 (correspondence): the slo differential runs model and implementation on every generated logout request",
    "environment contract of logout_handler_refines (EnvOK, StorageWF): a decoder / storage call that reports no error hands back a non-nil value, and registered service providers have an SPSSODescriptor (NewServiceProvider refuses others); checker.go itself stays a hand translation (Model.Checker, fingerprints + exhaustive chk correspondence, C20)",
]

AQ_TRUST = [
    "Model.AttrQuery is a hand-written model of attributeQueryHandleFunc and of the filter of makeAttributeQueryResponse. Tie 1 (proof): both are translated by go2lean on every run (chain handler: closures as Go.Clo over the handler frame, eight Go.Step, CheckFailed() = Go.runChain) and AttrQueryGen.attrquery_handler_refines proves that, for every answer of the environment (GetMetadata, ReadAll(r.Body), xml.DecodeAttributeQuery, GetServiceProvider, ValidateAttributeQuerySignature, SetUserinfoWithLoginName with its filled argument, the key getter, createPostSignature, the write error, time.Now / Format, NewID as typed oracles), the regenerated handler panics where the model panics, answers HTTP 500 where it does, and otherwise writes one SOAP envelope whose response carries exactly AttrQuery.attrQuery's answer on the input read off from the same answers (and never a malformed envelope); makeAttributeQueryResponse_refines proves the generated nested filter loop equal to AttrQuery.filterAttrs. Tie 2 (correspondence): the aq differential",
    "environment contract of attrquery_handler_refines (EnvOK): GetServiceProvider / SetUserinfoWithLoginName that report no error hand back a non-nil service provider / leave the attribute record non-nil",
]

PROPS = {
    "C15": {
        "modules": ["SamlModel.Props.C15"],
        "translated": [],
        "race": True,
        "trusted_base": COMMON_TRUST + [
            "Model.Interleave: a request in flight is a program over atomic storage operations and identifier draws; storage keys created by a request and identifiers drawn by it come from its own name space (the storage / uuid.New hand out values no other request is given) - stated hypotheses, not proved; the theorems hold for every family of programs, so no correspondence of the program shapes is needed for C15_isolation / C15_no_cross_talk / C15_ids_distinct; callbackProg / sessionProg (the instance at the shape of the real endpoints) reply Model.Callback.callback of the storage answers (tied as in C01)",
            "that handlers share nothing but the storage is the regenerated obligation C15_shared_state_readonly (go2lean shared.go: static, object-level call graph; calls through interfaces and function values are not followed; reflection, unsafe and cgo are not used by the library) and is probed dynamically by the history differential (long-lived provider vs. freshly built world on every request of random histories)",
            "data-race freedom under the Go memory model and real scheduling are observed, not proved: the harness is built with -race and any report of the race detector fails the check; N concurrent clients incl. clients that stall inside ResponseWriter.Write",
        ],
        "assumptions": ["uuid.New does not repeat (C15_ids_distinct takes injectivity of the identifier source as hypothesis); the '_'+UUID shape and pairwise distinctness are checked on every concurrent run",
                        "the integrator's storage serialises its operations (the harness storage uses one mutex)"],
    },
    "C16": {
        "modules": ["SamlModel.Props.C16", "SamlModel.Props.Stateless"],
        "translated": ["GetAcsUrlAndBindingForResponse", "isXSBooleanTrue"],
        "trusted_base": COMMON_TRUST + [
            "Lib.atoi models strconv.Atoi (differentially tested); slices modelled as lists",
        ],
        "assumptions": [
            "the index attribute is read with strconv.Atoi and its error ignored, exactly as the code does; idx in the theorem is that reading",
        ],
    },
    "C20": {
        "modules": ["SamlModel.Props.C20", "SamlModel.Props.CheckerGen"],
        "translated": [],
        "trusted_base": COMMON_TRUST + [
            "Model.Checker is a hand translation of checker.go. Tie 1 (proof): checker.go is translated on every run by go2lean's checkergen (the methods of Checker, polymorphic in the client state: a closure parameter is a state transformer, a call threads the state, `for … range` with early return is Go.forM) into Generated/Checker.lean, and Props.CheckerGen proves every generated function equal to the function of Model.Checker the theorems are stated over (checkFailed_eq by induction over the step list, withXxx_eq; register_is_generated / runChain_is_generated: the chains of the translated handlers are registered and run by the regenerated checker.go). Tie 2: the exhaustive chk correspondence (every program up to the bound, instrumented closures)",
            "closure invocations are observed through instrumented closures; reads of closures are part of the compared trace",
        ],
        "assumptions": [
            "client closures are deterministic and do not panic (a panicking closure aborts the chain in Go and in the model alike; not modelled)",
        ],
    },
    "C04": {
        "modules": ["SamlModel.Props.C04", "SamlModel.Props.HandlerGen", "SamlModel.Props.SendBack", "SamlModel.Props.RedirectSignGen", "SamlModel.Props.Stateless", "SamlModel.Props.MetadataGen", "SamlModel.Props.PostSignGen"],
        "translated": ["createRedirectSignature", "BuildRedirectQuery", "getResponseCert", "Provider_GetMetadata", "createPostSignature"],
        "trusted_base": COMMON_TRUST + CB_TRUST + [
            "RSA / SHA are not modelled: C04_redirect_query states that an independent verifier recovers exactly the signed octets, the algorithm URI and the signature bytes from the query sent; that rsa.VerifyPKCS1v15 then accepts is the law verify(pk, m, sign(sk, m)) of the scheme, observed with real keys on every redirect reply",
            "Lib.Url (QueryUnescape, the saml-bindings 3.4.4.1 verifier over the raw query) is written from the specification; it is compared on every run with net/url and with the harness's independent Go verifier (`lib qunesc`, `lib rverify`), also on the queries the real BuildRedirectQuery assembles from random values",
            "enveloped XML-DSig: signing is done by amdonov/xmlsig v0.1.0 and verification by goxmldsig v1.4.0 + etree (pinned: C04_source_current); the theorems cover only the rendering of text nodes and attribute values by both sides (Lib.C14n, compared with etree's canonical writer and with the digest xmlsig computes over a marker element: `lib c14n`); namespace handling, attribute ordering and the rest of the two canonicalisers are sampled through goxmldsig's verdict on every emitted assertion / metadata document, which must agree case by case with the model's prediction (verifies iff every signed text and attribute value is free of the special characters)",
            "createRedirectSignature is translated (standalone): C04.createRedirectSignature_signs - a returned signature is base64 of what signature.CreateRedirect produced over exactly C04.signedOctets (BuildRedirectQuery of the deflated message, RelayState and algorithm), the returned algorithm is the configured one; createSignature and sendBackResponse are translated too (CallbackGen, SendBack); createPostSignature is translated standalone as well (PostSignGen.createPostSignature_signs: signer from exactly the certificate, key and algorithm handed in, signature.Create over the assertion as handed in, stored in that assertion, nothing else changed; callers keep the oracle of the same name) and the metadata signature is covered by MetadataGen.C11_generated_signed_iff_configured; signature.Create / GetSigner / xml.Marshal stay fingerprinted (C04_source_current)",
        ],
        "assumptions": ["the certificate the IdP publishes is the one GetResponseSigningKey returns (C11_one_certificate); signed metadata is verified against the published certificate, the harness storage uses one key pair for responses and metadata",
                        "a registered consumer URL contains no '#' (a fragment would swallow the query); URLs with an own query are covered by C04_redirect_url_with_query under the stated hypothesis that they do not themselves carry a SAMLResponse / RelayState / SigAlg / Signature parameter"],
    },
    "C05": {
        "modules": ["SamlModel.Props.C05", "SamlModel.Props.SendBack", "SamlModel.Props.SsoGen", "SamlModel.Props.RedirectSigGen", "SamlModel.Props.SsoProps", "SamlModel.Props.Stateless", "SamlModel.Props.DecodeGen", "SamlModel.Props.MetadataGen", "SamlModel.Props.LookupGen"],
        "translated": ["ServiceProvider_ValidateRedirectSignature", "IdentityProvider_ssoHandleFunc", "getAuthRequestFromRequest", "signaturePostProvided", "signaturePostVerificationNecessary", "signatureRedirectVerificationNecessary",
                       "verifyRedirectSignature", "verifyPostSignature", "certificateCheckNecessary", "checkCertificate", "isXSBooleanTrue", "DecodeAuthNRequest", "IdentityProvider_GetServiceProvider"],
        "trusted_base": COMMON_TRUST + SSO_TRUST + [
            "ServiceProvider.ValidateRedirectSignature is translated (RedirectSigGen.validateRedirect_spec: it hands exactly `octets request relayState sigAlg`, the base64-decoded Signature and the registered key to signature.ValidateRedirect; octets_injective: the octets determine the three values; C05_redirect_signature_covers_what_is_acted_on combines it with the handler theorems under the stated link hypothesis that the storage's service providers use the library's method). RSA / DSA verification (signature.ValidateRedirect) and XML-DSig validation (ValidatePostSignature: goxmldsig, etree) are oracles, sampled by the harness with real keys, not proved; signature-wrapping inside goxmldsig/etree vs encoding/xml is outside the theorem",
        ],
        "assumptions": ["Form.WF: the binding decision of getAuthRequestFromRequest is POST or Redirect (fingerprinted function; checked on every case by the sso correspondence)"],
    },
    "C06": {
        "modules": ["SamlModel.Props.C06", "SamlModel.Props.SendBack", "SamlModel.Props.SsoGen", "SamlModel.Props.SsoProps", "SamlModel.Props.DecodeGen", "SamlModel.Props.Stateless", "SamlModel.Props.MetadataGen", "SamlModel.Props.LookupGen"],
        "translated": ["DecodeAuthNRequest", "DecodeLogoutRequest", "IdentityProvider_ssoHandleFunc", "getAuthRequestFromRequest", "checkRequestRequiredContent", "checkIfRequestTimeIsStillValid", "verifyRequestDestinationOfAuthRequest", "ServiceProvider_GetEntityID", "IdentityProvider_GetServiceProvider"],
        "trusted_base": COMMON_TRUST + SSO_TRUST + [
            "time.Parse / time.Now are oracles (Ora.timeParse, Ora.now) in C06_accept_implies_valid and its corollaries; for the library's DefaultTimeFormat time.Parse is additionally modelled (Lib.Time.parseDefault, written from Go 1.23's time/format.go; compared with time.Parse on a boundary corpus and 2*10^4 (thorough 3*10^5) mutated strings on every run: `lib timeparse`) and C06_window_concrete / C06_zero_time_is_expired are stated over that model under the hypothesis ParsesAsGo; XML decoding (DecodeAuthNRequest incl. base64/DEFLATE) is an oracle whose failure is `decoded = none`",
        ],
        "assumptions": ["wall-clock cases keep a 10-minute guard band; the exact boundary NotBefore <= now < NotOnOrAfter is covered by the theorem on the translated time.go"],
    },
    "C08": {
        "modules": ["SamlModel.Props.C08", "SamlModel.Props.SendBack", "SamlModel.Props.SsoGen", "SamlModel.Props.SsoProps", "SamlModel.Props.Stateless", "SamlModel.Props.DecodeGen", "SamlModel.Props.MetadataGen", "SamlModel.Props.LookupGen"],
        "translated": ["IdentityProvider_ssoHandleFunc", "getAuthRequestFromRequest", "GetAcsUrlAndBindingForResponse", "checkRequestRequiredContent", "IdentityProvider_GetServiceProvider"],
        "trusted_base": COMMON_TRUST + SSO_TRUST + [
            "that the implementation writes exactly one reply and calls CreateAuthRequest at most once is observed by the harness (reply parser counts documents/forms; storage call log), the model's Result holds one of each by construction",
        ],
        "assumptions": [],
    },
    "C01": {
        "modules": ["SamlModel.Props.C01", "SamlModel.Props.HandlerGen", "SamlModel.Props.SendBack", "SamlModel.Props.Stateless"],
        "translated": ["getResponseCert", "Attributes_GetSAML", "Attributes_GetNameID", "IdentityProvider_loginResponse", "createSignature",
                       "Response_makeSuccessfulResponse", "Response_makeFailedResponse", "IdentityProvider_callbackHandleFunc", "IdentityProvider_errorResponse"],
        "trusted_base": COMMON_TRUST + CB_TRUST + [
            "loginResponse and createSignature are translated (go2lean: Done(), SetUserinfoWithUserID with its filled argument, the key getter, time.Now / Format, NewID, createRedirectSignature / createPostSignature as typed oracles; the *Response parameter as an in-out value) and linked to the callback model by C01_generated_gate / C01_generated_failure / C01_generated_success (Props.CallbackGen): whatever the generated code returns, the model fed from the same oracle answers replies with exactly that status / that message; callbackHandleFunc itself is translated too (effect trace) and C01_generated_handler states the property on the regenerated handler for every environment: a Success Response is written only if the request carried an id, the storage knew it and Done() answered true, any other Response carries no assertion, nothing else is written",
        ],
        "assumptions": ["Done() is owned by storage: the history theorem models completion as the only operation that sets it"],
    },
    "C03": {
        "modules": ["SamlModel.Props.C03", "SamlModel.Props.HandlerGen", "SamlModel.Props.HandlerProps", "SamlModel.Props.SendBack", "SamlModel.Props.Stateless"],
        "translated": ["Attributes_GetSAML", "Attributes_GetNameID", "getResponseCert", "getIssuer", "makeResponse", "makeAssertion", "Response_makeAssertionResponse", "Response_makeSuccessfulResponse", "Response_makeFailedResponse"],
        "trusted_base": COMMON_TRUST + CB_TRUST + [
            "makeSuccessfulResponse / makeAssertionResponse / makeFailedResponse / makeResponse / makeAssertion / getIssuer are translated (go2lean) and proved to build exactly the messages of the callback model (C03_success_message_is_generated, C03_failed_message_is_generated, C03_builders_refine); time.Now / Format are oracles of the generated code (Ora.now, Ora.m_Format); real functions vs generated definitions are compared on random arguments (`fn` ops, builders differential)",
            "time.Now/Format are inputs of the model (issueInstant, untilInstant); C03_window is stated for any formatter/parser with the stated granularity law; the harness brackets IssueInstant with the wall clock",
            "uuid.New is assumed not to repeat (C03_ids takes injectivity of the ID source as hypothesis); the '_'+uuid shape is checked by the harness on every reply",
            "Go map iteration order of custom attributes is the order of the list in the model (universally quantified); the harness compares the custom part sorted",
        ],
        "assumptions": [],
    },
    "C13": {
        "modules": ["SamlModel.Props.C13", "SamlModel.Props.LogoutGen", "SamlModel.Props.LogoutProps", "SamlModel.Props.DecodeGen", "SamlModel.Props.Stateless", "SamlModel.Props.LookupGen"],
        "translated": ["DecodeAuthNRequest", "DecodeLogoutRequest", "checkIfRequestTimeIsStillValid", "makeLogoutResponse", "getIssuer", "IdentityProvider_logoutHandleFunc", "getLogoutRequestFromRequest",
                       "LogoutResponse_makeFailedLogoutResponse", "LogoutResponse_makeSuccessfulLogoutResponse", "LogoutResponse_sendBackLogoutResponse", "IdentityProvider_GetServiceProvider"],
        "trusted_base": COMMON_TRUST + SLO_TRUST + [
            "makeLogoutResponse / getIssuer are translated and proved to refine Logout.mkMsg (C13_builder_refines); C13_generated_one_response / _success_iff / _delivery state the property on the regenerated handler",
            "XML decoding (DecodeLogoutRequest incl. base64/DEFLATE) and html/template rendering are oracles / covered by C17, C18",
        ],
        "assumptions": ["SpWF: registered metadata has an SPSSODescriptor (NewServiceProvider refuses metadata without one)"],
    },
    "C12": {
        "modules": ["SamlModel.Props.C12", "SamlModel.Props.AttrQueryGen", "SamlModel.Props.AttrQueryProps", "SamlModel.Props.Stateless", "SamlModel.Props.LookupGen", "SamlModel.Props.PostSignGen", "SamlModel.Props.DecodeGen"],
        "translated": ["verifyRequestDestinationOfAttrQuery", "certificateCheckNecessary", "checkCertificate", "signaturePostProvided",
                       "ServiceProvider_GetEntityID", "Attributes_GetSAML", "Attributes_GetNameID", "getResponseCert",
                       "makeAttributeQueryResponse", "IdentityProvider_attributeQueryHandleFunc", "IdentityProvider_GetServiceProvider", "createPostSignature", "DecodeAttributeQuery"],
        "trusted_base": COMMON_TRUST + AQ_TRUST + [
            "SOAP/XML decoding and XML-DSig validation of the query (ValidateAttributeQuerySignature: etree + goxmldsig) are oracles sampled with real keys",
        ],
        "assumptions": ["duplicates in the query may duplicate answer entries; the filter is specified as a set (C12_filter_spec), as the property's quantifier says"],
    },
    "C14": {
        "modules": ["SamlModel.Props.C14", "SamlModel.Props.DecodeGen", "SamlModel.Props.C14Gen"],
        "translated": ["InflateAndDecode", "DecodeAuthNRequest", "DecodeLogoutRequest", "getAuthRequestFromRequest", "getLogoutRequestFromRequest", "IdentityProvider_ssoHandleFunc", "IdentityProvider_logoutHandleFunc"],
        "trusted_base": COMMON_TRUST + [
            "compress/flate is an oracle (Ora.inflate: the byte stream the inflater would deliver); io.LimitReader / io.ReadAll are modelled in Lib.Stream (differentially tested through the InflateAndDecode fn op with the real inflater's behaviour as oracle answer)",
            "that the Go allocator's usage is proportional to the bytes materialised, and compress/flate's own window, are measured (runtime.MemStats.TotalAlloc delta around one ServeHTTP per bomb), not proved",
        ],
        "assumptions": ["the callers reach the inflater only through InflateAndDecode: DecodeAuthNRequest / DecodeLogoutRequest and the two form readers are translated on every run (DecodeGen.decodeAuthN_spec / decodeLogout_spec; C14Gen: an over-sized payload is an error of the regenerated decoders, is never accepted by the regenerated ssoHandleFunc and never answered with Success by the regenerated logoutHandleFunc); the handlers consult the decoders as oracles, linked by the hypotheses AuthNDecoderIsGenerated / LogoutDecoderIsGenerated; DecodeAttributeQuery takes no DEFLATE input (SOAP body)"],
    },
    "C17": {
        "modules": ["SamlModel.Props.C17", "SamlModel.Props.SendBack", "SamlModel.Props.Stateless"],
        "translated": [],
        "trusted_base": COMMON_TRUST + [
            "html/template is not translated: its three escapers that act on the page (attrEscaper, urlFilter, urlNormalizer) and the splice of literal segments and escaped values are hand-modelled byte-exactly in Lib.Html / Lib.HtmlTok.page; the model is compared on every run with the bytes html/template writes for the library's own template constants and with the bodies the real callback, SSO-error and logout handlers send (`lib page`)",
            "the literal segments and the hole list are read from pkg/provider/template.go by go2lean on every run (Gen.Facts.postTemplateLit*, logoutTemplateLit*); the package that parses them and the Go types of the substituted fields are extracted facts (escaping_on)",
            "the HTML tokenizer the theorems speak about (Lib.HtmlTok.step, newline normalisation, attribute-value character references) is a slice of the WHATWG tokenizer written from the specification; it is compared with golang.org/x/net/html on every rendered page in both scripting modes (`lib tok`); comments containing '>', CDATA, script-data escapes and <plaintext> are not modelled (none occurs in the templates, and no substituted byte can open a tag: C17_no_delimiter)",
            "IdentityProviderConfig.PostTemplate / LogoutTemplate (templates supplied by the embedding application) are configuration, outside the property",
        ],
        "assumptions": ["a browser tokenises the page as the WHATWG tokenizer does; tree construction (foster parenting, implied end tags) is not modelled - the page theorem fixes the complete token stream, from which exactly one form with two hidden inputs follows for any conformant tree builder"],
    },
    "C18": {
        "modules": ["SamlModel.Props.C18", "SamlModel.Props.Stateless", "SamlModel.Props.DecodeGen"],
        "translated": ["InflateAndDecode", "DecodeAuthNRequest", "DecodeLogoutRequest", "DecodeAttributeQuery"],
        "trusted_base": COMMON_TRUST + [
            "encoding/xml is not translated: its struct marshaller (marshalValue / marshalStruct / marshalAttr: naming precedence, xmlns emission, attr / omitempty / chardata / innerxml / any, nil pointers, slices) and its printer and escaper are hand-modelled in Lib.XmlMarshal / Lib.Xml / Lib.XmlEscape as an interpreter of the wire schema; the schema itself (Gen.Schema: every struct type of pkg/provider/xml/**, field order, tags as encoding/xml's typeinfo reads them) is regenerated from the source on every run; model and real samlxml.Marshal are compared byte for byte on randomly filled values of every root type (`lib marshal`)",
            "the XML tokenizer of the theorems (Lib.Xml.step: declaration / PI, tags, attributes with both quote styles, empty-element tags, character data, predefined entities and numeric references, line-end and attribute-value normalisation) is written from the XML 1.0 specification and compared with encoding/xml's decoder on every document (`lib xmltok`); comments, DOCTYPE and CDATA sections are skipped to the next '>' (never emitted: no wire type has a comment or cdata field, no value can open markup: C18_no_markup)",
            "Go strings are decoded to runes by Lib.Utf8.goRunes (invalid bytes become U+FFFD as in utf8.DecodeRune); that decoder and the UTF-8 encoder of the driver are glue, exercised by the same comparisons",
            "compress/flate is an oracle: that inflating DEFLATE output yields the input is the hypothesis hflate of C18_codec_roundtrip, checked on every payload of the run; DeflateAndBase64 is a fingerprinted three-line function modelled as b64encode . deflate",
            "the library's struct *decoders* (xml.Unmarshal into the wire types) are not modelled: the harness checks decode-then-re-encode on the implementation only",
        ],
        "assumptions": ["names of elements and attributes come from the schema (schema_names_valid) or from a runtime XMLName value of an untagged type; the IdP sets no such value except xml.Name{Local: \"md\"} on a type whose XMLName tag takes precedence; namesOk is evaluated on every marshalled tree of the run",
                        "the codec round trip holds up to the decoder's size limit (10 MiB, introduced by the C14 repair); beyond it the decoder returns an error, never a truncated message (C18_codec_oversize)"],
    },
    "C19": {
        "modules": ["SamlModel.Props.C19", "SamlModel.Props.C19Gen"],
        "translated": ["ValidateIssuer", "ValidateIssuerPath", "devLocalAllowed", "hasQueryOrFragment", "dynamicIssuer", "hostFromForwarded",
                       "issuerFromForwardedOrHost_validate", "issuerFromForwardedOrHost_derive", "StaticIssuer_validate", "StaticIssuer_derive"],
        "trusted_base": COMMON_TRUST + [
            "net/url.Parse is an oracle (Ora.urlParse: Scheme, Host, Hostname(), Fragment, RawQuery, ForceQuery as net/url reports them); the harness checks the implementation against an independent RFC 3986 splitter that does not use net/url",
            "the two closure levels of issuerFromForwardedOrHost and StaticIssuer are translated separately on every run (go2lean FuncSpec.Part: _validate = the checks made when NewProvider calls the factory, _derive = the per-request closure), hostFromForwarded as a whole; what the request contributes is typed oracles (Ora.headerValues = r.Header[name], Ora.reqHost = r.Host) and C19_generated_derive / C19_generated_derive_reads_only are stated for every answer of them; muhlemmer/httpforwarded.ParseParameter (RFC 7239 syntax) is a library oracle (Ora.forwardedParse): 'first host' in the theorems is the first value it returns; the harness additionally compares hand-written RFC 7239 expectations through the served metadata's entityID",
            "still fingerprinted for C19: NewProvider (passes conf.Insecure to the factory), IssuerInterceptor.setIssuerCtx / IssuerFromContext (the derived issuer reaches the handlers through the request context)",
        ],
        "assumptions": ["scheme comparison follows net/url (scheme is lower-cased by the parser; schemes are case-insensitive per RFC 3986)"],
    },
    "C02": {
        "modules": ["SamlModel.Props.C02", "SamlModel.Props.HandlerGen", "SamlModel.Props.HandlerProps", "SamlModel.Props.SendBack", "SamlModel.Props.LogoutProps", "SamlModel.Props.SsoProps", "SamlModel.Props.Stateless", "SamlModel.Props.DecodeGen", "SamlModel.Props.MetadataGen", "SamlModel.Props.LookupGen"],
        "translated": ["GetAcsUrlAndBindingForResponse", "IdentityProvider_logoutHandleFunc", "LogoutResponse_sendBackLogoutResponse", "IdentityProvider_GetServiceProvider"],
        "trusted_base": COMMON_TRUST + SSO_TRUST + CB_TRUST + SLO_TRUST + [
            "the auto-submit form (action attribute) is covered byte-exactly by C17; the redirect URL assembly (two fingerprinted lines of sendBackResponse) is hand-modelled as redirectURL",
        ],
        "assumptions": ["callback: 'registered' is by composition with the SSO theorem - the stored pair is the pair the SSO endpoint persisted (C02_sso_persists_registered_pair); storage is trusted to return what was stored"],
    },
    "C10": {
        "modules": ["SamlModel.Props.C10", "SamlModel.Props.HandlerGen", "SamlModel.Props.SendBack", "SamlModel.Props.LogoutProps", "SamlModel.Props.AttrQueryProps", "SamlModel.Props.SsoProps", "SamlModel.Props.MetadataGen", "SamlModel.Props.Stateless", "SamlModel.Props.DecodeGen", "SamlModel.Props.MetadataProps", "SamlModel.Props.CertGen", "SamlModel.Props.LookupGen"],
        "translated": ["getResponseCert", "getMetadataCert", "Config_getMetadata", "Provider_GetMetadata", "Provider_metadataHandle", "IdentityProvider_GetMetadata", "IdentityProvider_certificateHandleFunc", "IdentityProvider_GetServiceProvider"],
        "trusted_base": COMMON_TRUST + SSO_TRUST + CB_TRUST + [
            "Model.Metadata (metadata / certificate / readiness handlers): hand model tied by its correspondence, by fingerprints (readiness) and by proof (IdentityProvider.certificateHandleFunc is translated on every run - the local bytes.Buffer is the bytes written to it, pem.Encode a library oracle, w.Header().Set and io.Copy effects - and CertGen.certificateHandle_spec / certificate_refines / C10_generated_certificate_key_failure / C11_generated_certificate_body / C09_generated_certificate_handler are about the regenerated handler); in addition Provider.metadataHandle, Provider.GetMetadata, Config.getMetadata and getMetadataCert are translated on every run and MetadataGen.metadataHandle_spec characterises the regenerated handler for every environment (IdentityProvider.GetMetadata, GetMetadataSigningKey, signature.GetSigner / Create, the write error as typed oracles): C10_generated_metadata_key_failure / _signer_failure (no document when the key or the signer fails), C11_generated_signed_iff_configured; IdentityProviderConfig.getMetadata / IdentityProvider.GetMetadata / GetEntityID are translated standalone (the loop that blanks attribute values through the pointers of a fresh slice is a map in the value model) and C11_generated_metadata states what the regenerated descriptors advertise: SSO / SLO / attribute locations = the endpoints' absolute URLs for the issuer in effect, WantAuthnRequestsSigned verbatim, every key descriptor = the response signing certificate; Model.Logout, Model.AttrQuery, Model.Sso: tied by the refinement proofs over the regenerated handlers",
            "the fault enumeration on the implementation is exhaustive over (endpoint x storage call occurrence of the fault-free run x fault kind), singly and in pairs, for one valid request shape per endpoint",
        ],
        "assumptions": ["a storage operation either succeeds or returns an error / malformed key record; panics inside storage are the integrator's"],
    },
    "C11": {
        "modules": ["SamlModel.Props.C11", "SamlModel.Props.SendBack", "SamlModel.Props.Stateless", "SamlModel.Props.MetadataGen", "SamlModel.Props.CertGen"],
        "translated": ["IdentityProviderConfig_getMetadata", "IdentityProvider_GetEntityID", "IdentityProvider_GetMetadata", "getMetadataCert", "Config_getMetadata", "Provider_GetMetadata", "Provider_metadataHandle", "Endpoint_Absolute", "Endpoint_Relative", "relativeEndpoint", "absoluteEndpoint", "getResponseCert",
                       "signatureRedirectVerificationNecessary", "signaturePostVerificationNecessary", "endpointConfigToEndpoints", "NewEndpoint", "IdentityProvider_certificateHandleFunc"],
        "trusted_base": COMMON_TRUST + SSO_TRUST + [
            "Model.Metadata is a hand-written model of getMetadata / GetRoutes / CreateRouter / GetEntityID: tied by fingerprints (C11_source_current) and by the md correspondence (advertised locations and registered routes for every configuration)",
            "gorilla/mux matching is not modelled: 'maps onto a route' is proved on the registered path strings under routesDistinct, and observed by requesting every advertised location",
            "that every handler uses GetEntityID as Issuer is observed on every reply (Issuer == served entityID), and fingerprinted",
        ],
        "assumptions": ["routesDistinct: the configured routes are pairwise distinct and differ from /healthz and /ready (holds for the defaults, proved)",
                        "hunsigned (C11_want_signed_means_refused): the XML-DSig validator rejects a document without signature (goxmldsig; sampled)"],
    },
    "C09": {
        "modules": ["SamlModel.Props.C09", "SamlModel.Props.HandlerGen", "SamlModel.Props.SendBack", "SamlModel.Props.LogoutProps", "SamlModel.Props.AttrQueryProps", "SamlModel.Props.SsoProps", "SamlModel.Props.NewSpGen", "SamlModel.Props.Stateless", "SamlModel.Props.DecodeGen", "SamlModel.Props.MetadataGen", "SamlModel.Props.MetadataProps", "SamlModel.Props.CertGen", "SamlModel.Props.LookupGen"],
        "translated": ["NewServiceProvider", "getSigningCertsFromMetadata", "certificateCheckNecessary", "checkCertificate", "equalCertificateText", "checkRequestRequiredContent", "verifyRequestDestinationOfAuthRequest",
                       "verifyRequestDestinationOfAttrQuery", "GetCertsFromKeyDescriptors", "getResponseCert", "GetAcsUrlAndBindingForResponse",
                       "signaturePostProvided", "signatureRedirectVerificationNecessary", "signaturePostVerificationNecessary", "verifyRedirectSignature", "verifyPostSignature", "Provider_metadataHandle", "Provider_GetMetadata", "Config_getMetadata", "getMetadataCert", "IdentityProvider_GetMetadata", "DecodeAuthNRequest", "DecodeLogoutRequest", "IdentityProvider_certificateHandleFunc", "IdentityProvider_GetServiceProvider"],
        "trusted_base": COMMON_TRUST + SSO_TRUST + CB_TRUST + SLO_TRUST + AQ_TRUST + [
            "go2lean's panic guards: every pointer dereference / nil-able selector of the translated Go code is emitted as an explicit `if <nil condition> then .panic`; the guard derivation itself is validated by the differential fn/handler ops (model and implementation must agree on panic vs. no panic)",
            "NewServiceProvider / getSigningCertsFromMetadata are translated (standalone): NewSpGen.newServiceProvider_no_panic (for every metadata document and every answer of ParseMetadataXmlIntoStruct / ParseCertificates that honours their contract - no error => a document, no nil certificate - the constructor returns and does not panic) and newServiceProvider_wf (what it hands out carries metadata with an SPSSODescriptor: the SpWF the handler theorems assume)",
            "no theorem about panics inside encoding/xml, etree, goxmldsig, compress/flate, html/template, crypto: they are oracles in the model and are exercised by the structural-edit and byte-mutation generators",
        ],
        "assumptions": ["SpWF: a registered service provider has metadata with an SPSSODescriptor (NewServiceProvider refuses others); storage returns non-nil objects with nil errors"],
    },
    "C07": {
        "modules": ["SamlModel.Props.C07", "SamlModel.Props.SendBack", "SamlModel.Props.SsoGen", "SamlModel.Props.RedirectSigGen", "SamlModel.Props.SsoProps", "SamlModel.Props.Stateless", "SamlModel.Props.DecodeGen", "SamlModel.Props.MetadataGen", "SamlModel.Props.LookupGen"],
        "translated": ["ServiceProvider_ValidateRedirectSignature", "IdentityProvider_ssoHandleFunc", "getAuthRequestFromRequest", "signatureRedirectVerificationNecessary", "signaturePostVerificationNecessary", "verifyRedirectSignature", "verifyPostSignature",
                       "certificateCheckNecessary", "checkCertificate", "checkRequestRequiredContent", "checkIfRequestTimeIsStillValid",
                       "verifyRequestDestinationOfAuthRequest", "verifyRequestDestinationOfAttrQuery", "GetAcsUrlAndBindingForResponse", "IdentityProvider_GetServiceProvider"],
        "trusted_base": COMMON_TRUST + SSO_TRUST + [
            "'any legal XML serialisation' is outside the model: encoding/xml's decoder is an oracle; covered by serialising every conformant shape in several styles (prefixes incl. default namespace, XML declaration, indentation, fractional-second digits) and requiring acceptance",
            "signature validation oracles answer as the real library does on what the simulated SP signed",
        ],
        "assumptions": [],
    },
}
