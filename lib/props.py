"""Per-property configuration of the check runner."""

COMMON_TRUST = [
    "Lean 4.33.0 kernel; axioms limited to propext, Classical.choice, Quot.sound (audited per theorem on every run)",
    "go2lean translator (/verif/tools/cmd/go2lean) and the GoSem target semantics (lean/SamlModel/GoSem.lean); validated by differential runs, not verified",
    "the correspondence harness (/verif/harness), its generators and monitors",
]

PROPS = {
    "C16": {
        "modules": ["SamlModel.Props.C16"],
        "translated": ["GetAcsUrlAndBindingForResponse", "isXSBooleanTrue"],
        "trusted_base": COMMON_TRUST + [
            "Lib.atoi models strconv.Atoi (differentially tested); slices modelled as lists",
        ],
        "assumptions": [
            "the index attribute is read with strconv.Atoi and its error ignored, exactly as the code does; idx in the theorem is that reading",
        ],
    },
    "C20": {
        "modules": ["SamlModel.Props.C20"],
        "translated": [],
        "trusted_base": COMMON_TRUST + [
            "Model.Checker is a hand translation of checker.go: tied by normalised-source fingerprints (theorem C20_source_current, regenerated facts) and by the exhaustive chk correspondence",
            "closure invocations are observed through instrumented closures; reads of closures are part of the compared trace",
        ],
        "assumptions": [
            "client closures are deterministic and do not panic (a panicking closure aborts the chain in Go and in the model alike; not modelled)",
        ],
    },
}
