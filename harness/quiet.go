package main

import (
	"io"
	stdlog "log"

	"github.com/sirupsen/logrus"
)

func init() {
	// the library logs every rejected request; keep stderr for the harness's own diagnostics
	logrus.SetOutput(io.Discard)
	logrus.SetLevel(logrus.PanicLevel)
	stdlog.SetOutput(io.Discard)
}
