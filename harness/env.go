package main

// env: the in-process environment for handler-level checks: keys, a recording/programmable fake
// Storage, a simulated service provider (metadata, request construction, signing), an HTTP runner
// with panic capture, and a reply parser that is independent of the library's own encoders.

import (
	"bytes"
	"compress/flate"
	"context"
	"crypto"
	"crypto/ecdsa"
	"crypto/elliptic"
	"crypto/rand"
	"crypto/rsa"
	"crypto/sha1"
	"crypto/sha256"
	"crypto/tls"
	"crypto/x509"
	"crypto/x509/pkix"
	"encoding/base64"
	"encoding/xml"
	"errors"
	"fmt"
	"io"
	"math/big"
	"net/http"
	"net/http/httptest"
	"net/url"
	"runtime/debug"
	"strings"
	"sync"
	"time"

	"github.com/beevik/etree"
	dsig "github.com/russellhaering/goxmldsig"
	"golang.org/x/net/html"

	"github.com/zitadel/saml/pkg/provider"
	"github.com/zitadel/saml/pkg/provider/key"
	"github.com/zitadel/saml/pkg/provider/models"
	"github.com/zitadel/saml/pkg/provider/serviceprovider"
	"github.com/zitadel/saml/pkg/provider/xml/samlp"
)

const (
	algRSASHA1   = "http://www.w3.org/2000/09/xmldsig#rsa-sha1"
	algRSASHA256 = "http://www.w3.org/2001/04/xmldsig-more#rsa-sha256"
	algDSASHA1   = "http://www.w3.org/2000/09/xmldsig#dsa-sha1"
	algDSASHA256 = "http://www.w3.org/2009/xmldsig11#dsa-sha256"
	artifactBind = "urn:oasis:names:tc:SAML:2.0:bindings:HTTP-Artifact"
	paosBind     = "urn:oasis:names:tc:SAML:2.0:bindings:PAOS"
	soapBind     = "urn:oasis:names:tc:SAML:2.0:bindings:SOAP"
	nsProtocol   = "urn:oasis:names:tc:SAML:2.0:protocol"
	nsAssertion  = "urn:oasis:names:tc:SAML:2.0:assertion"
	nsMetadata   = "urn:oasis:names:tc:SAML:2.0:metadata"
	nsDsig       = "http://www.w3.org/2000/09/xmldsig#"
)

// ---------------------------------------------------------------- keys

type KeyPair struct {
	Key  *rsa.PrivateKey
	Cert []byte // DER
	B64  string // base64 of DER
}

func genRSA(cn string) *KeyPair {
	k, err := rsa.GenerateKey(rand.Reader, 2048)
	if err != nil {
		panic(err)
	}
	tmpl := &x509.Certificate{SerialNumber: big.NewInt(time.Now().UnixNano()), Subject: pkix.Name{CommonName: cn},
		NotBefore: time.Now().Add(-time.Hour), NotAfter: time.Now().Add(24 * 365 * time.Hour), KeyUsage: x509.KeyUsageDigitalSignature}
	der, err := x509.CreateCertificate(rand.Reader, tmpl, tmpl, &k.PublicKey, k)
	if err != nil {
		panic(err)
	}
	return &KeyPair{Key: k, Cert: der, B64: base64.StdEncoding.EncodeToString(der)}
}

func genECDSACertB64(cn string) string {
	k, _ := ecdsa.GenerateKey(elliptic.P256(), rand.Reader)
	tmpl := &x509.Certificate{SerialNumber: big.NewInt(time.Now().UnixNano()), Subject: pkix.Name{CommonName: cn},
		NotBefore: time.Now().Add(-time.Hour), NotAfter: time.Now().Add(24 * 365 * time.Hour)}
	der, err := x509.CreateCertificate(rand.Reader, tmpl, tmpl, &k.PublicKey, k)
	if err != nil {
		panic(err)
	}
	return base64.StdEncoding.EncodeToString(der)
}

var keyOnce sync.Once
var idpKeys, spKeys, foreignKeys *KeyPair
var ecCertB64 string

func initKeys() {
	keyOnce.Do(func() {
		var wg sync.WaitGroup
		wg.Add(3)
		go func() { idpKeys = genRSA("idp"); wg.Done() }()
		go func() { spKeys = genRSA("sp"); wg.Done() }()
		go func() { foreignKeys = genRSA("foreign"); wg.Done() }()
		wg.Wait()
		ecCertB64 = genECDSACertB64("ec")
	})
}

// ---------------------------------------------------------------- fake storage

type AuthReq struct {
	ID, AppID, Relay, Acs, Binding, ReqID, Issuer, Dest, UserID string
	IsDone                                                      bool
}

func (a *AuthReq) GetID() string                       { return a.ID }
func (a *AuthReq) GetApplicationID() string            { return a.AppID }
func (a *AuthReq) GetRelayState() string               { return a.Relay }
func (a *AuthReq) GetAccessConsumerServiceURL() string { return a.Acs }
func (a *AuthReq) GetBindingType() string              { return a.Binding }
func (a *AuthReq) GetAuthRequestID() string            { return a.ReqID }
func (a *AuthReq) GetIssuer() string                   { return a.Issuer }
func (a *AuthReq) GetDestination() string              { return a.Dest }
func (a *AuthReq) GetUserID() string                   { return a.UserID }
func (a *AuthReq) Done() bool                          { return a.IsDone }

var _ models.AuthRequestInt = &AuthReq{}

type CustomAttr struct {
	Name, Friendly, Format string
	Values                 []string
}

type User struct {
	Email, FullName, GivenName, Surname, UserID, Username string
	Custom                                                []CustomAttr
}

type StorageCall struct {
	Op       string   `json:"op"`
	Args     []string `json:"args,omitempty"`
	Err      bool     `json:"err,omitempty"`
	KeyFault string   `json:"key_fault,omitempty"`
}

type Storage struct {
	mu        sync.Mutex
	SPs       map[string]*serviceprovider.ServiceProvider // entityID -> SP
	AppEntity map[string]string                           // appID -> entityID
	Reqs      map[string]*AuthReq
	Users     map[string]*User // by userID and by login name
	RespKey   *key.CertificateAndKey
	MetaKey   *key.CertificateAndKey
	RespKeyNil, MetaKeyNil bool
	Calls     []StorageCall
	LookupErr string // text of the error the last AuthRequestByID returned ("" = it returned a record)
	Faults    map[string]map[int]bool // op -> occurrence (1-based) -> fail
	counts    map[string]int
	nextID    int
	CreateNil bool // CreateAuthRequest returns (nil, nil)
	CreateFailWithValue bool // a failing CreateAuthRequest still returns the request object
	FoldEntityCase      bool // GetEntityByID resolves entity IDs case-insensitively
	KeyFaults map[string]map[int]string // key getter -> occurrence -> malformed record kind
	// multi-tenant storage: the response signing key depends on the issuer in the request context (one provider
	// instance serving several hosts); KeyMeet makes overlapping key loads actually overlap
	TenantKeys map[string]*key.CertificateAndKey
	KeyMeet    *meeting
}

// meeting holds every caller until `want` callers are inside (or a short timeout passed): calls that run
// concurrently then overlap for certain.
type meeting struct {
	mu      sync.Mutex
	want    int
	inside  int
	release chan struct{}
}

func newMeeting(want int) *meeting { return &meeting{want: want, release: make(chan struct{})} }

func (m *meeting) arrive() {
	m.mu.Lock()
	m.inside++
	ch := m.release
	if m.inside >= m.want {
		close(m.release)
		m.release = make(chan struct{})
		m.inside = 0
	}
	m.mu.Unlock()
	select {
	case <-ch:
	case <-time.After(30 * time.Millisecond):
	}
}

func newStorage() *Storage {
	initKeys()
	return &Storage{SPs: map[string]*serviceprovider.ServiceProvider{}, AppEntity: map[string]string{}, Reqs: map[string]*AuthReq{}, Users: map[string]*User{},
		RespKey: &key.CertificateAndKey{Key: idpKeys.Key, Certificate: idpKeys.Cert}, MetaKey: &key.CertificateAndKey{Key: idpKeys.Key, Certificate: idpKeys.Cert},
		Faults: map[string]map[int]bool{}, counts: map[string]int{}}
}

func (s *Storage) fault(op string, args ...string) error {
	s.counts[op]++
	f := s.Faults[op] != nil && s.Faults[op][s.counts[op]]
	s.Calls = append(s.Calls, StorageCall{Op: op, Args: args, Err: f})
	if f {
		return errors.New("injected fault: " + op)
	}
	return nil
}

func (s *Storage) Fail(op string, occurrence int) {
	if s.Faults[op] == nil {
		s.Faults[op] = map[int]bool{}
	}
	s.Faults[op][occurrence] = true
}

// CountOf: how often the operation has been called since the log was last reset
func (s *Storage) CountOf(op string) int {
	s.mu.Lock()
	defer s.mu.Unlock()
	return s.counts[op]
}

func (s *Storage) ResetLog() {
	s.mu.Lock()
	defer s.mu.Unlock()
	s.Calls = nil
	s.counts = map[string]int{}
}

func (s *Storage) CallsOf(op string) []StorageCall {
	var out []StorageCall
	for _, c := range s.Calls {
		if c.Op == op {
			out = append(out, c)
		}
	}
	return out
}

func (s *Storage) GetCA(context.Context) (*key.CertificateAndKey, error) {
	s.mu.Lock()
	defer s.mu.Unlock()
	if err := s.fault("GetCA"); err != nil {
		return nil, err
	}
	return s.MetaKey, nil
}
func (s *Storage) GetMetadataSigningKey(context.Context) (*key.CertificateAndKey, error) {
	s.mu.Lock()
	defer s.mu.Unlock()
	if err := s.fault("GetMetadataSigningKey"); err != nil {
		return nil, err
	}
	if k := s.KeyFaults["GetMetadataSigningKey"][s.counts["GetMetadataSigningKey"]]; k != "" {
		s.Calls[len(s.Calls)-1].KeyFault = k
		if k == "errwithrecord" {
			return s.applyKeyFault("GetMetadataSigningKey", k), errors.New("injected fault (a record is returned with it): GetMetadataSigningKey")
		}
		return s.applyKeyFault("GetMetadataSigningKey", k), nil
	}
	if s.MetaKeyNil {
		return nil, nil
	}
	return s.MetaKey, nil
}
func (s *Storage) GetResponseSigningKey(ctx context.Context) (*key.CertificateAndKey, error) {
	if s.TenantKeys != nil {
		iss := provider.IssuerFromContext(ctx)
		if s.KeyMeet != nil {
			s.KeyMeet.arrive()
		}
		s.mu.Lock()
		s.counts["GetResponseSigningKey"]++
		s.mu.Unlock()
		return s.TenantKeys[iss], nil
	}
	s.mu.Lock()
	defer s.mu.Unlock()
	if err := s.fault("GetResponseSigningKey"); err != nil {
		return nil, err
	}
	if k := s.KeyFaults["GetResponseSigningKey"][s.counts["GetResponseSigningKey"]]; k != "" {
		s.Calls[len(s.Calls)-1].KeyFault = k
		if k == "errwithrecord" {
			return s.applyKeyFault("GetResponseSigningKey", k), errors.New("injected fault (a record is returned with it): GetResponseSigningKey")
		}
		return s.applyKeyFault("GetResponseSigningKey", k), nil
	}
	if s.RespKeyNil {
		return nil, nil
	}
	return s.RespKey, nil
}
func (s *Storage) GetEntityByID(ctx context.Context, entityID string) (*serviceprovider.ServiceProvider, error) {
	s.mu.Lock()
	defer s.mu.Unlock()
	if err := s.fault("GetEntityByID", entityID); err != nil {
		return nil, err
	}
	sp, ok := s.SPs[entityID]
	if !ok && s.FoldEntityCase {
		for id, cand := range s.SPs {
			if strings.EqualFold(id, entityID) {
				sp, ok = cand, true
			}
		}
	}
	if !ok {
		return nil, errors.New("unknown service provider")
	}
	return sp, nil
}
func (s *Storage) GetEntityIDByAppID(ctx context.Context, appID string) (string, error) {
	s.mu.Lock()
	defer s.mu.Unlock()
	if err := s.fault("GetEntityIDByAppID", appID); err != nil {
		return "", err
	}
	e, ok := s.AppEntity[appID]
	if !ok {
		return "", errors.New("unknown application")
	}
	return e, nil
}
func (s *Storage) CreateAuthRequest(ctx context.Context, req *samlp.AuthnRequestType, acs, binding, relay, appID string) (models.AuthRequestInt, error) {
	s.mu.Lock()
	defer s.mu.Unlock()
	reqID, issuer, dest := "", "", ""
	if req != nil {
		reqID = req.Id
		dest = req.Destination
		if req.Issuer != nil {
			issuer = req.Issuer.Text
		}
	}
	if err := s.fault("CreateAuthRequest", acs, binding, relay, appID, reqID); err != nil {
		if s.CreateFailWithValue {
			return &AuthReq{ID: "ar-unsaved", AppID: appID, Relay: relay, Acs: acs, Binding: binding, ReqID: reqID}, err
		}
		return nil, err
	}
	if s.CreateNil {
		return nil, nil
	}
	s.nextID++
	a := &AuthReq{ID: fmt.Sprintf("ar-%d", s.nextID), AppID: appID, Relay: relay, Acs: acs, Binding: binding, ReqID: reqID, Issuer: issuer, Dest: dest}
	s.Reqs[a.ID] = a
	return a, nil
}
func (s *Storage) AuthRequestByID(ctx context.Context, id string) (models.AuthRequestInt, error) {
	s.mu.Lock()
	defer s.mu.Unlock()
	s.LookupErr = ""
	if err := s.fault("AuthRequestByID", id); err != nil {
		s.LookupErr = err.Error()
		return nil, err
	}
	a, ok := s.Reqs[id]
	if !ok {
		s.LookupErr = "unknown auth request"
		return nil, errors.New("unknown auth request")
	}
	cp := *a
	return &cp, nil
}
func fillUser(u *User, set models.AttributeSetter) {
	set.SetEmail(u.Email)
	set.SetFullName(u.FullName)
	set.SetGivenName(u.GivenName)
	set.SetSurname(u.Surname)
	set.SetUserID(u.UserID)
	set.SetUsername(u.Username)
	for _, c := range u.Custom {
		set.SetCustomAttribute(c.Name, c.Friendly, c.Format, c.Values)
	}
}
func (s *Storage) SetUserinfoWithUserID(ctx context.Context, appID string, userinfo models.AttributeSetter, userID string, attrs []int) error {
	s.mu.Lock()
	defer s.mu.Unlock()
	if err := s.fault("SetUserinfoWithUserID", appID, userID); err != nil {
		// a realistic storage error names the account it failed on
		if u, ok := s.Users[userID]; ok {
			return fmt.Errorf("%w: account %q <%s> is locked", err, u.Username, u.Email)
		}
		return err
	}
	u, ok := s.Users[userID]
	if !ok {
		return errors.New("unknown user")
	}
	fillUser(u, userinfo)
	return nil
}
func (s *Storage) SetUserinfoWithLoginName(ctx context.Context, userinfo models.AttributeSetter, loginName string, attrs []int) error {
	s.mu.Lock()
	defer s.mu.Unlock()
	if err := s.fault("SetUserinfoWithLoginName", loginName); err != nil {
		if u, ok := s.Users[loginName]; ok {
			return fmt.Errorf("%w: account %q <%s> is locked", err, u.Username, u.Email)
		}
		return err
	}
	u, ok := s.Users[loginName]
	if !ok {
		return errors.New("unknown user")
	}
	fillUser(u, userinfo)
	return nil
}
func (s *Storage) Health(context.Context) error {
	s.mu.Lock()
	defer s.mu.Unlock()
	return s.fault("Health")
}

// ---------------------------------------------------------------- provider

type IdpCfg struct {
	Issuer       string // static issuer, or "" to derive from the host
	IssuerPath   string // for host-derived issuers
	Insecure     bool
	WantSigned   string
	SigAlg       string
	MetaSigAlg   string
	EncAlg       string
	Endpoints    *provider.EndpointConfig
	MetadataEP   *provider.Endpoint
	Org          *provider.Organisation
	Contact      *provider.ContactPerson
	TimeFormat   string
	ForwardedHdr []string
	MetaIDP      *provider.MetadataIDPConfig
}

func defaultIdpCfg() IdpCfg {
	return IdpCfg{Issuer: "https://idp.example.com/saml", SigAlg: algRSASHA256}
}

func newProvider(st *Storage, c IdpCfg) (*provider.Provider, error) {
	conf := &provider.Config{
		IDPConfig: &provider.IdentityProviderConfig{SignatureAlgorithm: c.SigAlg, WantAuthRequestsSigned: c.WantSigned,
			EncryptionAlgorithm: c.EncAlg, Endpoints: c.Endpoints, MetadataIDPConfig: c.MetaIDP},
		Metadata: c.MetadataEP, Organisation: c.Org, ContactPerson: c.Contact,
	}
	if c.MetaSigAlg != "" {
		conf.MetadataConfig = &provider.MetadataConfig{SignatureAlgorithm: c.MetaSigAlg}
	}
	var issuer func(bool) (provider.IssuerFromRequest, error)
	switch {
	case c.Issuer != "":
		issuer = provider.StaticIssuer(c.Issuer)
	case c.ForwardedHdr != nil:
		issuer = provider.IssuerFromForwardedOrHost(c.IssuerPath, provider.WithIssuerFromCustomHeaders(c.ForwardedHdr...))
	default:
		issuer = provider.IssuerFromForwardedOrHost(c.IssuerPath)
	}
	var opts []provider.Option
	if c.Insecure {
		opts = append(opts, provider.WithAllowInsecure())
	}
	if c.TimeFormat != "" {
		opts = append(opts, provider.WithCustomTimeFormat(c.TimeFormat))
	}
	return provider.NewProvider(st, issuer, conf, opts...)
}

// ---------------------------------------------------------------- service provider simulation

type AcsEntry struct{ Index, IsDefault, Binding, Location string }

type SPSpec struct {
	EntityID    string
	AppID       string
	ReqSigned   string // AuthnRequestsSigned attribute; "-" = absent
	Certs       []string
	CertUse     string // "signing", "" or "encryption"
	Acs         []AcsEntry
	Slo         []string
	NoSPSSO     bool
	WrapCert    bool // certificate text wrapped at 64 columns with newlines
}

func xmlAttrEsc(s string) string {
	var b bytes.Buffer
	xml.EscapeText(&b, []byte(s))
	return b.String()
}

func wrap64(s string) string {
	var parts []string
	for len(s) > 64 {
		parts = append(parts, s[:64])
		s = s[64:]
	}
	parts = append(parts, s)
	return "\n" + strings.Join(parts, "\n") + "\n"
}

func (sp SPSpec) MetadataXML() []byte {
	var b strings.Builder
	fmt.Fprintf(&b, `<?xml version="1.0"?><md:EntityDescriptor xmlns:md="%s" xmlns:ds="%s" entityID="%s">`, nsMetadata, nsDsig, xmlAttrEsc(sp.EntityID))
	if !sp.NoSPSSO {
		b.WriteString(`<md:SPSSODescriptor protocolSupportEnumeration="urn:oasis:names:tc:SAML:2.0:protocol"`)
		if sp.ReqSigned != "-" {
			fmt.Fprintf(&b, ` AuthnRequestsSigned="%s"`, xmlAttrEsc(sp.ReqSigned))
		}
		b.WriteString(`>`)
		for _, c := range sp.Certs {
			use := ""
			if sp.CertUse != "" {
				use = fmt.Sprintf(` use="%s"`, sp.CertUse)
			}
			ct := c
			if sp.WrapCert {
				ct = wrap64(c)
			}
			fmt.Fprintf(&b, `<md:KeyDescriptor%s><ds:KeyInfo><ds:X509Data><ds:X509Certificate>%s</ds:X509Certificate></ds:X509Data></ds:KeyInfo></md:KeyDescriptor>`, use, ct)
		}
		for _, l := range sp.Slo {
			fmt.Fprintf(&b, `<md:SingleLogoutService Binding="%s" Location="%s"/>`, provider.PostBinding, xmlAttrEsc(l))
		}
		for _, a := range sp.Acs {
			fmt.Fprintf(&b, `<md:AssertionConsumerService Binding="%s" Location="%s" index="%s"`, xmlAttrEsc(a.Binding), xmlAttrEsc(a.Location), xmlAttrEsc(a.Index))
			if a.IsDefault != "" {
				fmt.Fprintf(&b, ` isDefault="%s"`, xmlAttrEsc(a.IsDefault))
			}
			b.WriteString(`/>`)
		}
		b.WriteString(`</md:SPSSODescriptor>`)
	}
	b.WriteString(`</md:EntityDescriptor>`)
	return []byte(b.String())
}

func loginURL(id string) string { return "https://login.example.com/ui/login?authRequestID=" + id }

func (st *Storage) Register(sp SPSpec) (err error) {
	defer func() {
		if x := recover(); x != nil {
			err = fmt.Errorf("PANIC in NewServiceProvider: %v", x)
		}
	}()
	p, err := serviceprovider.NewServiceProvider(sp.AppID, &serviceprovider.Config{Metadata: sp.MetadataXML()}, loginURL)
	if err != nil {
		return err
	}
	st.SPs[sp.EntityID] = p
	st.AppEntity[sp.AppID] = sp.EntityID
	return nil
}

// AuthnSpec describes an AuthnRequest document; "-" means "attribute/element absent".
type AuthnSpec struct {
	ID, Version, IssueInstant, Destination, ProtocolBinding string
	AcsURL, AcsIndex                                         string
	Issuer                                                   string // "-" absent
	NotBefore, NotOnOrAfter                                  string // "-" absent; Conditions present iff either != "-" or EmptyConditions
	EmptyConditions                                          bool
	Style                                                    int // serialisation style 0..3
	Extra                                                    string // raw XML inserted before the end tag
	Comment                                                  string // raw text inserted as a comment after the start tag
}

func (a AuthnSpec) XML() string {
	p, a2 := "samlp:", "saml:"
	decl := ""
	nsdecl := fmt.Sprintf(` xmlns:samlp="%s" xmlns:saml="%s"`, nsProtocol, nsAssertion)
	nl, ind := "", ""
	switch a.Style {
	case 1: // default namespace for protocol
		p = ""
		nsdecl = fmt.Sprintf(` xmlns="%s" xmlns:saml="%s"`, nsProtocol, nsAssertion)
		decl = `<?xml version="1.0" encoding="UTF-8"?>`
	case 2: // odd prefixes, indentation
		p, a2 = "p:", "a:"
		nsdecl = fmt.Sprintf(` xmlns:p="%s" xmlns:a="%s"`, nsProtocol, nsAssertion)
		nl, ind = "\n", "  "
	case 3: // namespace declared on the child, XML declaration, indentation
		decl = `<?xml version="1.0"?>` + "\n"
		nsdecl = fmt.Sprintf(` xmlns:samlp="%s"`, nsProtocol)
		nl, ind = "\n", "\t"
	}
	var b strings.Builder
	b.WriteString(decl)
	fmt.Fprintf(&b, `<%sAuthnRequest%s`, p, nsdecl)
	attr := func(n, v string) {
		if v != "-" {
			fmt.Fprintf(&b, ` %s="%s"`, n, xmlAttrEsc(v))
		}
	}
	attr("ID", a.ID)
	attr("Version", a.Version)
	attr("IssueInstant", a.IssueInstant)
	attr("Destination", a.Destination)
	attr("ProtocolBinding", a.ProtocolBinding)
	attr("AssertionConsumerServiceURL", a.AcsURL)
	attr("AssertionConsumerServiceIndex", a.AcsIndex)
	b.WriteString(">" + nl)
	if a.Comment != "" {
		b.WriteString("<!--" + a.Comment + "-->")
	}
	if a.Issuer != "-" {
		if a.Style == 3 {
			fmt.Fprintf(&b, `%s<saml:Issuer xmlns:saml="%s">%s</saml:Issuer>%s`, ind, nsAssertion, xmlAttrEsc(a.Issuer), nl)
		} else {
			fmt.Fprintf(&b, `%s<%sIssuer>%s</%sIssuer>%s`, ind, a2, xmlAttrEsc(a.Issuer), a2, nl)
		}
	}
	if a.NotBefore != "-" || a.NotOnOrAfter != "-" || a.EmptyConditions {
		cp := a2
		cns := ""
		if a.Style == 3 {
			cp = "saml:"
			cns = fmt.Sprintf(` xmlns:saml="%s"`, nsAssertion)
		}
		fmt.Fprintf(&b, `%s<%sConditions%s`, ind, cp, cns)
		if a.NotBefore != "-" {
			fmt.Fprintf(&b, ` NotBefore="%s"`, xmlAttrEsc(a.NotBefore))
		}
		if a.NotOnOrAfter != "-" {
			fmt.Fprintf(&b, ` NotOnOrAfter="%s"`, xmlAttrEsc(a.NotOnOrAfter))
		}
		b.WriteString("/>" + nl)
	}
	b.WriteString(a.Extra)
	fmt.Fprintf(&b, `</%sAuthnRequest>`, p)
	return b.String()
}

func deflate(data []byte) []byte {
	var buf bytes.Buffer
	w, _ := flate.NewWriter(&buf, 9)
	w.Write(data)
	w.Close()
	return buf.Bytes()
}

func deflateB64(doc string) string { return base64.StdEncoding.EncodeToString(deflate([]byte(doc))) }
func plainB64(doc string) string   { return base64.StdEncoding.EncodeToString([]byte(doc)) }

func hashFor(alg string) (crypto.Hash, []byte, func([]byte) []byte) {
	if alg == algRSASHA1 {
		return crypto.SHA1, nil, func(b []byte) []byte { s := sha1.Sum(b); return s[:] }
	}
	return crypto.SHA256, nil, func(b []byte) []byte { s := sha256.Sum256(b); return s[:] }
}

// escStyle: 0 = url.QueryEscape (upper-case hex, '+'), 1 = lower-case hex, 2 = %20 for space
func queryEsc(s string, style int) string {
	e := url.QueryEscape(s)
	switch style {
	case 1:
		var b strings.Builder
		for i := 0; i < len(e); i++ {
			if e[i] == '%' && i+2 < len(e) {
				b.WriteString("%" + strings.ToLower(e[i+1:i+3]))
				i += 2
			} else {
				b.WriteByte(e[i])
			}
		}
		return b.String()
	case 2:
		return strings.ReplaceAll(e, "+", "%20")
	}
	return e
}

// signRedirect signs the octets an SP sends (SAML bindings §3.4.4.1) with the given key.
func signRedirect(k *rsa.PrivateKey, samlRequest, relay, alg string, style int) (octets string, sigB64 string) {
	octets = "SAMLRequest=" + queryEsc(samlRequest, style)
	if relay != "" {
		octets += "&RelayState=" + queryEsc(relay, style)
	}
	octets += "&SigAlg=" + queryEsc(alg, style)
	h, _, sum := hashFor(alg)
	sig, err := rsa.SignPKCS1v15(rand.Reader, k, h, sum([]byte(octets)))
	if err != nil {
		panic(err)
	}
	return octets, base64.StdEncoding.EncodeToString(sig)
}

// signEnveloped adds an enveloped XML-DSig signature (goxmldsig, exclusive c14n) to the document.
func signEnveloped(doc string, kp *KeyPair, alg string, withKeyInfo bool, keyInfoCertB64 string) (string, error) {
	d := etree.NewDocument()
	if err := d.ReadFromString(doc); err != nil {
		return "", err
	}
	tlsCert := tls.Certificate{Certificate: [][]byte{kp.Cert}, PrivateKey: kp.Key}
	ctx := dsig.NewDefaultSigningContext(dsig.TLSCertKeyStore(tlsCert))
	ctx.Canonicalizer = dsig.MakeC14N10ExclusiveCanonicalizerWithPrefixList("")
	if err := ctx.SetSignatureMethod(alg); err != nil {
		return "", err
	}
	signed, err := ctx.SignEnveloped(d.Root())
	if err != nil {
		return "", err
	}
	for _, sigEl := range signed.ChildElements() {
		if sigEl.Tag != "Signature" {
			continue
		}
		if !withKeyInfo {
			if ki := sigEl.FindElement("./KeyInfo"); ki != nil {
				sigEl.RemoveChild(ki)
			}
		} else if keyInfoCertB64 != "" {
			if c := sigEl.FindElement("./KeyInfo/X509Data/X509Certificate"); c != nil {
				c.SetText(keyInfoCertB64)
			}
		}
	}
	out := etree.NewDocument()
	out.SetRoot(signed)
	return out.WriteToString()
}

// ---------------------------------------------------------------- HTTP runner

type HTTPReq struct {
	Method  string            `json:"method"`
	Path    string            `json:"path"`
	Query   string            `json:"query"` // raw query
	Body    string            `json:"body"`  // raw body
	CType   string            `json:"ctype"`
	Host    string            `json:"host"`
	Headers map[string]string `json:"headers,omitempty"`
}

type Reply struct {
	Panicked bool   `json:"panicked"`
	PanicMsg string `json:"panic,omitempty"`
	Code     int    `json:"code"`
	Location string `json:"location,omitempty"`
	Body     string `json:"-"`
	CType    string `json:"ctype,omitempty"`
}

// serveMulti is serve with one header carrying several values (multiple header lines).
func serveMulti(p *provider.Provider, r HTTPReq, name string, vals []string) Reply {
	extra = map[string][]string{}
	if name != "" {
		extra[name] = vals
	}
	defer func() { extra = nil }()
	return serve(p.HttpHandler(), r)
}

var extra map[string][]string

func serve(h http.Handler, r HTTPReq) (rep Reply) {
	target := r.Path
	if r.Query != "" {
		target += "?" + r.Query
	}
	host := r.Host
	if host == "" {
		host = "idp.example.com"
	}
	req := httptest.NewRequest(r.Method, "https://"+host+target, strings.NewReader(r.Body))
	req.Host = host
	if r.CType != "" {
		req.Header.Set("Content-Type", r.CType)
	}
	for k, v := range r.Headers {
		req.Header.Add(k, v)
	}
	for k, vs := range extra {
		for _, v := range vs {
			req.Header.Add(k, v)
		}
	}
	rec := httptest.NewRecorder()
	func() {
		defer func() {
			if x := recover(); x != nil {
				rep.Panicked = true
				rep.PanicMsg = fmt.Sprint(x) + "\n" + string(debug.Stack())
			}
		}()
		h.ServeHTTP(rec, req)
	}()
	rep.Code = rec.Code
	rep.Location = rec.Header().Get("Location")
	rep.Body = rec.Body.String()
	rep.CType = rec.Header().Get("Content-Type")
	return rep
}

// ---------------------------------------------------------------- reply parsing (independent of the library)

// Msg is what an independent parse of a protocol message yields.
type Msg struct {
	Root          string   `json:"root"` // local name of the root element
	Inner         string   `json:"inner,omitempty"` // Response / LogoutResponse element found (inside an envelope or as root)
	ID            string   `json:"id"`
	InResponseTo  string   `json:"in_response_to"`
	Destination   string   `json:"destination"`
	IssueInstant  string   `json:"issue_instant"`
	Issuer        string   `json:"issuer"`
	Status        string   `json:"status"`
	StatusMessage string   `json:"status_message"`
	HasAssertion  bool     `json:"has_assertion"`
	AssertionID   string   `json:"assertion_id,omitempty"`
	AssertIssuer  string   `json:"assertion_issuer,omitempty"`
	NameID        string   `json:"name_id,omitempty"`
	HasNameID     bool     `json:"has_name_id"`
	SCInResponse  string   `json:"sc_in_response_to,omitempty"`
	SCRecipient   string   `json:"sc_recipient,omitempty"`
	SCNotOnOrAft  string   `json:"sc_not_on_or_after,omitempty"`
	NotBefore     string   `json:"not_before,omitempty"`
	NotOnOrAfter  string   `json:"not_on_or_after,omitempty"`
	AuthnInstant  string   `json:"authn_instant,omitempty"`
	Audiences     []string `json:"audiences,omitempty"`
	Attrs         []MsgAttr `json:"attrs,omitempty"`
	SigValues     int      `json:"signature_values"` // number of non-empty SignatureValue elements
	AssertSigned  bool     `json:"assertion_signed"`
	Docs          int      `json:"documents"` // number of top-level elements
	Raw           string   `json:"-"`
}

type MsgAttr struct {
	Name, Format, Friendly string
	Values                 []string
}

// parseMsg walks the token stream of encoding/xml (a generic XML parser, not the library's struct decoding).
func parseMsg(data []byte) (*Msg, error) {
	dec := xml.NewDecoder(bytes.NewReader(data))
	m := &Msg{Raw: string(data)}
	var path []string
	var cur *MsgAttr
	var text strings.Builder
	inAssertion := 0
	for {
		tok, err := dec.Token()
		if err == io.EOF {
			break
		}
		if err != nil {
			return nil, err
		}
		switch t := tok.(type) {
		case xml.StartElement:
			name := t.Name.Local
			if len(path) == 0 {
				m.Docs++
				if m.Docs == 1 {
					m.Root = name
				}
			}
			path = append(path, name)
			text.Reset()
			get := func(n string) string {
				for _, a := range t.Attr {
					if a.Name.Local == n {
						return a.Value
					}
				}
				return ""
			}
			depthInEnvelope := len(path)
			_ = depthInEnvelope
			switch {
			case name == "Response" || name == "LogoutResponse":
				if m.ID == "" {
					m.ID = get("ID")
					m.InResponseTo = get("InResponseTo")
					m.Destination = get("Destination")
					m.IssueInstant = get("IssueInstant")
					m.Inner = name
				}
			case name == "Assertion":
				m.HasAssertion = true
				inAssertion++
				m.AssertionID = get("ID")
			case name == "StatusCode":
				if m.Status == "" {
					m.Status = get("Value")
				}
			case name == "SubjectConfirmationData":
				m.SCInResponse = get("InResponseTo")
				m.SCRecipient = get("Recipient")
				m.SCNotOnOrAft = get("NotOnOrAfter")
			case name == "Conditions":
				m.NotBefore = get("NotBefore")
				m.NotOnOrAfter = get("NotOnOrAfter")
			case name == "AuthnStatement":
				m.AuthnInstant = get("AuthnInstant")
			case name == "Attribute" && inAssertion > 0:
				cur = &MsgAttr{Name: get("Name"), Format: get("NameFormat"), Friendly: get("FriendlyName")}
			case name == "NameID":
				m.HasNameID = true
			}
		case xml.CharData:
			text.Write(t)
		case xml.EndElement:
			name := t.Name.Local
			txt := text.String()
			text.Reset()
			switch {
			case name == "Issuer":
				if inAssertion > 0 {
					m.AssertIssuer = txt
				} else if m.Issuer == "" {
					m.Issuer = txt
				}
			case name == "StatusMessage":
				m.StatusMessage = txt
			case name == "NameID":
				m.NameID = txt
			case name == "Audience":
				m.Audiences = append(m.Audiences, txt)
			case name == "AttributeValue" && cur != nil:
				cur.Values = append(cur.Values, txt)
			case name == "Attribute" && cur != nil:
				m.Attrs = append(m.Attrs, *cur)
				cur = nil
			case name == "SignatureValue":
				if strings.TrimSpace(txt) != "" {
					m.SigValues++
					if inAssertion > 0 {
						m.AssertSigned = true
					}
				}
			case name == "Assertion":
				inAssertion--
			}
			path = path[:len(path)-1]
		}
	}
	if m.Docs == 0 {
		return nil, errors.New("no root element")
	}
	return m, nil
}

// Form is the result of tokenising an HTML page with x/net/html.
type Form struct {
	Action string
	Fields map[string]string
	NForms int
	Script int // number of <script> elements
}

func parseForms(page string) (*Form, error) {
	z := html.NewTokenizer(strings.NewReader(page))
	f := &Form{Fields: map[string]string{}}
	for {
		tt := z.Next()
		if tt == html.ErrorToken {
			if z.Err() == io.EOF {
				return f, nil
			}
			return f, z.Err()
		}
		if tt == html.StartTagToken || tt == html.SelfClosingTagToken {
			tok := z.Token()
			switch tok.Data {
			case "form":
				f.NForms++
				for _, a := range tok.Attr {
					if a.Key == "action" {
						f.Action = a.Val
					}
				}
			case "input":
				var name, val, typ string
				for _, a := range tok.Attr {
					switch a.Key {
					case "name":
						name = a.Val
					case "value":
						val = a.Val
					case "type":
						typ = a.Val
					}
				}
				if typ == "hidden" {
					f.Fields[name] = val
				}
			case "script":
				f.Script++
			}
		}
	}
}

// Delivered describes one reply in protocol terms.
type Delivered struct {
	Kind     string `json:"kind"` // panic | http-error | login303 | redirect | post | xmlbody | soap | empty | other
	Code     int    `json:"code"`
	Target   string `json:"target,omitempty"` // form action or redirect URL without query
	Relay    string `json:"relay,omitempty"`
	HasRelay bool   `json:"has_relay"`
	SigAlg   string `json:"sig_alg,omitempty"`
	Sig      string `json:"signature,omitempty"`
	RawQuery string `json:"raw_query,omitempty"`
	Msg      *Msg   `json:"msg,omitempty"`
	Err      string `json:"parse_error,omitempty"`
	NForms   int    `json:"forms,omitempty"`
	Scripts  int    `json:"scripts,omitempty"`
	MsgBytes []byte `json:"-"`
}

func inflateAll(b []byte) ([]byte, error) {
	r := flate.NewReader(bytes.NewReader(b))
	defer r.Close()
	return io.ReadAll(io.LimitReader(r, 64<<20))
}

func classify(rep Reply) Delivered {
	d := Delivered{Code: rep.Code}
	switch {
	case rep.Panicked:
		d.Kind = "panic"
	case rep.Code == http.StatusSeeOther:
		d.Kind = "login303"
		d.Target = rep.Location
	case rep.Code == http.StatusFound:
		d.Kind = "redirect"
		// RFC 3986: the fragment starts at the first '#', the query at the first '?' before it
		loc, frag := rep.Location, ""
		if j := strings.Index(loc, "#"); j >= 0 {
			loc, frag = loc[:j], loc[j:]
		}
		i := strings.Index(loc, "?")
		if i < 0 {
			d.Target = rep.Location
			d.Err = "redirect without query"
			return d
		}
		d.Target = loc[:i] + frag
		d.RawQuery = loc[i+1:]
		// independent query parsing: split on '&' and '=', percent-decode
		vals := map[string]string{}
		for _, kv := range strings.Split(d.RawQuery, "&") {
			p := strings.SplitN(kv, "=", 2)
			if len(p) == 2 {
				v, err := url.QueryUnescape(p[1])
				if err == nil {
					if _, dup := vals[p[0]]; !dup {
						vals[p[0]] = v
					}
				}
			}
		}
		d.Relay, d.HasRelay = vals["RelayState"], vals["RelayState"] != ""
		d.SigAlg, d.Sig = vals["SigAlg"], vals["Signature"]
		raw, err := base64.StdEncoding.DecodeString(vals["SAMLResponse"])
		if err != nil {
			d.Err = "SAMLResponse not base64: " + err.Error()
			return d
		}
		x, err := inflateAll(raw)
		if err != nil {
			d.Err = "SAMLResponse not DEFLATE: " + err.Error()
			return d
		}
		d.MsgBytes = x
		m, err := parseMsg(x)
		if err != nil {
			d.Err = "SAMLResponse not XML: " + err.Error()
			return d
		}
		d.Msg = m
	case rep.Code >= 400:
		d.Kind = "http-error"
	case rep.Code == 200 && strings.TrimSpace(rep.Body) == "":
		d.Kind = "empty"
	case rep.Code == 200 && strings.Contains(rep.Body, "<form"):
		d.Kind = "post"
		f, err := parseForms(rep.Body)
		if err != nil {
			d.Err = err.Error()
		}
		d.NForms, d.Scripts = f.NForms, f.Script
		d.Target = f.Action
		d.Relay = f.Fields["RelayState"]
		_, d.HasRelay = f.Fields["RelayState"]
		raw, err := base64.StdEncoding.DecodeString(f.Fields["SAMLResponse"])
		if err != nil {
			d.Err = "SAMLResponse not base64: " + err.Error()
			return d
		}
		d.MsgBytes = raw
		m, err := parseMsg(raw)
		if err != nil {
			d.Err = "SAMLResponse not XML: " + err.Error()
			return d
		}
		d.Msg = m
	case rep.Code == 200:
		m, err := parseMsg([]byte(rep.Body))
		if err != nil {
			d.Kind = "other"
			d.Err = err.Error()
			return d
		}
		d.MsgBytes = []byte(rep.Body)
		d.Msg = m
		if m.Root == "Envelope" {
			d.Kind = "soap"
		} else {
			d.Kind = "xmlbody"
		}
	default:
		d.Kind = "other"
	}
	return d
}

func statusShort(s string) string {
	return strings.TrimPrefix(s, "urn:oasis:names:tc:SAML:2.0:status:")
}
