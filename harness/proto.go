package main

// Line protocol between this harness and the Lean driver (DESIGN Appendix A).

import (
	"bufio"
	"encoding/hex"
	"encoding/json"
	"fmt"
	"io"
	"os"
	"os/exec"
	"reflect"
	"strconv"
	"strings"
)

func tokStr(s string) string   { return "x" + hex.EncodeToString([]byte(s)) }
func tokBytes(b []byte) string { return "x" + hex.EncodeToString(b) }
func tokInt(i int64) string    { return strconv.FormatInt(i, 10) }
func tokBool(b bool) string {
	if b {
		return "1"
	}
	return "0"
}

func untokStr(t string) string {
	if !strings.HasPrefix(t, "x") {
		return "?" + t
	}
	b, err := hex.DecodeString(t[1:])
	if err != nil {
		return "?" + t
	}
	return string(b)
}

// Driver wraps the model driver process.
type Driver struct {
	cmd *exec.Cmd
	in  io.WriteCloser
	out *bufio.Reader
	n   int
}

func startDriver(path string) (*Driver, error) {
	if path == "" {
		return nil, fmt.Errorf("no driver")
	}
	cmd := exec.Command(path)
	in, err := cmd.StdinPipe()
	if err != nil {
		return nil, err
	}
	out, err := cmd.StdoutPipe()
	if err != nil {
		return nil, err
	}
	cmd.Stderr = os.Stderr
	if err := cmd.Start(); err != nil {
		return nil, err
	}
	return &Driver{cmd: cmd, in: in, out: bufio.NewReaderSize(out, 1<<20)}, nil
}

// Ask sends one op line and returns the reply line.
func (d *Driver) Ask(line string) string {
	d.n++
	if _, err := io.WriteString(d.in, line+"\n"); err != nil {
		return "driver-error: " + err.Error()
	}
	rep, err := d.out.ReadString('\n')
	if err != nil {
		return "driver-error: " + err.Error()
	}
	return strings.TrimRight(rep, "\r\n")
}

// AskMany pipelines a batch of op lines (writer and reader run concurrently).
func (d *Driver) AskMany(lines []string) []string {
	res := make([]string, len(lines))
	done := make(chan struct{})
	go func() {
		w := bufio.NewWriterSize(d.in, 1<<20)
		for _, l := range lines {
			w.WriteString(l)
			w.WriteByte('\n')
		}
		w.Flush()
		close(done)
	}()
	for i := range lines {
		rep, err := d.out.ReadString('\n')
		if err != nil {
			res[i] = "driver-error: " + err.Error()
			continue
		}
		res[i] = strings.TrimRight(rep, "\r\n")
	}
	<-done
	d.n += len(lines)
	return res
}

func (d *Driver) Close() {
	if d == nil {
		return
	}
	d.in.Close()
	d.cmd.Wait()
}

// ---- generated metadata (written by go2lean)

type MetaField struct {
	Go   string `json:"go"`
	Lean string `json:"lean"`
}
type MetaParam struct {
	Name string `json:"name"`
	Kind string `json:"kind"`
	Lean string `json:"lean"`
}
type MetaFunc struct {
	Key     string      `json:"key"`
	Lean    string      `json:"lean"`
	Params  []MetaParam `json:"params"`
	Ret     []string    `json:"ret"`
	UsesOra bool        `json:"uses_ora"`
	Failed  string      `json:"failed"`
}
type MetaOra struct {
	Name  string   `json:"name"`
	Type  string   `json:"type"`
	Table bool     `json:"table"`
	Zero  []string `json:"zero"`
}
type Meta struct {
	Structs map[string][]MetaField `json:"structs"`
	Funcs   []MetaFunc             `json:"funcs"`
	Oracles []MetaOra              `json:"oracles"`
	Pool    []string               `json:"pool"`
	Facts   map[string]interface{} `json:"facts"`
}

var meta Meta

func loadMeta(path string) error {
	b, err := os.ReadFile(path)
	if err != nil {
		return err
	}
	return json.Unmarshal(b, &meta)
}

func (m *Meta) fn(lean string) *MetaFunc {
	for i := range m.Funcs {
		if m.Funcs[i].Lean == lean {
			return &m.Funcs[i]
		}
	}
	return nil
}

// Ora is the set of oracle answers sent with an `fn` op: field name -> tokens.
type Ora map[string][]string

// tableTokens encodes a function oracle: default value tokens, then rows (key tokens joined by ',' -> value tokens).
func tableTokens(dflt []string, rows [][2][]string) []string {
	out := append([]string{}, dflt...)
	out = append(out, strconv.Itoa(len(rows)))
	for _, r := range rows {
		out = append(out, tokStr(strings.Join(r[0], ",")))
		out = append(out, r[1]...)
	}
	return out
}

func (m *Meta) oraTokens(o Ora) ([]string, error) {
	var out []string
	for _, f := range m.Oracles {
		if v, ok := o[f.Name]; ok {
			out = append(out, v...)
		} else {
			out = append(out, f.Zero...)
		}
	}
	for k := range o {
		found := false
		for _, f := range m.Oracles {
			if f.Name == k {
				found = true
			}
		}
		if !found {
			return nil, fmt.Errorf("oracle %s not in generated Ora (translation changed)", k)
		}
	}
	return out, nil
}

// ---- reflection encoder: Go value -> tokens following the generated Lean type

func splitTop(s, sep string) []string {
	var out []string
	depth, last := 0, 0
	for i := 0; i < len(s); i++ {
		switch s[i] {
		case '(':
			depth++
		case ')':
			depth--
		}
		if depth == 0 && strings.HasPrefix(s[i:], sep) {
			out = append(out, strings.TrimSpace(s[last:i]))
			last = i + len(sep)
			i += len(sep) - 1
		}
	}
	return append(out, strings.TrimSpace(s[last:]))
}

func stripParens(s string) string {
	s = strings.TrimSpace(s)
	for strings.HasPrefix(s, "(") && strings.HasSuffix(s, ")") {
		depth, ok := 0, true
		for i := 0; i < len(s)-1; i++ {
			if s[i] == '(' {
				depth++
			} else if s[i] == ')' {
				depth--
			}
			if depth == 0 {
				ok = false
				break
			}
		}
		if !ok {
			break
		}
		s = strings.TrimSpace(s[1 : len(s)-1])
	}
	return s
}

// encode renders v according to the Lean type lt.
func (m *Meta) encode(lt string, v reflect.Value) ([]string, error) {
	lt = stripParens(lt)
	for v.IsValid() && v.Kind() == reflect.Interface && !v.IsNil() {
		v = v.Elem()
	}
	if parts := splitTop(lt, " × "); len(parts) > 1 {
		return nil, fmt.Errorf("encode: tuple type %s needs explicit handling", lt)
	}
	switch {
	case lt == "String":
		if v.Kind() == reflect.Slice { // []byte used as string
			return []string{tokBytes(v.Bytes())}, nil
		}
		return []string{tokStr(v.String())}, nil
	case lt == "Lib.Bytes":
		if v.Kind() == reflect.String {
			return []string{tokStr(v.String())}, nil
		}
		return []string{tokBytes(v.Bytes())}, nil
	case lt == "Int":
		return []string{tokInt(v.Int())}, nil
	case lt == "Bool":
		return []string{tokBool(v.Bool())}, nil
	case lt == "Unit":
		return nil, nil
	case lt == "Err":
		if !v.IsValid() || v.IsNil() {
			return []string{"-"}, nil
		}
		return []string{"+", tokStr(v.Interface().(error).Error())}, nil
	case strings.HasPrefix(lt, "Option "):
		if !v.IsValid() || v.IsNil() {
			return []string{"-"}, nil
		}
		inner, err := m.encode(lt[len("Option "):], v.Elem())
		if err != nil {
			return nil, err
		}
		return append([]string{"+"}, inner...), nil
	case strings.HasPrefix(lt, "List "):
		et := lt[len("List "):]
		out := []string{strconv.Itoa(v.Len())}
		for i := 0; i < v.Len(); i++ {
			e, err := m.encode(et, v.Index(i))
			if err != nil {
				return nil, err
			}
			out = append(out, e...)
		}
		return out, nil
	}
	fs, ok := m.Structs[lt]
	if !ok {
		return nil, fmt.Errorf("encode: unknown Lean type %s", lt)
	}
	if v.Kind() == reflect.Ptr {
		v = v.Elem()
	}
	var out []string
	for _, f := range fs {
		fv := v.FieldByName(f.Go)
		if !fv.IsValid() {
			return nil, fmt.Errorf("encode: %s has no field %s", v.Type(), f.Go)
		}
		e, err := m.encode(f.Lean, fv)
		if err != nil {
			return nil, err
		}
		out = append(out, e...)
	}
	return out, nil
}

func mustEnc(lt string, v interface{}) []string {
	t, err := meta.encode(lt, reflect.ValueOf(v))
	if err != nil {
		panic(err)
	}
	return t
}
