package main

import (
	"fmt"
	"net/http/httptest"
	"reflect"
	"strings"
	"time"

	"github.com/zitadel/saml/pkg/provider"
	"github.com/zitadel/saml/pkg/provider/serviceprovider"
	samlxml "github.com/zitadel/saml/pkg/provider/xml"
	"github.com/zitadel/saml/pkg/provider/xml/samlp"
)

func init() { sloModelCompare = sloCompare }

func logoutFormOf(r HTTPReq) (*provider.LogoutRequestForm, error) {
	fn, ok := provider.VerifExports["getLogoutRequestFromRequest"]
	if !ok {
		return nil, fmt.Errorf("getLogoutRequestFromRequest not exported (source changed)")
	}
	target := r.Path
	if r.Query != "" {
		target += "?" + r.Query
	}
	req := httptest.NewRequest(r.Method, "https://idp.example.com"+target, strings.NewReader(r.Body))
	if r.CType != "" {
		req.Header.Set("Content-Type", r.CType)
	}
	out := reflect.ValueOf(fn).Call([]reflect.Value{reflect.ValueOf(req)})
	if !out[1].IsNil() {
		return nil, nil
	}
	return out[0].Interface().(*provider.LogoutRequestForm), nil
}

func sloCanon(r *SloRun) string {
	d := r.Deliv
	if d.Kind == "panic" {
		return "panic"
	}
	if d.Msg == nil {
		return "unparsable-reply " + d.Kind + " " + d.Err
	}
	target, relay := d.Target, d.Relay
	if d.Kind == "xmlbody" {
		target, relay = "", ""
	}
	if d.Kind == "post" && len(r.SloURLs) > 0 && target == htmlURLNormalize(r.SloURLs[0]) {
		target = r.SloURLs[0]
	}
	m := d.Msg
	return strings.Join([]string{d.Kind, tokStr(target), tokStr(relay), statusShort(m.Status), tokStr(m.InResponseTo), tokStr(m.Destination), tokStr(m.Issuer)}, " ")
}

func sloCompare(c *Ctx, r *SloRun) {
	if c.drv == nil {
		return
	}
	now := time.Now()
	ora := Ora{"now": {tokInt(now.UnixNano())}}
	form, err := logoutFormOf(r.Req)
	if err != nil {
		c.issue(Issue{Kind: "disagreement", What: err.Error(), Site: "slo op"})
		return
	}
	formTok := []string{"-"}
	var decoded *samlp.LogoutRequestType
	if form != nil {
		formTok = []string{"+", tokStr(form.LogoutRequest), tokStr(form.Encoding), tokStr(form.RelayState)}
		if d, err := samlxml.DecodeLogoutRequest(form.Encoding, form.LogoutRequest); err == nil {
			decoded = d
		}
	}
	decTok := []string{"-"}
	var sp *serviceprovider.ServiceProvider
	if decoded != nil {
		t, err := meta.encode("samlp_LogoutRequestType", reflect.ValueOf(decoded))
		if err != nil {
			c.issue(Issue{Kind: "disagreement", What: err.Error(), Site: "slo op"})
			return
		}
		decTok = append([]string{"+"}, t...)
		ora["timeParse"] = timeTable(now, provider.DefaultTimeFormat, decoded.IssueInstant, decoded.NotOnOrAfter)
		if decoded.Issuer != nil && r.Case["lookup"] == "ok" {
			sp = r.Storage.SPs[decoded.Issuer.Text]
		}
	}
	spTok := []string{"-"}
	if sp != nil {
		t, err := meta.encode("serviceprovider_ServiceProvider", reflect.ValueOf(sp))
		if err != nil {
			c.issue(Issue{Kind: "disagreement", What: err.Error(), Site: "slo op"})
			return
		}
		spTok = append([]string{"+"}, t...)
	}
	oraTok, err := meta.oraTokens(ora)
	if err != nil {
		c.issue(Issue{Kind: "disagreement", What: err.Error(), Site: "slo op"})
		return
	}
	toks := append([]string{"slo"}, oraTok...)
	toks = append(toks, tokStr("https://idp.example.com/saml/metadata"), tokStr(provider.DefaultTimeFormat))
	toks = append(toks, formTok...)
	toks = append(toks, decTok...)
	toks = append(toks, spTok...)
	line := strings.Join(toks, " ")
	got := c.drv.Ask(line)
	want := sloCanon(r)
	c.rep.TracesValidated++
	if got != want {
		c.issue(Issue{Kind: "disagreement", What: "logout model and implementation differ", Site: "slo op", Class: r.Deliv.Kind, Op: line, Model: got, Impl: want, Detail: r.detail()})
	}
}
