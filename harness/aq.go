package main

// Attribute query (SOAP) case domain and monitors (C12; slices of C04, C07, C09).

import (
	"fmt"
	"sort"
	"strings"
	"time"

	"github.com/zitadel/saml/pkg/provider"
)

var aqDims = []dim{
	{"envelope", []string{"ok", "no-query", "notxml", "empty"}},
	{"issuer", []string{"registered", "absent", "unregistered"}},
	{"subject", []string{"alice", "no-nameid", "unknown-user", "bob"}},
	{"requested", []string{"none", "email", "email+username", "wrong-name", "wrong-format", "duplicate", "custom", "mixed", "nameless", "split-pair"}},
	{"destination", []string{"absent", "attribute-service", "sso-location", "foreign", "case-variant"}},
	{"signature", []string{"none", "valid", "tampered", "foreign-key", "empty-value", "valid-nokeyinfo", "tampered-nokeyinfo", "wrapped-header", "wrapped-body"}},
	{"user", []string{"full", "custom", "minimal", "hostile"}},
	{"lookup", []string{"ok", "fail"}},
	{"userinfo", []string{"ok", "fail"}},
	{"respkey", []string{"ok", "fail", "nil"}},
	{"style", []string{"0", "1"}},
	{"spcerts", []string{"one", "none"}},
	{"nsplace", []string{"local", "envelope"}},
}

const attrServiceLocation = "https://idp.example.com/saml/attribute"
const basicFmt = "urn:oasis:names:tc:SAML:2.0:attrname-format:basic"

type reqAttr struct{ Name, Format string }

func aqBase() Case {
	c := Case{}
	for _, d := range aqDims {
		c[d.name] = d.vals[0]
	}
	return c
}

func requestedFor(label string) []reqAttr {
	switch label {
	case "email":
		return []reqAttr{{"Email", basicFmt}}
	case "email+username":
		return []reqAttr{{"Email", basicFmt}, {"UserName", basicFmt}}
	case "wrong-name":
		return []reqAttr{{"email", basicFmt}}
	case "wrong-format":
		return []reqAttr{{"Email", "urn:oasis:names:tc:SAML:2.0:attrname-format:uri"}}
	case "duplicate":
		return []reqAttr{{"Email", basicFmt}, {"Email", basicFmt}, {"UserID", basicFmt}}
	case "custom":
		return []reqAttr{{"groups", basicFmt}, {"urn:oid:1.2.3", "urn:oasis:names:tc:SAML:2.0:attrname-format:uri"}}
	case "mixed":
		return []reqAttr{{"Nope", basicFmt}, {"SurName", basicFmt}, {"groups", "urn:other"}, {"FullName", basicFmt}}
	case "split-pair":
		// pairs whose concatenations coincide with a pair the user holds, although neither the name nor the format does:
		// ("Email:urn", "oasis:…:basic") vs ("Email", "urn:oasis:…:basic"), with ':', '|', ' ' or nothing as the seam
		rest := strings.TrimPrefix(basicFmt, "urn:")
		return []reqAttr{{"Email:urn", rest}, {"Email|urn", rest}, {"Emailurn:", rest}, {"Email urn", rest}, {"E", "mail" + basicFmt}, {"Email" + basicFmt, ""}}
	case "nameless":
		// attributes were requested, but none carries a name: nothing the user holds matches
		return []reqAttr{{"", basicFmt}, {"", "urn:oasis:names:tc:SAML:2.0:attrname-format:uri"}}
	}
	return nil
}

type AqRun struct {
	Case      Case
	Req       HTTPReq
	Doc       string
	Reply     Reply
	Deliv     Delivered
	Calls     []StorageCall
	Storage   *Storage
	Prov      *provider.Provider
	User      *User
	Requested []reqAttr
	QueryID   string
	Subject   string
}

func runAq(c Case) *AqRun {
	initKeys()
	r := &AqRun{Case: c, QueryID: "aq-4711"}
	st := newStorage()
	r.Storage = st
	spCerts := []string{spKeys.B64}
	if c["spcerts"] == "none" {
		spCerts = nil
	}
	_ = st.Register(SPSpec{EntityID: spEntity, AppID: "app-1", ReqSigned: "-", Certs: spCerts, Acs: acsFor("post")})
	u := usersFor(c["user"])
	st.Users["alice"] = u
	st.Users["bob"] = &User{Email: "bob@example.com", Username: "bob", UserID: "uid-2", Surname: "Builder"}
	if c["lookup"] == "fail" {
		st.Fail("GetEntityByID", 1)
	}
	if c["userinfo"] == "fail" {
		st.Fail("SetUserinfoWithLoginName", 1)
	}
	switch c["respkey"] {
	case "fail":
		for i := 1; i < 5; i++ {
			st.Fail("GetResponseSigningKey", i)
		}
	case "nil":
		st.RespKeyNil = true
	}
	prov, err := newProvider(st, defaultIdpCfg())
	if err != nil {
		panic(err)
	}
	r.Prov = prov
	r.Requested = requestedFor(c["requested"])
	switch c["subject"] {
	case "alice":
		r.Subject, r.User = "alice", u
	case "bob":
		r.Subject, r.User = "bob", st.Users["bob"]
	case "unknown-user":
		r.Subject = "mallory"
	}
	p, a := "samlp:", "saml:"
	ns := fmt.Sprintf(` xmlns:samlp="%s" xmlns:saml="%s"`, nsProtocol, nsAssertion)
	if c["style"] == "1" {
		p, a = "", "a:"
		ns = fmt.Sprintf(` xmlns="%s" xmlns:a="%s"`, nsProtocol, nsAssertion)
	}
	var q strings.Builder
	fmt.Fprintf(&q, `<%sAttributeQuery%s ID="%s" Version="2.0" IssueInstant="%s"`, p, ns, r.QueryID, time.Now().UTC().Format("2006-01-02T15:04:05Z"))
	switch c["destination"] {
	case "attribute-service":
		fmt.Fprintf(&q, ` Destination="%s"`, attrServiceLocation)
	case "sso-location":
		fmt.Fprintf(&q, ` Destination="%s"`, ssoLocation)
	case "foreign":
		q.WriteString(` Destination="https://evil.example.com/attribute"`)
	case "case-variant":
		// differs from the advertised location by letter case in the path only (paths are case-sensitive)
		fmt.Fprintf(&q, ` Destination="%s"`, strings.Replace(attrServiceLocation, "/attribute", "/ATTRIBUTE", 1))
	}
	q.WriteString(">")
	switch c["issuer"] {
	case "registered":
		fmt.Fprintf(&q, `<%sIssuer>%s</%sIssuer>`, a, spEntity, a)
	case "unregistered":
		fmt.Fprintf(&q, `<%sIssuer>https://unknown.example.com/metadata</%sIssuer>`, a, a)
	}
	if c["signature"] == "empty-value" {
		fmt.Fprintf(&q, `<ds:Signature xmlns:ds="%s"><ds:SignedInfo/><ds:SignatureValue></ds:SignatureValue></ds:Signature>`, nsDsig)
	}
	if c["subject"] == "no-nameid" {
		fmt.Fprintf(&q, `<%sSubject></%sSubject>`, a, a)
	} else {
		fmt.Fprintf(&q, `<%sSubject><%sNameID>%s</%sNameID></%sSubject>`, a, a, r.Subject, a, a)
	}
	for _, ra := range r.Requested {
		fmt.Fprintf(&q, `<%sAttribute Name="%s" NameFormat="%s"/>`, a, xmlAttrEsc(ra.Name), xmlAttrEsc(ra.Format))
	}
	fmt.Fprintf(&q, `</%sAttributeQuery>`, p)
	query := q.String()
	wrappedOriginal := ""
	switch c["signature"] {
	case "valid":
		query, err = cachedEnveloped(query, spKeys, algRSASHA256, true, "")
	case "tampered":
		query, err = cachedEnveloped(query, spKeys, algRSASHA256, true, "")
		query = strings.Replace(query, "aq-4711", "aq-4712", 1)
		r.QueryID = "aq-4712"
	case "foreign-key":
		query, err = cachedEnveloped(query, foreignKeys, algRSASHA256, true, "")
	case "valid-nokeyinfo":
		query, err = cachedEnveloped(query, spKeys, algRSASHA256, false, "")
	case "wrapped-body":
		// the genuinely signed query comes first in the body, a changed copy second (a struct decoder keeps the last)
		query, err = cachedEnveloped(query, spKeys, algRSASHA256, true, "")
		orig := strings.TrimPrefix(query, `<?xml version="1.0" encoding="UTF-8"?>`)
		query = orig + strings.Replace(orig, "aq-4711", "aq-4712", 1)
		r.QueryID = "aq-4712"
	case "wrapped-header":
		// signature wrapping: the genuinely signed query travels in the SOAP header, the body carries a copy whose
		// content was changed (it still carries the signature element, which does not verify over the changed content)
		query, err = cachedEnveloped(query, spKeys, algRSASHA256, true, "")
		wrappedOriginal = strings.TrimPrefix(query, `<?xml version="1.0" encoding="UTF-8"?>`)
		query = strings.Replace(query, "aq-4711", "aq-4712", 1)
		r.QueryID = "aq-4712"
	case "tampered-nokeyinfo":
		// ds:KeyInfo is optional; the query is changed after signing (another subject's data is asked for)
		query, err = cachedEnveloped(query, spKeys, algRSASHA256, false, "")
		query = strings.Replace(query, "aq-4711", "aq-4712", 1)
		r.QueryID = "aq-4712"
	}
	if err != nil {
		panic(err)
	}
	nsOnEnvelope := ""
	if c["nsplace"] == "envelope" && c["style"] != "1" {
		// the prefixes are declared on the SOAP envelope instead of the query element: the same infoset for a
		// namespace-aware parser, and the same exclusive-c14n octets, so a signature stays valid
		for _, decl := range []string{fmt.Sprintf(` xmlns:samlp="%s"`, nsProtocol), fmt.Sprintf(` xmlns:saml="%s"`, nsAssertion)} {
			if strings.Contains(query, decl) {
				query = strings.Replace(query, decl, "", 1)
				nsOnEnvelope += decl
			}
		}
	}
	query = strings.TrimPrefix(query, `<?xml version="1.0" encoding="UTF-8"?>`)
	body := ""
	switch c["envelope"] {
	case "ok":
		hdr := ""
		if wrappedOriginal != "" {
			hdr = `<soap:Header>` + wrappedOriginal + `</soap:Header>`
		}
		body = `<soap:Envelope xmlns:soap="http://schemas.xmlsoap.org/soap/envelope/"` + nsOnEnvelope + `>` + hdr + `<soap:Body>` + query + `</soap:Body></soap:Envelope>`
	case "no-query":
		body = `<soap:Envelope xmlns:soap="http://schemas.xmlsoap.org/soap/envelope/"><soap:Body></soap:Body></soap:Envelope>`
	case "notxml":
		body = "this is < not xml"
	}
	r.Doc = body
	r.Req = HTTPReq{Method: "POST", Path: "/attribute", Body: body, CType: "text/xml"}
	st.ResetLog()
	r.Reply = serve(prov.HttpHandler(), r.Req)
	r.Deliv = classify(r.Reply)
	r.Calls = append([]StorageCall{}, st.Calls...)
	return r
}

func (r *AqRun) detail() map[string]interface{} {
	d := map[string]interface{}{"case": r.Case.diffOf(aqDims), "soap_body": r.Doc, "reply_kind": r.Deliv.Kind, "reply_code": r.Reply.Code, "storage_calls": r.Calls}
	if r.Deliv.Msg != nil {
		d["message"] = r.Deliv.Msg
	}
	if r.Deliv.Err != "" {
		d["parse_error"] = r.Deliv.Err
	}
	if r.Reply.Panicked {
		d["panic"] = strings.SplitN(r.Reply.PanicMsg, "\n", 2)[0]
	}
	if len(r.Reply.Body) < 300 {
		d["body"] = r.Reply.Body
	}
	return d
}

func (r *AqRun) answered() bool {
	return r.Deliv.Kind == "soap" && r.Deliv.Msg != nil && r.Deliv.Msg.Status == provider.StatusCodeSuccess
}

// filterSpec: the user's attributes whose (name, format) match a requested attribute; all when none requested
func filterSpec(u *User, req []reqAttr) []string {
	all := specAttrs(u)
	for _, cu := range u.Custom {
		all = append(all, MsgAttr{Name: cu.Name, Format: cu.Format, Friendly: cu.Friendly, Values: cu.Values})
	}
	var out []string
	for _, a := range all {
		if len(req) == 0 {
			out = append(out, attrKey(a))
			continue
		}
		for _, q := range req {
			if q.Name == a.Name && q.Format == a.Format {
				out = append(out, attrKey(a))
				break
			}
		}
	}
	sort.Strings(out)
	return out
}

func uniqSorted(xs []string) []string {
	sort.Strings(xs)
	var out []string
	for i, x := range xs {
		if i == 0 || x != xs[i-1] {
			out = append(out, x)
		}
	}
	return out
}

func monC12(c *Ctx, r *AqRun) {
	site := "attributeQueryHandleFunc"
	if r.Reply.Panicked {
		return
	}
	cs := r.Case
	bad := func(what, class string) {
		c.issue(Issue{Kind: "violation", What: what, Site: site, Class: class, Detail: r.detail()})
	}
	if !r.answered() {
		// nothing about a user may leave in an error reply
		raw := r.Reply.Body
		if r.User != nil && (strings.Contains(raw, "@example.com") || strings.Contains(raw, "AttributeValue")) {
			bad("error reply contains user data", "leak")
		}
		return
	}
	m := r.Deliv.Msg
	// guard
	if cs["issuer"] != "registered" || cs["lookup"] != "ok" {
		bad("answered although the Issuer is not a registered service provider", "guard-issuer")
	}
	switch cs["signature"] {
	case "tampered", "foreign-key", "tampered-nokeyinfo", "wrapped-header", "wrapped-body":
		bad("answered although the signature carried by the query does not verify under the registered certificate", "guard-signature:"+cs["signature"])
	case "valid", "valid-nokeyinfo":
		if cs["spcerts"] == "none" {
			bad("answered although the query carries a signature and no certificate is registered to verify it with", "guard-signature:no-registered-certificate")
		}
	}
	switch cs["destination"] {
	case "sso-location", "foreign", "case-variant":
		bad("answered although Destination is not a location advertised for the attribute service", "guard-destination:"+cs["destination"])
	}
	if r.User == nil {
		bad("answered although storage resolved no user", "guard-user")
		return
	}
	// content
	calls := r.Storage.CallsOf("SetUserinfoWithLoginName")
	if len(calls) != 1 || calls[0].Args[0] != r.Subject {
		bad("user looked up by something other than the queried subject", "lookup-argument")
	}
	if m.NameID != r.User.Username {
		bad("NameID is not the resolved user's", "nameid")
	}
	if m.InResponseTo != r.QueryID || m.SCInResponse != r.QueryID {
		bad("InResponseTo does not echo the query ID", "in-response-to")
	}
	if len(m.Audiences) != 1 || m.Audiences[0] != spEntity {
		bad("audience is not restricted to the requester", "audience")
	}
	if m.Issuer != "https://idp.example.com/saml/metadata" || m.AssertIssuer != m.Issuer {
		bad("Issuer is not the IdP entity ID", "issuer")
	}
	var got []string
	for _, a := range m.Attrs {
		got = append(got, attrKey(a))
	}
	want := filterSpec(r.User, r.Requested)
	if strings.Join(uniqSorted(got), "|") != strings.Join(uniqSorted(want), "|") {
		bad("attributes are not exactly the user's attributes matching a requested (Name, NameFormat)", "filter:"+cs["requested"])
	}
	if !m.AssertSigned {
		bad("assertion not signed", "unsigned")
	} else if err := verifyEnvelopedIndependently(r.Deliv.MsgBytes, "Assertion", idpCert()); err != nil {
		c.issue(Issue{Kind: "violation", What: "attribute-query assertion signature does not verify under an independent verifier: " + err.Error(), Site: "createPostSignature",
			Class: "enveloped:" + aqStringClass(r), Detail: r.detail()})
	}
}

func aqStringClass(r *AqRun) string {
	if r.User == nil {
		return "clean"
	}
	all := []string{r.User.Email, r.User.FullName, r.User.GivenName, r.User.Surname, r.User.Username}
	for _, cu := range r.User.Custom {
		all = append(all, cu.Name, cu.Friendly, cu.Format)
		all = append(all, cu.Values...)
	}
	// only attributes that made it into the assertion matter
	present := map[string]bool{}
	for _, a := range r.Deliv.Msg.Attrs {
		present[a.Name] = true
		for _, v := range a.Values {
			present[v] = true
		}
	}
	for _, s := range all {
		if (present[s] || s == r.User.Username) && strings.ContainsAny(s, "&<>\r\"\t\n") {
			return "special-chars"
		}
	}
	return "clean"
}

func monC09aq(c *Ctx, r *AqRun) {
	if r.Reply.Panicked {
		c.issue(Issue{Kind: "violation", What: "panic while serving an attribute query: " + strings.SplitN(r.Reply.PanicMsg, "\n", 2)[0], Site: "attributeQueryHandleFunc",
			Class: panicSite(r.Reply.PanicMsg) + ":env=" + r.Case["envelope"] + ",issuer=" + r.Case["issuer"] + ",subject=" + r.Case["subject"], Detail: r.detail()})
	}
}

func monC07aq(c *Ctx, r *AqRun) {
	cs := r.Case
	conformant := cs["envelope"] == "ok" && cs["issuer"] == "registered" && (cs["subject"] == "alice" || cs["subject"] == "bob") &&
		(cs["destination"] == "absent" || cs["destination"] == "attribute-service") && (cs["signature"] == "none" || ((cs["signature"] == "valid" || cs["signature"] == "valid-nokeyinfo") && cs["spcerts"] == "one")) &&
		cs["lookup"] == "ok" && cs["userinfo"] == "ok" && cs["respkey"] == "ok"
	if !conformant || r.Reply.Panicked {
		return
	}
	c.hist("conformant", "yes")
	if !r.answered() {
		c.issue(Issue{Kind: "violation", What: "conformant AttributeQuery not answered with Success", Site: "attributeQueryHandleFunc",
			Class: "signature=" + cs["signature"] + ",destination=" + cs["destination"], Detail: r.detail()})
	}
}

type aqMonitor func(c *Ctx, r *AqRun)

var aqModelCompare = func(c *Ctx, r *AqRun) {}

func aqSuite(c *Ctx, mon aqMonitor, rule string) {
	c.rep.Rule = "SOAP attribute queries over " + fmt.Sprint(len(aqDims)) + " label dimensions (envelope shape, Issuer, subject, 0..4 requested attributes with matching/non-matching/duplicate Name and NameFormat, Destination, signature valid/tampered/foreign, user record, storage/key outcomes): every single and pairwise sweep plus random cases. Non-trivial = the envelope decodes; distinct = distinct label vector. " + rule
	seen := map[string]bool{}
	one := func(cs Case) {
		if seen[cs.key()] {
			return
		}
		seen[cs.key()] = true
		r := runAq(cs)
		c.rep.Evaluations++
		if cs["envelope"] == "ok" {
			c.nontrivial(cs.key())
		}
		outcome := r.Deliv.Kind
		if r.Deliv.Msg != nil {
			outcome += ":" + statusShort(r.Deliv.Msg.Status)
		}
		c.hist("outcome", outcome)
		mon(c, r)
		aqModelCompare(c, r)
		if c.rep.Evaluations%307 == 1 {
			c.sample(map[string]interface{}{"case": cs.diffOf(aqDims), "outcome": outcome})
		}
	}
	b := aqBase()
	one(b)
	for i, d1 := range aqDims {
		for _, v1 := range d1.vals {
			c1 := b.with(d1.name, v1)
			one(c1)
			for _, d2 := range aqDims[i+1:] {
				for _, v2 := range d2.vals {
					one(c1.with(d2.name, v2))
				}
			}
		}
	}
	n := 1500
	if c.thorough() {
		n = 30000
	}
	for i := 0; i < n; i++ {
		cs := aqBase()
		for e := 0; e < 3+c.rng.intn(3); e++ {
			d := aqDims[c.rng.intn(len(aqDims))]
			cs = cs.with(d.name, d.vals[c.rng.intn(len(d.vals))])
		}
		one(cs)
	}
}

func init() {
	props["survey-aq"] = func(c *Ctx) {
		aqSuite(c, func(c *Ctx, r *AqRun) { monC12(c, r); monC09aq(c, r); monC07aq(c, r) }, "all monitors")
	}
	props["C12"] = func(c *Ctx) {
		aqSuite(c, monC12, "Monitor: decoded SOAP response vs. an independent filter over the user record; SetUserinfoWithLoginName argument; independent signature verification.")
	}
}
