package main

// C04 — every signature the IdP emits verifies under a conformant verifier.
//
// Implementation side: every signed artefact the real handlers emit (POST form, redirect URL, HTTP body, SOAP
// answer, signed metadata) is verified with implementations that are not the signer's: goxmldsig + etree
// (exclusive C14N) for enveloped signatures, a from-the-spec §3.4.4.1 verifier over the raw query for redirects.
// Model side: Lib.Url.verify (the verifier of the theorems), Lib.Url.queryUnescape, Lib.C14n are compared with
// those implementations, and the theorem's prediction "the enveloped signature verifies iff every signed text /
// attribute value avoids the special characters" is checked against what goxmldsig reports, case by case.

import (
	"bytes"
	"crypto"
	"crypto/rsa"
	"crypto/sha1"
	"crypto/sha256"
	"crypto/tls"
	"crypto/x509"
	"encoding/base64"
	"encoding/pem"
	"encoding/xml"
	"fmt"
	"net/url"
	"strings"
	"time"
	"unicode/utf8"

	"github.com/amdonov/xmlsig"
	"github.com/beevik/etree"

	"github.com/zitadel/saml/pkg/provider"
)

func init() { props["C04"] = runC04 }

// ---- character classes of the quantifier

type strClass struct{ label, val string }

var c04Classes = []strClass{
	{"plain", "plain-Value_1"},
	{"amp", "a&b"}, {"lt", "a<b"}, {"gt", "a>b"}, {"quot", `a"b`}, {"apos", "a'b"},
	{"cr", "a\rb"}, {"lf", "a\nb"}, {"tab", "a\tb"}, {"crlf", "a\r\nb"},
	{"lead-trail-space", "  a b  "}, {"two-byte", "Zoë é ß"}, {"three-byte", "日本語 €"}, {"supplementary", "𝄞 𐍈 😀"},
	{"cdata-end", "x]]>y"}, {"entity-like", "&amp; &#x41; &lt;"}, {"percent-plus", "100%+1 =?#"},
	{"all", "a&b<c>\"d'e\tf\ng\rh"},
}

func c14nTextClean(s string) bool { return !strings.ContainsAny(s, "&<>\r") }
func c14nAttrClean(s string) bool { return !strings.ContainsAny(s, "&<\"\t\n\r") }

// predictEnveloped walks the signed element as a verifier parses it and applies the model's rule (theorems
// C04_c14n_text / C04_c14n_attr): the signer's digest input equals the verifier's iff every text node and attribute
// value below the element is free of the special characters.  Returns the first offending value.
func predictEnveloped(doc []byte, tag string) (clean bool, offending string, err error) {
	d := etree.NewDocument()
	if err := d.ReadFromBytes(doc); err != nil {
		return false, "", err
	}
	el := d.FindElement("//" + tag)
	if el == nil {
		return false, "", fmt.Errorf("no %s element", tag)
	}
	clean = true
	var walk func(e *etree.Element)
	walk = func(e *etree.Element) {
		if e.Tag == "Signature" {
			return
		}
		for _, a := range e.Attr {
			if a.Space == "xmlns" || (a.Space == "" && a.Key == "xmlns") {
				continue
			}
			if clean && !c14nAttrClean(a.Value) {
				clean, offending = false, "attribute "+a.Key+"="+fmt.Sprintf("%q", a.Value)
			}
		}
		for _, ch := range e.Child {
			switch t := ch.(type) {
			case *etree.CharData:
				if clean && !c14nTextClean(t.Data) {
					clean, offending = false, "text of "+e.Tag+": "+fmt.Sprintf("%q", t.Data)
				}
			case *etree.Element:
				walk(t)
			}
		}
	}
	walk(el)
	return clean, offending, nil
}

// checkEnveloped verifies an enveloped signature independently and compares the outcome with the model's
// prediction.  site/what identify the artefact.
func checkEnveloped(c *Ctx, doc []byte, tag string, cert *x509.Certificate, site, what string, detail map[string]interface{}) {
	verr := verifyEnvelopedIndependently(doc, tag, cert)
	clean, offending, perr := predictEnveloped(doc, tag)
	if perr != nil {
		c.issue(Issue{Kind: "violation", What: what + ": signed document cannot be parsed by the verifier: " + perr.Error(), Site: site, Class: "enveloped:unparseable", Detail: detail})
		return
	}
	c.hist("enveloped", fmt.Sprintf("%s predicted-clean=%v verified=%v", tag, clean, verr == nil))
	switch {
	case verr == nil && clean:
	case verr != nil && !clean:
		// the model predicts this failure: the input class of the open finding (third-party signer digests unescaped text)
		d2 := map[string]interface{}{"offending": offending, "verifier": verr.Error()}
		for k, v := range detail {
			d2[k] = v
		}
		c.issue(Issue{Kind: "violation", What: what + " does not verify under an independent verifier (goxmldsig, exc-c14n): " + verr.Error() + "; signed value: " + offending,
			Site: site, Class: "enveloped:special-chars", Detail: d2})
	case verr != nil && clean:
		c.issue(Issue{Kind: "violation", What: what + " does not verify under an independent verifier although no signed value contains a special character: " + verr.Error(),
			Site: site, Class: "enveloped:clean", Detail: detail})
	default:
		c.issue(Issue{Kind: "disagreement", What: what + " verifies although the model (C04_c14n_text/attr) predicts differing digest inputs for " + offending, Site: "lib c14n", Class: "prediction", Detail: detail})
	}
}

// ---- redirect: the independent verifier, returning what it reconstructed

type redirectView struct {
	Octets string
	Alg    string
	Sig    []byte
}

func redirectReconstruct(rawQuery string) (*redirectView, error) {
	raw := map[string]string{}
	for _, kv := range strings.Split(rawQuery, "&") {
		p := strings.SplitN(kv, "=", 2)
		if len(p) == 2 {
			if _, dup := raw[p[0]]; !dup {
				raw[p[0]] = p[1]
			}
		}
	}
	resp, ok1 := raw["SAMLResponse"]
	algRaw, ok2 := raw["SigAlg"]
	sigRaw, ok3 := raw["Signature"]
	if !ok1 || !ok2 || !ok3 {
		return nil, fmt.Errorf("SAMLResponse / SigAlg / Signature parameter missing")
	}
	octets := "SAMLResponse=" + resp
	if v, ok := raw["RelayState"]; ok {
		octets += "&RelayState=" + v
	}
	octets += "&SigAlg=" + algRaw
	alg, err := url.QueryUnescape(algRaw)
	if err != nil {
		return nil, err
	}
	sigB64, err := url.QueryUnescape(sigRaw)
	if err != nil {
		return nil, err
	}
	sig, err := base64.StdEncoding.DecodeString(sigB64)
	if err != nil {
		return nil, fmt.Errorf("Signature is not base64 after one level of percent-decoding: %v", err)
	}
	return &redirectView{octets, alg, sig}, nil
}

func (v *redirectView) rsaVerify(pub *rsa.PublicKey) error {
	switch v.Alg {
	case algRSASHA1:
		s := sha1.Sum([]byte(v.Octets))
		return rsa.VerifyPKCS1v15(pub, crypto.SHA1, s[:], v.Sig)
	case algRSASHA256:
		s := sha256.Sum256([]byte(v.Octets))
		return rsa.VerifyPKCS1v15(pub, crypto.SHA256, s[:], v.Sig)
	}
	return fmt.Errorf("SigAlg %q is not a signature algorithm URI", v.Alg)
}

func rverifyWant(rawQuery string) string {
	v, err := redirectReconstruct(rawQuery)
	if err != nil {
		return "-"
	}
	return "+ " + tokStr(v.Octets) + " " + tokStr(v.Alg) + " " + tokBytes(v.Sig)
}

// ---- parametric callback run (strings chosen by the caller, not by label)

type c04Case struct {
	Field, Class string
	Binding      string // "post" | "redirect"
	Alg          string
	Rec          AuthReq
	User         User
	Entity       string
}

func runCbCustom(tc *c04Case) *CbRun {
	initKeys()
	r := &CbRun{Case: Case{"field": tc.Field, "class": tc.Class, "binding": tc.Binding, "sigalg": tc.Alg}}
	st := newStorage()
	r.Storage = st
	if err := st.Register(SPSpec{EntityID: tc.Entity, AppID: "app-1", ReqSigned: "-", Certs: []string{spKeys.B64}, Acs: acsFor("post+redirect")}); err != nil {
		r.Err = "register: " + err.Error()
		return r
	}
	r.Entity = tc.Entity
	rec := tc.Rec
	st.Reqs[rec.ID] = &rec
	r.Rec = &rec
	u := tc.User
	st.Users[u.UserID] = &u
	r.User = &u
	cfg := defaultIdpCfg()
	cfg.SigAlg = tc.Alg
	prov, err := newProvider(st, cfg)
	if err != nil {
		r.Err = err.Error()
		return r
	}
	r.Prov = prov
	r.Req = HTTPReq{Method: "GET", Path: "/login", Query: "id=" + url.QueryEscape(rec.ID)}
	st.ResetLog()
	r.Reply = serve(prov.HttpHandler(), r.Req)
	r.Deliv = classify(r.Reply)
	r.Calls = append([]StorageCall{}, st.Calls...)
	return r
}

func c04BaseCase(binding, alg string) *c04Case {
	tc := &c04Case{Binding: binding, Alg: alg, Entity: spEntity}
	tc.Rec = AuthReq{ID: "ar-7", AppID: "app-1", UserID: "uid-1", ReqID: "id-4711", Issuer: spEntity, Relay: "rs-1", IsDone: true, Acs: "https://sp.example.com/acs/post"}
	if binding == "post" {
		tc.Rec.Binding = provider.PostBinding
	} else {
		tc.Rec.Binding = provider.RedirectBinding
	}
	tc.User = User{Email: "alice@example.com", FullName: "Alice A. Example", GivenName: "Alice", Surname: "Example", UserID: "uid-1", Username: "alice",
		Custom: []CustomAttr{{Name: "groups", Friendly: "Groups", Format: "urn:oasis:names:tc:SAML:2.0:attrname-format:basic", Values: []string{"admin", "dev"}}}}
	return tc
}

// c04Fields: every place a string can reach a signed artefact of the callback; set installs the value.
var c04Fields = []struct {
	name string
	set  func(tc *c04Case, v string)
}{
	{"username(NameID)", func(tc *c04Case, v string) { tc.User.Username = v }},
	{"email", func(tc *c04Case, v string) { tc.User.Email = v }},
	{"fullName", func(tc *c04Case, v string) { tc.User.FullName = v }},
	{"givenName", func(tc *c04Case, v string) { tc.User.GivenName = v }},
	{"surname", func(tc *c04Case, v string) { tc.User.Surname = v }},
	{"custom-value", func(tc *c04Case, v string) { tc.User.Custom[0].Values = []string{"first", v} }},
	{"custom-name", func(tc *c04Case, v string) { tc.User.Custom[0].Name = v }},
	{"custom-friendly", func(tc *c04Case, v string) { tc.User.Custom[0].Friendly = v }},
	{"custom-format", func(tc *c04Case, v string) { tc.User.Custom[0].Format = v }},
	{"requestID(InResponseTo)", func(tc *c04Case, v string) { tc.Rec.ReqID = v }},
	{"relayState", func(tc *c04Case, v string) { tc.Rec.Relay = v }},
	{"audience(entityID)", func(tc *c04Case, v string) { tc.Entity = "https://sp.example.com/" + v }},
	{"consumerURL(Recipient)", func(tc *c04Case, v string) { tc.Rec.Acs = "https://sp.example.com/acs/" + v }},
}

func c04CheckCallback(c *Ctx, r *CbRun, rv *batch) {
	c.rep.Evaluations++
	detail := r.detail()
	if r.Err != "" {
		c.hist("callback", "setup-error")
		return
	}
	if r.Reply.Panicked {
		c.issue(Issue{Kind: "violation", What: "panic: " + strings.SplitN(r.Reply.PanicMsg, "\n", 2)[0], Site: "callbackHandleFunc", Class: panicSite(r.Reply.PanicMsg), Detail: detail})
		return
	}
	if !r.success() {
		c.hist("callback", "no-success:"+r.Deliv.Kind)
		return
	}
	c.nontrivial(r.Case.key())
	d := r.Deliv
	cert := idpCert()
	c.hist("callback", "success:"+d.Kind)
	switch d.Kind {
	case "redirect":
		// the URL actually sent
		v, err := redirectReconstruct(d.RawQuery)
		if err == nil {
			err = v.rsaVerify(cert.PublicKey.(*rsa.PublicKey))
		}
		if err != nil {
			c.issue(Issue{Kind: "violation", What: "Redirect-binding signature does not verify over the URL actually sent: " + err.Error(), Site: "createRedirectSignature",
				Class: "redirect-signature", Detail: detail})
		}
		// the redirect target as the model assembles it (Lib.Url.redirectURL) and as a URL parser reads it (Lib.Url.urlQuery)
		loc, acs := r.Reply.Location, r.Rec.Acs
		if utf8.ValidString(loc) && utf8.ValidString(acs) {
			own := ""
			t := acs
			if j := strings.Index(t, "#"); j >= 0 {
				t = t[:j]
			}
			if j := strings.Index(t, "?"); j >= 0 {
				own = t[j+1:] + "&"
			}
			msgQuery := strings.TrimPrefix(d.RawQuery, own)
			rv.add("lib urlquery "+tokStr(loc), tokStr(d.RawQuery), func() map[string]interface{} { return map[string]interface{}{"location": loc} })
			// net/http.Redirect percent-encodes the non-ASCII bytes of its target (hexEscapeNonASCII); that commutes with the assembly
			rv.add("lib redirurl "+tokStr(hexEscapeNonASCII(acs))+" "+tokStr(msgQuery), tokStr(loc), func() map[string]interface{} { return map[string]interface{}{"location": loc, "acs": acs} })
		}
		if d.Msg != nil && d.Msg.AssertSigned {
			c.hist("callback", "redirect-with-enveloped-signature")
		}
		// the theorem's verifier on the same raw query
		q := d.RawQuery
		rv.add("lib rverify "+tokStr(q), rverifyWant(q), func() map[string]interface{} { return map[string]interface{}{"raw_query": q} })
	case "post", "xmlbody":
		if !d.Msg.AssertSigned {
			c.issue(Issue{Kind: "violation", What: "Success assertion leaves the IdP unsigned (delivery " + d.Kind + ")", Site: "createPostSignature", Class: "unsigned-success:" + d.Kind, Detail: detail})
			return
		}
		checkEnveloped(c, d.MsgBytes, "Assertion", cert, "createPostSignature", "assertion signature ("+d.Kind+" delivery)", detail)
	default:
		c.issue(Issue{Kind: "violation", What: "Success response delivered as " + d.Kind, Site: "callbackHandleFunc", Class: "delivery:" + d.Kind, Detail: detail})
	}
}

// ---- library-level differentials of the model's ingredients

type c04Marker struct {
	XMLName xml.Name `xml:"urn:verif:marker m"`
	A       string   `xml:"A,attr"`
	Text    string   `xml:",chardata"`
}

func etreeCanon(text, attr string) (string, string, error) {
	// the canonical writer goxmldsig uses (etree WriteSettings with Canonical*), applied to a parsed element
	var buf bytes.Buffer
	buf.WriteString(`<m A="`)
	xml.EscapeText(&buf, []byte(attr))
	buf.WriteString(`">`)
	xml.EscapeText(&buf, []byte(text))
	buf.WriteString(`</m>`)
	d := etree.NewDocument()
	if err := d.ReadFromBytes(buf.Bytes()); err != nil {
		return "", "", err
	}
	d.WriteSettings = etree.WriteSettings{CanonicalAttrVal: true, CanonicalEndTags: true, CanonicalText: true}
	out, err := d.WriteToString()
	if err != nil {
		return "", "", err
	}
	// out = <m A="...">...</m>
	i := strings.Index(out, `A="`)
	j := strings.Index(out[i+3:], `"`)
	k := i + 3 + j // the closing quote: a canonical attribute value never contains a raw quote
	l := strings.LastIndex(out, "</m>")
	if i < 0 || j < 0 || k < 0 || l < k+2 {
		return "", "", fmt.Errorf("unexpected canonical form %q", out)
	}
	return out[k+2 : l], out[i+3 : i+3+j], nil
}

func xmlLegal(s string) bool {
	for _, r := range s {
		if r == utf8.RuneError {
			return false
		}
		if !(r == 0x9 || r == 0xA || r == 0xD || (r >= 0x20 && r <= 0xD7FF) || (r >= 0xE000 && r <= 0xFFFD) || (r >= 0x10000 && r <= 0x10FFFF)) {
			return false
		}
	}
	return utf8.ValidString(s)
}

func c04RandString(rng *Rng, n int) string {
	pool := []rune("abcXYZ019 -_.~&<>\"'\t\n\r%+=?#/:;@é日𝄞")
	var b strings.Builder
	for i := 0; i < n; i++ {
		b.WriteRune(pool[rng.intn(len(pool))])
	}
	return b.String()
}

func c04Lib(c *Ctx) {
	rng := c.rng.fork()
	n := 1500
	if c.thorough() {
		n = 30000
	}
	// (1) QueryUnescape: the model vs net/url, on escaped strings, on strings with stray / malformed escapes
	qb := &batch{c: c, site: "lib qunesc"}
	for i := 0; i < n; i++ {
		s := c04RandString(rng, rng.intn(12))
		var in string
		switch rng.intn(4) {
		case 0:
			in = url.QueryEscape(s)
		case 1:
			in = strings.ToLower(url.QueryEscape(s))
		case 2:
			in = s
		default:
			in = url.QueryEscape(s) + []string{"%", "%4", "%zz", "%+1", "%C3", "%c3%a9"}[rng.intn(6)]
		}
		if !utf8.ValidString(in) {
			continue
		}
		want := "-"
		if out, err := url.QueryUnescape(in); err == nil {
			want = "+ " + tokStr(out)
		}
		in2 := in
		qb.add("lib qunesc "+tokStr(in), want, func() map[string]interface{} { return map[string]interface{}{"input": in2} })
		c.rep.Evaluations++
	}
	qb.flush()
	// (1b) strings.Index / slicing at the offset / strings.Contains for a one-character needle (what the translated
	//      sendBackResponse uses to split the consumer URL): Lib.indexChar, byteTake, byteDrop
	ib := &batch{c: c, site: "lib byteidx"}
	for i := 0; i < n; i++ {
		s := c04RandString(rng, rng.intn(14))
		if rng.chance(60) {
			s += []string{"#", "?", "#frag", "?a=1", "é#ü?", "?x#y?z#"}[rng.intn(6)] + c04RandString(rng, rng.intn(5))
		}
		if !utf8.ValidString(s) {
			continue
		}
		needle := []string{"#", "?"}[rng.intn(2)]
		j := strings.Index(s, needle)
		has := "0"
		if strings.Contains(s, needle) {
			has = "1"
		}
		want := fmt.Sprintf("%d %s", j, has)
		if j >= 0 {
			want += " " + tokStr(s[:j]) + " " + tokStr(s[j:])
		}
		s2 := s
		ib.add("lib byteidx "+tokStr(s)+" "+tokStr(needle), want, func() map[string]interface{} { return map[string]interface{}{"input": s2, "needle": needle} })
		c.rep.Evaluations++
	}
	ib.flush()
	// (2) the verifier of the theorems vs the independent Go verifier, on queries the real BuildRedirectQuery assembles
	//     (statement of C04_redirect_query on the real function) and on mutated queries
	rb := &batch{c: c, site: "lib rverify"}
	for i := 0; i < n; i++ {
		resp := base64.StdEncoding.EncodeToString([]byte(c04RandString(rng, 1+rng.intn(20))))
		relay := ""
		if rng.chance(70) {
			relay = c04RandString(rng, 1+rng.intn(10))
		}
		alg := []string{algRSASHA1, algRSASHA256, "urn:x:" + c04RandString(rng, 3)}[rng.intn(3)]
		sig := make([]byte, 1+rng.intn(40))
		for j := range sig {
			sig[j] = byte(rng.intn(256))
		}
		if !utf8.ValidString(relay) || !utf8.ValidString(alg) {
			continue
		}
		signed := provider.BuildRedirectQuery(resp, relay, alg, "")
		sent := provider.BuildRedirectQuery(resp, relay, alg, base64.StdEncoding.EncodeToString(sig))
		c.rep.Evaluations++
		// implementation-side statement of the theorem
		v, err := redirectReconstruct(sent)
		if err != nil || v.Octets != signed || v.Alg != alg || !bytes.Equal(v.Sig, sig) {
			c.issue(Issue{Kind: "violation", What: "BuildRedirectQuery: an independent verifier does not recover the signed octets / algorithm / signature from the query sent", Site: "BuildRedirectQuery",
				Class: "redirect-query", Detail: map[string]interface{}{"signed": signed, "sent": sent, "relay": relay, "alg": alg}})
		}
		q := sent
		switch rng.intn(6) {
		case 0:
			q = "tenant=42&" + sent
		case 1:
			q = strings.Replace(sent, "&Signature=", "&Signature=%ZZ", 1)
		case 2:
			q = strings.Replace(sent, "SigAlg=", "Sigalg=", 1)
		case 3:
			q = sent + "&RelayState=second"
		}
		q2 := q
		rb.add("lib rverify "+tokStr(q), rverifyWant(q), func() map[string]interface{} { return map[string]interface{}{"raw_query": q2} })
	}
	rb.flush()
	// (3) canonical text / attribute value: the model vs etree's canonical writer (what goxmldsig digests), and the
	//     signer's rendering vs the digest amdonov/xmlsig actually computes over a marker element
	cb := &batch{c: c, site: "lib c14n"}
	signer, serr := xmlsig.NewSignerWithOptions(tlsCertOf(idpKeys), xmlsig.SignerOptions{SignatureAlgorithm: algRSASHA256, DigestAlgorithm: "http://www.w3.org/2001/04/xmlenc#sha256"})
	if serr != nil {
		c.issue(Issue{Kind: "disagreement", What: "xmlsig signer construction failed: " + serr.Error(), Site: "lib c14n"})
		return
	}
	var vals []string
	for _, cl := range c04Classes {
		vals = append(vals, cl.val)
	}
	m := 300
	if c.thorough() {
		m = 5000
	}
	for i := 0; i < m; i++ {
		vals = append(vals, c04RandString(rng, rng.intn(10)))
	}
	for _, s := range vals {
		if !xmlLegal(s) {
			continue
		}
		c.rep.Evaluations++
		ct, ca, err := etreeCanon(s, s)
		if err != nil {
			c.issue(Issue{Kind: "disagreement", What: "etree canonical form: " + err.Error(), Site: "lib c14n", Detail: map[string]interface{}{"value": s}})
			continue
		}
		tc, ac := "0", "0"
		if c14nTextClean(s) {
			tc = "1"
		}
		if c14nAttrClean(s) {
			ac = "1"
		}
		// signer: digest of `<m xmlns="urn:verif:marker" A="{attr verbatim}">{text verbatim}</m>`
		sg, err := signer.CreateSignature(&c04Marker{A: s, Text: s})
		if err != nil {
			c.issue(Issue{Kind: "disagreement", What: "xmlsig.CreateSignature: " + err.Error(), Site: "lib c14n"})
			continue
		}
		sum := sha256.Sum256([]byte(`<m xmlns="urn:verif:marker" A="` + s + `">` + s + `</m>`))
		if sg.SignedInfo.Reference.DigestValue != base64.StdEncoding.EncodeToString(sum[:]) {
			c.issue(Issue{Kind: "disagreement", What: "amdonov/xmlsig does not digest attribute value and text verbatim (model Lib.C14n.signerText/signerAttr)", Site: "lib c14n", Class: "signer-verbatim",
				Detail: map[string]interface{}{"value": s}})
		}
		s2 := s
		cb.add("lib c14n "+tokStr(s), strings.Join([]string{tokStr(ct), tokStr(ca), tokStr(s), tokStr(s), tc, ac}, " "), func() map[string]interface{} { return map[string]interface{}{"value": s2} })
	}
	cb.flush()
}

// ---- metadata

func c04Metadata(c *Ctx) {
	for _, alg := range []string{"", algRSASHA1, algRSASHA256} {
		for _, cl := range c04Classes {
			cf := defaultIdpCfg()
			cf.MetaSigAlg = alg
			cf.Org = &provider.Organisation{Name: "Org " + cl.val, DisplayName: cl.val, URL: "https://org.example.com/?q=" + cl.val}
			cf.Contact = &provider.ContactPerson{ContactType: "technical", Company: cl.val, GivenName: cl.val, SurName: "S", EmailAddress: "a@b.c", TelephoneNumber: cl.val}
			// the optional root / descriptor attributes of the metadata, varied along with the strings
			switch len(cl.label) % 4 {
			case 1:
				cf.MetaIDP = &provider.MetadataIDPConfig{CacheDuration: "PT5M"}
			case 2:
				cf.MetaIDP = &provider.MetadataIDPConfig{ValidUntil: 48 * time.Hour, ErrorURL: "https://idp.example.com/error"}
			case 3:
				cf.MetaIDP = &provider.MetadataIDPConfig{CacheDuration: "P1D", ValidUntil: time.Hour, ErrorURL: "https://idp.example.com/e?x=" + cl.label}
			}
			st := newStorage()
			prov, err := newProvider(st, cf)
			if err != nil {
				continue
			}
			c.rep.Evaluations++
			rep := serve(prov.HttpHandler(), HTTPReq{Method: "GET", Path: "/metadata"})
			detail := map[string]interface{}{"metadata_signature_algorithm": alg, "class": cl.label, "code": rep.Code}
			if rep.Code != 200 {
				c.issue(Issue{Kind: "violation", What: fmt.Sprintf("metadata endpoint answered HTTP %d", rep.Code), Site: "Provider.GetMetadata", Class: "metadata-not-served", Detail: detail})
				continue
			}
			d := parseMetadata(rep.Body)
			if d.Signed != (alg != "") {
				c.issue(Issue{Kind: "violation", What: "metadata signature presence differs from the configuration", Site: "Provider.GetMetadata", Class: "metadata-signed-iff", Detail: detail})
			}
			if alg == "" {
				c.hist("metadata", "unsigned")
				continue
			}
			c.nontrivial("md|" + alg + "|" + cl.label)
			// the certificate the IdP publishes: the metadata key is what signed metadata must verify under; the
			// KeyDescriptor / certificate endpoint publish the response-signing certificate (here the same key pair)
			crep := serve(prov.HttpHandler(), HTTPReq{Method: "GET", Path: "/certificate"})
			blk, _ := pem.Decode([]byte(crep.Body))
			if blk == nil || len(d.Certs) == 0 || base64.StdEncoding.EncodeToString(blk.Bytes) != strings.Join(strings.Fields(d.Certs[0]), "") {
				c.issue(Issue{Kind: "violation", What: "certificate endpoint and metadata KeyDescriptor publish different certificates", Site: "Provider.GetMetadata", Class: "published-certificate", Detail: detail})
				continue
			}
			pub, err := x509.ParseCertificate(blk.Bytes)
			if err != nil {
				c.issue(Issue{Kind: "violation", What: "published certificate does not parse: " + err.Error(), Site: "Provider.GetMetadata", Class: "published-certificate", Detail: detail})
				continue
			}
			checkEnveloped(c, []byte(rep.Body), "EntityDescriptor", pub, "Provider.GetMetadata", "metadata signature", detail)
		}
	}
}

func runC04(c *Ctx) {
	initKeys()
	c.rep.Rule = "every signed artefact the real endpoints emit, verified by implementations other than the signer's: login-callback replies over (13 fields that reach a signed artefact) x (18 character classes of the quantifier) x {POST, Redirect} x {rsa-sha1, rsa-sha256}, plus the label domain of the callback suite (stored binding, consumer URL incl. empty, key faults), attribute-query answers, signed metadata over organisation/contact strings x algorithms; the model's verifier / unescaper / canonical forms against net/url, the independent redirect verifier, etree's canonical writer and the digest xmlsig computes. Non-trivial = a Success response was emitted (or signed metadata served); distinct = (artefact, field, class, binding, algorithm)."
	marshalStability(c, "xml.Marshal")
	c04Lib(c)
	rv := &batch{c: c, site: "lib rverify"}
	// callback: field x class x binding x algorithm
	for _, binding := range []string{"post", "redirect"} {
		for _, alg := range []string{algRSASHA256, algRSASHA1} {
			for _, f := range c04Fields {
				for _, cl := range c04Classes {
					if !c.thorough() && alg == algRSASHA1 && cl.label != "all" && cl.label != "plain" && cl.label != "lead-trail-space" {
						continue // quick tier: the full class sweep runs with rsa-sha256 only
					}
					tc := c04BaseCase(binding, alg)
					tc.Field, tc.Class = f.name, cl.label
					f.set(tc, cl.val)
					r := runCbCustom(tc)
					c04CheckCallback(c, r, rv)
					if c.rep.Evaluations%97 == 1 {
						c.sample(map[string]interface{}{"field": f.name, "class": cl.label, "binding": binding, "alg": alg, "reply": r.Deliv.Kind})
					}
				}
			}
		}
	}
	// callback: the label domain (stored binding / consumer URL / key faults / algorithms), as in the other callback properties
	cbEnumerate(func(cs Case) {
		r := runCb(cs)
		if r.Rec == nil || r.Prov == nil {
			return
		}
		// stored bindings other than POST / Redirect are never persisted by the SSO endpoint (C08); out of the quantifier
		if cs["binding"] != "post" && cs["binding"] != "redirect" {
			return
		}
		c04CheckCallback(c, r, rv)
	})
	rv.flush()
	// attribute query answers
	aqEnumerate(func(cs Case) {
		r := runAq(cs)
		c.rep.Evaluations++
		if !r.answered() || r.Deliv.Msg == nil {
			return
		}
		c.nontrivial("aq|" + cs.key())
		if !r.Deliv.Msg.AssertSigned {
			c.issue(Issue{Kind: "violation", What: "attribute-query Success assertion is not signed", Site: "attributeQueryHandleFunc", Class: "unsigned-success:soap", Detail: r.detail()})
			return
		}
		checkEnveloped(c, r.Deliv.MsgBytes, "Assertion", idpCert(), "createPostSignature", "attribute-query assertion signature", r.detail())
	})
	c04Metadata(c)
}

func tlsCertOf(kp *KeyPair) tls.Certificate {
	return tls.Certificate{Certificate: [][]byte{kp.Cert}, PrivateKey: kp.Key}
}

// aqEnumerate: base case plus every single and pairwise sweep of the attribute-query label domain
func aqEnumerate(each func(Case)) {
	seen := map[string]bool{}
	one := func(cs Case) {
		if !seen[cs.key()] {
			seen[cs.key()] = true
			each(cs)
		}
	}
	b := aqBase()
	one(b)
	for i, d1 := range aqDims {
		for _, v1 := range d1.vals {
			c1 := b.with(d1.name, v1)
			one(c1)
			for _, d2 := range aqDims[i+1:] {
				for _, v2 := range d2.vals {
					one(c1.with(d2.name, v2))
				}
			}
		}
	}
}

func hexEscapeNonASCII(s string) string {
	var b strings.Builder
	for i := 0; i < len(s); i++ {
		if s[i] >= 0x80 {
			fmt.Fprintf(&b, "%%%02x", s[i])
		} else {
			b.WriteByte(s[i])
		}
	}
	return b.String()
}
