package main

// C18 — wire encoding round-trips and cannot be restructured by data.
//
//  (1) model vs implementation: `lib marshal` (Lean: schema read from the struct definitions + the hand model of
//      encoding/xml's struct marshaller and printer) against the bytes samlxml.Marshal produces for randomly filled
//      values of every wire root type;
//  (2) model vs a second implementation: `lib xmltok` (the reference XML tokenizer of the theorems, plus its
//      well-formedness verdict) against encoding/xml's decoder on every document, including the messages the real
//      handlers send;
//  (3) the property on the implementation: a generic parser accepts the document as one well-formed document, the
//      library's own decoding followed by re-encoding reproduces it, field values come back exactly for legal
//      characters, the element structure does not depend on the data; the codec round-trips and rejects unknown
//      encodings.

import (
	"bytes"
	"encoding/base64"
	"encoding/xml"
	"fmt"
	"io"
	"path/filepath"
	"reflect"
	"strings"
	"sync"
	"unicode/utf8"

	samlxml "github.com/zitadel/saml/pkg/provider/xml"
	"github.com/zitadel/saml/pkg/provider/xml/md"
	"github.com/zitadel/saml/pkg/provider/xml/saml"
	"github.com/zitadel/saml/pkg/provider/xml/samlp"
	"github.com/zitadel/saml/pkg/provider/xml/soap"
)

func init() { props["C18"] = runC18 }

// gvalTokens encodes a Go value the way the Lean driver's decGVal reads it.
func gvalTokens(v reflect.Value, out *[]string) {
	switch v.Kind() {
	case reflect.Ptr, reflect.Interface:
		if v.IsNil() {
			*out = append(*out, "n")
			return
		}
		gvalTokens(v.Elem(), out)
	case reflect.Struct:
		t := v.Type()
		var idx []int
		for i := 0; i < t.NumField(); i++ {
			f := t.Field(i)
			if (f.PkgPath != "" && !f.Anonymous) || f.Tag.Get("xml") == "-" {
				continue
			}
			idx = append(idx, i)
		}
		*out = append(*out, "r", fmt.Sprint(len(idx)))
		for _, i := range idx {
			gvalTokens(v.Field(i), out)
		}
	case reflect.String:
		*out = append(*out, "s", tokStr(v.String()))
	case reflect.Bool:
		*out = append(*out, "b", tokBool(v.Bool()))
	case reflect.Int, reflect.Int8, reflect.Int16, reflect.Int32, reflect.Int64:
		*out = append(*out, "i", fmt.Sprint(v.Int()))
	case reflect.Uint, reflect.Uint8, reflect.Uint16, reflect.Uint32, reflect.Uint64:
		*out = append(*out, "i", fmt.Sprint(v.Uint()))
	case reflect.Slice:
		*out = append(*out, "l", fmt.Sprint(v.Len()))
		for i := 0; i < v.Len(); i++ {
			gvalTokens(v.Index(i), out)
		}
	default:
		*out = append(*out, "?"+v.Kind().String())
	}
}

func typeKey(t reflect.Type) string { return filepath.Base(t.PkgPath()) + "." + t.Name() }

var c18Hostile = []string{
	"", "plain", "a&b", "<x>", "</StatusMessage><Status>", "]]>", "<![CDATA[x]]>", "\"q\" 'a'", "tab\there", "nl\nhere", "cr\rhere", "crlf\r\nx",
	" lead", "trail ", "  ", "é日本𝄞", "\x00nul", "\x01\x02ctl", "\x0b\x0c", "￾￿", "\xed\xa0\x80surrogate", "\xff\xfeinvalid", "\xc3", "a\xe2\x82", "&amp;", "&#60;", "&lt;script&gt;",
	"<!-- c -->", "<?pi?>", "  ", "�", "x" + strings.Repeat("&<>\"'", 20), "urn:oasis:names:tc:SAML:2.0:status:Success",
}

type c18Fill struct {
	rng       *Rng
	nStrings  int
	hostile   int
	illegal   bool
	legalOnly bool // this value is filled with legal XML characters only (exact round trip expected)
}

func (f *c18Fill) str() string {
	f.nStrings++
	if f.rng.chance(30) {
		return f.rng.pick([]string{"id-1", "2.0", "https://sp.example.com/acs", "alice", ""})
	}
	f.hostile++
	s := f.rng.pick(c18Hostile)
	if f.rng.chance(10) {
		var b strings.Builder
		for i := f.rng.intn(12); i > 0; i-- {
			if f.rng.chance(50) {
				b.WriteByte(byte(f.rng.intn(256)))
			} else {
				b.WriteString(f.rng.pick([]string{"<", ">", "&", "\"", "'", "]]>", "é", "\r", "\n", "\t", " ", "a", ";", "#", "x"}))
			}
		}
		s = b.String()
	}
	if f.legalOnly && !legalXML(s) {
		s = f.rng.pick([]string{"a&b<c>", "]]>", "\"q\" 'a'", "tab\there nl\nhere cr\rhere", " lead trail ", "é日本𝄞", "&amp;&#60;", "</StatusMessage><Status>"})
	}
	if !legalXML(s) {
		f.illegal = true
	}
	return s
}

func legalXML(s string) bool {
	for i := 0; i < len(s); {
		r, w := utf8.DecodeRuneInString(s[i:])
		if r == utf8.RuneError && w == 1 {
			return false
		}
		if !(r == 0x9 || r == 0xA || r == 0xD || r >= 0x20 && r <= 0xD7FF || r >= 0xE000 && r <= 0xFFFD || r >= 0x10000 && r <= 0x10FFFF) {
			return false
		}
		i += w
	}
	return true
}

func (f *c18Fill) fill(v reflect.Value, depth int) {
	switch v.Kind() {
	case reflect.Ptr:
		if depth > 5 || f.rng.chance(35) {
			return
		}
		v.Set(reflect.New(v.Type().Elem()))
		f.fill(v.Elem(), depth+1)
	case reflect.Struct:
		if v.Type() == reflect.TypeOf(xml.Name{}) {
			return
		}
		for i := 0; i < v.NumField(); i++ {
			sf := v.Type().Field(i)
			if sf.PkgPath != "" || (sf.Name == "InnerXml" && v.Type().Name() == "BaseIDAbstractType") {
				continue // the one verbatim field of the schema; the IdP never fills it
			}
			f.fill(v.Field(i), depth+1)
		}
	case reflect.String:
		v.SetString(f.str())
	case reflect.Bool:
		v.SetBool(f.rng.bool())
	case reflect.Int, reflect.Int64:
		v.SetInt(int64(f.rng.intn(5)) - 1)
	case reflect.Uint64:
		v.SetUint(uint64(f.rng.intn(3)))
	case reflect.Slice:
		if depth > 5 {
			return
		}
		n := f.rng.intn(3)
		s := reflect.MakeSlice(v.Type(), n, n)
		for i := 0; i < n; i++ {
			if s.Index(i).Kind() == reflect.Ptr {
				s.Index(i).Set(reflect.New(s.Index(i).Type().Elem()))
				f.fill(s.Index(i).Elem(), depth+1)
			} else {
				f.fill(s.Index(i), depth+1)
			}
		}
		v.Set(s)
	}
}

// xmlEvents is the token stream of encoding/xml's decoder in the Lean driver's notation.
func xmlEvents(doc []byte) (evs []string, wellFormed bool) {
	dec := xml.NewDecoder(bytes.NewReader(doc))
	depth, roots := 0, 0
	wellFormed = true
	var stack []string
	for {
		tok, err := dec.RawToken()
		if err == io.EOF {
			break
		}
		if err != nil {
			return append(evs, "err"), false
		}
		switch t := tok.(type) {
		case xml.ProcInst:
			evs = append(evs, "pi")
		case xml.StartElement:
			name := t.Name.Local
			if t.Name.Space != "" {
				name = t.Name.Space + ":" + name
			}
			evs = append(evs, "o:"+hx(name))
			for _, a := range t.Attr {
				an := a.Name.Local
				if a.Name.Space != "" {
					an = a.Name.Space + ":" + an
				}
				evs = append(evs, "a:"+hx(an)+":"+hx(a.Value))
			}
			evs = append(evs, "e")
			if depth == 0 {
				roots++
			}
			depth++
			stack = append(stack, name)
		case xml.EndElement:
			name := t.Name.Local
			if t.Name.Space != "" {
				name = t.Name.Space + ":" + name
			}
			evs = append(evs, "c:"+hx(name))
			if len(stack) == 0 || stack[len(stack)-1] != name {
				wellFormed = false
			} else {
				stack = stack[:len(stack)-1]
			}
			depth--
		case xml.CharData:
			for _, r := range string(t) {
				evs = append(evs, "t:"+hx(string(r)))
				if depth == 0 && !strings.ContainsRune(" \t\r\n", r) {
					wellFormed = false
				}
			}
		case xml.Comment, xml.Directive:
			evs = append(evs, "other")
		}
	}
	if depth != 0 || roots != 1 {
		wellFormed = false
	}
	return evs, wellFormed
}

// skeletonOf keeps names and nesting only.
func skeletonOf(evs []string) string {
	var out []string
	for _, e := range evs {
		switch {
		case strings.HasPrefix(e, "t:"), e == "pi":
		case strings.HasPrefix(e, "a:"):
			out = append(out, e[:strings.LastIndex(e, ":")])
		default:
			out = append(out, e)
		}
	}
	return strings.Join(out, " ")
}

// sanitizeXML is what the escaper lets through: illegal characters become U+FFFD.
func sanitizeXML(s string) string {
	var b strings.Builder
	for i := 0; i < len(s); {
		r, w := utf8.DecodeRuneInString(s[i:])
		if (r == utf8.RuneError && w == 1) || !(r == 0x9 || r == 0xA || r == 0xD || r >= 0x20 && r <= 0xD7FF || r >= 0xE000 && r <= 0xFFFD || r >= 0x10000 && r <= 0x10FFFF) {
			b.WriteRune(0xFFFD)
		} else {
			b.WriteRune(r)
		}
		i += w
	}
	return b.String()
}

// blankValue empties every string of a value (same shape, no data) unless emptying would change omission.
func collectStrings(v reflect.Value, out *[]string) {
	switch v.Kind() {
	case reflect.Ptr:
		if !v.IsNil() {
			collectStrings(v.Elem(), out)
		}
	case reflect.Struct:
		if v.Type() == reflect.TypeOf(xml.Name{}) {
			return
		}
		for i := 0; i < v.NumField(); i++ {
			if v.Type().Field(i).PkgPath == "" {
				collectStrings(v.Field(i), out)
			}
		}
	case reflect.String:
		if v.String() != "" {
			*out = append(*out, v.String())
		}
	case reflect.Slice:
		for i := 0; i < v.Len(); i++ {
			collectStrings(v.Index(i), out)
		}
	}
}

// valuesIn returns the multiset of non-empty attribute values and text runs of a document, as the generic parser sees them.
func valuesIn(doc []byte) map[string]int {
	out := map[string]int{}
	dec := xml.NewDecoder(bytes.NewReader(doc))
	var text strings.Builder
	flush := func() {
		if text.Len() > 0 {
			out[text.String()]++
			text.Reset()
		}
	}
	for {
		tok, err := dec.RawToken()
		if err != nil {
			break
		}
		switch t := tok.(type) {
		case xml.StartElement:
			flush()
			for _, a := range t.Attr {
				if a.Name.Local != "xmlns" && a.Value != "" {
					out[a.Value]++
				}
			}
		case xml.EndElement:
			flush()
		case xml.CharData:
			text.Write(t)
		}
	}
	return out
}

func runC18(c *Ctx) {
	c.rep.Rule = "randomly filled values of every wire root type (strings drawn from labelled hostile classes: XML metacharacters, CDATA terminators, control characters, surrogates, invalid UTF-8, legal Unicode, leading/trailing space; nil pointers and 0-2 element slices at random) marshalled by the library; documents sent by the real handlers; byte strings of 0 B .. 64 KiB (thorough: up to the decoder cap + 1) through the codec. Non-trivial = a value with at least one hostile string or a non-empty payload; distinct = distinct document / payload."
	marshalStability(c, "xml.Marshal")
	initKeys()
	roots := []func() interface{}{
		func() interface{} { return &samlp.ResponseType{} },
		func() interface{} { return &samlp.LogoutResponseType{} },
		func() interface{} { return &samlp.AuthnRequestType{} },
		func() interface{} { return &samlp.LogoutRequestType{} },
		func() interface{} { return &samlp.AttributeQueryType{} },
		func() interface{} { return &soap.ResponseEnvelope{} },
		func() interface{} { return &md.EntityDescriptorType{} },
		func() interface{} { return &saml.AssertionType{} },
		func() interface{} { return &samlp.ArtifactResponseType{} },
	}
	n := 40
	if c.thorough() {
		n = 600
	}
	marshalB := &batch{c: c, site: "lib marshal"}
	tokB := &batch{c: c, site: "lib xmltok"}
	checkDoc := func(doc []byte, origin string, detail map[string]interface{}) (evs []string) {
		evs, wf := xmlEvents(doc)
		if !wf {
			c.issue(Issue{Kind: "violation", What: "the emitted message is not a single well-formed XML document", Site: origin, Class: "not-wellformed", Detail: detail})
		}
		want := strings.Join(evs, " ")
		if wf {
			want += " WF"
		} else {
			want += " NOTWF"
		}
		if len(doc) < 200000 {
			tokB.add("lib xmltok "+tokBytes(doc), want, func() map[string]interface{} { return detail })
		}
		return evs
	}
	for ri, mk := range roots {
		for i := 0; i < n; i++ {
			f := &c18Fill{rng: c.rng.fork(), legalOnly: i%2 == 1}
			v := mk()
			f.fill(reflect.ValueOf(v).Elem(), 0)
			tname := typeKey(reflect.TypeOf(v).Elem())
			doc, err := samlxml.Marshal(v)
			c.rep.Evaluations++
			c.hist("root", tname)
			c.hist("has-illegal-chars", fmt.Sprint(f.illegal))
			if err != nil {
				c.hist("marshal-error", tname)
				continue
			}
			if f.hostile > 0 {
				c.nontrivial(string(doc))
			}
			detail := map[string]interface{}{"root": tname, "doc_prefix": string(doc[:min(len(doc), 400)]), "strings": f.nStrings, "hostile_strings": f.hostile}
			var toks []string
			gvalTokens(reflect.ValueOf(v), &toks)
			marshalB.add("lib marshal "+tname+" "+strings.Join(toks, " "), tokBytes(doc), func() map[string]interface{} { return detail })
			evs := checkDoc(doc, "samlxml.Marshal("+tname+")", detail)
			// the library's own decoding gives back what was put in: re-encoding the decoded value reproduces the document
			back := mk()
			if err := xml.Unmarshal(doc, back); err != nil {
				c.issue(Issue{Kind: "violation", What: "the library's decoder rejects what its encoder produced: " + err.Error(), Site: "samlxml.Marshal(" + tname + ")", Class: "decode-error", Detail: detail})
			} else if doc2, err := samlxml.Marshal(back); err != nil || !bytes.Equal(doc, doc2) {
				c.hist("reencode-differs", tname)
				// struct decoding is not injective on these types (`,any` fields, XMLName capture); compare the values a generic parser sees instead
				if !reflect.DeepEqual(valuesIn(doc), valuesIn(doc2)) {
					c.issue(Issue{Kind: "violation", What: "decoding with the library's types and re-encoding changes the values of the message", Site: "samlxml.Marshal(" + tname + ")", Class: "reencode-values", Detail: detail})
				}
			}
			// every non-empty string put in comes out, sanitised, as an attribute value or a text run
			var strs []string
			collectStrings(reflect.ValueOf(v), &strs)
			got := valuesIn(doc)
			want := map[string]int{}
			for _, s := range strs {
				want[sanitizeXML(s)]++
			}
			if f.legalOnly && f.illegal {
				panic("generator: illegal character in a legal-only value")
			}
			for s, k := range want {
				if got[s] < k {
					d2 := map[string]interface{}{"root": tname, "value_hex": hx(s), "expected_occurrences": k, "found": got[s]}
					c.issue(Issue{Kind: "violation", What: "a field value does not come back from the document as it was put in", Site: "samlxml.Marshal(" + tname + ")", Class: "value-lost", Detail: d2})
					break
				}
			}
			// structure does not depend on data: the same value with every non-empty string replaced by "x" has the same skeleton
			if i%4 == 0 {
				v2 := mk()
				f2 := &c18Fill{rng: newRng(1)}
				_ = f2
				copyShape(reflect.ValueOf(v).Elem(), reflect.ValueOf(v2).Elem())
				if doc2, err := samlxml.Marshal(v2); err == nil {
					evs2, _ := xmlEvents(doc2)
					if skeletonOf(evs) != skeletonOf(evs2) {
						c.issue(Issue{Kind: "violation", What: "the element structure of the message depends on the data in it", Site: "samlxml.Marshal(" + tname + ")", Class: "structure-depends-on-data", Detail: detail})
					}
				}
			}
			if (i+ri)%13 == 0 {
				c.sample(map[string]interface{}{"root": tname, "bytes": len(doc), "strings": f.nStrings, "hostile": f.hostile, "illegal_chars": f.illegal})
			}
		}
	}
	// documents the real handlers send
	for _, user := range []string{"full", "hostile", "custom"} {
		for _, binding := range []string{"post", "redirect"} {
			r := runCb(cbBase().with("user", user, "binding", binding, "relay", "meta", "reqid", "meta"))
			if len(r.Deliv.MsgBytes) > 0 {
				c.rep.Evaluations++
				c.hist("handler-doc", "callback")
				c.nontrivial(string(r.Deliv.MsgBytes))
				checkDoc(r.Deliv.MsgBytes, "callbackHandleFunc", r.detail())
			}
		}
		a := runAq(aqBase().with("user", user))
		if len(a.Deliv.MsgBytes) > 0 {
			c.rep.Evaluations++
			c.hist("handler-doc", "attribute-query")
			checkDoc(a.Deliv.MsgBytes, "attributeQueryHandleFunc", map[string]interface{}{"user": user})
		}
	}
	for _, relay := range []string{"rs-1", "meta"} {
		s := runSlo(sloBase().with("relay", relay))
		if len(s.Deliv.MsgBytes) > 0 {
			c.rep.Evaluations++
			c.hist("handler-doc", "logout")
			checkDoc(s.Deliv.MsgBytes, "logoutHandleFunc", s.detail())
		}
	}
	{
		st := newStorage()
		_ = st.Register(SPSpec{EntityID: spEntity, AppID: "app-1", ReqSigned: "-", Certs: []string{spKeys.B64}, Acs: acsFor("post")})
		if prov, err := newProvider(st, defaultIdpCfg()); err == nil {
			rep := serve(prov.HttpHandler(), HTTPReq{Method: "GET", Path: "/metadata"})
			c.rep.Evaluations++
			c.hist("handler-doc", "metadata")
			checkDoc([]byte(rep.Body), "metadataHandleFunc", map[string]interface{}{"code": rep.Code})
		}
	}
	marshalB.flush()
	tokB.flush()
	c18Codec(c)
}

// copyShape copies nil-ness, slice lengths, numbers and booleans, and writes "x" wherever src has a non-empty string.
func copyShape(src, dst reflect.Value) {
	switch src.Kind() {
	case reflect.Ptr:
		if src.IsNil() {
			return
		}
		dst.Set(reflect.New(src.Type().Elem()))
		copyShape(src.Elem(), dst.Elem())
	case reflect.Struct:
		if src.Type() == reflect.TypeOf(xml.Name{}) {
			dst.Set(src)
			return
		}
		for i := 0; i < src.NumField(); i++ {
			if src.Type().Field(i).PkgPath == "" {
				copyShape(src.Field(i), dst.Field(i))
			}
		}
	case reflect.String:
		if src.String() != "" {
			dst.SetString("x")
		}
	case reflect.Slice:
		if src.IsNil() {
			return
		}
		s := reflect.MakeSlice(src.Type(), src.Len(), src.Len())
		for i := 0; i < src.Len(); i++ {
			copyShape(src.Index(i), s.Index(i))
		}
		dst.Set(s)
	default:
		dst.Set(src)
	}
}

func c18Codec(c *Ctx) {
	b := &batch{c: c, site: "lib b64enc"}
	sizes := []int{0, 1, 2, 3, 4, 5, 57, 58, 255, 256, 1000, 4096, 65536}
	if c.thorough() {
		sizes = append(sizes, 1<<20, samlxml.MaxInflatedSize-1, samlxml.MaxInflatedSize, samlxml.MaxInflatedSize+1)
	}
	rng := c.rng.fork()
	for _, n := range sizes {
		for k := 0; k < 3; k++ {
			data := make([]byte, n)
			switch k {
			case 0:
				for i := range data {
					data[i] = byte(rng.intn(256))
				}
			case 1:
				copy(data, bytes.Repeat([]byte("<saml:Attribute Name=\"a\">v</saml:Attribute>"), n/40+1))
			case 2: // all zero
			}
			c.rep.Evaluations++
			c.hist("codec-size", fmt.Sprint(n))
			if n > 0 {
				c.nontrivial(fmt.Sprintf("codec/%d/%d", n, k))
			}
			enc, err := samlxml.DeflateAndBase64(data)
			detail := map[string]interface{}{"size": n, "kind": k}
			if err != nil {
				c.issue(Issue{Kind: "violation", What: "DeflateAndBase64 failed: " + err.Error(), Site: "xml.DeflateAndBase64", Class: "encode-error", Detail: detail})
				continue
			}
			// the assumption of the codec theorem: compress/flate inflates its own output to the input
			raw, derr := base64.StdEncoding.DecodeString(string(enc))
			if derr != nil {
				c.issue(Issue{Kind: "violation", What: "DeflateAndBase64 output is not base64", Site: "xml.DeflateAndBase64", Class: "not-base64", Detail: detail})
				continue
			}
			if infl, failed := realInflate(raw, n+16); failed || !bytes.Equal(infl, data) {
				c.issue(Issue{Kind: "disagreement", What: "compress/flate does not inflate its own output to the input (hypothesis of C18_codec_roundtrip)", Site: "compress/flate", Detail: detail})
			}
			if n <= 65536 {
				b.add("lib b64enc "+tokBytes(raw), tokStr(string(enc)), func() map[string]interface{} { return detail })
			}
			got, err := samlxml.InflateAndDecode(samlxml.EncodingDeflate, true, string(enc))
			if n <= samlxml.MaxInflatedSize {
				if err != nil || !bytes.Equal(got, data) {
					c.issue(Issue{Kind: "violation", What: fmt.Sprintf("DEFLATE+base64 followed by the decoder does not return the original %d bytes (err=%v)", n, err), Site: "xml.InflateAndDecode", Class: "codec-roundtrip", Detail: detail})
				}
			} else if err == nil {
				c.issue(Issue{Kind: "violation", What: "a message beyond the size limit was returned (truncated or whole) instead of an error", Site: "xml.InflateAndDecode", Class: "codec-oversize", Detail: detail})
			}
			for _, bad := range []string{"urn:example:unknown", "deflate", samlxml.EncodingDeflate + " ", strings.ToLower(samlxml.EncodingDeflate)} {
				if out, err := samlxml.InflateAndDecode(bad, true, string(enc)); err == nil {
					d2 := map[string]interface{}{"encoding": bad, "size": n, "returned_bytes": len(out)}
					c.issue(Issue{Kind: "violation", What: "an unrecognised encoding identifier was accepted", Site: "xml.InflateAndDecode", Class: "unknown-encoding-accepted", Detail: d2})
				}
			}
		}
	}
	// the same as a batch: encode several messages first, keep the results, then decode them all - every result must
	// still decode to its own message (a result that aliases memory of a later call would not), also concurrently
	for round := 0; round < 3; round++ {
		var msgs, encs [][]byte
		for i := 0; i < 12; i++ {
			m := []byte(fmt.Sprintf("<m round=\"%d\" n=\"%02d\">%s</m>", round, i, strings.Repeat(string(rune('a'+i)), 40+round)))
			msgs = append(msgs, m)
		}
		if round == 2 {
			var wg sync.WaitGroup
			encs = make([][]byte, len(msgs))
			for i := range msgs {
				wg.Add(1)
				go func(i int) { defer wg.Done(); encs[i], _ = samlxml.DeflateAndBase64(msgs[i]) }(i)
			}
			wg.Wait()
		} else {
			for _, m := range msgs {
				e, _ := samlxml.DeflateAndBase64(m)
				encs = append(encs, e)
			}
		}
		for i, e := range encs {
			c.rep.Evaluations++
			got, err := samlxml.InflateAndDecode(samlxml.EncodingDeflate, true, string(e))
			if err != nil || !bytes.Equal(got, msgs[i]) {
				c.issue(Issue{Kind: "violation", What: fmt.Sprintf("a DeflateAndBase64 result kept while %d further messages were encoded no longer decodes to its own message (err=%v)", len(encs)-i-1, err),
					Site: "xml.DeflateAndBase64", Class: "codec-roundtrip-batch", Detail: map[string]interface{}{"round": round, "index": i, "expected": string(msgs[i]), "decoded": string(got)}})
				break
			}
		}
	}
	b.flush()
}
