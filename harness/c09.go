package main

// C09 — no input crashes a handler or the SP-registration API.

import (
	"fmt"
	"net/url"
	"strings"
	"time"

	"github.com/beevik/etree"

	"github.com/zitadel/saml/pkg/provider/serviceprovider"
	samlxml "github.com/zitadel/saml/pkg/provider/xml"
)

func init() { props["C09"] = runC09 }

type editSite struct {
	path string // element path (index based)
	attr string // "" = the element itself
	op   string // delete | duplicate | empty
}

func elemPath(e *etree.Element) string {
	var parts []string
	for cur := e; cur != nil && cur.Parent() != nil; cur = cur.Parent() {
		idx := 0
		for i, sib := range cur.Parent().ChildElements() {
			if sib == cur {
				idx = i
			}
		}
		parts = append([]string{fmt.Sprintf("%s[%d]", cur.Tag, idx)}, parts...)
	}
	return strings.Join(parts, "/")
}

func listSites(doc string) []editSite {
	d := etree.NewDocument()
	if err := d.ReadFromString(doc); err != nil {
		panic(err)
	}
	var out []editSite
	var walk func(e *etree.Element)
	walk = func(e *etree.Element) {
		p := elemPath(e)
		if e.Parent() != nil && e.Parent().Parent() != nil || true {
			for _, op := range []string{"delete", "duplicate", "empty"} {
				if e == d.Root() && op != "empty" {
					continue
				}
				out = append(out, editSite{p, "", op})
			}
		}
		for _, a := range e.Attr {
			if a.Space == "xmlns" || a.Key == "xmlns" {
				continue
			}
			out = append(out, editSite{p, a.FullKey(), "delete"}, editSite{p, a.FullKey(), "empty"})
		}
		for _, ch := range e.ChildElements() {
			walk(ch)
		}
	}
	walk(d.Root())
	return out
}

func findByPath(d *etree.Document, path string) *etree.Element {
	cur := d.Root()
	parts := strings.Split(path, "/")
	for _, p := range parts[1:] {
		var idx int
		name := p[:strings.Index(p, "[")]
		fmt.Sscanf(p[strings.Index(p, "["):], "[%d]", &idx)
		kids := cur.ChildElements()
		if idx >= len(kids) || kids[idx].Tag != name {
			return nil
		}
		cur = kids[idx]
	}
	return cur
}

// applyEdits applies the sites in reverse document order so that earlier paths stay valid; returns "" if a site vanished.
func applyEdits(doc string, sites []editSite) string {
	d := etree.NewDocument()
	if err := d.ReadFromString(doc); err != nil {
		return ""
	}
	for i := len(sites) - 1; i >= 0; i-- {
		s := sites[i]
		e := findByPath(d, s.path)
		if e == nil {
			return ""
		}
		if s.attr != "" {
			switch s.op {
			case "delete":
				e.RemoveAttr(s.attr)
			case "empty":
				if a := e.SelectAttr(s.attr); a != nil {
					a.Value = ""
				}
			}
			continue
		}
		switch s.op {
		case "delete":
			if e.Parent() != nil {
				e.Parent().RemoveChild(e)
			}
		case "duplicate":
			if e.Parent() != nil {
				e.Parent().InsertChildAt(e.Index()+1, e.Copy())
			}
		case "empty":
			for _, ch := range e.Child {
				e.RemoveChild(ch)
			}
			e.SetText("")
		}
	}
	s, err := d.WriteToString()
	if err != nil {
		return ""
	}
	return s
}

type c09Target struct {
	name string
	doc  string
	send func(doc string) (panicked bool, msg string)
}

func c09Targets() []c09Target {
	initKeys()
	now := time.Now()
	ts := now.UTC().Format("2006-01-02T15:04:05Z")
	fullAuthn := fmt.Sprintf(`<samlp:AuthnRequest xmlns:samlp="%s" xmlns:saml="%s" ID="id-4711" Version="2.0" IssueInstant="%s" Destination="%s" ProtocolBinding="urn:oasis:names:tc:SAML:2.0:bindings:HTTP-POST" AssertionConsumerServiceURL="https://sp.example.com/acs/post" ForceAuthn="false" IsPassive="false" ProviderName="sp"><saml:Issuer Format="urn:oasis:names:tc:SAML:2.0:nameid-format:entity">%s</saml:Issuer><samlp:Extensions/><saml:Subject><saml:NameID>alice</saml:NameID><saml:SubjectConfirmation Method="urn:oasis:names:tc:SAML:2.0:cm:bearer"><saml:SubjectConfirmationData/></saml:SubjectConfirmation></saml:Subject><samlp:NameIDPolicy Format="urn:oasis:names:tc:SAML:1.1:nameid-format:emailAddress" AllowCreate="true"/><saml:Conditions NotBefore="%s" NotOnOrAfter="%s"><saml:AudienceRestriction><saml:Audience>x</saml:Audience></saml:AudienceRestriction></saml:Conditions><samlp:RequestedAuthnContext Comparison="exact"><saml:AuthnContextClassRef>urn:oasis:names:tc:SAML:2.0:ac:classes:PasswordProtectedTransport</saml:AuthnContextClassRef></samlp:RequestedAuthnContext><samlp:Scoping ProxyCount="1"><samlp:IDPList><samlp:IDPEntry ProviderID="p"/></samlp:IDPList></samlp:Scoping></samlp:AuthnRequest>`,
		nsProtocol, nsAssertion, ts, ssoLocation, spEntity, now.Add(-time.Minute).UTC().Format("2006-01-02T15:04:05Z"), now.Add(time.Hour).UTC().Format("2006-01-02T15:04:05Z"))
	signedAuthn, err := signEnveloped(fullAuthn, spKeys, algRSASHA256, true, "")
	if err != nil {
		panic(err)
	}
	signedAuthn = strings.TrimPrefix(signedAuthn, `<?xml version="1.0" encoding="UTF-8"?>`)
	logout := fmt.Sprintf(`<samlp:LogoutRequest xmlns:samlp="%s" xmlns:saml="%s" ID="lr-1" Version="2.0" IssueInstant="%s" NotOnOrAfter="%s" Destination="https://idp.example.com/saml/SLO" Reason="urn:oasis:names:tc:SAML:2.0:logout:user"><saml:Issuer>%s</saml:Issuer><saml:NameID Format="urn:oasis:names:tc:SAML:1.1:nameid-format:emailAddress">alice</saml:NameID><samlp:SessionIndex>_s1</samlp:SessionIndex></samlp:LogoutRequest>`,
		nsProtocol, nsAssertion, now.Add(-time.Minute).UTC().Format("2006-01-02T15:04:05Z"), now.Add(time.Hour).UTC().Format("2006-01-02T15:04:05Z"), spEntity)
	aqInner := fmt.Sprintf(`<samlp:AttributeQuery xmlns:samlp="%s" xmlns:saml="%s" ID="aq-1" Version="2.0" IssueInstant="%s" Destination="%s"><saml:Issuer>%s</saml:Issuer><saml:Subject><saml:NameID>alice</saml:NameID></saml:Subject><saml:Attribute Name="Email" NameFormat="%s"><saml:AttributeValue>x</saml:AttributeValue></saml:Attribute></samlp:AttributeQuery>`,
		nsProtocol, nsAssertion, ts, attrServiceLocation, spEntity, basicFmt)
	aqSigned, err := signEnveloped(aqInner, spKeys, algRSASHA256, true, "")
	if err != nil {
		panic(err)
	}
	aqSigned = strings.TrimPrefix(aqSigned, `<?xml version="1.0" encoding="UTF-8"?>`)
	soap := `<soap:Envelope xmlns:soap="http://schemas.xmlsoap.org/soap/envelope/"><soap:Header/><soap:Body>` + aqSigned + `</soap:Body></soap:Envelope>`
	spMeta := string(SPSpec{EntityID: spEntity, AppID: "app", ReqSigned: "true", Certs: []string{spKeys.B64}, Acs: acsFor("post+redirect"), Slo: []string{"https://sp.example.com/slo"}}.MetadataXML())
	spMeta = strings.Replace(spMeta, `</md:SPSSODescriptor>`, `<md:NameIDFormat>urn:x</md:NameIDFormat><md:AttributeConsumingService index="1"><md:ServiceName xml:lang="en">s</md:ServiceName><md:RequestedAttribute Name="a"/></md:AttributeConsumingService></md:SPSSODescriptor><md:Organization><md:OrganizationName xml:lang="en">o</md:OrganizationName></md:Organization><md:ContactPerson contactType="technical"><md:EmailAddress>a@b</md:EmailAddress></md:ContactPerson>`, 1)
	spMeta = strings.TrimPrefix(spMeta, `<?xml version="1.0"?>`)

	mk := func() *Storage {
		st := newStorage()
		_ = st.Register(SPSpec{EntityID: spEntity, AppID: "app-1", ReqSigned: "-", Certs: []string{spKeys.B64}, Acs: acsFor("post+redirect"), Slo: []string{"https://sp.example.com/slo"}})
		st.Users["alice"] = usersFor("full")
		return st
	}
	sendHTTP := func(build func(doc string) HTTPReq) func(string) (bool, string) {
		return func(doc string) (bool, string) {
			st := mk()
			prov, err := newProvider(st, defaultIdpCfg())
			if err != nil {
				panic(err)
			}
			rep := serve(prov.HttpHandler(), build(doc))
			return rep.Panicked, rep.PanicMsg
		}
	}
	return []c09Target{
		{"sso-redirect", fullAuthn, sendHTTP(func(doc string) HTTPReq {
			return HTTPReq{Method: "GET", Path: "/SSO", Query: url.Values{"SAMLRequest": {deflateB64(doc)}, "RelayState": {"r"}}.Encode()}
		})},
		{"sso-post-signed", signedAuthn, sendHTTP(func(doc string) HTTPReq {
			return HTTPReq{Method: "POST", Path: "/SSO", Body: url.Values{"SAMLRequest": {plainB64(doc)}, "RelayState": {"r"}}.Encode(), CType: "application/x-www-form-urlencoded"}
		})},
		{"logout", logout, sendHTTP(func(doc string) HTTPReq {
			return HTTPReq{Method: "POST", Path: "/SLO", Body: url.Values{"SAMLRequest": {plainB64(doc)}}.Encode(), CType: "application/x-www-form-urlencoded"}
		})},
		{"logout-redirect", logout, sendHTTP(func(doc string) HTTPReq {
			return HTTPReq{Method: "GET", Path: "/SLO", Query: url.Values{"SAMLRequest": {deflateB64(doc)}, "SAMLEncoding": {samlxml.EncodingDeflate}}.Encode()}
		})},
		{"attribute-query", soap, sendHTTP(func(doc string) HTTPReq {
			return HTTPReq{Method: "POST", Path: "/attribute", Body: doc, CType: "text/xml"}
		})},
		{"sp-metadata", spMeta, func(doc string) (panicked bool, msg string) {
			defer func() {
				if x := recover(); x != nil {
					panicked, msg = true, fmt.Sprint(x)
				}
			}()
			sp, err := serviceprovider.NewServiceProvider("app", &serviceprovider.Config{Metadata: []byte(doc)}, loginURL)
			if err == nil && sp != nil {
				// exercise the registered object the way the handlers do
				_ = sp.GetEntityID()
				_ = sp.ValidateRedirectSignature("req", "relay", algRSASHA256, "AAAA")
				_ = sp.ValidatePostSignature("<a/>")
			}
			return false, ""
		}},
	}
}

func runC09(c *Ctx) {
	c.rep.Rule = "(1) exhaustive single and pairwise structural edits (delete / duplicate / empty every element; delete / empty every attribute) of a complete valid AuthnRequest (Redirect, and signed POST), LogoutRequest (POST and Redirect), signed AttributeQuery in a SOAP envelope, and SP metadata (through NewServiceProvider and the methods the handlers call on it); (2) byte-level mutations of the same documents and of the transport encoding; (3) the label-driven SSO, callback, logout and attribute-query domains (every SigAlg URI x registered key type included). recover() around ServeHTTP / NewServiceProvider. Non-trivial = the edited document is still well-formed XML; distinct = (target, edit set)."
	seen := map[string]bool{}
	report := func(target string, sites []editSite, doc, msg string) {
		first := strings.SplitN(msg, "\n", 2)[0]
		cls := target + ":" + panicSite(msg)
		if len(sites) > 0 {
			cls += ":" + sites[0].path + sites[0].attr + "/" + sites[0].op
		}
		if seen[target+panicSite(msg)] {
			return
		}
		seen[target+panicSite(msg)] = true
		c.issue(Issue{Kind: "violation", What: "panic: " + first, Site: target, Class: cls, Detail: map[string]interface{}{"edits": sites, "document": doc}})
	}
	for _, t := range c09Targets() {
		sites := listSites(t.doc)
		c.hist("edit-sites", fmt.Sprintf("%s=%d", t.name, len(sites)))
		run := func(ss []editSite) {
			doc := applyEdits(t.doc, ss)
			if doc == "" {
				return
			}
			c.rep.Evaluations++
			c.nontrivial(fmt.Sprintf("%s|%v", t.name, ss))
			p, msg := t.send(doc)
			if p {
				report(t.name, ss, doc, msg)
			}
			if c.rep.Evaluations%2111 == 1 {
				c.sample(map[string]interface{}{"target": t.name, "edits": ss})
			}
		}
		run(nil)
		for _, s := range sites {
			run([]editSite{s})
		}
		for i, s1 := range sites {
			for _, s2 := range sites[i+1:] {
				if !c.thorough() && (i+len(s2.path))%3 != 0 && len(sites) > 60 {
					continue // quick tier: a third of the pairs for the largest documents
				}
				run([]editSite{s1, s2})
			}
		}
		// byte-level mutations
		n := 300
		if c.thorough() {
			n = 20000
		}
		for i := 0; i < n; i++ {
			b := []byte(t.doc)
			for e := 0; e < 1+c.rng.intn(4); e++ {
				pos := c.rng.intn(len(b))
				switch c.rng.intn(4) {
				case 0:
					b[pos] = byte(c.rng.intn(256))
				case 1:
					b = append(b[:pos], b[pos+1:]...)
				case 2:
					ins := []byte("<>&\"'/= \x00")
					b = append(b[:pos], append([]byte{ins[c.rng.intn(len(ins))]}, b[pos:]...)...)
				case 3:
					b = b[:pos]
				}
				if len(b) == 0 {
					b = []byte("<")
				}
			}
			c.rep.Evaluations++
			p, msg := t.send(string(b))
			if p {
				report(t.name, []editSite{{"<byte mutation>", "", ""}}, string(b), msg)
			}
		}
	}
	// registered certificates of non-RSA type / garbled
	for _, cert := range []string{ecCertB64, "AAAA", "", spKeys.B64[:100], "-----BEGIN CERTIFICATE-----" + spKeys.B64 + "-----END CERTIFICATE-----",
		" ", "\n      \n", "-----BEGIN CERTIFICATE-----\n-----END CERTIFICATE-----", "\t", spKeys.B64 + "\n" + spKeys.B64} {
		func() {
			c.rep.Evaluations++
			defer func() {
				if x := recover(); x != nil {
					report("sp-metadata-cert", nil, cert[:min(40, len(cert))], fmt.Sprint(x))
				}
			}()
			st := newStorage()
			if err := st.Register(SPSpec{EntityID: spEntity, AppID: "a", ReqSigned: "true", Certs: []string{cert}, Acs: acsFor("post")}); err != nil && strings.Contains(err.Error(), "PANIC") {
				report("sp-metadata-cert", nil, cert[:min(40, len(cert))], err.Error())
			}
		}()
	}
	// the label-driven domains (complete single sweeps + random), panic monitors only
	one := func(cs Case) {
		r := runSso(cs)
		c.rep.Evaluations++
		monC09sso(c, r)
	}
	ssoEnumerate(c.thorough(), one)
	ssoRandom(c.rng, 1500, one)
	for _, b := range []Case{cbBase(), cbBase().with("binding", "redirect")} {
		for _, d := range cbDims {
			for _, v := range d.vals {
				r := runCb(b.with(d.name, v))
				c.rep.Evaluations++
				if r.Reply.Panicked {
					report("callback", nil, fmt.Sprint(r.Case.diffOf(cbDims)), r.Reply.PanicMsg)
				}
			}
		}
	}
	for _, d := range sloDims {
		for _, v := range d.vals {
			r := runSlo(sloBase().with(d.name, v))
			c.rep.Evaluations++
			monC09slo(c, r)
		}
	}
	for _, d := range aqDims {
		for _, v := range d.vals {
			r := runAq(aqBase().with(d.name, v))
			c.rep.Evaluations++
			monC09aq(c, r)
		}
	}
}
