package main

// Login-callback case domain and monitors (C01, C02 callback slice, C03, C04).

import (
	"crypto"
	"crypto/rsa"
	"crypto/sha1"
	"crypto/sha256"
	"crypto/x509"
	"encoding/base64"
	"fmt"
	"net/url"
	"regexp"
	"sort"
	"strings"
	"time"

	"github.com/beevik/etree"
	dsig "github.com/russellhaering/goxmldsig"

	"github.com/zitadel/saml/pkg/provider"
)

var cbDims = []dim{
	{"idplace", []string{"query", "absent", "empty", "body", "both"}},
	{"record", []string{"done", "pending", "absent"}},
	{"binding", []string{"post", "redirect", "artifact", "empty"}},
	{"acs", []string{"plain", "with-query", "empty", "special", "with-fragment", "upper-scheme", "non-ascii", "empty-fragment", "unparsable"}},
	{"relay", []string{"rs-1", "", "meta", "long"}},
	{"reqid", []string{"plain", "meta", "empty"}},
	{"user", []string{"full", "minimal", "custom", "hostile", "missing"}},
	{"entity", []string{"ok", "fail"}},
	{"userinfo", []string{"ok", "fail"}},
	{"respkey", []string{"ok", "fail", "nil", "nokey", "nocert", "emptycert", "mismatch"}},
	{"sigalg", []string{"rsa-sha256", "rsa-sha1", "invalid"}},
	{"lookup", []string{"ok", "fail"}},
	{"timeformat", []string{"default", "rfc3339", "fixed-frac", "numeric-zone"}},
}

const metaString = "a&b<c>\"d'e é=%2B+ z"
const hostileString = "x&y<z>\"q'\ttab\nnl\rcr]]>end "

func cbBase() Case {
	c := Case{}
	for _, d := range cbDims {
		c[d.name] = d.vals[0]
	}
	return c
}

func (c Case) diffOf(dims []dim) map[string]string {
	d := map[string]string{}
	for _, dm := range dims {
		if c[dm.name] != dm.vals[0] {
			d[dm.name] = c[dm.name]
		}
	}
	return d
}

func usersFor(label string) *User {
	switch label {
	case "full":
		return &User{Email: "alice@example.com", FullName: "Alice A. Example", GivenName: "Alice", Surname: "Example", UserID: "uid-1", Username: "alice"}
	case "minimal":
		return &User{UserID: "uid-1", Username: "alice"}
	case "custom":
		return &User{Email: "alice@example.com", UserID: "uid-1", Username: "alice", Custom: []CustomAttr{
			{Name: "groups", Friendly: "Groups", Format: "urn:oasis:names:tc:SAML:2.0:attrname-format:basic", Values: []string{"admin", "dev", "admin"}},
			{Name: "empty", Friendly: "", Format: "urn:example:fmt", Values: nil},
			{Name: "urn:oid:1.2.3", Friendly: "oid", Format: "urn:oasis:names:tc:SAML:2.0:attrname-format:uri", Values: []string{"v 1", ""}}}}
	case "hostile":
		return &User{Email: hostileString, FullName: " lead and trail ", GivenName: "日本語𝄞", Surname: metaString, UserID: "uid-1", Username: "al&<ice>",
			Custom: []CustomAttr{{Name: "n&<\"", Friendly: "f<", Format: "fmt\"&", Values: []string{hostileString, metaString}}}}
	}
	return nil
}

// cbTimeLayout: the layouts an integrator may configure with WithCustomTimeFormat ("" = the library's default)
func cbTimeLayout(label string) string {
	switch label {
	case "rfc3339":
		return time.RFC3339
	case "fixed-frac":
		return "2006-01-02T15:04:05.000Z"
	case "numeric-zone":
		return "2006-01-02T15:04:05.000000-07:00"
	}
	return ""
}

type CbRun struct {
	Case    Case
	Req     HTTPReq
	Rec     *AuthReq
	User    *User
	Reply   Reply
	Deliv   Delivered
	Calls   []StorageCall
	Storage *Storage
	Prov    *provider.Provider
	Before  time.Time
	After   time.Time
	Entity  string
	Err     string
}

func runCb(c Case) *CbRun {
	initKeys()
	r := &CbRun{Case: c}
	st := newStorage()
	r.Storage = st
	_ = st.Register(SPSpec{EntityID: spEntity, AppID: "app-1", ReqSigned: "-", Certs: []string{spKeys.B64}, Acs: acsFor("post+redirect")})
	r.Entity = spEntity
	rec := &AuthReq{ID: "ar-7", AppID: "app-1", UserID: "uid-1", ReqID: "id-4711", Issuer: spEntity}
	switch c["binding"] {
	case "post":
		rec.Binding = provider.PostBinding
	case "redirect":
		rec.Binding = provider.RedirectBinding
	case "artifact":
		rec.Binding = artifactBind
	}
	switch c["acs"] {
	case "plain":
		rec.Acs = "https://sp.example.com/acs/post"
	case "with-query":
		rec.Acs = "https://sp.example.com/acs?tenant=42"
	case "special":
		rec.Acs = "https://sp.example.com/acs/%C3%A9path/it's;v=1,2"
	case "with-fragment":
		rec.Acs = "https://sp.example.com/acs?tenant=42#top"
	case "upper-scheme":
		rec.Acs = "HTTPS://sp.example.com/acs/post"
	case "non-ascii":
		rec.Acs = "https://sp.example.com/acs/é path/<x>"
	case "empty-fragment":
		rec.Acs = "https://sp.example.com/acs/post#"
	case "unparsable":
		rec.Acs = "127.0.0.1:8443/saml/acs" // net/url refuses it ("first path segment in URL cannot contain colon")
	}
	switch c["relay"] {
	case "rs-1":
		rec.Relay = "rs-1"
	case "meta":
		rec.Relay = metaString
	case "long":
		rec.Relay = "rs-long-" + strings.Repeat("0123456789abcdef", 440) // ~7 kB: the redirect Location exceeds 8000 bytes
	}
	if c["reqid"] == "meta" {
		rec.ReqID = "id&<\"'> 1"
	}
	if c["reqid"] == "empty" {
		rec.ReqID = "" // a record that does not stem from an AuthnRequest with an ID
	}
	rec.IsDone = c["record"] == "done"
	if c["record"] != "absent" {
		st.Reqs[rec.ID] = rec
		r.Rec = rec
	}
	if u := usersFor(c["user"]); u != nil {
		st.Users["uid-1"] = u
		r.User = u
	}
	if c["entity"] == "fail" {
		st.Fail("GetEntityIDByAppID", 1)
	}
	if c["userinfo"] == "fail" {
		st.Fail("SetUserinfoWithUserID", 1)
	}
	if c["lookup"] == "fail" {
		st.Fail("AuthRequestByID", 1)
	}
	switch c["respkey"] {
	case "fail":
		for i := 1; i < 5; i++ {
			st.Fail("GetResponseSigningKey", i)
		}
	case "nil":
		st.RespKeyNil = true
	case "nokey":
		st.RespKey.Key = nil
	case "nocert":
		st.RespKey.Certificate = nil
	case "emptycert":
		st.RespKey.Certificate = []byte{}
	case "mismatch":
		st.RespKey.Key = foreignKeys.Key // a private key that does not belong to the certificate
	}
	cfg := defaultIdpCfg()
	cfg.TimeFormat = cbTimeLayout(c["timeformat"])
	switch c["sigalg"] {
	case "rsa-sha1":
		cfg.SigAlg = algRSASHA1
	case "invalid":
		cfg.SigAlg = "urn:example:not-an-algorithm"
	}
	prov, err := newProvider(st, cfg)
	if err != nil {
		r.Err = err.Error()
		return r
	}
	r.Prov = prov
	req := HTTPReq{Method: "GET", Path: "/login"}
	switch c["idplace"] {
	case "query":
		req.Query = "id=" + rec.ID
	case "empty":
		req.Query = "id="
	case "body":
		req.Method, req.Body, req.CType = "POST", "id="+rec.ID, "application/x-www-form-urlencoded"
	case "both":
		req.Method, req.Body, req.CType = "POST", "id="+rec.ID, "application/x-www-form-urlencoded"
		req.Query = "id=ar-unknown"
	}
	r.Req = req
	st.ResetLog()
	r.Before = time.Now()
	r.Reply = serve(prov.HttpHandler(), req)
	r.After = time.Now()
	r.Deliv = classify(r.Reply)
	r.Calls = append([]StorageCall{}, st.Calls...)
	return r
}

func (r *CbRun) detail() map[string]interface{} {
	d := map[string]interface{}{"case": r.Case.diffOf(cbDims), "request": r.Req, "record": r.Rec, "reply_kind": r.Deliv.Kind, "reply_code": r.Reply.Code,
		"location": r.Reply.Location, "storage_calls": r.Calls}
	if r.Deliv.Msg != nil {
		d["message"] = r.Deliv.Msg
	}
	if r.Deliv.Err != "" {
		d["parse_error"] = r.Deliv.Err
	}
	if r.Reply.Panicked {
		d["panic"] = strings.SplitN(r.Reply.PanicMsg, "\n", 2)[0]
	}
	if len(r.Reply.Body) < 400 {
		d["body"] = r.Reply.Body
	}
	return d
}

func (r *CbRun) success() bool {
	return r.Deliv.Msg != nil && r.Deliv.Msg.Status == provider.StatusCodeSuccess
}

// positivePath: by construction, everything the callback needs for a Success answer is in place
func (r *CbRun) positivePath() bool {
	c := r.Case
	idOK := c["idplace"] == "query" || c["idplace"] == "body" || c["idplace"] == "both" // body wins over the query
	return idOK && c["record"] == "done" && c["lookup"] == "ok" && c["entity"] == "ok" && c["userinfo"] == "ok" && c["user"] != "missing" &&
		c["respkey"] == "ok" && c["sigalg"] != "invalid"
}

// ---- C01

func monC01(c *Ctx, r *CbRun) {
	site := "callbackHandleFunc"
	if r.Reply.Panicked {
		return
	}
	userFetched := len(r.Storage.CallsOf("SetUserinfoWithUserID")) > 0
	if userFetched && !(r.Rec != nil && r.Rec.IsDone) {
		c.issue(Issue{Kind: "violation", What: "user data fetched although the request is not done", Site: site, Class: "fetch-before-done", Detail: r.detail()})
	}
	m := r.Deliv.Msg
	if r.success() {
		if !r.positivePath() {
			c.issue(Issue{Kind: "violation", What: "Success response with an assertion although authentication is not completed / a prerequisite failed", Site: site,
				Class: fmt.Sprintf("success-without-prereq:record=%s,id=%s,entity=%s,userinfo=%s,key=%s,alg=%s", r.Case["record"], r.Case["idplace"], r.Case["entity"], r.Case["userinfo"], r.Case["respkey"], r.Case["sigalg"]), Detail: r.detail()})
		}
		return
	}
	// every other case: no user data, no signature
	if m != nil {
		if m.Status == provider.StatusCodeSuccess || m.Status == "" {
			c.issue(Issue{Kind: "violation", What: "reply without assertion carries Success/empty status", Site: site, Class: "success-status-no-assertion", Detail: r.detail()})
		}
		if m.NameID != "" || len(m.Attrs) > 0 || m.SigValues > 0 {
			c.issue(Issue{Kind: "violation", What: "non-Success reply carries a subject identifier, attributes or a signature", Site: site, Class: "leak-in-failed-response", Detail: r.detail()})
		}
	}
	if r.User != nil {
		raw := r.Reply.Body + r.Reply.Location + string(r.Deliv.MsgBytes)
		for _, marker := range []string{"alice", "uid-1", "Example", "SignatureValue"} {
			if marker == "uid-1" {
				continue // the user id is not user-facing data of the assertion, skip
			}
			if strings.Contains(raw, marker) {
				c.issue(Issue{Kind: "violation", What: "non-Success reply contains user data marker " + marker, Site: site, Class: "leak-raw-bytes", Detail: r.detail()})
			}
		}
	}
}

// ---- C02 (callback slice)

// tmplURLFiltered: html/template's urlFilter replaces the URL by "#ZgotmplZ" when the text before the first ':' (with
// no '/' in it) is not http, https or mailto - stricter than what a browser takes as a scheme
func tmplURLFiltered(u string) bool {
	i := strings.IndexByte(u, ':')
	if i < 0 || strings.ContainsRune(u[:i], '/') {
		return false
	}
	switch strings.ToLower(u[:i]) {
	case "http", "https", "mailto":
		return false
	}
	return true
}

// redirectAddresses: loc is the consumer URL with the message parameters inserted as (or appended to) its query,
// in front of its fragment if it has one.  net/http.Redirect percent-encodes non-ASCII bytes of the target.
func redirectAddresses(loc, acs string) bool {
	t, frag := hexEscapeNonASCII(acs), ""
	if j := strings.Index(t, "#"); j >= 0 {
		t, frag = t[:j], t[j:]
	}
	if !strings.HasPrefix(loc, t) || !strings.HasSuffix(loc, frag) || len(loc) < len(t)+2+len(frag) {
		return false
	}
	mid := loc[len(t) : len(loc)-len(frag)]
	hasQ := strings.Contains(t, "?")
	return ((mid[0] == '?' && !hasQ) || (mid[0] == '&' && hasQ)) && strings.HasPrefix(mid[1:], "SAMLResponse=") && !strings.Contains(mid, "#")
}

func monC02cb(c *Ctx, r *CbRun) {
	if r.Rec == nil || r.Reply.Panicked || r.Case["lookup"] != "ok" || r.Case["idplace"] == "absent" || r.Case["idplace"] == "empty" {
		return
	}
	d := r.Deliv
	site := "callbackHandleFunc"
	switch d.Kind {
	case "post":
		if d.Target != htmlURLNormalize(r.Rec.Acs) && d.Target != r.Rec.Acs && !(d.Target == "#ZgotmplZ" && tmplURLFiltered(r.Rec.Acs)) {
			c.issue(Issue{Kind: "violation", What: "form action differs from the consumer URL persisted for the request", Site: site, Class: "post-target:acs=" + r.Case["acs"], Detail: r.detail()})
		}
		if r.Rec.Binding != provider.PostBinding {
			c.issue(Issue{Kind: "violation", What: "delivered by POST although another binding was persisted", Site: site, Class: "binding-mismatch", Detail: r.detail()})
		}
	case "redirect":
		ok := redirectAddresses(r.Reply.Location, r.Rec.Acs)
		if !ok {
			c.issue(Issue{Kind: "violation", What: "redirect does not address the persisted consumer URL with the message as query parameters", Site: site, Class: "redirect-target:acs=" + r.Case["acs"], Detail: r.detail()})
		}
		if r.Rec.Binding != provider.RedirectBinding {
			c.issue(Issue{Kind: "violation", What: "delivered by redirect although another binding was persisted", Site: site, Class: "binding-mismatch", Detail: r.detail()})
		}
	}
	if d.Msg != nil && r.Rec.Acs != "" {
		if d.Msg.Destination != r.Rec.Acs {
			c.issue(Issue{Kind: "violation", What: "Destination differs from the persisted consumer URL", Site: site, Class: "destination", Detail: r.detail()})
		}
		if r.success() && d.Msg.SCRecipient != r.Rec.Acs {
			c.issue(Issue{Kind: "violation", What: "Recipient differs from the persisted consumer URL", Site: site, Class: "recipient", Detail: r.detail()})
		}
	}
}

// htmlURLNormalize mirrors html/template's URL normaliser well enough for the ASCII-safe consumer URLs used here;
// the byte-exact model lives in Lean (C17).
func htmlURLNormalize(s string) string {
	var b strings.Builder
	for i := 0; i < len(s); i++ {
		ch := s[i]
		switch {
		case ch >= 'a' && ch <= 'z', ch >= 'A' && ch <= 'Z', ch >= '0' && ch <= '9':
			b.WriteByte(ch)
		case strings.IndexByte("!#$&*+,/:;=?@[]-._~", ch) >= 0:
			b.WriteByte(ch)
		case ch == '%' && i+2 < len(s) && isHex(s[i+1]) && isHex(s[i+2]):
			b.WriteByte(ch)
		default:
			fmt.Fprintf(&b, "%%%02x", ch)
		}
	}
	return b.String()
}

func isHex(c byte) bool {
	return c >= '0' && c <= '9' || c >= 'a' && c <= 'f' || c >= 'A' && c <= 'F'
}

// ---- C03

var idRe = regexp.MustCompile(`^_[0-9a-f]{8}-[0-9a-f]{4}-[0-9a-f]{4}-[0-9a-f]{4}-[0-9a-f]{12}$`)

func specAttrs(u *User) []MsgAttr {
	basic := "urn:oasis:names:tc:SAML:2.0:attrname-format:basic"
	var out []MsgAttr
	add := func(name, v string) {
		if v != "" {
			out = append(out, MsgAttr{Name: name, Format: basic, Values: []string{v}})
		}
	}
	add("Email", u.Email)
	add("SurName", u.Surname)
	add("FirstName", u.GivenName)
	add("FullName", u.FullName)
	add("UserName", u.Username)
	add("UserID", u.UserID)
	return out
}

func attrKey(a MsgAttr) string {
	return a.Name + "\x00" + a.Format + "\x00" + a.Friendly + "\x00" + strings.Join(a.Values, "\x01") + fmt.Sprintf("\x00%d", len(a.Values))
}

func monC03(c *Ctx, r *CbRun) {
	if !r.success() || r.Rec == nil || r.User == nil {
		return
	}
	site := "callbackHandleFunc"
	m := r.Deliv.Msg
	bad := func(what, class string) {
		c.issue(Issue{Kind: "violation", What: what, Site: site, Class: class, Detail: r.detail()})
	}
	entityID := "https://idp.example.com/saml/metadata"
	if m.InResponseTo != r.Rec.ReqID || m.SCInResponse != r.Rec.ReqID {
		bad("InResponseTo is not the ID of the original AuthnRequest", "in-response-to")
	}
	if r.Rec.Acs != "" && (m.Destination != r.Rec.Acs || m.SCRecipient != r.Rec.Acs) {
		bad("Destination/Recipient differ from the consumer URL", "destination")
	}
	if m.Issuer != entityID || m.AssertIssuer != entityID {
		bad("Issuer is not the IdP entity ID", "issuer")
	}
	if len(m.Audiences) != 1 || m.Audiences[0] != r.Entity {
		bad("Audience is not the entity ID registered for the application", "audience")
	}
	if m.NameID != r.User.Username {
		bad("NameID is not the user's", "nameid")
	}
	// attributes: standard ones in fixed order, then custom ones in any order; values verbatim
	std := specAttrs(r.User)
	if len(m.Attrs) < len(std) {
		bad("standard attributes missing", "attrs-standard")
	} else {
		for i, a := range std {
			if attrKey(m.Attrs[i]) != attrKey(a) {
				bad("standard attribute "+a.Name+" altered", "attrs-standard")
				break
			}
		}
		var got, want []string
		for _, a := range m.Attrs[len(std):] {
			got = append(got, attrKey(a))
		}
		for _, cu := range r.User.Custom {
			want = append(want, attrKey(MsgAttr{Name: cu.Name, Format: cu.Format, Friendly: cu.Friendly, Values: cu.Values}))
		}
		sort.Strings(got)
		sort.Strings(want)
		if strings.Join(got, "|") != strings.Join(want, "|") {
			bad("custom attributes added, dropped or altered", "attrs-custom")
		}
	}
	if r.Deliv.Kind == "post" || r.Deliv.Kind == "redirect" {
		if r.Deliv.Relay != r.Rec.Relay {
			bad("RelayState not returned byte for byte", "relay:"+r.Case["relay"])
		}
	}
	// validity window
	layout := cbTimeLayout(r.Case["timeformat"])
	if layout == "" {
		layout = "2006-01-02T15:04:05.999999Z"
	}
	ii, e1 := time.Parse(layout, m.IssueInstant)
	noa, e2 := time.Parse(layout, m.NotOnOrAfter)
	if e1 != nil || e2 != nil {
		bad("timestamps not in the configured format", "time-format")
	} else {
		if m.NotBefore != m.IssueInstant || m.AuthnInstant != m.IssueInstant || m.SCNotOnOrAft != m.NotOnOrAfter {
			bad("NotBefore/AuthnInstant differ from IssueInstant", "window-equalities")
		}
		gran := map[string]time.Duration{"rfc3339": time.Second, "fixed-frac": time.Millisecond}[r.Case["timeformat"]]
		if gran == 0 {
			gran = time.Microsecond
		}
		if ii.Before(r.Before.Add(-time.Millisecond).Truncate(gran)) || ii.After(r.After) {
			bad("IssueInstant outside the wall-clock bracket of the call", "issue-instant")
		}
		if noa.Sub(ii) != 5*time.Minute && !(r.Case["timeformat"] == "rfc3339" && noa.Sub(ii).Round(time.Second) == 5*time.Minute && noa.Nanosecond() == 0 && ii.Nanosecond() == 0) {
			bad("NotOnOrAfter is not IssueInstant + lifetime", "lifetime")
		}
	}
	if m.ID == m.AssertionID || !idRe.MatchString(m.ID) || !idRe.MatchString(m.AssertionID) {
		bad("response/assertion IDs not distinct xs:ID values", "ids")
	}
}

// ---- C04: independent verification of what was sent

func idpCert() *x509.Certificate {
	cert, err := x509.ParseCertificate(idpKeys.Cert)
	if err != nil {
		panic(err)
	}
	return cert
}

// verifyRedirectIndependently implements SAML bindings §3.4.4.1 on the raw query string.
func verifyRedirectIndependently(rawQuery string, pub *rsa.PublicKey) error {
	raw := map[string]string{}
	for _, kv := range strings.Split(rawQuery, "&") {
		p := strings.SplitN(kv, "=", 2)
		if len(p) == 2 {
			if _, dup := raw[p[0]]; !dup {
				raw[p[0]] = p[1]
			}
		}
	}
	if raw["Signature"] == "" || raw["SigAlg"] == "" {
		return fmt.Errorf("no Signature/SigAlg parameter")
	}
	octets := "SAMLResponse=" + raw["SAMLResponse"]
	if v, ok := raw["RelayState"]; ok {
		octets += "&RelayState=" + v
	}
	octets += "&SigAlg=" + raw["SigAlg"]
	alg, err := url.QueryUnescape(raw["SigAlg"])
	if err != nil {
		return err
	}
	sigB64, err := url.QueryUnescape(raw["Signature"])
	if err != nil {
		return err
	}
	sig, err := base64.StdEncoding.DecodeString(sigB64)
	if err != nil {
		return fmt.Errorf("Signature is not base64 after one level of percent-decoding: %v", err)
	}
	switch alg {
	case algRSASHA1:
		s := sha1.Sum([]byte(octets))
		return rsa.VerifyPKCS1v15(pub, crypto.SHA1, s[:], sig)
	case algRSASHA256:
		s := sha256.Sum256([]byte(octets))
		return rsa.VerifyPKCS1v15(pub, crypto.SHA256, s[:], sig)
	}
	return fmt.Errorf("SigAlg %q is not a signature algorithm URI", alg)
}

// verifyEnvelopedIndependently validates the signature over the element with the given tag using goxmldsig + etree
// (exclusive C14N), a different implementation from the signer (amdonov/xmlsig).
func verifyEnvelopedIndependently(doc []byte, tag string, cert *x509.Certificate) error {
	d := etree.NewDocument()
	if err := d.ReadFromBytes(doc); err != nil {
		return err
	}
	el := d.FindElement("//" + tag)
	if el == nil {
		return fmt.Errorf("no %s element", tag)
	}
	ctx := dsig.NewDefaultValidationContext(&dsig.MemoryX509CertificateStore{Roots: []*x509.Certificate{cert}})
	ctx.IdAttribute = "ID"
	// detach so that namespace declarations of ancestors are carried along
	detached := el.Copy()
	nsDoc := etree.NewDocument()
	// propagate in-scope namespaces
	for p := el.Parent(); p != nil; p = p.Parent() {
		for _, a := range p.Attr {
			if a.Space == "xmlns" || (a.Space == "" && a.Key == "xmlns") {
				if detached.SelectAttr(a.FullKey()) == nil {
					detached.CreateAttr(a.FullKey(), a.Value)
				}
			}
		}
	}
	nsDoc.SetRoot(detached)
	_, err := ctx.Validate(detached)
	return err
}

func signedStringClass(r *CbRun) string {
	if r.User == nil {
		return "clean"
	}
	all := []string{r.User.Email, r.User.FullName, r.User.GivenName, r.User.Surname, r.User.Username, r.Rec.ReqID, r.Rec.Acs, r.Entity}
	for _, cu := range r.User.Custom {
		all = append(all, cu.Name, cu.Friendly, cu.Format)
		all = append(all, cu.Values...)
	}
	for _, s := range all {
		if strings.ContainsAny(s, "&<>\r\"\t\n") {
			return "special-chars"
		}
	}
	return "clean"
}

func monC04cb(c *Ctx, r *CbRun) {
	if !r.success() || r.Reply.Panicked {
		return
	}
	site := "callbackHandleFunc"
	d := r.Deliv
	cert := idpCert()
	switch d.Kind {
	case "post":
		if !d.Msg.AssertSigned {
			c.issue(Issue{Kind: "violation", What: "Success assertion delivered by POST without a signature", Site: "createPostSignature", Class: "unsigned-post", Detail: r.detail()})
			return
		}
		if err := verifyEnvelopedIndependently(d.MsgBytes, "Assertion", cert); err != nil {
			c.issue(Issue{Kind: "violation", What: "POST-binding assertion signature does not verify under an independent verifier (goxmldsig, exc-c14n): " + err.Error(),
				Site: "createPostSignature", Class: "enveloped:" + signedStringClass(r), Detail: r.detail()})
		}
	case "redirect":
		if err := verifyRedirectIndependently(d.RawQuery, cert.PublicKey.(*rsa.PublicKey)); err != nil {
			c.issue(Issue{Kind: "violation", What: "Redirect-binding signature does not verify over the URL actually sent: " + err.Error(), Site: "createRedirectSignature",
				Class: "redirect-signature:relay=" + r.Case["relay"], Detail: r.detail()})
		}
	default:
		// delivered in the HTTP body (no consumer URL): the assertion must carry a verifying enveloped signature.
		// The property quantifies over stored bindings POST and Redirect; other stored bindings are never persisted by the SSO endpoint.
		if r.Case["binding"] != "post" && r.Case["binding"] != "redirect" {
			return
		}
		if !d.Msg.AssertSigned {
			c.issue(Issue{Kind: "violation", What: "Success assertion leaves the IdP unsigned (delivery " + d.Kind + ")", Site: site,
				Class: "unsigned-success:binding=" + r.Case["binding"] + ",acs=" + r.Case["acs"], Detail: r.detail()})
			return
		}
		if err := verifyEnvelopedIndependently(d.MsgBytes, "Assertion", cert); err != nil {
			c.issue(Issue{Kind: "violation", What: "assertion signature (body delivery) does not verify under an independent verifier: " + err.Error(),
				Site: "createPostSignature", Class: "enveloped:" + signedStringClass(r), Detail: r.detail()})
		}
	}
}

type cbMonitor func(c *Ctx, r *CbRun)

func cbEnumerate(each func(Case)) {
	seen := map[string]bool{}
	emit := func(c Case) {
		k := c.key()
		if !seen[k] {
			seen[k] = true
			each(c)
		}
	}
	bases := []Case{cbBase(), cbBase().with("binding", "redirect"), cbBase().with("idplace", "body", "user", "hostile")}
	for _, b := range bases {
		emit(b)
		for i, d1 := range cbDims {
			for _, v1 := range d1.vals {
				c1 := b.with(d1.name, v1)
				emit(c1)
				for _, d2 := range cbDims[i+1:] {
					for _, v2 := range d2.vals {
						emit(c1.with(d2.name, v2))
					}
				}
			}
		}
	}
}

func cbSuite(c *Ctx, mon cbMonitor, rule string) {
	c.rep.Rule = "login-callback requests over " + fmt.Sprint(len(cbDims)) + " label dimensions (id placement, stored record state, binding, consumer URL, RelayState, request ID, user record, each downstream storage/key outcome, signature algorithm): every single and pairwise sweep from 3 base cases plus random 3-5 edit cases. Non-trivial = the stored request was found; distinct = distinct label vector. " + rule
	one := func(cs Case) {
		r := runCb(cs)
		c.rep.Evaluations++
		if r.Rec != nil && cs["lookup"] == "ok" && (cs["idplace"] == "query" || cs["idplace"] == "body") {
			c.nontrivial(cs.key())
		}
		outcome := r.Deliv.Kind
		if r.Deliv.Msg != nil {
			outcome += ":" + statusShort(r.Deliv.Msg.Status)
		}
		c.hist("outcome", outcome)
		mon(c, r)
		cbModelCompare(c, r)
		if c.rep.Evaluations%499 == 1 {
			c.sample(map[string]interface{}{"case": cs.diffOf(cbDims), "outcome": outcome, "storage_calls": len(r.Calls)})
		}
	}
	cbEnumerate(one)
	n := 1500
	if c.thorough() {
		n = 40000
	}
	base := cbBase()
	for i := 0; i < n; i++ {
		cs := base
		for e := 0; e < 3+c.rng.intn(3); e++ {
			d := cbDims[c.rng.intn(len(cbDims))]
			cs = cs.with(d.name, d.vals[c.rng.intn(len(d.vals))])
		}
		one(cs)
	}
}

// cbModelCompare is filled in by cbmodel.go once the Lean callback model exists.
var cbModelCompare = func(c *Ctx, r *CbRun) {}

func init() {
	props["survey-cb"] = func(c *Ctx) {
		cbSuite(c, func(c *Ctx, r *CbRun) {
			monC01(c, r)
			monC02cb(c, r)
			monC03(c, r)
			monC04cb(c, r)
			if r.Reply.Panicked {
				c.issue(Issue{Kind: "violation", What: "panic: " + strings.SplitN(r.Reply.PanicMsg, "\n", 2)[0], Site: "callbackHandleFunc", Class: panicSite(r.Reply.PanicMsg), Detail: r.detail()})
			}
		}, "all monitors")
	}
}

func init() {
	props["C01"] = func(c *Ctx) {
		cbSuite(c, monC01, "Monitor: decoded reply (status, subject, attributes, signature values) and raw reply bytes vs. the user's markers; SetUserinfoWithUserID invocations.")
	}
	props["C03"] = func(c *Ctx) {
		buildersDiff(c)
		cbSuite(c, monC03, "Monitor: decoded Success response compared field by field with the storage record, the user record and the wall-clock bracket of the call.")
	}
}
