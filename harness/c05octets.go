package main

// Differential for the translated ServiceProvider.ValidateRedirectSignature (RedirectSigGen): the octets the *model* says
// the signature is checked over are signed with a real key; the real method must accept that signature for exactly these
// three values and refuse it as soon as one of them changes.

import (
	"crypto/rand"
	"crypto/rsa"
	"encoding/base64"
	"strings"

	"github.com/zitadel/saml/pkg/provider/serviceprovider"
)

func reqOctetsDiff(c *Ctx) {
	if c.drv == nil {
		return
	}
	initKeys()
	metadata := SPSpec{EntityID: spEntity, AppID: "app-1", ReqSigned: "-", Certs: []string{spKeys.B64}, Acs: acsFor("post")}.MetadataXML()
	sp, err := serviceprovider.NewServiceProvider("app-1", &serviceprovider.Config{Metadata: metadata}, func(id string) string { return "/login?id=" + id })
	if err != nil {
		c.issue(Issue{Kind: "disagreement", What: "NewServiceProvider refuses the harness metadata: " + err.Error(), Site: "lib reqoctets"})
		return
	}
	algs := []string{algRSASHA1, algRSASHA256}
	vals := []string{"", "a", "rs-1", "a b", "a+b", "ä ö", "x=y&z", "%41", "100%", "~._-", "\x00\x7f", "Zm9v+/=", strings.Repeat("q", 300)}
	n := 60
	if c.thorough() {
		n = 1500
	}
	type tc struct{ req, relay, alg string }
	var cases []tc
	for _, r := range vals {
		for _, rs := range vals[:8] {
			cases = append(cases, tc{r, rs, algs[(len(r)+len(rs))%2]})
		}
	}
	for i := 0; i < n; i++ {
		rb := make([]byte, 1+c.rng.intn(24))
		for j := range rb {
			rb[j] = byte(c.rng.intn(256))
		}
		cases = append(cases, tc{base64.StdEncoding.EncodeToString(rb), vals[c.rng.intn(len(vals))], algs[c.rng.intn(2)]})
	}
	var lines []string
	for _, t := range cases {
		lines = append(lines, "lib reqoctets "+tokStr(t.req)+" "+tokStr(t.relay)+" "+tokStr(t.alg))
	}
	got := c.drv.AskMany(lines)
	for i, t := range cases {
		c.rep.Evaluations++
		if !strings.HasPrefix(got[i], "x") {
			c.issue(Issue{Kind: "disagreement", What: "driver gave no octets: " + got[i], Site: "lib reqoctets", Detail: map[string]interface{}{"request": t.req, "relay": t.relay, "alg": t.alg}})
			continue
		}
		octets := untokStr(strings.Fields(got[i])[0])
		h, _, sum := hashFor(t.alg)
		sig, err := rsa.SignPKCS1v15(rand.Reader, spKeys.Key, h, sum([]byte(octets)))
		if err != nil {
			panic(err)
		}
		sigB64 := base64.StdEncoding.EncodeToString(sig)
		detail := map[string]interface{}{"request": t.req, "relay": t.relay, "alg": t.alg, "model_octets": octets}
		if t.req != "" { // verifyRedirectSignature refuses an empty request before the method is reached; the method itself is total
			if err := sp.ValidateRedirectSignature(t.req, t.relay, t.alg, sigB64); err != nil {
				c.issue(Issue{Kind: "disagreement", What: "ValidateRedirectSignature refuses a signature over the octets of the model (RedirectSigGen.octets): " + err.Error(), Site: "lib reqoctets", Class: "octets", Detail: detail})
			}
		}
		// the same signature must not verify for another request, RelayState (when one is covered) or algorithm
		if err := sp.ValidateRedirectSignature(t.req+"A", t.relay, t.alg, sigB64); err == nil {
			c.issue(Issue{Kind: "violation", What: "a redirect signature verifies for a request it was not made over", Site: "ValidateRedirectSignature", Class: "octets-not-injective:request", Detail: detail})
		}
		if err := sp.ValidateRedirectSignature(t.req, t.relay+"A", t.alg, sigB64); err == nil {
			c.issue(Issue{Kind: "violation", What: "a redirect signature verifies for a RelayState it was not made over", Site: "ValidateRedirectSignature", Class: "octets-not-injective:relay", Detail: detail})
		}
		c.hist("reqoctets", map[bool]string{true: "relay-covered", false: "no-relay"}[t.relay != ""])
	}
}
