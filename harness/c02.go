package main

// C02 — delivery targets: composes the SSO, callback and logout suites with their target monitors.

func init() {
	props["C02"] = func(c *Ctx) {
		ssoSuite(c, monC02sso, "")
		rule1 := c.rep.Rule
		cbSuite(c, monC02cb, "")
		rule2 := c.rep.Rule
		sloSuite(c, func(c *Ctx, r *SloRun) {
			if r.Reply.Panicked {
				return
			}
			d := r.Deliv
			if d.Kind == "post" {
				if len(r.SloURLs) == 0 || (d.Target != r.SloURLs[0] && d.Target != htmlURLNormalize(r.SloURLs[0])) {
					c.issue(Issue{Kind: "violation", What: "LogoutResponse posted to something other than the first registered SingleLogoutService location", Site: "logoutHandleFunc", Class: "slo-target", Detail: r.detail()})
				}
				if d.Msg != nil && d.Msg.Destination != r.SloURLs[0] {
					c.issue(Issue{Kind: "violation", What: "LogoutResponse Destination differs from the registered location", Site: "logoutHandleFunc", Class: "slo-destination", Detail: r.detail()})
				}
			}
		}, "")
		c.rep.Rule = "Three suites, each with the delivery-target monitor (form action / Location / Destination / Recipient / CreateAuthRequest arguments must come from registered metadata or the stored request): [SSO] " + rule1 + " [callback] " + rule2 + " [logout] " + c.rep.Rule
	}
}
